import DAVerif.Spec.SqlSem
import DAVerif.Proofs.BuilderWF
import DAVerif.Proofs.Perm
/-!
C01/C02, basic lemmas: rows (`get`/`select`/`setAll`/`rename`/`drop`), Python-dict lookups (`lookupLast`, `dictSet`),
"an expression / a comparison / a key only reads its columns" (congruence under `Row.select`), list transport lemmas,
`outCols`, the shape of `semNear` on a unary step (`stepTable`), `setTermKeys`.
-/
namespace DAVerif
namespace Sql
open DAVerif.Ops (usedFromSources unionL)

/-! ### membership helpers -/

theorem contains_iff {l : List String} {c : String} : l.contains c = true ↔ c ∈ l := by simp

theorem mem_unionL {a b : List String} {c : String} : c ∈ unionL a b ↔ c ∈ a ∨ c ∈ b := mem_appendNew

theorem unionL_nil (a : List String) : unionL a [] = a := rfl

/-! ### rows -/

theorem Row.get_select (r : Row) (cs : List String) (c : String) :
    (Row.select r cs).get c = if c ∈ cs then r.get c else .null := by
  induction cs with
  | nil => simp [Row.select, Row.get]
  | cons x cs ih =>
    simp only [Row.select, Row.get, List.map_cons, List.lookup_cons] at ih ⊢
    cases hcx : c == x with
    | true => simp only [beq_iff_eq] at hcx; subst hcx; simp [Row.get]
    | false =>
      have hne : c ≠ x := by simpa using hcx
      simp only [ih, List.mem_cons, hne, false_or]

theorem Row.get_select_mem {r : Row} {cs : List String} {c : String} (h : c ∈ cs) :
    (Row.select r cs).get c = r.get c := by rw [Row.get_select, if_pos h]

theorem Row.select_congr {r r' : Row} {u : List String} :
    r.select u = r'.select u ↔ ∀ c ∈ u, r.get c = r'.get c := by
  induction u with
  | nil => simp [Row.select]
  | cons x u ih =>
    simp only [Row.select, List.map_cons, List.cons.injEq, Prod.mk.injEq, true_and, List.mem_cons,
      forall_eq_or_imp] at ih ⊢
    rw [ih]

theorem Row.select_select {r : Row} {S u : List String} (h : ∀ c ∈ u, c ∈ S) :
    (r.select S).select u = r.select u :=
  Row.select_congr.mpr (fun c hc => Row.get_select_mem (h c hc))

theorem Row.get_of_select_eq {r r' : Row} {S : List String} (h : r.select S = r'.select S) {c : String}
    (hc : c ∈ S) : r.get c = r'.get c := Row.select_congr.mp h c hc

theorem Row.get_cons (k : String) (v : Val) (r : Row) (c : String) :
    Row.get ((k, v) :: r) c = if c = k then v else Row.get r c := by
  by_cases h : c = k
  · subst h; simp [Row.get, List.lookup_cons]
  · have hck : (c == k) = false := by simpa using h
    simp [Row.get, List.lookup_cons, hck, h]

theorem Row.get_nil (c : String) : Row.get [] c = .null := rfl

theorem Row.get_set (r : Row) (k : String) (v : Val) (c : String) :
    (r.set k v).get c = if c = k then v else r.get c := by
  induction r with
  | nil => simp only [Row.set, Row.get_cons]
  | cons kv r ih =>
    obtain ⟨k0, x⟩ := kv
    by_cases hk : k0 = k
    · subst hk
      simp only [Row.set, beq_self_eq_true, ↓reduceIte, Row.get_cons]
      by_cases h : c = k0 <;> simp [h]
    · have hk' : (k0 == k) = false := by simpa using hk
      simp only [Row.set, hk', Bool.false_eq_true, ↓reduceIte, Row.get_cons, ih]
      by_cases h1 : c = k0
      · subst h1; simp [hk]
      · simp [h1]

theorem Row.keys_eq_map (r : Row) : r.keys = r.map (·.1) := rfl

theorem Row.get_eq_null_of_not_mem {r : Row} {c : String} (h : c ∉ r.keys) : r.get c = .null := by
  induction r with
  | nil => rfl
  | cons kv r ih =>
    obtain ⟨k, v⟩ := kv
    simp only [Row.keys, List.map_cons, List.mem_cons, not_or] at h
    rw [Row.get_cons, if_neg h.1]
    exact ih h.2

theorem Row.get_drop (r : Row) (dels : List String) {c : String} (h : c ∉ dels) :
    (r.drop dels).get c = r.get c := by
  induction r with
  | nil => rfl
  | cons kv r ih =>
    obtain ⟨k, v⟩ := kv
    have hd : Row.drop ((k, v) :: r) dels = if k ∈ dels then Row.drop r dels else (k, v) :: Row.drop r dels := by
      by_cases hk : k ∈ dels <;> simp [Row.drop, List.filter_cons, hk]
    rw [hd]
    by_cases hk : k ∈ dels
    · have hck : c ≠ k := by rintro rfl; exact h hk
      rw [if_pos hk, Row.get_cons, if_neg hck, ih]
    · rw [if_neg hk, Row.get_cons, Row.get_cons, ih]

/-- lookup in a renamed row, for a renaming that is injective on the row's keys -/
theorem Row.get_rename {r : Row} {f : String → String} {c0 : String} (hc0 : c0 ∈ r.keys)
    (hinj : ∀ k ∈ r.keys, f k = f c0 → k = c0) : (r.rename f).get (f c0) = r.get c0 := by
  induction r with
  | nil => cases hc0
  | cons kv r ih =>
    obtain ⟨k, v⟩ := kv
    have hr : Row.rename ((k, v) :: r) f = (f k, v) :: Row.rename r f := rfl
    simp only [Row.keys, List.map_cons, List.mem_cons] at hc0 hinj
    rw [hr, Row.get_cons, Row.get_cons]
    by_cases hk : c0 = k
    · subst hk; simp
    · have hne : f c0 ≠ f k := fun e => hk (hinj k (Or.inl rfl) e.symm).symm
      rw [if_neg hne, if_neg hk]
      rcases hc0 with e | hc0
      · exact absurd e hk
      · exact ih hc0 (fun k' hk' => hinj k' (Or.inr hk'))

/-! ### Python dictionaries as association lists -/

theorem lookupLast_nil {β : Type} (k : String) : lookupLast ([] : List (String × β)) k = none := rfl

theorem lookupLast_append {β : Type} (a b : List (String × β)) (k : String) :
    lookupLast (a ++ b) k = (lookupLast b k).or (lookupLast a k) := by
  simp only [lookupLast, List.reverse_append, List.find?_append]
  cases h : List.find? (fun kv => kv.1 == k) b.reverse <;> simp

theorem lookupLast_cons {β : Type} (k' : String) (v : β) (a : List (String × β)) (k : String) :
    lookupLast ((k', v) :: a) k = (lookupLast a k).or (if k = k' then some v else none) := by
  have : (k', v) :: a = [(k', v)] ++ a := rfl
  rw [this, lookupLast_append]
  congr 1
  simp only [lookupLast, List.reverse_cons, List.reverse_nil, List.nil_append, List.find?_cons, List.find?_nil]
  by_cases h : k = k'
  · subst h; simp
  · have : (k' == k) = false := by simpa using fun e => h e.symm
    simp [h, this]

theorem lookupLast_concat {β : Type} (a : List (String × β)) (k' : String) (v : β) (k : String) :
    lookupLast (a ++ [(k', v)]) k = if k = k' then some v else lookupLast a k := by
  rw [lookupLast_append]
  simp only [lookupLast, List.reverse_cons, List.reverse_nil, List.nil_append, List.find?_cons, List.find?_nil]
  by_cases h : k = k'
  · subst h; simp
  · have : (k' == k) = false := by simpa using fun e => h e.symm
    simp [h, this]

theorem lookupLast_eq_none_iff {β : Type} {m : List (String × β)} {k : String} :
    lookupLast m k = none ↔ k ∉ m.map (·.1) := by
  simp only [lookupLast, Option.map_eq_none_iff, List.find?_eq_none, List.mem_reverse, beq_iff_eq, List.mem_map,
    not_exists, not_and]

theorem lookupLast_isSome_iff {β : Type} {m : List (String × β)} {k : String} :
    (lookupLast m k).isSome = true ↔ k ∈ m.map (·.1) := by
  have := @lookupLast_eq_none_iff β m k
  cases h : lookupLast m k with
  | none => simp [h] at this; simpa using this
  | some v => simp [h] at this; simpa using this

theorem lookupLast_mem {β : Type} {m : List (String × β)} {k : String} {v : β} (h : lookupLast m k = some v) :
    (k, v) ∈ m := by
  simp only [lookupLast, Option.map_eq_some_iff] at h
  obtain ⟨kv, hf, rfl⟩ := h
  have h1 := List.find?_some hf
  have h2 := List.mem_of_find?_eq_some hf
  simp only [beq_iff_eq] at h1
  subst h1
  simpa using h2

theorem nodup_keys_unique {β : Type} {m : List (String × β)} (hnd : (m.map (·.1)).Nodup) {k : String} {v v' : β}
    (h : (k, v) ∈ m) (h' : (k, v') ∈ m) : v = v' := by
  induction m with
  | nil => cases h
  | cons kv m ih =>
    simp only [List.map_cons, List.nodup_cons, List.mem_map, not_exists, not_and] at hnd
    rcases List.mem_cons.mp h with e | e <;> rcases List.mem_cons.mp h' with e' | e'
    · rw [← e] at e'; exact ((Prod.mk.inj e').2).symm
    · subst e; exact absurd rfl (hnd.1 (k, v') e')
    · subst e'; exact absurd rfl (hnd.1 (k, v) e)
    · exact ih hnd.2 e e'

theorem lookupLast_of_nodup {β : Type} {m : List (String × β)} (hnd : (m.map (·.1)).Nodup) {k : String} {v : β}
    (h : (k, v) ∈ m) : lookupLast m k = some v := by
  cases hl : lookupLast m k with
  | none =>
    exact absurd (List.mem_map.mpr ⟨(k, v), h, rfl⟩) (lookupLast_eq_none_iff.mp hl)
  | some v' => rw [nodup_keys_unique hnd (lookupLast_mem hl) h]

/-- Python-dict lookup on an association list that is the result of `setAll` -/
theorem Row.get_setAll (r : Row) (kvs : List (String × Val)) (c : String) :
    (r.setAll kvs).get c = (lookupLast kvs c).getD (r.get c) := by
  induction kvs generalizing r with
  | nil => rfl
  | cons kv kvs ih =>
    obtain ⟨k, v⟩ := kv
    have : Row.setAll r ((k, v) :: kvs) = Row.setAll (Row.set r k v) kvs := rfl
    rw [this, ih, Row.get_set, lookupLast_cons]
    cases lookupLast kvs c with
    | some x => rfl
    | none => by_cases h : c = k <;> simp [h]

end Sql
end DAVerif
