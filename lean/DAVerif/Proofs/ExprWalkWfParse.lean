import DAVerif.Proofs.ExprWalkWfDefs
/-!
C13: every tree the parser model produces has the shape `gram` (induction on the parser's fuel).
-/
namespace DAVerif.C13W
open DAVerif DAVerif.Expr

/-! ## `classify` on the rule names the parser uses -/

theorem classify_not : classify "not" = .not := by decide
theorem classify_getattr : classify "getattr" = .other := by decide
theorem classify_atom : classify "atom" = .other := by decide
theorem classify_shift : classify "shift_expr" = .other := by decide
theorem classify_expr : classify "expr" = .bitwise := by decide
theorem classify_xor : classify "xor_expr" = .bitwise := by decide
theorem classify_and_expr : classify "and_expr" = .bitwise := by decide
theorem classify_tuple : classify "tuple" = .collection := by decide
theorem classify_set : classify "set" = .collection := by decide

/-! ## `gram` on the nodes the parser builds -/

theorem gram_node (rule : String) (ch : List Cst) : gram (.node rule ch) =
    (match classify rule with
    | .constTrue => true
    | .constFalse => true
    | .constNone => true
    | .wrapper =>
      match ch with
      | [.tok _] => true
      | _ => false
    | .arith => gramLevel ch
    | .term => gramLevel ch
    | .comparison => gramLevel ch
    | .orTest => gramLevel ch
    | .andTest => gramLevel ch
    | .bitwise => true
    | .other =>
      if rule == "getattr" then
        match ch with
        | [recv, .tok _] => gram recv
        | _ => false
      else rule == "shift_expr" || rule == "atom"
    | .power =>
      match ch with
      | [a, b] => gram a && gram b
      | _ => false
    | .factor =>
      match ch with
      | [.tok t, x] => t.kind == .op && unaryOps.contains t.text && gram x
      | _ => false
    | .not =>
      match ch with
      | [x] => gram x
      | _ => false
    | .funccall =>
      match ch with
      | [carrier, more] =>
        gram carrier &&
        (match more with
         | .none => true
         | .node _ items => gramArgs items
         | .tok _ => false)
      | _ => false
    | .collection =>
      match ch with
      | [.none] => true
      | [.node r items] =>
        if r == "tuplelist_comp" || r == "set_comp" then !items.isEmpty && gramAll items
        else gram (.node r items)
      | _ => false
    | .dict =>
      match ch with
      | [.none] => true
      | [.node _ items] => !items.isEmpty && gramKVs items
      | _ => false
    | .keyValue => false) := by
  conv => lhs; rw [gram.eq_def]
  all_goals rfl

theorem gram_var (t : Token) : gram (.node "var" [.tok t]) = true := by
  rw [gram_node]; simp only [classify_var]
theorem gram_number (t : Token) : gram (.node "number" [.tok t]) = true := by
  rw [gram_node]; simp only [classify_number]
theorem gram_string (t : Token) : gram (.node "string" [.tok t]) = true := by
  rw [gram_node]; simp only [classify_string]
theorem gram_atom (ch : List Cst) : gram (.node "atom" ch) = true := by
  rw [gram_node]; simp only [classify_atom]; simp
theorem gram_const_none : gram (.node "const_none" []) = true := by decide
theorem gram_const_true : gram (.node "const_true" []) = true := by decide
theorem gram_const_false : gram (.node "const_false" []) = true := by decide
theorem gram_not (x : Cst) : gram (.node "not" [x]) = gram x := by
  rw [gram_node]; simp only [classify_not]
theorem gram_factor (t : Token) (x : Cst) :
    gram (.node "factor" [.tok t, x]) = (t.kind == .op && unaryOps.contains t.text && gram x) := by
  rw [gram_node]; simp only [classify_factor]
theorem gram_power (a b : Cst) : gram (.node "power" [a, b]) = (gram a && gram b) := by
  rw [gram_node]; simp only [classify_power]
theorem gram_getattr (a : Cst) (n : Token) : gram (.node "getattr" [a, .tok n]) = gram a := by
  rw [gram_node]; simp only [classify_getattr]; simp
theorem gram_call0 (a : Cst) : gram (.node "funccall" [a, .none]) = gram a := by
  rw [gram_node]; simp only [classify_funccall]; simp
theorem gram_callN (a : Cst) (r : String) (items : List Cst) :
    gram (.node "funccall" [a, .node r items]) = (gram a && gramArgs items) := by
  rw [gram_node]; simp only [classify_funccall]

theorem gramLevel_append : ∀ (a b : List Cst), gramLevel (a ++ b) = (gramLevel a && gramLevel b)
  | [], b => by simp [gramLevel]
  | c :: a, b => by simp [gramLevel, gramLevel_append a b, Bool.and_assoc]

theorem gramLevel_single (x : Cst) (h : gram x = true) : gramLevel [x] = true := by simp [gramLevel, h]

theorem gramArgs_of_all : ∀ (items : List Cst), gramAll items = true → gramArgs items = true
  | [], _ => by simp [gramArgs]
  | c :: cs, h => by
    simp only [gramAll, Bool.and_eq_true] at h
    cases c with
    | none => simp [gram] at h
    | tok t => simp [gram] at h
    | node r ch => simp [gramArgs, h.1, gramArgs_of_all cs h.2]

theorem gramArgs_append_none : ∀ (items : List Cst), gramArgs items = true → gramArgs (items ++ [.none]) = true
  | [], _ => by simp [gramArgs]
  | c :: cs, h => by
    cases c with
    | none => simp only [gramArgs] at h; simp [gramArgs, gramArgs_append_none cs h]
    | tok t => simp [gramArgs, gram] at h
    | node r ch =>
      simp only [gramArgs, Bool.and_eq_true] at h
      simp [gramArgs, h.1, gramArgs_append_none cs h.2]

/-! ## operator tokens -/

theorem opIn_sub {t : Token} {ops ops' : List String} (hsub : ∀ s ∈ ops, s ∈ ops') (h : opIn t ops = true) :
    isOpTokIn ops' (.tok t) = true := by
  simp only [opIn, Bool.and_eq_true, List.contains_eq_mem, decide_eq_true_eq] at h
  simp only [isOpTokIn, Bool.and_eq_true, List.contains_eq_mem, decide_eq_true_eq]
  exact ⟨h.1, hsub _ h.2⟩

theorem isOp_sub {t : Token} {s : String} {ops' : List String} (hmem : s ∈ ops') (h : t.isOp s = true) :
    isOpTokIn ops' (.tok t) = true := by
  simp only [Token.isOp, Bool.and_eq_true, beq_iff_eq] at h
  simp only [isOpTokIn, Bool.and_eq_true, List.contains_eq_mem, decide_eq_true_eq]
  exact ⟨by simpa using h.1, h.2 ▸ hmem⟩

theorem matchOp_gram {lvl : Nat} {toks : List Token} {opc : List Cst} {rest : List Token} (h7 : lvl ≠ 7)
    (h : matchOp lvl toks = some (opc, rest)) : gramLevel opc = true := by
  unfold matchOp at h
  split at h
  · contradiction
  · rename_i t rest0
    split at h
    all_goals (try contradiction)
    all_goals (try (split at h <;> first | contradiction | (cases h; rfl)))
    · -- comparison
      split at h
      · rename_i hop
        cases h
        simp [gramLevel, opIn_sub (ops' := grammarOps) (by decide) hop]
      · split at h
        · rename_i hnot
          split at h
          · split at h
            · rename_i u r' hin
              cases h
              simp [gramLevel, isOp_sub (ops' := grammarOps) (by decide) hnot,
                isOp_sub (ops' := grammarOps) (by decide) hin]
            · contradiction
          · contradiction
        · split at h
          · rename_i his
            have h1 := isOp_sub (ops' := grammarOps) (s := "is") (by decide) his
            split at h
            · split at h
              · rename_i u r' hnot
                cases h
                simp [gramLevel, h1, isOp_sub (ops' := grammarOps) (by decide) hnot]
              · cases h; simp [gramLevel, h1]
            · cases h; simp [gramLevel, h1]
          · contradiction
    · split at h
      · rename_i hop
        cases h; simp [gramLevel, opIn_sub (ops' := grammarOps) (by decide) hop]
      · contradiction
    · split at h
      · rename_i hop
        cases h; simp [gramLevel, opIn_sub (ops' := grammarOps) (by decide) hop]
      · contradiction

/-! ## the induction on the fuel -/

structure ParseGram (f : Nat) : Prop where
  level : ∀ lvl toks c r, pLevel f lvl toks = .ok (c, r) → gram c = true
  loop : ∀ lvl acc toks chs r, lvl ≠ 7 → gramLevel acc = true → pLoop f lvl acc toks = .ok (chs, r) →
    gramLevel chs = true
  trailers : ∀ a toks c r, gram a = true → pTrailers f a toks = .ok (c, r) → gram c = true
  items : ∀ toks its tr r, pItems f toks = .ok (its, tr, r) → gramAll its = true ∧ its ≠ []
  kvs : ∀ toks ks r, pKVs f toks = .ok (ks, r) → gramKVs ks = true ∧ ks ≠ []
  atom : ∀ toks c r, pAtom f toks = .ok (c, r) → gram c = true

theorem parseGram_zero : ParseGram 0 := by
  constructor
  · intro lvl toks c r h; simp [pLevel] at h
  · intro lvl acc toks chs r _ _ h; simp [pLoop] at h
  · intro a toks c r _ h; simp [pTrailers] at h
  · intro toks its tr r h; simp [pItems] at h
  · intro toks ks r h; simp [pKVs] at h
  · intro toks c r h; simp [pAtom] at h

theorem ok_inj2 {ε α β : Type} {a a' : α} {b b' : β} (h : (Except.ok (a, b) : Except ε (α × β)) = .ok (a', b')) :
    a = a' ∧ b = b' := by
  injection h with h; injection h with h1 h2; exact ⟨h1, h2⟩

theorem gram_binNode {lvl : Nat} {rule : String} {chs : List Cst} (hb : binRule lvl = some rule)
    (h : lvl ≠ 7 → gramLevel chs = true) : gram (.node rule chs) = true := by
  unfold binRule at hb
  split at hb <;> (try contradiction) <;> (injection hb with hb; subst hb; rw [gram_node])
  · simp only [classify_or_test]; exact h (by decide)
  · simp only [classify_and_test]; exact h (by decide)
  · simp only [classify_comparison]; exact h (by decide)
  · simp only [classify_expr]
  · simp only [classify_xor]
  · simp only [classify_and_expr]
  · simp only [classify_shift]; simp
  · simp only [classify_arith_expr]; exact h (by decide)
  · simp only [classify_term]; exact h (by decide)

theorem level_step {f : Nat} (ih : ParseGram f) :
    ∀ lvl toks c r, pLevel (f + 1) lvl toks = .ok (c, r) → gram c = true := by
  intro lvl toks c r h
  by_cases h2 : lvl = 2
  · subst h2
    rw [pLevel_succ_2] at h
    split at h
    · split at h
      · rename_i t rest hnot
        cases h1 : pLevel f 2 rest with
        | error e => simp [h1] at h
        | ok p =>
          obtain ⟨x, r1⟩ := p
          simp only [h1, ok_bind, pure, Except.pure] at h
          obtain ⟨rfl, rfl⟩ := ok_inj2 h
          rw [gram_not]; exact ih.level _ _ _ _ h1
      · exact ih.level _ _ _ _ h
    · contradiction
  by_cases h10 : lvl = 10
  · subst h10
    rw [pLevel_succ_10] at h
    split at h
    · split at h
      · rename_i t rest hop
        cases h1 : pLevel f 10 rest with
        | error e => simp [h1] at h
        | ok p =>
          obtain ⟨x, r1⟩ := p
          simp only [h1, ok_bind, pure, Except.pure] at h
          obtain ⟨rfl, rfl⟩ := ok_inj2 h
          rw [gram_factor, ih.level _ _ _ _ h1]
          simp only [opIn, Bool.and_eq_true] at hop
          simpa [hop.1, unaryOps] using hop.2
      · exact ih.level _ _ _ _ h
    · contradiction
  by_cases h11 : lvl = 11
  · subst h11
    rw [pLevel_succ_11] at h
    cases h1 : pPostfix f toks with
    | error e => simp [h1] at h
    | ok p =>
      obtain ⟨a, r1⟩ := p
      have ha : gram a = true := by
        unfold pPostfix at h1
        cases h0 : pAtom f toks with
        | error e => simp [h0] at h1
        | ok p0 =>
          obtain ⟨a0, r0⟩ := p0
          simp only [h0, ok_bind] at h1
          exact ih.trailers _ _ _ _ (ih.atom _ _ _ h0) h1
      simp only [h1, ok_bind] at h
      split at h
      · split at h
        · rename_i t r' hpow
          cases hb : pLevel f 10 r' with
          | error e => simp [hb] at h
          | ok q =>
            obtain ⟨b, r2⟩ := q
            simp only [hb, ok_bind, pure, Except.pure] at h
            obtain ⟨rfl, rfl⟩ := ok_inj2 h
            rw [gram_power, ha, ih.level _ _ _ _ hb]; rfl
        · simp only [pure, Except.pure] at h
          obtain ⟨rfl, rfl⟩ := ok_inj2 h; exact ha
      · simp only [pure, Except.pure] at h
        obtain ⟨rfl, rfl⟩ := ok_inj2 h; exact ha
  cases hb : binRule lvl with
  | none =>
    rw [pLevel.eq_def] at h
    have e2 : (lvl == 2) = false := by simpa using h2
    have e10 : (lvl == 10) = false := by simpa using h10
    have e11 : (lvl == 11) = false := by simpa using h11
    simp [e2, e10, e11, hb] at h
  | some rule =>
    rw [pLevel_succ_bin f lvl rule toks hb] at h
    cases h1 : pLevel f (lvl + 1) toks with
    | error e => simp [h1] at h
    | ok p =>
      obtain ⟨first, r1⟩ := p
      simp only [h1, ok_bind] at h
      have hfirst := ih.level _ _ _ _ h1
      cases hl : pLoop f lvl [first] r1 with
      | error e => simp [hl] at h
      | ok q =>
        obtain ⟨chs, r2⟩ := q
        simp only [hl, ok_bind, pure, Except.pure] at h
        split at h
        · obtain ⟨rfl, rfl⟩ := ok_inj2 h; exact hfirst
        · obtain ⟨rfl, rfl⟩ := ok_inj2 h
          exact gram_binNode hb (fun h7 => ih.loop lvl [first] r1 chs r2 h7 (gramLevel_single _ hfirst) hl)

theorem loop_step {f : Nat} (ih : ParseGram f) :
    ∀ lvl acc toks chs r, lvl ≠ 7 → gramLevel acc = true → pLoop (f + 1) lvl acc toks = .ok (chs, r) →
      gramLevel chs = true := by
  intro lvl acc toks chs r h7 hacc h
  simp only [pLoop] at h
  split at h
  · rename_i opc rest hm
    cases h1 : pLevel f (lvl + 1) rest with
    | error e => simp [h1] at h
    | ok p =>
      obtain ⟨x, r1⟩ := p
      simp only [h1, ok_bind] at h
      refine ih.loop lvl _ r1 chs r h7 ?_ h
      rw [gramLevel_append, gramLevel_append, hacc, matchOp_gram h7 hm, gramLevel_single _ (ih.level _ _ _ _ h1)]
      rfl
  · obtain ⟨rfl, rfl⟩ := ok_inj2 h; exact hacc

theorem trailers_step {f : Nat} (ih : ParseGram f) :
    ∀ a toks c r, gram a = true → pTrailers (f + 1) a toks = .ok (c, r) → gram c = true := by
  intro a toks c r ha h
  simp only [pTrailers] at h
  split at h
  · rename_i t rest
    split at h
    · split at h
      · rename_i u rest'
        split at h
        · exact ih.trailers _ _ _ _ (by rw [gram_call0]; exact ha) h
        · cases h1 : pItems f (u :: rest') with
          | error e => simp [h1] at h
          | ok p =>
            obtain ⟨items, trailing, r1⟩ := p
            simp only [h1, ok_bind] at h
            cases h2 : expect ")" r1 with
            | error e => simp [h2] at h
            | ok r2 =>
              simp only [h2, ok_bind] at h
              obtain ⟨hit, _⟩ := ih.items _ _ _ _ h1
              refine ih.trailers _ _ _ _ ?_ h
              rw [gram_callN, ha]
              cases trailing
              · simpa using gramArgs_of_all _ hit
              · simpa using gramArgs_append_none _ (gramArgs_of_all _ hit)
      · contradiction
    · split at h
      · split at h
        · rename_i n rest'
          split at h
          · exact ih.trailers _ _ _ _ (by rw [gram_getattr]; exact ha) h
          · contradiction
        · contradiction
      · split at h
        · contradiction
        · obtain ⟨rfl, rfl⟩ := ok_inj2 h; exact ha
  · obtain ⟨rfl, rfl⟩ := ok_inj2 h; exact ha

theorem items_step {f : Nat} (ih : ParseGram f) :
    ∀ toks its tr r, pItems (f + 1) toks = .ok (its, tr, r) → gramAll its = true ∧ its ≠ [] := by
  intro toks its tr r h
  simp only [pItems] at h
  cases h1 : pLevel f 0 toks with
  | error e => simp [h1] at h
  | ok p =>
    obtain ⟨x, r1⟩ := p
    simp only [h1, ok_bind, pure, Except.pure] at h
    have hx := ih.level _ _ _ _ h1
    split at h
    · split at h
      · split at h
        · split at h
          · injection h with h; injection h with h1' h2'; subst h1'
            simp [gramAll, hx]
          · rename_i u rest'' _
            cases h2 : pItems f (u :: rest'') with
            | error e => simp [h2] at h
            | ok q =>
              obtain ⟨xs, tr2, r2⟩ := q
              simp only [h2, ok_bind] at h
              injection h with h; injection h with h1' h2'; subst h1'
              simp [gramAll, hx, (ih.items _ _ _ _ h2).1]
        · contradiction
      · injection h with h; injection h with h1' h2'; subst h1'
        simp [gramAll, hx]
    · injection h with h; injection h with h1' h2'; subst h1'
      simp [gramAll, hx]

theorem gramKVs_cons (k v : Cst) (cs : List Cst) :
    gramKVs (.node "key_value" [k, v] :: cs) = (gram k && gram v && gramKVs cs) := by
  simp [gramKVs]

theorem kvs_step {f : Nat} (ih : ParseGram f) :
    ∀ toks ks r, pKVs (f + 1) toks = .ok (ks, r) → gramKVs ks = true ∧ ks ≠ [] := by
  intro toks ks r h
  simp only [pKVs] at h
  cases h1 : pLevel f 0 toks with
  | error e => simp [h1] at h
  | ok p =>
    obtain ⟨k, r1⟩ := p
    simp only [h1, ok_bind] at h
    cases h2 : expect ":" r1 with
    | error e => simp [h2] at h
    | ok r2 =>
      simp only [h2, ok_bind] at h
      cases h3 : pLevel f 0 r2 with
      | error e => simp [h3] at h
      | ok q =>
        obtain ⟨v, r3⟩ := q
        simp only [h3, ok_bind, pure, Except.pure] at h
        have hk := ih.level _ _ _ _ h1
        have hv := ih.level _ _ _ _ h3
        split at h
        · split at h
          · split at h
            · split at h
              · obtain ⟨rfl, rfl⟩ := ok_inj2 h
                simp [hk, hv, gramKVs]
              · rename_i u rest'' _
                cases h4 : pKVs f (u :: rest'') with
                | error e => simp [h4] at h
                | ok q2 =>
                  obtain ⟨kvs, r4⟩ := q2
                  simp only [h4, ok_bind] at h
                  obtain ⟨rfl, rfl⟩ := ok_inj2 h
                  simp [gramKVs_cons, hk, hv, (ih.kvs _ _ _ h4).1]
            · contradiction
          · obtain ⟨rfl, rfl⟩ := ok_inj2 h
            simp [hk, hv, gramKVs]
        · obtain ⟨rfl, rfl⟩ := ok_inj2 h
          simp [hk, hv, gramKVs]

theorem gram_coll_none {rule : String} (hr : classify rule = .collection) : gram (.node rule [.none]) = true := by
  rw [gram_node]; simp only [hr]
theorem gram_coll_comp {rule : String} (hr : classify rule = .collection) {r : String} {items : List Cst}
    (hc : (r == "tuplelist_comp" || r == "set_comp") = true) (hne : items ≠ []) (hall : gramAll items = true) :
    gram (.node rule [.node r items]) = true := by
  rw [gram_node]; simp only [hr, hc, ↓reduceIte, hall, Bool.and_true]
  cases items with
  | nil => contradiction
  | cons _ _ => rfl

theorem atom_step {f : Nat} (ih : ParseGram f) :
    ∀ toks c r, pAtom (f + 1) toks = .ok (c, r) → gram c = true := by
  intro toks c r h
  simp only [pAtom] at h
  split at h
  · contradiction
  · rename_i t rest
    split at h
    · obtain ⟨rfl, rfl⟩ := ok_inj2 h; exact gram_var t
    · obtain ⟨rfl, rfl⟩ := ok_inj2 h; exact gram_number t
    · obtain ⟨rfl, rfl⟩ := ok_inj2 h; exact gram_number t
    · obtain ⟨rfl, rfl⟩ := ok_inj2 h; exact gram_number t
    · split at h
      · obtain ⟨rfl, rfl⟩ := ok_inj2 h; exact gram_string t
      · obtain ⟨rfl, rfl⟩ := ok_inj2 h; exact gram_atom _
    · split at h
      · obtain ⟨rfl, rfl⟩ := ok_inj2 h; exact gram_string t
      · obtain ⟨rfl, rfl⟩ := ok_inj2 h; exact gram_atom _
    · split at h
      · obtain ⟨rfl, rfl⟩ := ok_inj2 h; exact gram_const_none
      split at h
      · obtain ⟨rfl, rfl⟩ := ok_inj2 h; exact gram_const_true
      split at h
      · obtain ⟨rfl, rfl⟩ := ok_inj2 h; exact gram_const_false
      split at h
      · -- parenthesis
        split at h
        · rename_i u rest'
          split at h
          · obtain ⟨rfl, rfl⟩ := ok_inj2 h; exact gram_coll_none classify_tuple
          · cases h1 : pItems f (u :: rest') with
            | error e => simp [h1] at h
            | ok p =>
              obtain ⟨items, trailing, r1⟩ := p
              simp only [h1, ok_bind] at h
              cases h2 : expect ")" r1 with
              | error e => simp [h2] at h
              | ok r2 =>
                simp only [h2, ok_bind, pure, Except.pure] at h
                obtain ⟨hall, hne⟩ := ih.items _ _ _ _ h1
                split at h
                · obtain ⟨rfl, rfl⟩ := ok_inj2 h
                  simpa [gramAll] using hall
                · obtain ⟨rfl, rfl⟩ := ok_inj2 h
                  exact gram_coll_comp classify_tuple (by decide) hne hall
        · contradiction
      split at h
      · -- list
        split at h
        · rename_i u rest'
          split at h
          · obtain ⟨rfl, rfl⟩ := ok_inj2 h; exact gram_coll_none classify_list
          · cases h1 : pItems f (u :: rest') with
            | error e => simp [h1] at h
            | ok p =>
              obtain ⟨items, trailing, r1⟩ := p
              simp only [h1, ok_bind] at h
              cases h2 : expect "]" r1 with
              | error e => simp [h2] at h
              | ok r2 =>
                simp only [h2, ok_bind, pure, Except.pure] at h
                obtain ⟨hall, hne⟩ := ih.items _ _ _ _ h1
                split at h
                · rename_i x
                  obtain ⟨rfl, rfl⟩ := ok_inj2 h
                  have hx : gram x = true := by simpa [gramAll] using hall
                  -- a single item: `list [x]`
                  rw [gram_node]; simp only [classify_list]
                  cases x with
                  | tok t => simp [gram] at hx
                  | none => rfl
                  | node r items =>
                    simp only
                    split
                    · rename_i hc
                      -- a gram node never has a comprehension rule
                      rw [gram_node] at hx
                      have : classify r = .other := by
                        simp only [Bool.or_eq_true, beq_iff_eq] at hc
                        rcases hc with rfl | rfl <;> decide
                      simp only [this] at hx
                      simp only [Bool.or_eq_true, beq_iff_eq] at hc
                      rcases hc with rfl | rfl <;> simp at hx
                    · exact hx
                · obtain ⟨rfl, rfl⟩ := ok_inj2 h
                  exact gram_coll_comp classify_list (by decide) hne hall
        · contradiction
      split at h
      · -- braces
        split at h
        · rename_i u rest'
          split at h
          · obtain ⟨rfl, rfl⟩ := ok_inj2 h
            rw [gram_node]; simp only [classify_dict]
          · cases h0 : pLevel f 0 (u :: rest') with
            | error e => simp [h0] at h
            | ok p0 =>
              obtain ⟨x0, r0⟩ := p0
              simp only [h0, ok_bind] at h
              split at h
              · split at h
                · cases h1 : pKVs f (u :: rest') with
                  | error e => simp [h1] at h
                  | ok p =>
                    obtain ⟨kvs, r1⟩ := p
                    simp only [h1, ok_bind] at h
                    cases h2 : expect "}" r1 with
                    | error e => simp [h2] at h
                    | ok r2 =>
                      simp only [h2, ok_bind, pure, Except.pure] at h
                      obtain ⟨rfl, rfl⟩ := ok_inj2 h
                      obtain ⟨hall, hne⟩ := ih.kvs _ _ _ h1
                      rw [gram_node]; simp only [classify_dict, hall, Bool.and_true]
                      cases kvs with
                      | nil => contradiction
                      | cons _ _ => rfl
                · cases h1 : pItems f (u :: rest') with
                  | error e => simp [h1] at h
                  | ok p =>
                    obtain ⟨items, trailing, r1⟩ := p
                    simp only [h1, ok_bind] at h
                    cases h2 : expect "}" r1 with
                    | error e => simp [h2] at h
                    | ok r2 =>
                      simp only [h2, ok_bind, pure, Except.pure] at h
                      obtain ⟨rfl, rfl⟩ := ok_inj2 h
                      obtain ⟨hall, hne⟩ := ih.items _ _ _ _ h1
                      exact gram_coll_comp classify_set (by decide) hne hall
              · contradiction
        · contradiction
      · contradiction

theorem parseGram : ∀ f, ParseGram f
  | 0 => parseGram_zero
  | f + 1 =>
    have ih := parseGram f
    ⟨level_step ih, loop_step ih, trailers_step ih, items_step ih, kvs_step ih, atom_step ih⟩

/-- every tree the parser returns has the shape `gram` -/
theorem parseToks_gram {toks : List Token} {c : Cst} (h : parseToks toks = .ok c) : gram c = true := by
  unfold parseToks at h
  split at h
  · rename_i c' hc
    injection h with h; subst h
    unfold parseCore at hc
    split at hc
    · rename_i c'' hl
      injection hc with hc; subst hc
      exact (parseGram _).level _ _ _ _ hl
    · contradiction
    · contradiction
  · split at h <;> contradiction

end DAVerif.C13W
