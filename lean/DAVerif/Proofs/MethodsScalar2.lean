import DAVerif.Proofs.MethodsScalar
import DAVerif.Proofs.MethodsFloor
/-!
C05, row-wise methods, the operators whose proofs need the floor lemmas of `MethodsFloor` (Mathlib order facts of ℚ):
SQL rounding, integer casts, SQLite `%`.
-/
namespace DAVerif.C05
open DAVerif DAVerif.Doc

/-- SQL `ROUND(x·10ᵏ)/10ᵏ` (half away from zero) is the documented rounding wherever that is determined (no tie) -/
theorem sqlite_around (i : Bool) (args v) (h : docScalar "around" args = some v) : ThetaSqlX.scalar i "around" args = v := by
  rw [docAround_eq] at h
  obtain ⟨x, k, rfl, hf⟩ := num2_some h
  show ThetaSql.scalar "around" [.v (.num x), .v (.num k)] = v
  rw [sql_around_closed, ratPow_eq_ipow]
  by_cases hc : k.den = 1 ∧ 0 ≤ k.num
  · have hc' : (k.den == 1 && decide (k.num ≥ 0)) = true := by simp [hc.1, hc.2]
    rw [if_pos hc']
    rw [if_pos hc] at hf
    cases hn : nearest? (x * ipow 10 k.num.toNat) with
    | none => rw [hn] at hf; simp at hf
    | some R =>
      rw [hn] at hf
      simp at hf
      rw [halfAway_eq_nearest x (ipow 10 k.num.toNat) (ipow_pos _) R hn]
      exact hf
  · have hc' : ¬ ((k.den == 1 && decide (k.num ≥ 0)) = true) := by
      intro hh; apply hc; simpa using hh
    rw [if_neg hc', sql_aroundNeg_closed, ratPow_eq_ipow]
    rw [if_neg hc] at hf
    by_cases hd : k.den = 1
    · have hd' : (k.den == 1) = true := by simp [hd]
      rw [if_pos hd']
      rw [if_pos hd] at hf
      have hp : (0 : Rat) < 1 / ipow 10 (-k.num).toNat := by
        have := ipow_pos (-k.num).toNat
        positivity
      cases hn : nearest? (x * (1 / ipow 10 (-k.num).toNat)) with
      | none => rw [hn] at hf; simp at hf
      | some R =>
        rw [hn] at hf
        simp at hf
        rw [halfAway_eq_nearest x (1 / ipow 10 (-k.num).toNat) hp R hn, ← hf]
        simp
    · rw [if_neg hd] at hf; simp at hf

theorem sqlite_round (i : Bool) (args v) (h : docScalar "round" args = some v) : ThetaSqlX.scalar i "round" args = v := by
  have hd : docScalar "round" args = num1 (fun x => (nearest? x).map (fun r => .num (r : Rat))) args := rfl
  rw [hd] at h
  obtain ⟨x, rfl, hf⟩ := num1_some h
  show ThetaSql.scalar "around" [.v (.num x), .v (.num 0)] = v
  rw [sql_round_closed, div_one']
  cases hn : nearest? x with
  | none => rw [hn] at hf; simp at hf
  | some R =>
    rw [hn] at hf
    simp at hf
    have hn' : nearest? (x * 1) = some R := by rw [Rat.mul_one]; exact hn
    rw [halfAway_eq_nearest x 1 (by decide) R hn']
    exact hf

theorem pandas_as_int64 (args v) (h : docScalar "as_int64" args = some v) : ThetaX.scalar "as_int64" args = v := by
  have hd : docScalar "as_int64" args = num1 (fun x => if x.den = 1 then some (.num x) else none) args := rfl
  rw [hd] at h
  obtain ⟨x, rfl, hf⟩ := num1_some h
  show Val.num ((ThetaX.truncZ x : Int) : Rat) = v
  by_cases hx : x.den = 1
  · rw [if_pos hx] at hf; simp at hf; subst hf
    rw [truncZ_of_den_one x hx]
  · rw [if_neg hx] at hf; simp at hf

theorem sqlite_as_int64 (i : Bool) (args v) (h : docScalar "as_int64" args = some v) : ThetaSqlX.scalar i "as_int64" args = v := by
  have hd : docScalar "as_int64" args = num1 (fun x => if x.den = 1 then some (.num x) else none) args := rfl
  rw [hd] at h
  obtain ⟨x, rfl, hf⟩ := num1_some h
  show Val.num ((ThetaX.truncZ x : Int) : Rat) = v
  by_cases hx : x.den = 1
  · rw [if_pos hx] at hf; simp at hf; subst hf
    rw [truncZ_of_den_one x hx]
  · rw [if_neg hx] at hf; simp at hf

/-! ### SQLite `%`: the documented value on non-negative integers only -/

theorem sqlite_modlike (x y : Rat) (v : Val) (hx : 0 ≤ x) (hy : 0 < y) (hdx : x.den = 1) (hdy : y.den = 1)
    (hf : (if y = 0 then none else some (Val.num (x - y * ((x / y).floor : Int)))) = some v) :
    Theta.arith2 ThetaSqlX.sqliteMod (.num x) (.num y) = v := by
  have hy0 : y ≠ 0 := ne_of_gt hy
  rw [if_neg hy0] at hf; simp at hf; subst hf
  simp [Theta.arith2, Theta.num?, sqliteMod_nonneg_int x y hx hy hdx hdy]

end DAVerif.C05
