import DAVerif.Proofs.SqlReach
import DAVerif.Proofs.WithKeyFaithDefs
import DAVerif.Proofs.WithKeyFaithRender1
/-
C04, cache keys (`C04_key_faithful`), part 2: the model's pipeline renderer `renderOps` is a prefix code on the
pipelines with `RenderOK`, and the CTE-cache keys `ops_key ++ "_" ++ renderStrs columns` can be cancelled.

Hypotheses about the (kernel-opaque) `String.quote`: `QuoteCode` (prefix code) and `QuoteHead` (starts with `"`), see
part 1 for why the second one cannot be avoided.
-/
namespace DAVerif.C04K
open DAVerif DAVerif.Sql

/-! ### the known collision of the model renderer (reason for the guard `RenderOK`) -/

theorem renderOps_collision :
    renderOps (.rename (.table "d" ["b", "=b"]) [("a=", "b")]) = renderOps (.rename (.table "d" ["b", "=b"]) [("a", "=b")]) ∧
    Ops.rename (.table "d" ["b", "=b"]) [("a=", "b")] ≠ Ops.rename (.table "d" ["b", "=b"]) [("a", "=b")] := by
  refine ⟨?_, ?_⟩
  · have : ("a=" ++ "=" ++ "b" : String) = "a" ++ "=" ++ "=b" := by decide
    simp only [renderOps, List.map_cons, List.map_nil, this]
  · intro h
    injection h with _ h
    injection h with h _
    injection h with h _
    exact absurd h (by decide)

/-! ### pieces of the text of a node -/

def opsL (p : Ops) : List Char := (renderOps p).toList
def wL (w : Bool) : List Char := if w then ['w'] else []
def limL : Option Nat → List Char
  | none => []
  | some n => 'L' :: natL n
def idL : Option String → List Char
  | none => ['-']
  | some c => quoteL c
def jtL (t : JoinType) : List Char := t.toStr.toList

theorem opsL_table (n : String) (cs : List String) :
    opsL (.table n cs) = 'T' :: '(' :: (quoteL n ++ (strsL cs ++ [')'])) := by
  simp only [opsL, renderOps, String.toList_append, List.append_assoc]; rfl
theorem opsL_extend (s : Ops) (ops : Assign) (p o r : List String) (w : Bool) :
    opsL (.extend s ops p o r w) =
      'E' :: '(' :: (opsL s ++ (assignL ops ++ (strsL p ++ (strsL o ++ (strsL r ++ (wL w ++ [')'])))))) := by
  simp only [opsL, renderOps, String.toList_append, List.append_assoc, wL]
  cases w <;> rfl
theorem opsL_project (s : Ops) (ops : Assign) (g : List String) :
    opsL (.project s ops g) = 'P' :: '(' :: (opsL s ++ (assignL ops ++ (strsL g ++ [')']))) := by
  simp only [opsL, renderOps, String.toList_append, List.append_assoc]; rfl
theorem opsL_selectRows (s : Ops) (e : Term) :
    opsL (.selectRows s e) = 'S' :: '(' :: (opsL s ++ (termL e ++ [')'])) := by
  simp only [opsL, renderOps, String.toList_append, List.append_assoc]; rfl
theorem opsL_selectCols (s : Ops) (cs : List String) :
    opsL (.selectCols s cs) = 'C' :: '(' :: (opsL s ++ (strsL cs ++ [')'])) := by
  simp only [opsL, renderOps, String.toList_append, List.append_assoc]; rfl
theorem opsL_dropCols (s : Ops) (cs : List String) :
    opsL (.dropCols s cs) = 'D' :: '(' :: (opsL s ++ (strsL cs ++ [')'])) := by
  simp only [opsL, renderOps, String.toList_append, List.append_assoc]; rfl
theorem opsL_order (s : Ops) (cs r : List String) (l : Option Nat) :
    opsL (.order s cs r l) = 'O' :: '(' :: (opsL s ++ (strsL cs ++ (strsL r ++ (limL l ++ [')'])))) := by
  cases l with
  | none => simp only [opsL, renderOps, String.toList_append, List.append_assoc, limL]; rfl
  | some n => simp only [opsL, renderOps, String.toList_append, List.append_assoc, limL]; rfl
theorem opsL_rename (s : Ops) (m : List (String × String)) :
    opsL (.rename s m) = 'R' :: '(' :: (opsL s ++ (strsL (m.map (fun kv => kv.1 ++ "=" ++ kv.2)) ++ [')'])) := by
  simp only [opsL, renderOps, String.toList_append, List.append_assoc]; rfl
theorem opsL_mapCols (s : Ops) (m : List (String × String)) (d : List String) :
    opsL (.mapCols s m d) =
      'M' :: '(' :: (opsL s ++ (strsL (m.map (fun kv => kv.1 ++ "=" ++ kv.2)) ++ (strsL d ++ [')']))) := by
  simp only [opsL, renderOps, String.toList_append, List.append_assoc]; rfl
theorem opsL_join (a b : Ops) (oa ob : List String) (t : JoinType) :
    opsL (.join a b oa ob t) = 'J' :: '(' :: (opsL a ++ (opsL b ++ (strsL oa ++ (strsL ob ++ (jtL t ++ [')']))))) := by
  simp only [opsL, renderOps, String.toList_append, List.append_assoc]; rfl
theorem opsL_concat (a b : Ops) (i : Option String) (an bn : String) :
    opsL (.concat a b i an bn) = 'U' :: '(' :: (opsL a ++ (opsL b ++ (idL i ++ (quoteL an ++ (quoteL bn ++ [')']))))) := by
  cases i with
  | none => simp only [opsL, renderOps, String.toList_append, List.append_assoc, idL]; rfl
  | some c => simp only [opsL, renderOps, String.toList_append, List.append_assoc, idL]; rfl
theorem opsL_convert (s : Ops) (rm : RecMap) :
    opsL (.convert s rm) = 'V' :: '(' :: (opsL s ++ (quoteL rm.repr ++ [')'])) := by
  simp only [opsL, renderOps, String.toList_append, List.append_assoc]; rfl

/-- kind of a node / of the first character of its text -/
def okind : Ops → Nat
  | .table .. => 0 | .extend .. => 1 | .project .. => 2 | .selectRows .. => 3 | .selectCols .. => 4 | .dropCols .. => 5
  | .order .. => 6 | .rename .. => 7 | .mapCols .. => 8 | .join .. => 9 | .concat .. => 10 | .convert .. => 11
def ockind (c : Char) : Nat :=
  if c = 'T' then 0 else if c = 'E' then 1 else if c = 'P' then 2 else if c = 'S' then 3 else if c = 'C' then 4
  else if c = 'D' then 5 else if c = 'O' then 6 else if c = 'R' then 7 else if c = 'M' then 8 else if c = 'J' then 9
  else if c = 'U' then 10 else 11

theorem opsL_kind (a : Ops) : ∃ c t, opsL a = c :: t ∧ ockind c = okind a := by
  cases a with
  | table n cs => exact ⟨_, _, opsL_table n cs, rfl⟩
  | extend s ops p o r w => exact ⟨_, _, opsL_extend s ops p o r w, rfl⟩
  | project s ops g => exact ⟨_, _, opsL_project s ops g, rfl⟩
  | selectRows s e => exact ⟨_, _, opsL_selectRows s e, rfl⟩
  | selectCols s cs => exact ⟨_, _, opsL_selectCols s cs, rfl⟩
  | dropCols s cs => exact ⟨_, _, opsL_dropCols s cs, rfl⟩
  | order s cs r l => exact ⟨_, _, opsL_order s cs r l, rfl⟩
  | rename s m => exact ⟨_, _, opsL_rename s m, rfl⟩
  | mapCols s m d => exact ⟨_, _, opsL_mapCols s m d, rfl⟩
  | join a b oa ob t => exact ⟨_, _, opsL_join a b oa ob t, rfl⟩
  | concat a b i an bn => exact ⟨_, _, opsL_concat a b i an bn, rfl⟩
  | convert s rm => exact ⟨_, _, opsL_convert s rm, rfl⟩

theorem opsL_kind_eq {a b : Ops} {r1 r2 : List Char} (h : opsL a ++ r1 = opsL b ++ r2) : okind a = okind b := by
  obtain ⟨c, t, hc, hk⟩ := opsL_kind a
  obtain ⟨c', t', hc', hk'⟩ := opsL_kind b
  rw [hc, hc'] at h
  simp only [List.cons_append, List.cons.injEq] at h
  rw [← hk, ← hk', h.1]

/-! ### the small pieces are prefix codes -/

theorem wL_cancel {w w' : Bool} {r1 r2 : List Char} (h : wL w ++ ')' :: r1 = wL w' ++ ')' :: r2) : w = w' ∧ r1 = r2 := by
  cases w <;> cases w' <;>
    simp only [wL, if_true, if_false, Bool.false_eq_true, List.nil_append, List.cons_append, List.cons.injEq,
      true_and] at h
  · exact ⟨rfl, h⟩
  · exact absurd h.1 (by decide)
  · exact absurd h.1 (by decide)
  · exact ⟨rfl, h⟩

theorem limL_cancel {l l' : Option Nat} {r1 r2 : List Char} (h : limL l ++ ')' :: r1 = limL l' ++ ')' :: r2) :
    l = l' ∧ r1 = r2 := by
  cases l with
  | none =>
    cases l' with
    | none => simp only [limL, List.nil_append, List.cons.injEq, true_and] at h; exact ⟨rfl, h⟩
    | some m =>
      simp only [limL, List.nil_append, List.cons_append, List.cons.injEq] at h
      exact absurd h.1 (by decide)
  | some n =>
    cases l' with
    | none =>
      simp only [limL, List.nil_append, List.cons_append, List.cons.injEq] at h
      exact absurd h.1 (by decide)
    | some m =>
      simp only [limL, List.cons_append, List.cons.injEq, true_and] at h
      obtain ⟨rfl, hr⟩ := natL_cancel n m _ _ (ND_cons (by decide) _) (ND_cons (by decide) _) h
      simp only [List.cons.injEq, true_and] at hr
      exact ⟨rfl, hr⟩

theorem idL_cancel (hq : QuoteCode) (hh : QuoteHead) {i i' : Option String} {r1 r2 : List Char}
    (h : idL i ++ r1 = idL i' ++ r2) : i = i' ∧ r1 = r2 := by
  cases i with
  | none =>
    cases i' with
    | none => simp only [idL, List.cons_append, List.nil_append, List.cons.injEq, true_and] at h; exact ⟨rfl, h⟩
    | some c =>
      obtain ⟨t, ht⟩ := hh c
      simp only [idL, quoteL, ht, List.cons_append, List.nil_append, List.cons.injEq] at h
      exact absurd h.1 (by decide)
  | some d =>
    cases i' with
    | none =>
      obtain ⟨t, ht⟩ := hh d
      simp only [idL, quoteL, ht, List.cons_append, List.nil_append, List.cons.injEq] at h
      exact absurd h.1 (by decide)
    | some c =>
      simp only [idL, quoteL] at h
      obtain ⟨rfl, hr⟩ := hq d c r1 r2 h
      exact ⟨rfl, hr⟩

theorem jtL_cancel {t t' : JoinType} {r1 r2 : List Char} (h : jtL t ++ ')' :: r1 = jtL t' ++ ')' :: r2) :
    t = t' ∧ r1 = r2 := by
  cases t <;> cases t' <;> simp [jtL, JoinType.toStr] at h <;> exact ⟨rfl, h⟩

/-! ### mapping entries `k=v` with `=`-free `k` -/

theorem eqJoin_inj {a b : String × String} (ha : eqFreeStr a.1 = true) (hb : eqFreeStr b.1 = true)
    (h : a.1 ++ "=" ++ a.2 = b.1 ++ "=" ++ b.2) : a = b := by
  have h' := congrArg String.toList h
  have he : ("=" : String).toList = ['='] := by decide
  simp only [String.toList_append, he, List.append_assoc, List.cons_append, List.nil_append] at h'
  simp only [eqFreeStr, Bool.not_eq_true', List.contains_eq_mem, decide_eq_false_iff_not] at ha hb
  obtain ⟨h1, h2⟩ := split_first _ _ ha hb h'
  exact Prod.ext (String.toList_injective h1) (String.toList_injective h2)

theorem map_eqJoin_inj (m1 : List (String × String)) : ∀ (m2 : List (String × String)),
    m1.all (fun kv => eqFreeStr kv.1) = true → m2.all (fun kv => eqFreeStr kv.1) = true →
    m1.map (fun kv => kv.1 ++ "=" ++ kv.2) = m2.map (fun kv => kv.1 ++ "=" ++ kv.2) → m1 = m2 := by
  induction m1 with
  | nil =>
    intro m2 _ _ h
    cases m2 with
    | nil => rfl
    | cons b m2 => simp at h
  | cons a m1 ih =>
    intro m2 h1 h2 h
    cases m2 with
    | nil => simp at h
    | cons b m2 =>
      simp only [List.all_cons, Bool.and_eq_true] at h1 h2
      simp only [List.map_cons, List.cons.injEq] at h
      rw [eqJoin_inj h1.1 h2.1 h.1, ih m2 h1.2 h2.2 h.2]

/-! ### `renderOps` is a prefix code on the pipelines with `RenderOK` -/

theorem opsL_cancel (hq : QuoteCode) (hh : QuoteHead) (a : Ops) : ∀ (b : Ops) (r1 r2 : List Char),
    RenderOK a → RenderOK b → opsL a ++ r1 = opsL b ++ r2 → a = b ∧ r1 = r2 := by
  induction a with
  | table n cs =>
    intro b r1 r2 ha hb h
    have hk := opsL_kind_eq h
    cases b with
    | table n' cs' =>
      rw [opsL_table, opsL_table] at h
      simp only [List.cons_append, List.append_assoc, List.nil_append, List.cons.injEq, true_and] at h
      obtain ⟨rfl, e1⟩ := hq n n' _ _ h
      obtain ⟨rfl, e2⟩ := strsL_cancel hq hh e1
      simp only [List.cons.injEq, true_and] at e2
      exact ⟨rfl, e2⟩
    | _ => exfalso; simp only [okind] at hk; omega
  | extend s ops p o r w ih =>
    intro b r1 r2 ha hb h
    have hk := opsL_kind_eq h
    cases b with
    | extend s' ops' p' o' r' w' =>
      rw [opsL_extend, opsL_extend] at h
      simp only [List.cons_append, List.append_assoc, List.nil_append, List.cons.injEq, true_and] at h
      obtain ⟨rfl, e1⟩ := ih s' _ _ ha hb h
      obtain ⟨rfl, e2⟩ := assignL_cancel hq hh e1
      obtain ⟨rfl, e3⟩ := strsL_cancel hq hh e2
      obtain ⟨rfl, e4⟩ := strsL_cancel hq hh e3
      obtain ⟨rfl, e5⟩ := strsL_cancel hq hh e4
      obtain ⟨rfl, e6⟩ := wL_cancel e5
      exact ⟨rfl, e6⟩
    | _ => exfalso; simp only [okind] at hk; omega
  | project s ops g ih =>
    intro b r1 r2 ha hb h
    have hk := opsL_kind_eq h
    cases b with
    | project s' ops' g' =>
      rw [opsL_project, opsL_project] at h
      simp only [List.cons_append, List.append_assoc, List.nil_append, List.cons.injEq, true_and] at h
      obtain ⟨rfl, e1⟩ := ih s' _ _ ha hb h
      obtain ⟨rfl, e2⟩ := assignL_cancel hq hh e1
      obtain ⟨rfl, e3⟩ := strsL_cancel hq hh e2
      simp only [List.cons.injEq, true_and] at e3
      exact ⟨rfl, e3⟩
    | _ => exfalso; simp only [okind] at hk; omega
  | selectRows s e ih =>
    intro b r1 r2 ha hb h
    have hk := opsL_kind_eq h
    cases b with
    | selectRows s' e' =>
      rw [opsL_selectRows, opsL_selectRows] at h
      simp only [List.cons_append, List.append_assoc, List.nil_append, List.cons.injEq, true_and] at h
      obtain ⟨rfl, e1⟩ := ih s' _ _ ha hb h
      obtain ⟨rfl, e2⟩ := termL_cancel hq e e' _ _ (ND_cons (by decide) _) (ND_cons (by decide) _) e1
      simp only [List.cons.injEq, true_and] at e2
      exact ⟨rfl, e2⟩
    | _ => exfalso; simp only [okind] at hk; omega
  | selectCols s cs ih =>
    intro b r1 r2 ha hb h
    have hk := opsL_kind_eq h
    cases b with
    | selectCols s' cs' =>
      rw [opsL_selectCols, opsL_selectCols] at h
      simp only [List.cons_append, List.append_assoc, List.nil_append, List.cons.injEq, true_and] at h
      obtain ⟨rfl, e1⟩ := ih s' _ _ ha hb h
      obtain ⟨rfl, e2⟩ := strsL_cancel hq hh e1
      simp only [List.cons.injEq, true_and] at e2
      exact ⟨rfl, e2⟩
    | _ => exfalso; simp only [okind] at hk; omega
  | dropCols s cs ih =>
    intro b r1 r2 ha hb h
    have hk := opsL_kind_eq h
    cases b with
    | dropCols s' cs' =>
      rw [opsL_dropCols, opsL_dropCols] at h
      simp only [List.cons_append, List.append_assoc, List.nil_append, List.cons.injEq, true_and] at h
      obtain ⟨rfl, e1⟩ := ih s' _ _ ha hb h
      obtain ⟨rfl, e2⟩ := strsL_cancel hq hh e1
      simp only [List.cons.injEq, true_and] at e2
      exact ⟨rfl, e2⟩
    | _ => exfalso; simp only [okind] at hk; omega
  | order s cs r l ih =>
    intro b r1 r2 ha hb h
    have hk := opsL_kind_eq h
    cases b with
    | order s' cs' r' l' =>
      rw [opsL_order, opsL_order] at h
      simp only [List.cons_append, List.append_assoc, List.nil_append, List.cons.injEq, true_and] at h
      obtain ⟨rfl, e1⟩ := ih s' _ _ ha hb h
      obtain ⟨rfl, e2⟩ := strsL_cancel hq hh e1
      obtain ⟨rfl, e3⟩ := strsL_cancel hq hh e2
      obtain ⟨rfl, e4⟩ := limL_cancel e3
      exact ⟨rfl, e4⟩
    | _ => exfalso; simp only [okind] at hk; omega
  | rename s m ih =>
    intro b r1 r2 ha hb h
    have hk := opsL_kind_eq h
    cases b with
    | rename s' m' =>
      simp only [RenderOK, renderOKb, Bool.and_eq_true] at ha hb
      rw [opsL_rename, opsL_rename] at h
      simp only [List.cons_append, List.append_assoc, List.nil_append, List.cons.injEq, true_and] at h
      obtain ⟨rfl, e1⟩ := ih s' _ _ ha.1 hb.1 h
      obtain ⟨hm, e2⟩ := strsL_cancel hq hh e1
      have hm' := map_eqJoin_inj m m' ha.2 hb.2 hm
      subst hm'
      simp only [List.cons.injEq, true_and] at e2
      exact ⟨rfl, e2⟩
    | _ => exfalso; simp only [okind] at hk; omega
  | mapCols s m d ih =>
    intro b r1 r2 ha hb h
    have hk := opsL_kind_eq h
    cases b with
    | mapCols s' m' d' =>
      simp only [RenderOK, renderOKb, Bool.and_eq_true] at ha hb
      rw [opsL_mapCols, opsL_mapCols] at h
      simp only [List.cons_append, List.append_assoc, List.nil_append, List.cons.injEq, true_and] at h
      obtain ⟨rfl, e1⟩ := ih s' _ _ ha.1 hb.1 h
      obtain ⟨hm, e2⟩ := strsL_cancel hq hh e1
      have hm' := map_eqJoin_inj m m' ha.2 hb.2 hm
      subst hm'
      obtain ⟨rfl, e3⟩ := strsL_cancel hq hh e2
      simp only [List.cons.injEq, true_and] at e3
      exact ⟨rfl, e3⟩
    | _ => exfalso; simp only [okind] at hk; omega
  | join a1 a2 oa ob t ih1 ih2 =>
    intro b r1 r2 ha hb h
    have hk := opsL_kind_eq h
    cases b with
    | join b1 b2 oa' ob' t' =>
      simp only [RenderOK, renderOKb, Bool.and_eq_true] at ha hb
      rw [opsL_join, opsL_join] at h
      simp only [List.cons_append, List.append_assoc, List.nil_append, List.cons.injEq, true_and] at h
      obtain ⟨rfl, e1⟩ := ih1 b1 _ _ ha.1 hb.1 h
      obtain ⟨rfl, e2⟩ := ih2 b2 _ _ ha.2 hb.2 e1
      obtain ⟨rfl, e3⟩ := strsL_cancel hq hh e2
      obtain ⟨rfl, e4⟩ := strsL_cancel hq hh e3
      obtain ⟨rfl, e5⟩ := jtL_cancel e4
      exact ⟨rfl, e5⟩
    | _ => exfalso; simp only [okind] at hk; omega
  | concat a1 a2 i an bn ih1 ih2 =>
    intro b r1 r2 ha hb h
    have hk := opsL_kind_eq h
    cases b with
    | concat b1 b2 i' an' bn' =>
      simp only [RenderOK, renderOKb, Bool.and_eq_true] at ha hb
      rw [opsL_concat, opsL_concat] at h
      simp only [List.cons_append, List.append_assoc, List.nil_append, List.cons.injEq, true_and] at h
      obtain ⟨rfl, e1⟩ := ih1 b1 _ _ ha.1 hb.1 h
      obtain ⟨rfl, e2⟩ := ih2 b2 _ _ ha.2 hb.2 e1
      obtain ⟨rfl, e3⟩ := idL_cancel hq hh e2
      obtain ⟨rfl, e4⟩ := hq an an' _ _ e3
      obtain ⟨rfl, e5⟩ := hq bn bn' _ _ e4
      simp only [List.cons.injEq, true_and] at e5
      exact ⟨rfl, e5⟩
    | _ => exfalso; simp only [okind] at hk; omega
  | convert s rm ih =>
    intro b r1 r2 ha
    simp only [RenderOK, renderOKb, Bool.false_eq_true] at ha

/-- **`renderOps` is a prefix code** on the pipelines with `RenderOK` -/
theorem renderOps_cancel (hq : QuoteCode) (hh : QuoteHead) {a b : Ops} (ha : RenderOK a) (hb : RenderOK b)
    {r1 r2 : List Char} (h : (renderOps a).toList ++ r1 = (renderOps b).toList ++ r2) : a = b ∧ r1 = r2 :=
  opsL_cancel hq hh a b r1 r2 ha hb h

/-- **`renderOps` is injective** on the pipelines with `RenderOK` -/
theorem renderOps_inj (hq : QuoteCode) (hh : QuoteHead) {a b : Ops} (ha : RenderOK a) (hb : RenderOK b)
    (h : renderOps a = renderOps b) : a = b :=
  (renderOps_cancel hq hh ha hb (r1 := []) (r2 := []) (by rw [h])).1

/-! ### cache keys -/

theorem kinds_noparen : ∀ k ∈ kinds, '(' ∉ k.toList := by decide

theorem strsL_inj (hq : QuoteCode) (hh : QuoteHead) {a b : List String} (h : strsL a = strsL b) : a = b :=
  (strsL_cancel hq hh (r1 := []) (r2 := []) (by rw [h])).1

/-- the text of an `ops_key`: kind, `(`, the pipeline, then `)` or `,[term keys])` -/
theorem isKeyOf_toList {n : Ops} {k : String} (hk : IsKeyOf n k) :
    ∃ kind ∈ kinds, ∃ tl, k.toList = kind.toList ++ '(' :: (opsL n ++ tl) ∧
      (tl = [')'] ∨ ∃ ks, tl = ',' :: (strsL ks ++ [')'])) := by
  obtain ⟨kind, hkind, h | ⟨ks, h⟩⟩ := hk
  · refine ⟨kind, hkind, [')'], ?_, Or.inl rfl⟩
    rw [h]
    simp only [String.toList_append, List.append_assoc, opsL]
    rfl
  · refine ⟨kind, hkind, ',' :: (strsL ks ++ [')']), ?_, Or.inr ⟨ks, rfl⟩⟩
    rw [h]
    simp only [String.toList_append, List.append_assoc, opsL, strsL]
    rfl

/-- **Cancellation of CTE-cache keys**: equal keys `ops_key ++ "_" ++ columns` come from the same pipeline and the same
column list (pipelines with `RenderOK`; `QuoteCode`, `QuoteHead`: the two assumptions on `String.quote`). -/
theorem cacheKey_cancel (hq : QuoteCode) (hh : QuoteHead) {n1 n2 : Ops} (h1 : RenderOK n1) (h2 : RenderOK n2)
    {k1 k2 : String} (hk1 : IsKeyOf n1 k1) (hk2 : IsKeyOf n2 k2) {c1 c2 : List String}
    (h : k1 ++ ("_" ++ renderStrs c1) = k2 ++ ("_" ++ renderStrs c2)) : n1 = n2 ∧ c1 = c2 := by
  obtain ⟨kind1, hkind1, tl1, e1, ht1⟩ := isKeyOf_toList hk1
  obtain ⟨kind2, hkind2, tl2, e2, ht2⟩ := isKeyOf_toList hk2
  have h' := congrArg String.toList h
  have hu : ("_" : String).toList = ['_'] := by decide
  simp only [String.toList_append, e1, e2, hu, List.append_assoc, List.cons_append, List.nil_append] at h'
  obtain ⟨_, h''⟩ := split_first _ _ (kinds_noparen kind1 hkind1) (kinds_noparen kind2 hkind2) h'
  obtain ⟨rfl, h3⟩ := opsL_cancel hq hh n1 n2 _ _ h1 h2 h''
  refine ⟨rfl, ?_⟩
  rcases ht1 with rfl | ⟨ks1, rfl⟩ <;> rcases ht2 with rfl | ⟨ks2, rfl⟩ <;>
    simp only [List.cons_append, List.nil_append, List.append_assoc, List.cons.injEq, true_and] at h3
  · exact strsL_inj hq hh (by exact h3)
  · exact absurd h3.1 (by decide)
  · exact absurd h3.1 (by decide)
  · obtain ⟨_, h4⟩ := strsL_cancel hq hh h3
    simp only [List.cons.injEq, true_and] at h4
    exact strsL_inj hq hh (by exact h4)

end DAVerif.C04K
