import DAVerif.Proofs.RenameBasic
/-!
Renaming, builder layer: the builder methods (`build : Ops → Step → Except Err Ops` and every constructor / helper it
calls) commute with an injective renaming of columns (`ρc`) and tables (`ρt`): the builders only compare names for
equality and membership.  Also `Ops.tables` and `Ops.usedFromSources`.

Main statements: `tables_ren`, `usedFromSources_ren`, `build_ren`, `buildChain_ren`
(and `extendParsed_ren`, `projectParsed_ren`, `selectRowsB_ren`, … for the internally used entry points).
-/
namespace DAVerif
namespace Ren
open Function (Injective)

variable {ρc : ColRen} {ρt : TabRen}

theorem tables_ren (p : Ops) :
    (p.ren ρc ρt).tables = p.tables.map (fun kv => (ρt kv.1, kv.2.map ρc)) := by
  induction p with
  | table name cs => rfl
  | join a b oa ob jt iha ihb => simp only [Ops.ren, Ops.tables, iha, ihb, List.map_append]
  | concat a b idc an bn iha ihb => simp only [Ops.ren, Ops.tables, iha, ihb, List.map_append]
  | _ => simp only [Ops.ren, Ops.tables, *]

/-! ### the `Except` plumbing -/
theorem ok?_bind {α : Type} (c : Bool) (e : Err) (k : Unit → Except Err α) :
    (ok? c e >>= k) = if c then k () else .error e := by
  cases c <;> rfl

theorem map_ite {α β : Type} (g : α → β) (c : Prop) [Decidable c] (a b : Except Err α) :
    Except.map g (if c then a else b) = if c then Except.map g a else Except.map g b := by
  split <;> rfl

theorem map_pure' {α β : Type} (g : α → β) (a : α) : Except.map g (pure a : Except Err α) = pure (g a) := rfl
theorem map_ok' {α β : Type} (g : α → β) (a : α) : Except.map g (Except.ok a : Except Err α) = Except.ok (g a) := rfl
theorem map_error' {α β : Type} (g : α → β) (e : Err) : Except.map g (Except.error e : Except Err α) = Except.error e := rfl

/-- a checking loop is one check of `all` -/
theorem forIn_ok? {α : Type} (ops : List α) (c : α → Bool) (e : Err) :
    (forIn ops PUnit.unit (fun kv _ => do ok? (c kv) e; pure (ForInStep.yield PUnit.unit)) : Except Err PUnit)
      = ok? (ops.all c) e := by
  induction ops with
  | nil => rfl
  | cons a ops ih =>
    rw [List.forIn_cons, List.all_cons]
    cases h : c a
    · rfl
    · simp only [ok?, Bool.true_and]
      exact ih


theorem parseAssignments_eq (c : List String) (ops : Assign) :
    parseAssignments c ops =
      if nodupB (ops.map (·.1)) then
        if ops.all (fun kv => subset (Term.colsRaw kv.2) c) then
          if disjoint (ops.map (·.1)) (ops.flatMap (fun kv => (Term.colsRaw kv.2).filter (fun c => c != kv.1))) then
            .ok ops
          else .error .valueError
        else .error .nameError
      else .error .valueError := by
  unfold parseAssignments
  simp only [forIn_ok?]
  simp only [ok?_bind]
  rfl

theorem parseAssignments_ren (hc : Injective ρc) (c : List String) (ops : Assign) :
    parseAssignments (c.map ρc) (Assign.rename ρc ops) = (parseAssignments c ops).map (Assign.rename ρc) := by
  have h1 : (Assign.rename ρc ops).all (fun kv => subset (Term.colsRaw kv.2) (c.map ρc))
      = ops.all (fun kv => subset (Term.colsRaw kv.2) c) := by
    unfold Assign.rename
    exact all_map' _ ops _ _ (fun x => by simp only [colsRaw_rename, subset_map hc])
  have h2 : (Assign.rename ρc ops).flatMap (fun kv => (Term.colsRaw kv.2).filter (fun c => c != kv.1))
      = (ops.flatMap (fun kv => (Term.colsRaw kv.2).filter (fun c => c != kv.1))).map ρc := by
    clear h1
    unfold Assign.rename
    induction ops with
    | nil => rfl
    | cons a ops ih =>
      simp only [List.map_cons, List.flatMap_cons, List.map_append, colsRaw_rename]
      rw [filter_map' _ _ (fun c => c != a.1) (fun x => bne_inj hc x a.1), ih]
  simp only [parseAssignments_eq, h1, h2, assign_keys, nodupB_map hc, disjoint_map hc, map_ite, map_ok', map_error']

/-! ### small helpers on assignment lists -/
theorem assign_filter_key (hc : Injective ρc) (ops : Assign) (l : List String) :
    (Assign.rename ρc ops).filter (fun kv => (l.map ρc).contains kv.1)
      = Assign.rename ρc (ops.filter (fun kv => l.contains kv.1)) := by
  unfold Assign.rename
  rw [List.filter_map]
  congr 1
  apply List.filter_congr
  intro x _
  simp only [Function.comp, contains_map hc]

theorem assign_filter_not_key (hc : Injective ρc) (ops : Assign) (l : List String) :
    (Assign.rename ρc ops).filter (fun kv => !(l.map ρc).contains kv.1)
      = Assign.rename ρc (ops.filter (fun kv => !l.contains kv.1)) := by
  unfold Assign.rename
  rw [List.filter_map]
  congr 1
  apply List.filter_congr
  intro x _
  simp only [Function.comp, contains_map hc]

theorem assign_append (ρ : ColRen) (a b : Assign) :
    Assign.rename ρ (a ++ b) = Assign.rename ρ a ++ Assign.rename ρ b := by
  simp only [Assign.rename, List.map_append]

theorem assign_isEmpty (ρ : ColRen) (a : Assign) : (Assign.rename ρ a).isEmpty = a.isEmpty := by
  simp only [Assign.rename, List.isEmpty_map]

/-! ### `columns_used_from_sources` -/
theorem map_getD_lookupLast (hc : Injective ρc) (m : List (String × String)) (usg : List String) :
    (usg.map ρc).map (fun c => (lookupLast (m.map (fun kv => (ρc kv.1, ρc kv.2))) c).getD c)
      = (usg.map (fun c => (lookupLast m c).getD c)).map ρc := by
  simp only [List.map_map]
  apply List.map_congr_left
  intro c _
  exact lookupLast_getD_map hc m c

theorem usedFromSources_ren (hc : Injective ρc) (p : Ops) (usg : List String) :
    Ops.usedFromSources (p.ren ρc ρt) (usg.map ρc) = (Ops.usedFromSources p usg).map (·.map ρc) := by
  cases p with
  | table n cs => rfl
  | extend src ops part od rv w =>
    simp only [Ops.ren, Ops.usedFromSources, assign_filter_key hc, assign_isEmpty, assign_keys, colsUsedOps_rename hc,
      cols_ren hc, unionL_map hc, filter_contains hc, filter_not_contains hc,
      apply_ite (List.map (fun x => List.map ρc x)), List.map_cons, List.map_nil]
  | project src ops g =>
    simp only [Ops.ren, Ops.usedFromSources, assign_filter_key hc, colsUsedOps_rename hc, unionL_map hc,
      List.map_cons, List.map_nil]
  | selectRows src e =>
    simp only [Ops.ren, Ops.usedFromSources, cols_ren hc, filter_contains hc, colsUsed_rename hc, unionL_map hc,
      List.map_cons, List.map_nil]
  | selectCols src cs =>
    simp only [Ops.ren, Ops.usedFromSources, filter_contains hc, List.map_cons, List.map_nil]
  | dropCols src ds =>
    simp only [Ops.ren, Ops.usedFromSources, filter_not_contains hc, List.map_cons, List.map_nil]
  | order src cs rv lim =>
    have h := cols_ren hc ρt (.order src cs rv lim)
    simp only [Ops.ren] at h
    simp only [Ops.ren, Ops.usedFromSources, h, filter_contains hc, unionL_map hc, List.map_cons, List.map_nil]
  | rename src m =>
    simp only [Ops.ren, Ops.usedFromSources, map_getD_lookupLast hc, eraseDups_map hc, List.map_cons, List.map_nil]
  | mapCols src m ds =>
    have hswap : (m.map (fun kv => (ρc kv.1, ρc kv.2))).map (fun kv => (kv.2, kv.1))
        = (m.map (fun kv => (kv.2, kv.1))).map (fun kv => (ρc kv.1, ρc kv.2)) := by
      simp only [List.map_map, Function.comp_def]
    simp only [Ops.ren, Ops.usedFromSources, hswap, map_getD_lookupLast hc, eraseDups_map hc, unionL_map hc,
      List.map_cons, List.map_nil]
  | join a b oa ob jt =>
    simp only [Ops.ren, Ops.usedFromSources, cols_ren hc, unionL_map hc, filter_contains hc, List.map_cons,
      List.map_nil]
  | concat a b idc an bn =>
    simp only [Ops.ren, Ops.usedFromSources, cols_ren hc, filter_contains hc, List.map_cons, List.map_nil]
  | convert src rm => rfl

/-! ### the checks of the builders -/
theorem impliesWindowed_ren (ρ : ColRen) (ops : Assign) : impliesWindowed (Assign.rename ρ ops) = impliesWindowed ops := by
  unfold impliesWindowed Assign.rename
  apply any_map'
  intro x
  cases x.2 <;> rfl

theorem option_map_ite {α β : Type} (g : α → β) (c : Prop) [Decidable c] (a b : Option α) :
    Option.map g (if c then a else b) = if c then Option.map g a else Option.map g b := by
  split <;> rfl

theorem tryMergeOps_ren (hc : Injective ρc) (ops1 ops2 : Assign) :
    tryMergeOps (Assign.rename ρc ops1) (Assign.rename ρc ops2)
      = (tryMergeOps ops1 ops2).map (Assign.rename ρc) := by
  simp only [tryMergeOps, assign_keys, inter_map hc, assign_filter_key hc, assign_filter_not_key hc,
    colsUsedOps_rename hc, disjoint_map hc, List.isEmpty_map, option_map_ite, Option.map_none, Option.map_some,
    assign_append]

/-! ### node constructors -/
theorem isValue_rename (ρ : ColRen) (t : Term) : isValue (t.rename ρ) = isValue t := by
  cases t <;> rfl

theorem windowOpOk_ren (hc : Injective ρc) (sc : List String) (ordered : Bool) (t : Term) :
    windowOpOk (sc.map ρc) ordered (t.rename ρc) = windowOpOk sc ordered t := by
  cases t with
  | app op args i m =>
    simp only [Term.rename, windowOpOk, renameList_eq_map, ← List.map_drop, List.head?_map]
    rw [all_map' (Term.rename ρc) (args.drop 1) isValue isValue (isValue_rename ρc)]
    congr 4
    cases args.head? with
    | none => rfl
    | some a => cases a <;> simp only [Option.map_some, Term.rename, contains_map hc]
  | _ => rfl

theorem projectOpOk_ren (ρ : ColRen) (t : Term) : projectOpOk (t.rename ρ) = projectOpOk t := by
  cases t with
  | app op args i m =>
    cases args with
    | nil => rfl
    | cons a rest =>
      cases a <;>
        simp only [Term.rename, Term.renameList, projectOpOk, List.length_cons, renameList_eq_map, List.length_map,
          List.head?_cons]
  | _ => rfl

theorem subset_nil (b : List String) : subset [] b = true := rfl

theorem mkExtend_ren (hc : Injective ρc) (src : Ops) (ops : Assign) (partition : PartArg) (order reverse : List String) :
    mkExtend (src.ren ρc ρt) (Assign.rename ρc ops) (partition.rename ρc) (order.map ρc) (reverse.map ρc)
      = (mkExtend src ops partition order reverse).map (Ops.ren ρc ρt) := by
  have hw : ∀ sc od, (Assign.rename ρc ops).all (fun kv => windowOpOk (sc.map ρc) od kv.2)
      = ops.all (fun kv => windowOpOk sc od kv.2) := by
    intro sc od
    unfold Assign.rename
    exact all_map' _ ops _ _ (fun x => windowOpOk_ren hc sc od x.2)
  cases partition <;>
  · simp only [mkExtend, PartArg.rename, forIn_ok?]
    simp only [ok?_bind, cols_ren hc, colsUsedOps_rename hc, subset_map hc, nodupB_map hc, assign_keys,
      ← List.map_append, disjoint_map hc, impliesWindowed_ren, List.isEmpty_map, hw, map_ite, map_pure', map_error',
      Ops.ren, List.nil_append, subset_nil, List.map_nil]

theorem mkProject_ren (hc : Injective ρc) (src : Ops) (ops : Assign) (group : List String) :
    mkProject (src.ren ρc ρt) (Assign.rename ρc ops) (group.map ρc)
      = (mkProject src ops group).map (Ops.ren ρc ρt) := by
  have hw : (Assign.rename ρc ops).all (fun kv => projectOpOk kv.2) = ops.all (fun kv => projectOpOk kv.2) := by
    unfold Assign.rename
    exact all_map' _ ops _ _ (fun x => projectOpOk_ren ρc x.2)
  simp only [mkProject, forIn_ok?]
  simp only [ok?_bind, cols_ren hc, colsUsedOps_rename hc, ← List.map_append, subset_map hc, nodupB_map hc, assign_keys,
    appendNew_map hc, List.isEmpty_map, hw, map_ite, map_pure', map_error', Ops.ren]

theorem mkSelectCols_ren (hc : Injective ρc) (src : Ops) (cs : List String) :
    mkSelectCols (src.ren ρc ρt) (cs.map ρc) = (mkSelectCols src cs).map (Ops.ren ρc ρt) := by
  simp only [mkSelectCols, ok?_bind, cols_ren hc, subset_map hc, nodupB_map hc, List.isEmpty_map, map_ite, map_error']
  cases src <;> simp only [map_pure', Ops.ren]

theorem mkDropCols_ren (hc : Injective ρc) (src : Ops) (cs : List String) :
    mkDropCols (src.ren ρc ρt) (cs.map ρc) = (mkDropCols src cs).map (Ops.ren ρc ρt) := by
  simp only [mkDropCols, ok?_bind, cols_ren hc, subset_map hc, filter_not_contains hc, List.isEmpty_map, map_ite,
    map_pure', map_error', Ops.ren]

theorem mkOrder_ren (hc : Injective ρc) (src : Ops) (cs rv : List String) (lim : Option Nat) :
    mkOrder (src.ren ρc ρt) (cs.map ρc) (rv.map ρc) lim = (mkOrder src cs rv lim).map (Ops.ren ρc ρt) := by
  simp only [mkOrder, ok?_bind, cols_ren hc, subset_map hc, map_ite, map_pure', map_error', Ops.ren]

theorem pairs_fst (ρ : ColRen) (m : List (String × String)) :
    (m.map (fun kv => (ρ kv.1, ρ kv.2))).map (·.1) = (m.map (·.1)).map ρ := by
  simp only [List.map_map, Function.comp_def]

theorem pairs_snd (ρ : ColRen) (m : List (String × String)) :
    (m.map (fun kv => (ρ kv.1, ρ kv.2))).map (·.2) = (m.map (·.2)).map ρ := by
  simp only [List.map_map, Function.comp_def]

theorem mkRename_ren (hc : Injective ρc) (src : Ops) (m : List (String × String)) :
    mkRename (src.ren ρc ρt) (m.map (fun kv => (ρc kv.1, ρc kv.2))) = (mkRename src m).map (Ops.ren ρc ρt) := by
  have hn : (Ops.rename (src.ren ρc ρt) (m.map (fun kv => (ρc kv.1, ρc kv.2)))) = (Ops.rename src m).ren ρc ρt := rfl
  simp only [mkRename, hn, ok?_bind, cols_ren hc, pairs_fst, pairs_snd, subset_map hc, inter_map hc,
    filter_not_contains hc, filter_contains hc, nodupB_map hc, List.isEmpty_map, map_ite, map_pure', map_error']

theorem mkMapCols_ren (hc : Injective ρc) (src : Ops) (m : List (String × Option String)) :
    mkMapCols (src.ren ρc ρt) (m.map (fun kv => (ρc kv.1, kv.2.map ρc))) = (mkMapCols src m).map (Ops.ren ρc ρt) := by
  have h1 : (m.map (fun kv => (ρc kv.1, kv.2.map ρc))).filterMap (fun kv => kv.2.map (fun v => (kv.1, v)))
      = (m.filterMap (fun kv => kv.2.map (fun v => (kv.1, v)))).map (fun kv => (ρc kv.1, ρc kv.2)) := by
    induction m with
    | nil => rfl
    | cons a m ih =>
      obtain ⟨k, v⟩ := a
      cases v <;> simp only [List.map_cons, Option.map_none, Option.map_some, List.filterMap_cons, ih]
  have h2 : ((m.map (fun kv => (ρc kv.1, kv.2.map ρc))).filter (fun kv => kv.2.isNone)).map (·.1)
      = ((m.filter (fun kv => kv.2.isNone)).map (·.1)).map ρc := by
    clear h1
    induction m with
    | nil => rfl
    | cons a m ih =>
      obtain ⟨k, v⟩ := a
      cases v <;> simp only [List.map_cons, Option.map_none, Option.map_some, List.filter_cons, Option.isNone_none,
        Option.isNone_some, if_true, if_false, ih, Bool.false_eq_true]
  have h3 : (m.map (fun kv => (ρc kv.1, kv.2.map ρc))).map (·.1) = (m.map (·.1)).map ρc := by
    simp only [List.map_map, Function.comp_def]
  have hn : ∀ r d, (Ops.mapCols (src.ren ρc ρt) (r.map (fun kv => (ρc kv.1, ρc kv.2))) (d.map ρc))
      = (Ops.mapCols src r d).ren ρc ρt := fun _ _ => rfl
  simp only [mkMapCols, h1, h2, h3, hn, ok?_bind, cols_ren hc, pairs_snd, subset_map hc, inter_map hc,
    filter_not_contains hc, filter_contains hc, nodupB_map hc, List.isEmpty_map, map_ite, map_pure', map_error']

theorem list_beq_map (hc : Injective ρc) (a b : List String) : (a.map ρc == b.map ρc) = (a == b) := by
  induction a generalizing b with
  | nil => cases b <;> rfl
  | cons x a ih =>
    cases b with
    | nil => rfl
    | cons y b =>
      simp only [List.map_cons]
      show (ρc x == ρc y && (a.map ρc == b.map ρc)) = (x == y && (a == b))
      rw [beq_inj hc, ih]

theorem tablesConsistent_ren (hc : Injective ρc) (ht : Injective ρt) (ta tb : List (String × List String)) :
    tablesConsistent (ta.map (fun kv => (ρt kv.1, kv.2.map ρc))) (tb.map (fun kv => (ρt kv.1, kv.2.map ρc)))
      = tablesConsistent ta tb := by
  unfold tablesConsistent
  apply all_map'
  intro x
  apply all_map'
  intro y
  simp only [bne_inj ht, list_beq_map hc]

theorem mkJoin_ren (hc : Injective ρc) (ht : Injective ρt) (a b : Ops) (onA onB : List String) (jt : String)
    (check : Bool) :
    mkJoin (a.ren ρc ρt) (b.ren ρc ρt) (onA.map ρc) (onB.map ρc) jt check
      = (mkJoin a b onA onB jt check).map (Ops.ren ρc ρt) := by
  simp only [mkJoin, ok?_bind, tables_ren, tablesConsistent_ren hc ht, cols_ren hc, subset_map hc, inter_map hc,
    filter_not_contains hc, List.isEmpty_map, List.length_map, map_ite, map_error']
  cases check <;> cases JoinType.parse jt <;>
    simp only [map_ite, map_pure', map_error', Ops.ren, throw, throwThe, MonadExceptOf.throw]

theorem mkConcat_ren (hc : Injective ρc) (ht : Injective ρt) (a b : Ops) (idc : Option String) (an bn : String) :
    mkConcat (a.ren ρc ρt) (b.ren ρc ρt) (idc.map ρc) an bn = (mkConcat a b idc an bn).map (Ops.ren ρc ρt) := by
  cases idc <;>
    simp only [mkConcat, ok?_bind, tables_ren, tablesConsistent_ren hc ht, cols_ren hc, subset_map hc, contains_map hc,
      Option.map_none, Option.map_some, map_ite, map_pure', map_error', Ops.ren]

theorem mkConvert_ren (hc : Injective ρc) (src : Ops) (rm : RecMap) :
    mkConvert (src.ren ρc ρt) (rm.rename ρc) = (mkConvert src rm).map (Ops.ren ρc ρt) := by
  simp only [mkConvert, RecMap.rename, ok?_bind, cols_ren hc, subset_map hc, nodupB_map hc, List.isEmpty_map, map_ite,
    map_pure', map_error', Ops.ren]

theorem workColGroup_ren (hc : Injective ρc) (arg cols : List String) :
    workColGroup (arg.map ρc) (cols.map ρc) = workColGroup arg cols := by
  simp only [workColGroup, nodupB_map hc, subset_map hc]

/-! ### the builder methods -/
theorem workColGroup_eq (arg cols : List String) :
    workColGroup arg cols = ok? (nodupB arg && subset arg cols) .assertionError := by
  unfold workColGroup
  cases nodupB arg <;> cases subset arg cols <;> rfl

/-- fold the unfolded image of a node back into `Ops.ren` -/
local macro "refold_ren" ρc:term:max ρt:term:max : tactic =>
  `(tactic| simp only [← Ops.ren.eq_1 $ρc $ρt, ← Ops.ren.eq_2 $ρc $ρt, ← Ops.ren.eq_3 $ρc $ρt, ← Ops.ren.eq_4 $ρc $ρt,
      ← Ops.ren.eq_5 $ρc $ρt, ← Ops.ren.eq_6 $ρc $ρt, ← Ops.ren.eq_7 $ρc $ρt, ← Ops.ren.eq_8 $ρc $ρt,
      ← Ops.ren.eq_9 $ρc $ρt, ← Ops.ren.eq_10 $ρc $ρt, ← Ops.ren.eq_11 $ρc $ρt, ← Ops.ren.eq_12 $ρc $ρt])

set_option linter.unusedSimpArgs false in
theorem extendParsed_ren (hc : Injective ρc) (p : Ops) (ops : Assign) (partition : PartArg) (order reverse : List String) :
    extendParsed (p.ren ρc ρt) (Assign.rename ρc ops) (partition.rename ρc) (order.map ρc) (reverse.map ρc)
      = (extendParsed p ops partition order reverse).map (Ops.ren ρc ρt) := by
  have e1 : ∀ src ops, mkExtend (Ops.ren ρc ρt src) (Assign.rename ρc ops) (partition.rename ρc) (order.map ρc) (reverse.map ρc)
       = (mkExtend src ops partition order reverse).map (Ops.ren ρc ρt) := fun src ops => mkExtend_ren hc src ops partition order reverse
  induction p with
  | extend src ops1 part1 order1 reverse1 w ih =>
    clear ih
    conv => lhs; unfold extendParsed
    conv => rhs; unfold extendParsed
    cases partition <;>
    · simp only [PartArg.rename] at e1 ⊢
      simp only [Ops.ren, tryMergeOps_ren hc]
      cases tryMergeOps ops1 ops <;>
      · refold_ren ρc ρt
        simp only [workColGroup_eq, ok?_bind, cols_ren hc, nodupB_map hc, subset_map hc, disjoint_map hc, assign_keys,
          assign_isEmpty, List.isEmpty_map, e1, map_ite, map_pure', map_error', list_beq_map hc, impliesWindowed_ren,
          Option.map_none, Option.map_some, pure_bind]
  | order src cs rv lim ih =>
    conv => lhs; unfold extendParsed
    conv => rhs; unfold extendParsed
    cases lim <;> cases partition <;>
    · simp only [PartArg.rename] at e1 ih ⊢
      simp only [Ops.ren, ih]
      refold_ren ρc ρt
      simp only [workColGroup_eq, ok?_bind, cols_ren hc, nodupB_map hc, subset_map hc, disjoint_map hc, assign_keys,
        assign_isEmpty, List.isEmpty_map, e1, map_ite, map_pure', map_error', pure_bind]
  | _ =>
    conv => lhs; unfold extendParsed
    conv => rhs; unfold extendParsed
    cases partition <;>
    · simp only [PartArg.rename] at e1 ⊢
      simp only [Ops.ren]
      refold_ren ρc ρt
      simp only [workColGroup_eq, ok?_bind, cols_ren hc, nodupB_map hc, subset_map hc, disjoint_map hc, assign_keys,
        assign_isEmpty, List.isEmpty_map, e1, map_ite, map_pure', map_error', pure_bind]

set_option linter.unusedSimpArgs false in
theorem projectParsed_ren (hc : Injective ρc) (p : Ops) (ops : Assign) (group : List String) :
    projectParsed (p.ren ρc ρt) (Assign.rename ρc ops) (group.map ρc)
      = (projectParsed p ops group).map (Ops.ren ρc ρt) := by
  induction p with
  | order src cs rv lim ih =>
    conv => lhs; unfold projectParsed
    conv => rhs; unfold projectParsed
    cases lim <;>
    · simp only [Ops.ren, ih]
      refold_ren ρc ρt
      simp only [workColGroup_eq, ok?_bind, cols_ren hc, nodupB_map hc, subset_map hc, disjoint_map hc, assign_keys,
        assign_isEmpty, List.isEmpty_map, mkProject_ren hc, map_ite, map_pure', map_error']
  | _ =>
    conv => lhs; unfold projectParsed
    conv => rhs; unfold projectParsed
    simp only [Ops.ren]
    refold_ren ρc ρt
    simp only [workColGroup_eq, ok?_bind, cols_ren hc, nodupB_map hc, subset_map hc, disjoint_map hc, assign_keys,
      assign_isEmpty, List.isEmpty_map, mkProject_ren hc, map_ite, map_pure', map_error']

theorem joinB_ren (hc : Injective ρc) (ht : Injective ρt) (p b : Ops) (onA onB : List String) (jt : String)
    (check : Bool) :
    joinB (p.ren ρc ρt) (b.ren ρc ρt) (onA.map ρc) (onB.map ρc) jt check
      = (joinB p b onA onB jt check).map (Ops.ren ρc ρt) := by
  induction p with
  | order src cs rv lim ih =>
    cases lim with
    | none => simpa only [Ops.ren, joinB] using ih
    | some l => exact mkJoin_ren hc ht (.order src cs rv (some l)) b onA onB jt check
  | _ => exact mkJoin_ren hc ht _ b onA onB jt check

theorem concatB_ren (hc : Injective ρc) (ht : Injective ρt) (p b : Ops) (idc : Option String) (an bn : String) :
    concatB (p.ren ρc ρt) (b.ren ρc ρt) (idc.map ρc) an bn = (concatB p b idc an bn).map (Ops.ren ρc ρt) := by
  induction p with
  | order src cs rv lim ih =>
    cases lim with
    | none => simpa only [Ops.ren, concatB] using ih
    | some l => exact mkConcat_ren hc ht (.order src cs rv (some l)) b idc an bn
  | _ => exact mkConcat_ren hc ht _ b idc an bn

theorem selectRowsB_ren (p : Ops) (e : Term) :
    selectRowsB (p.ren ρc ρt) (e.rename ρc) = (selectRowsB p e).map (Ops.ren ρc ρt) := by
  induction p with
  | order src cs rv lim ih =>
    cases lim with
    | none => simpa only [Ops.ren, selectRowsB] using ih
    | some l => rfl
  | _ => rfl

theorem dropColsB_ren (hc : Injective ρc) (p : Ops) (cs : List String) :
    dropColsB (p.ren ρc ρt) (cs.map ρc) = (dropColsB p cs).map (Ops.ren ρc ρt) := by
  induction p with
  | order src cs' rv lim ih =>
    cases lim with
    | none => simpa only [Ops.ren, dropColsB] using ih
    | some l => exact mkDropCols_ren hc (.order src cs' rv (some l)) cs
  | _ => exact mkDropCols_ren hc _ cs

theorem selectColsB_ren (hc : Injective ρc) (p : Ops) (cs : List String) :
    selectColsB (p.ren ρc ρt) (cs.map ρc) = (selectColsB p cs).map (Ops.ren ρc ρt) := by
  induction p with
  | order src cs' rv lim ih =>
    cases lim with
    | none => simpa only [Ops.ren, selectColsB] using ih
    | some l => exact mkSelectCols_ren hc (.order src cs' rv (some l)) cs
  | selectCols src cs0 ih =>
    simp only [Ops.ren, selectColsB, ok?_bind, subset_map hc, ih, map_ite, map_error']
  | dropCols src dels ih =>
    have h := cols_ren hc ρt (.dropCols src dels)
    simp only [Ops.ren] at h
    simp only [Ops.ren, selectColsB, ok?_bind, h, subset_map hc, ih, map_ite, map_error']
  | _ => exact mkSelectCols_ren hc _ cs

theorem mapColsB_ren (hc : Injective ρc) (p : Ops) (m : List (String × Option String)) :
    mapColsB (p.ren ρc ρt) (m.map (fun kv => (ρc kv.1, kv.2.map ρc))) = (mapColsB p m).map (Ops.ren ρc ρt) := by
  induction p with
  | order src cs rv lim ih =>
    cases lim with
    | none => simpa only [Ops.ren, mapColsB] using ih
    | some l => exact mkMapCols_ren hc (.order src cs rv (some l)) m
  | _ => exact mkMapCols_ren hc _ m

theorem renameB_ren (hc : Injective ρc) (p : Ops) (m : List (String × String)) :
    renameB (p.ren ρc ρt) (m.map (fun kv => (ρc kv.1, ρc kv.2))) = (renameB p m).map (Ops.ren ρc ρt) := by
  induction p with
  | order src cs rv lim ih =>
    cases lim with
    | none => simpa only [Ops.ren, renameB] using ih
    | some l => exact mkRename_ren hc (.order src cs rv (some l)) m
  | _ => exact mkRename_ren hc _ m

theorem orderB_ren (hc : Injective ρc) (p : Ops) (cs rv : List String) (lim : Option Nat) :
    orderB (p.ren ρc ρt) (cs.map ρc) (rv.map ρc) lim = (orderB p cs rv lim).map (Ops.ren ρc ρt) := by
  induction p with
  | order src cs' rv' lim' ih =>
    cases lim' with
    | none => simpa only [Ops.ren, orderB] using ih
    | some l => exact mkOrder_ren hc (.order src cs' rv' (some l)) cs rv lim
  | _ => exact mkOrder_ren hc _ cs rv lim

theorem convertB_ren (hc : Injective ρc) (p : Ops) (rm : RecMap) :
    convertB (p.ren ρc ρt) (rm.rename ρc) = (convertB p rm).map (Ops.ren ρc ρt) := by
  induction p with
  | order src cs rv lim ih =>
    cases lim with
    | none => simpa only [Ops.ren, convertB] using ih
    | some l => exact mkConvert_ren hc (.order src cs rv (some l)) rm
  | _ => exact mkConvert_ren hc _ rm

/-! ### `build` -/
/-- the one-entry dictionary `select_rows` parses: only the column check can fail -/
theorem parseAssignments_single (cols : List String) (k : String) (e : Term) :
    parseAssignments cols [(k, e)] = if subset (Term.colsRaw e) cols then .ok [(k, e)] else .error .nameError := by
  have h : disjoint [k] ((Term.colsRaw e).filter (fun c => c != k) ++ []) = true := by
    simp [disjoint]
  have h2 : nodupB [k] = true := by simp [nodupB, List.eraseDups_cons]
  simp only [parseAssignments_eq, List.map_cons, List.map_nil, List.all_cons, List.all_nil, Bool.and_true,
    List.flatMap_cons, List.flatMap_nil, h, h2, if_true]

theorem build_ren (hc : Injective ρc) (ht : Injective ρt) (p : Ops) (s : Step) :
    build (p.ren ρc ρt) (s.ren ρc ρt) = (build p s).map (Ops.ren ρc ρt) := by
  cases s with
  | extend ops partition order reverse =>
    simp only [Step.ren, build, cols_ren hc, parseAssignments_ren hc]
    cases parseAssignments p.cols ops with
    | error e => rfl
    | ok parsed => exact extendParsed_ren hc p parsed partition order reverse
  | project ops group =>
    simp only [Step.ren, build, cols_ren hc, parseAssignments_ren hc]
    cases parseAssignments p.cols ops with
    | error e => rfl
    | ok parsed => exact projectParsed_ren hc p parsed group
  | selectRows e =>
    cases e with
    | none => rfl
    | some e =>
      simp only [Step.ren, Option.map_some, build, cols_ren hc, parseAssignments_single, colsRaw_rename, subset_map hc]
      split
      · exact selectRowsB_ren p e
      · rfl
  | selectCols cs =>
    simp only [Step.ren, build, ok?_bind, List.isEmpty_map, selectColsB_ren hc, map_ite, map_error']
  | dropCols cs =>
    simp only [Step.ren, build, List.isEmpty_map, dropColsB_ren hc, map_ite, map_ok']
  | order cs rv lim =>
    simp only [Step.ren, build, List.isEmpty_map, orderB_ren hc, map_ite, map_ok']
  | rename m =>
    simp only [Step.ren, build, List.isEmpty_map, renameB_ren hc, map_ite, map_ok']
  | mapCols m =>
    simp only [Step.ren, build, List.isEmpty_map, mapColsB_ren hc, map_ite, map_ok']
  | join b onA onB jt check => exact joinB_ren hc ht p b onA onB jt check
  | concat b idc an bn =>
    cases b with
    | none => rfl
    | some b => exact concatB_ren hc ht p b idc an bn
  | convert rm =>
    cases rm with
    | none => rfl
    | some rm => exact convertB_ren hc p rm

theorem buildChain_ren (hc : Injective ρc) (ht : Injective ρt) (p : Ops) (steps : List Step) :
    buildChain (p.ren ρc ρt) (steps.map (Step.ren ρc ρt)) = (buildChain p steps).map (Ops.ren ρc ρt) := by
  unfold buildChain
  induction steps generalizing p with
  | nil => rfl
  | cons s steps ih =>
    simp only [List.map_cons, List.foldlM_cons, build_ren hc ht]
    cases build p s with
    | error e => rfl
    | ok q => exact ih q

end Ren
end DAVerif
