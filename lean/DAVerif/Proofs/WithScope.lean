import DAVerif.Proofs.WithFix
/-
SQL scoping of CTE names (finding D24): in the text `WITH extend_1 AS (…) … FROM "extend_1"` a table reference that is
spelled like an earlier CTE denotes the CTE.  `semWithC` (Sql/WithFormG.lean) is `semWith` with that rule; it agrees
with `semWith` when no table the query reads is named like one of its generated query names.
-/
namespace DAVerif.Sql
open DAVerif

section
variable (Θ : Interp) (ec : EngineCfg)

/-- the SQL semantics reads the environment only at the tables of the query -/
theorem semNear_env_congr (env1 env2 : Env) (ctes : List (String × Table)) (near : Near) :
    (∀ n ∈ near.tables, List.lookup n env1 = List.lookup n env2) →
      ∀ cols f, semNear Θ ec env1 ctes near cols f = semNear Θ ec env2 ctes near cols f := by
  induction near with
  | table n ts =>
    intro h cols f
    simp only [semNear, h n (by simp [Near.tables])]
  | cte n => intro _ cols f; simp only [semNear]
  | unary name terms agg sub sc sf mg deps k ih =>
    intro h cols f
    simp only [semNear, ih (fun n hn => h n (by simpa [Near.tables] using hn)) sc false]
  | join name terms l lc ln r rc rn jt oa ob k ihl ihr =>
    intro h cols f
    simp only [semNear, ihl (fun n hn => h n (by simp [Near.tables, hn])) (some lc) false,
      ihr (fun n hn => h n (by simp [Near.tables, hn])) (some rc) false]
  | union name terms l r cs k ihl ihr =>
    intro h cols f
    simp only [semNear, ihl (fun n hn => h n (by simp [Near.tables, hn])) (some cs) true,
      ihr (fun n hn => h n (by simp [Near.tables, hn])) (some cs) true]

theorem lookup_scopeEnv (env : Env) (ctes : List (String × Table)) (n : String) (h : n ∉ ctes.map (·.1)) :
    List.lookup n (scopeEnv env ctes) = List.lookup n env := by
  unfold scopeEnv
  rw [List.lookup_append]
  have : List.lookup n ctes.reverse = none := by
    rw [List.lookup_eq_none_iff]
    intro p hp
    simp only [List.mem_reverse] at hp
    simp only [bne_iff_ne, ne_eq]
    intro he
    apply h
    simp only [List.mem_map]
    exact ⟨p, hp, he.symm⟩
  rw [this]; rfl

/-- the WITH text evaluated with SQL's scoping equals the scope-free evaluation when no step reads a table named
like a generated query name -/
theorem semWithC_eq_semWith (env : Env) (steps : List WithStep) (last : Near) (N : List String)
    (hn : ∀ st ∈ steps, st.name ∈ N) (ht : ∀ st ∈ steps, ∀ n ∈ st.near.tables, n ∉ N)
    (hl : ∀ n ∈ last.tables, n ∉ N) :
    semWithC Θ ec env steps last = semWith Θ ec env steps last := by
  have main : ∀ (steps : List WithStep) (ctes : List (String × Table)), (∀ e ∈ ctes, e.1 ∈ N) →
      (∀ st ∈ steps, st.name ∈ N) → (∀ st ∈ steps, ∀ n ∈ st.near.tables, n ∉ N) →
      (steps.foldlM (fun (ctes : List (String × Table)) st => do
          let t ← semNear Θ ec (scopeEnv env ctes) ctes st.near st.cols st.force
          return ctes ++ [(st.name, t)]) ctes >>= fun ctes => semNear Θ ec (scopeEnv env ctes) ctes last none true)
        = (runSteps Θ ec env ctes steps >>= fun ctes => semNear Θ ec env ctes last none true) := by
    intro steps
    induction steps with
    | nil =>
      intro ctes hc _ _
      simp only [List.foldlM_nil, runSteps, pure_bind]
      apply semNear_env_congr
      intro n hn'
      apply lookup_scopeEnv
      intro hmem
      simp only [List.mem_map] at hmem
      obtain ⟨e, he, hee⟩ := hmem
      exact hl n hn' (hee ▸ hc e he)
    | cons st rest ih =>
      intro ctes hc hn ht
      have h1 : semNear Θ ec (scopeEnv env ctes) ctes st.near st.cols st.force
          = semNear Θ ec env ctes st.near st.cols st.force := by
        apply semNear_env_congr
        intro n hn'
        apply lookup_scopeEnv
        intro hmem
        simp only [List.mem_map] at hmem
        obtain ⟨e, he, hee⟩ := hmem
        exact ht st List.mem_cons_self n hn' (hee ▸ hc e he)
      simp only [List.foldlM_cons, runSteps, h1, bind_assoc]
      cases hs : semNear Θ ec env ctes st.near st.cols st.force with
      | error e => rfl
      | ok t =>
        simp only [bind, Except.bind, pure, Except.pure]
        have := ih (ctes ++ [(st.name, t)]) (by
            intro e he
            simp only [List.mem_append, List.mem_singleton] at he
            cases he with
            | inl h => exact hc e h
            | inr h => subst h; exact hn st List.mem_cons_self)
          (fun s hs => hn s (List.mem_cons_of_mem _ hs)) (fun s hs => ht s (List.mem_cons_of_mem _ hs))
        simp only [bind, Except.bind, runSteps] at this
        exact this
  have := main steps [] (by simp) hn ht
  rw [semWith_eq]
  unfold semWithC
  exact this

end

/-! ### the tables read by the WITH form are those of the query -/

theorem mem_appendUnseen (b : List WithStep) : ∀ (a : List WithStep) (x : WithStep), x ∈ appendUnseen a b → x ∈ a ∨ x ∈ b := by
  unfold appendUnseen
  induction b with
  | nil => intro a x h; exact Or.inl (by simpa using h)
  | cons st b ih =>
    intro a x h
    simp only [List.foldl_cons] at h
    split at h
    · cases ih a x h with
      | inl h => exact Or.inl h
      | inr h => exact Or.inr (List.mem_cons_of_mem _ h)
    · cases ih _ x h with
      | inl h =>
        simp only [List.mem_append, List.mem_singleton] at h
        cases h with
        | inl h => exact Or.inl h
        | inr h => subst h; exact Or.inr List.mem_cons_self
      | inr h => exact Or.inr (List.mem_cons_of_mem _ h)

def TablesIn (near : Near) (r : Near × List WithStep × Option Cache) : Prop :=
  (∀ n ∈ r.1.tables, n ∈ near.tables) ∧ ∀ st ∈ r.2.1, ∀ n ∈ st.near.tables, n ∈ near.tables

theorem stubStep_tables (key : KeyFn) (near : Near) (cols : Option (List String)) (force : Bool) (cache : Option Cache)
    (ih : TablesIn near (toWithFormG key cache near)) :
    TablesIn near (stubStep key cache near cols force (toWithFormG key cache near)) := by
  by_cases ht : near.isTable = true
  · rw [stubStep_isTable key _ cols force _ ht]; exact ih
  · cases hl : (cache.bind fun c => lookupLast c (key near cols)) with
    | some nm => rw [stubStep_hit key _ cols force _ ht hl]; exact ⟨by simp [Near.tables], by simp⟩
    | none =>
      rw [stubStep_miss key _ cols force _ ht hl]
      refine ⟨by simp [Near.tables], ?_⟩
      intro st hst
      simp only at hst
      split at hst
      · exact ih.2 st hst
      · simp only [List.mem_append, List.mem_singleton] at hst
        cases hst with
        | inl h => exact ih.2 st h
        | inr h => subst h; exact ih.1

theorem toWithFormG_tables (key : KeyFn) (near : Near) : ∀ cache, TablesIn near (toWithFormG key cache near) := by
  induction near with
  | table n ts => intro cache; exact ⟨by simp [toWithFormG], by simp [toWithFormG]⟩
  | cte n => intro cache; exact ⟨by simp [toWithFormG], by simp [toWithFormG]⟩
  | unary name terms agg sub sc sf mg deps k ih =>
    intro cache
    obtain ⟨mg', deps', he⟩ := toWithFormG_unary key cache name terms agg sub sc sf mg deps k
    rw [he]
    have := stubStep_tables key sub sc false cache (ih cache)
    exact ⟨by simpa [Near.tables] using this.1, by simpa [Near.tables] using this.2⟩
  | join name terms l lc ln r rc rn jt oa ob k ihl ihr =>
    intro cache
    rw [toWithFormG_join]
    have h1 := stubStep_tables key l (some lc) false cache (ihl cache)
    have h2 := stubStep_tables key r (some rc) false _ (ihr (stubStep key cache l (some lc) false (toWithFormG key cache l)).2.2)
    refine ⟨?_, ?_⟩
    · intro n hn
      simp only [Near.tables, List.mem_append] at hn ⊢
      cases hn with
      | inl h => exact Or.inl (h1.1 n h)
      | inr h => exact Or.inr (h2.1 n h)
    · intro st hst n hn
      simp only [Near.tables, List.mem_append]
      cases mem_appendUnseen _ _ _ hst with
      | inl h => exact Or.inl (h1.2 st h n hn)
      | inr h => exact Or.inr (h2.2 st h n hn)
  | union name terms l r cs k ihl ihr =>
    intro cache
    rw [toWithFormG_union]
    have h1 := stubStep_tables key l (some cs) true cache (ihl cache)
    have h2 := stubStep_tables key r (some cs) true _ (ihr (stubStep key cache l (some cs) true (toWithFormG key cache l)).2.2)
    refine ⟨?_, ?_⟩
    · intro n hn
      simp only [Near.tables, List.mem_append] at hn ⊢
      cases hn with
      | inl h => exact Or.inl (h1.1 n h)
      | inr h => exact Or.inr (h2.1 n h)
    · intro st hst n hn
      simp only [Near.tables, List.mem_append]
      cases mem_appendUnseen _ _ _ hst with
      | inl h => exact Or.inl (h1.2 st h n hn)
      | inr h => exact Or.inr (h2.2 st h n hn)

end DAVerif.Sql
