import DAVerif.Proofs.BuilderReach
import DAVerif.Proofs.EquivC
import DAVerif.Sem.Theta
/-!
C12, semantic half without the guard: an interpretation `Θadv` that satisfies the laws C06 / C07 / C12 assume of
record transforms (`ConvertOK`: the declared columns come back; `ConvertInvariant`: inputs that agree up to row and
column order give outputs that agree up to row and column order) and nevertheless lets the *row order* of the output
depend on the *column order* of the input.  Used by `C12_rebuild_sem_scope_necessary` (`Props/C12sem.lean`) to show
that, under these laws alone, the scope hypothesis of `C12_rebuild_sem_all` cannot be dropped.
-/
namespace DAVerif.C12S
open DAVerif

/-- a row over the columns `cs`: `0` in column `k`, `i` elsewhere -/
def advRow (cs : List String) (i : Rat) : Row := cs.map (fun c => (c, if c == "k" then Val.num 0 else Val.num i))

/-- two rows that tie on `k`; which comes first depends on the column order of the input -/
def advRows (cs : List String) (inCols : List String) : List Row :=
  if inCols == ["x", "y", "a", "b"] then [advRow cs 1, advRow cs 2] else [advRow cs 2, advRow cs 1]

def advConvert : RecMap → Table → Except Err Table :=
  fun rm t => if nodupB rm.produced then .ok ⟨rm.produced, advRows rm.produced t.cols⟩ else .error .other

/-- the driver's interpretation with the adversarial record transform -/
def Θadv : Interp := Theta.concrete advConvert

theorem advRow_keys (cs : List String) (i : Rat) : Row.keys (advRow cs i) = cs := by
  simp [advRow, Row.keys, List.map_map, Function.comp_def]

theorem advRows_wf (cs inCols : List String) : (⟨cs, advRows cs inCols⟩ : Table).WF := by
  intro r hr
  simp only [advRows] at hr
  split at hr <;> simp only [List.mem_cons, List.not_mem_nil, or_false] at hr <;>
    rcases hr with rfl | rfl <;> exact advRow_keys _ _

theorem advRows_perm (cs c1 c2 : List String) : (advRows cs c1).Perm (advRows cs c2) := by
  simp only [advRows]
  split <;> split
  · exact List.Perm.refl _
  · exact List.Perm.swap _ _ _
  · exact List.Perm.swap _ _ _
  · exact List.Perm.refl _

theorem Θadv_convertOK : ConvertOK Θadv := by
  intro rm t t' h
  have h' : advConvert rm t = .ok t' := h
  simp only [advConvert] at h'
  split at h'
  · cases h'; exact ⟨rfl, advRows_wf _ _⟩
  · cases h'

theorem Θadv_convertInv : ConvertInvariant Θadv := by
  intro rm t t' hn _
  show ResEquivC (advConvert rm t) (advConvert rm t')
  simp only [advConvert, nodupB_iffC.mpr hn, if_true]
  exact Table.EquivC.of_equiv ⟨rfl, advRows_perm _ _ _⟩ (advRows_wf _ _) hn

end DAVerif.C12S
