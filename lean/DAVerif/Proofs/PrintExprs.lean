import DAVerif.Proofs.PrintCalls
import DAVerif.Props.C13
/-
C12 – the expressions of a pipeline: where they sit (`exprsIn`: with the columns of the node they are evaluated over),
that the builders pass them through unchanged (`build_terms`), and that C13's well-formedness depends on the column
context only through "the columns the term mentions are known" (`wf_of_wfAny`).

All names live in `DAVerif.C12`.
-/
namespace DAVerif.C12
open DAVerif Rules26 DAVerif.Expr

set_option linter.unusedSimpArgs false
set_option linter.unusedVariables false

/-- every expression of the pipeline -/
def termsOf : Ops → List Term
  | .table _ _ => []
  | .extend s ops _ _ _ _ => termsOf s ++ ops.map (·.2)
  | .project s ops _ => termsOf s ++ ops.map (·.2)
  | .selectRows s e => termsOf s ++ [e]
  | .selectCols s _ | .dropCols s _ | .order s _ _ _ | .rename s _ | .mapCols s _ _ | .convert s _ => termsOf s
  | .join a b _ _ _ | .concat a b _ _ _ => termsOf a ++ termsOf b

/-- the expression arguments of a builder call -/
def stepTerms : Step → List Term
  | .extend ops _ _ _ => ops.map (·.2)
  | .project ops _ => ops.map (·.2)
  | .selectRows (some e) => [e]
  | _ => []

/-- every expression of the pipeline together with the columns of the node it is evaluated over (the `data_def` the
parser gets when the printed call is evaluated) -/
def exprsIn : Ops → List (List String × Term)
  | .table _ _ => []
  | .extend s ops _ _ _ _ => exprsIn s ++ ops.map (fun kv => (s.cols, kv.2))
  | .project s ops _ => exprsIn s ++ ops.map (fun kv => (s.cols, kv.2))
  | .selectRows s e => exprsIn s ++ [(s.cols, e)]
  | .selectCols s _ | .dropCols s _ | .order s _ _ _ | .rename s _ | .mapCols s _ _ | .convert s _ => exprsIn s
  | .join a b _ _ _ | .concat a b _ _ _ => exprsIn a ++ exprsIn b

theorem exprsIn_terms (p : Ops) (ct : List String × Term) (h : ct ∈ exprsIn p) : ct.2 ∈ termsOf p := by
  induction p with
  | table n cs => simp [exprsIn] at h
  | extend s ops _ _ _ _ ih | project s ops _ ih =>
    simp only [exprsIn, termsOf, List.mem_append, List.mem_map] at h ⊢
    rcases h with h | ⟨kv, hkv, rfl⟩
    · exact Or.inl (ih h)
    · exact Or.inr ⟨kv, hkv, rfl⟩
  | selectRows s e ih =>
    simp only [exprsIn, termsOf, List.mem_append, List.mem_singleton] at h ⊢
    rcases h with h | rfl
    · exact Or.inl (ih h)
    · exact Or.inr rfl
  | selectCols s _ ih | dropCols s _ ih | order s _ _ _ ih | rename s _ ih | mapCols s _ _ ih | convert s _ ih =>
    exact ih h
  | join a b _ _ _ iha ihb | concat a b _ _ _ iha ihb =>
    simp only [exprsIn, termsOf, List.mem_append] at h ⊢
    exact h.imp iha ihb

/-- in a normal-form pipeline every expression mentions columns of the node below it only -/
theorem exprsIn_cols {p : Ops} (h : NF p) (cols : List String) (t : Term) (hm : (cols, t) ∈ exprsIn p) :
    ∀ c ∈ Term.colsRaw t, c ∈ cols := by
  induction p with
  | table n cs => simp [exprsIn] at hm
  | extend s ops part order rev w ih =>
    simp only [exprsIn, List.mem_append, List.mem_map, Prod.mk.injEq] at hm
    rcases hm with hm | ⟨kv, hkv, rfl, rfl⟩
    · exact ih h.1 hm
    · have := ((parseAssignments_ok_iff _ _).mp h.2.2.2.1).2.1
      intro c hc
      exact this c (List.mem_flatMap.mpr ⟨kv, hkv, hc⟩)
  | project s ops g ih =>
    simp only [exprsIn, List.mem_append, List.mem_map, Prod.mk.injEq] at hm
    rcases hm with hm | ⟨kv, hkv, rfl, rfl⟩
    · exact ih h.1 hm
    · have hb := h.2.2
      simp only [build] at hb
      obtain ⟨parsed, hpa, _⟩ := bind_ok.mp hb
      have := ((parseAssignments_ok_iff _ _).mp (parseAssignments_ok_self hpa)).2.1
      intro c hc
      exact this c (List.mem_flatMap.mpr ⟨kv, hkv, hc⟩)
  | selectRows s e ih =>
    simp only [exprsIn, List.mem_append, List.mem_singleton, Prod.mk.injEq] at hm
    rcases hm with hm | ⟨rfl, rfl⟩
    · exact ih h.1 hm
    · have hb := h.2.2
      simp only [build] at hb
      obtain ⟨parsed, hpa, _⟩ := bind_ok.mp hb
      have := ((parseAssignments_ok_iff _ _).mp (parseAssignments_ok_self hpa)).2.1
      intro c hc
      exact this c (List.mem_flatMap.mpr ⟨("expr", t), by simp, hc⟩)
  | selectCols s _ ih | dropCols s _ ih | order s _ _ _ ih | rename s _ ih | mapCols s _ _ ih | convert s _ ih =>
    exact ih h.1 hm
  | join a b _ _ _ iha ihb =>
    simp only [exprsIn, List.mem_append] at hm
    exact hm.elim (iha h.1) (ihb h.2.2.1)
  | concat a b _ _ _ iha ihb =>
    simp only [exprsIn, List.mem_append] at hm
    exact hm.elim (iha h.1) (ihb h.2.2.1)

/-! ### the builders pass expressions through -/

theorem terms_strip {p : Ops} {t : Term} (h : t ∈ termsOf (strip p)) : t ∈ termsOf p := by
  fun_induction strip p with
  | case1 src _ _ ih => exact ih h
  | case2 p _ => exact h

theorem selectColsB_terms {p : Ops} {cs : List String} {q : Ops} (h : selectColsB p cs = .ok q) :
    ∀ t ∈ termsOf q, t ∈ termsOf p := by
  fun_induction selectColsB p cs with
  | case1 src _ _ cs ih => exact ih h
  | case2 src cs0 cs ih => exact ih (ok?_bind_ok.mp h).2
  | case3 src dels cs ih => exact ih (ok?_bind_ok.mp h).2
  | case4 self cs h1 h2 h3 =>
    simp only [mkSelectCols, ok?_bind_ok] at h
    obtain ⟨_, _, _, h⟩ := h
    simp only [pure_ok] at h
    subst h
    intro t ht; exact ht

theorem build_terms {p : Ops} {s : Step} {q : Ops} (h : build p s = .ok q) :
    ∀ t ∈ termsOf q, t ∈ termsOf p ∨ t ∈ stepTerms s ∨ ∃ b ∈ stepArgs s, t ∈ termsOf b := by
  have unary : ∀ q', (termsOf q' = termsOf (strip p)) → ∀ t ∈ termsOf q', t ∈ termsOf p ∨ t ∈ stepTerms s ∨
      ∃ b ∈ stepArgs s, t ∈ termsOf b := by
    intro q' hq t ht
    rw [hq] at ht
    exact Or.inl (terms_strip ht)
  cases s with
  | extend ops pa order rev =>
    unfold build at h
    simp only [] at h
    obtain ⟨parsed, hpa, h2⟩ := bind_ok.mp h
    clear h
    obtain ⟨rfl, _⟩ := parseAssignments_ok hpa
    by_cases hne : parsed.isEmpty = true
    · have : parsed = [] := by simpa using hne
      subst this
      rw [extendParsed.eq_def] at h2
      simp only [List.isEmpty_nil, ↓reduceIte, pure, Except.pure, Except.ok.injEq] at h2
      subst h2
      intro t ht; exact Or.inl ht
    have hne' : parsed.isEmpty = false := by simpa using hne
    rw [extendParsed_strip _ _ _ _ _ hne'] at h2
    obtain ⟨_, _, h3⟩ := bind_ok.mp h2
    clear h2
    rcases extendTop_ok h3 with h | ⟨src, ops1, part1, order1, reverse1, windowed1, newOps, ht, hm, h⟩
    · obtain ⟨rfl, _⟩ := mkExtend_ok h
      intro t ht
      simp only [termsOf, List.mem_append] at ht
      rcases ht with ht | ht
      · exact Or.inl (terms_strip ht)
      · exact Or.inr (Or.inl ht)
    · obtain ⟨rfl, _⟩ := mkExtend_ok h
      obtain ⟨⟨f, rfl⟩, _⟩ := tryMergeOps_some hm
      intro t htm
      simp only [termsOf, List.mem_append, List.map_append, List.mem_map] at htm
      rcases htm with htm | ⟨kv, hkv, rfl⟩ | ⟨kv, hkv, rfl⟩
      · left; apply terms_strip; rw [ht]; simp only [termsOf, List.mem_append]; exact Or.inl htm
      · left; apply terms_strip; rw [ht]; simp only [termsOf, List.mem_append, List.mem_map]
        exact Or.inr ⟨kv, (List.mem_filter.mp hkv).1, rfl⟩
      · exact Or.inr (Or.inl (List.mem_map.mpr ⟨kv, hkv, rfl⟩))
  | project ops g =>
    simp only [build] at h
    obtain ⟨parsed, hpa, h2⟩ := bind_ok.mp h
    obtain ⟨rfl, _⟩ := parseAssignments_ok hpa
    rw [projectParsed_strip] at h2
    obtain ⟨_, _, h3⟩ := bind_ok.mp h2
    rw [mkProject_shape h3]
    intro t ht
    simp only [termsOf, List.mem_append] at ht
    rcases ht with ht | ht
    · exact Or.inl (terms_strip ht)
    · exact Or.inr (Or.inl ht)
  | selectRows e =>
    cases e with
    | none => simp only [build, Except.ok.injEq] at h; subst h; intro t ht; exact Or.inl ht
    | some e =>
      simp only [build, selectRowsB_eq] at h
      obtain ⟨_, _, h⟩ := bind_ok.mp h
      simp only [Except.ok.injEq] at h
      subst h
      intro t ht
      simp only [termsOf, List.mem_append, List.mem_singleton] at ht
      rcases ht with ht | rfl
      · exact Or.inl (terms_strip ht)
      · exact Or.inr (Or.inl (by simp [stepTerms]))
  | selectCols cs =>
    simp only [build, ok?_bind_ok] at h
    intro t ht
    exact Or.inl (selectColsB_terms h.2 t ht)
  | dropCols cs =>
    cases hc : cs.isEmpty with
    | true => simp only [build, hc, ↓reduceIte, Except.ok.injEq] at h; subst h; intro t ht; exact Or.inl ht
    | false =>
      simp only [build, hc, Bool.false_eq_true, ↓reduceIte, dropColsB_eq] at h
      rw [mkDropCols_shape h]; exact unary _ rfl
  | order cs rev lim =>
    cases hc : (cs.isEmpty && lim.isNone) with
    | true => simp only [build, hc, ↓reduceIte, Except.ok.injEq] at h; subst h; intro t ht; exact Or.inl ht
    | false =>
      simp only [build, hc, Bool.false_eq_true, ↓reduceIte, orderB_eq] at h
      rw [mkOrder_shape h]; exact unary _ rfl
  | rename m =>
    cases hc : m.isEmpty with
    | true => simp only [build, hc, ↓reduceIte, Except.ok.injEq] at h; subst h; intro t ht; exact Or.inl ht
    | false =>
      simp only [build, hc, Bool.false_eq_true, ↓reduceIte, renameB_eq] at h
      rw [mkRename_shape h]; exact unary _ rfl
  | mapCols m =>
    cases hc : m.isEmpty with
    | true => simp only [build, hc, ↓reduceIte, Except.ok.injEq] at h; subst h; intro t ht; exact Or.inl ht
    | false =>
      simp only [build, hc, Bool.false_eq_true, ↓reduceIte, mapColsB_eq] at h
      rw [mkMapCols_shape h]; exact unary _ rfl
  | join b onA onB jt check =>
    simp only [build, joinB_eq] at h
    obtain ⟨t', rfl, _, _⟩ := mkJoin_shape h
    intro t ht
    simp only [termsOf, List.mem_append] at ht
    rcases ht with ht | ht
    · exact Or.inl (terms_strip ht)
    · exact Or.inr (Or.inr ⟨b, by simp [stepArgs], ht⟩)
  | concat b idc an bn =>
    cases b with
    | none => simp only [build, Except.ok.injEq] at h; subst h; intro t ht; exact Or.inl ht
    | some b =>
      simp only [build, concatB_eq] at h
      rw [mkConcat_shape h]
      intro t ht
      simp only [termsOf, List.mem_append] at ht
      rcases ht with ht | ht
      · exact Or.inl (terms_strip ht)
      · exact Or.inr (Or.inr ⟨b, by simp [stepArgs], ht⟩)
  | convert rm =>
    cases rm with
    | none => simp only [build, Except.ok.injEq] at h; subst h; intro t ht; exact Or.inl ht
    | some rm =>
      simp only [build, convertB_eq] at h
      rw [mkConvert_shape h]; exact unary _ rfl

/-! ### C13's well-formedness and the column context -/

/-- well formed in itself: `Expr.wf` over the columns the term mentions -/
def wfAny (t : Term) : Prop := wf (Generated.env (Term.colsRaw t)) t = true

instance (t : Term) : Decidable (wfAny t) := inferInstanceAs (Decidable (_ = true))

/-- the builders the printed form of a node invokes do not look at the columns -/
theorem shapeOk_cols (c1 c2 : List String) (op : String) (args : List Term) (i m : Bool) :
    shapeOk (Generated.env c1) op args i m = shapeOk (Generated.env c2) op args i m := rfl

mutual
theorem wf_cols (c1 c2 : List String) : ∀ t : Term, wf (Generated.env c1) t = true →
    (∀ c ∈ Term.colsRaw t, c ∈ c2) → wf (Generated.env c2) t = true
  | .value l, h, _ => by simpa [wf] using h
  | .col c, _, hc => by
      simp only [wf, Generated.env, List.contains_eq_mem, decide_eq_true_eq]
      exact hc c (by simp [Term.colsRaw])
  | .list vs, h, _ => by simpa [wf] using h
  | .dict kvs, h, _ => by simpa [wf] using h
  | .app op args i m, h, hc => by
      simp only [wf, Bool.and_eq_true] at h ⊢
      exact ⟨wfs_cols c1 c2 args h.1 (by simpa [Term.colsRaw] using hc), by rw [shapeOk_cols c2 c1]; exact h.2⟩
theorem wfs_cols (c1 c2 : List String) : ∀ ts : List Term, wfs (Generated.env c1) ts = true →
    (∀ c ∈ Term.colsRawList ts, c ∈ c2) → wfs (Generated.env c2) ts = true
  | [], _, _ => by simp [wfs]
  | t :: ts, h, hc => by
      simp only [wfs, Bool.and_eq_true] at h ⊢
      simp only [Term.colsRawList, List.mem_append] at hc
      exact ⟨wf_cols c1 c2 t h.1 (fun c hcc => hc c (Or.inl hcc)),
        wfs_cols c1 c2 ts h.2 (fun c hcc => hc c (Or.inr hcc))⟩
end

theorem wf_of_wfAny {t : Term} {cols : List String} (h : wfAny t) (hc : ∀ c ∈ Term.colsRaw t, c ∈ cols) :
    wf (Generated.env cols) t = true :=
  wf_cols _ _ t h hc

end DAVerif.C12
