import DAVerif.Proofs.BuilderReach
import DAVerif.Proofs.C07Total
/-!
C12, semantic half without the guard – structural part.

`Ops.replaceLeaves [] p` (the model of `replace_leaves({})`, `Ops/Compose.lean`) rebuilds every node of `p` through
its builder on the rebuilt sources and copies the table descriptions: the same computation as evaluating the
printed text of `p` (`C12.rebuild (C12.toCalls p)`, shown equal in `Proofs/PrintSem.lean`).  C07's lemmas about
one rebuilt node (`replace_node`, `shape_cols`, `shape_tables`) are stated for every replacement map; here they are
assembled for the empty map and pipelines with any number of table descriptions (C07 itself only needs one key):

* `replaceId_struct` – the rebuilt pipeline is valid, has the same table descriptions and declares the same
  columns up to order;
* `replaceId_total`  – rebuilding a valid pipeline never fails.
-/
namespace DAVerif.C12S
open DAVerif

/-- the table descriptions of a node: those of its first source, then those of its second source -/
theorem tables_eq_src (p : Ops) (hT : ∀ n cs, p ≠ .table n cs) :
    p.tables = p.srcA.tables ++ optTables p.srcB := by
  cases p with
  | table n cs => exact absurd rfl (hT n cs)
  | join _ _ _ _ _ => rfl
  | concat _ _ _ _ _ => rfl
  | _ => simp [Ops.tables, Ops.srcA, Ops.srcB, optTables]

/-- what is proved about `replace_leaves {}` of `p` giving `q` -/
def IdConcl (p q : Ops) : Prop :=
  q.valid = true ∧ q.tables = p.tables ∧ q.cols.Perm p.cols

def IdStmt (p : Ops) : Prop :=
  p.valid = true → ∀ q, Ops.replaceLeaves [] p = .ok q → IdConcl p q

theorem id_node {p : Ops} (hT : ∀ n cs, p ≠ .table n cs) (IHa : IdStmt p.srcA)
    (IHb : ∀ b, p.srcB = some b → IdStmt b) : IdStmt p := by
  intro hv q hq
  obtain ⟨a', ha', h⟩ := replace_node hv hT hq
  obtain ⟨ha'v, hta, hca⟩ := IHa (Ops.valid_srcA hv) a' ha'
  have hpn : p.cols = nodeCols p p.srcA.cols (optCols p.srcB) := cols_eq_nodeCols p
  have hpt := tables_eq_src p hT
  rcases h with ⟨hB, h⟩ | ⟨b, b', hB, hb', h⟩
  · obtain ⟨hqv, leaf, step, N, hshape, hNB, _, _, _, hcols, hNT⟩ := h ha'v
    refine ⟨hqv, ?_, ?_⟩
    · rw [shape_tables hshape, hNB, hpt, hB, hta]
    · have h1 := shape_cols (P := p) ha'v hshape hqv hNT hcols (cb := []) (by rw [hNB]; rfl)
      rw [hpn, hB]
      exact h1.trans (nodeCols_perm p (Ops.valid_cols_nodup ha'v) List.nodup_nil hca (List.Perm.refl _))
  · obtain ⟨hb'v, htb, hcb⟩ := IHb b hB (valid_srcB hv hB) b' hb'
    obtain ⟨hqv, leaf, step, N, hshape, hNB, _, _, _, hcols, hNT⟩ := h ha'v hb'v
    refine ⟨hqv, ?_, ?_⟩
    · rw [shape_tables hshape, hNB, hpt, hB, hta]
      simp only [optTables, htb]
    · have h1 := shape_cols (P := p) ha'v hshape hqv hNT hcols (cb := b'.cols) (by rw [hNB]; rfl)
      rw [hpn, hB]
      exact h1.trans (nodeCols_perm p (Ops.valid_cols_nodup ha'v) (Ops.valid_cols_nodup hb'v) hca hcb)

/-- **Structure of a rebuilt pipeline.**  If `replace_leaves {}` of a valid pipeline `p` returns `q`, then `q` is
valid, has exactly the table descriptions of `p` (same order) and declares the columns of `p` up to order. -/
theorem replaceId_struct (p : Ops) : IdStmt p := by
  induction p with
  | table n cs =>
    intro hv q hq
    simp only [Ops.replaceLeaves, lookupLast] at hq
    cases hq
    exact ⟨hv, rfl, List.Perm.refl _⟩
  | extend s ops part od rv w ih =>
    exact id_node (by intro _ _ h; cases h) ih (by intro b h; cases h)
  | project s ops g ih => exact id_node (by intro _ _ h; cases h) ih (by intro b h; cases h)
  | selectRows s e ih => exact id_node (by intro _ _ h; cases h) ih (by intro b h; cases h)
  | selectCols s cs ih => exact id_node (by intro _ _ h; cases h) ih (by intro b h; cases h)
  | dropCols s ds ih => exact id_node (by intro _ _ h; cases h) ih (by intro b h; cases h)
  | order s cs rv lim ih => exact id_node (by intro _ _ h; cases h) ih (by intro b h; cases h)
  | rename s m ih => exact id_node (by intro _ _ h; cases h) ih (by intro b h; cases h)
  | mapCols s m ds ih => exact id_node (by intro _ _ h; cases h) ih (by intro b h; cases h)
  | convert s rm ih => exact id_node (by intro _ _ h; cases h) ih (by intro b h; cases h)
  | join a b oa ob jt iha ihb =>
    exact id_node (by intro _ _ h; cases h) iha (by intro b' h; cases h; exact ihb)
  | concat a b idc an bn iha ihb =>
    exact id_node (by intro _ _ h; cases h) iha (by intro b' h; cases h; exact ihb)

/-- **Totality of rebuilding.**  `replace_leaves {}` of a valid pipeline succeeds: every node's builder accepts the
node's own arguments on the rebuilt sources (which declare the same columns up to order and carry the same table
descriptions). -/
theorem replaceId_total (p : Ops) : p.valid = true → ∃ q, Ops.replaceLeaves [] p = .ok q := by
  -- the facts about an already rebuilt source
  have facts : ∀ {s s' : Ops}, s.valid = true → Ops.replaceLeaves [] s = .ok s' →
      s'.valid = true ∧ s'.tables = s.tables ∧ (∀ c, c ∈ s.cols ↔ c ∈ s'.cols) ∧ s'.cols.Perm s.cols := by
    intro s s' hsv hs'
    obtain ⟨h1, h2, h3⟩ := replaceId_struct s hsv s' hs'
    exact ⟨h1, h2, fun c => h3.mem_iff.symm, h3⟩
  induction p with
  | table n cs =>
    intro _
    exact ⟨.table n cs, by simp only [Ops.replaceLeaves, lookupLast]; rfl⟩
  | extend s ops part od rv w ih =>
    intro hv
    have hsv : s.valid = true := Ops.valid_srcA (p := .extend s ops part od rv w) hv
    obtain ⟨s', hs'⟩ := ih hsv
    obtain ⟨hs'v, _, hmem, _⟩ := facts hsv hs'
    have hn := Ops.valid_nodeOk hv
    have hne : ops.isEmpty = false := by
      simp only [Ops.nodeOk, Bool.and_eq_true] at hn
      simpa using hn.1.1.1.1.1.1.1.1.1.1.1
    simp only [Ops.replaceLeaves, hs', ok_bind]
    rw [extendParsed_stripC _ _ _ _ _ hne, extendChecks_of_valid hv hmem]
    simp only [ok_bind]
    apply errOf_none_ok
    rw [extendTop_errOf (Ops.valid_strip hs'v) (Ops.strip_not_trivial _), Ops.strip_cols,
      ← extendChk_perm hmem, extendChk_of_valid hv]
    rfl
  | project s ops g ih =>
    intro hv
    have hsv : s.valid = true := Ops.valid_srcA (p := .project s ops g) hv
    obtain ⟨s', hs'⟩ := ih hsv
    obtain ⟨hs'v, _, hmem, _⟩ := facts hsv hs'
    have hn := Ops.valid_nodeOk hv
    simp only [Ops.nodeOk, Bool.and_eq_true, isOk_unit] at hn
    obtain ⟨⟨hchk, hne⟩, hdis⟩ := hn
    have hchk' := hchk
    simp only [projectChk, ok?_bind_eq_ok, ok?_eq_ok] at hchk'
    have hg : subset g s'.cols = true := by
      rw [← subset_congr_right hmem]
      exact subset_iffC.mpr (fun c hc => subset_iffC.mp hchk'.1 c (List.mem_append_left _ hc))
    simp only [Ops.replaceLeaves, hs', ok_bind]
    rw [projectParsed_stripC]
    have hfront : projectChecks s'.cols ops g = .ok () := by
      simp only [projectChecks, workColGroup_ok hchk'.2.1 hg, hne, hdis, ok?_trueC, bind, Except.bind]
    rw [hfront, ok_bind, mkProject_eq, Ops.strip_cols, ← projectChk_perm hmem, hchk]
    exact ⟨_, rfl⟩
  | selectRows s e ih =>
    intro hv
    have hsv : s.valid = true := Ops.valid_srcA (p := .selectRows s e) hv
    obtain ⟨s', hs'⟩ := ih hsv
    simp only [Ops.replaceLeaves, hs', ok_bind, selectRowsB_strip]
    exact ⟨_, rfl⟩
  | selectCols s cs ih =>
    intro hv
    have hsv : s.valid = true := Ops.valid_srcA (p := .selectCols s cs) hv
    obtain ⟨s', hs'⟩ := ih hsv
    obtain ⟨hs'v, _, hmem, _⟩ := facts hsv hs'
    have hn := Ops.valid_nodeOk hv
    simp only [Ops.nodeOk, isOk_unit] at hn
    have hn' := hn
    simp only [selectChk, ok?_bind_eq_ok, ok?_eq_ok] at hn'
    have hne : cs.isEmpty = false := by simpa using hn'.1
    simp only [Ops.replaceLeaves, hs', ok_bind, build, hne, Bool.not_false, ok?_trueC]
    apply errOf_none_ok
    rw [selectColsB_errOf hs'v cs hne, ← selectChk_perm hmem, hn]
    rfl
  | dropCols s ds ih =>
    intro hv
    have hsv : s.valid = true := Ops.valid_srcA (p := .dropCols s ds) hv
    obtain ⟨s', hs'⟩ := ih hsv
    obtain ⟨hs'v, _, hmem, _⟩ := facts hsv hs'
    have hn := Ops.valid_nodeOk hv
    simp only [Ops.nodeOk, Bool.and_eq_true, isOk_unit] at hn
    have hne : ds.isEmpty = false := by simpa using hn.1
    simp only [Ops.replaceLeaves, hs', ok_bind, build, hne, Bool.false_eq_true, if_false]
    rw [dropColsB_strip, mkDropCols_eq, Ops.strip_cols, ← dropChk_perm hmem, hn.2]
    exact ⟨_, rfl⟩
  | order s cs rv lim ih =>
    intro hv
    have hsv : s.valid = true := Ops.valid_srcA (p := .order s cs rv lim) hv
    obtain ⟨s', hs'⟩ := ih hsv
    obtain ⟨hs'v, _, hmem, _⟩ := facts hsv hs'
    have hn := Ops.valid_nodeOk hv
    simp only [Ops.nodeOk, Bool.and_eq_true, isOk_unit] at hn
    have hne : (cs.isEmpty && lim.isNone) = false := by
      have := hn.1
      cases hh : (cs.isEmpty && lim.isNone) <;> simp_all
    simp only [Ops.replaceLeaves, hs', ok_bind, build, hne, Bool.false_eq_true, if_false]
    rw [orderB_strip, mkOrder_eq, Ops.strip_cols, ← orderChk_perm hmem, hn.2]
    exact ⟨_, rfl⟩
  | rename s mp ih =>
    intro hv
    have hsv : s.valid = true := Ops.valid_srcA (p := .rename s mp) hv
    obtain ⟨s', hs'⟩ := ih hsv
    obtain ⟨hs'v, _, hmem, hperm⟩ := facts hsv hs'
    have hn := Ops.valid_nodeOk hv
    simp only [Ops.nodeOk, Bool.and_eq_true, isOk_unit] at hn
    have hne : mp.isEmpty = false := by simpa using hn.1
    simp only [Ops.replaceLeaves, hs', ok_bind, build, hne, Bool.false_eq_true, if_false]
    rw [renameB_strip, mkRename_eq, Ops.strip_cols, renameChk_perm hperm, hn.2]
    exact ⟨_, rfl⟩
  | mapCols s mp ds ih =>
    intro hv
    have hsv : s.valid = true := Ops.valid_srcA (p := .mapCols s mp ds) hv
    obtain ⟨s', hs'⟩ := ih hsv
    obtain ⟨hs'v, _, hmem, hperm⟩ := facts hsv hs'
    have hn := Ops.valid_nodeOk hv
    simp only [Ops.nodeOk, Bool.and_eq_true, isOk_unit] at hn
    have hne : (mp.map (fun kv => (kv.1, some kv.2)) ++ ds.map (fun d => (d, (none : Option String)))).isEmpty
        = false := by
      have := hn.1
      cases mp <;> cases ds <;> simp_all
    simp only [Ops.replaceLeaves, hs', ok_bind, build, hne, Bool.false_eq_true, if_false]
    rw [mapColsB_strip, mkMapCols_eq, Ops.strip_cols, mapColsChk_perm hperm, mapColsChk_eq, mapRemap_canon,
      mapDels_canon, hn.2]
    exact ⟨_, rfl⟩
  | convert s rm ih =>
    intro hv
    have hsv : s.valid = true := Ops.valid_srcA (p := .convert s rm) hv
    obtain ⟨s', hs'⟩ := ih hsv
    obtain ⟨hs'v, _, hmem, _⟩ := facts hsv hs'
    have hn := Ops.valid_nodeOk hv
    simp only [Ops.nodeOk, isOk_unit] at hn
    simp only [Ops.replaceLeaves, hs', ok_bind, build]
    rw [convertB_strip, mkConvert_eq, Ops.strip_cols, ← convertChk_perm hmem, hn]
    exact ⟨_, rfl⟩
  | join a b oa ob jt iha ihb =>
    intro hv
    have hav : a.valid = true := by simp only [Ops.valid, Bool.and_eq_true] at hv; exact hv.1.2
    have hbv : b.valid = true := by simp only [Ops.valid, Bool.and_eq_true] at hv; exact hv.2
    obtain ⟨a', ha'⟩ := iha hav
    obtain ⟨b', hb'⟩ := ihb hbv
    obtain ⟨ha'v, hta, hma, _⟩ := facts hav ha'
    obtain ⟨hb'v, htb, hmb, _⟩ := facts hbv hb'
    have hn := Ops.valid_nodeOk hv
    simp only [Ops.nodeOk, Bool.and_eq_true] at hn
    obtain ⟨⟨⟨⟨h1, h2⟩, h3⟩, h4⟩, h5⟩ := hn
    have hcons : tablesConsistent a'.strip.tables b'.tables = true := by
      rw [Ops.strip_tables, hta, htb]; exact h1
    simp only [Ops.replaceLeaves, ha', hb', ok_bind, build]
    rw [joinB_strip, mkJoin_eq, Ops.strip_cols]
    simp only [joinChk, hcons, h2, ← subset_congr_right hma, ← subset_congr_right hmb, h3, h4, parse_toStr, h5,
      ok?_trueC, Bool.not_false, Bool.true_or, bind, Except.bind, pure, Except.pure]
    exact ⟨_, rfl⟩
  | concat a b idc an bn iha ihb =>
    intro hv
    have hav : a.valid = true := by simp only [Ops.valid, Bool.and_eq_true] at hv; exact hv.1.2
    have hbv : b.valid = true := by simp only [Ops.valid, Bool.and_eq_true] at hv; exact hv.2
    obtain ⟨a', ha'⟩ := iha hav
    obtain ⟨b', hb'⟩ := ihb hbv
    obtain ⟨ha'v, hta, hma, _⟩ := facts hav ha'
    obtain ⟨hb'v, htb, hmb, _⟩ := facts hbv hb'
    have hn := Ops.valid_nodeOk hv
    simp only [Ops.nodeOk, isOk_unit, concatChk, ok?_bind_eq_ok, ok?_eq_ok] at hn
    obtain ⟨h1, h2, h3⟩ := hn
    have hcons : tablesConsistent a'.strip.tables b'.tables = true := by
      rw [Ops.strip_tables, hta, htb]; exact h1
    simp only [Ops.replaceLeaves, ha', hb', ok_bind, build]
    rw [concatB_strip, mkConcat_eq, Ops.strip_cols]
    cases idc with
    | none =>
      simp only [concatChk, hcons, ← subset_congr_right hma, ← subset_congr_right hmb, ← subset_congr_left hma,
        ← subset_congr_left hmb, h2, ok?_trueC, bind, Except.bind]
      exact ⟨_, rfl⟩
    | some c =>
      have h3c : (!a.cols.contains c) = true := h3
      rw [contains_congr hma c] at h3c
      simp only [concatChk, hcons, ← subset_congr_right hma, ← subset_congr_right hmb, ← subset_congr_left hma,
        ← subset_congr_left hmb, h2, h3c, ok?_trueC, bind, Except.bind]
      exact ⟨_, rfl⟩


end DAVerif.C12S
