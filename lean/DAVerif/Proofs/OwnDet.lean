import DAVerif.Proofs.Own
/-!
# Step bodies do not depend on set iteration order  (`Heap/Own.lean`, used by `Props/C19.lean`)

`Rel R m₁ m₂`: two step bodies allocate the same number of frames, perform in-place writes of the same kinds on the
same registers in the same order, and return `R`-related values.  `Equiv = Rel Eq`.
-/
namespace DAVerif.Own

/-- kind and target of an effect (column names, payloads and allocation labels erased) -/
def shapeOf : Eff → Option (WKind × Reg)
  | .alloc _ _ => none
  | .write k r _ _ => some (k, r)

def Rel {α : Type} (R : α → α → Prop) (m₁ m₂ : B α) : Prop :=
  ∀ n, R (m₁ n).1 (m₂ n).1 ∧ (m₁ n).2.1 = (m₂ n).2.1 ∧ (m₁ n).2.2.map shapeOf = (m₂ n).2.2.map shapeOf

abbrev Equiv {α : Type} (m₁ m₂ : B α) : Prop := Rel Eq m₁ m₂

/-- same register, same number of rows (columns and payload may differ) -/
def HSim (h₁ h₂ : H) : Prop := h₁.reg = h₂.reg ∧ h₁.f.nrows = h₂.f.nrows

theorem bind_eq {α β : Type} (m : B α) (f : α → B β) : (m >>= f) = B.bind m f := rfl
theorem pure_eq {α : Type} (a : α) : (pure a : B α) = B.pure a := rfl

theorem Equiv.refl {α : Type} (m : B α) : Equiv m m := fun _ => ⟨rfl, rfl, rfl⟩

theorem Rel.bind {α β : Type} {R : α → α → Prop} {S : β → β → Prop} {m₁ m₂ : B α} {f₁ f₂ : α → B β}
    (hm : Rel R m₁ m₂) (hf : ∀ a₁ a₂, R a₁ a₂ → Rel S (f₁ a₁) (f₂ a₂)) :
    Rel S (m₁ >>= f₁) (m₂ >>= f₂) := by
  intro n
  obtain ⟨h1, h2, h3⟩ := hm n
  simp only [bind_eq, B.bind]
  have := hf _ _ h1 (m₁ n).2.1
  rw [h2] at this
  obtain ⟨g1, g2, g3⟩ := this
  refine ⟨?_, ?_, ?_⟩
  · rw [h2]; exact g1
  · rw [h2]; exact g2
  · rw [List.map_append, List.map_append, h3, h2, g3]

theorem Equiv.bind {α β : Type} {m₁ m₂ : B α} {f₁ f₂ : α → B β}
    (hm : Equiv m₁ m₂) (hf : ∀ a, Equiv (f₁ a) (f₂ a)) : Equiv (m₁ >>= f₁) (m₂ >>= f₂) :=
  Rel.bind hm (fun a₁ a₂ h => by subst h; exact hf a₁)

theorem Rel.pure {α : Type} {R : α → α → Prop} {a₁ a₂ : α} (h : R a₁ a₂) : Rel R (pure a₁ : B α) (pure a₂) :=
  fun _ => ⟨h, rfl, rfl⟩

/-! ## primitives under `HSim` -/

theorem applyW_nrows (k : WKind) (c : Col) (f : Frame) : (applyW k c f).nrows = f.nrows := by
  cases k <;> rfl

theorem alloc_sim (w₁ w₂ : String) (c₁ c₂ : List Col) (n : Nat) : Rel HSim (alloc w₁ c₁ n) (alloc w₂ c₂ n) :=
  fun _ => ⟨⟨rfl, rfl⟩, rfl, rfl⟩

theorem write_sim (k : WKind) {h₁ h₂ : H} (hs : HSim h₁ h₂) (c₁ c₂ : Col) :
    Rel HSim (write k h₁ c₁) (write k h₂ c₂) := by
  intro n
  refine ⟨⟨hs.1, ?_⟩, rfl, ?_⟩
  · simp only [write, applyW_nrows]; exact hs.2
  · simp [write, shapeOf, hs.1]

theorem cleanCopy_sim {h₁ h₂ : H} (hs : HSim h₁ h₂) : Rel HSim (cleanCopy h₁) (cleanCopy h₂) := by
  unfold cleanCopy
  rw [hs.2]
  exact alloc_sim _ _ _ _ _

theorem setAll_sim {h₁ h₂ : H} (hs : HSim h₁ h₂) (cs₁ cs₂ : List Col) (hl : cs₁.length = cs₂.length) :
    Rel HSim (setAll h₁ cs₁) (setAll h₂ cs₂) := by
  induction cs₁ generalizing cs₂ h₁ h₂ with
  | nil =>
    cases cs₂ with
    | nil => exact Rel.pure hs
    | cons _ _ => simp at hl
  | cons c cs ih =>
    cases cs₂ with
    | nil => simp at hl
    | cons c' cs' =>
      simp only [setAll, foldH]
      exact Rel.bind (write_sim _ hs c c') (fun a₁ a₂ h => ih h cs' (by simpa using hl))

/-! ## closed forms of the loops over sets -/

theorem filter_const_true (l : List Col) : l.filter (fun _ => true) = l := by
  induction l <;> simp_all

theorem delAll_run (xs : List Col) (h : H) (n : Nat) :
    (delAll h xs n).1 = ⟨h.reg, ⟨h.f.cols.filter (fun c => !xs.contains c), h.f.nrows, h.f.tok + xs.length⟩⟩ ∧
    (delAll h xs n).2.1 = n ∧
    (delAll h xs n).2.2.map shapeOf = xs.map (fun _ => some (WKind.delitem, h.reg)) := by
  induction xs generalizing h with
  | nil =>
    cases h with
    | mk r f => cases f; simp [delAll, foldH, pure_eq, B.pure, filter_const_true]
  | cons x xs ih =>
    obtain ⟨h1, h2, h3⟩ := ih ⟨h.reg, applyW .delitem x h.f⟩
    simp only [delAll] at h1 h2 h3
    have hw : (write WKind.delitem h x n) =
        (⟨h.reg, applyW .delitem x h.f⟩, n, [.write .delitem h.reg x (applyW .delitem x h.f)]) := rfl
    simp only [delAll, foldH, bind_eq, B.bind, hw]
    refine ⟨?_, ?_, ?_⟩
    · rw [h1]
      simp only [applyW, List.filter_filter, List.length_cons, H.mk.injEq, Frame.mk.injEq, true_and]
      refine ⟨?_, by omega⟩
      apply List.filter_congr
      intro c _
      simp only [List.contains_cons]
      cases hc : (c == x) <;> simp [bne, hc]
    · rw [h2]
    · rw [List.map_append, h3]
      simp [shapeOf]

theorem delAll_equiv (h : H) {xs₁ xs₂ : List Col} (hp : xs₁.Perm xs₂) : Equiv (delAll h xs₁) (delAll h xs₂) := by
  intro n
  obtain ⟨a1, a2, a3⟩ := delAll_run xs₁ h n
  obtain ⟨b1, b2, b3⟩ := delAll_run xs₂ h n
  refine ⟨?_, by rw [a2, b2], ?_⟩
  · rw [a1, b1, hp.length_eq]
    congr 2
    apply List.filter_congr
    intro c _
    have : xs₁.contains c = xs₂.contains c := by
      rw [Bool.eq_iff_iff]; simp [hp.mem_iff]
    rw [this]
  · rw [a3, b3]
    have : ∀ (l : List Col), l.map (fun _ => some (WKind.delitem, h.reg)) = List.replicate l.length (some (WKind.delitem, h.reg)) := by
      intro l; induction l <;> simp_all [List.replicate_succ]
    rw [this, this, hp.length_eq]

/-- effect shapes of the coalesce loop of `_natural_join_step`: one `res[c] =` (existing column) on the current frame, one `drop` -/
def coalShape : Reg → Nat → Nat → List (Option (WKind × Reg))
  | _, _, 0 => []
  | r, n, k + 1 => some (WKind.setcol, r) :: none :: coalShape (.loc n) (n + 1) k

def sfx : String := "_tmp_right_col"

theorem coalesce_run (xs : List Col) (res : H) (n : Nat) :
    (foldH xs res coalesceOne n).1.f.cols = res.f.cols.filter (fun c => xs.all (fun x => c != x ++ sfx)) ∧
    (foldH xs res coalesceOne n).1.f.nrows = res.f.nrows ∧
    (foldH xs res coalesceOne n).1.f.tok = (if xs.length = 0 then res.f.tok else 0) ∧
    (foldH xs res coalesceOne n).1.reg = (if xs.length = 0 then res.reg else .loc (n + xs.length - 1)) ∧
    (foldH xs res coalesceOne n).2.1 = n + xs.length ∧
    (foldH xs res coalesceOne n).2.2.map shapeOf = coalShape res.reg n xs.length := by
  induction xs generalizing res n with
  | nil =>
    simp only [foldH, pure_eq, B.pure, coalShape, List.all_nil, List.length_nil, if_true, Nat.add_zero, List.map_nil,
      and_true, filter_const_true]
  | cons x xs ih =>
    simp only [foldH, bind_eq, B.bind]
    have h0 : (coalesceOne res x n) =
        (⟨.loc n, ⟨res.f.cols.filter (· != x ++ sfx), res.f.nrows, 0⟩⟩, n + 1,
          [.write .setcol res.reg x (applyW .setcol x res.f),
           .alloc "res.drop(c + \"_tmp_right_col\", axis=1, inplace=False)"
             ⟨res.f.cols.filter (· != x ++ sfx), res.f.nrows, 0⟩]) := by
      simp [coalesceOne, bind_eq, B.bind, write, alloc, applyW, sfx]
    rw [h0]
    obtain ⟨i1, i2, i3, i4, i5, i6⟩ := ih ⟨.loc n, ⟨res.f.cols.filter (· != x ++ sfx), res.f.nrows, 0⟩⟩ (n + 1)
    simp only at i1 i2 i3 i4 i5 i6 ⊢
    refine ⟨?_, i2, ?_, ?_, ?_, ?_⟩
    · rw [i1, List.filter_filter]
      apply List.filter_congr
      intro c _
      simp [List.all_cons, Bool.and_comm]
    · rw [i3]; simp
    · rw [i4]
      by_cases hx : xs.length = 0
      · simp [hx]
      · simp [hx]
    · rw [i5]; simp; omega
    · simp only [List.map_append, List.map_cons, List.map_nil, shapeOf, List.length_cons, coalShape]
      rw [i6]
      rfl

theorem coalesce_equiv (res : H) {xs₁ xs₂ : List Col} (hp : xs₁.Perm xs₂) :
    Equiv (foldH xs₁ res coalesceOne) (foldH xs₂ res coalesceOne) := by
  intro n
  obtain ⟨a1, a2, a3, a4, a5, a6⟩ := coalesce_run xs₁ res n
  obtain ⟨b1, b2, b3, b4, b5, b6⟩ := coalesce_run xs₂ res n
  have hl := hp.length_eq
  refine ⟨?_, by rw [a5, b5, hl], by rw [a6, b6, hl]⟩
  have hc : (foldH xs₁ res coalesceOne n).1.f.cols = (foldH xs₂ res coalesceOne n).1.f.cols := by
    rw [a1, b1]
    apply List.filter_congr
    intro c _
    rw [Bool.eq_iff_iff]
    simp only [List.all_eq_true]
    constructor
    · intro h x hx; exact h x (hp.mem_iff.mpr hx)
    · intro h x hx; exact h x (hp.mem_iff.mp hx)
  have hr : (foldH xs₁ res coalesceOne n).1.reg = (foldH xs₂ res coalesceOne n).1.reg := by rw [a4, b4, hl]
  have hn : (foldH xs₁ res coalesceOne n).1.f.nrows = (foldH xs₂ res coalesceOne n).1.f.nrows := by rw [a2, b2]
  have ht : (foldH xs₁ res coalesceOne n).1.f.tok = (foldH xs₂ res coalesceOne n).1.f.tok := by rw [a3, b3, hl]
  generalize (foldH xs₁ res coalesceOne n).1 = u at *
  generalize (foldH xs₂ res coalesceOne n).1 = v at *
  cases u with
  | mk ur uf => cases v with
    | mk vr vf =>
      cases uf; cases vf
      simp_all

/-! ## the step bodies -/

/-- a set-iteration order is a permutation of the set's elements -/
def OrdOK (ord : Ord) : Prop := ∀ l, (ord l).Perm l

theorem ord_perm {ord₁ ord₂ : Ord} (h₁ : OrdOK ord₁) (h₂ : OrdOK ord₂) (l : List Col) : (ord₁ l).Perm (ord₂ l) :=
  (h₁ l).trans (h₂ l).symm

theorem addColumns_equiv {ord₁ ord₂ : Ord} (h₁ : OrdOK ord₁) (h₂ : OrdOK ord₂) (res new : H) :
    Equiv (addColumns ord₁ res new) (addColumns ord₂ res new) := by
  unfold addColumns
  split
  · exact Equiv.refl _
  · refine Equiv.bind (Equiv.refl _) (fun new' => ?_)
    split
    · exact Equiv.refl _
    · split
      · exact Equiv.bind (delAll_equiv res (ord_perm h₁ h₂ _)) (fun _ => Equiv.refl _)
      · exact Equiv.refl _

theorem winScratchA_sim (cl₁ cl₂ : List Col) (b : Bool) (keys : List Col) (res : H) :
    Rel HSim (winScratchA cl₁ b keys res) (winScratchA cl₂ b keys res) := by
  unfold winScratchA
  refine Rel.bind (alloc_sim _ _ _ _ _) (fun a₁ a₂ ha => ?_)
  refine Rel.bind (cleanCopy_sim ha) (fun s₁ s₂ hs => ?_)
  refine Rel.bind (write_sim _ hs _ _) (fun s₁ s₂ hs => ?_)
  refine Rel.bind (R := HSim) ?_ (fun s₁ s₂ hs => ?_)
  · cases b
    · exact Rel.pure hs
    · simp only [if_true]
      rw [hs.2]
      exact Rel.bind (alloc_sim _ _ _ _ _) (fun t₁ t₂ ht => cleanCopy_sim ht)
  · exact Rel.bind (write_sim _ hs _ _) (fun s₁ s₂ hs => setAll_sim hs _ _ rfl)

theorem winScratchB_equiv (keys : List Col) {s₁ s₂ : H} (hs : HSim s₁ s₂) :
    Equiv (winScratchB keys s₁) (winScratchB keys s₂) := by
  intro n
  simp [winScratchB, bind_eq, B.bind, alloc, cleanCopy, shapeOf, hs.2]

theorem winOrderCols_length {ord₁ ord₂ : Ord} (h₁ : OrdOK ord₁) (h₂ : OrdOK ord₂) (op : ExtendOp) :
    (winOrderCols ord₁ op).length = (winOrderCols ord₂ op).length := by
  unfold winOrderCols
  simp only [List.length_append]
  have hp := ord_perm h₁ h₂ op.partitionBy.eraseDups
  rw [hp.length_eq]
  have : op.orderBy.filter (fun x => decide (x ∉ ord₁ op.partitionBy.eraseDups)) =
      op.orderBy.filter (fun x => decide (x ∉ ord₂ op.partitionBy.eraseDups)) := by
    apply List.filter_congr
    intro c _
    simp [hp.mem_iff]
  rw [this]

theorem planExtend_equiv {ord₁ ord₂ : Ord} (h₁ : OrdOK ord₁) (h₂ : OrdOK ord₂) (op : ExtendOp) (res : H) :
    Equiv (planExtend ord₁ op res) (planExtend ord₂ op res) := by
  unfold planExtend
  split
  · exact Equiv.refl _
  · split
    · exact Equiv.bind (Equiv.refl _) (fun nf => addColumns_equiv h₁ h₂ _ _)
    · refine Equiv.bind (Equiv.refl _) (fun res' => ?_)
      rw [winOrderCols_length h₁ h₂ op]
      refine Rel.bind (winScratchA_sim _ _ _ _ _) (fun s₁ s₂ hs => ?_)
      refine Equiv.bind (Equiv.refl _) (fun res'' => ?_)
      exact Equiv.bind (winScratchB_equiv _ hs) (fun s3 => addColumns_equiv h₁ h₂ _ _)

theorem planJoin_equiv {ord₁ ord₂ : Ord} (h₁ : OrdOK ord₁) (h₂ : OrdOK ord₂) (op : JoinOp) (l r : H) :
    Equiv (planJoin ord₁ op l r) (planJoin ord₂ op l r) := by
  unfold planJoin
  split
  · exact Equiv.refl _
  · refine Equiv.bind (Equiv.refl _) (fun l' => ?_)
    refine Equiv.bind (Equiv.refl _) (fun r' => ?_)
    refine Equiv.bind (Equiv.refl _) (fun res => ?_)
    refine Equiv.bind (Equiv.refl _) (fun res => ?_)
    refine Equiv.bind (Equiv.refl _) (fun res => ?_)
    exact Equiv.bind (coalesce_equiv res (ord_perm h₁ h₂ _)) (fun _ => Equiv.refl _)

theorem planUn_equiv {ord₁ ord₂ : Ord} (h₁ : OrdOK ord₁) (h₂ : OrdOK ord₂) (k : UnKind) (res : H) :
    Equiv (planUn ord₁ k res) (planUn ord₂ k res) := by
  cases k with
  | extend op => exact planExtend_equiv h₁ h₂ op res
  | _ => exact Equiv.refl _

theorem planBin_equiv {ord₁ ord₂ : Ord} (h₁ : OrdOK ord₁) (h₂ : OrdOK ord₂) (k : BinKind) (l r : H) :
    Equiv (planBin ord₁ k l r) (planBin ord₂ k l r) := by
  cases k with
  | join op => exact planJoin_equiv h₁ h₂ op l r
  | concat op => exact Equiv.refl _

end DAVerif.Own
