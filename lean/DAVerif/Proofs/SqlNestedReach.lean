import DAVerif.Proofs.SqlReach
import DAVerif.Proofs.SqlNestedScope
/-!
C16, nested emulation: every pipeline the builders produce satisfies `JoinKeysLen` (`NaturalJoinNode.__init__` asserts
`len(on_a) == len(on_b)`): `reachable_joinKeysLen`.  (Proof: `Proofs/SqlJoinReach.lean` with the other invariant.)
-/
namespace DAVerif
namespace Sql
namespace SqlE
open Rules26

set_option linter.unusedSimpArgs false
set_option linter.unusedVariables false

theorem build_selectCols_keylen {p : Ops} (hs : JoinKeysLen p) {cs : List String} {q : Ops}
    (h : selectColsB p cs = .ok q) : JoinKeysLen q := by
  fun_induction selectColsB p cs with
  | case1 src _ _ cs ih => exact ih hs h
  | case2 src cs0 cs ih => exact ih hs (ok?_bind_ok.mp h).2
  | case3 src dels cs ih => exact ih hs (ok?_bind_ok.mp h).2
  | case4 self cs h1 h2 h3 =>
    simp only [mkSelectCols, ok?_bind_ok] at h
    obtain ⟨_, _, _, h⟩ := h
    simp only [pure_ok] at h
    subst h
    exact hs

/-- a successful builder call on a pipeline satisfying `JoinKeysLen` (with `JoinKeysLen` pipeline arguments) returns a
pipeline satisfying `JoinKeysLen` -/
theorem build_keylen {p : Ops} (hs : JoinKeysLen p) {s : Step} (hb : ∀ b ∈ stepArgs s, JoinKeysLen b) {q : Ops}
    (h : build p s = .ok q) : JoinKeysLen q := by
  cases s with
  | extend ops pa o r =>
    unfold build at h
    simp only [] at h
    obtain ⟨parsed, hpa, h2⟩ := bind_ok.mp h
    obtain ⟨rfl, _⟩ := parseAssignments_ok hpa
    by_cases hne : parsed.isEmpty = true
    · have : parsed = [] := by simpa using hne
      subst this
      rw [extendParsed.eq_def] at h2
      simp only [List.isEmpty_nil, ↓reduceIte, pure, Except.pure, Except.ok.injEq] at h2
      subst h2
      exact hs
    have hne' : parsed.isEmpty = false := by simpa using hne
    rw [extendParsed_strip _ _ _ _ _ hne'] at h2
    obtain ⟨_, _, h3⟩ := bind_ok.mp h2
    rcases extendTop_ok h3 with h4 | ⟨src, ops1, part1, order1, reverse1, windowed1, newOps, ht, _, h4⟩
    · obtain ⟨rfl, _⟩ := mkExtend_ok h4
      exact (joinKeysLen_stripped hs)
    · obtain ⟨rfl, _⟩ := mkExtend_ok h4
      have := (joinKeysLen_stripped hs)
      rw [ht] at this
      exact this
  | project ops group =>
    unfold build at h
    simp only [] at h
    obtain ⟨parsed, hpa, h2⟩ := bind_ok.mp h
    obtain ⟨rfl, hnd⟩ := parseAssignments_ok hpa
    rw [projectParsed_strip] at h2
    obtain ⟨_, hpre, h3⟩ := bind_ok.mp h2
    simp only [mkProject, forIn_ok?, ok?_bind_ok, pure_ok, nodupB_iff, subset_iff] at h3
    obtain ⟨_, _, _, _, rfl⟩ := h3
    exact (joinKeysLen_stripped hs)
  | selectRows e =>
    cases e with
    | none => simp only [build, Except.ok.injEq] at h; subst h; exact hs
    | some e =>
      simp only [build, selectRowsB_eq] at h
      obtain ⟨_, hpa, h⟩ := bind_ok.mp h
      simp only [Except.ok.injEq] at h
      subst h
      exact (joinKeysLen_stripped hs)
  | selectCols cs =>
    simp only [build, ok?_bind_ok] at h
    exact build_selectCols_keylen hs h.2
  | dropCols cs =>
    simp only [build] at h
    split at h
    · simp only [Except.ok.injEq] at h; subst h; exact hs
    · simp only [dropColsB_eq, mkDropCols, ok?_bind_ok, pure_ok] at h
      obtain ⟨_, _, rfl⟩ := h
      exact (joinKeysLen_stripped hs)
  | order cs rev lim =>
    simp only [build] at h
    split at h
    · simp only [Except.ok.injEq] at h; subst h; exact hs
    · simp only [orderB_eq, mkOrder, ok?_bind_ok, pure_ok, subset_iff] at h
      obtain ⟨_, _, rfl⟩ := h
      exact (joinKeysLen_stripped hs)
  | rename m =>
    simp only [build] at h
    split at h
    · simp only [Except.ok.injEq] at h; subst h; exact hs
    · simp only [renameB_eq, mkRename, ok?_bind_ok, pure_ok, nodupB_iff, subset_iff] at h
      obtain ⟨_, _, _, rfl⟩ := h
      exact (joinKeysLen_stripped hs)
  | mapCols m =>
    simp only [build] at h
    split at h
    · simp only [Except.ok.injEq] at h; subst h; exact hs
    · simp only [mapColsB_eq, mkMapCols, ok?_bind_ok, pure_ok, nodupB_iff, subset_iff] at h
      obtain ⟨_, _, _, _, rfl⟩ := h
      exact (joinKeysLen_stripped hs)
  | join b onA onB jt check =>
    have hbw : JoinKeysLen b := hb b (by simp [stepArgs])
    simp only [build, joinB_eq, mkJoin, ok?_bind_ok] at h
    obtain ⟨_, hlen, hoa, hob, h⟩ := h
    have hq : ∃ t, q = .join (DAVerif.strip p) b onA onB t := by
      cases check
      · simp only [Bool.false_eq_true, ↓reduceIte] at h
        split at h
        · exact absurd h (by simp [throw, throwThe, MonadExceptOf.throw])
        · simp only [ok?_bind_ok, pure_ok] at h
          exact ⟨_, h.2.symm⟩
      · simp only [↓reduceIte, ok?_bind_ok] at h
        obtain ⟨_, h⟩ := h
        split at h
        · exact absurd h (by simp [throw, throwThe, MonadExceptOf.throw])
        · simp only [ok?_bind_ok, pure_ok] at h
          exact ⟨_, h.2.symm⟩
    obtain ⟨t, rfl⟩ := hq
    simp only [JoinKeysLen, joinKeysLenb, Bool.and_eq_true]
    exact ⟨⟨(joinKeysLen_stripped hs), hbw⟩, hlen⟩
  | concat b idc an bn =>
    cases b with
    | none => simp only [build, Except.ok.injEq] at h; subst h; exact hs
    | some b =>
      have hbw : JoinKeysLen b := hb b (by simp [stepArgs])
      simp only [build, concatB_eq, mkConcat, ok?_bind_ok] at h
      obtain ⟨_, hcols, h⟩ := h
      simp only [Bool.and_eq_true] at hcols
      cases idc with
      | none =>
        simp only [pure_bind, pure_ok] at h
        subst h
        simp only [JoinKeysLen, joinKeysLenb, Bool.and_eq_true]
        exact ⟨(joinKeysLen_stripped hs), hbw⟩
      | some c =>
        simp only [ok?_bind_ok, pure_ok] at h
        obtain ⟨_, rfl⟩ := h
        simp only [JoinKeysLen, joinKeysLenb, Bool.and_eq_true]
        exact ⟨(joinKeysLen_stripped hs), hbw⟩
  | convert rm =>
    cases rm with
    | none => simp only [build, Except.ok.injEq] at h; subst h; exact hs
    | some rm =>
      simp only [build, convertB_eq, mkConvert, ok?_bind_ok, pure_ok, nodupB_iff] at h
      obtain ⟨_, _, _, rfl⟩ := h
      exact (joinKeysLen_stripped hs)


/-- **Every pipeline obtained from table descriptions by builder calls satisfies `JoinKeysLen`.** -/
theorem reachable_joinKeysLen {p : Ops} (h : Reachable p) : JoinKeysLen p := by
  induction h with
  | table name cs hne hnd => rfl
  | @step p s q _ _ hb ihp ihb => exact build_keylen ihp ihb hb

end SqlE
end Sql
end DAVerif
