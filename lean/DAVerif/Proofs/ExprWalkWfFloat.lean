import DAVerif.Proofs.ExprWalkWfPrintNames
import DAVerif.Generated.ExprTables
/-!
C13: the guard `floatsInScope` of `C13_walk_wf` is necessary *in the model* (one kernel evaluation of ~30 s, kept in
its own file).

The float model of `Expr/Lex.lean` reads a FLOAT token to its exact decimal value (a rational) and prints a value by
its exact decimal expansion, generating at most 400 digits.  A token such as `1e-801` is read to `10^-801`, whose model
spelling `0.000…0e-400` (400 zeros) reads back as `0`: the constant is not `litOk`, the walked term not `wf`.
This is a limit of the *model* (its stated scope is: values exactly representable in binary64 with at most 15
significant digits), not of the code: Python reads `1e-801` to `0.0`, prints `0.0`, and the round trip holds
(checked on the real parser).
-/
namespace DAVerif.Expr
open DAVerif.C13W

/-- **Guard `floatsInScope` is necessary (model scope).** The one-token text `1e-801` is accepted by the parser model
and the walker, all other guards hold, and the walked constant is not well-formed. -/
theorem C13_walk_wf_float_necessary :
    ∃ c, parseToks [⟨.float, "1e-801"⟩] = .ok c ∧ gram c = true ∧ noDunderCall c = true ∧ calleeIsName c = true ∧
      floatsInScope c = false ∧ walkedWf (Generated.env []) c = some false := by
  have h : parsedSat [⟨.float, "1e-801"⟩] (fun c => gram c && noDunderCall c && calleeIsName c && !floatsInScope c &&
      (walkedWf (Generated.env []) c == some false)) = true := by decide +kernel
  obtain ⟨c, hc, hP⟩ := parsedSat_exists h
  simp only [Bool.and_eq_true, Bool.not_eq_true', beq_iff_eq] at hP
  exact ⟨c, hc, hP.1.1.1.1, hP.1.1.1.2, hP.1.1.2, hP.1.2, hP.2⟩

end DAVerif.Expr
