import DAVerif.Proofs.C07Compose
/-!
C07: totality of composition.  When the boundary columns match (as sets) and both pipelines are valid,
`replace_leaves` – hence `a >> b` – succeeds: no operator kind makes composition raise.
-/
namespace DAVerif

theorem workColGroup_ok {a sc : List String} (h1 : nodupB a = true) (h2 : subset a sc = true) :
    workColGroup a sc = .ok () := by
  simp only [workColGroup, h1, h2, ok?_trueC]
  rfl

theorem disjoint_of_append_left {a b c : List String} (h : disjoint a (b ++ c) = true) : disjoint a b = true :=
  disjoint_iffC.mpr (fun x hx hb => disjoint_iffC.mp h x hx (List.mem_append_left _ hb))

theorem disjoint_of_append_right {a b c : List String} (h : disjoint a (b ++ c) = true) : disjoint a c = true :=
  disjoint_iffC.mpr (fun x hx hb => disjoint_iffC.mp h x hx (List.mem_append_right _ hb))

/-- the argument checks of `extend_parsed_` pass for the parameters of a valid `extend` node, over any column list
with the same columns as its source -/
theorem extendChecks_of_valid {s : Ops} {ops : Assign} {part od rv : List String} {w : Bool}
    (hv : (Ops.extend s ops part od rv w).valid = true) {sc : List String} (hsc : ∀ c, c ∈ s.cols ↔ c ∈ sc) :
    extendChecks sc ops (if w && part.isEmpty then PartArg.one else PartArg.cols part) od rv = .ok () := by
  have hn := Ops.valid_nodeOk hv
  simp only [Ops.nodeOk, Bool.and_eq_true] at hn
  obtain ⟨⟨⟨⟨⟨⟨⟨⟨⟨⟨⟨_, _⟩, h3⟩, h4⟩, h5⟩, h6⟩, h7⟩, h8⟩, h9⟩, h10⟩, _⟩, _⟩ := hn
  rw [subset_congr_right hsc] at h6 h7
  have h8' : subset rv sc = true := subset_trans h8 h7
  have hd1 : disjoint (ops.map (·.1)) part = true := disjoint_of_append_left (disjoint_of_append_left h9)
  have hd2 : disjoint (ops.map (·.1)) od = true := disjoint_of_append_right (disjoint_of_append_left h9)
  have wod := workColGroup_ok h4 h7
  have wrv := workColGroup_ok h5 h8'
  have wpa := workColGroup_ok h3 h6
  split
  · simp only [extendChecks, wod, wrv, hd2, h8, ok?_trueC, bind, Except.bind, pure, Except.pure]
  · simp only [extendChecks, wod, wrv, wpa, hd1, hd2, h8, ok?_trueC, bind, Except.bind, pure, Except.pure]
    cases hp : part.isEmpty with
    | true => rfl
    | false =>
      rw [hp] at h10
      simp only [Bool.false_or] at h10
      simp only [Bool.not_false, if_true, h10, ok?_trueC]

/-- the constructor checks pass as well -/
theorem extendChk_of_valid {s : Ops} {ops : Assign} {part od rv : List String} {w : Bool}
    (hv : (Ops.extend s ops part od rv w).valid = true) :
    extendChk s.cols ops (if w && part.isEmpty then PartArg.one else PartArg.cols part) od rv = .ok () := by
  obtain ⟨hpc, hpw⟩ := rebuild_flag hv
  have hn := Ops.valid_nodeOk hv
  simp only [Ops.nodeOk, Bool.and_eq_true] at hn
  obtain ⟨⟨⟨⟨⟨⟨⟨⟨⟨⟨⟨_, h2⟩, h3⟩, h4⟩, h5⟩, h6⟩, h7⟩, h8⟩, h9⟩, _⟩, h11⟩, _⟩ := hn
  simp only [extendChk, hpc, hpw, h2, h3, h4, h5, h6, h7, h8, h9, h11, ok?_trueC, bind, Except.bind]

theorem errOf_none_ok {α : Type} {x : Except Err α} (h : errOf x = none) : ∃ a, x = .ok a := errOf_eq_none.mp h

/-- **Totality of `replace_leaves` with one replaced key.** -/
theorem replaceSingle_total {k : String} {r : Ops}
    (hr : r.valid = true) (p : Ops) : p.valid = true → (∀ kc ∈ p.tables, kc.1 = k ∧ r.cols.Perm kc.2) →
    ∃ q, Ops.replaceLeaves [(k, r)] p = .ok q := by
  -- the facts about an already rebuilt source
  have facts : ∀ {s s' : Ops}, s.valid = true → (∀ kc ∈ s.tables, kc.1 = k ∧ r.cols.Perm kc.2) →
      Ops.replaceLeaves [(k, r)] s = .ok s' →
      s'.valid = true ∧ (∀ x, x ∈ s'.tables ↔ x ∈ r.tables) ∧ (∀ c, c ∈ s.cols ↔ c ∈ s'.cols) ∧ s'.cols.Perm s.cols := by
    intro s s' hsv hsl hs'
    obtain ⟨h1, h2, h3, _⟩ := replaceSingle hr s hsv hsl s' hs'
    exact ⟨h1, h2, fun c => h3.mem_iff.symm, h3⟩
  induction p with
  | table n cs =>
    intro _ hl
    obtain ⟨hk, _⟩ := hl (n, cs) (by simp [Ops.tables])
    simp only at hk
    subst hk
    exact ⟨r, by simp only [Ops.replaceLeaves, lookupLast_singleton, beq_self_eq_true, if_true]⟩
  | extend s ops part od rv w ih =>
    intro hv hl
    have hsv : s.valid = true := Ops.valid_srcA (p := .extend s ops part od rv w) hv
    obtain ⟨s', hs'⟩ := ih hsv hl
    obtain ⟨hs'v, _, hmem, _⟩ := facts hsv hl hs'
    have hn := Ops.valid_nodeOk hv
    have hne : ops.isEmpty = false := by
      simp only [Ops.nodeOk, Bool.and_eq_true] at hn
      simpa using hn.1.1.1.1.1.1.1.1.1.1.1
    simp only [Ops.replaceLeaves, hs', ok_bind]
    rw [extendParsed_stripC _ _ _ _ _ hne, extendChecks_of_valid hv hmem]
    simp only [ok_bind]
    apply errOf_none_ok
    rw [extendTop_errOf (Ops.valid_strip hs'v) (Ops.strip_not_trivial _), Ops.strip_cols,
      ← extendChk_perm hmem, extendChk_of_valid hv]
    rfl
  | project s ops g ih =>
    intro hv hl
    have hsv : s.valid = true := Ops.valid_srcA (p := .project s ops g) hv
    obtain ⟨s', hs'⟩ := ih hsv hl
    obtain ⟨hs'v, _, hmem, _⟩ := facts hsv hl hs'
    have hn := Ops.valid_nodeOk hv
    simp only [Ops.nodeOk, Bool.and_eq_true, isOk_unit] at hn
    obtain ⟨⟨hchk, hne⟩, hdis⟩ := hn
    have hchk' := hchk
    simp only [projectChk, ok?_bind_eq_ok, ok?_eq_ok] at hchk'
    have hg : subset g s'.cols = true := by
      rw [← subset_congr_right hmem]
      exact subset_iffC.mpr (fun c hc => subset_iffC.mp hchk'.1 c (List.mem_append_left _ hc))
    simp only [Ops.replaceLeaves, hs', ok_bind]
    rw [projectParsed_stripC]
    have hfront : projectChecks s'.cols ops g = .ok () := by
      simp only [projectChecks, workColGroup_ok hchk'.2.1 hg, hne, hdis, ok?_trueC, bind, Except.bind]
    rw [hfront, ok_bind, mkProject_eq, Ops.strip_cols, ← projectChk_perm hmem, hchk]
    exact ⟨_, rfl⟩
  | selectRows s e ih =>
    intro hv hl
    have hsv : s.valid = true := Ops.valid_srcA (p := .selectRows s e) hv
    obtain ⟨s', hs'⟩ := ih hsv hl
    simp only [Ops.replaceLeaves, hs', ok_bind, selectRowsB_strip]
    exact ⟨_, rfl⟩
  | selectCols s cs ih =>
    intro hv hl
    have hsv : s.valid = true := Ops.valid_srcA (p := .selectCols s cs) hv
    obtain ⟨s', hs'⟩ := ih hsv hl
    obtain ⟨hs'v, _, hmem, _⟩ := facts hsv hl hs'
    have hn := Ops.valid_nodeOk hv
    simp only [Ops.nodeOk, isOk_unit] at hn
    have hn' := hn
    simp only [selectChk, ok?_bind_eq_ok, ok?_eq_ok] at hn'
    have hne : cs.isEmpty = false := by simpa using hn'.1
    simp only [Ops.replaceLeaves, hs', ok_bind, build, hne, Bool.not_false, ok?_trueC]
    apply errOf_none_ok
    rw [selectColsB_errOf hs'v cs hne, ← selectChk_perm hmem, hn]
    rfl
  | dropCols s ds ih =>
    intro hv hl
    have hsv : s.valid = true := Ops.valid_srcA (p := .dropCols s ds) hv
    obtain ⟨s', hs'⟩ := ih hsv hl
    obtain ⟨hs'v, _, hmem, _⟩ := facts hsv hl hs'
    have hn := Ops.valid_nodeOk hv
    simp only [Ops.nodeOk, Bool.and_eq_true, isOk_unit] at hn
    have hne : ds.isEmpty = false := by simpa using hn.1
    simp only [Ops.replaceLeaves, hs', ok_bind, build, hne, Bool.false_eq_true, if_false]
    rw [dropColsB_strip, mkDropCols_eq, Ops.strip_cols, ← dropChk_perm hmem, hn.2]
    exact ⟨_, rfl⟩
  | order s cs rv lim ih =>
    intro hv hl
    have hsv : s.valid = true := Ops.valid_srcA (p := .order s cs rv lim) hv
    obtain ⟨s', hs'⟩ := ih hsv hl
    obtain ⟨hs'v, _, hmem, _⟩ := facts hsv hl hs'
    have hn := Ops.valid_nodeOk hv
    simp only [Ops.nodeOk, Bool.and_eq_true, isOk_unit] at hn
    have hne : (cs.isEmpty && lim.isNone) = false := by
      have := hn.1
      cases hh : (cs.isEmpty && lim.isNone) <;> simp_all
    simp only [Ops.replaceLeaves, hs', ok_bind, build, hne, Bool.false_eq_true, if_false]
    rw [orderB_strip, mkOrder_eq, Ops.strip_cols, ← orderChk_perm hmem, hn.2]
    exact ⟨_, rfl⟩
  | rename s mp ih =>
    intro hv hl
    have hsv : s.valid = true := Ops.valid_srcA (p := .rename s mp) hv
    obtain ⟨s', hs'⟩ := ih hsv hl
    obtain ⟨hs'v, _, hmem, hperm⟩ := facts hsv hl hs'
    have hn := Ops.valid_nodeOk hv
    simp only [Ops.nodeOk, Bool.and_eq_true, isOk_unit] at hn
    have hne : mp.isEmpty = false := by simpa using hn.1
    simp only [Ops.replaceLeaves, hs', ok_bind, build, hne, Bool.false_eq_true, if_false]
    rw [renameB_strip, mkRename_eq, Ops.strip_cols, renameChk_perm hperm, hn.2]
    exact ⟨_, rfl⟩
  | mapCols s mp ds ih =>
    intro hv hl
    have hsv : s.valid = true := Ops.valid_srcA (p := .mapCols s mp ds) hv
    obtain ⟨s', hs'⟩ := ih hsv hl
    obtain ⟨hs'v, _, hmem, hperm⟩ := facts hsv hl hs'
    have hn := Ops.valid_nodeOk hv
    simp only [Ops.nodeOk, Bool.and_eq_true, isOk_unit] at hn
    have hne : (mp.map (fun kv => (kv.1, some kv.2)) ++ ds.map (fun d => (d, (none : Option String)))).isEmpty
        = false := by
      have := hn.1
      cases mp <;> cases ds <;> simp_all
    simp only [Ops.replaceLeaves, hs', ok_bind, build, hne, Bool.false_eq_true, if_false]
    rw [mapColsB_strip, mkMapCols_eq, Ops.strip_cols, mapColsChk_perm hperm, mapColsChk_eq, mapRemap_canon,
      mapDels_canon, hn.2]
    exact ⟨_, rfl⟩
  | convert s rm ih =>
    intro hv hl
    have hsv : s.valid = true := Ops.valid_srcA (p := .convert s rm) hv
    obtain ⟨s', hs'⟩ := ih hsv hl
    obtain ⟨hs'v, _, hmem, _⟩ := facts hsv hl hs'
    have hn := Ops.valid_nodeOk hv
    simp only [Ops.nodeOk, isOk_unit] at hn
    simp only [Ops.replaceLeaves, hs', ok_bind, build]
    rw [convertB_strip, mkConvert_eq, Ops.strip_cols, ← convertChk_perm hmem, hn]
    exact ⟨_, rfl⟩
  | join a b oa ob jt iha ihb =>
    intro hv hl
    have hav : a.valid = true := by simp only [Ops.valid, Bool.and_eq_true] at hv; exact hv.1.2
    have hbv : b.valid = true := by simp only [Ops.valid, Bool.and_eq_true] at hv; exact hv.2
    have hla : ∀ kc ∈ a.tables, kc.1 = k ∧ r.cols.Perm kc.2 :=
      fun kc hkc => hl kc (by simp only [Ops.tables, List.mem_append]; exact Or.inl hkc)
    have hlb : ∀ kc ∈ b.tables, kc.1 = k ∧ r.cols.Perm kc.2 :=
      fun kc hkc => hl kc (by simp only [Ops.tables, List.mem_append]; exact Or.inr hkc)
    obtain ⟨a', ha'⟩ := iha hav hla
    obtain ⟨b', hb'⟩ := ihb hbv hlb
    obtain ⟨ha'v, hta, hma, _⟩ := facts hav hla ha'
    obtain ⟨hb'v, htb, hmb, _⟩ := facts hbv hlb hb'
    have hn := Ops.valid_nodeOk hv
    simp only [Ops.nodeOk, Bool.and_eq_true] at hn
    obtain ⟨⟨⟨⟨_, h2⟩, h3⟩, h4⟩, h5⟩ := hn
    have hcons : tablesConsistent a'.strip.tables b'.tables = true := by
      rw [Ops.strip_tables]
      exact tablesConsistent_iff.mpr (fun x hx y hy e =>
        valid_tables_consistent hr x ((hta x).mp hx) y ((htb y).mp hy) e)
    simp only [Ops.replaceLeaves, ha', hb', ok_bind, build]
    rw [joinB_strip, mkJoin_eq, Ops.strip_cols]
    simp only [joinChk, hcons, h2, ← subset_congr_right hma, ← subset_congr_right hmb, h3, h4, parse_toStr, h5,
      ok?_trueC, Bool.not_false, Bool.true_or, bind, Except.bind, pure, Except.pure]
    exact ⟨_, rfl⟩
  | concat a b idc an bn iha ihb =>
    intro hv hl
    have hav : a.valid = true := by simp only [Ops.valid, Bool.and_eq_true] at hv; exact hv.1.2
    have hbv : b.valid = true := by simp only [Ops.valid, Bool.and_eq_true] at hv; exact hv.2
    have hla : ∀ kc ∈ a.tables, kc.1 = k ∧ r.cols.Perm kc.2 :=
      fun kc hkc => hl kc (by simp only [Ops.tables, List.mem_append]; exact Or.inl hkc)
    have hlb : ∀ kc ∈ b.tables, kc.1 = k ∧ r.cols.Perm kc.2 :=
      fun kc hkc => hl kc (by simp only [Ops.tables, List.mem_append]; exact Or.inr hkc)
    obtain ⟨a', ha'⟩ := iha hav hla
    obtain ⟨b', hb'⟩ := ihb hbv hlb
    obtain ⟨ha'v, hta, hma, _⟩ := facts hav hla ha'
    obtain ⟨hb'v, htb, hmb, _⟩ := facts hbv hlb hb'
    have hn := Ops.valid_nodeOk hv
    simp only [Ops.nodeOk, isOk_unit, concatChk, ok?_bind_eq_ok, ok?_eq_ok] at hn
    obtain ⟨_, h2, h3⟩ := hn
    have hcons : tablesConsistent a'.strip.tables b'.tables = true := by
      rw [Ops.strip_tables]
      exact tablesConsistent_iff.mpr (fun x hx y hy e =>
        valid_tables_consistent hr x ((hta x).mp hx) y ((htb y).mp hy) e)
    simp only [Ops.replaceLeaves, ha', hb', ok_bind, build]
    rw [concatB_strip, mkConcat_eq, Ops.strip_cols]
    cases idc with
    | none =>
      simp only [concatChk, hcons, ← subset_congr_right hma, ← subset_congr_right hmb, ← subset_congr_left hma,
        ← subset_congr_left hmb, h2, ok?_trueC, bind, Except.bind]
      exact ⟨_, rfl⟩
    | some c =>
      have h3c : (!a.cols.contains c) = true := h3
      rw [contains_congr hma c] at h3c
      simp only [concatChk, hcons, ← subset_congr_right hma, ← subset_congr_right hmb, ← subset_congr_left hma,
        ← subset_congr_left hmb, h2, h3c, ok?_trueC, bind, Except.bind]
      exact ⟨_, rfl⟩

/-- **Totality of `>>`** (valid pipelines): one table key in `b`, and the columns of `a` are, as a set, the columns of
that table description ⇒ `b.act_on(a)` succeeds. -/
theorem actOn_total {a b : Ops} {key : String} {oldCols : List String} (ha : a.valid = true)
    (hb : b.valid = true) (hkey : (b.tables.map (·.1)).eraseDups = [key])
    (hold : lookupLast b.tables key = some oldCols) (hset : ∀ c, c ∈ a.cols ↔ c ∈ oldCols) :
    ∃ c, Ops.actOn b a = .ok c := by
  have h1 : subset a.cols oldCols = true := subset_iffC.mpr (fun c hc => (hset c).mp hc)
  have h2 : subset oldCols a.cols = true := subset_iffC.mpr (fun c hc => (hset c).mpr hc)
  have hbound := actOn_boundary hb ha hkey hold h1 h2
  obtain ⟨c, hc⟩ := replaceSingle_total ha b hb hbound
  refine ⟨c, ?_⟩
  simp only [Ops.actOn, hkey, hold, h1, h2, Bool.and_self, if_true]
  exact hc

end DAVerif
