import DAVerif.Proofs.SolRows
import DAVerif.Proofs.SolComb
import DAVerif.Proofs.SolBuild
import DAVerif.Spec.Solutions
import DAVerif.Sem.Theta
/-!
`rank_to_average` computes the mean position of each row's tie group (proof for the Pandas configuration of the
executor model with the concrete window functions of `Theta`).

Stages (rows are addressed by position `j < n`):

1. `tb j`  = `_row_number()` over the whole table ordered by `order_by`     (`rk1`): distinct numbers, increasing
             along `order_by`;
2. `rank j` = `(1.0).cumsum()` per partition ordered by `order_by ++ [tb]`   (`pos2 + 1`): the window order is total,
             so the position is the number of strict predecessors;
3. `rank j` = `rank.mean()` per `partition_by ++ order_by`                    : the mean over the tie group.
-/
namespace DAVerif.Sol
open DAVerif DAVerif.Solutions DAVerif.Spec21

/-! ### the concrete window functions involved -/

theorem win_row_number (cv : RecMap → Table → Except Err Table) (cargs vs : List Val) (pos : Nat) :
    (Theta.concrete cv).win "_row_number" cargs vs pos = Val.num ((pos + 1 : Nat) : Rat) := by
  simp [Theta.concrete, Theta.win, Rat.natCast_add]

theorem foldl_add_ones (a : Rat) (k : Nat) : (List.replicate k (1 : Rat)).foldl (· + ·) a = a + (k : Rat) := by
  induction k generalizing a with
  | zero => simp [Rat.add_zero]
  | succ k ih =>
    rw [List.replicate_succ, List.foldl_cons, ih, Rat.natCast_add]
    grind

theorem nums_replicate_one (k : Nat) : Theta.nums (List.replicate k (Val.num 1)) = List.replicate k (1 : Rat) := by
  induction k with
  | zero => rfl
  | succ k ih =>
    rw [List.replicate_succ, List.replicate_succ]
    simp only [Theta.nums, List.filterMap_cons, Theta.num?] at ih ⊢
    rw [ih]

theorem cumulate_ones (m pos : Nat) (h : pos < m) :
    Theta.cumulate (· + ·) (List.replicate m (Val.num 1)) pos = Val.num ((pos + 1 : Nat) : Rat) := by
  unfold Theta.cumulate
  have h1 : (List.replicate m (Val.num 1)).getD pos Val.null = Val.num 1 := by
    rw [getD_eq _ (by simpa using h)]; simp
  rw [h1]
  simp only
  have h2 : (List.replicate m (Val.num 1)).take (pos + 1) = List.replicate (pos + 1) (Val.num 1) := by
    rw [List.take_replicate]; congr 1; omega
  rw [h2, nums_replicate_one, List.replicate_succ]
  simp only [foldl_add_ones, Rat.natCast_add]
  congr 1
  grind

theorem win_cumsum_ones (cv : RecMap → Table → Except Err Table) (rows : List Row) (pos : Nat)
    (h : pos < rows.length) :
    (Theta.concrete cv).win "cumsum" [] (argValues (mcall "cumsum" (.value (.flt 1))) rows) pos
      = Val.num ((pos + 1 : Nat) : Rat) := by
  have : argValues (mcall "cumsum" (.value (.flt 1))) rows = List.replicate rows.length (Val.num 1) := by
    simp only [argValues, mcall, Lit.toVal]
    exact List.map_const' ..
  rw [this]
  simp only [Theta.concrete, Theta.win]
  exact cumulate_ones _ _ h

theorem sumR_cast (l : List Nat) (a : Rat) :
    (l.map (fun x => ((x : Nat) : Rat))).foldl (· + ·) a = a + ((l.sum : Nat) : Rat) := by
  induction l generalizing a with
  | nil => simp [Rat.add_zero]
  | cons x l ih =>
    simp only [List.map_cons, List.foldl_cons, List.sum_cons, ih, Rat.natCast_add]
    grind

theorem nums_map_cast (l : List Nat) :
    Theta.nums (l.map (fun x => Val.num ((x : Nat) : Rat))) = l.map (fun x => ((x : Nat) : Rat)) := by
  induction l with
  | nil => rfl
  | cons x l ih =>
    simp only [Theta.nums, List.map_cons, List.filterMap_cons, Theta.num?] at ih ⊢
    rw [ih]

theorem meanV_nums (l : List Nat) (hl : l ≠ []) :
    Theta.meanV (l.map (fun x => Val.num ((x : Nat) : Rat))) = Val.num (((l.sum : Nat) : Rat) / (l.length : Rat)) := by
  have h1 := nums_map_cast l
  unfold Theta.meanV
  rw [h1]
  have h2 : (l.map (fun x => ((x : Nat) : Rat))).isEmpty = false := by
    cases l with
    | nil => exact absurd rfl hl
    | cons x l => rfl
  simp only [h2, Bool.false_eq_true, if_false, Theta.sumR, sumR_cast, List.length_map]
  congr 1
  grind

theorem win_mean (cv : RecMap → Table → Except Err Table) (cargs vs : List Val) (pos : Nat) :
    (Theta.concrete cv).win "mean" cargs vs pos = Theta.meanV vs := by
  simp [Theta.concrete, Theta.win, Theta.agg]

/-! ### the three stages as functions of the row position -/

/-- stage 1: the tie-breaking row number of position `j` -/
def rk1 (ob : List String) (rows0 : List Row) (j : Nat) : Nat := winPos [] ob [] rows0 j + 1

def rows1 (cols ob : List String) (tb : String) (rows0 : List Row) : List Row :=
  addCol (cols ++ [tb]) tb (fun j => Val.num ((rk1 ob rows0 j : Nat) : Rat)) rows0

/-- stage 2: position of `j` in its partition ordered by `order_by ++ [tb]` -/
def pos2 (cols ob part : List String) (tb : String) (rows0 : List Row) (j : Nat) : Nat :=
  winPos part (ob ++ [tb]) [] (rows1 cols ob tb rows0) j

def rows2 (cols ob part : List String) (rk tb : String) (rows0 : List Row) : List Row :=
  addCol (cols ++ [tb, rk]) rk (fun j => Val.num ((pos2 cols ob part tb rows0 j + 1 : Nat) : Rat))
    (rows1 cols ob tb rows0)

/-- stage 3: the positions of the tie group of `i` -/
def group3 (cols ob part : List String) (rk tb : String) (rows0 : List Row) (i : Nat) : List Nat :=
  (List.range rows0.length).filter (fun j =>
    keyOf ((rows2 cols ob part rk tb rows0).getD j []) (part ++ ob)
      == keyOf ((rows2 cols ob part rk tb rows0).getD i []) (part ++ ob))

def val3 (cols ob part : List String) (rk tb : String) (rows0 : List Row) (i : Nat) : Val :=
  Theta.meanV ((group3 cols ob part rk tb rows0 i).map
    (fun j => Val.num ((pos2 cols ob part tb rows0 j + 1 : Nat) : Rat)))

def rows3 (cols ob part : List String) (rk tb : String) (rows0 : List Row) : List Row :=
  addCol (cols ++ [tb, rk]) rk (val3 cols ob part rk tb rows0) (rows2 cols ob part rk tb rows0)

theorem decide_le_not_le (a b : Nat) : (decide (a ≤ b) && !decide (b ≤ a)) = decide (a < b) := by
  rw [Bool.eq_iff_iff]
  simp only [Bool.and_eq_true, decide_eq_true_eq, Bool.not_eq_true', decide_eq_false_iff_not]
  omega

set_option linter.unusedSectionVars false
section
variable {cols ob part : List String} {rk tb : String} (hok : RankOK cols ob part rk tb) (rows0 : List Row)
include hok

theorem length_rows1 : (rows1 cols ob tb rows0).length = rows0.length := by simp [rows1]
theorem length_rows2 : (rows2 cols ob part rk tb rows0).length = rows0.length := by simp [rows2, rows1]

theorem mem_cols_ne_tb {c : String} (h : c ∈ cols) : c ≠ tb := fun e => hok.tb_new (e ▸ h)
theorem mem_cols_ne_rk {c : String} (h : c ∈ cols) : c ≠ rk := fun e => hok.rank_new (e ▸ h)

theorem get_rows1 {j : Nat} (hj : j < rows0.length) {c : String} (hc : c ∈ cols) :
    ((rows1 cols ob tb rows0).getD j []).get c = (rows0.getD j []).get c := by
  rw [rows1, get_addCol _ _ _ _ _ hj (List.mem_append_left _ hc)]
  simp [mem_cols_ne_tb hok hc]

theorem get_rows1_tb {j : Nat} (hj : j < rows0.length) :
    ((rows1 cols ob tb rows0).getD j []).get tb = Val.num ((rk1 ob rows0 j : Nat) : Rat) := by
  rw [rows1, get_addCol _ _ _ _ _ hj (by simp)]
  simp

theorem get_rows2 {j : Nat} (hj : j < rows0.length) {c : String} (hc : c ∈ cols) :
    ((rows2 cols ob part rk tb rows0).getD j []).get c = (rows0.getD j []).get c := by
  rw [rows2, get_addCol _ _ _ _ _ (by rw [length_rows1 hok]; exact hj) (List.mem_append_left _ hc)]
  simp only [mem_cols_ne_rk hok hc, if_false]
  exact get_rows1 hok rows0 hj hc

theorem get_rows2_rk {j : Nat} (hj : j < rows0.length) :
    ((rows2 cols ob part rk tb rows0).getD j []).get rk
      = Val.num ((pos2 cols ob part tb rows0 j + 1 : Nat) : Rat) := by
  rw [rows2, get_addCol _ _ _ _ _ (by rw [length_rows1 hok]; exact hj) (by simp)]
  simp

theorem keyOf_rows1 {j : Nat} (hj : j < rows0.length) {cs : List String} (hcs : ∀ c ∈ cs, c ∈ cols) :
    keyOf ((rows1 cols ob tb rows0).getD j []) cs = keyOf (rows0.getD j []) cs :=
  keyOf_congr (fun c hc => get_rows1 hok rows0 hj (hcs c hc))

theorem keyOf_rows2 {j : Nat} (hj : j < rows0.length) {cs : List String} (hcs : ∀ c ∈ cs, c ∈ cols) :
    keyOf ((rows2 cols ob part rk tb rows0).getD j []) cs = keyOf (rows0.getD j []) cs :=
  keyOf_congr (fun c hc => get_rows2 hok rows0 hj (hcs c hc))

theorem part_ob_sub : ∀ c ∈ part ++ ob, c ∈ cols := by
  intro c hc
  rcases List.mem_append.mp hc with h | h
  · exact hok.part_sub c h
  · exact hok.order_sub c h

/-- the tie-breaking numbers of different positions differ -/
theorem rk1_inj {j k : Nat} (hj : j < rows0.length) (hk : k < rows0.length) (h : rk1 ob rows0 j = rk1 ob rows0 k) :
    j = k := by
  by_cases e : j = k
  · exact e
  · exfalso
    have := winPos_ne (p := []) (o := ob) (rv := []) hj hk rfl e
    simp only [rk1] at h
    omega

/-- … and increase along `order_by` -/
theorem rk1_lt_of_strict {j k : Nat} (hj : j < rows0.length) (hk : k < rows0.length)
    (h : rowLe ob [] (rows0.getD k []) (rows0.getD j []) = false) : rk1 ob rows0 j < rk1 ob rows0 k := by
  have := winPos_lt_of_strict (p := []) (o := ob) (rv := []) hj hk rfl h
  simp only [rk1]
  omega

/-! #### stage 2 -/

/-- same partition / strictly before / tie, on the input rows -/
def sameP (part : List String) (rows0 : List Row) (k j : Nat) : Bool :=
  keyOf (rows0.getD k []) part == keyOf (rows0.getD j []) part
def ltO (ob : List String) (rows0 : List Row) (k j : Nat) : Bool :=
  rowLe ob [] (rows0.getD k []) (rows0.getD j []) && !rowLe ob [] (rows0.getD j []) (rows0.getD k [])
def tieO (ob : List String) (rows0 : List Row) (k j : Nat) : Bool :=
  keyOf (rows0.getD k []) ob == keyOf (rows0.getD j []) ob

theorem ltO_tieO_excl (k j : Nat) : ¬ (ltO ob rows0 k j = true ∧ tieO ob rows0 k j = true) := by
  rintro ⟨h1, h2⟩
  simp only [ltO, Bool.and_eq_true, Bool.not_eq_true'] at h1
  simp only [tieO, beq_iff_eq] at h2
  have := (tie_iff_keyOf ob [] _ _).mpr h2
  rw [this.2] at h1
  exact absurd h1.2 (by simp)

theorem strict2_eq {k j : Nat} (hk : k < rows0.length) (hj : j < rows0.length) :
    (rowLe (ob ++ [tb]) [] ((rows1 cols ob tb rows0).getD k []) ((rows1 cols ob tb rows0).getD j [])
      && !rowLe (ob ++ [tb]) [] ((rows1 cols ob tb rows0).getD j []) ((rows1 cols ob tb rows0).getD k []))
    = (ltO ob rows0 k j || (tieO ob rows0 k j && decide (rk1 ob rows0 k < rk1 ob rows0 j))) := by
  have ek := keyOf_rows1 hok rows0 hk hok.order_sub
  have ej := keyOf_rows1 hok rows0 hj hok.order_sub
  have c1 : rowLe ob [] ((rows1 cols ob tb rows0).getD k []) ((rows1 cols ob tb rows0).getD j [])
      = rowLe ob [] (rows0.getD k []) (rows0.getD j []) :=
    rowLe_congr (fun c hc => get_rows1 hok rows0 hk (hok.order_sub c hc))
      (fun c hc => get_rows1 hok rows0 hj (hok.order_sub c hc))
  have c2 : rowLe ob [] ((rows1 cols ob tb rows0).getD j []) ((rows1 cols ob tb rows0).getD k [])
      = rowLe ob [] (rows0.getD j []) (rows0.getD k []) :=
    rowLe_congr (fun c hc => get_rows1 hok rows0 hj (hok.order_sub c hc))
      (fun c hc => get_rows1 hok rows0 hk (hok.order_sub c hc))
  have t1 := rowLe_single_num tb _ _ _ _ (get_rows1_tb hok rows0 hk) (get_rows1_tb hok rows0 hj)
  have t2 := rowLe_single_num tb _ _ _ _ (get_rows1_tb hok rows0 hj) (get_rows1_tb hok rows0 hk)
  rw [rowLe_append, rowLe_append, ek, ej, c1, c2, t1, t2]
  by_cases ht : keyOf (rows0.getD k []) ob = keyOf (rows0.getD j []) ob
  · have hl : ltO ob rows0 k j = false := by
      cases h : ltO ob rows0 k j with
      | false => rfl
      | true => exact absurd ⟨h, by simpa [tieO] using ht⟩ (ltO_tieO_excl hok rows0 k j)
    have htt : tieO ob rows0 k j = true := by simpa [tieO] using ht
    rw [if_pos ht, if_pos ht.symm, hl, htt]
    simp only [Bool.true_and, Bool.false_or]
    exact decide_le_not_le _ _
  · have ht' : ¬ keyOf (rows0.getD j []) ob = keyOf (rows0.getD k []) ob := fun e => ht e.symm
    have : tieO ob rows0 k j = false := by simpa [tieO] using ht
    rw [if_neg ht, if_neg ht', this]
    simp only [Bool.false_and, Bool.or_false, ltO]

/-- the window order of stage 2 is total: two positions never tie on `order_by ++ [tb]` -/
theorem total2 (j : Nat) : ∀ a ∈ winPart part (rows1 cols ob tb rows0) j,
    ∀ b ∈ winPart part (rows1 cols ob tb rows0) j,
      rowLe (ob ++ [tb]) [] a.1 b.1 = true → rowLe (ob ++ [tb]) [] b.1 a.1 = true → a = b := by
  intro a ha b hb h1 h2
  have ha' := (mem_winPart.mp ha).1
  have hb' := (mem_winPart.mp hb).1
  obtain ⟨ra, ja⟩ := a
  obtain ⟨rb, jb⟩ := b
  obtain ⟨ea, hja⟩ := getD_of_mem_zipIdx ha'
  obtain ⟨eb, hjb⟩ := getD_of_mem_zipIdx hb'
  rw [length_rows1 hok] at hja hjb
  have htie := (rowLe_tie_iff (ob ++ [tb]) [] ra rb).mp ⟨h1, h2⟩ tb (by simp)
  rw [← ea, ← eb, get_rows1_tb hok rows0 hja, get_rows1_tb hok rows0 hjb] at htie
  have : rk1 ob rows0 ja = rk1 ob rows0 jb := by
    have := Val.num.inj htie
    exact_mod_cast this
  have := rk1_inj hok rows0 hja hjb this
  exact zipIdx_snd_inj ha' hb' this

theorem pos2_eq {j : Nat} (hj : j < rows0.length) :
    pos2 cols ob part tb rows0 j = (List.range rows0.length).countP (fun k =>
      sameP part rows0 k j && (ltO ob rows0 k j || (tieO ob rows0 k j && decide (rk1 ob rows0 k < rk1 ob rows0 j)))) := by
  have hj1 : j < (rows1 cols ob tb rows0).length := by rw [length_rows1 hok]; exact hj
  rw [pos2, winPos_eq_countP hj1 (total2 hok rows0 j), countP_winPart, length_rows1 hok]
  apply countP_congr_mem
  intro k hk
  have hk := List.mem_range.mp hk
  simp only [sameP]
  rw [keyOf_rows1 hok rows0 hk hok.part_sub, keyOf_rows1 hok rows0 hj hok.part_sub, strict2_eq hok rows0 hk hj]

/-! #### stage 3 -/

theorem mem_group3 {i j : Nat} (hi : i < rows0.length) :
    j ∈ group3 cols ob part rk tb rows0 i ↔
      j < rows0.length ∧ sameP part rows0 j i = true ∧ tieO ob rows0 j i = true := by
  simp only [group3, List.mem_filter, List.mem_range, beq_iff_eq, sameP, tieO]
  constructor
  · rintro ⟨hj, h⟩
    rw [keyOf_rows2 hok rows0 hj (part_ob_sub hok), keyOf_rows2 hok rows0 hi (part_ob_sub hok),
      keyOf_append_eq_iff] at h
    exact ⟨hj, h.1, h.2⟩
  · rintro ⟨hj, h1, h2⟩
    refine ⟨hj, ?_⟩
    rw [keyOf_rows2 hok rows0 hj (part_ob_sub hok), keyOf_rows2 hok rows0 hi (part_ob_sub hok),
      keyOf_append_eq_iff]
    exact ⟨h1, h2⟩

theorem group3_pred {i k : Nat} (hi : i < rows0.length) (hk : k < rows0.length) :
    (keyOf ((rows2 cols ob part rk tb rows0).getD k []) (part ++ ob)
      == keyOf ((rows2 cols ob part rk tb rows0).getD i []) (part ++ ob))
    = (sameP part rows0 k i && tieO ob rows0 k i) := by
  rw [keyOf_rows2 hok rows0 hk (part_ob_sub hok), keyOf_rows2 hok rows0 hi (part_ob_sub hok)]
  rw [Bool.eq_iff_iff]
  simp only [beq_iff_eq, keyOf_append_eq_iff, sameP, tieO, Bool.and_eq_true]

/-- number of rows of the partition of `i` strictly before `i` -/
def lessI (part ob : List String) (rows0 : List Row) (i : Nat) : Nat :=
  (List.range rows0.length).countP (fun k => sameP part rows0 k i && ltO ob rows0 k i)

/-- for a member `j` of the tie group of `i`: strict predecessors of the partition, plus the members of the group
with a smaller tie-breaking number -/
theorem pos2_of_group {i j : Nat} (hi : i < rows0.length) (hj : j ∈ group3 cols ob part rk tb rows0 i) :
    pos2 cols ob part tb rows0 j = lessI part ob rows0 i +
      ((group3 cols ob part rk tb rows0 i).map (rk1 ob rows0)).countP (fun y => decide (y < rk1 ob rows0 j)) := by
  obtain ⟨hjn, hsp, hti⟩ := (mem_group3 hok rows0 hi).mp hj
  simp only [sameP, tieO, beq_iff_eq] at hsp hti
  rw [pos2_eq hok rows0 hjn]
  have hpt : ∀ k ∈ List.range rows0.length,
      (sameP part rows0 k j && (ltO ob rows0 k j || (tieO ob rows0 k j && decide (rk1 ob rows0 k < rk1 ob rows0 j))))
      = ((sameP part rows0 k i && ltO ob rows0 k i) ||
          ((sameP part rows0 k i && tieO ob rows0 k i) && decide (rk1 ob rows0 k < rk1 ob rows0 j))) := by
    intro k _
    have e1 : sameP part rows0 k j = sameP part rows0 k i := by simp only [sameP, hsp]
    have e2 : tieO ob rows0 k j = tieO ob rows0 k i := by simp only [tieO, hti]
    have hget : ∀ c ∈ ob, (rows0.getD j []).get c = (rows0.getD i []).get c := keyOf_eq_iff.mp hti
    have e3 : ltO ob rows0 k j = ltO ob rows0 k i := by
      simp only [ltO]
      rw [rowLe_congr (fun _ _ => rfl) hget, rowLe_congr hget (fun _ _ => rfl)]
    rw [e1, e2, e3]
    cases sameP part rows0 k i <;> simp
  rw [countP_congr_mem hpt, countP_or_excl]
  · congr 1
    rw [List.countP_map]
    simp only [group3]
    rw [List.countP_filter]
    apply countP_congr_mem
    intro k hk
    have hk := List.mem_range.mp hk
    simp only [Function.comp]
    rw [group3_pred hok rows0 hi hk, Bool.and_comm]
  · intro k _ ⟨h1, h2⟩
    simp only [Bool.and_eq_true] at h1 h2
    exact ltO_tieO_excl hok rows0 k i ⟨h1.2, h2.1.2⟩

theorem group3_tb_nodup (i : Nat) : ((group3 cols ob part rk tb rows0 i).map (rk1 ob rows0)).Nodup := by
  have hnd : (group3 cols ob part rk tb rows0 i).Nodup := List.nodup_range.filter _
  unfold List.Nodup at hnd ⊢
  rw [List.pairwise_map]
  refine List.Pairwise.imp_of_mem ?_ hnd
  intro a b ha hb hab e
  have ha := (List.mem_range.mp (List.mem_filter.mp ha).1)
  have hb := (List.mem_range.mp (List.mem_filter.mp hb).1)
  exact hab (rk1_inj hok rows0 ha hb e)

/-- the positions of the tie group of `i` add up to `(less+1) + … + (less+ties)` -/
theorem sum_group3 {i : Nat} (hi : i < rows0.length) :
    ((group3 cols ob part rk tb rows0 i).map (fun j => pos2 cols ob part tb rows0 j + 1)).sum
      = ((List.range (group3 cols ob part rk tb rows0 i).length).map (fun e => lessI part ob rows0 i + e + 1)).sum := by
  have h := sum_positions ((group3 cols ob part rk tb rows0 i).map (rk1 ob rows0)) (group3_tb_nodup hok rows0 i)
    (lessI part ob rows0 i)
  rw [List.length_map, List.map_map] at h
  rw [← h]
  congr 1
  apply List.map_congr_left
  intro j hj
  simp only [Function.comp]
  rw [pos2_of_group hok rows0 hi hj]

/-! #### the specification's counts, by position -/

theorem lessCount_eq {i : Nat} :
    lessCount (rowLe ob []) part rows0 (rows0.getD i []) = lessI part ob rows0 i := by
  rw [lessCount, List.countP_filter, countP_rows]
  apply countP_congr_mem
  intro k _
  rw [Bool.and_comm]
  rfl

theorem tieCount_eq {i : Nat} (hi : i < rows0.length) :
    tieCount (rowLe ob []) part rows0 (rows0.getD i []) = (group3 cols ob part rk tb rows0 i).length := by
  rw [tieCount, List.countP_filter, countP_rows, group3, ← List.countP_eq_length_filter]
  apply countP_congr_mem
  intro k hk
  have hk := List.mem_range.mp hk
  rw [group3_pred hok rows0 hi hk]
  simp only [samePart, tiesWith, sameP, tieO]
  rw [Bool.and_comm]
  congr 1
  rw [Bool.eq_iff_iff]
  simp only [Bool.and_eq_true, beq_iff_eq]
  exact tie_iff_keyOf ob [] _ _

/-- **Stage 3 yields the mean position of the tie group.** -/
theorem val3_eq {i : Nat} (hi : i < rows0.length) :
    val3 cols ob part rk tb rows0 i
      = Val.num (tieGroupMeanRank (rowLe ob []) part rows0 (rows0.getD i [])) := by
  have hne : group3 cols ob part rk tb rows0 i ≠ [] := by
    intro e
    have : i ∈ group3 cols ob part rk tb rows0 i :=
      (mem_group3 hok rows0 hi).mpr ⟨hi, by simp [sameP], by simp [tieO]⟩
    rw [e] at this
    cases this
  have hmap : (group3 cols ob part rk tb rows0 i).map
      (fun j => Val.num ((pos2 cols ob part tb rows0 j + 1 : Nat) : Rat))
      = ((group3 cols ob part rk tb rows0 i).map (fun j => pos2 cols ob part tb rows0 j + 1)).map
          (fun x => Val.num ((x : Nat) : Rat)) := by
    rw [List.map_map]; rfl
  rw [val3, hmap, meanV_nums _ (by simpa using hne), List.length_map, sum_group3 hok rows0 hi]
  simp only [tieGroupMeanRank]
  rw [lessCount_eq hok rows0, tieCount_eq hok rows0 hi]


/-! #### assembling the pipeline -/

theorem get_rows3 {j : Nat} (hj : j < rows0.length) {c : String} (hc : c ∈ cols) :
    ((rows3 cols ob part rk tb rows0).getD j []).get c = (rows0.getD j []).get c := by
  rw [rows3, get_addCol _ _ _ _ _ (by rw [length_rows2 hok]; exact hj) (List.mem_append_left _ hc)]
  simp only [mem_cols_ne_rk hok hc, if_false]
  exact get_rows2 hok rows0 hj hc

theorem get_rows3_rk {j : Nat} (hj : j < rows0.length) :
    ((rows3 cols ob part rk tb rows0).getD j []).get rk = val3 cols ob part rk tb rows0 j := by
  rw [rows3, get_addCol _ _ _ _ _ (by rw [length_rows2 hok]; exact hj) (by simp)]
  simp

theorem length_rows3 : (rows3 cols ob part rk tb rows0).length = rows0.length := by
  simp [rows3, rows2, rows1]

/-- the final rows: every input row, in input order, followed by its rank -/
theorem rows3_select (hwf : ∀ r ∈ rows0, r.keys = cols) :
    (rows3 cols ob part rk tb rows0).map (fun r => r.select (cols ++ [rk]))
      = rows0.map (fun r => r ++ [(rk, Val.num (tieGroupMeanRank (rowLe ob []) part rows0 r))]) := by
  apply List.ext_getElem
  · simp [length_rows3 hok]
  · intro i h1 h2
    have hi : i < rows0.length := by simpa using h2
    have hi3 : i < (rows3 cols ob part rk tb rows0).length := by rw [length_rows3 hok]; exact hi
    simp only [List.getElem_map]
    rw [← getD_eq [] hi3, ← getD_eq [] hi, select_append_single, get_rows3_rk hok rows0 hi, val3_eq hok rows0 hi]
    congr 1
    rw [select_congr (fun c hc => get_rows3 hok rows0 hi hc)]
    exact select_self (hwf _ (by rw [getD_eq [] hi]; exact List.getElem_mem _)) hok.nodup

end

/-! ### the three window steps on the concrete interpretation -/

section
variable (cv : RecMap → Table → Except Err Table)
variable {cols ob part : List String} {rk tb : String}

theorem stage1 (t : Table) (oc : List String) :
    semExtendWindow (Theta.concrete cv) [(tb, fcall0 "_row_number")] [] ob [] t oc
      = ⟨oc, addCol oc tb (fun j => Val.num ((rk1 ob t.rows j : Nat) : Rat)) t.rows⟩ := by
  rw [semExtendWindow_single]
  congr 1
  apply addCol_congr
  intro i _
  simp only [winVal, fcall0, opName, win_row_number, rk1]

theorem stage2 (t : Table) (oc : List String) (o p : List String) :
    semExtendWindow (Theta.concrete cv) [(rk, mcall "cumsum" (.value (.flt 1)))] p o [] t oc
      = ⟨oc, addCol oc rk (fun j => Val.num ((winPos p o [] t.rows j + 1 : Nat) : Rat)) t.rows⟩ := by
  rw [semExtendWindow_single]
  congr 1
  apply addCol_congr
  intro i hi
  simp only [winVal]
  have : opName (mcall "cumsum" (.value (.flt 1))) = "cumsum" := rfl
  rw [this]
  have hc : constArgs (mcall "cumsum" (.value (.flt 1))) = [] := rfl
  rw [hc]
  apply win_cumsum_ones
  rw [List.length_map]
  exact winPos_lt hi

theorem stage3 (t : Table) (oc : List String) (p : List String) :
    semExtendWindow (Theta.concrete cv) [(rk, mcall "mean" (.col rk))] p [] [] t oc
      = ⟨oc, addCol oc rk (fun i => Theta.meanV
          (((List.range t.rows.length).filter (fun j => keyOf (t.rows.getD j []) p == keyOf (t.rows.getD i []) p)).map
            (fun j => (t.rows.getD j []).get rk))) t.rows⟩ := by
  rw [semExtendWindow_single]
  congr 1
  apply addCol_congr
  intro i _
  simp only [winVal]
  have : opName (mcall "mean" (.col rk)) = "mean" := rfl
  rw [this, win_mean, winSorted_nil]
  congr 1
  have : ∀ rows : List Row, argValues (mcall "mean" (.col rk)) rows = rows.map (fun r => r.get rk) := fun _ => rfl
  rw [this, List.map_map, map_winPart]
  rfl

/-- **`sem` of the tree built by `rank_to_average`**, for every view `d` the executor evaluates to a well-formed
table: the input rows in input order, each followed by the mean position of its tie group. -/
theorem sem_rankTree (cfg : SemCfg) (env : Env) (d : Ops) (t : Table) (hok : RankOK d.cols ob part rk tb)
    (hd : sem (Theta.concrete cv) cfg env d = .ok t) (hwf : ∀ r ∈ t.rows, r.keys = d.cols) :
    sem (Theta.concrete cv) cfg env (rankTree d ob part rk tb)
      = .ok ⟨d.cols ++ [rk],
          t.rows.map (fun r => r ++ [(rk, Val.num (tieGroupMeanRank (rowLe ob []) part t.rows r))])⟩ := by
  have hc1 : appendNew d.cols [tb] = d.cols ++ [tb] := appendNew_single hok.tb_new
  have hc2 : appendNew (d.cols ++ [tb]) [rk] = d.cols ++ [tb, rk] := by
    rw [appendNew_single]
    · simp
    · simp only [List.mem_append, List.mem_singleton, not_or]
      exact ⟨hok.rank_new, hok.rank_ne_tb⟩
  have hc3 : appendNew (d.cols ++ [tb, rk]) [rk] = d.cols ++ [tb, rk] :=
    appendNew_single_mem (by simp)
  have hc4 : (d.cols ++ [tb, rk]).filter (fun c => !([tb].contains c)) = d.cols ++ [rk] := by
    rw [List.filter_append]
    have h1 : d.cols.filter (fun c => !([tb].contains c)) = d.cols := by
      rw [List.filter_eq_self]
      intro c hc
      have : c ≠ tb := fun e => hok.tb_new (e ▸ hc)
      simp [this]
    have h2 : ([tb, rk].filter (fun c => !([tb].contains c))) = [rk] := by
      have : (rk == tb) = false := by
        have := hok.rank_ne_tb
        simpa using this
      simp [List.filter_cons, hok.rank_ne_tb]
    rw [h1, h2]
  simp only [rankTree, sem, hd, bind, Except.bind, Ops.cols, List.map_cons, List.map_nil, hc1, hc2, hc3, hc4,
    pure, Except.pure, if_true]
  rw [stage1, stage2, stage3]
  simp only [Table.selectCols]
  congr 2
  have e1 : addCol (d.cols ++ [tb]) tb (fun j => Val.num ((rk1 ob t.rows j : Nat) : Rat)) t.rows
      = rows1 d.cols ob tb t.rows := rfl
  have e2 : addCol (d.cols ++ [tb, rk]) rk
      (fun j => Val.num ((winPos part (ob ++ [tb]) [] (rows1 d.cols ob tb t.rows) j + 1 : Nat) : Rat))
      (rows1 d.cols ob tb t.rows) = rows2 d.cols ob part rk tb t.rows := rfl
  rw [e1, e2]
  have e3 : addCol (d.cols ++ [tb, rk]) rk (fun i => Theta.meanV
      (((List.range (rows2 d.cols ob part rk tb t.rows).length).filter (fun j =>
          keyOf ((rows2 d.cols ob part rk tb t.rows).getD j []) (part ++ ob)
            == keyOf ((rows2 d.cols ob part rk tb t.rows).getD i []) (part ++ ob))).map
        (fun j => ((rows2 d.cols ob part rk tb t.rows).getD j []).get rk))) (rows2 d.cols ob part rk tb t.rows)
      = rows3 d.cols ob part rk tb t.rows := by
    rw [rows3]
    apply addCol_congr
    intro i _
    rw [val3, group3, length_rows2 hok]
    congr 1
    apply List.map_congr_left
    intro j hj
    exact get_rows2_rk hok t.rows (List.mem_range.mp (List.mem_filter.mp hj).1)
  rw [e3]
  exact rows3_select hok t.rows hwf

end

end DAVerif.Sol
