import DAVerif.Proofs.BuilderBasics
import DAVerif.Spec.Rules
/-
C26 – well-formedness of operator trees produced by the builders (`WF`), the top node the builders really work
on (`strip`: `order_rows` steps without limit are skipped), and the reduction of every `…B` builder to its node
constructor on `strip self`.
-/
namespace DAVerif
open Rules26

/-- the node a builder call really extends: `order_rows` nodes without a limit (`is_trivial_when_intermediate_`)
are skipped -/
def strip : Ops → Ops
  | .order src _ _ none => strip src
  | p => p

theorem strip_cols (p : Ops) : (strip p).cols = p.cols := by
  fun_induction strip p with
  | case1 src _ _ ih => simpa [Ops.cols] using ih
  | case2 p h => rfl

theorem strip_tables (p : Ops) : (strip p).tables = p.tables := by
  fun_induction strip p with
  | case1 src _ _ ih => simpa [Ops.tables] using ih
  | case2 p h => rfl

theorem strip_not_trivial (p : Ops) : ∀ src cs rev, strip p ≠ .order src cs rev none := by
  fun_induction strip p with
  | case1 src _ _ ih => exact ih
  | case2 p h => intro src cs rev he; exact h src cs rev he

theorem strip_idem (p : Ops) : strip (strip p) = strip p := by
  fun_induction strip p with
  | case1 src _ _ ih => exact ih
  | case2 p h => unfold strip; split
                 · rename_i src cs rev; exact absurd rfl (h src cs rev)
                 · rfl

/-! ### every plain `…B` builder is its constructor on `strip self` -/

theorem joinB_eq (p b : Ops) (onA onB jt check) :
    joinB p b onA onB jt check = mkJoin (strip p) b onA onB jt check := by
  fun_induction joinB p b onA onB jt check with
  | case1 src _ _ b onA onB jt check ih => rw [ih, strip]
  | case2 self b onA onB jt check h =>
    rw [strip]; intro src cs rev he; exact h src cs rev he

theorem concatB_eq (p b : Ops) (idc an bn) : concatB p b idc an bn = mkConcat (strip p) b idc an bn := by
  fun_induction concatB p b idc an bn with
  | case1 src _ _ b idc an bn ih => rw [ih, strip]
  | case2 self b idc an bn h => rw [strip]; intro src cs rev he; exact h src cs rev he

theorem selectRowsB_eq (p : Ops) (e : Term) : selectRowsB p e = .ok (.selectRows (strip p) e) := by
  fun_induction selectRowsB p e with
  | case1 src _ _ e ih => rw [ih, strip]
  | case2 self e h => rw [strip]; intro src cs rev he; exact h src cs rev he

theorem dropColsB_eq (p : Ops) (cs : List String) : dropColsB p cs = mkDropCols (strip p) cs := by
  fun_induction dropColsB p cs with
  | case1 src _ _ cs ih => rw [ih, strip]
  | case2 self cs h => rw [strip]; intro src cs rev he; exact h src cs rev he

theorem mapColsB_eq (p : Ops) (m) : mapColsB p m = mkMapCols (strip p) m := by
  fun_induction mapColsB p m with
  | case1 src _ _ m ih => rw [ih, strip]
  | case2 self m h => rw [strip]; intro src cs rev he; exact h src cs rev he

theorem renameB_eq (p : Ops) (m) : renameB p m = mkRename (strip p) m := by
  fun_induction renameB p m with
  | case1 src _ _ m ih => rw [ih, strip]
  | case2 self m h => rw [strip]; intro src cs rev he; exact h src cs rev he

theorem orderB_eq (p : Ops) (cs rev lim) : orderB p cs rev lim = mkOrder (strip p) cs rev lim := by
  fun_induction orderB p cs rev lim with
  | case1 src _ _ cs rev lim ih => rw [ih, strip]
  | case2 self cs rev lim h => rw [strip]; intro src cs' rev' he; exact h src cs' rev' he

theorem convertB_eq (p : Ops) (rm) : convertB p rm = mkConvert (strip p) rm := by
  fun_induction convertB p rm with
  | case1 src _ _ rm ih => rw [ih, strip]
  | case2 self rm h => rw [strip]; intro src cs rev he; exact h src cs rev he

/-! ### well-formed operator trees -/

/-- what `ExtendNode.__init__` establishes about an extend node over a source with columns `sc` -/
def ExtOK (sc : List String) (ops : Assign) (part order reverse : List String) (windowed : Bool) : Prop :=
  (∀ c ∈ usedBy ops, c ∈ sc) ∧ (∀ c ∈ part, c ∈ sc) ∧ (∀ c ∈ order, c ∈ sc) ∧ (∀ c ∈ reverse, c ∈ order) ∧
  (∀ k ∈ keys ops, k ∉ part ∧ k ∉ order) ∧
  (windowed = false → impliesWindowed ops = false ∧ part = [] ∧ order = []) ∧
  (windowed = true → ∀ kv ∈ ops, windowOpOk sc (!order.isEmpty) kv.2 = true)

/-- Structural well-formedness: the facts the node constructors establish, at every node of the tree. -/
def WF : Ops → Prop
  | .table _ cs => cs ≠ [] ∧ cs.Nodup
  | .extend src ops part order reverse w => WF src ∧ ExtOK src.cols ops part order reverse w
  | .project src ops group => WF src ∧ group.Nodup ∧ (group ≠ [] ∨ ops ≠ [])
  | .selectRows src _ => WF src
  | .selectCols src cs => WF src ∧ cs ≠ [] ∧ cs.Nodup ∧ ∀ c ∈ cs, c ∈ src.cols
  | .dropCols src dels => WF src ∧ (src.cols.filter (fun c => !dels.contains c)) ≠ []
  | .order src _ _ _ => WF src
  | .rename src m => WF src ∧ (Ops.rename src m).cols.Nodup
  | .mapCols src m dels => WF src ∧ (Ops.mapCols src m dels).cols ≠ [] ∧ (Ops.mapCols src m dels).cols.Nodup
  | .join a b _ _ _ => WF a ∧ WF b
  | .concat a b idc _ _ => WF a ∧ WF b ∧ (∀ c, idc = some c → c ∉ a.cols)
  | .convert src rm => WF src ∧ rm.produced ≠ [] ∧ rm.produced.Nodup

theorem WF.stripped {p : Ops} (h : WF p) : WF (DAVerif.strip p) := by
  fun_induction DAVerif.strip p with
  | case1 src _ _ ih => exact ih (by simpa [WF] using h)
  | case2 p _ => exact h

/-- declared columns of a well-formed tree: at least one, none twice -/
theorem WF.cols_ne_nil {p : Ops} (h : WF p) : p.cols ≠ [] := by
  induction p with
  | table _ cs => exact h.1
  | extend src ops part order reverse w ih =>
    exact appendNew_ne_nil_left (ih h.1)
  | project src ops group ih =>
    simp only [Ops.cols]
    rcases h.2.2 with hg | ho
    · exact appendNew_ne_nil_left hg
    · intro he
      cases ops with
      | nil => exact ho rfl
      | cons kv ops =>
        have : kv.1 ∈ appendNew group (List.map (fun x => x.1) (kv :: ops)) :=
          mem_appendNew.mpr (Or.inr (by simp))
        rw [he] at this; simp at this
  | selectRows src _ ih => exact ih h
  | selectCols src cs ih => exact h.2.1
  | dropCols src dels ih => exact h.2
  | order src _ _ _ ih => exact ih h
  | rename src m ih =>
    have := ih h.1
    simp only [Ops.cols, ne_eq, List.map_eq_nil_iff]; exact this
  | mapCols src m dels ih => exact h.2.1
  | join a b onA onB jt iha ihb =>
    have ha := iha h.1
    have hb := ihb h.2
    simp only [Ops.cols]
    split
    · exact ha
    · split
      · exact hb
      · exact appendNew_ne_nil_left ha
  | concat a b idc _ _ iha ihb =>
    have ha := iha h.1
    simp only [Ops.cols]
    cases idc <;> simp [ha]
  | convert src rm ih => exact h.2.1

theorem WF.cols_nodup {p : Ops} (h : WF p) : p.cols.Nodup := by
  induction p with
  | table _ cs => exact h.2
  | extend src ops part order reverse w ih => exact appendNew_nodup (ih h.1)
  | project src ops group ih => exact appendNew_nodup h.2.1
  | selectRows src _ ih => exact ih h
  | selectCols src cs ih => exact h.2.2.1
  | dropCols src dels ih => exact (ih h.1).filter _
  | order src _ _ _ ih => exact ih h
  | rename src m ih => exact h.2
  | mapCols src m dels ih => exact h.2.2
  | join a b onA onB jt iha ihb =>
    have ha := iha h.1
    have hb := ihb h.2
    simp only [Ops.cols]
    split
    · exact ha
    · split
      · exact hb
      · exact appendNew_nodup ha
  | concat a b idc _ _ iha ihb =>
    have ha := iha h.1
    simp only [Ops.cols]
    cases idc with
    | none => exact ha
    | some c =>
      have hc := h.2.2 c rfl
      rw [List.nodup_append]
      refine ⟨ha, by simp, ?_⟩
      intro x hx y hy
      simp only [List.mem_singleton] at hy
      subst hy; rintro rfl; exact hc hx
  | convert src rm ih => exact h.2.2

end DAVerif
