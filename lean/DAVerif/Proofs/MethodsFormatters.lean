import DAVerif.Generated.SqlFormatters
import DAVerif.Sem.ThetaC05
/-!
C05, SQL formatters: auxiliary definitions used by the statements of `Props/C05.lean` (rows binding the symbolic columns,
kinds of cells, the two dialects) and helper lemmas (closed forms of the generated ASTs on numeric arguments, the binary
connectives of `Sql3` against the list connectives of `ThetaSql`).
-/
namespace DAVerif
open DAVerif.Sql3

def numOrNull : Val → Bool
  | .null => true
  | .num _ => true
  | _ => false

/-- a row: the symbolic columns of the extracted formatter bound to cells -/
def env (l : List (String × Val)) : String → Val := fun n => (l.lookup n).getD .null

def boolOrNull : Val → Bool
  | .null => true
  | .bool _ => true
  | _ => false

/-- the two dialects whose formatters are extracted -/
def Dialect (d : String) : Prop := d = "sqlite" ∨ d = "postgres"

/-- an optional bool as a cell -/
def ob : Option Bool → Val
  | none => .null
  | some b => .bool b

theorem boolOrNull_cases {c : Val} (h : boolOrNull c = true) : c = .null ∨ c = .bool true ∨ c = .bool false := by
  cases c with
  | null => exact Or.inl rfl
  | bool b => cases b <;> simp
  | num q => simp [boolOrNull] at h
  | str s => simp [boolOrNull] at h

theorem numOrNull_cases {x : Val} (h : numOrNull x = true) : x = .null ∨ ∃ q, x = .num q := by
  cases x with
  | null => exact Or.inl rfl
  | num q => exact Or.inr ⟨q, rfl⟩
  | bool b => simp [numOrNull] at h
  | str s => simp [numOrNull] at h

theorem fmt_max_closed (d : String) (hd : Dialect d) (x y : Rat) :
    evalSql3 (Gen.formatter d "maximum") (env [("x", .num x), ("y", .num y)]) =
    (match (some (!decide (x < y)) : Option Bool) with
     | some true => Val.num x
     | _ => match truth (not3 (.bool (!decide (x < y)))) with | some true => .num y | _ => .null) := by
  rcases hd with rfl | rfl <;> rfl

theorem fmt_min_closed (d : String) (hd : Dialect d) (x y : Rat) :
    evalSql3 (Gen.formatter d "minimum") (env [("x", .num x), ("y", .num y)]) =
    (match (some (!decide (y < x)) : Option Bool) with
     | some true => Val.num x
     | _ => match truth (not3 (.bool (!decide (y < x)))) with | some true => .num y | _ => .null) := by
  rcases hd with rfl | rfl <;> rfl

theorem fmt_fmax_closed (d : String) (hd : Dialect d) (x y : Rat) :
    evalSql3 (Gen.formatter d "fmax") (env [("x", .num x), ("y", .num y)]) =
    (match truth (or3 (.bool false) (.bool (!decide (x < y)))) with
     | some true => Val.num x
     | _ => match truth (or3 (.bool false) (.bool (!decide (y < x)))) with | some true => .num y | _ => .null) := by
  rcases hd with rfl | rfl <;> rfl

theorem fmt_fmin_closed (d : String) (hd : Dialect d) (x y : Rat) :
    evalSql3 (Gen.formatter d "fmin") (env [("x", .num x), ("y", .num y)]) =
    (match truth (or3 (.bool false) (.bool (!decide (y < x)))) with
     | some true => Val.num x
     | _ => match truth (or3 (.bool false) (.bool (!decide (x < y)))) with | some true => .num y | _ => .null) := by
  rcases hd with rfl | rfl <;> rfl

theorem coalesce2 (x y : Val) : Sql3.coalesce [x, y] = (if x.isNull then y else x) := by
  cases x <;> cases y <;> rfl

theorem eqv_valEq (a b : Val) : eqv a b = Theta.valEq a b := by cases a <;> cases b <;> rfl

theorem cmp3_eq (cop : CmpOp) (f : Val → Val → Bool) (h : ∀ a b, cmpVal cop a b = f a b) (x y : Val) :
    Sql3.cmp3 cop x y = ThetaSql.cmp3 f x y := by
  unfold Sql3.cmp3 ThetaSql.cmp3; rw [h]

theorem ob_of_boolOrNull {c : Val} (h : boolOrNull c = true) : ∃ o, c = ob o := by
  rcases boolOrNull_cases h with rfl | rfl | rfl
  · exact ⟨none, rfl⟩
  · exact ⟨some true, rfl⟩
  · exact ⟨some false, rfl⟩

theorem and3_pair (a b : Option Bool) : Sql3.and3 (ob a) (ob b) = ThetaSql.and3 [ob a, ob b] := by
  rcases a with _ | _ | _ <;> rcases b with _ | _ | _ <;> rfl

theorem or3_pair (a b : Option Bool) : Sql3.or3 (ob a) (ob b) = ThetaSql.or3 [ob a, ob b] := by
  rcases a with _ | _ | _ <;> rcases b with _ | _ | _ <;> rfl

theorem and3_triple (a b c : Option Bool) :
    Sql3.and3 (Sql3.and3 (ob a) (ob b)) (ob c) = ThetaSql.and3 [ob a, ob b, ob c] := by
  rcases a with _ | _ | _ <;> rcases b with _ | _ | _ <;> rcases c with _ | _ | _ <;> rfl

theorem or3_triple (a b c : Option Bool) :
    Sql3.or3 (Sql3.or3 (ob a) (ob b)) (ob c) = ThetaSql.or3 [ob a, ob b, ob c] := by
  rcases a with _ | _ | _ <;> rcases b with _ | _ | _ <;> rcases c with _ | _ | _ <;> rfl

end DAVerif
