import DAVerif.Proofs.BuilderReach
import DAVerif.Solutions.RankToAverage
import DAVerif.Solutions.Locf
import DAVerif.Solutions.Replicate
import DAVerif.Solutions.MultiColumnMap
/-!
Which node trees the modelled solution helpers build (C21): every builder call of a helper that succeeds adds
exactly its own node (no merge, no simplification applies to these chains), and the helper's `assert`s together
with the builders' checks yield the side conditions the semantic proofs use.
-/
namespace DAVerif.Sol
open DAVerif DAVerif.Solutions Rules26

set_option linter.unusedSimpArgs false

theorem asrt_bind_ok {α : Type} {c : Bool} {f : Unit → Except Err α} {q : α} :
    (asrt c >>= f) = .ok q ↔ c = true ∧ f () = .ok q := ok?_bind_ok

/-- the node is neither an `order_rows` without limit (skipped by the builders) -/
def Plain (p : Ops) : Prop := strip p = p

theorem plain_table (n : String) (cs : List String) : Plain (.table n cs) := rfl
theorem plain_extend (s : Ops) (o : Assign) (a b c : List String) (w : Bool) : Plain (.extend s o a b c w) := rfl
theorem plain_join (a b : Ops) (x y : List String) (j : JoinType) : Plain (.join a b x y j) := rfl
theorem plain_selectRows (s : Ops) (e : Term) : Plain (.selectRows s e) := rfl
theorem plain_selectCols (s : Ops) (e : List String) : Plain (.selectCols s e) := rfl
theorem plain_convert (s : Ops) (rm : RecMap) : Plain (.convert s rm) := rfl

/-- the checks `extend_parsed_` makes on its arguments, read off -/
theorem extendPre_ok {cols : List String} {ops : Assign} {partition : PartArg} {order reverse : List String}
    (h : extendPre cols ops partition order reverse = .ok ()) :
    (∀ c ∈ partCols partition, c ∉ order) := by
  simp only [extendPre, workColGroup, bind_assoc, ok?_bind_ok] at h
  exact disjoint_iff.mp h.2.2.2.2.2.2.2.1

/-- **A successful `extend` call that cannot merge adds its own node.**  `self` is not a skipped `order_rows`, and
if it is an extend node the merge condition of `extend_parsed_` (compatible partition, same windowing, same ordering)
fails. -/
theorem build_extend_nomerge {self q : Ops} {ops : Assign} {partition : PartArg} {order reverse : List String}
    (hne : ops.isEmpty = false) (hs : Plain self)
    (hnm : ∀ src ops1 p1 o1 r1 w1, self = .extend src ops1 p1 o1 r1 w1 →
      mergeCond p1 o1 r1 w1 ops partition order reverse = false)
    (h : build self (.extend ops partition order reverse) = .ok q) :
    q = .extend self ops (partCols partition) order reverse (windowedSituation ops partition order) ∧
    ExtOK self.cols ops (partCols partition) order reverse (windowedSituation ops partition order) ∧
    (∀ c ∈ partCols partition, c ∉ order) := by
  simp only [build, bind_ok] at h
  obtain ⟨parsed, hp, h⟩ := h
  obtain ⟨rfl, _⟩ := parseAssignments_ok hp
  rw [extendParsed_strip _ _ _ _ _ hne, bind_ok] at h
  obtain ⟨u, hpre, h⟩ := h
  rw [hs] at h
  have hmk : mkExtend self parsed partition order reverse = .ok q := by
    cases self with
    | extend src ops1 p1 o1 r1 w1 =>
      have := hnm src ops1 p1 o1 r1 w1 rfl
      simp only [extendTop, extendMerge, this, Bool.false_eq_true, if_false] at h
      exact h
    | _ => exact h
  obtain ⟨e, hok⟩ := mkExtend_ok hmk
  exact ⟨e, hok, extendPre_ok (by cases u; exact hpre)⟩

theorem build_extend_plain {self q : Ops} {ops : Assign} {partition : PartArg} {order reverse : List String}
    (hne : ops.isEmpty = false) (hs : Plain self)
    (hnm : ∀ src ops1 p1 o1 r1 w1, self = .extend src ops1 p1 o1 r1 w1 → (order == o1) = false)
    (h : build self (.extend ops partition order reverse) = .ok q) :
    q = .extend self ops (partCols partition) order reverse (windowedSituation ops partition order) ∧
    ExtOK self.cols ops (partCols partition) order reverse (windowedSituation ops partition order) ∧
    (∀ c ∈ partCols partition, c ∉ order) :=
  build_extend_nomerge hne hs (by
    intro src ops1 p1 o1 r1 w1 e
    simp only [mergeCond, hnm src ops1 p1 o1 r1 w1 e, Bool.and_false, Bool.false_and]) h

theorem build_dropCols_plain {self q : Ops} {cs : List String} (hne : cs.isEmpty = false) (hs : Plain self)
    (h : build self (.dropCols cs) = .ok q) : q = .dropCols self cs ∧ (∀ c ∈ cs, c ∈ self.cols) := by
  simp only [build, hne, Bool.false_eq_true, if_false] at h
  rw [dropColsB_eq, hs] at h
  simp only [mkDropCols, ok?_bind_ok, pure_ok, subset_iff] at h
  exact ⟨h.2.2.symm, h.1⟩

theorem appendNew_single {xs : List String} {c : String} (h : c ∉ xs) : appendNew xs [c] = xs ++ [c] := by
  simp [appendNew, h]

theorem appendNew_single_mem {xs : List String} {c : String} (h : c ∈ xs) : appendNew xs [c] = xs := by
  simp [appendNew, h]

theorem append_single_ne (xs : List String) (c : String) : (xs ++ [c] == xs) = false := by
  have : xs ++ [c] ≠ xs := by
    intro e
    have := congrArg List.length e
    simp at this
  simpa using this

theorem nil_ne_append_single (xs : List String) (c : String) : (([] : List String) == xs ++ [c]) = false := by
  have : ([] : List String) ≠ xs ++ [c] := by
    intro e
    have := congrArg List.length e
    simp at this
  simpa using this

/-! ### rank_to_average -/

/-- the tree `rank_to_average` builds over `d` -/
def rankTree (d : Ops) (orderBy part : List String) (rankCol tbCol : String) : Ops :=
  .dropCols
    (.extend
      (.extend
        (.extend d [(tbCol, fcall0 "_row_number")] [] orderBy [] true)
        [(rankCol, mcall "cumsum" (.value (.flt 1)))] part (orderBy ++ [tbCol]) [] true)
      [(rankCol, mcall "mean" (.col rankCol))] (part ++ orderBy) [] [] true)
    [tbCol]

/-- side conditions established by the helper's assertion and the builders' checks -/
structure RankOK (cols orderBy part : List String) (rankCol tbCol : String) : Prop where
  nodup : cols.Nodup
  rank_new : rankCol ∉ cols
  tb_new : tbCol ∉ cols
  rank_ne_tb : rankCol ≠ tbCol
  order_sub : ∀ c ∈ orderBy, c ∈ cols
  part_sub : ∀ c ∈ part, c ∈ cols
  order_ne : orderBy ≠ []

theorem windowed_rownum (tbCol : String) (pa : PartArg) (o : List String) :
    windowedSituation [(tbCol, fcall0 "_row_number")] pa o = true := by
  have : Gen.impliesWindowed.contains "_row_number" = true := by decide
  simp only [windowedSituation, fcall0, List.any_cons, this, Bool.true_or]

theorem windowed_of_order {ops : Assign} {pa : PartArg} {o : List String} (h : o ≠ []) :
    windowedSituation ops pa o = true := by
  cases o with
  | nil => exact absurd rfl h
  | cons a l => simp [windowedSituation]

/-- **The tree built by `rank_to_average`** over a table description (or any view that is neither an `order_rows`
without limit nor an `extend` with the same ordering), with its side conditions. -/
theorem rankToAverage_ok {d p : Ops} {orderBy : List String} {partitionBy : Option (List String)}
    {rankCol tbCol : String} (hd : Plain d)
    (hdm : ∀ src ops1 p1 o1 r1 w1, d = .extend src ops1 p1 o1 r1 w1 → (orderBy == o1) = false)
    (h : rankToAverage d orderBy partitionBy rankCol tbCol = .ok p) :
    p = rankTree d orderBy (partitionBy.getD []) rankCol tbCol ∧
    RankOK d.cols orderBy (partitionBy.getD []) rankCol tbCol := by
  simp only [rankToAverage, buildChain, rankToAverageSteps, List.foldlM, bind_ok, pure_ok] at h
  obtain ⟨u, hnd, q1, h1, q2, h2, q3, h3, q4, h4, rfl⟩ := h
  have hnd := nodupB_iff.mp (ok?_ok.mp hnd)
  have hnd' : rankCol ∉ tbCol :: d.cols ∧ tbCol ∉ d.cols ∧ d.cols.Nodup := by
    simpa [List.nodup_cons] using hnd
  obtain ⟨hrk, htb, hcn⟩ := hnd'
  have hrk1 : rankCol ≠ tbCol := fun e => hrk (e ▸ List.mem_cons_self)
  have hrk2 : rankCol ∉ d.cols := fun e => hrk (List.mem_cons_of_mem _ e)
  obtain ⟨e1, ok1, _⟩ := build_extend_plain rfl hd hdm h1
  subst e1
  obtain ⟨e2, ok2, pre2⟩ := build_extend_plain rfl (plain_extend ..)
    (by intro src ops1 p1 o1 r1 w1 e; cases e; exact append_single_ne _ _) h2
  subst e2
  obtain ⟨e3, ok3, _⟩ := build_extend_plain rfl (plain_extend ..)
    (by intro src ops1 p1 o1 r1 w1 e; cases e; exact nil_ne_append_single _ _) h3
  subst e3
  obtain ⟨e4, _⟩ := build_dropCols_plain rfl (plain_extend ..) h4
  subst e4
  -- the windowed flags
  have w1 : windowedSituation [(tbCol, fcall0 "_row_number")] .none orderBy = true := windowed_rownum ..
  have hone : orderBy ≠ [] := by
    intro e
    have := ok1.2.2.2.2.2.2 w1 _ List.mem_cons_self
    subst e
    have hio : "_row_number" ∈ Gen.impliesOrdered := by decide
    simp [windowOpOk, fcall0] at this
    exact this.2 hio
  have w2 : windowedSituation [(rankCol, mcall "cumsum" (.value (.flt 1)))] (.cols (partitionBy.getD []))
      (orderBy ++ [tbCol]) = true := windowed_of_order (by simp)
  have w3 : windowedSituation [(rankCol, mcall "mean" (.col rankCol))]
      (.cols (partitionBy.getD [] ++ orderBy)) [] = true := by
    cases orderBy with
    | nil => exact absurd rfl hone
    | cons a l => simp [windowedSituation]
  refine ⟨?_, hcn, hrk2, htb, hrk1, ok1.2.2.1, ?_, hone⟩
  · simp only [rankTree, partCols, w1, w2, w3]
  · intro c hc
    have h1 : c ∈ appendNew d.cols [tbCol] := ok2.2.1 c hc
    rw [appendNew_single htb] at h1
    have h2 : c ∉ orderBy ++ [tbCol] := pre2 c hc
    simp only [List.mem_append, List.mem_singleton, not_or] at h1 h2
    rcases h1 with h1 | h1
    · exact h1
    · exact absurd h1 h2.2

/-! ### generic successful calls: natural_join, select_rows, select_columns -/

theorem build_join_plain {self b q : Ops} {onA onB : List String} {jt : String} {check : Bool} (hs : Plain self)
    (h : build self (.join b onA onB jt check) = .ok q) :
    ∃ t, JoinType.parse jt = some t ∧ q = .join self b onA onB t ∧
      (∀ c ∈ onA, c ∈ self.cols) ∧ (∀ c ∈ onB, c ∈ b.cols) := by
  simp only [build] at h
  rw [joinB_eq, hs] at h
  simp only [mkJoin, ok?_bind_ok, subset_iff] at h
  obtain ⟨_, _, ha, hb, h⟩ := h
  have h' : (match JoinType.parse jt with
      | none => (throw Err.keyError : Except Err Ops)
      | some t => do
        ok? (!(t == JoinType.cross && !onA.isEmpty)) Err.valueError
        pure (self.join b onA onB t)) = Except.ok q := by
    cases check with
    | true =>
      simp only [if_true, ok?_bind_ok] at h
      exact h.2
    | false =>
      simp only [Bool.false_eq_true, if_false] at h
      exact h
  cases hp : JoinType.parse jt with
  | none => rw [hp] at h'; cases h'
  | some t =>
    rw [hp] at h'
    simp only [ok?_bind_ok, pure_ok] at h'
    exact ⟨t, rfl, h'.2.symm, ha, hb⟩

theorem build_selectRows_plain {self q : Ops} {e : Term} (hs : Plain self)
    (h : build self (.selectRows (some e)) = .ok q) :
    q = .selectRows self e ∧ (∀ c ∈ Term.colsRaw e, c ∈ self.cols) := by
  simp only [build, bind_ok] at h
  obtain ⟨parsed, hp, h⟩ := h
  rw [selectRowsB_eq, hs] at h
  rw [parseAssignments_eq] at hp
  refine ⟨(Except.ok.inj h).symm, ?_⟩
  split at hp
  · split at hp
    · rename_i h2
      intro c hc
      exact (of_decide_eq_true h2) c (by simp [usedBy, hc])
    · cases hp
  · cases hp

theorem build_selectCols_table {n : String} {cs sel : List String} {q : Ops}
    (h : build (.table n cs) (.selectCols sel) = .ok q) :
    q = .selectCols (.table n cs) sel ∧ (∀ c ∈ sel, c ∈ cs) ∧ sel.Nodup ∧ sel ≠ [] := by
  simp only [build, bind_ok, ok?_ok, selectColsB, mkSelectCols, subset_iff, nodupB_iff, pure_ok, Ops.cols] at h
  obtain ⟨_, h0, _, _, _, h1, _, h2, rfl⟩ := h
  refine ⟨rfl, h1, h2, ?_⟩
  intro e; subst e; simp at h0

/-! ### replicate_rows_query -/

/-- the tree `replicate_rows_query` builds -/
def repTree (d : Ops) (countCol seqCol joinTemp : String) : Ops :=
  .dropCols
    (.selectRows
      (.join (.extend d [(powerCol, powerExpr countCol)] [] [] [] false)
        (.table joinTemp [powerCol, seqCol]) [powerCol] [powerCol] .inner)
      (binop "<" (.col seqCol) (.col countCol)))
    [powerCol]

structure RepOK (cols : List String) (countCol seqCol : String) : Prop where
  count_mem : countCol ∈ cols
  seq_new : seqCol ∉ cols
  power_new : powerCol ∉ cols
  power_ne_count : powerCol ≠ countCol
  power_ne_seq : powerCol ≠ seqCol

theorem not_windowed_power (countCol : String) :
    windowedSituation [(powerCol, powerExpr countCol)] .none [] = false := by
  have : Gen.impliesWindowed.contains "concat" = false := by decide
  simp only [windowedSituation, powerExpr, mcall, List.any_cons, this, List.any_nil, List.isEmpty_nil]
  rfl

theorem parse_inner : JoinType.parse "inner" = some .inner := by decide +kernel
theorem parse_left : JoinType.parse "left" = some .left := by decide +kernel

/-- **The tree built by `replicate_rows_query`**, the count frame it returns, and the side conditions. -/
theorem replicate_ok {powerOf : Nat → Nat} {d p : Ops} {countCol seqCol joinTemp : String} {maxCount : Nat}
    {frame : Table} (h : replicateRowsQuery powerOf d countCol seqCol joinTemp maxCount = .ok (p, frame)) :
    (∃ n cs, d = .table n cs) ∧ p = repTree d countCol seqCol joinTemp ∧
    frame = countFrame seqCol (powerOf maxCount) ∧ RepOK d.cols countCol seqCol ∧ 0 < maxCount := by
  simp only [replicateRowsQuery, buildChain, replicateSteps, List.drop_succ_cons, List.drop_zero, List.foldlM,
    bind_ok, pure_ok, asrt, ok?_ok, mkTable] at h
  obtain ⟨_, hdt, _, hcm, _, hsn, _, hmx, _, hpc, _, hpn, o1, h1, b, ⟨_, _, _, hbn, hb⟩, q, ⟨q2, h2, q3, h3, q4, h4, rfl⟩, hq⟩ := h
  obtain ⟨rfl, rfl⟩ := Prod.mk.inj hq
  subst hb
  have hdtab : ∃ n cs, d = .table n cs := by
    cases d <;> simp [isTable] at hdt
    exact ⟨_, _, rfl⟩
  obtain ⟨n, cs, rfl⟩ := hdtab
  obtain ⟨e1, _, _⟩ := build_extend_plain rfl (plain_table ..) (by intro _ _ _ _ _ _ e; cases e) h1
  subst e1
  obtain ⟨t, ht, e2, _, _⟩ := build_join_plain (plain_extend ..) h2
  rw [parse_inner] at ht
  cases ht
  subst e2
  obtain ⟨e3, _⟩ := build_selectRows_plain (plain_join ..) h3
  subst e3
  obtain ⟨e4, _⟩ := build_dropCols_plain rfl (plain_selectRows ..) h4
  subst e4
  have hbn' := nodupB_iff.mp hbn
  simp only [List.nodup_cons, List.mem_singleton, List.not_mem_nil, not_false_eq_true, List.nodup_nil,
    and_true] at hbn'
  refine ⟨⟨n, cs, rfl⟩, ?_, rfl, ⟨?_, ?_, ?_, ?_, hbn'⟩, ?_⟩
  · simp only [repTree, partCols, not_windowed_power]
  · simpa using hcm
  · simpa using hsn
  · simpa using hpn
  · simpa using hpc
  · simpa using hmx

theorem build_selectCols_selectRows {src q : Ops} {e : Term} {sel : List String}
    (h : build (.selectRows src e) (.selectCols sel) = .ok q) :
    q = .selectCols (.selectRows src e) sel ∧ (∀ c ∈ sel, c ∈ src.cols) ∧ sel.Nodup := by
  simp only [build, bind_ok, ok?_ok, selectColsB, mkSelectCols, subset_iff, nodupB_iff, pure_ok, Ops.cols] at h
  obtain ⟨_, _, _, _, _, h1, _, h2, rfl⟩ := h
  exact ⟨rfl, h1, h2⟩

/-! ### last_observed_carried_forward -/

/-- the text `v.is_null().where(0, 1)` as parsed -/
def useTerm (v : String) : Term := mcall "where" (mcall "is_null" (.col v)) [.value (.int 0), .value (.int 1)]

/-- `d_marked` -/
def locfMarked (d : Ops) (ob part : List String) (v use rk tb : String) : Ops :=
  .extend
    (.extend
      (.extend d [(use, useTerm v)] [] [] [] false)
      [(tb, fcall0 "_row_number")] [] (part ++ ob) [] true)
    [(rk, mcall "cumsum" (.col use))] part (ob ++ [tb]) [] true

/-- the tree `last_observed_carried_forward` builds over `d` -/
def locfTree (d : Ops) (ob part : List String) (v use rk tb : String) : Ops :=
  .dropCols
    (.join (locfMarked d ob part v use rk tb)
      (.selectCols (.selectRows (locfMarked d ob part v use rk tb) (binop "==" (.col use) (.value (.int 1))))
        (part ++ [rk, v]))
      (part ++ [rk]) (part ++ [rk]) .left)
    [use, rk, tb]

structure LocfOK (cols ob part : List String) (v use rk tb : String) : Prop where
  nodup : cols.Nodup
  use_new : use ∉ cols
  rk_new : rk ∉ cols
  tb_new : tb ∉ cols
  use_ne_rk : use ≠ rk
  use_ne_tb : use ≠ tb
  rk_ne_tb : rk ≠ tb
  v_mem : v ∈ cols
  po_ne : part ++ ob ≠ []

theorem not_windowed_use (v use : String) : windowedSituation [(use, useTerm v)] .none [] = false := by
  have : Gen.impliesWindowed.contains "where" = false := by decide
  simp only [windowedSituation, useTerm, mcall, List.any_cons, this, List.any_nil, List.isEmpty_nil]
  rfl

/-- **The tree built by `last_observed_carried_forward`** over a table description, with its side conditions. -/
theorem locf_ok {n : String} {cs : List String} {p : Ops} {orderBy : List String}
    {partitionBy : Option (List String)} {v use rk tb : String}
    (h : lastObservedCarriedForward (.table n cs) orderBy partitionBy v use rk tb = .ok p) :
    p = locfTree (.table n cs) orderBy (partitionBy.getD []) v use rk tb ∧
    LocfOK cs orderBy (partitionBy.getD []) v use rk tb := by
  simp only [lastObservedCarriedForward, buildChain, locfMarkedSteps, List.foldlM, bind_ok, pure_ok] at h
  obtain ⟨u, hnd, m, ⟨q1, h1, q2, h2, q3, h3, rfl⟩, b, ⟨s1, hs1, s2, hs2, rfl⟩, j1, hj, j2, hdrop, rfl⟩ := h
  have hnd := nodupB_iff.mp (ok?_ok.mp hnd)
  have hnd' : use ∉ rk :: tb :: cs ∧ rk ∉ tb :: cs ∧ tb ∉ cs ∧ cs.Nodup := by
    simpa [List.nodup_cons, Ops.cols] using hnd
  obtain ⟨hu, hr, ht, hcn⟩ := hnd'
  obtain ⟨e1, ok1, _⟩ := build_extend_plain rfl (plain_table ..) (by intro _ _ _ _ _ _ e; cases e) h1
  subst e1
  have w1 : windowedSituation
      [(use, mcall "where" (mcall "is_null" (Term.col v)) [Term.value (Lit.int 0), Term.value (Lit.int 1)])]
      .none [] = false := not_windowed_use v use
  have hiw : impliesWindowed [(tb, fcall0 "_row_number")] = true := by
    have : Gen.impliesWindowed.contains "_row_number" = true := by decide
    simp only [impliesWindowed, fcall0, List.any_cons, this, Bool.true_or]
  obtain ⟨e2, ok2, _⟩ := build_extend_nomerge rfl (plain_extend ..) (by
    intro src ops1 p1 o1 r1 w1' e
    cases e
    simp [mergeCond, w1, hiw]) h2
  subst e2
  have w2 : windowedSituation [(tb, fcall0 "_row_number")] .none (partitionBy.getD [] ++ orderBy) = true :=
    windowed_rownum ..
  obtain ⟨e3, ok3, _⟩ := build_extend_nomerge rfl (plain_extend ..) (by
    intro src ops1 p1 o1 r1 w1' e
    cases e
    simp only [mergeCond, compatB, partCols]
    cases hp : partitionBy.getD [] with
    | nil =>
      have := append_single_ne orderBy tb
      simp [this]
    | cons a l => simp) h3
  subst e3
  have w3 : windowedSituation [(rk, mcall "cumsum" (.col use))] (.cols (partitionBy.getD [])) (orderBy ++ [tb]) = true :=
    windowed_of_order (by simp)
  obtain ⟨e4, _⟩ := build_selectRows_plain (plain_extend ..) hs1
  subst e4
  obtain ⟨e5, _, _⟩ := build_selectCols_selectRows hs2
  subst e5
  obtain ⟨t, ht', e6, _, _⟩ := build_join_plain (plain_extend ..) hj
  rw [parse_left] at ht'
  cases ht'
  subst e6
  obtain ⟨e7, _⟩ := build_dropCols_plain rfl (plain_join ..) hdrop
  subst e7
  have hpo : partitionBy.getD [] ++ orderBy ≠ [] := by
    intro e
    have := ok2.2.2.2.2.2.2 w2 _ List.mem_cons_self
    rw [e] at this
    have hio : "_row_number" ∈ Gen.impliesOrdered := by decide
    simp [windowOpOk, fcall0] at this
    exact this.2 hio
  have hv : v ∈ cs := ok1.1 v (by simp [usedBy, useTerm, mcall, Term.colsRaw, Term.colsRawList])
  refine ⟨?_, hcn, ?_, ?_, ht, ?_, ?_, ?_, hv, hpo⟩
  · simp only [locfTree, locfMarked, partCols, w1, w2, w3, useTerm]
  · exact fun e => hu (List.mem_cons_of_mem _ (List.mem_cons_of_mem _ e))
  · exact fun e => hr (List.mem_cons_of_mem _ e)
  · exact fun e => hu (e ▸ List.mem_cons_self)
  · exact fun e => hu (e ▸ List.mem_cons_of_mem _ List.mem_cons_self)
  · exact fun e => hr (e ▸ List.mem_cons_self)

/-! ### def_multi_column_map -/

theorem build_convert_plain {self q : Ops} {rm : RecMap} (hs : Plain self)
    (h : build self (.convert (some rm)) = .ok q) :
    q = .convert self rm ∧ (∀ c ∈ rm.needed, c ∈ self.cols) := by
  simp only [build] at h
  rw [convertB_eq, hs] at h
  simp only [mkConvert, ok?_bind_ok, pure_ok, subset_iff] at h
  exact ⟨h.2.2.2.symm, h.1⟩

theorem build_rename_plain {self q : Ops} {m : List (String × String)} (hne : m.isEmpty = false) (hs : Plain self)
    (h : build self (.rename m) = .ok q) : q = .rename self m ∧ (Ops.rename self m).cols.Nodup := by
  simp only [build, hne, Bool.false_eq_true, if_false] at h
  rw [renameB_eq, hs] at h
  simp only [mkRename, ok?_bind_ok, pure_ok, nodupB_iff] at h
  exact ⟨h.2.2.2.symm, h.2.2.1⟩

/-- the `coalesce` step, present when a coalesce value is given -/
def mcmCoalesce (o : Ops) (mk : String) : Option Lit → Ops
  | none => o
  | some cv => .extend o [(mk, mcall "coalesce" (.col mk) [.value cv])] [] [] [] false

/-- the final renaming, present when new names are given -/
def mcmRename (o : Ops) (cmap : List String) : Option (List String) → Ops
  | none => o
  | some back => .rename o (back.zip cmap)

/-- the tree `def_multi_column_map` builds -/
def mcmTree (d m : Ops) (keys cmap : List String) (nk vk mk : String) (cv : Option Lit)
    (back : Option (List String)) : Ops :=
  mcmRename
    (.convert
      (mcmCoalesce
        (.join (.convert (.selectCols d (keys ++ cmap)) (unpivotRecMap keys nk vk cmap))
          (.selectCols m [nk, vk, mk]) [nk, vk] [nk, vk] .left)
        mk cv)
      (pivotRecMap keys nk mk cmap))
    cmap back

structure McmOK (dcols mcols keys cmap : List String) (nk vk mk : String) (cv : Option Lit)
    (back : Option (List String)) : Prop where
  keys_ne : keys ≠ []
  two_cols : 1 < cmap.length
  nodup_pre : (keys ++ cmap).Nodup
  nodup_mid : (keys ++ [nk, vk, mk]).Nodup
  nodup_to : (keys ++ [nk, vk] ++ cmap).Nodup
  nodup_back : (keys ++ [nk, mk] ++ cmap).Nodup
  nodup_post : (keys ++ back.getD cmap).Nodup
  back_len : ∀ b, back = some b → b.length = cmap.length
  d_sub : ∀ c ∈ keys ++ cmap, c ∈ dcols
  m_sub : ∀ c ∈ [nk, vk, mk], c ∈ mcols
  cv_ok : ∀ v, cv = some v → coalesceLitOk v = true

theorem not_windowed_coalesce (mk : String) (v : Lit) :
    windowedSituation [(mk, mcall "coalesce" (.col mk) [.value v])] .none [] = false := by
  have : Gen.impliesWindowed.contains "coalesce" = false := by decide
  simp only [windowedSituation, mcall, List.any_cons, this, List.any_nil, List.isEmpty_nil]
  rfl

/-- the part of `def_multi_column_map` up to the join -/
theorem mcm_prefix {dn mn : String} {dcols mcols keys cmap : List String} {nk vk mk : String} {q1 q2 b o2 : Ops}
    (h1 : build (.table dn dcols) (.selectCols (keys ++ cmap)) = .ok q1)
    (h2 : build q1 (.convert (some (unpivotRecMap keys nk vk cmap))) = .ok q2)
    (hb : build (.table mn mcols) (.selectCols [nk, vk, mk]) = .ok b)
    (hj : build q2 (.join b [nk, vk] [nk, vk] "left" false) = .ok o2) :
    o2 = .join (.convert (.selectCols (.table dn dcols) (keys ++ cmap)) (unpivotRecMap keys nk vk cmap))
      (.selectCols (.table mn mcols) [nk, vk, mk]) [nk, vk] [nk, vk] .left ∧
    (∀ c ∈ keys ++ cmap, c ∈ dcols) ∧ (∀ c ∈ [nk, vk, mk], c ∈ mcols) := by
  obtain ⟨e1, hd1, _, _⟩ := build_selectCols_table h1
  subst e1
  obtain ⟨e2, _⟩ := build_convert_plain (plain_selectCols ..) h2
  subst e2
  obtain ⟨eb, hmsub, _, _⟩ := build_selectCols_table hb
  subst eb
  obtain ⟨t, ht, ej, _, _⟩ := build_join_plain (plain_convert ..) hj
  rw [parse_left] at ht
  cases ht
  exact ⟨ej, hd1, hmsub⟩

theorem mcm_rename_step {o4 p : Ops} {cmap : List String} {back : Option (List String)} (ho : Plain o4)
    (htwo : 1 < cmap.length) (hlen : ∀ b', back = some b' → b'.length = cmap.length)
    (h5 : (match back with | none => (pure o4 : Except Err Ops) | some b' => build o4 (.rename (b'.zip cmap))) = .ok p) :
    p = mcmRename o4 cmap back := by
  cases back with
  | none =>
    simp only [pure_ok] at h5
    rw [← h5]; rfl
  | some b' =>
    have hne : (b'.zip cmap).isEmpty = false := by
      have hl := hlen b' rfl
      cases b' with
      | nil => simp at hl; omega
      | cons x xs =>
        cases cmap with
        | nil => simp at htwo
        | cons y ys => rfl
    obtain ⟨e5, _⟩ := build_rename_plain hne ho h5
    rw [e5]; rfl

/-- **The tree built by `def_multi_column_map`** over table descriptions, with its side conditions
(numeric / boolean coalesce values). -/
theorem mcm_ok {dn mn : String} {dcols mcols keys cmap : List String} {nk vk mk : String} {cv : Option Lit}
    {back : Option (List String)} {p : Ops} (hcv : ∀ v, cv = some v → coalesceLitOk v = true)
    (h : defMultiColumnMap (.table dn dcols) (.table mn mcols) keys cmap nk vk mk cv back = .ok p) :
    p = mcmTree (.table dn dcols) (.table mn mcols) keys cmap nk vk mk cv back ∧
    McmOK dcols mcols keys cmap nk vk mk cv back := by
  unfold defMultiColumnMap at h
  simp only [bind_ok, asrt, ok?_ok] at h
  obtain ⟨_, hk, _, hcm, h⟩ := h
  cases back with
  | none =>
    cases cv with
    | none =>
      simp only [bind_ok, pure_ok, asrt, ok?_ok, pivotSpecChecks, buildChain, List.foldlM] at h
      obtain ⟨_, hpre, _, hmid, _, hpost, _, ⟨_, hto, _, _, htwo⟩, _, ⟨_, hbk, _, _, _⟩,
        o1, ⟨q1, h1, q2, h2, rfl⟩, b, hb, o2, hj, o3, h3, o4, h4, h5⟩ := h
      subst h3
      obtain ⟨e2, hd, hm⟩ := mcm_prefix h1 h2 hb hj
      subst e2
      obtain ⟨e4, _⟩ := build_convert_plain (plain_join ..) h4
      subst e4
      refine ⟨h5.symm, ?_⟩
      exact ⟨by simpa using hk, by simpa using htwo, nodupB_iff.mp hpre, nodupB_iff.mp hmid, nodupB_iff.mp hto,
        nodupB_iff.mp hbk, nodupB_iff.mp hpost, (by intro b' e; cases e), hd, hm, hcv⟩
    | some v =>
      simp only [bind_ok, pure_ok, asrt, ok?_ok, pivotSpecChecks, buildChain, List.foldlM, hcv v rfl, if_true] at h
      obtain ⟨_, hpre, _, hmid, _, hpost, _, ⟨_, hto, _, _, htwo⟩, _, ⟨_, hbk, _, _, _⟩,
        o1, ⟨q1, h1, q2, h2, rfl⟩, b, hb, o2, hj, o3, h3, o4, h4, h5⟩ := h
      obtain ⟨e2, hd, hm⟩ := mcm_prefix h1 h2 hb hj
      subst e2
      obtain ⟨e3, _, _⟩ := build_extend_plain rfl (plain_join ..) (by intro _ _ _ _ _ _ e; cases e) h3
      subst e3
      obtain ⟨e4, _⟩ := build_convert_plain (plain_extend ..) h4
      subst e4
      refine ⟨?_, ?_⟩
      · rw [← h5]
        simp only [mcmTree, mcmRename, mcmCoalesce, partCols, not_windowed_coalesce]
      · exact ⟨by simpa using hk, by simpa using htwo, nodupB_iff.mp hpre, nodupB_iff.mp hmid, nodupB_iff.mp hto,
          nodupB_iff.mp hbk, nodupB_iff.mp hpost, (by intro b' e; cases e), hd, hm, hcv⟩
  | some bk =>
    cases cv with
    | none =>
      simp only [bind_ok, pure_ok, asrt, ok?_ok, pivotSpecChecks, buildChain, List.foldlM] at h
      obtain ⟨_, hbl, _, hpre, _, hmid, _, hpost, _, ⟨_, hto, _, _, htwo⟩, _, ⟨_, hbk, _, _, _⟩,
        o1, ⟨q1, h1, q2, h2, rfl⟩, b, hb, o2, hj, o3, h3, o4, h4, h5⟩ := h
      subst h3
      obtain ⟨e2, hd, hm⟩ := mcm_prefix h1 h2 hb hj
      subst e2
      obtain ⟨e4, _⟩ := build_convert_plain (plain_join ..) h4
      subst e4
      have hlen : ∀ b', some bk = some b' → b'.length = cmap.length := by
        intro b' e; cases e; simpa using hbl
      have htwo' : 1 < cmap.length := by simpa using htwo
      refine ⟨mcm_rename_step (plain_convert ..) htwo' hlen h5, ?_⟩
      exact ⟨by simpa using hk, htwo', nodupB_iff.mp hpre, nodupB_iff.mp hmid, nodupB_iff.mp hto,
        nodupB_iff.mp hbk, nodupB_iff.mp hpost, hlen, hd, hm, hcv⟩
    | some v =>
      simp only [bind_ok, pure_ok, asrt, ok?_ok, pivotSpecChecks, buildChain, List.foldlM, hcv v rfl, if_true] at h
      obtain ⟨_, hbl, _, hpre, _, hmid, _, hpost, _, ⟨_, hto, _, _, htwo⟩, _, ⟨_, hbk, _, _, _⟩,
        o1, ⟨q1, h1, q2, h2, rfl⟩, b, hb, o2, hj, o3, h3, o4, h4, h5⟩ := h
      obtain ⟨e2, hd, hm⟩ := mcm_prefix h1 h2 hb hj
      subst e2
      obtain ⟨e3, _, _⟩ := build_extend_plain rfl (plain_join ..) (by intro _ _ _ _ _ _ e; cases e) h3
      subst e3
      obtain ⟨e4, _⟩ := build_convert_plain (plain_extend ..) h4
      subst e4
      have hlen : ∀ b', some bk = some b' → b'.length = cmap.length := by
        intro b' e; cases e; simpa using hbl
      have htwo' : 1 < cmap.length := by simpa using htwo
      refine ⟨?_, ?_⟩
      · rw [mcm_rename_step (plain_convert ..) htwo' hlen h5]
        simp only [mcmTree, mcmCoalesce, partCols, not_windowed_coalesce]
      · exact ⟨by simpa using hk, htwo', nodupB_iff.mp hpre, nodupB_iff.mp hmid, nodupB_iff.mp hto,
          nodupB_iff.mp hbk, nodupB_iff.mp hpost, hlen, hd, hm, hcv⟩

end DAVerif.Sol
