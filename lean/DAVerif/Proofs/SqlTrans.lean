import DAVerif.Proofs.SqlStep
/-!
C01/C02: the frame of the translation proof.

* inversion lemmas for the translation monad `M = StateT Nat (Except Err)` and for `semG`;
* `TransOK` – the induction claim: every successful translation of `p` for a requested column set satisfies the
  invariant `Sound` (for a possibly larger request set);
* `KeyStable` / `ShapeOK` – what `select_columns` / `drop_columns` need from the step they modify (proved here for
  tables and unary steps; a follow-up adds joins and unions);
* steps whose requested terms are row-wise (`stepRows_rowwise`), transport of `filter` / `mergeSort` / `take` along
  "the rows agree on the columns `S`".
-/
namespace DAVerif
namespace Sql
open DAVerif.Ops (usedFromSources unionL)

/-! ### the translation monad -/

theorem bindM_ok {α β : Type} {x : M α} {f : α → M β} {st : Nat} {r : β × Nat} :
    (x >>= f) st = .ok r ↔ ∃ a st1, x st = .ok (a, st1) ∧ f a st1 = .ok r := by
  simp only [bind, StateT.bind]
  cases hx : x st with
  | error e => simp [Except.bind]
  | ok as =>
    obtain ⟨a, s⟩ := as
    simp only [Except.bind, Except.ok.injEq, Prod.mk.injEq]
    constructor
    · intro h; exact ⟨a, s, ⟨rfl, rfl⟩, h⟩
    · rintro ⟨_, _, ⟨rfl, rfl⟩, h⟩; exact h

theorem pureM_ok {α : Type} {a : α} {st : Nat} {r : α × Nat} : (pure a : M α) st = .ok r ↔ r = (a, st) := by
  simp only [pure, StateT.pure, Except.pure, Except.ok.injEq]
  exact eq_comm

theorem fresh_ok {st : Nat} {r : Nat × Nat} : fresh st = .ok r ↔ r = (st, st + 1) := by
  simp only [fresh, bind, StateT.bind, get, getThe, MonadStateOf.get, StateT.get, set, StateT.set, pure, StateT.pure,
    Except.pure, Except.bind, Except.ok.injEq]
  exact eq_comm

theorem guardM_ok {c : Bool} {e : Err} {st : Nat} {r : Unit × Nat} :
    guardM c e st = .ok r ↔ c = true ∧ r = ((), st) := by
  cases c <;> simp [guardM, liftE, ok?, Except.map, eq_comm]

theorem liftE_error_ne_ok {α : Type} {e : Err} {st : Nat} {r : α × Nat} :
    (liftE (.error e) : M α) st ≠ .ok r := by
  simp [liftE, Except.map]

theorem toNear_zero_ne_ok {cfg : SqlCfg} {p : Ops} {u : Option (List String)} {st : Nat} {r : Near × Nat} :
    toNear cfg 0 p u st ≠ .ok r := by
  rw [toNear]; exact liftE_error_ne_ok

/-! ### inversion of `semG` -/

theorem bind_pure_ok {x : Except Err Table} {f : Table → Table} {tp : Table}
    (h : (x >>= fun t => pure (f t)) = Except.ok tp) : ∃ ts, x = .ok ts ∧ tp = f ts := by
  cases x with
  | error e => cases h
  | ok ts => exact ⟨ts, rfl, by cases h; rfl⟩

/-! ### transport along "the rows agree on the columns `S`" -/

theorem map_select_mono {l l' : List Row} {S u : List String}
    (h : l.map (fun r => r.select S) = l'.map (fun r => r.select S)) (hu : ∀ c ∈ u, c ∈ S) :
    l.map (fun r => r.select u) = l'.map (fun r => r.select u) :=
  map_transport h (fun _ _ _ _ hab => Row.select_congr.mpr (fun c hc => Row.get_of_select_eq hab (hu c hc)))

theorem sort_transport {le : Row → Row → Bool} {l l' : List Row} {S : List String}
    (h : l.map (fun r => r.select S) = l'.map (fun r => r.select S))
    (hle : ∀ a b : Row, le a b = le (a.select S) (b.select S)) :
    (l.mergeSort le).map (fun r => r.select S) = (l'.mergeSort le).map (fun r => r.select S) := by
  rw [List.map_mergeSort (s := le) (fun a _ b _ => hle a b), List.map_mergeSort (s := le) (fun a _ b _ => hle a b), h]

theorem mergeSort_true {α : Type} (le : α → α → Bool) (h : ∀ a b, le a b = true) (l : List α) :
    l.mergeSort le = l :=
  List.mergeSort_of_pairwise (List.pairwise_of_forall (fun a b => h a b))

theorem select_map_select (l : List Row) {S u : List String} (hu : ∀ c ∈ u, c ∈ S) :
    (l.map (fun r => r.select S)).map (fun r => r.select u) = l.map (fun r => r.select u) := by
  rw [List.map_map]
  exact List.map_congr_left (fun r _ => Row.select_select hu)

/-! ### row-wise steps -/

/-- value of a SELECT-list entry that is not a window expression -/
def rowVal (Θ : Interp) (r : Row) (k : String) : Option STerm → Val
  | none | some .pass => r.get k
  | some (.ident c) => r.get c
  | some (.expr t _) => evalCell Θ r t
  | some (.coalesce _ c) | some (.qual _ c) => r.get c

def isWinT : Option STerm → Bool
  | some (.expr _ (some _)) => true
  | _ => false

theorem termVal_rowVal (Θ : Interp) (ec : EngineCfg) (idx : List (Row × Nat)) (ri : Row × Nat) (k : String)
    {tm : Option STerm} (h : isWinT tm = false) : termVal Θ ec idx ri k tm = rowVal Θ ri.1 k tm := by
  cases tm with
  | none => rfl
  | some t =>
    cases t with
    | expr e w =>
      cases w with
      | none => rfl
      | some _ => cases h
    | _ => rfl

theorem stepRows_rowwise (Θ : Interp) (ec : EngineCfg) (terms : Option Terms) (sfx : Suffix) (out : List String)
    (rows0 : List Row) (h : ∀ c ∈ out, isWinT (lookT terms c) = false) :
    stepRows Θ ec terms false sfx out rows0 =
      limitOf sfx ((suffixRows Θ ec sfx rows0).map (fun r => out.map (fun c => (c, rowVal Θ r c (lookT terms c))))) := by
  unfold stepRows
  simp only [Bool.false_eq_true, ↓reduceIte]
  congr 1
  rw [← zipIdx_map_fun_fst (suffixRows Θ ec sfx rows0) _ 0]
  apply List.map_congr_left
  intro ri _
  exact mkRow_congr (fun c hc => termVal_rowVal Θ ec _ ri c (h c hc))

/-- a step that passes all requested columns through -/
theorem stepRows_pass (Θ : Interp) (ec : EngineCfg) (terms : Option Terms) (sfx : Suffix) (out : List String)
    (rows0 : List Row) (h : ∀ c ∈ out, lookT terms c = none ∨ lookT terms c = some .pass) :
    stepRows Θ ec terms false sfx out rows0 =
      limitOf sfx ((suffixRows Θ ec sfx rows0).map (fun r => r.select out)) := by
  rw [stepRows_rowwise]
  · congr 1
    apply List.map_congr_left
    intro r _
    unfold Row.select
    exact mkRow_congr (fun c hc => by rcases h c hc with e | e <;> rw [e] <;> rfl)
  · intro c hc
    rcases h c hc with e | e <;> rw [e] <;> rfl

/-! ### the induction claim -/

/-- what `select_columns` / `drop_columns` need from the step `q` they modify: for every successful
`setTermKeys`, requests within the kept keys return the same rows, and the new term keys are the kept keys -/
def KeyStable (Θ : Interp) (ec : EngineCfg) (env : Env) (q : Near) : Prop :=
  ∀ (ks : List String) (sel : Bool) (q' : Near), setTermKeys q ks sel = some q' →
    (∀ (u' : List String) (force : Bool) (T : Table), (∀ c ∈ u', c ∈ ks) →
      semNear Θ ec env [] q (some u') force = .ok T → (∀ c ∈ u', c ∈ T.cols) →
      ∃ T', semNear Θ ec env [] q' (some u') force = .ok T' ∧ (∀ c ∈ u', c ∈ T'.cols) ∧
        T'.rows.map (fun r => r.select u') = T.rows.map (fun r => r.select u')) ∧
    (ks ≠ [] → q.termKeys ≠ none → q'.termKeys = some ks)

theorem keyStable_of_simple (Θ : Interp) (ec : EngineCfg) (env : Env) {q : Near} (hs : q.isSimple = true) :
    KeyStable Θ ec env q := by
  intro ks sel q' h
  refine ⟨fun u' force T hu hT hc => ?_, fun hne _ => termKeys_setTermKeys h hs hne⟩
  obtain ⟨T', h1, h2, _, h4⟩ := setTermKeys_req h hs hu force hT hc
  exact ⟨T', h1, h2, h4⟩

/-- the shapes of near-SQL the induction ranges over: contains the tables and unary steps, is closed under
`setTermKeys`, and every member is `KeyStable` -/
structure ShapeOK (Θ : Interp) (ec : EngineCfg) (env : Env) (G : Near → Prop) : Prop where
  simple : ∀ q, q.isSimple = true → G q
  stable : ∀ q, G q → KeyStable Θ ec env q
  closed : ∀ q ks sel q', G q → setTermKeys q ks sel = some q' → G q'

theorem shapeOK_simple (Θ : Interp) (ec : EngineCfg) (env : Env) : ShapeOK Θ ec env (fun q => q.isSimple = true) :=
  ⟨fun _ h => h, fun _ h => keyStable_of_simple Θ ec env h, fun _ _ _ _ hq h => isSimple_setTermKeys h hq⟩

/-- **The induction claim** for a pipeline `p` at a given fuel: every successful translation of `p` for a requested
column set `u ⊆ p.cols` is sound for some request set `u₁ ⊇ u` within the declared columns, against the table `p`
evaluates to under the engine's ordering (`semE ec`), and has one of the shapes `G`. -/
def TransOK (Θ : Interp) (ec : EngineCfg) (env : Env) (scfg : SemCfg) (G : Near → Prop) (cfg : SqlCfg)
    (fuel : Nat) (p : Ops) : Prop :=
  ∀ (u : List String) (st : Nat) (q : Near) (st' : Nat) (tp : Table),
    (∀ c ∈ u, c ∈ p.cols) → toNear cfg fuel p (some u) st = .ok (q, st') →
    semE ec Θ scfg env p = .ok tp →
    G q ∧ ∃ u₁, (∀ c ∈ u, c ∈ u₁) ∧ (∀ c ∈ u₁, c ∈ p.cols) ∧ Sound Θ ec env q u₁ p.cols tp

theorem transOK_zero (Θ : Interp) (ec : EngineCfg) (env : Env) (scfg : SemCfg) (G : Near → Prop)
    (cfg : SqlCfg) (p : Ops) : TransOK Θ ec env scfg G cfg 0 p :=
  fun _ _ _ _ _ _ h _ => absurd h toNear_zero_ne_ok

/-- weakening the reference table and the declared columns of a sound translation (pass-through nodes) -/
theorem Sound.mono {Θ : Interp} {ec : EngineCfg} {env : Env} {q : Near} {u pc pc' : List String}
    {tp tp' : Table} (h : Sound Θ ec env q u pc tp) (hpc : ∀ c ∈ pc, c ∈ pc')
    (htp : ∀ u' : List String, (∀ c ∈ u', c ∈ u) →
      tp'.rows.map (fun r => r.select u') = tp.rows.map (fun r => r.select u')) :
    Sound Θ ec env q u pc' tp' := by
  refine ⟨?_, ?_⟩
  · intro u' hu force
    obtain ⟨T, h1, h2, h4⟩ := h.req u' hu force
    exact ⟨T, h1, h2, h4.trans (htp u' hu).symm⟩
  · intro hne
    obtain ⟨ks, hk, h1, h2⟩ := h.keys hne
    exact ⟨ks, hk, fun k hk' => hpc k (h1 k hk'), h2⟩

/-- restricting the request set of a sound translation -/
theorem Sound.restrict {Θ : Interp} {ec : EngineCfg} {env : Env} {q : Near} {u u₀ pc : List String}
    {tp : Table} (h : Sound Θ ec env q u pc tp) (hu : ∀ c ∈ u₀, c ∈ u) : Sound Θ ec env q u₀ pc tp := by
  refine ⟨fun u' hu' force => h.req u' (fun c hc => hu c (hu' c hc)) force, ?_⟩
  intro hne
  have : u ≠ [] := by
    intro e; subst e
    cases u₀ with
    | nil => exact hne rfl
    | cons x _ => exact absurd (hu x List.mem_cons_self) (by simp)
  obtain ⟨ks, hk, h1, h2⟩ := h.keys this
  exact ⟨ks, hk, h1, fun c hc => h2 c (hu c hc)⟩

/-- `select_columns` / `drop_columns`: the step is modified by `setTermKeys` -/
theorem Sound.setTermKeys {Θ : Interp} {ec : EngineCfg} {env : Env} {q q' : Near} {S pc pc' : List String}
    {tp tp' : Table} {sel : Bool} (h : Sound Θ ec env q S pc tp) (hst : KeyStable Θ ec env q)
    (hq' : setTermKeys q S sel = some q') (hpc : ∀ c ∈ S, c ∈ pc')
    (htp : ∀ u' : List String, (∀ c ∈ u', c ∈ S) →
      tp'.rows.map (fun r => r.select u') = tp.rows.map (fun r => r.select u')) :
    Sound Θ ec env q' S pc' tp' := by
  obtain ⟨hreq, hkeys⟩ := hst S sel q' hq'
  refine ⟨?_, ?_⟩
  · intro u' hu force
    obtain ⟨T, h1, h2, h4⟩ := h.req u' hu force
    obtain ⟨T', g1, g2, g4⟩ := hreq u' force T hu h1 h2
    exact ⟨T', g1, g2, (g4.trans h4).trans (htp u' hu).symm⟩
  · intro hne
    obtain ⟨ks, hk, _, _⟩ := h.keys hne
    exact ⟨S, hkeys hne (by rw [hk]; simp), hpc, fun c hc => hc⟩

end Sql
end DAVerif
