import DAVerif.Proofs.BuilderReach
import DAVerif.Proofs.PrintCalls
import DAVerif.Proofs.PrintSemStruct
import DAVerif.Proofs.PrintSemR
import DAVerif.Proofs.C06Exact
/-!
C12, semantic half without guard and without scope: `replace_leaves {}` of a valid pipeline in builder normal form
whose rebuilt sources are again in normal form evaluates to the **same rows in the same order**, the columns
possibly permuted (`≈ʳ`), for every interpretation whose record transforms respect `≈ʳ`.

* `shape_sem_R`   – C06's one-step statement in the row-order-keeping form: when no `order_rows` without limit is
  skipped, the pipeline a builder call returns evaluates to the raw node applied to the receiver's result, up to the
  order of the columns (the `extend` merge may re-order them);
* `replace_kind`  – a rebuilt node is an `order_rows` without limit only if the original node is one;
* `noTrivialOrderTop_of_nf` – a normal-form pipeline whose top is not such a node has none below the column
  selections at its top either;
* `replaceId_semR` – the induction over the pipeline.
-/
namespace DAVerif.C12S
open DAVerif Rules26 DAVerif.C12

set_option linter.unusedSimpArgs false
set_option linter.unusedVariables false

variable {Θ : Interp} {cfg : SemCfg} {env : Env}

/-! ### one builder call, keeping the row order -/

/-- **C06 in operator form, keeping the row order.**  When no `order_rows` without limit is skipped by the builder,
the returned pipeline evaluates to the raw node's operator applied to the receiver's result – same error, or the
same rows in the same order with the columns possibly in another order (after an `extend` merge). -/
theorem shape_sem_R (hΘ : ConvertOK Θ) {p p' leaf : Ops} {s : Step} {N : Ops} (hv : p.valid = true)
    (hshape : BuildShape p p' leaf s N) (hp'v : p'.valid = true) (hno : p.noTrivialOrderTop = true) :
    ResEquivR (sem Θ cfg env p') (sem Θ cfg env p >>= applyStep Θ cfg env N) := by
  have hwf' : ∀ t, sem Θ cfg env p' = .ok t → t.WF ∧ t.cols.Nodup := fun t ht => sem_wf_nodup hΘ hp'v ht
  have hstrip := Ops.strip_of_noTrivialOrderTop hno
  cases hshape with
  | extend ops pa od rv hse hne htop hNe =>
    subst hse
    rw [hstrip] at htop
    obtain ⟨hsem, hmem⟩ := extendTop_sem (Θ := Θ) (cfg := cfg) (env := env) hΘ hv
      (by rw [← hstrip]; exact Ops.strip_not_trivial p) htop
    rw [hsem]
    apply ResEquivR.bind (ResEquivR.of_eq rfl (fun t ht => sem_wf_nodup hΘ hv ht))
    intro t t' ht ht' _
    rw [ht] at ht'; cases ht'
    have hwn := sem_wf_nodup hΘ hv ht
    have hc : t.cols = p.cols := sem_cols hΘ ht
    have happ : applyStep Θ cfg env N t
        = applyNode Θ cfg (.extend p ops pa.cols' od rv (stepWindowed ops pa od)) t t := by
      simp only [applyStep, hNe, Ops.srcB]; rfl
    rw [happ]
    simp only [applyNode]
    have hperm : p'.cols.Perm (appendNew t.cols (ops.map (·.1))) := by
      refine perm_of_mem_iff (Ops.valid_cols_nodup hp'v) (nodup_appendNewC hwn.2) ?_
      intro c
      rw [hmem c, mem_appendNewC, hc]
    split
    · simp only [ok_bind]
      exact Table.EquivR.selectCols_left (semExtendWindow_wf _ _ _ _ _ _ _) (Ops.valid_cols_nodup hp'v) hperm
    · simp only [ok_bind]
      exact Table.EquivR.selectCols_left (semExtendPlain_wf _ _ _ _) (Ops.valid_cols_nodup hp'v) hperm
  | ident hNl hp =>
    refine ResEquivR.of_eq ?_ hwf'
    subst hp
    obtain ⟨n, cs, rfl⟩ := hNl
    cases sem Θ cfg env p' <;> rfl
  | plain hp hT =>
    refine ResEquivR.of_eq ?_ hwf'
    rw [hstrip] at hp
    cases hsb : N.srcB with
    | none =>
      rw [sem_eq_applyNode_unary Θ hΘ cfg env p' (by rw [hp, reSrc_srcB]; exact hsb)
        (by rw [hp]; exact reSrc_ne_table _ hT), hp, reSrc_srcA _ hT]
      apply except_bind_congr
      intro t _
      simp only [applyStep, hsb, applyNode_reSrc]
    | some b =>
      rw [sem_eq_applyNode_binary Θ hΘ cfg env p' b (by rw [hp, reSrc_srcB]; exact hsb), hp, reSrc_srcA _ hT]
      apply except_bind_congr
      intro t _
      simp only [applyStep, hsb]
      apply except_bind_congr
      intro tb _
      rw [applyNode_reSrc]
  | select cs hse hsel hNe =>
    refine ResEquivR.of_eq ?_ hwf'
    subst hse
    have hrhs : (sem Θ cfg env p >>= applyStep Θ cfg env N)
        = (sem Θ cfg env p >>= fun t => (.ok (t.selectCols cs) : Except Err Table)) := by
      apply except_bind_congr; intro t _; simp only [applyStep, hNe, Ops.srcB]; rfl
    rw [hrhs]
    rw [selectColsB_eq] at hsel
    obtain ⟨u, hg, h2⟩ := except_bind_eq_ok.mp hsel
    rw [ok?_eq_ok] at hg
    rw [mkSelectCols_eq] at h2
    obtain ⟨u', _, h3⟩ := except_bind_eq_ok.mp h2
    rw [selectNode_selectBase] at h3
    cases h3
    simp only [sem]
    exact select_collapse_exact Θ cfg env p cs hg hno

/-- one unary node of `replace_leaves`, keeping the row order -/
theorem replace_unary_R (hΘ : ConvertOK Θ) (hR : ConvertColInvariant Θ) {s s' q p N leaf : Ops}
    {step : Step} (hs'v : s'.valid = true) (hsv : s.valid = true)
    (IH : ResEquivR (sem Θ cfg env s') (sem Θ cfg env s))
    (hshape : BuildShape s' q leaf step N) (hqv : q.valid = true) (hno : s'.noTrivialOrderTop = true)
    (hpA : p.srcA = s) (hpB : p.srcB = none) (hpT : ∀ n cs, p ≠ .table n cs) (hNB : N.srcB = none)
    (happ : ∀ ta tb, applyNode Θ cfg N ta tb = applyNode Θ cfg p ta tb)
    (hcols : NodeColsOK p s.cols) :
    ResEquivR (sem Θ cfg env q) (sem Θ cfg env p) := by
  have hside : ∀ t, sem Θ cfg env s' = .ok t → NodeColsOK p t.cols := by
    intro t ht
    obtain ⟨t', ht', htt⟩ := IH.of_ok ht
    have : t'.cols = s.cols := sem_cols hΘ ht'
    exact (this ▸ hcols : NodeColsOK p t'.cols).perm htt.cols_perm.symm
  have A := shape_sem_R (Θ := Θ) (cfg := cfg) (env := env) hΘ hs'v hshape hqv hno
  refine A.trans ?_
  rw [sem_eq_applyNode_unary Θ hΘ cfg env p hpB hpT, hpA]
  apply ResEquivR.bind IH
  intro t t' ht _ htt
  simp only [applyStep, hNB, happ]
  exact applyNode_congrR Θ cfg hR p htt htt (hside t ht)

/-- one join / concat node of `replace_leaves`, keeping the row order -/
theorem replace_binary_R (hΘ : ConvertOK Θ) (hR : ConvertColInvariant Θ) {a a' b b' q p N leaf : Ops}
    {step : Step} (ha'v : a'.valid = true) (hav : a.valid = true) (hb'v : b'.valid = true)
    (IHa : ResEquivR (sem Θ cfg env a') (sem Θ cfg env a))
    (IHb : ResEquivR (sem Θ cfg env b') (sem Θ cfg env b))
    (hshape : BuildShape a' q leaf step N) (hqv : q.valid = true) (hno : a'.noTrivialOrderTop = true)
    (hpA : p.srcA = a) (hpB : p.srcB = some b) (hNB : N.srcB = some b')
    (happ : ∀ ta tb, applyNode Θ cfg N ta tb = applyNode Θ cfg p ta tb)
    (hcols : NodeColsOK p a.cols) :
    ResEquivR (sem Θ cfg env q) (sem Θ cfg env p) := by
  have hside : ∀ t, sem Θ cfg env a' = .ok t → NodeColsOK p t.cols := by
    intro t ht
    obtain ⟨t', ht', htt⟩ := IHa.of_ok ht
    have : t'.cols = a.cols := sem_cols hΘ ht'
    exact (this ▸ hcols : NodeColsOK p t'.cols).perm htt.cols_perm.symm
  have A := shape_sem_R (Θ := Θ) (cfg := cfg) (env := env) hΘ ha'v hshape hqv hno
  refine A.trans ?_
  rw [sem_eq_applyNode_binary Θ hΘ cfg env p b hpB, hpA]
  apply ResEquivR.bind IHa
  intro ta ta' hta _ htta
  simp only [applyStep, hNB]
  apply ResEquivR.bind IHb
  intro tb tb' _ _ httb
  rw [happ]
  exact applyNode_congrR Θ cfg hR p htta httb (hside ta hta)

/-! ### no `order_rows` without limit is skipped by the rebuild -/

theorem not_trivial_of_strip {s : Ops} (h : strip s = s) : s.isTrivialWhenIntermediate = false := by
  have hn := strip_not_trivial s
  rw [h] at hn
  cases s with
  | order src cs rv lim =>
    cases lim with
    | none => exact absurd rfl (hn src cs rv)
    | some n => rfl
  | _ => rfl

/-- a normal-form pipeline whose top node is not an `order_rows` without limit has none below the column selections
/ deletions at its top either (their sources are stripped) -/
theorem noTrivialOrderTop_of_nf : ∀ {q : Ops}, NF q → q.isTrivialWhenIntermediate = false →
    q.noTrivialOrderTop = true
  | .selectCols s cs, h, _ => by
    simp only [Ops.noTrivialOrderTop]
    exact noTrivialOrderTop_of_nf h.1 (not_trivial_of_strip h.2.1)
  | .dropCols s cs, h, _ => by
    simp only [Ops.noTrivialOrderTop]
    exact noTrivialOrderTop_of_nf h.1 (not_trivial_of_strip h.2.1)
  | .order s cs rv none, _, ht => by cases ht
  | .order s cs rv (some n), _, _ => rfl
  | .table .., _, _ | .extend .., _, _ | .project .., _, _ | .selectRows .., _, _ | .rename .., _, _
  | .mapCols .., _, _ | .join .., _, _ | .concat .., _, _ | .convert .., _, _ => rfl

theorem mkExtend_not_trivial {x : Ops} {ops : Assign} {pa : PartArg} {od rv : List String} {q : Ops}
    (h : mkExtend x ops pa od rv = .ok q) : q.isTrivialWhenIntermediate = false := by
  rw [mkExtend_eqC] at h
  obtain ⟨_, _, hp⟩ := except_bind_eq_ok.mp h
  cases hp; rfl

theorem extendTopC_not_trivial {x : Ops} {ops : Assign} {pa : PartArg} {od rv : List String} {q : Ops}
    (hnt : x.isTrivialWhenIntermediate = false) (h : extendTopC x ops pa od rv = .ok q) :
    q.isTrivialWhenIntermediate = false := by
  cases x with
  | extend src o1 part1 od1 rv1 w1 =>
    simp only [extendTopC] at h
    rcases extendMerge_cases src o1 part1 od1 rv1 w1 ops pa od rv with ⟨o, _, _, _, _, _, he⟩ | he
    · rw [he] at h; exact mkExtend_not_trivial h
    · rw [he] at h; exact mkExtend_not_trivial h
  | order s' cs rv' lim =>
    cases lim with
    | none => cases hnt
    | some n => exact mkExtend_not_trivial h
  | table _ _ => exact mkExtend_not_trivial h
  | project _ _ _ => exact mkExtend_not_trivial h
  | selectRows _ _ => exact mkExtend_not_trivial h
  | selectCols _ _ => exact mkExtend_not_trivial h
  | dropCols _ _ => exact mkExtend_not_trivial h
  | rename _ _ => exact mkExtend_not_trivial h
  | mapCols _ _ _ => exact mkExtend_not_trivial h
  | join _ _ _ _ _ => exact mkExtend_not_trivial h
  | concat _ _ _ _ _ => exact mkExtend_not_trivial h
  | convert _ _ => exact mkExtend_not_trivial h

/-- **The rebuilt node is an `order_rows` without limit only if the original is.** -/
theorem replace_kind {p q : Ops} (hv : p.valid = true) (hq : Ops.replaceLeaves [] p = .ok q)
    (ht : p.isTrivialWhenIntermediate = false) : q.isTrivialWhenIntermediate = false := by
  have hn := Ops.valid_nodeOk hv
  cases p with
  | table k cs =>
    simp only [Ops.replaceLeaves, lookupLast] at hq
    cases hq; rfl
  | extend s ops part od rv w =>
    simp only [Ops.replaceLeaves] at hq
    obtain ⟨s', hs', hq2⟩ := except_bind_eq_ok.mp hq
    have hne : ops.isEmpty = false := by
      simp only [Ops.nodeOk, Bool.and_eq_true] at hn
      simpa using hn.1.1.1.1.1.1.1.1.1.1.1
    rw [extendParsed_stripC _ _ _ _ _ hne] at hq2
    obtain ⟨u, hchk, htop⟩ := except_bind_eq_ok.mp hq2
    exact extendTopC_not_trivial (Ops.strip_not_trivial _) htop
  | project s ops g =>
    simp only [Ops.replaceLeaves] at hq
    obtain ⟨s', hs', hq2⟩ := except_bind_eq_ok.mp hq
    rw [projectParsed_stripC] at hq2
    obtain ⟨u, hchk, hmk⟩ := except_bind_eq_ok.mp hq2
    rw [mkProject_eq] at hmk
    obtain ⟨_, _, hq3⟩ := except_bind_eq_ok.mp hmk
    cases hq3; rfl
  | selectRows s e =>
    simp only [Ops.replaceLeaves] at hq
    obtain ⟨s', hs', hq2⟩ := except_bind_eq_ok.mp hq
    rw [selectRowsB_strip] at hq2
    cases hq2; rfl
  | selectCols s cs =>
    simp only [Ops.replaceLeaves] at hq
    obtain ⟨s', hs', hq2⟩ := except_bind_eq_ok.mp hq
    simp only [build] at hq2
    obtain ⟨_, _, hsel⟩ := except_bind_eq_ok.mp hq2
    rw [selectColsB_eq] at hsel
    obtain ⟨u, hg, h2⟩ := except_bind_eq_ok.mp hsel
    rw [mkSelectCols_eq] at h2
    obtain ⟨u', _, h3⟩ := except_bind_eq_ok.mp h2
    rw [selectNode_selectBase] at h3
    cases h3; rfl
  | dropCols s ds =>
    simp only [Ops.replaceLeaves] at hq
    obtain ⟨s', hs', hq2⟩ := except_bind_eq_ok.mp hq
    simp only [Ops.nodeOk, Bool.and_eq_true] at hn
    have hne : ds.isEmpty = false := by simpa using hn.1
    simp only [build, hne, Bool.false_eq_true, if_false] at hq2
    rw [dropColsB_strip, mkDropCols_eq] at hq2
    obtain ⟨_, _, hq3⟩ := except_bind_eq_ok.mp hq2
    cases hq3; rfl
  | order s cs rv lim =>
    simp only [Ops.replaceLeaves] at hq
    obtain ⟨s', hs', hq2⟩ := except_bind_eq_ok.mp hq
    simp only [Ops.nodeOk, Bool.and_eq_true] at hn
    have hne : (cs.isEmpty && lim.isNone) = false := by
      have := hn.1
      cases hh : (cs.isEmpty && lim.isNone) <;> simp_all
    simp only [build, hne, Bool.false_eq_true, if_false] at hq2
    rw [orderB_strip, mkOrder_eq] at hq2
    obtain ⟨_, _, hq3⟩ := except_bind_eq_ok.mp hq2
    cases hq3
    cases lim with
    | none => cases ht
    | some n => rfl
  | rename s mp =>
    simp only [Ops.replaceLeaves] at hq
    obtain ⟨s', hs', hq2⟩ := except_bind_eq_ok.mp hq
    simp only [Ops.nodeOk, Bool.and_eq_true] at hn
    have hne : mp.isEmpty = false := by simpa using hn.1
    simp only [build, hne, Bool.false_eq_true, if_false] at hq2
    rw [renameB_strip, mkRename_eq] at hq2
    obtain ⟨_, _, hq3⟩ := except_bind_eq_ok.mp hq2
    cases hq3; rfl
  | mapCols s mp ds =>
    simp only [Ops.replaceLeaves] at hq
    obtain ⟨s', hs', hq2⟩ := except_bind_eq_ok.mp hq
    simp only [Ops.nodeOk, Bool.and_eq_true] at hn
    have hne : (mp.map (fun kv => (kv.1, some kv.2)) ++ ds.map (fun d => (d, (none : Option String)))).isEmpty
        = false := by
      have := hn.1
      cases mp <;> cases ds <;> simp_all
    simp only [build, hne, Bool.false_eq_true, if_false] at hq2
    rw [mapColsB_strip, mkMapCols_eq, mapRemap_canon, mapDels_canon] at hq2
    obtain ⟨_, _, hq3⟩ := except_bind_eq_ok.mp hq2
    cases hq3; rfl
  | convert s rm =>
    simp only [Ops.replaceLeaves] at hq
    obtain ⟨s', hs', hq2⟩ := except_bind_eq_ok.mp hq
    simp only [build] at hq2
    rw [convertB_strip, mkConvert_eq] at hq2
    obtain ⟨_, _, hq3⟩ := except_bind_eq_ok.mp hq2
    cases hq3; rfl
  | join a b oa ob jt =>
    simp only [Ops.replaceLeaves] at hq
    obtain ⟨a', ha', hq1⟩ := except_bind_eq_ok.mp hq
    obtain ⟨b', hb', hq2⟩ := except_bind_eq_ok.mp hq1
    simp only [build] at hq2
    rw [joinB_strip, mkJoin_eq] at hq2
    obtain ⟨t, hchk, hq3⟩ := except_bind_eq_ok.mp hq2
    cases hq3; rfl
  | concat a b idc an bn =>
    simp only [Ops.replaceLeaves] at hq
    obtain ⟨a', ha', hq1⟩ := except_bind_eq_ok.mp hq
    obtain ⟨b', hb', hq2⟩ := except_bind_eq_ok.mp hq1
    simp only [build] at hq2
    rw [concatB_strip, mkConcat_eq] at hq2
    obtain ⟨_, _, hq3⟩ := except_bind_eq_ok.mp hq2
    cases hq3; rfl

/-! ### the induction -/

theorem nf_srcA {p : Ops} (h : NF p) (hT : ∀ n cs, p ≠ .table n cs) : NF p.srcA ∧ strip p.srcA = p.srcA := by
  cases p with
  | table n cs => exact absurd rfl (hT n cs)
  | join a b _ _ _ => exact ⟨h.1, h.2.1⟩
  | concat a b _ _ _ => exact ⟨h.1, h.2.1⟩
  | _ => exact ⟨h.1, h.2.1⟩

theorem nf_srcB {p b : Ops} (h : NF p) (hB : p.srcB = some b) : NF b := by
  cases p with
  | join a b' _ _ _ => cases hB; exact h.2.2.1
  | concat a b' _ _ _ => cases hB; exact h.2.2.1
  | _ => cases hB

/-- what is assumed of the rebuild of every sub-pipeline: the result is again in builder normal form (true for the
pipelines of interest, whose rebuilds are reachable: `Props/C12sem.lean`) -/
def RebuildNF : Prop := ∀ p q : Ops, NF p → p.valid = true → Ops.replaceLeaves [] p = .ok q → NF q

def SemRStmt (Θ : Interp) (cfg : SemCfg) (env : Env) (p : Ops) : Prop :=
  NF p → p.valid = true → ∀ q, Ops.replaceLeaves [] p = .ok q →
    ResEquivR (sem Θ cfg env q) (sem Θ cfg env p)

theorem semR_node (hΘ : ConvertOK Θ) (hR : ConvertColInvariant Θ) (hNF : RebuildNF) {p : Ops}
    (hT : ∀ n cs, p ≠ .table n cs) (IHa : SemRStmt Θ cfg env p.srcA)
    (IHb : ∀ b, p.srcB = some b → SemRStmt Θ cfg env b) : SemRStmt Θ cfg env p := by
  intro hnf hv q hq
  obtain ⟨a', ha', h⟩ := replace_node hv hT hq
  obtain ⟨hnfa, hstrip⟩ := nf_srcA hnf hT
  have hav := Ops.valid_srcA hv
  have IHa' := IHa hnfa hav a' ha'
  have ha'v : a'.valid = true := (replaceId_struct p.srcA hav a' ha').1
  have hno : a'.noTrivialOrderTop = true :=
    noTrivialOrderTop_of_nf (hNF _ _ hnfa hav ha') (replace_kind hav ha' (not_trivial_of_strip hstrip))
  have hcolsOK := nodeColsOK_of_valid hv
  rcases h with ⟨hB, h⟩ | ⟨b, b', hB, hb', h⟩
  · obtain ⟨hqv, leaf, step, N, hshape, hNB, happ, _, _, _, _⟩ := h ha'v
    exact replace_unary_R hΘ hR ha'v hav IHa' hshape hqv hno rfl hB hT hNB (happ Θ cfg) hcolsOK
  · have hbv := valid_srcB hv hB
    have IHb' := IHb b hB (nf_srcB hnf hB) hbv b' hb'
    have hb'v : b'.valid = true := (replaceId_struct b hbv b' hb').1
    obtain ⟨hqv, leaf, step, N, hshape, hNB, happ, _, _, _, _⟩ := h ha'v hb'v
    exact replace_binary_R hΘ hR ha'v hav hb'v IHa' IHb' hshape hqv hno rfl hB hNB (happ Θ cfg) hcolsOK

/-- **`replace_leaves {}` keeps rows and row order.**  For a valid pipeline in builder normal form, every
interpretation whose record transforms return their declared columns and respect `≈ʳ`, both configurations and
every environment: the rebuilt pipeline fails with the same error, or gives the same rows in the same order with the
columns possibly in another order.  No scope condition. -/
theorem replaceId_semR (hΘ : ConvertOK Θ) (hR : ConvertColInvariant Θ) (hNF : RebuildNF) (p : Ops) :
    SemRStmt Θ cfg env p := by
  induction p with
  | table n cs =>
    intro _ hv q hq
    simp only [Ops.replaceLeaves, lookupLast] at hq
    cases hq
    exact ResEquivR.of_eq rfl (fun t ht => sem_wf_nodup hΘ hv ht)
  | extend s ops part od rv w ih =>
    exact semR_node hΘ hR hNF (by intro _ _ h; cases h) ih (by intro b h; cases h)
  | project s ops g ih => exact semR_node hΘ hR hNF (by intro _ _ h; cases h) ih (by intro b h; cases h)
  | selectRows s e ih => exact semR_node hΘ hR hNF (by intro _ _ h; cases h) ih (by intro b h; cases h)
  | selectCols s cs ih => exact semR_node hΘ hR hNF (by intro _ _ h; cases h) ih (by intro b h; cases h)
  | dropCols s ds ih => exact semR_node hΘ hR hNF (by intro _ _ h; cases h) ih (by intro b h; cases h)
  | order s cs rv lim ih => exact semR_node hΘ hR hNF (by intro _ _ h; cases h) ih (by intro b h; cases h)
  | rename s m ih => exact semR_node hΘ hR hNF (by intro _ _ h; cases h) ih (by intro b h; cases h)
  | mapCols s m ds ih => exact semR_node hΘ hR hNF (by intro _ _ h; cases h) ih (by intro b h; cases h)
  | convert s rm ih => exact semR_node hΘ hR hNF (by intro _ _ h; cases h) ih (by intro b h; cases h)
  | join a b oa ob jt iha ihb =>
    exact semR_node hΘ hR hNF (by intro _ _ h; cases h) iha (by intro b' h; cases h; exact ihb)
  | concat a b idc an bn iha ihb =>
    exact semR_node hΘ hR hNF (by intro _ _ h; cases h) iha (by intro b' h; cases h; exact ihb)

end DAVerif.C12S
