import DAVerif.Proofs.ExprWalkWfBuild
import DAVerif.Proofs.ExprWalkWfLits
/-!
C13: named method calls, prefix operators and comparison chains return well-formed terms.
-/
namespace DAVerif.C13W
open DAVerif DAVerif.Expr

theorem triopExpr_mk {env : Env} {op : String} {self x y : Term} {i m : Bool} {t : Term}
    (h : triopExpr env op self x y i m = .ok t) : mkExpr env op [self, x, y] i m = .ok t := by
  unfold triopExpr at h
  split at h <;> try contradiction
  exact h

theorem litOk_str_fmt1 : litOk (.str "%Y-%m-%d %H:%M:%S") = true := by decide +kernel
theorem litOk_str_fmt2 : litOk (.str "%Y-%m-%d") = true := by decide +kernel

/-- the method form `recv.op(rest…)` re-reads through the same call -/
theorem shape_method {env : Env} {recv : Term} {op : String} {rest : List Term} {t : Term}
    (h : callMethod env recv op rest = .ok t) (ht : t = .app op (recv :: rest) false true) :
    shapeOk env op (recv :: rest) false true = true := by
  subst ht
  cases rest <;> (simp only [shapeOk]; exact okEq_of_eq h)

theorem shape_func {env : Env} {a : Term} {op : String} {rest : List Term} {t : Term}
    (h : mkExpr env op (a :: rest) false false = .ok t) :
    shapeOk env op (a :: rest) false false = true := by
  have ht := mkExpr_ok h
  subst ht
  cases rest <;> (simp only [shapeOk]; exact okEq_of_eq h)

theorem dunder_neg {name : String} (hd : isDunder name = false) : name ≠ "__neg__" := by
  intro h; subst h; revert hd; decide

theorem callMethod_wf {env : Env} (hs : env.Sane) (hc : Canon env) {recv : Term} {name : String} {args : List Term}
    {t : Term} (hd : isDunder name = false) (h : callMethod env recv name args = .ok t)
    (hwr : wf env recv = true) (hwa : wfs env args = true) : wf env t = true := by
  have hne := dunder_neg hd
  obtain ⟨b, hg, ha⟩ := callMethod_split h
  obtain ⟨hcoll, hb | ⟨k, hl, hb⟩⟩ := getMethod_cases hg
  · exact absurd hb.2.1 hne
  subst hb
  have hok := sane_entry hs hl hd
  have hcan := canon_entry hc hl hd
  cases k with
  | uop op inline =>
    simp only [entryOk, Bool.and_eq_true, beq_iff_eq, Bool.not_eq_true'] at hok
    obtain ⟨hop, _⟩ := hok
    subst hop
    simp only [kindCanonT, Bool.not_eq_true'] at hcan
    subst hcan
    match args, ha, h, hwa with
    | [], ha, h, _ =>
      simp only [applyBound] at ha
      have ht := uopExpr_ok ha
      rw [ht, wf_app]
      simp only [wfs_cons, wfs_nil, hwr, Bool.and_true, Bool.true_and, Bool.not_false]
      exact shape_method h (by simpa using ht)
    | _ :: _, ha, _, _ => simp [applyBound] at ha
  | bin op i m c =>
    match args, ha, hwa with
    | [o], ha, hwa =>
      simp only [applyBound] at ha
      simp only [wfs_cons, wfs_nil, Bool.and_true] at hwa
      exact opExpr_wf hcan hcoll hwr hwa ha
    | [], ha, _ => simp [applyBound] at ha
    | _ :: _ :: _, ha, _ => simp [applyBound] at ha
  | rbin op => simp [entryOk] at hok
  | tri op i m =>
    simp only [entryOk, beq_iff_eq] at hok
    subst hok
    simp only [kindCanonT, Bool.not_eq_true'] at hcan
    subst hcan
    match args, ha, h, hwa with
    | [x, y], ha, h, hwa =>
      simp only [applyBound] at ha
      have ht := triopExpr_ok ha
      have hmk := triopExpr_mk ha
      rw [ht, wf_app]
      simp only [wfs_cons, wfs_nil, Bool.and_true, Bool.and_eq_true] at hwa
      simp only [wfs_cons, wfs_nil, hwr, hwa.1, hwa.2, Bool.and_true, Bool.true_and]
      cases m
      · rw [ht] at hmk
        simp only [shapeOk]
        exact okEq_of_eq hmk
      · exact shape_method h ht
    | [], ha, _, _ => simp [applyBound] at ha
    | [_], ha, _, _ => simp [applyBound] at ha
    | _ :: _ :: _ :: _, ha, _, _ => simp [applyBound] at ha
  | special n =>
    simp only [entryOk, Bool.and_eq_true, beq_iff_eq] at hok
    obtain ⟨hn, hsp⟩ := hok
    subst hn
    simp only [applyBound] at ha
    -- calling the same special builder again with other arguments
    have hcall : ∀ args', callMethod env recv n args' = applySpecial env n recv args' := by
      intro args'; simp only [callMethod, hg, ok_bind, applyBound]
    unfold applySpecial at ha
    split at ha
    · simp [specials] at hsp
    · -- shift()
      have ht := shiftWith_ok ha
      rw [ht, wf_app]
      simp only [wfs_cons, wfs_nil, hwr, wf_value, litOk, Bool.and_true, Bool.true_and]
      refine shape_method (t := t) ?_ ht
      rw [hcall]; simp only [applySpecial]; exact ha
    · have ht := shiftWith_ok ha
      simp only [wfs_cons, wfs_nil, Bool.and_true] at hwa
      rw [ht, wf_app]
      simp only [wfs_cons, wfs_nil, hwr, hwa, Bool.and_true, Bool.true_and]
      exact shape_method h ht
    · split at ha
      · contradiction
      · have ht := opExpr_ok ha
        simp only [wfs_cons, wfs_nil, Bool.and_true] at hwa
        rw [ht, wf_app]
        simp only [wfs_cons, wfs_nil, hwr, hwa, Bool.and_true, Bool.true_and]
        exact shape_func (opExpr_mk (ht ▸ ha))
    · -- mapv(m)
      have ht := mapvWith_ok ha
      simp only [wfs_cons, wfs_nil, Bool.and_true] at hwa
      rw [ht, wf_app]
      simp only [wfs_cons, wfs_nil, hwr, hwa, wf_value, litOk, Bool.and_true, Bool.true_and]
      refine shape_method (t := t) ?_ ht
      rw [hcall]; simp only [applySpecial]; exact ha
    · have ht := mapvWith_ok ha
      simp only [wfs_cons, wfs_nil, Bool.and_true, Bool.and_eq_true] at hwa
      rw [ht, wf_app]
      simp only [wfs_cons, wfs_nil, hwr, hwa.1, hwa.2, Bool.and_true, Bool.true_and]
      exact shape_method h ht
    · split at ha
      · contradiction
      · have ht := triopExpr_ok ha
        simp only [wfs_cons, wfs_nil, Bool.and_true, Bool.and_eq_true] at hwa
        rw [ht, wf_app]
        simp only [wfs_cons, wfs_nil, hwr, hwa.1, hwa.2, Bool.and_true, Bool.true_and]
        exact shape_method h ht
    · -- coalesce_0()
      obtain ⟨i, m, c, hlc⟩ := sane_coalesce hs
      simp only [hlc] at ha
      have hcan' := canon_entry hc hlc (by decide)
      exact opExpr_wf hcan' hcoll hwr (by rw [wf_value]; rfl) ha
    · -- parse_datetime()
      have ht := opExpr_ok ha
      rw [ht, wf_app]
      simp only [wfs_cons, wfs_nil, hwr, wf_value, litOk_str_fmt1, Bool.and_true, Bool.true_and]
      refine shape_method (t := t) ?_ ht
      rw [hcall]; simp only [applySpecial, isValue]; exact ha
    · split at ha
      · contradiction
      · have ht := opExpr_ok ha
        simp only [wfs_cons, wfs_nil, Bool.and_true] at hwa
        rw [ht, wf_app]
        simp only [wfs_cons, wfs_nil, hwr, hwa, Bool.and_true, Bool.true_and]
        exact shape_method h ht
    · -- format_datetime()
      have ht := opExpr_ok ha
      rw [ht, wf_app]
      simp only [wfs_cons, wfs_nil, hwr, wf_value, litOk_str_fmt1, Bool.and_true, Bool.true_and]
      refine shape_method (t := t) ?_ ht
      rw [hcall]; simp only [applySpecial, isValue]; exact ha
    · split at ha
      · contradiction
      · have ht := opExpr_ok ha
        simp only [wfs_cons, wfs_nil, Bool.and_true] at hwa
        rw [ht, wf_app]
        simp only [wfs_cons, wfs_nil, hwr, hwa, Bool.and_true, Bool.true_and]
        exact shape_method h ht
    · -- parse_date()
      have ht := opExpr_ok ha
      rw [ht, wf_app]
      simp only [wfs_cons, wfs_nil, hwr, wf_value, litOk_str_fmt2, Bool.and_true, Bool.true_and]
      refine shape_method (t := t) ?_ ht
      rw [hcall]; simp only [applySpecial]; exact ha
    · have ht := opExpr_ok ha
      simp only [wfs_cons, wfs_nil, Bool.and_true] at hwa
      rw [ht, wf_app]
      simp only [wfs_cons, wfs_nil, hwr, hwa, Bool.and_true, Bool.true_and]
      exact shape_method h ht
    · -- format_date()
      have ht := opExpr_ok ha
      rw [ht, wf_app]
      simp only [wfs_cons, wfs_nil, hwr, wf_value, litOk_str_fmt2, Bool.and_true, Bool.true_and]
      refine shape_method (t := t) ?_ ht
      rw [hcall]; simp only [applySpecial]; exact ha
    · have ht := opExpr_ok ha
      simp only [wfs_cons, wfs_nil, Bool.and_true] at hwa
      rw [ht, wf_app]
      simp only [wfs_cons, wfs_nil, hwr, hwa, Bool.and_true, Bool.true_and]
      exact shape_method h ht
    · split at ha <;> contradiction
  | unmodelled => simp [applyBound] at ha

/-! ## prefix operators -/

theorem factor_wf {env : Env} (hs : env.Sane) (hc : Canon env) {s : String} {right t : Term}
    (hs' : s = "+" ∨ s = "-" ∨ s = "~") (hw : wf env right = true)
    (h : callMethod env right (remap env.factorRemap s) [] = .ok t) : wf env t = true := by
  obtain ⟨b, hg, ha⟩ := callMethod_split h
  obtain ⟨hcoll, hb | ⟨k, hl, hb⟩⟩ := getMethod_cases hg
  · -- `Value.__neg__`: the constant is folded
    obtain ⟨rfl, hname, hval⟩ := hb
    cases right with
    | value l =>
      simp only [applyBound] at ha
      cases hn : negLit l with
      | error e => simp [hn, Except.map] at ha
      | ok l' =>
        simp only [hn, Except.map] at ha
        injection ha with ha
        subst ha
        rw [wf_value] at hw ⊢
        exact negLit_litOk hw hn
    | col c => simp [isValue] at hval
    | list vs => simp [isValue] at hval
    | dict kvs => simp [isValue] at hval
    | app op args i m => simp [isValue] at hval
  · subst hb
    rcases hs' with rfl | rfl | rfl
    · obtain ⟨hr, hlp⟩ := sane_pos hs
      rw [hr] at hl
      rw [hlp] at hl
      injection hl with hl
      subst hl
      simp only [applyBound, applySpecial] at ha
      injection ha with ha
      subst ha
      exact hw
    · obtain ⟨hr, hln⟩ := sane_neg hs
      have hl' := hl
      rw [hr, hln] at hl'
      injection hl' with hl'
      subst hl'
      simp only [applyBound] at ha
      have ht := uopExpr_ok ha
      rw [ht, wf_app]
      simp only [wfs_cons, wfs_nil, hw, Bool.and_true, Bool.true_and, Bool.not_true, shapeOk, beq_self_eq_true]
      apply okEq_of_eq
      rw [h, ht]; rfl
    · rw [canon_tilde hc] at hl
      contradiction

/-! ## comparison chains -/

theorem chain_wf {env : Env} (hc : Canon env) : ∀ (ops : List String) (ts comps : List Term),
    (∀ o ∈ ops, o ∈ grammarOps) → wfs env ts = true → ts.length = ops.length + 1 →
    chainComparisons env ts ops = .ok comps → wfs env comps = true ∧ comps.length = ops.length
  | [], ts, comps, _, _, _, h => by
    have : comps = [] := by
      unfold chainComparisons at h
      split at h
      · contradiction
      · injection h with h; exact h.symm
    subst this
    simp [wfs_nil]
  | o :: os, ts, comps, hops, hw, hlen, h => by
    match ts, hw, hlen, h with
    | [], _, hlen, _ => simp at hlen
    | [_], _, hlen, _ => simp at hlen
    | a :: b :: rest, hw, hlen, h =>
      simp only [chainComparisons] at h
      cases hcall : callMethod env a (remap env.opRemap o) [b] with
      | error e => simp [hcall] at h
      | ok c =>
        cases hr : chainComparisons env (b :: rest) os with
        | error e => simp [hcall, hr] at h
        | ok cs =>
          simp only [hcall, hr, ok_bind, pure, Except.pure] at h
          injection h with h
          subst h
          simp only [wfs_cons, Bool.and_eq_true] at hw
          have hwc := call1_wf (canon_op hc (hops o (by simp))) hcall hw.1 hw.2.1
          obtain ⟨h1, h2⟩ := chain_wf hc os (b :: rest) cs (fun o' ho' => hops o' (by simp [ho']))
            (by simp only [wfs_cons, hw.2.1, hw.2.2, Bool.and_self]) (by simpa using hlen) hr
          simp [wfs_cons, hwc, h1, h2]

end DAVerif.C13W
