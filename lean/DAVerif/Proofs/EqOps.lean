import DAVerif.Proofs.EqTerm
/-! Lemmas for C11, operator level: `eqOps` decides equality of normal forms (`norm` forgets the `method`
flags and the `needed` summary field of record maps, which `RecordMap.__eq__` does not look at). -/
namespace DAVerif

/-! ### `lookupLast` on association lists with distinct keys -/

theorem lookupLast_cons {β : Type} (x : String × β) (b : List (String × β)) (k : String) :
    lookupLast (x :: b) k = (lookupLast b k).or (if x.1 == k then some x.2 else none) := by
  unfold lookupLast
  rw [List.reverse_cons, List.find?_append]
  cases h : List.find? (fun kv => kv.1 == k) b.reverse with
  | some y => simp
  | none => by_cases hx : x.1 == k <;> simp [hx]

theorem lookupLast_eq_none_of_not_mem {β : Type} {b : List (String × β)} {k : String}
    (h : k ∉ b.map (·.1)) : lookupLast b k = none := by
  unfold lookupLast
  simp only [Option.map_eq_none_iff, List.find?_eq_none, List.mem_reverse]
  intro x hx hk
  exact h (List.mem_map.2 ⟨x, hx, by simpa using hk⟩)

theorem lookupLast_of_mem_nodup {β : Type} : ∀ {b : List (String × β)} {k : String} {t : β},
    (b.map (·.1)).Nodup → (k, t) ∈ b → lookupLast b k = some t
  | x :: b, k, t, hn, hm => by
    rw [lookupLast_cons]
    simp only [List.map_cons, List.nodup_cons] at hn
    rcases List.mem_cons.1 hm with h | h
    · subst h
      rw [lookupLast_eq_none_of_not_mem hn.1]; simp
    · rw [lookupLast_of_mem_nodup hn.2 h]; simp

namespace Eq

/-! ### assignments -/

theorem keys_eraseAssign (a : Assign) : (eraseAssign a).map (·.1) = a.map (·.1) := by
  simp [eraseAssign, List.map_map, Function.comp_def]

private theorem all_lookup_iff (B : Assign) : ∀ (a b : Assign), a.map (·.1) = b.map (·.1) →
    (∀ x ∈ b, lookupLast B x.1 = some x.2) →
    (a.all (fun kv => match lookupLast B kv.1 with | some t => termEq kv.2 t | none => false) = true
      ↔ eraseAssign a = eraseAssign b)
  | [], [], _, _ => by simp [eraseAssign]
  | [], _ :: _, hk, _ => by simp at hk
  | _ :: _, [], hk, _ => by simp at hk
  | (k1, t1) :: as, (k2, t2) :: bs, hk, hb => by
    simp only [List.map_cons, List.cons.injEq] at hk
    obtain ⟨hk1, hk2⟩ := hk
    subst hk1
    have h2 : lookupLast B k1 = some t2 := hb (k1, t2) (by simp)
    have ih := all_lookup_iff B as bs hk2 (fun x hx => hb x (List.mem_cons_of_mem _ hx))
    simp only [List.all_cons, h2, Bool.and_eq_true, ih, termEq_iff, eraseAssign, List.map_cons,
      List.cons.injEq, Prod.mk.injEq, true_and]

theorem assignEq_keys {a b : Assign} (h : assignEq a b = true) : a.map (·.1) = b.map (·.1) := by
  simp only [assignEq, Bool.and_eq_true, beq_iff_eq] at h; exact h.1

theorem erase_keys {a b : Assign} (h : eraseAssign a = eraseAssign b) : a.map (·.1) = b.map (·.1) := by
  rw [← keys_eraseAssign a, ← keys_eraseAssign b, h]

/-- with distinct keys (on either side), `assignEq` decides equality of the erased assignments -/
theorem assignEq_iff {a b : Assign} (h : (a.map (·.1)).Nodup ∨ (b.map (·.1)).Nodup) :
    assignEq a b = true ↔ eraseAssign a = eraseAssign b := by
  have key : a.map (·.1) = b.map (·.1) → (assignEq a b = true ↔ eraseAssign a = eraseAssign b) := by
    intro hk
    have hb : (b.map (·.1)).Nodup := by
      rcases h with h | h
      · rw [← hk]; exact h
      · exact h
    have := all_lookup_iff b a b hk (fun x hx => lookupLast_of_mem_nodup hb (by simpa using hx))
    simp only [assignEq, Bool.and_eq_true, beq_iff_eq, hk, true_and]
    exact this
  constructor
  · intro he; exact (key (assignEq_keys he)).1 he
  · intro he; exact (key (erase_keys he)).2 he

end Eq

/-! ### the normal form decided by `eqOps` -/

def RecMap.forget (r : RecMap) : RecMap := { r with needed := [] }

namespace Ops

/-- `erase` + forget the `needed` field of record maps -/
def norm : Ops → Ops
  | table n cs => table n cs
  | extend s ops p od rv w => extend s.norm (eraseAssign ops) p od rv w
  | project s ops g => project s.norm (eraseAssign ops) g
  | selectRows s e => selectRows s.norm e.erase
  | selectCols s cs => selectCols s.norm cs
  | dropCols s ds => dropCols s.norm ds
  | order s cs rv lim => order s.norm cs rv lim
  | rename s m => rename s.norm m
  | mapCols s m ds => mapCols s.norm m ds
  | join a b oa ob t => join a.norm b.norm oa ob t
  | concat a b idc an bn => concat a.norm b.norm idc an bn
  | convert s rm => convert s.norm rm.forget

theorem cols_norm : ∀ p : Ops, p.norm.cols = p.cols := by
  intro p
  induction p <;> simp_all [norm, cols, Eq.keys_eraseAssign, RecMap.forget]

theorem cols_erase : ∀ p : Ops, p.erase.cols = p.cols := by
  intro p
  induction p <;> simp_all [erase, cols, Eq.keys_eraseAssign]

theorem cols_eq_of_norm_eq {p q : Ops} (h : p.norm = q.norm) : p.cols = q.cols := by
  rw [← cols_norm p, ← cols_norm q, h]

theorem dictWF_norm : ∀ p : Ops, p.norm.DictWF ↔ p.DictWF := by
  intro p
  induction p <;> simp_all [norm, DictWF, Eq.keys_eraseAssign]

end Ops

namespace Eq
open Ops

/-- `eqOps` decides equality of normal forms (dict keys distinct on either side). -/
theorem eqOps_iff_norm : ∀ (p q : Ops), (p.DictWF ∨ q.DictWF) → (eqOps p q = true ↔ p.norm = q.norm) := by
  intro p
  induction p with
  | table n c => intro q _; cases q <;> simp [eqOps, norm]
  | extend s o pt od r w ih =>
    intro q h
    cases q <;> try (simp [eqOps, norm]; done)
    case extend s2 o2 pt2 od2 r2 w2 =>
      have hs : s.DictWF ∨ s2.DictWF := h.imp (·.2) (·.2)
      have ho : (o.map (·.1)).Nodup ∨ (o2.map (·.1)).Nodup := h.imp (·.1) (·.1)
      constructor
      · intro he
        simp only [eqOps, Bool.and_eq_true, beq_iff_eq] at he
        obtain ⟨⟨⟨⟨⟨⟨_, h1⟩, h2⟩, h3⟩, h4⟩, h5⟩, h6⟩ := he
        simp [norm, (ih s2 hs).1 h6, (assignEq_iff ho).1 h5, h1, h2, h3, h4]
      · intro hn
        have hc := cols_eq_of_norm_eq hn
        simp only [norm, Ops.extend.injEq] at hn
        obtain ⟨g1, g2, g3, g4, g5, g6⟩ := hn
        simp only [cols] at hc
        simp [eqOps, hc, (ih s2 hs).2 g1, (assignEq_iff ho).2 g2, g3, g4, g5, g6]
  | project s o g ih =>
    intro q h
    cases q <;> try (simp [eqOps, norm]; done)
    case project s2 o2 g2 =>
      have hs : s.DictWF ∨ s2.DictWF := h.imp (·.2) (·.2)
      have ho : (o.map (·.1)).Nodup ∨ (o2.map (·.1)).Nodup := h.imp (·.1) (·.1)
      constructor
      · intro he
        simp only [eqOps, Bool.and_eq_true, beq_iff_eq] at he
        obtain ⟨⟨⟨_, h1⟩, h2⟩, h3⟩ := he
        simp [norm, (ih s2 hs).1 h3, (assignEq_iff ho).1 h2, h1]
      · intro hn
        have hc := cols_eq_of_norm_eq hn
        simp only [norm, Ops.project.injEq] at hn
        obtain ⟨g1, g2, rfl⟩ := hn
        simp only [cols] at hc
        simp [eqOps, hc, (ih s2 hs).2 g1, (assignEq_iff ho).2 g2]
  | selectRows s e ih =>
    intro q h
    cases q <;> try (simp [eqOps, norm]; done)
    case selectRows s2 e2 =>
      have hs : s.DictWF ∨ s2.DictWF := h
      constructor
      · intro he
        simp only [eqOps, Bool.and_eq_true, beq_iff_eq] at he
        obtain ⟨⟨_, h1⟩, h2⟩ := he
        simp [norm, (ih s2 hs).1 h2, (termEq_iff _ _).1 h1]
      · intro hn
        simp only [norm, Ops.selectRows.injEq] at hn
        obtain ⟨g1, g2⟩ := hn
        simp [eqOps, cols_eq_of_norm_eq g1, (ih s2 hs).2 g1, (termEq_iff _ _).2 g2]
  | selectCols s cs ih =>
    intro q h
    cases q <;> try (simp [eqOps, norm]; done)
    case selectCols s2 cs2 =>
      have hs : s.DictWF ∨ s2.DictWF := h
      simp only [eqOps, Bool.and_eq_true, beq_iff_eq, norm, Ops.selectCols.injEq, ih s2 hs]
      exact and_comm
  | dropCols s ds ih =>
    intro q h
    cases q <;> try (simp [eqOps, norm]; done)
    case dropCols s2 ds2 =>
      have hs : s.DictWF ∨ s2.DictWF := h
      constructor
      · intro he
        simp only [eqOps, Bool.and_eq_true, beq_iff_eq] at he
        simp [norm, (ih s2 hs).1 he.2, he.1.2]
      · intro hn
        have hc := cols_eq_of_norm_eq hn
        simp only [norm, Ops.dropCols.injEq] at hn
        obtain ⟨g1, rfl⟩ := hn
        simp [eqOps, hc, (ih s2 hs).2 g1]
  | order s cs rv lim ih =>
    intro q h
    cases q <;> try (simp [eqOps, norm]; done)
    case order s2 cs2 rv2 lim2 =>
      have hs : s.DictWF ∨ s2.DictWF := h
      constructor
      · intro he
        simp only [eqOps, Bool.and_eq_true, beq_iff_eq] at he
        obtain ⟨⟨⟨⟨_, h1⟩, h2⟩, h3⟩, h4⟩ := he
        simp [norm, (ih s2 hs).1 h4, h1, h2, h3]
      · intro hn
        simp only [norm, Ops.order.injEq] at hn
        obtain ⟨g1, g2, g3, g4⟩ := hn
        simp [eqOps, cols_eq_of_norm_eq g1, (ih s2 hs).2 g1, g2, g3, g4]
  | rename s m ih =>
    intro q h
    cases q <;> try (simp [eqOps, norm]; done)
    case rename s2 m2 =>
      have hs : s.DictWF ∨ s2.DictWF := h
      constructor
      · intro he
        simp only [eqOps, Bool.and_eq_true, beq_iff_eq] at he
        simp [norm, (ih s2 hs).1 he.2, he.1.2]
      · intro hn
        have hc := cols_eq_of_norm_eq hn
        simp only [norm, Ops.rename.injEq] at hn
        obtain ⟨g1, rfl⟩ := hn
        simp [eqOps, hc, (ih s2 hs).2 g1]
  | mapCols s m ds ih =>
    intro q h
    cases q <;> try (simp [eqOps, norm]; done)
    case mapCols s2 m2 ds2 =>
      have hs : s.DictWF ∨ s2.DictWF := h
      constructor
      · intro he
        simp only [eqOps, Bool.and_eq_true, beq_iff_eq] at he
        simp [norm, (ih s2 hs).1 he.2, he.1.1.2, he.1.2]
      · intro hn
        have hc := cols_eq_of_norm_eq hn
        simp only [norm, Ops.mapCols.injEq] at hn
        obtain ⟨g1, rfl, rfl⟩ := hn
        simp [eqOps, hc, (ih s2 hs).2 g1]
  | join a b oa ob t iha ihb =>
    intro q h
    cases q <;> try (simp [eqOps, norm]; done)
    case join a2 b2 oa2 ob2 t2 =>
      have ha : a.DictWF ∨ a2.DictWF := h.imp (·.1) (·.1)
      have hb : b.DictWF ∨ b2.DictWF := h.imp (·.2) (·.2)
      constructor
      · intro he
        simp only [eqOps, Bool.and_eq_true, beq_iff_eq] at he
        obtain ⟨⟨⟨⟨⟨_, h1⟩, h2⟩, h3⟩, h4⟩, h5⟩ := he
        simp [norm, (iha a2 ha).1 h4, (ihb b2 hb).1 h5, h1, h2, h3]
      · intro hn
        have hc := cols_eq_of_norm_eq hn
        simp only [norm, Ops.join.injEq] at hn
        obtain ⟨g1, g2, rfl, rfl, rfl⟩ := hn
        simp [eqOps, hc, (iha a2 ha).2 g1, (ihb b2 hb).2 g2]
  | concat a b idc an bn iha ihb =>
    intro q h
    cases q <;> try (simp [eqOps, norm]; done)
    case concat a2 b2 idc2 an2 bn2 =>
      have ha : a.DictWF ∨ a2.DictWF := h.imp (·.1) (·.1)
      have hb : b.DictWF ∨ b2.DictWF := h.imp (·.2) (·.2)
      constructor
      · intro he
        simp only [eqOps, Bool.and_eq_true, beq_iff_eq] at he
        obtain ⟨⟨⟨⟨⟨_, h1⟩, h2⟩, h3⟩, h4⟩, h5⟩ := he
        simp [norm, (iha a2 ha).1 h4, (ihb b2 hb).1 h5, h1, h2, h3]
      · intro hn
        have hc := cols_eq_of_norm_eq hn
        simp only [norm, Ops.concat.injEq] at hn
        obtain ⟨g1, g2, rfl, rfl, rfl⟩ := hn
        simp [eqOps, hc, (iha a2 ha).2 g1, (ihb b2 hb).2 g2]
  | convert s rm ih =>
    intro q h
    cases q <;> try (simp [eqOps, norm]; done)
    case convert s2 rm2 =>
      have hs : s.DictWF ∨ s2.DictWF := h
      simp only [eqOps, Bool.and_eq_true, beq_iff_eq, norm, Ops.convert.injEq, ih s2 hs, RecMap.forget,
        RecMap.mk.injEq, true_and]
      constructor
      · rintro ⟨⟨h1, h2⟩, h3⟩; exact ⟨h3, h1, h2⟩
      · rintro ⟨h3, h1, h2⟩; exact ⟨⟨h1, h2⟩, h3⟩

theorem eqOps_refl (p : Ops) (h : p.DictWF) : eqOps p p = true := (eqOps_iff_norm p p (.inl h)).2 rfl

theorem eqOps_symm (p q : Ops) (h : p.DictWF ∨ q.DictWF) : eqOps p q = eqOps q p := by
  rw [Bool.eq_iff_iff, eqOps_iff_norm p q h, eqOps_iff_norm q p h.symm]; exact eq_comm

theorem dictWF_of_norm_eq {p q : Ops} (h : p.norm = q.norm) : p.DictWF ↔ q.DictWF := by
  rw [← dictWF_norm p, ← dictWF_norm q, h]

theorem eqOps_trans {p q r : Ops} (hp : p.DictWF) (h1 : eqOps p q = true) (h2 : eqOps q r = true) :
    eqOps p r = true := by
  have e1 := (eqOps_iff_norm p q (.inl hp)).1 h1
  have hq : q.DictWF := (dictWF_of_norm_eq e1).1 hp
  have e2 := (eqOps_iff_norm q r (.inl hq)).1 h2
  exact (eqOps_iff_norm p r (.inl hp)).2 (e1.trans e2)

/-! ### from the normal form back to `erase` (which keeps `needed`) -/

/-- forget the `needed` field of every record map -/
def forgetNeeded : Ops → Ops
  | .table n cs => .table n cs
  | .extend s ops p od rv w => .extend (forgetNeeded s) ops p od rv w
  | .project s ops g => .project (forgetNeeded s) ops g
  | .selectRows s e => .selectRows (forgetNeeded s) e
  | .selectCols s cs => .selectCols (forgetNeeded s) cs
  | .dropCols s ds => .dropCols (forgetNeeded s) ds
  | .order s cs rv lim => .order (forgetNeeded s) cs rv lim
  | .rename s m => .rename (forgetNeeded s) m
  | .mapCols s m ds => .mapCols (forgetNeeded s) m ds
  | .join a b oa ob t => .join (forgetNeeded a) (forgetNeeded b) oa ob t
  | .concat a b idc an bn => .concat (forgetNeeded a) (forgetNeeded b) idc an bn
  | .convert s rm => .convert (forgetNeeded s) rm.forget

theorem norm_eq_forget_erase (p : Ops) : p.norm = forgetNeeded p.erase := by
  induction p <;> simp_all [norm, erase, forgetNeeded]

theorem norm_eq_of_erase_eq {p q : Ops} (h : p.erase = q.erase) : p.norm = q.norm := by
  rw [norm_eq_forget_erase, norm_eq_forget_erase, h]

theorem recCoherent_left {a b a2 b2 : Ops} (h : ∀ r1 ∈ a.recmaps ++ b.recmaps, ∀ r2 ∈ a2.recmaps ++ b2.recmaps,
    r1.produced = r2.produced → r1.repr = r2.repr → r1.needed = r2.needed) : RecCoherent a a2 :=
  fun r1 h1 r2 h2 => h r1 (List.mem_append_left _ h1) r2 (List.mem_append_left _ h2)

theorem recCoherent_right {a b a2 b2 : Ops} (h : ∀ r1 ∈ a.recmaps ++ b.recmaps, ∀ r2 ∈ a2.recmaps ++ b2.recmaps,
    r1.produced = r2.produced → r1.repr = r2.repr → r1.needed = r2.needed) : RecCoherent b b2 :=
  fun r1 h1 r2 h2 => h r1 (List.mem_append_right _ h1) r2 (List.mem_append_right _ h2)

theorem erase_eq_of_norm_eq : ∀ (p q : Ops), p.norm = q.norm → RecCoherent p q → p.erase = q.erase := by
  intro p
  induction p with
  | table n c => intro q h _; cases q <;> simp_all [norm, erase]
  | extend s o pt od r w ih =>
    intro q h hc; cases q <;> simp [norm] at h
    case extend s2 _ _ _ _ _ => simp [erase, ih s2 h.1 hc, h.2]
  | project s o g ih =>
    intro q h hc; cases q <;> simp [norm] at h
    case project s2 _ _ => simp [erase, ih s2 h.1 hc, h.2]
  | selectRows s e ih =>
    intro q h hc; cases q <;> simp [norm] at h
    case selectRows s2 _ => simp [erase, ih s2 h.1 hc, h.2]
  | selectCols s cs ih =>
    intro q h hc; cases q <;> simp [norm] at h
    case selectCols s2 _ => simp [erase, ih s2 h.1 hc, h.2]
  | dropCols s ds ih =>
    intro q h hc; cases q <;> simp [norm] at h
    case dropCols s2 _ => simp [erase, ih s2 h.1 hc, h.2]
  | order s cs rv lim ih =>
    intro q h hc; cases q <;> simp [norm] at h
    case order s2 _ _ _ => simp [erase, ih s2 h.1 hc, h.2]
  | rename s m ih =>
    intro q h hc; cases q <;> simp [norm] at h
    case rename s2 _ => simp [erase, ih s2 h.1 hc, h.2]
  | mapCols s m ds ih =>
    intro q h hc; cases q <;> simp [norm] at h
    case mapCols s2 _ _ => simp [erase, ih s2 h.1 hc, h.2]
  | join a b oa ob t iha ihb =>
    intro q h hc; cases q <;> simp [norm] at h
    case join a2 b2 _ _ _ =>
      simp [erase, iha a2 h.1 (recCoherent_left hc), ihb b2 h.2.1 (recCoherent_right hc), h.2.2]
  | concat a b idc an bn iha ihb =>
    intro q h hc; cases q <;> simp [norm] at h
    case concat a2 b2 _ _ _ =>
      simp [erase, iha a2 h.1 (recCoherent_left hc), ihb b2 h.2.1 (recCoherent_right hc), h.2.2]
  | convert s rm ih =>
    intro q h hc; cases q <;> simp [norm] at h
    case convert s2 rm2 =>
      have hs : RecCoherent s s2 := fun r1 h1 r2 h2 => hc r1 (List.mem_cons_of_mem _ h1) r2 (List.mem_cons_of_mem _ h2)
      obtain ⟨h1, h2⟩ := h
      simp only [RecMap.forget, RecMap.mk.injEq, true_and] at h2
      have hn : rm.needed = rm2.needed := hc rm (by simp [recmaps]) rm2 (by simp [recmaps]) h2.1 h2.2
      have : rm = rm2 := by
        cases rm; cases rm2; simp_all
      simp [erase, ih s2 h1 hs, this]

/-- `eqOps` decides "structurally identical up to the `method` flags" (`erase`), given the two representation
invariants. -/
theorem eqOps_iff_erase (p q : Ops) (h : p.DictWF ∨ q.DictWF) (hc : RecCoherent p q) :
    eqOps p q = true ↔ p.erase = q.erase := by
  rw [eqOps_iff_norm p q h]
  exact ⟨fun hn => erase_eq_of_norm_eq p q hn hc, norm_eq_of_erase_eq⟩

end Eq
end DAVerif
