import DAVerif.Proofs.SqlUnary
/-!
C01/C02: per-node lemmas for `extend` (plain and windowed, without the extend merge) and `project`.
-/
namespace DAVerif
namespace Sql
open DAVerif.Ops (usedFromSources unionL)
open Rules26 (usedBy keys)

variable {Θ : Interp} {ec : EngineCfg} {env : Env} {scfg : SemCfg} {G : Near → Prop} {cfg : SqlCfg}

/-! ### dictionary helpers -/

theorem lookupLast_map_val {β γ : Type} (m : List (String × β)) (f : β → γ) (k : String) :
    lookupLast (m.map (fun kv => (kv.1, f kv.2))) k = (lookupLast m k).map f := by
  induction m with
  | nil => rfl
  | cons kv m ih =>
    obtain ⟨k0, v0⟩ := kv
    rw [List.map_cons, lookupLast_cons, lookupLast_cons, ih]
    cases lookupLast m k with
    | some x => rfl
    | none => by_cases h : k = k0 <;> simp [h]

theorem lookupLast_filter_key {β : Type} (m : List (String × β)) (P : String → Bool) (k : String) :
    lookupLast (m.filter (fun kv => P kv.1)) k = if P k = true then lookupLast m k else none := by
  induction m with
  | nil => simp [lookupLast_nil]
  | cons kv m ih =>
    obtain ⟨k0, v0⟩ := kv
    rw [List.filter_cons]
    by_cases hP : P k0 = true
    · simp only [hP, ↓reduceIte, lookupLast_cons, ih]
      by_cases hk : k = k0
      · subst hk; simp [hP]
      · simp [hk]
    · have hP' : P k0 = false := by simpa using hP
      simp only [hP', Bool.false_eq_true, ↓reduceIte, lookupLast_cons, ih]
      by_cases hk : k = k0
      · subst hk; simp [hP']
      · simp [hk]

theorem Row.get_eq_lookupLast_of_nodup (r : Row) (h : r.keys.Nodup) (c : String) :
    r.get c = (lookupLast r c).getD .null := by
  induction r with
  | nil => rfl
  | cons kv r ih =>
    obtain ⟨k, v⟩ := kv
    simp only [Row.keys, List.map_cons, List.nodup_cons] at h
    rw [Row.get_cons, lookupLast_cons, ih h.2]
    by_cases hc : c = k
    · subst hc
      have : lookupLast r c = none := lookupLast_eq_none_iff.mpr h.1
      simp [this]
    · simp only [hc, ↓reduceIte, Option.or_none]

theorem Row.get_append (a b : Row) (c : String) :
    Row.get (a ++ b) c = if c ∈ a.keys then a.get c else b.get c := by
  induction a with
  | nil => simp [Row.keys]
  | cons kv a ih =>
    obtain ⟨k, v⟩ := kv
    rw [List.cons_append, Row.get_cons, ih, Row.get_cons]
    by_cases hc : c = k
    · subst hc; simp [Row.keys]
    · simp only [Row.keys, List.map_cons, List.mem_cons, hc, false_or, ↓reduceIte]
      rfl

theorem bind_ok_inv {x : Except Err Table} {f : Table → Except Err Table} {tp : Table}
    (h : (x >>= f) = Except.ok tp) : ∃ ts, x = .ok ts ∧ f ts = .ok tp := by
  cases x with
  | error e => cases h
  | ok ts => exact ⟨ts, rfl, h⟩

/-! ### extend -/

/-- a row after `setAll` and re-selection, restricted to columns that were not assigned -/
theorem select_setAll_select (r : Row) (kvs : List (String × Val)) {oc u' : List String}
    (h : ∀ c ∈ u', c ∈ oc ∧ c ∉ kvs.map (·.1)) :
    ((r.setAll kvs).select oc).select u' = r.select u' := by
  apply Row.select_congr.mpr
  intro c hc
  rw [Row.get_select_mem (h c hc).1, Row.get_setAll, lookupLast_eq_none_iff.mpr (h c hc).2]
  rfl

/-- the term of a requested column in the SELECT list of an extend step -/
theorem look_extend_terms (ops : Assign) (usg : List String) (win : Option Win) {c : String} (hc : c ∈ usg) :
    lookupLast
      ((usg.filter (fun k => !((ops.filter (fun kv => usg.contains kv.1)).map (·.1)).contains k)).map
          (fun k => (k, STerm.pass)) ++
        (ops.filter (fun kv => usg.contains kv.1)).map (fun kv => (kv.1, STerm.expr kv.2 win))) c =
      match lookupLast ops c with
      | some t => some (STerm.expr t win)
      | none => some STerm.pass := by
  rw [lookupLast_append, lookupLast_map_val (ops.filter (fun kv => usg.contains kv.1)) (fun t => STerm.expr t win),
    lookupLast_filter_key ops (fun k => usg.contains k), if_pos (by simpa using hc)]
  cases hl : lookupLast ops c with
  | some t => rfl
  | none =>
    simp only [Option.map_none, Option.none_or, lookupLast_map_const]
    rw [if_pos]
    apply List.mem_filter.mpr
    refine ⟨hc, ?_⟩
    simp only [List.contains_eq_mem, List.mem_map, List.mem_filter, Bool.not_eq_eq_eq_not, Bool.not_true,
      decide_eq_false_iff_not, not_exists, not_and]
    intro kv hkv e
    exact lookupLast_eq_none_iff.mp hl (List.mem_map.mpr ⟨kv, hkv.1, e⟩)

theorem mem_usg {u part order rev : List String} {c : String} :
    c ∈ unionL (unionL (unionL u part) order) rev ↔ c ∈ u ∨ c ∈ part ∨ c ∈ order ∨ c ∈ rev := by
  simp only [mem_unionL, or_assoc]

/-- the window term of a SELECT list evaluates to `winCell` with the engine's comparison -/
theorem termVal_win (Θ : Interp) (ec : EngineCfg) (idx : List (Row × Nat)) (ri : Row × Nat) (k : String) (t : Term)
    (part order rev : List String) :
    termVal Θ ec idx ri k (some (.expr t (some ⟨part, order, rev⟩))) =
      winCell (sqlRowLe ec) Θ part order rev idx ri t := rfl

theorem transOK_extend (hG : ShapeOK Θ ec env G) (hm : cfg.merges = false) (fuel : Nat) (src : Ops) (ops : Assign)
    (part order rev : List String) (w : Bool)
    (hext : ExtOK src.cols ops part order rev w)
    (ih : TransOK Θ ec env scfg G cfg fuel src) :
    TransOK Θ ec env scfg G cfg (fuel + 1) (.extend src ops part order rev w) := by
  intro u st q st' tp hu h hsem
  obtain ⟨hused, hpart, hord, hrev, hkeys, hwf, _⟩ := hext
  simp only [semG] at hsem
  obtain ⟨ts, hts, htp⟩ := bind_ok_inv hsem
  rw [toNear] at h
  simp only [Option.getD_some] at h
  generalize husg : unionL (unionL (unionL u part) order) rev = usg at h
  have hmem : ∀ c, c ∈ usg ↔ c ∈ u ∨ c ∈ part ∨ c ∈ order ∨ c ∈ rev := by
    intro c; rw [← husg]; exact mem_usg
  have hncols : ∀ c, c ∈ (Ops.extend src ops part order rev w).cols ↔ c ∈ src.cols ∨ c ∈ ops.map (·.1) := by
    intro c; simp only [Ops.cols]; exact mem_appendNew
  have husgn : ∀ c ∈ usg, c ∈ (Ops.extend src ops part order rev w).cols := by
    intro c hc
    rcases (hmem c).mp hc with h | h | h | h
    · exact hu c h
    · exact (hncols c).mpr (Or.inl (hpart c h))
    · exact (hncols c).mpr (Or.inl (hord c h))
    · exact (hncols c).mpr (Or.inl (hord c (hrev c h)))
  have huusg : ∀ c ∈ u, c ∈ usg := fun c hc => (hmem c).mpr (Or.inl hc)
  -- the reference rows on columns that are not assigned
  have hpassrows : ∀ u' : List String, (∀ c ∈ u', c ∈ usg ∧ c ∉ ops.map (·.1)) →
      tp.rows.map (fun r => r.select u') = ts.rows.map (fun r => r.select u') := by
    intro u' hu'
    cases w
    · simp only [Bool.false_eq_true, ↓reduceIte, pure, Except.pure, Except.ok.injEq] at htp
      subst htp
      simp only [semExtendPlain]
      rw [List.map_map]
      apply List.map_congr_left
      intro r _
      exact select_setAll_select r _ (fun c hc => ⟨husgn c (hu' c hc).1, by
        simpa [List.map_map, Function.comp_def] using (hu' c hc).2⟩)
    · simp only [↓reduceIte, pure, Except.pure, Except.ok.injEq] at htp
      subst htp
      simp only [semExtendWindowG]
      rw [List.map_map, ← zipIdx_map_fun_fst ts.rows (fun r => r.select u') 0]
      apply List.map_congr_left
      intro ri _
      exact select_setAll_select ri.1 _ (fun c hc => ⟨husgn c (hu' c hc).1, by
        simpa [List.map_map, Function.comp_def] using (hu' c hc).2⟩)
  split at h
  · -- no assignment is needed: the source is translated for the enlarged column set
    rename_i hempty
    have hnokey : ∀ c ∈ usg, c ∉ ops.map (·.1) := by
      intro c hc hk
      obtain ⟨kv, hkv, rfl⟩ := List.mem_map.mp hk
      have : kv ∈ ops.filter (fun kv => usg.contains kv.1) := List.mem_filter.mpr ⟨hkv, by simpa using hc⟩
      rw [List.isEmpty_iff.mp hempty] at this
      cases this
    have husgsrc : ∀ c ∈ usg, c ∈ src.cols := by
      intro c hc
      rcases (hncols c).mp (husgn c hc) with h | h
      · exact h
      · exact absurd h (hnokey c hc)
    obtain ⟨hGq, S₁, hS₁, _, hsound⟩ := ih usg st q st' ts husgsrc h hts
    refine ⟨hGq, usg, huusg, husgn, ?_⟩
    exact (hsound.restrict hS₁).mono (fun c hc => (hncols c).mpr (Or.inl hc))
      (fun u' hu' => hpassrows u' (fun c hc => ⟨hu' c hc, hnokey c (hu' c hc)⟩))
  · rename_i hnonempty
    obtain ⟨_, st1, h1, h2⟩ := bindM_ok.mp h
    obtain ⟨_, hst⟩ := guardM_ok.mp h1
    cases hst
    obtain ⟨_, st2, h3, h4⟩ := bindM_ok.mp h2
    obtain ⟨_, hst⟩ := guardM_ok.mp h3
    cases hst
    obtain ⟨sub, st3, h5, h6⟩ := bindM_ok.mp h4
    rw [hm] at h6
    simp only [] at h6
    obtain ⟨i, st4, _, h7⟩ := bindM_ok.mp h6
    rw [pureM_ok] at h7
    cases h7
    -- the columns requested from the source
    generalize hSdef : ((Ops.extend src ops part order rev w).usedFromSources usg).headD [] = S at h5 ⊢
    have hmemS : ∀ c, c ∈ S ↔ c ∈ src.cols ∧
        ((c ∈ usg ∧ c ∉ (ops.filter (fun kv => usg.contains kv.1)).map (·.1)) ∨
          c ∈ Term.colsUsedOps (ops.filter (fun kv => usg.contains kv.1))) := by
      intro c
      have hS0 : ((Ops.extend src ops part order rev w).usedFromSources usg).headD [] =
          src.cols.filter (fun c => (unionL
            ((unionL (unionL (unionL usg part) order) rev).filter
              (fun c => !((ops.filter (fun kv => usg.contains kv.1)).map (·.1)).contains c))
            (Term.colsUsedOps (ops.filter (fun kv => usg.contains kv.1)))).contains c) := by
        simp only [usedFromSources]
        rw [if_neg hnonempty]
        rfl
      rw [← hSdef, hS0, List.mem_filter, contains_iff, mem_unionL, List.mem_filter, mem_usg]
      have hb : ((!((ops.filter (fun kv => usg.contains kv.1)).map (·.1)).contains c) = true) ↔
          c ∉ (ops.filter (fun kv => usg.contains kv.1)).map (·.1) := by simp
      rw [hb]
      constructor
      · rintro ⟨h1, ⟨h2, h3⟩ | h2⟩
        · refine ⟨h1, Or.inl ⟨?_, h3⟩⟩
          rcases h2 with h | h | h | h
          · exact h
          · exact (hmem c).mpr (Or.inr (Or.inl h))
          · exact (hmem c).mpr (Or.inr (Or.inr (Or.inl h)))
          · exact (hmem c).mpr (Or.inr (Or.inr (Or.inr h)))
        · exact ⟨h1, Or.inr h2⟩
      · rintro ⟨h1, ⟨h2, h3⟩ | h2⟩
        · exact ⟨h1, Or.inl ⟨Or.inl h2, h3⟩⟩
        · exact ⟨h1, Or.inr h2⟩
    have hSsrc : ∀ c ∈ S, c ∈ src.cols := fun c hc => ((hmemS c).mp hc).1
    -- an unassigned requested column is requested from the source
    have hpassS : ∀ c ∈ usg, lookupLast ops c = none → c ∈ S := by
      intro c hc hl
      have hnk : c ∉ ops.map (·.1) := lookupLast_eq_none_iff.mp hl
      refine (hmemS c).mpr ⟨?_, Or.inl ⟨hc, ?_⟩⟩
      · rcases (hncols c).mp (husgn c hc) with h | h
        · exact h
        · exact absurd h hnk
      · intro hk
        obtain ⟨kv, hkv, e⟩ := List.mem_map.mp hk
        exact hnk (List.mem_map.mpr ⟨kv, (List.mem_filter.mp hkv).1, e⟩)
    -- the columns of a kept assignment are requested from the source
    have hexprS : ∀ c ∈ usg, ∀ t, lookupLast ops c = some t → ∀ x ∈ Term.colsRaw t, x ∈ S := by
      intro c hc t hl x hx
      have hkv : (c, t) ∈ ops := lookupLast_mem hl
      refine (hmemS x).mpr ⟨hused x (List.mem_flatMap.mpr ⟨(c, t), hkv, hx⟩), Or.inr ?_⟩
      exact mem_colsUsedOps.mpr ⟨(c, t), List.mem_filter.mpr ⟨hkv, by simpa using hc⟩, hx⟩
    obtain ⟨_, S₁, hS₁, _, hsound⟩ := ih S st sub st3 ts hSsrc h5 hts
    obtain ⟨T0, g1, g2, g4⟩ := hsound.req S hS₁ false
    refine ⟨hG.simple _ rfl, usg, huusg, husgn, ?_⟩
    -- the SELECT list
    generalize hwin : (if (w || !part.isEmpty || !order.isEmpty) = true then
      some ({ partition := part, order := order, reverse := rev } : Win) else none) = win
    generalize hterms : (usg.filter (fun k => !((ops.filter (fun kv => usg.contains kv.1)).map (·.1)).contains k)).map
          (fun k => (k, STerm.pass)) ++
        (ops.filter (fun kv => usg.contains kv.1)).map (fun kv => (kv.1, STerm.expr kv.2 win)) = terms
    have hlook : ∀ c ∈ usg, lookupLast terms c =
        match lookupLast ops c with
        | some t => some (STerm.expr t win)
        | none => some STerm.pass := by
      intro c hc; rw [← hterms]; exact look_extend_terms ops usg win hc
    have hkeysT : ∀ c, c ∈ terms.map (·.1) ↔ c ∈ usg := by
      intro c
      rw [← lookupLast_isSome_iff]
      constructor
      · intro h
        rw [← hterms, lookupLast_isSome_iff] at h
        simp only [List.map_append, List.map_map, List.mem_append, List.mem_map, Function.comp_def,
          List.mem_filter] at h
        rcases h with ⟨k, ⟨hk, _⟩, rfl⟩ | ⟨kv, ⟨_, hkv⟩, rfl⟩
        · exact hk
        · simpa using hkv
      · intro hc
        rw [hlook c hc]
        cases lookupLast ops c <;> rfl
    have htne : terms ≠ [] := by
      intro e
      obtain ⟨kv, hkv⟩ := List.exists_mem_of_ne_nil _ (by simpa using hnonempty :
        ops.filter (fun kv => usg.contains kv.1) ≠ [])
      have : kv.1 ∈ terms.map (·.1) := by
        rw [← hterms]
        simp only [List.map_append, List.map_map, List.mem_append, List.mem_map, Function.comp_def]
        exact Or.inr ⟨kv, hkv, rfl⟩
      rw [e] at this
      cases this
    have hmk : mkTerms terms = some terms := by simp [mkTerms, htne]
    rw [hmk]
    refine ⟨?_, fun _ => ⟨terms.map (·.1), rfl, fun k hk => husgn k ((hkeysT k).mp hk),
      fun c hc => (hkeysT c).mpr hc⟩⟩
    intro u' hu' force
    refine ⟨_, semNear_unary_ok g1 (some u') force, subset_outCols_some (fc := T0.cols), ?_⟩
    simp only
    rw [stepRows_select _ _ _ _ _ (subset_outCols_some (fc := T0.cols))]
    cases w
    · -- plain extend
      have hp : part = [] := (hwf rfl).2.1
      have ho : order = [] := (hwf rfl).2.2
      subst hp ho
      simp only [Bool.false_eq_true, ↓reduceIte, pure, Except.pure, Except.ok.injEq] at htp
      subst htp
      have hw : win = none := by rw [← hwin]; rfl
      subst hw
      rw [stepRows_rowwise]
      · simp only [limitOf, suffixRows, semExtendPlain]
        rw [List.map_map]
        apply map_transport g4
        intro a _ b _ hab
        simp only [Function.comp]
        rw [← select_mkRow (out := u') _ (fun c hc => hc)]
        · apply Row.select_congr.mpr
          intro c hc
          have hcu := hu' c hc
          rw [get_mkRow, if_pos hc, Row.get_select_mem (husgn c hcu), Row.get_setAll,
            lookupLast_map_val ops (fun t => evalCell Θ b t)]
          simp only [lookT, hlook c hcu]
          cases hl : lookupLast ops c with
          | none => exact Row.get_of_select_eq hab (hpassS c hcu hl)
          | some t =>
            simp only [rowVal, Option.map_some, Option.getD_some]
            exact evalCell_congr Θ t (fun x hx => Row.get_of_select_eq hab (hexprS c hcu t hl x hx))
      · intro c hc
        simp only [lookT, hlook c (hu' c hc)]
        cases lookupLast ops c <;> rfl
    · -- windowed extend
      simp only [↓reduceIte, pure, Except.pure, Except.ok.injEq] at htp
      subst htp
      have hw : win = some ⟨part, order, rev⟩ := by rw [← hwin]; rfl
      subst hw
      unfold stepRows
      simp only [Bool.false_eq_true, ↓reduceIte, limitOf, suffixRows, semExtendWindowG]
      rw [List.map_map]
      have hidx : T0.rows.zipIdx.map (projIdx S) = ts.rows.zipIdx.map (projIdx S) := by
        rw [zipIdx_projIdx, zipIdx_projIdx, g4]
      have hpS : ∀ c ∈ part, c ∈ S := by
        intro c hc
        have hk : c ∉ ops.map (·.1) := fun hk => (hkeys c hk).1 hc
        exact hpassS c ((hmem c).mpr (Or.inr (Or.inl hc))) (lookupLast_eq_none_iff.mpr hk)
      have hoS : ∀ c ∈ order, c ∈ S := by
        intro c hc
        have hk : c ∉ ops.map (·.1) := fun hk => (hkeys c hk).2 hc
        exact hpassS c ((hmem c).mpr (Or.inr (Or.inr (Or.inl hc)))) (lookupLast_eq_none_iff.mpr hk)
      apply map_transport hidx
      intro ri _ ri' _ hab
      simp only [Function.comp]
      have hab1 : ri.1.select S = ri'.1.select S := congrArg Prod.fst hab
      rw [← select_mkRow (out := u') _ (fun c hc => hc)]
      apply Row.select_congr.mpr
      intro c hc
      have hcu := hu' c hc
      rw [get_mkRow, if_pos hc, Row.get_select_mem (husgn c hcu), Row.get_setAll,
        lookupLast_map_val ops (fun t => winCell (sqlRowLe ec) Θ part order rev ts.rows.zipIdx ri' t)]
      simp only [lookT, hlook c hcu]
      cases hl : lookupLast ops c with
      | none => exact Row.get_of_select_eq hab1 (hpassS c hcu hl)
      | some t =>
        simp only [Option.map_some, Option.getD_some]
        rw [termVal_win]
        exact winCell_transport (cmpCongr_sqlRowLe ec) Θ part order rev g4 hpS hoS t
          (fun x hx => hexprS c hcu t hl x (argCols_subset_colsRaw t x hx)) hab

/-! ### project -/

theorem get_zip_keyOf (group : List String) (r : Row) {c : String} (hc : c ∈ group) :
    Row.get (group.zip (keyOf r group)) c = r.get c := by
  unfold Row.get keyOf Row.vals
  rw [lookup_zip_map hc]
  rfl

/-- the term of a requested column in the SELECT list of a project step -/
theorem look_project_terms (ops subops : Assign) (group : List String)
    (hdis : ∀ k ∈ ops.map (·.1), k ∉ group) (hsubkeys : ∀ k ∈ subops.map (·.1), k ∈ ops.map (·.1)) (c : String) :
    lookupLast (subops.map (fun kv => (kv.1, STerm.expr kv.2 none)) ++
        (group.filter (fun g => !(subops.map (·.1)).contains g)).map (fun g => (g, STerm.pass))) c =
      if c ∈ group then some STerm.pass else (lookupLast subops c).map (fun t => STerm.expr t none) := by
  rw [lookupLast_append, lookupLast_map_const, lookupLast_map_val subops (fun t => STerm.expr t none)]
  by_cases hc : c ∈ group
  · have : c ∈ group.filter (fun g => !(subops.map (·.1)).contains g) := by
      apply List.mem_filter.mpr
      refine ⟨hc, ?_⟩
      simp only [List.contains_eq_mem, Bool.not_eq_eq_eq_not, Bool.not_true, decide_eq_false_iff_not]
      intro hk
      exact hdis c (hsubkeys c hk) hc
    rw [if_pos this, if_pos hc]
    rfl
  · have : c ∉ group.filter (fun g => !(subops.map (·.1)).contains g) := fun h => hc (List.mem_filter.mp h).1
    rw [if_neg this, if_neg hc]
    rfl

/-- one cell of an aggregation row: SQL term on the group `gL` against the reference row built from `gLp` -/
theorem project_cell {Θ : Interp} (ops subops : Assign) (group S : List String) (gL gLp : List Row) (k : List Val)
    (hnd : (ops.map (·.1)).Nodup) (hdis : ∀ k ∈ ops.map (·.1), k ∉ group)
    (hsubkeys : ∀ k ∈ subops.map (·.1), k ∈ ops.map (·.1))
    (hg : gL.map (fun r => r.select S) = gLp.map (fun r => r.select S))
    (hk : group ≠ [] → ∃ r1, gL.head? = some r1 ∧ keyOf r1 group = k)
    {c : String} (hc : c ∈ group ∨ c ∈ ops.map (·.1)) (hlook : lookupLast subops c = lookupLast ops c)
    (hargs : ∀ t, lookupLast ops c = some t → ∀ x ∈ argCols t, x ∈ S) :
    aggVal Θ gL c (lookT (some (subops.map (fun kv => (kv.1, STerm.expr kv.2 none)) ++
        (group.filter (fun g => !(subops.map (·.1)).contains g)).map (fun g => (g, STerm.pass)))) c) =
      Row.get (group.zip k ++ ops.map (fun kv => (kv.1, Θ.agg (opName kv.2) (argValues kv.2 gLp)))) c := by
  simp only [lookT, look_project_terms ops subops group hdis hsubkeys c]
  rw [Row.get_append]
  by_cases hcg : c ∈ group
  · have hgne : group ≠ [] := by intro e; rw [e] at hcg; cases hcg
    obtain ⟨r1, hr1, hk1⟩ := hk hgne
    subst hk1
    have hkeys : c ∈ Row.keys (group.zip (keyOf r1 group)) := by
      simp only [Row.keys]
      have : (group.zip (keyOf r1 group)).map (·.1) = group := by
        apply List.map_fst_zip
        simp [keyOf, Row.vals]
      rw [this]; exact hcg
    rw [if_pos hcg, if_pos hkeys, get_zip_keyOf group r1 hcg]
    simp [aggVal, hr1]
  · have hkeys : c ∉ Row.keys (group.zip k) := by
      simp only [Row.keys, List.mem_map, not_exists, not_and]
      intro kv hkv e
      obtain ⟨a, b⟩ := kv
      exact hcg (e ▸ (List.of_mem_zip hkv).1)
    rw [if_neg hcg, if_neg hkeys, hlook]
    have hck : c ∈ ops.map (·.1) := hc.resolve_left hcg
    have hndm : (Row.keys (ops.map (fun kv => (kv.1, Θ.agg (opName kv.2) (argValues kv.2 gLp))))).Nodup := by
      simpa [Row.keys, List.map_map, Function.comp_def] using hnd
    rw [Row.get_eq_lookupLast_of_nodup _ hndm,
      lookupLast_map_val ops (fun t => Θ.agg (opName t) (argValues t gLp))]
    cases hl : lookupLast ops c with
    | none => exact absurd hck (lookupLast_eq_none_iff.mp hl)
    | some t =>
      simp only [Option.map_some, Option.getD_some, aggVal]
      rw [argValues_congr t (hargs t hl) hg]

theorem transOK_project (hG : ShapeOK Θ ec env G) (fuel : Nat) (src : Ops) (ops : Assign) (group : List String)
    (hgsrc : ∀ c ∈ group, c ∈ src.cols) (hused : ∀ c ∈ usedBy ops, c ∈ src.cols)
    (hnd : (ops.map (·.1)).Nodup) (hdis : ∀ k ∈ ops.map (·.1), k ∉ group) (hne : group ≠ [] ∨ ops ≠ [])
    (ih : TransOK Θ ec env scfg G cfg fuel src) :
    TransOK Θ ec env scfg G cfg (fuel + 1) (.project src ops group) := by
  intro u st q st' tp hu h hsem
  simp only [semG] at hsem
  obtain ⟨ts, hts, rfl⟩ := bind_pure_ok hsem
  rw [toNear] at h
  simp only [Option.getD_some] at h
  have hncols : ∀ c, c ∈ (Ops.project src ops group).cols ↔ c ∈ group ∨ c ∈ ops.map (·.1) := by
    intro c; simp only [Ops.cols]; exact mem_appendNew
  -- the kept assignments and the enlarged request (fix D14)
  generalize hpair : (if ((ops.filter (fun kv => u.contains kv.1)).isEmpty && group.isEmpty && !ops.isEmpty) = true
      then (ops.take 1, u ++ (ops.take 1).map (·.1)) else (ops.filter (fun kv => u.contains kv.1), u)) = pr at h
  have hF1 : ∀ kv ∈ pr.1, kv ∈ ops ∧ kv.1 ∈ pr.2 := by
    intro kv hkv
    rw [← hpair] at hkv ⊢
    split at hkv
    · rw [if_pos (by assumption)]
      refine ⟨List.mem_of_mem_take hkv, ?_⟩
      simp only [List.mem_append, List.mem_map]
      exact Or.inr ⟨kv, hkv, rfl⟩
    · rw [if_neg (by assumption)]
      have := List.mem_filter.mp hkv
      exact ⟨this.1, by simpa using this.2⟩
  have hF2 : ∀ c ∈ u, lookupLast pr.1 c = lookupLast ops c := by
    intro c hc
    rw [← hpair]
    split
    · rename_i hD
      simp only [Bool.and_eq_true, List.isEmpty_iff] at hD
      have hnone : lookupLast ops c = none := by
        apply lookupLast_eq_none_iff.mpr
        intro hk
        obtain ⟨kv, hkv, e⟩ := List.mem_map.mp hk
        have : kv ∈ ops.filter (fun kv => u.contains kv.1) :=
          List.mem_filter.mpr ⟨hkv, by simpa [e] using hc⟩
        rw [hD.1.1] at this
        cases this
      rw [hnone]
      apply lookupLast_eq_none_iff.mpr
      intro hk
      obtain ⟨kv, hkv, e⟩ := List.mem_map.mp hk
      exact lookupLast_eq_none_iff.mp hnone (List.mem_map.mpr ⟨kv, List.mem_of_mem_take hkv, e⟩)
    · simp only
      rw [lookupLast_filter_key ops (fun k => u.contains k), if_pos (by simpa using hc)]
  have hF3 : pr.1 = [] → group ≠ [] := by
    intro he hg
    rw [← hpair] at he
    have hops : ops ≠ [] := hne.resolve_left (fun h => h hg)
    split at he
    · cases ops with
      | nil => exact hops rfl
      | cons a as => simp at he
    · rename_i hD
      apply hD
      simp only [Bool.and_eq_true, List.isEmpty_iff, Bool.not_eq_eq_eq_not, Bool.not_true, List.isEmpty_eq_false_iff]
      exact ⟨⟨he, hg⟩, hops⟩
  have hsubkeys : ∀ k ∈ pr.1.map (·.1), k ∈ ops.map (·.1) := by
    intro k hk
    obtain ⟨kv, hkv, e⟩ := List.mem_map.mp hk
    exact List.mem_map.mpr ⟨kv, (hF1 kv hkv).1, e⟩
  obtain ⟨sub, st1, h1, h2⟩ := bindM_ok.mp h
  obtain ⟨i, st2, _, h4⟩ := bindM_ok.mp h2
  rw [pureM_ok] at h4
  cases h4
  generalize hSdef : ((Ops.project src ops group).usedFromSources pr.2).headD [] = S at h1 ⊢
  have hS0 : S = unionL group (Term.colsUsedOps (ops.filter (fun kv => pr.2.contains kv.1))) := by
    rw [← hSdef]; rfl
  have hgS : ∀ c ∈ group, c ∈ S := fun c hc => by rw [hS0, mem_unionL]; exact Or.inl hc
  have hSsrc : ∀ c ∈ S, c ∈ src.cols := by
    intro c hc
    rw [hS0, mem_unionL] at hc
    rcases hc with hc | hc
    · exact hgsrc c hc
    · obtain ⟨kv, hkv, hx⟩ := mem_colsUsedOps.mp hc
      exact hused c (List.mem_flatMap.mpr ⟨kv, (List.mem_filter.mp hkv).1, hx⟩)
  have hargsS : ∀ c ∈ u, ∀ t, lookupLast ops c = some t → ∀ x ∈ argCols t, x ∈ S := by
    intro c hc t hl x hx
    rw [← hF2 c hc] at hl
    have hkv := lookupLast_mem hl
    obtain ⟨hkvo, hkv2⟩ := hF1 _ hkv
    rw [hS0, mem_unionL]
    right
    exact mem_colsUsedOps.mpr ⟨(c, t), List.mem_filter.mpr ⟨hkvo, by simpa using hkv2⟩,
      argCols_subset_colsRaw t x hx⟩
  obtain ⟨_, S₁, hS₁, _, hsound⟩ := ih S st sub st1 ts hSsrc h1 hts
  obtain ⟨T0, g1, g2, g4⟩ := hsound.req S hS₁ false
  refine ⟨hG.simple _ rfl, u, fun c hc => hc, hu, ?_⟩
  generalize hterms : pr.1.map (fun kv => (kv.1, STerm.expr kv.2 none)) ++
      (group.filter (fun g => !(pr.1.map (·.1)).contains g)).map (fun g => (g, STerm.pass)) = terms
  have hkeysT : ∀ c, c ∈ terms.map (·.1) ↔ c ∈ group ∨ c ∈ pr.1.map (·.1) := by
    intro c
    rw [← lookupLast_isSome_iff, ← hterms, look_project_terms ops pr.1 group hdis hsubkeys c]
    by_cases hc : c ∈ group
    · simp [hc]
    · simp only [hc, ↓reduceIte, Option.isSome_map, false_or]
      exact lookupLast_isSome_iff
  have htne : terms ≠ [] := by
    intro e
    by_cases hp : pr.1 = []
    · obtain ⟨g, hg⟩ := List.exists_mem_of_ne_nil _ (hF3 hp)
      have := (hkeysT g).mpr (Or.inl hg)
      rw [e] at this; cases this
    · obtain ⟨kv, hkv⟩ := List.exists_mem_of_ne_nil _ hp
      have := (hkeysT kv.1).mpr (Or.inr (List.mem_map.mpr ⟨kv, hkv, rfl⟩))
      rw [e] at this; cases this
  have hmk : mkTerms terms = some terms := by simp [mkTerms, htne]
  rw [hmk]
  refine ⟨?_, fun _ => ⟨terms.map (·.1), rfl, ?_, ?_⟩⟩
  · intro u' hu' force
    refine ⟨_, semNear_unary_ok g1 (some u') force, subset_outCols_some (fc := T0.cols), ?_⟩
    simp only
    rw [stepRows_select _ _ _ _ _ (subset_outCols_some (fc := T0.cols))]
    have hcell : ∀ (gL gLp : List Row) (k : List Val), gL.map (fun r => r.select S) = gLp.map (fun r => r.select S) →
        (group ≠ [] → ∃ r1, gL.head? = some r1 ∧ keyOf r1 group = k) →
        u'.map (fun c => (c, aggVal Θ gL c (lookT (some terms) c))) =
          (Row.select (group.zip k ++ ops.map (fun kv => (kv.1, Θ.agg (opName kv.2) (argValues kv.2 gLp))))
            (Ops.project src ops group).cols).select u' := by
      intro gL gLp k hg hk
      unfold Row.select
      apply List.map_congr_left
      intro c hc
      have hcu := hu' c hc
      have hcn := hu c hcu
      rw [show Row.get (List.map (fun c => (c, Row.get (group.zip k ++ ops.map (fun kv =>
          (kv.1, Θ.agg (opName kv.2) (argValues kv.2 gLp)))) c)) (Ops.project src ops group).cols) c
          = Row.get (group.zip k ++ ops.map (fun kv => (kv.1, Θ.agg (opName kv.2) (argValues kv.2 gLp)))) c
        from Row.get_select_mem hcn]
      rw [← hterms]
      rw [project_cell ops pr.1 group S gL gLp k hnd hdis hsubkeys hg hk ((hncols c).mp hcn) (hF2 c hcu)
        (hargsS c hcu)]
    by_cases hg : group = []
    · subst hg
      unfold stepRows
      simp only [List.isEmpty_nil, ↓reduceIte, suffixRows, semProject, List.map_cons, List.map_nil]
      rw [hcell T0.rows ts.rows [] g4 (fun h => absurd rfl h)]
      rfl
    · have hge : group.isEmpty = false := by simpa using hg
      unfold stepRows
      simp only [hge, Bool.false_eq_true, ↓reduceIte, suffixRows, semProject]
      have hkeysEq : T0.rows.map (fun r => keyOf r group) = ts.rows.map (fun r => keyOf r group) :=
        map_transport g4 (fun a _ b _ hab => keyOf_congr (fun c hc => Row.get_of_select_eq hab (hgS c hc)))
      rw [hkeysEq, List.map_map]
      apply List.map_congr_left
      intro k hk
      simp only [Function.comp]
      have hfilt := filter_transport (p := fun r => keyOf r group == k) (p' := fun r => keyOf r group == k) g4
        (fun a _ b _ hab => by
          rw [keyOf_congr (fun c hc => Row.get_of_select_eq hab (hgS c hc))])
      apply hcell _ _ k hfilt
      intro _
      rw [List.mem_eraseDups, ← hkeysEq, List.mem_map] at hk
      obtain ⟨r0, hr0, hk0⟩ := hk
      have hr0' : r0 ∈ T0.rows.filter (fun r => keyOf r group == k) :=
        List.mem_filter.mpr ⟨hr0, by simpa using hk0⟩
      cases hh : (T0.rows.filter (fun r => keyOf r group == k)).head? with
      | none => rw [List.head?_eq_none_iff.mp hh] at hr0'; cases hr0'
      | some r1 =>
        refine ⟨r1, rfl, ?_⟩
        have := List.mem_of_mem_head? (by rw [hh]; rfl : r1 ∈ (T0.rows.filter (fun r => keyOf r group == k)).head?)
        simpa using (List.mem_filter.mp this).2
  · intro k hk
    rcases (hkeysT k).mp hk with h | h
    · exact (hncols k).mpr (Or.inl h)
    · exact (hncols k).mpr (Or.inr (hsubkeys k h))
  · intro c hc
    apply (hkeysT c).mpr
    rcases (hncols c).mp (hu c hc) with h | h
    · exact Or.inl h
    · right
      rw [← lookupLast_isSome_iff, hF2 c hc, lookupLast_isSome_iff]
      exact h

end Sql
end DAVerif
