import DAVerif.Proofs.SqlReach
import DAVerif.Proofs.SqlUnary3
/-!
C01/C02/C16, **nested emulation**: the per-node lemmas of the translation proof with the reference table as a
*parameter*.

`TransOK … fuel p` (`Proofs/SqlTrans.lean`) relates every translation of `p` to **the** table `semE ec … p`.  Below an
emulated RIGHT / FULL join (SQLite) the SQL of a sub-pipeline returns the rows of that table *in another order*; what the
steps above it then compute is the operator applied to the **permuted** table.  So the induction has to be run against
an arbitrary reference table:

`NodeOK … fuel p tp` – every successful translation of `p` (for a request within its columns) is `Sound` against the
fixed table `tp`.  `TransOK fuel p ↔ ∀ tp, semE p = ok tp → NodeOK fuel p tp` (`TransOK.node`, `transOK_of_node`).

One lemma per node, `NodeOK fuel src ts → NodeOK (fuel+1) (node src) (op ts)`, for **every** table `ts`; the proofs are
those of `transOK_selectRows`, … (`Proofs/SqlUnary*.lean`) with the two lines that invert `semE` removed – the original
lemmas use `ih` only at the table the source evaluates to.

This file: table, `select_rows`, `order_rows`, `select_columns`, `drop_columns`.
-/
namespace DAVerif
namespace Sql
namespace SqlE
open DAVerif.Ops (usedFromSources unionL)

variable {Θ : Interp} {ec : EngineCfg} {env : Env} {scfg : SemCfg} {G : Near → Prop} {cfg : SqlCfg}

/-- **The induction claim against a fixed reference table** `tp`: every successful translation of `p` for a requested
column set `u ⊆ p.cols` has one of the shapes `G` and is `Sound` against `tp` for some request set `u₁ ⊇ u` within the
declared columns. -/
def NodeOK (Θ : Interp) (ec : EngineCfg) (env : Env) (G : Near → Prop) (cfg : SqlCfg) (fuel : Nat) (p : Ops)
    (tp : Table) : Prop :=
  ∀ (u : List String) (st : Nat) (q : Near) (st' : Nat),
    (∀ c ∈ u, c ∈ p.cols) → toNear cfg fuel p (some u) st = .ok (q, st') →
    G q ∧ ∃ u₁, (∀ c ∈ u, c ∈ u₁) ∧ (∀ c ∈ u₁, c ∈ p.cols) ∧ Sound Θ ec env q u₁ p.cols tp

theorem nodeOK_zero (Θ : Interp) (ec : EngineCfg) (env : Env) (G : Near → Prop) (cfg : SqlCfg) (p : Ops) (tp : Table) :
    NodeOK Θ ec env G cfg 0 p tp :=
  fun _ _ _ _ _ h => absurd h toNear_zero_ne_ok

theorem TransOK.node {fuel : Nat} {p : Ops} {tp : Table} (h : TransOK Θ ec env scfg G cfg fuel p)
    (htp : semE ec Θ scfg env p = .ok tp) : NodeOK Θ ec env G cfg fuel p tp :=
  fun u st q st' hu ht => h u st q st' tp hu ht htp

theorem transOK_of_node {fuel : Nat} {p : Ops}
    (h : ∀ tp, semE ec Θ scfg env p = .ok tp → NodeOK Θ ec env G cfg fuel p tp) :
    TransOK Θ ec env scfg G cfg fuel p :=
  fun u st q st' tp hu ht htp => h tp htp u st q st' hu ht

/-- the reference table may be replaced by one with the same rows on every requested selection -/
theorem NodeOK.congr {fuel : Nat} {p : Ops} {tp tp' : Table} (h : NodeOK Θ ec env G cfg fuel p tp)
    (hrows : ∀ u' : List String, (∀ c ∈ u', c ∈ p.cols) →
      tp'.rows.map (fun r => r.select u') = tp.rows.map (fun r => r.select u')) :
    NodeOK Θ ec env G cfg fuel p tp' := by
  intro u st q st' hu ht
  obtain ⟨hg, u₁, h1, h2, hs⟩ := h u st q st' hu ht
  exact ⟨hg, u₁, h1, h2, hs.mono (fun c hc => hc) (fun u' hu' => hrows u' (fun c hc => h2 c (hu' c hc)))⟩

/-! ### table -/

theorem nodeOK_table (hG : ShapeOK Θ ec env G) (fuel : Nat) (name : String) (cs : List String) {t : Table}
    (hl : env.lookup name = some t) (hsub : ∀ c ∈ cs, c ∈ t.cols) :
    NodeOK Θ ec env G cfg fuel (.table name cs) (t.selectCols cs) := by
  apply TransOK.node (scfg := SemCfg.ref) (transOK_table hG fuel name cs ⟨t, hl, hsub⟩)
  simp only [semG, hl, subset_iff.mpr hsub, ↓reduceIte]

/-! ### select_rows -/

theorem nodeOK_selectRows (hG : ShapeOK Θ ec env G) (fuel : Nat) (src : Ops) (e : Term)
    (he : ∀ c ∈ Term.colsRaw e, c ∈ src.cols) {ts : Table}
    (ih : NodeOK Θ ec env G cfg fuel src ts) :
    NodeOK Θ ec env G cfg (fuel + 1) (.selectRows src e) (semSelectRows Θ e ts) := by
  intro u st q st' hu h
  rw [toNear] at h
  simp only [Option.getD_some] at h
  obtain ⟨sub, st1, h1, h2⟩ := bindM_ok.mp h
  obtain ⟨i, st2, _, h4⟩ := bindM_ok.mp h2
  rw [pureM_ok] at h4
  cases h4
  have hS : ((Ops.selectRows src e).usedFromSources u).headD [] =
      unionL (src.cols.filter (fun c => u.contains c)) (Term.colsUsed e) := rfl
  rw [hS] at h1 ⊢
  generalize hSdef : unionL (src.cols.filter (fun c => u.contains c)) (Term.colsUsed e) = S at h1 ⊢
  have hSsrc : ∀ c ∈ S, c ∈ src.cols := by
    intro c hc
    rw [← hSdef, mem_unionL] at hc
    rcases hc with hc | hc
    · exact (List.mem_filter.mp hc).1
    · exact he c (by simpa [Term.colsUsed] using hc)
  have huS : ∀ c ∈ u, c ∈ S := by
    intro c hc
    rw [← hSdef, mem_unionL]
    exact Or.inl (List.mem_filter.mpr ⟨hu c hc, by simpa using hc⟩)
  have heS : ∀ c ∈ Term.colsRaw e, c ∈ S := by
    intro c hc
    rw [← hSdef, mem_unionL]
    exact Or.inr (by simpa [Term.colsUsed] using hc)
  obtain ⟨_, S₁, hS₁, _, hsound⟩ := ih S st sub st1 hSsrc h1
  obtain ⟨T0, g1, g2, g4⟩ := hsound.req S hS₁ false
  refine ⟨hG.simple _ rfl, u, fun c hc => hc, hu, ?_⟩
  apply sound_passStep _ _ _ _ g1 g2 huS (fun c hc => hc) hu
  intro u' hu'
  simp only [limitOf, suffixRows, semSelectRows]
  have := filter_transport (p := fun r => evalCell Θ r e == Val.bool true)
    (p' := fun r => evalCell Θ r e == Val.bool true) g4
    (fun a _ b _ hab => by
      rw [evalCell_congr Θ e (fun c hc => Row.get_of_select_eq hab (heS c hc))])
  exact map_select_mono this (fun c hc => huS c (hu' c hc))

/-! ### order_rows -/

theorem nodeOK_order (hG : ShapeOK Θ ec env G) (fuel : Nat) (src : Ops) (cs rev : List String) (lim : Option Nat)
    (hcs : ∀ c ∈ cs, c ∈ src.cols) {ts : Table}
    (ih : NodeOK Θ ec env G cfg fuel src ts) :
    NodeOK Θ ec env G cfg (fuel + 1) (.order src cs rev lim) (semOrderG (sqlRowLe ec) cs rev lim ts) := by
  intro u st q st' hu h
  rw [toNear] at h
  simp only [Option.getD_some] at h
  obtain ⟨sub, st1, h1, h2⟩ := bindM_ok.mp h
  obtain ⟨i, st2, _, h4⟩ := bindM_ok.mp h2
  rw [pureM_ok] at h4
  cases h4
  have hcols : (Ops.order src cs rev lim).cols = src.cols := rfl
  have hsu : ((Ops.order src cs rev lim).usedFromSources u).headD [] =
      unionL (src.cols.filter (fun c => u.contains c)) cs := rfl
  rw [hsu, hcols] at h1 ⊢
  generalize hSdef : src.cols.filter (fun c => (unionL (src.cols.filter (fun c => u.contains c)) cs).contains c) = S
    at h1 ⊢
  have hmemS : ∀ c, c ∈ S ↔ c ∈ src.cols ∧ (c ∈ u ∨ c ∈ cs) := by
    intro c
    rw [← hSdef, List.mem_filter, contains_iff, mem_unionL, List.mem_filter, contains_iff]
    constructor
    · rintro ⟨h1, h2 | h2⟩
      · exact ⟨h1, Or.inl h2.2⟩
      · exact ⟨h1, Or.inr h2⟩
    · rintro ⟨h1, h2 | h2⟩
      · exact ⟨h1, Or.inl ⟨h1, h2⟩⟩
      · exact ⟨h1, Or.inr h2⟩
  have hSsrc : ∀ c ∈ S, c ∈ src.cols := fun c hc => ((hmemS c).mp hc).1
  have huS : ∀ c ∈ u, c ∈ S := fun c hc => (hmemS c).mpr ⟨hu c hc, Or.inl hc⟩
  have hcsS : ∀ c ∈ cs, c ∈ S := fun c hc => (hmemS c).mpr ⟨hcs c hc, Or.inr hc⟩
  obtain ⟨_, S₁, hS₁, _, hsound⟩ := ih S st sub st1 hSsrc h1
  obtain ⟨T0, g1, g2, g4⟩ := hsound.req S hS₁ false
  refine ⟨hG.simple _ rfl, u, fun c hc => hc, hu, ?_⟩
  apply sound_passStep _ _ _ _ g1 g2 (fun c hc => hc) huS hSsrc
  intro u' hu'
  exact order_rows_agree g4 hcsS (fun c hc => huS c (hu' c hc))

/-! ### select_columns and drop_columns -/

theorem nodeOK_selectCols (hG : ShapeOK Θ ec env G) (fuel : Nat) (src : Ops) (cs : List String)
    (hcs : ∀ c ∈ cs, c ∈ src.cols) {ts : Table}
    (ih : NodeOK Θ ec env G cfg fuel src ts) :
    NodeOK Θ ec env G cfg (fuel + 1) (.selectCols src cs) (ts.selectCols cs) := by
  intro u st q st' hu h
  rw [toNear] at h
  simp only [Option.getD_some] at h
  obtain ⟨sub, st1, h1, h2⟩ := bindM_ok.mp h
  have hsu : ((Ops.selectCols src cs).usedFromSources u).headD [] = cs.filter (fun c => u.contains c) := rfl
  rw [hsu] at h1 h2
  have hS : cs.filter (fun c => (cs.filter (fun c => u.contains c)).contains c) = cs.filter (fun c => u.contains c) := by
    apply List.filter_congr
    intro c hc
    simp [hc]
  rw [hS] at h1 h2
  generalize hSdef : cs.filter (fun c => u.contains c) = S at h1 h2
  have hScs : ∀ c ∈ S, c ∈ cs := by
    intro c hc; rw [← hSdef] at hc; exact (List.mem_filter.mp hc).1
  have huS : ∀ c ∈ u, c ∈ S := by
    intro c hc; rw [← hSdef]; exact List.mem_filter.mpr ⟨hu c hc, by simpa using hc⟩
  obtain ⟨hGsub, S₁, hS₁, _, hsound⟩ := ih S st sub st1 (fun c hc => hcs c (hScs c hc)) h1
  cases hq : setTermKeys sub S true with
  | none => rw [hq] at h2; exact absurd h2 liftE_error_ne_ok
  | some q' =>
    rw [hq] at h2
    rw [pureM_ok] at h2
    cases h2
    refine ⟨hG.closed _ _ _ _ hGsub hq, S, huS, hScs, ?_⟩
    apply Sound.setTermKeys (hsound.restrict hS₁) (hG.stable _ hGsub) hq hScs
    intro u' hu'
    exact select_map_select ts.rows (fun c hc => hScs c (hu' c hc))

theorem nodeOK_dropCols (hG : ShapeOK Θ ec env G) (fuel : Nat) (src : Ops) (dels : List String) {ts : Table}
    (ih : NodeOK Θ ec env G cfg fuel src ts) :
    NodeOK Θ ec env G cfg (fuel + 1) (.dropCols src dels) (ts.selectCols (Ops.dropCols src dels).cols) := by
  intro u st q st' hu h
  rw [toNear] at h
  simp only [Option.getD_some] at h
  obtain ⟨sub, st1, h1, h2⟩ := bindM_ok.mp h
  have hsu : ((Ops.dropCols src dels).usedFromSources u).headD [] = u.filter (fun c => !dels.contains c) := rfl
  rw [hsu] at h1
  have hucols : ∀ c ∈ u, c ∈ src.cols ∧ c ∉ dels := by
    intro c hc
    have := hu c hc
    simp only [Ops.cols, List.mem_filter, List.contains_eq_mem, Bool.not_eq_eq_eq_not, Bool.not_true,
      decide_eq_false_iff_not] at this
    exact this
  have hS : u.filter (fun c => !dels.contains c) = u := by
    apply List.filter_eq_self.mpr
    intro c hc
    simpa using (hucols c hc).2
  rw [hS] at h1 h2
  obtain ⟨hGsub, S₁, hS₁, _, hsound⟩ := ih u st sub st1 (fun c hc => (hucols c hc).1) h1
  cases hq : setTermKeys sub u false with
  | none => rw [hq] at h2; exact absurd h2 liftE_error_ne_ok
  | some q' =>
    rw [hq] at h2
    rw [pureM_ok] at h2
    cases h2
    refine ⟨hG.closed _ _ _ _ hGsub hq, u, fun c hc => hc, hu, ?_⟩
    apply Sound.setTermKeys (hsound.restrict hS₁) (hG.stable _ hGsub) hq hu
    intro u' hu'
    exact select_map_select ts.rows (fun c hc => hu c (hu' c hc))

end SqlE
end Sql
end DAVerif
