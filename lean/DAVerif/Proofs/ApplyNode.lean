import DAVerif.Proofs.OpsGet
/-!
`applyNode N ta tb`: the operator of the node `N` as a function of its evaluated sources (the declared column
names being read off the evaluated tables).  `sem` of a node is `applyNode` after `sem` of the sources
(`sem_eq_applyNode`), and `applyNode` respects `≈ᶜ` under the node's scope condition (`applyNode_congrC`).
-/
namespace DAVerif

/-! ### list facts -/

theorem inj_of_nodup_mapC {α β : Type} {f : α → β} : ∀ {l : List α}, (l.map f).Nodup →
    ∀ x ∈ l, ∀ y ∈ l, f x = f y → x = y
  | [], _, x, hx, _, _, _ => by cases hx
  | a :: l, h, x, hx, y, hy, e => by
    simp only [List.map_cons, List.nodup_cons, List.mem_map, not_exists, not_and] at h
    rcases List.mem_cons.mp hx with rfl | hx' <;> rcases List.mem_cons.mp hy with rfl | hy'
    · rfl
    · exact absurd e.symm (h.1 y hy')
    · exact absurd e (h.1 x hx')
    · exact inj_of_nodup_mapC h.2 x hx' y hy' e

theorem nodup_filter {α : Type} {l : List α} (p : α → Bool) (h : l.Nodup) : (l.filter p).Nodup :=
  List.Pairwise.filter _ h

theorem length_appendNew_ge : ∀ (ys xs : List String), xs.length ≤ (appendNew xs ys).length
  | [], _ => Nat.le_refl _
  | y :: ys, xs => by
    rw [appendNew_cons]
    split
    · exact length_appendNew_ge ys xs
    · have := length_appendNew_ge ys (xs ++ [y])
      simp only [List.length_append, List.length_cons, List.length_nil] at this
      omega

theorem subset_of_length_appendNew : ∀ {ys xs : List String}, (appendNew xs ys).length = xs.length →
    ∀ y ∈ ys, y ∈ xs
  | [], _, _, y, hy => by cases hy
  | y :: ys, xs, h, z, hz => by
    rw [appendNew_cons] at h
    split at h
    · rename_i hc
      rcases List.mem_cons.mp hz with rfl | hz'
      · simpa using hc
      · exact subset_of_length_appendNew h z hz'
    · have := length_appendNew_ge ys (xs ++ [y])
      simp only [List.length_append, List.length_cons, List.length_nil] at this
      omega

/-! ### the declared columns of a join -/

/-- `NaturalJoinNode.column_names` ("re-use column names if possible") -/
def joinCols (ca cb : List String) : List String :=
  let all := appendNew ca cb
  if all.length == ca.length then ca
  else if cb.all (fun c => all.contains c) && all.all (fun c => cb.contains c) then cb
  else all

theorem cols_join (a b : Ops) (oa ob : List String) (jt : JoinType) :
    (Ops.join a b oa ob jt).cols = joinCols a.cols b.cols := rfl

theorem mem_joinCols {ca cb : List String} {c : String} : c ∈ joinCols ca cb ↔ c ∈ ca ∨ c ∈ cb := by
  unfold joinCols
  simp only
  split
  · rename_i h
    have hs := subset_of_length_appendNew (by simpa using h)
    exact ⟨Or.inl, fun h => h.elim id (hs c)⟩
  · split
    · rename_i h
      simp only [Bool.and_eq_true, List.all_eq_true, List.contains_iff_mem] at h
      constructor
      · exact Or.inr
      · intro hc
        exact h.2 c (mem_appendNewC.mpr hc)
    · exact mem_appendNewC

theorem nodup_joinCols {ca cb : List String} (ha : ca.Nodup) (hb : cb.Nodup) : (joinCols ca cb).Nodup := by
  unfold joinCols
  simp only
  split
  · exact ha
  · split
    · exact hb
    · exact nodup_appendNewC ha

/-- the declared columns of a concat -/
def concatCols (ca : List String) (idc : Option String) : List String :=
  match idc with
  | none => ca
  | some c => ca ++ [c]

theorem cols_concat (a b : Ops) (idc : Option String) (an bn : String) :
    (Ops.concat a b idc an bn).cols = concatCols a.cols idc := by
  cases idc <;> rfl

/-! ### `applyNode` -/

/-- the renaming function of a `rename_columns` node (new ↦ old pairs) -/
def renameFn (m : List (String × String)) (c : String) : String :=
  (lookupLast (m.map (fun kv => (kv.2, kv.1))) c).getD c

/-- the renaming function of a `map_columns` node (old ↦ new pairs) -/
def mapFn (m : List (String × String)) (c : String) : String := (lookupLast m c).getD c

/-- the operator of a node, applied to the evaluated sources (`tb` is only read by join and concat) -/
def applyNode (Θ : Interp) (cfg : SemCfg) (N : Ops) (ta tb : Table) : Except Err Table :=
  match N with
  | .table _ _ => .ok ta
  | .extend _ ops part od rv w =>
    if w then .ok (semExtendWindow Θ ops part od rv ta (appendNew ta.cols (ops.map (·.1))))
    else .ok (semExtendPlain Θ ops ta (appendNew ta.cols (ops.map (·.1))))
  | .project _ ops g => .ok (semProject Θ ops g ta (appendNew g (ops.map (·.1))))
  | .selectRows _ e => .ok (semSelectRows Θ e ta)
  | .selectCols _ cs => .ok (ta.selectCols cs)
  | .dropCols _ ds => .ok (ta.selectCols (ta.cols.filter (fun c => !ds.contains c)))
  | .order _ cs rv lim => .ok (semOrder cs rv lim ta)
  | .rename _ m => .ok ⟨ta.cols.map (renameFn m), ta.rows.map (fun r => r.rename (renameFn m))⟩
  | .mapCols _ m ds =>
    .ok ⟨(ta.cols.filter (fun c => !ds.contains c)).map (mapFn m),
      ta.rows.map (fun r => (r.drop ds).rename (mapFn m))⟩
  | .join _ _ oa ob jt =>
    .ok ((semJoin cfg jt oa ob ta tb (appendNew ta.cols tb.cols)).selectCols (joinCols ta.cols tb.cols))
  | .concat _ _ idc an bn => .ok (semConcat idc an bn ta tb (concatCols ta.cols idc))
  | .convert _ rm => Θ.convert rm ta

/-- the first source of a node (the node itself for a table description) -/
def Ops.srcA : Ops → Ops
  | n@(.table _ _) => n
  | .extend s _ _ _ _ _ | .project s _ _ | .selectRows s _ | .selectCols s _ | .dropCols s _
  | .order s _ _ _ | .rename s _ | .mapCols s _ _ | .convert s _ => s
  | .join a _ _ _ _ | .concat a _ _ _ _ => a

/-- the second source of a join / concat -/
def Ops.srcB : Ops → Option Ops
  | .join _ b _ _ _ | .concat _ b _ _ _ => some b
  | _ => none

theorem sem_cols {Θ : Interp} (hΘ : ConvertOK Θ) {cfg : SemCfg} {env : Env} {p : Ops} {t : Table}
    (h : sem Θ cfg env p = .ok t) : t.cols = p.cols := (sem_cols_wf Θ hΘ cfg env p t h).1

theorem sem_wf {Θ : Interp} (hΘ : ConvertOK Θ) {cfg : SemCfg} {env : Env} {p : Ops} {t : Table}
    (h : sem Θ cfg env p = .ok t) : t.WF := (sem_cols_wf Θ hΘ cfg env p t h).2

/-- `sem` of a unary node is `applyNode` after `sem` of the source -/
theorem sem_eq_applyNode_unary (Θ : Interp) (hΘ : ConvertOK Θ) (cfg : SemCfg) (env : Env) (N : Ops)
    (hN : N.srcB = none) (hT : ∀ n cs, N ≠ .table n cs) :
    sem Θ cfg env N = sem Θ cfg env N.srcA >>= fun t => applyNode Θ cfg N t t := by
  cases N with
  | table n cs => exact absurd rfl (hT n cs)
  | join => cases hN
  | concat => cases hN
  | extend s ops part od rv w =>
    simp only [sem, Ops.srcA]
    apply except_bind_congr
    intro t ht
    simp only [applyNode, Ops.cols, sem_cols hΘ ht]
    cases w <;> rfl
  | project s ops g => rfl
  | selectRows s e => rfl
  | selectCols s cs => rfl
  | dropCols s ds =>
    simp only [sem, Ops.srcA]
    apply except_bind_congr
    intro t ht
    simp only [applyNode, Ops.cols, sem_cols hΘ ht]
    rfl
  | order s cs rv lim => rfl
  | rename s m =>
    simp only [sem, Ops.srcA]
    apply except_bind_congr
    intro t ht
    simp only [applyNode, Ops.cols, sem_cols hΘ ht]
    rfl
  | mapCols s m ds =>
    simp only [sem, Ops.srcA]
    apply except_bind_congr
    intro t ht
    simp only [applyNode, Ops.cols, sem_cols hΘ ht]
    rfl
  | convert s rm => rfl

/-- `sem` of a join / concat is `applyNode` after `sem` of the two sources -/
theorem sem_eq_applyNode_binary (Θ : Interp) (hΘ : ConvertOK Θ) (cfg : SemCfg) (env : Env) (N b : Ops)
    (hN : N.srcB = some b) :
    sem Θ cfg env N = sem Θ cfg env N.srcA >>= fun ta => sem Θ cfg env b >>= fun tb =>
      applyNode Θ cfg N ta tb := by
  cases N with
  | join a b' oa ob jt =>
    cases hN
    simp only [sem, Ops.srcA]
    apply except_bind_congr
    intro ta hta
    apply except_bind_congr
    intro tb htb
    simp only [applyNode, cols_join, sem_cols hΘ hta, sem_cols hΘ htb]
    rfl
  | concat a b' idc an bn =>
    cases hN
    simp only [sem, Ops.srcA]
    apply except_bind_congr
    intro ta hta
    apply except_bind_congr
    intro tb htb
    simp only [applyNode, cols_concat, sem_cols hΘ hta]
    rfl
  | _ => cases hN

end DAVerif
