import DAVerif.Spec.Rename
/-!
Renaming, basic layer: the list functions the model is written with (`contains`, `filter`, `eraseDups`, `appendNew`,
`lookupLast`, `lookup`, `subset`, `disjoint`, `nodupB`, `inter`, `dictSet`) commute with an injective map, and so do the
row operations, the column sets of expressions and `Ops.cols`.
-/
namespace DAVerif
namespace Ren

open Function (Injective)

variable {f : String → String}

theorem beq_inj (hf : Injective f) (a b : String) : (f a == f b) = (a == b) := by
  by_cases h : a = b
  · subst h; rw [beq_self_eq_true, beq_self_eq_true]
  · have : f a ≠ f b := fun e => h (hf e)
    rw [beq_eq_false_iff_ne.mpr h, beq_eq_false_iff_ne.mpr this]

theorem bne_inj (hf : Injective f) (a b : String) : (f a != f b) = (a != b) := by
  simp only [bne, beq_inj hf]

@[simp] theorem contains_map (hf : Injective f) (l : List String) (x : String) :
    (l.map f).contains (f x) = l.contains x := by
  induction l with
  | nil => rfl
  | cons a l ih => simp only [List.map_cons, List.contains_cons, beq_inj hf, ih]

theorem elem_map (hf : Injective f) (l : List String) (x : String) :
    List.elem (f x) (l.map f) = List.elem x l := contains_map hf l x

theorem mem_map_iff (hf : Injective f) (l : List String) (x : String) : f x ∈ l.map f ↔ x ∈ l := by
  constructor
  · intro h
    obtain ⟨y, hy, e⟩ := List.mem_map.mp h
    exact hf e ▸ hy
  · exact List.mem_map_of_mem

/-- `filter` with a predicate that is a renamed predicate -/
theorem filter_map' (l : List String) (p q : String → Bool) (h : ∀ x, p (f x) = q x) :
    (l.map f).filter p = (l.filter q).map f := by
  induction l with
  | nil => rfl
  | cons a l ih => simp only [List.map_cons, List.filter_cons, h, ih]; split <;> rfl

theorem filter_contains (hf : Injective f) (l m : List String) :
    (l.map f).filter (fun c => (m.map f).contains c) = (l.filter (fun c => m.contains c)).map f :=
  filter_map' l _ _ (fun x => contains_map hf m x)

theorem filter_not_contains (hf : Injective f) (l m : List String) :
    (l.map f).filter (fun c => !(m.map f).contains c) = (l.filter (fun c => !m.contains c)).map f :=
  filter_map' l _ _ (fun x => by simp only [contains_map hf])

theorem all_map' {α β : Type} (g : α → β) (l : List α) (p : β → Bool) (q : α → Bool) (h : ∀ x, p (g x) = q x) :
    (l.map g).all p = l.all q := by
  induction l with
  | nil => rfl
  | cons a l ih => simp only [List.map_cons, List.all_cons, h, ih]

theorem any_map' {α β : Type} (g : α → β) (l : List α) (p : β → Bool) (q : α → Bool) (h : ∀ x, p (g x) = q x) :
    (l.map g).any p = l.any q := by
  induction l with
  | nil => rfl
  | cons a l ih => simp only [List.map_cons, List.any_cons, h, ih]

theorem eraseDups_map (hf : Injective f) (l : List String) : (l.map f).eraseDups = l.eraseDups.map f := by
  generalize hn : l.length = n
  induction n using Nat.strongRecOn generalizing l with
  | _ n ih =>
    cases l with
    | nil => simp
    | cons a l =>
      simp only [List.map_cons, List.eraseDups_cons]
      have h1 : (l.map f).filter (fun b => !b == f a) = (l.filter (fun b => !b == a)).map f :=
        filter_map' l _ _ (fun x => by simp only [beq_inj hf])
      rw [h1]
      have hlen : (l.filter (fun b => !b == a)).length < n := by
        have := List.length_filter_le (fun b => !b == a) l
        simp only [List.length_cons] at hn
        omega
      rw [ih _ hlen _ rfl]

theorem appendNew_map (hf : Injective f) (xs ys : List String) :
    appendNew (xs.map f) (ys.map f) = (appendNew xs ys).map f := by
  unfold appendNew
  induction ys generalizing xs with
  | nil => rfl
  | cons y ys ih =>
    simp only [List.map_cons, List.foldl_cons, contains_map hf]
    split
    · exact ih xs
    · have : xs.map f ++ [f y] = (xs ++ [y]).map f := by simp
      rw [this]; exact ih _

theorem unionL_map (hf : Injective f) (xs ys : List String) :
    Ops.unionL (xs.map f) (ys.map f) = (Ops.unionL xs ys).map f := appendNew_map hf xs ys

theorem subset_map (hf : Injective f) (a b : List String) : subset (a.map f) (b.map f) = subset a b := by
  unfold subset
  exact all_map' f a _ _ (fun x => contains_map hf b x)

theorem disjoint_map (hf : Injective f) (a b : List String) : disjoint (a.map f) (b.map f) = disjoint a b := by
  unfold disjoint
  exact all_map' f a _ _ (fun x => by simp only [contains_map hf])

theorem nodupB_map (hf : Injective f) (a : List String) : nodupB (a.map f) = nodupB a := by
  simp only [nodupB, eraseDups_map hf, List.length_map]

theorem inter_map (hf : Injective f) (a b : List String) : inter (a.map f) (b.map f) = (inter a b).map f :=
  filter_contains hf a b

/-! ### association lists -/

theorem find?_map_key {β γ : Type} (hf : Injective f) (g : β → γ) (m : List (String × β)) (k : String) :
    (m.map (fun kv => (f kv.1, g kv.2))).find? (fun kv => kv.1 == f k)
      = (m.find? (fun kv => kv.1 == k)).map (fun kv => (f kv.1, g kv.2)) := by
  induction m with
  | nil => rfl
  | cons a m ih =>
    simp only [List.map_cons, List.find?_cons, beq_inj hf]
    split
    · rfl
    · exact ih

theorem lookupLast_map {β γ : Type} (hf : Injective f) (g : β → γ) (m : List (String × β)) (k : String) :
    lookupLast (m.map (fun kv => (f kv.1, g kv.2))) (f k) = (lookupLast m k).map g := by
  unfold lookupLast
  rw [← List.map_reverse, find?_map_key hf g]
  cases (m.reverse.find? (fun kv => kv.1 == k)) <;> rfl

theorem lookup_map {β γ : Type} (hf : Injective f) (g : β → γ) (m : List (String × β)) (k : String) :
    (m.map (fun kv => (f kv.1, g kv.2))).lookup (f k) = (m.lookup k).map g := by
  induction m with
  | nil => rfl
  | cons a m ih =>
    obtain ⟨a1, a2⟩ := a
    simp only [List.map_cons, List.lookup_cons, beq_inj hf]
    split
    · rfl
    · exact ih

/-- the renamed column of a renaming dictionary lookup with default -/
theorem lookupLast_getD_map (hf : Injective f) (m : List (String × String)) (c : String) :
    (lookupLast (m.map (fun kv => (f kv.1, f kv.2))) (f c)).getD (f c) = f ((lookupLast m c).getD c) := by
  rw [lookupLast_map hf f m c]
  cases lookupLast m c <;> rfl

theorem dictSet_map {β γ : Type} (hf : Injective f) (g : β → γ) (d : List (String × β)) (k : String) (v : β) :
    Sql.dictSet (d.map (fun kv => (f kv.1, g kv.2))) (f k) (g v)
      = (Sql.dictSet d k v).map (fun kv => (f kv.1, g kv.2)) := by
  unfold Sql.dictSet
  have h1 : (d.map (fun kv => (f kv.1, g kv.2))).any (fun kv => kv.1 == f k) = d.any (fun kv => kv.1 == k) :=
    any_map' _ d _ _ (fun x => by simp only [beq_inj hf])
  rw [h1]
  split
  · simp only [List.map_map]
    apply List.map_congr_left
    intro kv _
    simp only [Function.comp, beq_inj hf]
    split <;> rfl
  · simp

/-! ### rows -/

theorem Row.get_rename (hf : Injective f) (r : Row) (c : String) : (r.rename f).get (f c) = r.get c := by
  unfold Row.get Row.rename
  have := lookup_map hf (fun v : Val => v) r c
  rw [this]
  cases r.lookup c <;> rfl

theorem Row.set_rename (hf : Injective f) (r : Row) (c : String) (v : Val) :
    (r.rename f).set (f c) v = (r.set c v).rename f := by
  induction r with
  | nil => rfl
  | cons a r ih =>
    obtain ⟨k, x⟩ := a
    simp only [Row.rename, List.map_cons, Row.set, beq_inj hf] at ih ⊢
    split
    · rfl
    · simp only [List.map_cons, ih]

theorem Row.setAll_rename (hf : Injective f) (r : Row) (kvs : List (String × Val)) :
    (r.rename f).setAll (kvs.map (fun kv => (f kv.1, kv.2))) = (r.setAll kvs).rename f := by
  unfold Row.setAll
  induction kvs generalizing r with
  | nil => rfl
  | cons a kvs ih =>
    simp only [List.map_cons, List.foldl_cons, Row.set_rename hf]
    exact ih _

theorem Row.select_rename (hf : Injective f) (r : Row) (cs : List String) :
    (r.rename f).select (cs.map f) = (r.select cs).rename f := by
  simp only [Row.select, Row.rename, List.map_map]
  apply List.map_congr_left
  intro c _
  simp only [Function.comp]
  rw [show (List.map (fun kv => (f kv.1, kv.2)) r) = Row.rename r f from rfl, Row.get_rename hf]

theorem Row.drop_rename (hf : Injective f) (r : Row) (cs : List String) :
    (r.rename f).drop (cs.map f) = (r.drop cs).rename f := by
  induction r with
  | nil => rfl
  | cons a r ih =>
    simp only [Row.drop, Row.rename, List.map_cons, List.filter_cons, contains_map hf] at ih ⊢
    split
    · simp only [List.map_cons, ih]
    · exact ih

theorem Row.rename_rename (r : Row) (g h : String → String) : (r.rename g).rename h = r.rename (h ∘ g) := by
  simp [Row.rename, List.map_map, Function.comp_def]

theorem Row.rename_congr (r : Row) (g h : String → String) (e : ∀ c ∈ r.keys, g c = h c) :
    r.rename g = r.rename h := by
  unfold Row.rename
  apply List.map_congr_left
  intro kv hkv
  have : kv.1 ∈ Row.keys r := List.mem_map_of_mem (f := (·.1)) hkv
  rw [e _ this]

theorem Row.vals_rename (hf : Injective f) (r : Row) (cs : List String) :
    (r.rename f).vals (cs.map f) = r.vals cs := by
  simp only [Row.vals, List.map_map]
  apply List.map_congr_left
  intro c _
  exact Row.get_rename hf r c

theorem Row.keys_rename (r : Row) (g : String → String) : (r.rename g).keys = r.keys.map g := by
  simp [Row.rename, Row.keys, List.map_map, Function.comp_def]

/-! ### expressions -/
mutual
theorem colsRaw_rename (ρ : ColRen) : ∀ t : Term, (t.rename ρ).colsRaw = t.colsRaw.map ρ
  | .value _ => rfl
  | .col _ => rfl
  | .list _ => rfl
  | .dict _ => rfl
  | .app _ args _ _ => by
    simp only [Term.rename, Term.colsRaw]
    exact colsRawList_rename ρ args
theorem colsRawList_rename (ρ : ColRen) : ∀ ts : List Term,
    Term.colsRawList (Term.renameList ρ ts) = (Term.colsRawList ts).map ρ
  | [] => rfl
  | t :: ts => by
    simp only [Term.renameList, Term.colsRawList, List.map_append, colsRaw_rename ρ t, colsRawList_rename ρ ts]
end

theorem colsUsed_rename (hf : Injective f) (t : Term) : (t.rename f).colsUsed = t.colsUsed.map f := by
  simp only [Term.colsUsed, colsRaw_rename, eraseDups_map hf]

theorem colsUsedOps_rename (hf : Injective f) (ops : Assign) :
    Term.colsUsedOps (Assign.rename f ops) = (Term.colsUsedOps ops).map f := by
  simp only [Term.colsUsedOps, Assign.rename]
  rw [← eraseDups_map hf]
  congr 1
  induction ops with
  | nil => rfl
  | cons a ops ih =>
    simp only [List.map_cons, List.flatMap_cons, List.map_append, colsRaw_rename, ih]

theorem renameList_eq_map (ρ : ColRen) (ts : List Term) : Term.renameList ρ ts = ts.map (Term.rename ρ) := by
  induction ts with
  | nil => rfl
  | cons t ts ih => simp only [Term.renameList, List.map_cons, ih]

@[simp] theorem assign_keys (ρ : ColRen) (ops : Assign) : (Assign.rename ρ ops).map (·.1) = (ops.map (·.1)).map ρ := by
  simp [Assign.rename, List.map_map, Function.comp_def]

/-! ### `column_names` -/
theorem cols_ren (hf : Injective f) (ρt : TabRen) (p : Ops) : (p.ren f ρt).cols = p.cols.map f := by
  induction p with
  | table name cs => rfl
  | extend src ops part od rv w ih =>
    simp only [Ops.ren, Ops.cols, ih, assign_keys, appendNew_map hf]
  | project src ops g ih => simp only [Ops.ren, Ops.cols, assign_keys, appendNew_map hf]
  | selectRows src e ih => simpa only [Ops.ren, Ops.cols] using ih
  | selectCols src cs ih => rfl
  | dropCols src ds ih => simp only [Ops.ren, Ops.cols, ih, filter_not_contains hf]
  | order src cs rv lim ih => simpa only [Ops.ren, Ops.cols] using ih
  | rename src m ih =>
    simp only [Ops.ren, Ops.cols, ih, List.map_map]
    apply List.map_congr_left
    intro c _
    simp only [Function.comp]
    have := lookupLast_getD_map hf (m.map (fun kv => (kv.2, kv.1))) c
    simpa only [List.map_map, Function.comp_def] using this
  | mapCols src m ds ih =>
    simp only [Ops.ren, Ops.cols, ih, filter_not_contains hf, List.map_map]
    apply List.map_congr_left
    intro c _
    simp only [Function.comp]
    exact lookupLast_getD_map hf m c
  | join a b oa ob jt iha ihb =>
    simp only [Ops.ren, Ops.cols, iha, ihb, appendNew_map hf, List.length_map]
    have h1 : ((b.cols.map f).all (fun c => ((appendNew a.cols b.cols).map f).contains c))
        = b.cols.all (fun c => (appendNew a.cols b.cols).contains c) :=
      all_map' f _ _ _ (fun x => contains_map hf _ x)
    have h2 : (((appendNew a.cols b.cols).map f).all (fun c => (b.cols.map f).contains c))
        = (appendNew a.cols b.cols).all (fun c => b.cols.contains c) :=
      all_map' f _ _ _ (fun x => contains_map hf _ x)
    rw [h1, h2]
    split
    · rfl
    · split <;> rfl
  | concat a b idc an bn iha ihb =>
    cases idc <;> simp [Ops.ren, Ops.cols, iha]
  | convert src rm ih => rfl

end Ren
end DAVerif
