import DAVerif.Proofs.SqlJoinRoot
/-!
C01/C16: every pipeline the builders produce satisfies `Sql.JoinWF` (join keys are columns of their side, the two
sides of a `concat_rows` have the same column set): `C16_reachable_joinwf`.
-/
namespace DAVerif
namespace Sql
open Rules26

set_option linter.unusedSimpArgs false

theorem JoinWF.stripped {p : Ops} (h : JoinWF p) : JoinWF (DAVerif.strip p) := by
  fun_induction DAVerif.strip p with
  | case1 src _ _ ih => exact ih h
  | case2 p _ => exact h

theorem build_selectCols_joinwf {p : Ops} (hs : JoinWF p) {cs : List String} {q : Ops}
    (h : selectColsB p cs = .ok q) : JoinWF q := by
  fun_induction selectColsB p cs with
  | case1 src _ _ cs ih => exact ih hs h
  | case2 src cs0 cs ih => exact ih hs (ok?_bind_ok.mp h).2
  | case3 src dels cs ih => exact ih hs (ok?_bind_ok.mp h).2
  | case4 self cs h1 h2 h3 =>
    simp only [mkSelectCols, ok?_bind_ok] at h
    obtain ⟨_, _, _, h⟩ := h
    simp only [pure_ok] at h
    subst h
    exact hs

/-- a successful builder call on a pipeline satisfying `JoinWF` (with `JoinWF` pipeline arguments) returns a
pipeline satisfying `JoinWF` -/
theorem build_joinwf {p : Ops} (hs : JoinWF p) {s : Step} (hb : ∀ b ∈ stepArgs s, JoinWF b) {q : Ops}
    (h : build p s = .ok q) : JoinWF q := by
  cases s with
  | extend ops pa o r =>
    unfold build at h
    simp only [] at h
    obtain ⟨parsed, hpa, h2⟩ := bind_ok.mp h
    obtain ⟨rfl, _⟩ := parseAssignments_ok hpa
    by_cases hne : parsed.isEmpty = true
    · have : parsed = [] := by simpa using hne
      subst this
      rw [extendParsed.eq_def] at h2
      simp only [List.isEmpty_nil, ↓reduceIte, pure, Except.pure, Except.ok.injEq] at h2
      subst h2
      exact hs
    have hne' : parsed.isEmpty = false := by simpa using hne
    rw [extendParsed_strip _ _ _ _ _ hne'] at h2
    obtain ⟨_, _, h3⟩ := bind_ok.mp h2
    rcases extendTop_ok h3 with h4 | ⟨src, ops1, part1, order1, reverse1, windowed1, newOps, ht, _, h4⟩
    · obtain ⟨rfl, _⟩ := mkExtend_ok h4
      exact (JoinWF.stripped hs)
    · obtain ⟨rfl, _⟩ := mkExtend_ok h4
      have := (JoinWF.stripped hs)
      rw [ht] at this
      exact this
  | project ops group =>
    unfold build at h
    simp only [] at h
    obtain ⟨parsed, hpa, h2⟩ := bind_ok.mp h
    obtain ⟨rfl, hnd⟩ := parseAssignments_ok hpa
    rw [projectParsed_strip] at h2
    obtain ⟨_, hpre, h3⟩ := bind_ok.mp h2
    simp only [mkProject, forIn_ok?, ok?_bind_ok, pure_ok, nodupB_iff, subset_iff] at h3
    obtain ⟨_, _, _, _, rfl⟩ := h3
    exact (JoinWF.stripped hs)
  | selectRows e =>
    cases e with
    | none => simp only [build, Except.ok.injEq] at h; subst h; exact hs
    | some e =>
      simp only [build, selectRowsB_eq] at h
      obtain ⟨_, hpa, h⟩ := bind_ok.mp h
      simp only [Except.ok.injEq] at h
      subst h
      exact (JoinWF.stripped hs)
  | selectCols cs =>
    simp only [build, ok?_bind_ok] at h
    exact build_selectCols_joinwf hs h.2
  | dropCols cs =>
    simp only [build] at h
    split at h
    · simp only [Except.ok.injEq] at h; subst h; exact hs
    · simp only [dropColsB_eq, mkDropCols, ok?_bind_ok, pure_ok] at h
      obtain ⟨_, _, rfl⟩ := h
      exact (JoinWF.stripped hs)
  | order cs rev lim =>
    simp only [build] at h
    split at h
    · simp only [Except.ok.injEq] at h; subst h; exact hs
    · simp only [orderB_eq, mkOrder, ok?_bind_ok, pure_ok, subset_iff] at h
      obtain ⟨_, _, rfl⟩ := h
      exact (JoinWF.stripped hs)
  | rename m =>
    simp only [build] at h
    split at h
    · simp only [Except.ok.injEq] at h; subst h; exact hs
    · simp only [renameB_eq, mkRename, ok?_bind_ok, pure_ok, nodupB_iff, subset_iff] at h
      obtain ⟨_, _, _, rfl⟩ := h
      exact (JoinWF.stripped hs)
  | mapCols m =>
    simp only [build] at h
    split at h
    · simp only [Except.ok.injEq] at h; subst h; exact hs
    · simp only [mapColsB_eq, mkMapCols, ok?_bind_ok, pure_ok, nodupB_iff, subset_iff] at h
      obtain ⟨_, _, _, _, rfl⟩ := h
      exact (JoinWF.stripped hs)
  | join b onA onB jt check =>
    have hbw : JoinWF b := hb b (by simp [stepArgs])
    simp only [build, joinB_eq, mkJoin, ok?_bind_ok] at h
    obtain ⟨_, _, hoa, hob, h⟩ := h
    have hq : ∃ t, q = .join (DAVerif.strip p) b onA onB t := by
      cases check
      · simp only [Bool.false_eq_true, ↓reduceIte] at h
        split at h
        · exact absurd h (by simp [throw, throwThe, MonadExceptOf.throw])
        · simp only [ok?_bind_ok, pure_ok] at h
          exact ⟨_, h.2.symm⟩
      · simp only [↓reduceIte, ok?_bind_ok] at h
        obtain ⟨_, h⟩ := h
        split at h
        · exact absurd h (by simp [throw, throwThe, MonadExceptOf.throw])
        · simp only [ok?_bind_ok, pure_ok] at h
          exact ⟨_, h.2.symm⟩
    obtain ⟨t, rfl⟩ := hq
    simp only [JoinWF, joinWFb, Bool.and_eq_true]
    exact ⟨⟨⟨(JoinWF.stripped hs), hbw⟩, hoa⟩, hob⟩
  | concat b idc an bn =>
    cases b with
    | none => simp only [build, Except.ok.injEq] at h; subst h; exact hs
    | some b =>
      have hbw : JoinWF b := hb b (by simp [stepArgs])
      simp only [build, concatB_eq, mkConcat, ok?_bind_ok] at h
      obtain ⟨_, hcols, h⟩ := h
      simp only [Bool.and_eq_true] at hcols
      cases idc with
      | none =>
        simp only [pure_bind, pure_ok] at h
        subst h
        simp only [JoinWF, joinWFb, Bool.and_eq_true]
        exact ⟨⟨⟨(JoinWF.stripped hs), hbw⟩, hcols.1⟩, hcols.2⟩
      | some c =>
        simp only [ok?_bind_ok, pure_ok] at h
        obtain ⟨_, rfl⟩ := h
        simp only [JoinWF, joinWFb, Bool.and_eq_true]
        exact ⟨⟨⟨(JoinWF.stripped hs), hbw⟩, hcols.1⟩, hcols.2⟩
  | convert rm =>
    cases rm with
    | none => simp only [build, Except.ok.injEq] at h; subst h; exact hs
    | some rm =>
      simp only [build, convertB_eq, mkConvert, ok?_bind_ok, pure_ok, nodupB_iff] at h
      obtain ⟨_, _, _, rfl⟩ := h
      exact (JoinWF.stripped hs)

end Sql
open Sql

/-- **Every pipeline obtained from table descriptions by builder calls satisfies `JoinWF`.** -/
theorem C16_reachable_joinwf {p : Ops} (h : Reachable p) : JoinWF p := by
  induction h with
  | table name cs hne hnd => rfl
  | @step p s q _ _ hb ihp ihb => exact build_joinwf ihp ihb hb

end DAVerif
