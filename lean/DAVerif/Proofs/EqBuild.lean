import DAVerif.Proofs.BuilderReach
import DAVerif.Proofs.EqOps
/-! The builders establish `DictWF` (C11's representation invariant): `parseAssignments` rejects duplicate keys
and `tryMergeOps` keeps keys distinct. -/
namespace DAVerif

theorem eraseDups_length_le_c11 : ∀ (l : List String), l.eraseDups.length ≤ l.length
  | [] => by simp
  | a :: l => by
    rw [List.eraseDups_cons]
    have h1 := eraseDups_length_le_c11 (l.filter (fun b => !b == a))
    have h2 := List.length_filter_le (fun b => !b == a) l
    simp only [List.length_cons]
    omega
termination_by l => l.length
decreasing_by
  have := List.length_filter_le (fun b => !b == a) l
  simp only [List.length_cons]; omega

theorem nodup_of_nodupB : ∀ (l : List String), nodupB l = true → l.Nodup
  | [] => by simp
  | a :: l => by
    intro h
    simp only [nodupB, List.eraseDups_cons, List.length_cons, beq_iff_eq, Nat.add_right_cancel_iff] at h
    have h1 := eraseDups_length_le_c11 (l.filter (fun b => !b == a))
    have h2 := List.length_filter_le (fun b => !b == a) l
    have hf : (l.filter (fun b => !b == a)).length = l.length := by omega
    have hall := List.length_filter_eq_length_iff.1 hf
    have hfe : l.filter (fun b => !b == a) = l := List.filter_eq_self.2 hall
    rw [hfe] at h
    have hl : l.Nodup := nodup_of_nodupB l (by simp [nodupB, h])
    have ha : a ∉ l := by
      intro hm
      have := hall a hm
      simp at this
    exact List.nodup_cons.2 ⟨ha, hl⟩

end DAVerif

namespace DAVerif

theorem except_bind_ok {ε α β : Type} {x : Except ε α} {f : α → Except ε β} {r : β}
    (h : (x >>= f) = .ok r) : ∃ a, x = .ok a ∧ f a = .ok r := by
  cases x with
  | error e => simp [bind, Except.bind] at h
  | ok a => exact ⟨a, rfl, h⟩

theorem ok?_ok_c11 {c : Bool} {e : Err} {u : Unit} (h : ok? c e = .ok u) : c = true := by
  unfold ok? at h; split at h <;> simp_all

/-- peel the binds / branches of a `do` block that returned `.ok` -/
syntax "peel " ident : tactic
macro_rules
  | `(tactic| peel $h:ident) =>
    `(tactic| repeat' (first
        | (replace $h:ident := (except_bind_ok $h).choose_spec.2)
        | (simp only [] at $h:ident)
        | (split at $h:ident)))

theorem parseAssignments_ok_c11 {vc : List String} {ops p : Assign} (h : parseAssignments vc ops = .ok p) :
    p = ops ∧ (ops.map (·.1)).Nodup := by
  unfold parseAssignments at h
  obtain ⟨_, h1, h⟩ := except_bind_ok h
  obtain ⟨_, _, h⟩ := except_bind_ok h
  obtain ⟨_, _, h⟩ := except_bind_ok h
  exact ⟨by simpa [pure, Except.pure] using h.symm, nodup_of_nodupB _ (ok?_ok_c11 h1)⟩

/-! ### `tryMergeOps` keeps keys distinct -/

theorem keys_filter_sublist (a : Assign) (f : String × Term → Bool) :
    ((a.filter f).map (·.1)).Sublist (a.map (·.1)) := (List.filter_sublist).map _

theorem ite_none_some {α : Type} {c : Prop} [Decidable c] {x : Option α} {n : α}
    (h : (if c then none else x) = some n) : x = some n := by
  split at h <;> simp_all

theorem tryMergeOps_nodup {o1 o2 n : Assign} (h1 : (o1.map (·.1)).Nodup) (h2 : (o2.map (·.1)).Nodup)
    (h : tryMergeOps o1 o2 = some n) : (n.map (·.1)).Nodup := by
  unfold tryMergeOps at h
  simp only [] at h
  split at h
  · -- common targets: kept ++ ops2
    replace h := ite_none_some (ite_none_some (ite_none_some (ite_none_some (ite_none_some (ite_none_some h)))))
    simp only [Option.some.injEq] at h
    subst h
    rw [List.map_append, List.nodup_append]
    refine ⟨(keys_filter_sublist _ _).nodup h1, h2, ?_⟩
    intro a ha b hb hab
    subst hab
    simp only [List.mem_map, List.mem_filter] at ha
    obtain ⟨kv, ⟨hkv, hnc⟩, rfl⟩ := ha
    simp only [inter, List.contains_eq_mem, List.mem_filter, List.mem_map, Bool.not_eq_true',
      decide_eq_false_iff_not, decide_eq_true_eq] at hnc
    exact hnc ⟨⟨kv, hkv, rfl⟩, by simpa using hb⟩
  · -- no common target: ops1 ++ ops2
    rename_i hc
    replace h := ite_none_some (ite_none_some h)
    simp only [Option.some.injEq] at h
    subst h
    rw [List.map_append, List.nodup_append]
    refine ⟨h1, h2, ?_⟩
    intro a ha b hb hab
    subst hab
    simp only [inter, Bool.not_eq_true', Bool.not_eq_false, List.isEmpty_iff] at hc
    have : a ∈ List.filter (fun x => (o2.map (·.1)).contains x) (o1.map (·.1)) :=
      List.mem_filter.2 ⟨ha, by simpa using hb⟩
    rw [hc] at this
    exact absurd this (by simp)

end DAVerif

namespace DAVerif
open Ops

theorem mkExtend_wf {src : Ops} {ops : Assign} {pa : PartArg} {od rv : List String} {r : Ops}
    (hs : src.DictWF) (ho : (ops.map (·.1)).Nodup) (h : mkExtend src ops pa od rv = .ok r) : r.DictWF := by
  unfold mkExtend at h
  cases pa <;> simp only [] at h <;> peel h <;>
    (simp only [pure, Except.pure, Except.ok.injEq] at h; subst h; exact ⟨ho, hs⟩)

theorem mkProject_wf {src : Ops} {ops : Assign} {g : List String} {r : Ops}
    (hs : src.DictWF) (ho : (ops.map (·.1)).Nodup) (h : mkProject src ops g = .ok r) : r.DictWF := by
  unfold mkProject at h
  peel h
  all_goals (simp only [pure, Except.pure, Except.ok.injEq] at h; subst h; exact ⟨ho, hs⟩)

/-- finish a leaf: the `do` block returned a node whose sources are well-formed -/
syntax "leaf " ident : tactic
macro_rules
  | `(tactic| leaf $h:ident) =>
    `(tactic| first
        | (cases $h:ident; done)
        | (simp only [pure, Except.pure, Except.ok.injEq] at $h:ident; subst $h:ident; simp_all [DictWF]))

theorem mkSelectCols_wf {src : Ops} {cs : List String} {r : Ops} (hs : src.DictWF)
    (h : mkSelectCols src cs = .ok r) : r.DictWF := by
  unfold mkSelectCols at h
  cases src <;> peel h <;> leaf h

theorem mkDropCols_wf {src : Ops} {cs : List String} {r : Ops} (hs : src.DictWF)
    (h : mkDropCols src cs = .ok r) : r.DictWF := by
  unfold mkDropCols at h; peel h; leaf h

theorem mkOrder_wf {src : Ops} {cs rv : List String} {l : Option Nat} {r : Ops} (hs : src.DictWF)
    (h : mkOrder src cs rv l = .ok r) : r.DictWF := by
  unfold mkOrder at h; peel h; leaf h

theorem mkRename_wf {src : Ops} {m : List (String × String)} {r : Ops} (hs : src.DictWF)
    (h : mkRename src m = .ok r) : r.DictWF := by
  unfold mkRename at h; peel h; leaf h

theorem mkMapCols_wf {src : Ops} {m : List (String × Option String)} {r : Ops} (hs : src.DictWF)
    (h : mkMapCols src m = .ok r) : r.DictWF := by
  unfold mkMapCols at h; peel h; leaf h

theorem mkJoin_wf {a b : Ops} {oa ob : List String} {jt : String} {c : Bool} {r : Ops} (ha : a.DictWF)
    (hb : b.DictWF) (h : mkJoin a b oa ob jt c = .ok r) : r.DictWF := by
  unfold mkJoin at h; peel h <;> leaf h

theorem mkConcat_wf {a b : Ops} {i : Option String} {an bn : String} {r : Ops} (ha : a.DictWF)
    (hb : b.DictWF) (h : mkConcat a b i an bn = .ok r) : r.DictWF := by
  unfold mkConcat at h; peel h <;> leaf h

theorem mkConvert_wf {src : Ops} {rm : RecMap} {r : Ops} (hs : src.DictWF)
    (h : mkConvert src rm = .ok r) : r.DictWF := by
  unfold mkConvert at h; peel h; leaf h

/-! ### the builder methods (they re-issue themselves on the source of a trivial `order_rows`) -/

attribute [local irreducible] mkExtend mkProject extendParsed projectParsed

theorem renameB_wf (self : Ops) (m : List (String × String)) (r : Ops) :
    self.DictWF → renameB self m = .ok r → r.DictWF := by
  fun_induction renameB self m with
  | case1 src cs rv m ih => intro hs h; exact ih hs h
  | case2 self m hne => intro hs h; exact mkRename_wf hs h

theorem mapColsB_wf (self : Ops) (m : List (String × Option String)) (r : Ops) :
    self.DictWF → mapColsB self m = .ok r → r.DictWF := by
  fun_induction mapColsB self m with
  | case1 src cs rv m ih => intro hs h; exact ih hs h
  | case2 self m hne => intro hs h; exact mkMapCols_wf hs h

theorem orderB_wf (self : Ops) (cs rv : List String) (l : Option Nat) (r : Ops) :
    self.DictWF → orderB self cs rv l = .ok r → r.DictWF := by
  fun_induction orderB self cs rv l with
  | case1 src _ _ cs rv l ih => intro hs h; exact ih hs h
  | case2 self cs rv l hne => intro hs h; exact mkOrder_wf hs h

theorem convertB_wf (self : Ops) (rm : RecMap) (r : Ops) :
    self.DictWF → convertB self rm = .ok r → r.DictWF := by
  fun_induction convertB self rm with
  | case1 src _ _ rm ih => intro hs h; exact ih hs h
  | case2 self rm hne => intro hs h; exact mkConvert_wf hs h

theorem dropColsB_wf (self : Ops) (cs : List String) (r : Ops) :
    self.DictWF → dropColsB self cs = .ok r → r.DictWF := by
  fun_induction dropColsB self cs with
  | case1 src _ _ cs ih => intro hs h; exact ih hs h
  | case2 self cs hne => intro hs h; exact mkDropCols_wf hs h

theorem selectRowsB_wf (self : Ops) (e : Term) (r : Ops) :
    self.DictWF → selectRowsB self e = .ok r → r.DictWF := by
  fun_induction selectRowsB self e with
  | case1 src _ _ e ih => intro hs h; exact ih hs h
  | case2 self e hne => intro hs h; cases h; exact hs

theorem joinB_wf (self b : Ops) (oa ob : List String) (jt : String) (c : Bool) (r : Ops) :
    self.DictWF → b.DictWF → joinB self b oa ob jt c = .ok r → r.DictWF := by
  fun_induction joinB self b oa ob jt c with
  | case1 src _ _ b oa ob jt c ih => intro hs hb h; exact ih hs hb h
  | case2 self b oa ob jt c hne => intro hs hb h; exact mkJoin_wf hs hb h

theorem concatB_wf (self b : Ops) (i : Option String) (an bn : String) (r : Ops) :
    self.DictWF → b.DictWF → concatB self b i an bn = .ok r → r.DictWF := by
  fun_induction concatB self b i an bn with
  | case1 src _ _ b i an bn ih => intro hs hb h; exact ih hs hb h
  | case2 self b i an bn hne => intro hs hb h; exact mkConcat_wf hs hb h

theorem selectColsB_wf (self : Ops) (cs : List String) (r : Ops) :
    self.DictWF → selectColsB self cs = .ok r → r.DictWF := by
  fun_induction selectColsB self cs with
  | case1 src _ _ cs ih => intro hs h; exact ih hs h
  | case2 src cs0 cs ih => intro hs h; exact ih hs (except_bind_ok h).choose_spec.2
  | case3 src dels cs ih => intro hs h; exact ih hs (except_bind_ok h).choose_spec.2
  | case4 self cs _ _ _ => intro hs h; exact mkSelectCols_wf hs h

theorem projectParsed_wf : ∀ (self : Ops) (ops : Assign) (g : List String) (r : Ops),
    self.DictWF → (ops.map (·.1)).Nodup → projectParsed self ops g = .ok r → r.DictWF := by
  intro self
  induction self with
  | order src cs rv lim ih =>
    intro ops g r hs ho h
    cases lim <;> (unfold projectParsed at h; peel h)
    all_goals first
      | exact ih ops g r hs ho h
      | exact mkProject_wf hs ho h
      | (simp only [pure, Except.pure, Except.ok.injEq] at h; subst h; exact ⟨ho, hs⟩)
  | _ =>
    intro ops g r hs ho h
    unfold projectParsed at h
    peel h
    all_goals first
      | exact mkProject_wf hs ho h
      | (simp only [pure, Except.pure, Except.ok.injEq] at h; subst h; exact ⟨ho, hs⟩)

theorem extendParsed_wf : ∀ (self : Ops) (ops : Assign) (pa : PartArg) (od rv : List String) (r : Ops),
    self.DictWF → (ops.map (·.1)).Nodup → extendParsed self ops pa od rv = .ok r → r.DictWF := by
  intro self
  induction self with
  | order src cs rv0 lim ih =>
    intro ops pa od rv r hs ho h
    cases lim <;> (unfold extendParsed at h; peel h)
    all_goals first
      | exact ih _ _ _ _ _ hs ho h
      | exact mkExtend_wf hs ho h
      | (simp only [pure, Except.pure, Except.ok.injEq] at h; subst h; exact hs)
  | extend src ops1 p1 o1 r1 w1 ih =>
    intro ops pa od rv r hs ho h
    unfold extendParsed at h
    peel h
    all_goals first
      | exact mkExtend_wf hs ho h
      | exact mkExtend_wf hs.2 (tryMergeOps_nodup hs.1 ho (by assumption)) h
      | (simp only [pure, Except.pure, Except.ok.injEq] at h; subst h; exact hs)
  | _ =>
    intro ops pa od rv r hs ho h
    unfold extendParsed at h
    peel h
    all_goals first
      | exact mkExtend_wf hs ho h
      | (simp only [pure, Except.pure, Except.ok.injEq] at h; subst h; exact hs)

/-- the pipeline argument of a step (`b` of a join / concat) -/
def Step.arg : Step → Option Ops
  | .join b _ _ _ _ => some b
  | .concat (some b) _ _ _ => some b
  | _ => none

/-- every builder call keeps the invariant -/
theorem build_dictWF {self r : Ops} {st : Step} (hs : self.DictWF) (ha : ∀ b, st.arg = some b → b.DictWF)
    (h : build self st = .ok r) : r.DictWF := by
  cases st with
  | extend ops pa od rv =>
    simp only [build] at h
    obtain ⟨p, hp, h2⟩ := except_bind_ok h
    obtain ⟨hpe, hn⟩ := parseAssignments_ok_c11 hp
    rw [hpe] at h2
    exact extendParsed_wf _ _ _ _ _ _ hs hn h2
  | project ops g =>
    simp only [build] at h
    obtain ⟨p, hp, h2⟩ := except_bind_ok h
    obtain ⟨hpe, hn⟩ := parseAssignments_ok_c11 hp
    rw [hpe] at h2
    exact projectParsed_wf _ _ _ _ hs hn h2
  | selectRows e =>
    cases e with
    | none => simp only [build] at h; cases h; exact hs
    | some e =>
      simp only [build] at h
      obtain ⟨_, _, h⟩ := except_bind_ok h
      exact selectRowsB_wf _ _ _ hs h
  | selectCols cs =>
    simp only [build] at h
    obtain ⟨_, _, h⟩ := except_bind_ok h
    exact selectColsB_wf _ _ _ hs h
  | dropCols cs =>
    simp only [build] at h
    split at h
    · cases h; exact hs
    · exact dropColsB_wf _ _ _ hs h
  | order cs rv l =>
    simp only [build] at h
    split at h
    · cases h; exact hs
    · exact orderB_wf _ _ _ _ _ hs h
  | rename m =>
    simp only [build] at h
    split at h
    · cases h; exact hs
    · exact renameB_wf _ _ _ hs h
  | mapCols m =>
    simp only [build] at h
    split at h
    · cases h; exact hs
    · exact mapColsB_wf _ _ _ hs h
  | join b oa ob jt c => exact joinB_wf _ _ _ _ _ _ _ hs (ha b rfl) h
  | concat b i an bn =>
    cases b with
    | none => simp only [build] at h; cases h; exact hs
    | some b => exact concatB_wf _ _ _ _ _ _ hs (ha b rfl) h
  | convert rm =>
    cases rm with
    | none => simp only [build] at h; cases h; exact hs
    | some rm => exact convertB_wf _ _ _ hs h

/-- pipelines obtained from table descriptions by builder calls (join / concat arguments built the same way) -/
inductive ReachableC11 : Ops → Prop
  | table (n : String) (cs : List String) : ReachableC11 (.table n cs)
  | step {p r : Ops} {st : Step} : ReachableC11 p → (∀ b, st.arg = some b → ReachableC11 b) → build p st = .ok r →
      ReachableC11 r

/-- every pipeline the builders can produce satisfies C11's representation invariant -/
theorem reachable_dictWF {p : Ops} (h : ReachableC11 p) : p.DictWF := by
  induction h with
  | table n cs => trivial
  | step _ _ hb ihp ihb => exact build_dictWF ihp ihb hb

end DAVerif
