import DAVerif.Proofs.Perm
/-!
Basic facts about the Bool-valued set functions of the builder model (`subset`, `disjoint`, `nodupB`, `inter`,
`appendNew`, `lookupLast`, `ok?`) and about rows (`get`, `set`, `setAll`, `select`, `drop`, `rename`) and
expression evaluation (`evalCell` only reads the columns the term mentions).  Used by C06 and C07.
-/
namespace DAVerif

/-! ### the Bool-valued set functions -/

theorem subset_iffC {a b : List String} : subset a b = true ↔ ∀ x ∈ a, x ∈ b := by
  simp [subset, List.all_eq_true]

theorem disjoint_iffC {a b : List String} : disjoint a b = true ↔ ∀ x ∈ a, x ∉ b := by
  simp [disjoint, List.all_eq_true]

theorem disjoint_comm {a b : List String} : disjoint a b = disjoint b a := by
  rw [Bool.eq_iff_iff, disjoint_iffC, disjoint_iffC]
  exact ⟨fun h x hx hxa => h x hxa hx, fun h x hx hxb => h x hxb hx⟩

theorem subset_refl (a : List String) : subset a a = true := subset_iffC.mpr (fun _ h => h)

theorem mem_interC {a b : List String} {x : String} : x ∈ inter a b ↔ x ∈ a ∧ x ∈ b := by
  simp [inter, List.mem_filter]

theorem length_eraseDups_leC : ∀ (l : List String), l.eraseDups.length ≤ l.length
  | [] => by simp
  | a :: as => by
    have : (as.filter (fun b => !b == a)).length < (a :: as).length :=
      Nat.lt_succ_of_le (List.length_filter_le _ _)
    rw [List.eraseDups_cons, List.length_cons, List.length_cons]
    have h1 := length_eraseDups_leC (as.filter (fun b => !b == a))
    have h2 := List.length_filter_le (fun b => !b == a) as
    omega
termination_by l => l.length

theorem eraseDups_of_nodup : ∀ {l : List String}, l.Nodup → l.eraseDups = l
  | [], _ => by simp
  | a :: as, h => by
    rw [List.nodup_cons] at h
    have hf : as.filter (fun b => !b == a) = as := by
      rw [List.filter_eq_self]
      intro b hb
      simp only [Bool.not_eq_true', beq_eq_false_iff_ne, ne_eq]
      rintro rfl
      exact h.1 hb
    rw [List.eraseDups_cons, hf, eraseDups_of_nodup h.2]

theorem nodupB_iffC {a : List String} : nodupB a = true ↔ a.Nodup := by
  constructor
  · intro h
    simp only [nodupB, beq_iff_eq] at h
    induction a with
    | nil => exact List.nodup_nil
    | cons x xs ih =>
      rw [List.eraseDups_cons, List.length_cons, List.length_cons] at h
      have h1 := length_eraseDups_leC (xs.filter (fun b => !b == x))
      have h2 := List.length_filter_le (fun b => !b == x) xs
      have hlen : (xs.filter (fun b => !b == x)).length = xs.length := by omega
      have hf : xs.filter (fun b => !b == x) = xs := List.filter_eq_self.mpr (by
        have := List.length_filter_eq_length_iff.mp hlen
        exact this)
      rw [hf] at h
      rw [List.nodup_cons]
      refine ⟨?_, ih (by omega)⟩
      intro hx
      have := (List.filter_eq_self.mp hf) x hx
      simp at this
  · intro h
    simp [nodupB, eraseDups_of_nodup h]

theorem ok?_eq_ok {c : Bool} {e : Err} {u : Unit} : ok? c e = .ok u ↔ c = true := by
  cases c <;> simp [ok?]

theorem ok?_trueC (e : Err) : ok? true e = .ok () := rfl
theorem ok?_falseC (e : Err) : ok? false e = .error e := rfl

/-! ### `appendNew` -/

theorem appendNew_nil (xs : List String) : appendNew xs [] = xs := rfl

theorem appendNew_cons (xs : List String) (y : String) (ys : List String) :
    appendNew xs (y :: ys) = appendNew (if xs.contains y then xs else xs ++ [y]) ys := rfl

theorem appendNew_appendC (xs ys zs : List String) :
    appendNew xs (ys ++ zs) = appendNew (appendNew xs ys) zs := by
  simp [appendNew, List.foldl_append]

theorem mem_appendNewC {c : String} : ∀ {ys xs : List String}, c ∈ appendNew xs ys ↔ c ∈ xs ∨ c ∈ ys
  | [], xs => by simp [appendNew]
  | y :: ys, xs => by
    rw [appendNew_cons, mem_appendNewC (ys := ys)]
    split
    · rename_i h
      have hy : y ∈ xs := by simpa using h
      constructor
      · rintro (h | h)
        · exact Or.inl h
        · exact Or.inr (List.mem_cons_of_mem _ h)
      · rintro (h | h)
        · exact Or.inl h
        · rcases List.mem_cons.mp h with rfl | h
          · exact Or.inl hy
          · exact Or.inr h
    · simp only [List.mem_append, List.mem_cons, List.not_mem_nil, or_false]
      constructor
      · rintro ((h | h) | h)
        · exact Or.inl h
        · exact Or.inr (Or.inl h)
        · exact Or.inr (Or.inr h)
      · rintro (h | h | h)
        · exact Or.inl (Or.inl h)
        · exact Or.inl (Or.inr h)
        · exact Or.inr h

theorem nodup_appendNewC : ∀ {ys xs : List String}, xs.Nodup → (appendNew xs ys).Nodup
  | [], _, h => h
  | y :: ys, xs, h => by
    rw [appendNew_cons]
    split
    · exact nodup_appendNewC h
    · rename_i hc
      apply nodup_appendNewC
      rw [List.nodup_append]
      refine ⟨h, by simp, ?_⟩
      intro a ha b hb
      simp only [List.mem_singleton] at hb
      subst hb
      rintro rfl
      exact hc (by simpa using ha)

/-- if all the new names are already there nothing changes -/
theorem appendNew_of_subset : ∀ {ys xs : List String}, (∀ y ∈ ys, y ∈ xs) → appendNew xs ys = xs
  | [], _, _ => rfl
  | y :: ys, xs, h => by
    rw [appendNew_cons, if_pos (by simpa using h y (List.mem_cons_self ..))]
    exact appendNew_of_subset (fun z hz => h z (List.mem_cons_of_mem _ hz))

/-- `appendNew` of equivalent (as sets) extensions of permuted lists are permutations -/
theorem appendNew_perm {xs xs' ys ys' : List String} (hx : xs.Nodup) (hx' : xs'.Nodup)
    (h : ∀ c, (c ∈ xs ∨ c ∈ ys) ↔ (c ∈ xs' ∨ c ∈ ys')) : (appendNew xs ys).Perm (appendNew xs' ys') :=
  (List.perm_ext_iff_of_nodup (nodup_appendNewC hx) (nodup_appendNewC hx')).mpr
    (fun c => by rw [mem_appendNewC, mem_appendNewC]; exact h c)

/-! ### `lookupLast` (Python dict view of an association list) -/

theorem lookupLast_nilC {β : Type} (k : String) : lookupLast ([] : List (String × β)) k = none := rfl

theorem lookupLast_append {β : Type} (a b : List (String × β)) (k : String) :
    lookupLast (a ++ b) k = (lookupLast b k).or (lookupLast a k) := by
  simp only [lookupLast, List.reverse_append, List.find?_append]
  cases List.find? (fun kv => kv.1 == k) b.reverse <;> simp

theorem lookupLast_singleton {β : Type} (k' : String) (v : β) (k : String) :
    lookupLast [(k', v)] k = if k' == k then some v else none := by
  simp only [lookupLast, List.reverse_cons, List.reverse_nil, List.nil_append, List.find?_cons,
    List.find?_nil]
  split <;> simp_all

theorem lookupLast_concat {β : Type} (a : List (String × β)) (k' : String) (v : β) (k : String) :
    lookupLast (a ++ [(k', v)]) k = if k' == k then some v else lookupLast a k := by
  rw [lookupLast_append, lookupLast_singleton]
  split <;> simp

theorem lookupLast_consC {β : Type} (kv : String × β) (a : List (String × β)) (k : String) :
    lookupLast (kv :: a) k = (lookupLast a k).or (if kv.1 == k then some kv.2 else none) := by
  have : kv :: a = [kv] ++ a := rfl
  rw [this, lookupLast_append, lookupLast_singleton]

theorem lookupLast_eq_none_iff {β : Type} {a : List (String × β)} {k : String} :
    lookupLast a k = none ↔ k ∉ a.map (·.1) := by
  simp only [lookupLast, Option.map_eq_none_iff, List.find?_eq_none, List.mem_reverse, beq_iff_eq,
    List.mem_map, not_exists, not_and]

theorem lookupLast_isSome_iff {β : Type} {a : List (String × β)} {k : String} :
    (lookupLast a k).isSome ↔ k ∈ a.map (·.1) := by
  have := lookupLast_eq_none_iff (a := a) (k := k)
  cases h : lookupLast a k with
  | none => simpa [h] using this
  | some v => simpa [h] using this

theorem lookupLast_map_snd {β γ : Type} (a : List (String × β)) (g : String × β → γ) (k : String) :
    lookupLast (a.map (fun kv => (kv.1, g kv))) k =
      ((a.reverse.find? (fun kv => kv.1 == k)).map g) := by
  simp only [lookupLast, ← List.map_reverse, List.find?_map, Option.map_map]
  rfl

/-- entries whose key is not `k` do not matter for the lookup of `k` -/
theorem lookupLast_filter {β : Type} (a : List (String × β)) (p : String → Bool) (k : String) (hk : p k = true) :
    lookupLast (a.filter (fun kv => p kv.1)) k = lookupLast a k := by
  induction a with
  | nil => rfl
  | cons kv a ih =>
    rw [List.filter_cons]
    split
    · rw [lookupLast_consC, lookupLast_consC, ih]
    · rename_i h
      rw [lookupLast_consC, ih]
      have : (kv.1 == k) = false := by
        cases hkk : kv.1 == k with
        | false => rfl
        | true =>
          rw [beq_iff_eq] at hkk
          rw [hkk] at h
          exact absurd hk h
      simp [this]

end DAVerif
