import DAVerif.Proofs.Methods
/-!
C05, aggregates and window functions: the pandas model (`ThetaX.agg/win` = `Theta.agg/win`) and the SQLite model
(`ThetaSqlX.agg/win`) against `Doc.docAgg/docWin`.
-/
namespace DAVerif.C05
open DAVerif DAVerif.Doc

theorem nonNull_eq (vs : List Val) : Theta.nonNull vs = Doc.nonNull vs := by
  unfold Theta.nonNull Doc.nonNull
  congr 1
  funext v
  cases v <;> rfl

/-- when every non-null item is a number, `Theta.nums` (which also reads bools as 0/1) sees exactly those numbers -/
theorem nums_of_numItems {vs : List Val} {xs : List Rat} (h : numItems? vs = some xs) : Theta.nums vs = xs := by
  unfold numItems? Doc.nonNull at h
  unfold Theta.nums
  induction vs generalizing xs with
  | nil => simp [nums?] at h; subst h; rfl
  | cons v r ih =>
    cases v with
    | null =>
      have := ih (xs := xs) (by simpa using h)
      simpa [List.filterMap_cons, Theta.num?] using this
    | num q =>
      simp only [List.filter_cons] at h
      have hq : (Val.num q != Val.null) = true := rfl
      rw [if_pos hq] at h
      cases hr : nums? (List.filter (fun x => x != Val.null) r) with
      | none => simp [nums?, hr] at h
      | some ys =>
        simp [nums?, hr] at h; subst h
        simp [Theta.num?, ih hr]
    | bool b =>
      simp only [List.filter_cons] at h
      have hq : (Val.bool b != Val.null) = true := rfl
      rw [if_pos hq] at h; simp [nums?] at h
    | str s =>
      simp only [List.filter_cons] at h
      have hq : (Val.str s != Val.null) = true := rfl
      rw [if_pos hq] at h; simp [nums?] at h

theorem foldl_add_acc (a : Rat) (xs : List Rat) : xs.foldl (· + ·) a = a + sumQ xs := by
  induction xs generalizing a with
  | nil => simp [sumQ, Rat.add_zero]
  | cons x r ih => simp only [List.foldl, sumQ]; rw [ih, Rat.add_assoc]

theorem sumR_eq_sumQ (xs : List Rat) : Theta.sumR xs = sumQ xs := by
  unfold Theta.sumR; rw [foldl_add_acc, Rat.zero_add]

theorem pandas_sum (vs v) (h : docAgg "sum" vs = some v) : ThetaX.agg "sum" vs = v := by
  have hd : docAgg "sum" vs = (numItems? vs).map (fun xs => .num (sumQ xs)) := rfl
  rw [hd] at h
  cases hn : numItems? vs with
  | none => rw [hn] at h; simp at h
  | some xs =>
    rw [hn] at h; simp at h; subst h
    show Val.num (Theta.sumR (Theta.nums vs)) = _
    rw [nums_of_numItems hn, sumR_eq_sumQ]

/-- SQL `SUM`: the documented sum when the group has a non-null value (none: NULL instead of 0 – the documented
destination difference) -/
theorem sqlite_sum (vs v) (h : docAgg "sum" vs = some v) (hnn : Doc.nonNull vs ≠ []) : ThetaSqlX.agg "sum" vs = v := by
  have hd : docAgg "sum" vs = (numItems? vs).map (fun xs => .num (sumQ xs)) := rfl
  rw [hd] at h
  cases hn : numItems? vs with
  | none => rw [hn] at h; simp at h
  | some xs =>
    rw [hn] at h; simp at h; subst h
    show (if (Theta.nums vs).isEmpty then Val.null else Val.num (Theta.sumR (Theta.nums vs))) = _
    rw [nums_of_numItems hn, sumR_eq_sumQ]
    have : xs ≠ [] := by
      intro hx; subst hx
      unfold numItems? at hn
      cases hnv : Doc.nonNull vs with
      | nil => exact hnn hnv
      | cons a r =>
        rw [hnv] at hn
        cases a <;> simp [nums?] at hn
    cases xs with
    | nil => exact absurd rfl this
    | cons a r => rfl

theorem pandas_count (vs v) (h : docAgg "count" vs = some v) : ThetaX.agg "count" vs = v := by
  have hd : docAgg "count" vs = some (.num (Doc.nonNull vs).length) := rfl
  rw [hd] at h; simp at h; subst h
  show Val.num (Theta.nonNull vs).length = _
  rw [nonNull_eq]

theorem sqlite_count (vs v) (h : docAgg "count" vs = some v) (hne : vs ≠ []) : ThetaSqlX.agg "count" vs = v := by
  have hd : docAgg "count" vs = some (.num (Doc.nonNull vs).length) := rfl
  rw [hd] at h; simp at h; subst h
  show (if vs.isEmpty then Val.null else Val.num (Theta.nonNull vs).length) = _
  rw [nonNull_eq]
  cases vs with
  | nil => exact absurd rfl hne
  | cons a r => rfl

theorem pandas_size (vs v) (h : docAgg "size" vs = some v) : ThetaX.agg "size" vs = v := by
  have hd : docAgg "size" vs = some (.num vs.length) := rfl
  rw [hd] at h; simp at h; subst h; rfl

theorem sqlite_size (vs v) (h : docAgg "size" vs = some v) (hne : vs ≠ []) : ThetaSqlX.agg "size" vs = v := by
  have hd : docAgg "size" vs = some (.num vs.length) := rfl
  rw [hd] at h; simp at h; subst h
  cases vs with
  | nil => exact absurd rfl hne
  | cons a r => rfl

theorem pandas__size (vs v) (h : docAgg "_size" vs = some v) : ThetaX.agg "_size" vs = v := by
  have hd : docAgg "_size" vs = some (.num vs.length) := rfl
  rw [hd] at h; simp at h; subst h; rfl

theorem sqlite__size (vs v) (h : docAgg "_size" vs = some v) (hne : vs ≠ []) : ThetaSqlX.agg "_size" vs = v := by
  have hd : docAgg "_size" vs = some (.num vs.length) := rfl
  rw [hd] at h; simp at h; subst h
  cases vs with
  | nil => exact absurd rfl hne
  | cons a r => rfl

theorem pandas_mean (vs v) (h : docAgg "mean" vs = some v) : ThetaX.agg "mean" vs = v := by
  have hd : docAgg "mean" vs = (numItems? vs).bind (fun xs => if xs.isEmpty then none else some (.num (sumQ xs / xs.length))) := rfl
  rw [hd] at h
  cases hn : numItems? vs with
  | none => rw [hn] at h; simp at h
  | some xs =>
    rw [hn] at h
    show (if (Theta.nums vs).isEmpty then Val.null
          else Val.num (Theta.sumR (Theta.nums vs) / (Theta.nums vs).length)) = v
    rw [nums_of_numItems hn, sumR_eq_sumQ]
    cases xs with
    | nil => simp at h
    | cons a r =>
      have h' : Val.num (sumQ (a :: r) / ((a :: r).length : Nat)) = v := by
        have := h; simp only [Option.bind_some, List.isEmpty_cons, Bool.false_eq_true, if_false] at this
        exact Option.some.inj this
      subst h'; rfl

theorem sqlite_mean (vs v) (h : docAgg "mean" vs = some v) : ThetaSqlX.agg "mean" vs = v := pandas_mean vs v h

/-- every non-null item is a bool: `Theta.truthy` reads exactly those bools -/
theorem all_truthy_of_boolItems {vs : List Val} {bs : List Bool} (h : boolItems? vs = some bs) :
    (Theta.nonNull vs).all (fun v => Theta.truthy v == some true) = bs.all id ∧
    (Theta.nonNull vs).any (fun v => Theta.truthy v == some true) = bs.any id := by
  rw [nonNull_eq]
  unfold boolItems? at h
  generalize Doc.nonNull vs = ws at h
  induction ws generalizing bs with
  | nil => simp [bools?] at h; subst h; exact ⟨rfl, rfl⟩
  | cons w r ih =>
    cases w with
    | bool b =>
      cases hr : bools? r with
      | none => simp [bools?, hr] at h
      | some ys =>
        simp [bools?, hr] at h; subst h
        obtain ⟨i1, i2⟩ := ih hr
        constructor
        · simp only [List.all_cons, i1]; cases b <;> rfl
        · simp only [List.any_cons, i2]; cases b <;> rfl
    | null => simp [bools?] at h
    | num q => simp [bools?] at h
    | str s => simp [bools?] at h

theorem pandas_all (vs v) (h : docAgg "all" vs = some v) : ThetaX.agg "all" vs = v := by
  have hd : docAgg "all" vs = (boolItems? vs).map (fun bs => .bool (bs.all id)) := rfl
  rw [hd] at h
  cases hn : boolItems? vs with
  | none => rw [hn] at h; simp at h
  | some bs =>
    rw [hn] at h; simp at h; subst h
    show Val.bool ((Theta.nonNull vs).all (fun v => Theta.truthy v == some true)) = _
    rw [(all_truthy_of_boolItems hn).1]

theorem pandas_any (vs v) (h : docAgg "any" vs = some v) : ThetaX.agg "any" vs = v := by
  have hd : docAgg "any" vs = (boolItems? vs).map (fun bs => .bool (bs.any id)) := rfl
  rw [hd] at h
  cases hn : boolItems? vs with
  | none => rw [hn] at h; simp at h
  | some bs =>
    rw [hn] at h; simp at h; subst h
    show Val.bool ((Theta.nonNull vs).any (fun v => Theta.truthy v == some true)) = _
    rw [(all_truthy_of_boolItems hn).2]

/-- SQL `all` (after fix C05-sql-all-ignores-null): documented value when the group has a non-null item -/
theorem sqlite_all (vs v) (h : docAgg "all" vs = some v) (hnn : Doc.nonNull vs ≠ []) : ThetaSqlX.agg "all" vs = v := by
  have hd : docAgg "all" vs = (boolItems? vs).map (fun bs => .bool (bs.all id)) := rfl
  rw [hd] at h
  cases hn : boolItems? vs with
  | none => rw [hn] at h; simp at h
  | some bs =>
    rw [hn] at h; simp at h; subst h
    show (if (Theta.nonNull vs).isEmpty then Val.null
          else Val.bool ((Theta.nonNull vs).all (fun v => Theta.truthy v == some true))) = _
    rw [(all_truthy_of_boolItems hn).1, nonNull_eq]
    cases hv : Doc.nonNull vs with
    | nil => exact absurd hv hnn
    | cons a r => rfl

theorem sqlite_any (vs v) (h : docAgg "any" vs = some v) (hne : vs ≠ []) : ThetaSqlX.agg "any" vs = v := by
  have := pandas_any vs v h
  cases vs with
  | nil => exact absurd rfl hne
  | cons a r => exact this

/-- `any_value` on a column that is constant within the group (Appendix B): pandas takes the first non-null value -/
theorem pandas_any_value (vs v) : docAgg "any_value" vs = some v → ThetaX.agg "any_value" vs = v := by
  have hd : docAgg "any_value" vs = (match vs with
    | [] => none
    | x :: r => if r.all (· == x) then some x else none) := rfl
  rw [hd]; intro h
  cases vs with
  | nil => simp at h
  | cons x r =>
    simp only at h
    by_cases hc : r.all (· == x) = true
    · rw [if_pos hc] at h; simp at h; subst h
      show (Theta.nonNull (x :: r)).headD .null = x
      cases x with
      | null =>
        have : Theta.nonNull (Val.null :: r) = [] := by
          unfold Theta.nonNull
          simp only [List.filter_cons]
          have : (!Val.isNull Val.null) = false := rfl
          rw [this]; simp only [Bool.false_eq_true, if_false]
          rw [List.filter_eq_nil_iff]
          intro a ha
          have := List.all_eq_true.mp hc a ha
          simp at this; subst this; simp [Val.isNull]
        rw [this]; rfl
      | bool b => rfl
      | num q => rfl
      | str s => rfl
    · rw [if_neg hc] at h; simp at h

/-! ### windows -/

theorem pandas_row_number (cargs vs pos v) (h : docWin "_row_number" cargs vs pos = some v) :
    ThetaX.win "_row_number" cargs vs pos = v := by
  have hd : docWin "_row_number" cargs vs pos = (if pos < vs.length then some (.num ((pos : Rat) + 1)) else none) := rfl
  rw [hd] at h
  by_cases hp : pos < vs.length
  · rw [if_pos hp] at h; simp at h; subst h
    rfl
  · rw [if_neg hp] at h; simp at h

theorem sqlite_row_number (cargs vs pos v) (h : docWin "_row_number" cargs vs pos = some v) :
    ThetaSqlX.win "_row_number" cargs vs pos = v := pandas_row_number cargs vs pos v h

theorem pandas_shift (cargs vs pos v) : docWin "shift" cargs vs pos = some v → ThetaX.win "shift" cargs vs pos = v := by
  have hd : docWin "shift" cargs vs pos = (if pos < vs.length then
      match cargs with
      | [] => some (if pos = 0 then .null else vs.getD (pos - 1) .null)
      | [.num k] =>
        if k.den = 1 ∧ k.num ≠ 0 then
          some (if ((pos : Int) - k.num) < 0 then .null else vs.getD ((pos : Int) - k.num).toNat .null)
        else none
      | _ => none
    else none) := rfl
  rw [hd]; intro h
  by_cases hp : pos < vs.length
  · rw [if_pos hp] at h
    split at h
    · simp at h; subst h
      show (if (pos == 0) = true then Val.null else vs.getD (pos - 1) .null) = _
      by_cases h0 : pos = 0 <;> simp [h0]
    · rename_i k
      by_cases hk : k.den = 1 ∧ k.num ≠ 0
      · rw [if_pos hk] at h; simp at h; subst h
        show (if (k.den == 1) = true then
                (if ((pos : Int) - k.num) < 0 then Val.null else vs.getD ((pos : Int) - k.num).toNat .null) else .null) = _
        simp [hk.1]
      · rw [if_neg hk] at h; simp at h
    · simp at h
  · rw [if_neg hp] at h; simp at h

theorem sqlite_shift (cargs vs pos v) (h : docWin "shift" cargs vs pos = some v) :
    ThetaSqlX.win "shift" cargs vs pos = v := pandas_shift cargs vs pos v h

/-- a prefix of numbers: `Theta.nums` is the identity on it -/
theorem nums_of_nums? {ws : List Val} {xs : List Rat} (h : nums? ws = some xs) : Theta.nums ws = xs ∧ ws = xs.map Val.num := by
  induction ws generalizing xs with
  | nil => simp [nums?] at h; subst h; exact ⟨rfl, rfl⟩
  | cons w r ih =>
    cases w with
    | num q =>
      cases hr : nums? r with
      | none => simp [nums?, hr] at h
      | some ys =>
        simp [nums?, hr] at h; subst h
        obtain ⟨i1, i2⟩ := ih hr
        exact ⟨by simp [Theta.nums, Theta.num?] at i1 ⊢; exact i1, by simp [i2]⟩
    | null => simp [nums?] at h
    | bool b => simp [nums?] at h
    | str s => simp [nums?] at h

theorem getD_take (vs : List Val) (pos : Nat) (hp : pos < vs.length) :
    (vs.take (pos + 1)).getLast? = some (vs.getD pos .null) := by
  rw [List.getLast?_eq_getElem?]
  have hl : (vs.take (pos + 1)).length = pos + 1 := by simp [List.length_take]; omega
  rw [hl]
  simp [hp]

theorem cumulative_pandas (f : Rat → Rat → Rat) (vs : List Val) (pos : Nat) (v : Val)
    (h : cumulative f vs pos = some v) : Theta.cumulate f vs pos = v := by
  unfold cumulative at h
  by_cases hp : pos < vs.length
  · rw [if_pos hp] at h
    cases hn : nums? (vs.take (pos + 1)) with
    | none => rw [hn] at h; simp at h
    | some xs =>
      rw [hn] at h
      obtain ⟨h1, h2⟩ := nums_of_nums? hn
      cases xs with
      | nil => simp at h
      | cons x r =>
        simp at h; subst h
        unfold Theta.cumulate
        rw [h1]
        -- the current cell is the last of the prefix, a number
        have hl := getD_take vs pos hp
        rw [h2] at hl
        have : ∃ q, vs.getD pos .null = Val.num q := by
          cases hg : ((x :: r).map Val.num).getLast? with
          | none => simp at hg
          | some w =>
            rw [hg] at hl
            have hw : w ∈ (x :: r).map Val.num := List.mem_of_getLast? hg
            obtain ⟨q, _, hq⟩ := List.mem_map.mp hw
            exact ⟨q, by rw [← Option.some.inj hl, ← hq]⟩
        obtain ⟨q, hq⟩ := this
        rw [hq]
  · rw [if_neg hp] at h; simp at h

theorem cumulative_sqlite (f : Rat → Rat → Rat) (vs : List Val) (pos : Nat) (v : Val)
    (h : cumulative f vs pos = some v) : ThetaSql.runFold f vs pos = v := by
  unfold cumulative at h
  by_cases hp : pos < vs.length
  · rw [if_pos hp] at h
    cases hn : nums? (vs.take (pos + 1)) with
    | none => rw [hn] at h; simp at h
    | some xs =>
      rw [hn] at h
      obtain ⟨h1, _⟩ := nums_of_nums? hn
      cases xs with
      | nil => simp at h
      | cons x r =>
        simp at h; subst h
        unfold ThetaSql.runFold
        rw [h1]
  · rw [if_neg hp] at h; simp at h

theorem pandas_cumsum (cargs vs pos v) (h : docWin "cumsum" cargs vs pos = some v) : ThetaX.win "cumsum" cargs vs pos = v :=
  cumulative_pandas (· + ·) vs pos v h
theorem pandas_cumprod (cargs vs pos v) (h : docWin "cumprod" cargs vs pos = some v) : ThetaX.win "cumprod" cargs vs pos = v :=
  cumulative_pandas (· * ·) vs pos v h
theorem pandas_cummax (cargs vs pos v) (h : docWin "cummax" cargs vs pos = some v) : ThetaX.win "cummax" cargs vs pos = v :=
  cumulative_pandas maxR vs pos v h
theorem pandas_cummin (cargs vs pos v) (h : docWin "cummin" cargs vs pos = some v) : ThetaX.win "cummin" cargs vs pos = v :=
  cumulative_pandas minR vs pos v h
theorem sqlite_cumsum (cargs vs pos v) (h : docWin "cumsum" cargs vs pos = some v) : ThetaSqlX.win "cumsum" cargs vs pos = v :=
  cumulative_sqlite (· + ·) vs pos v h
theorem sqlite_cummax (cargs vs pos v) (h : docWin "cummax" cargs vs pos = some v) : ThetaSqlX.win "cummax" cargs vs pos = v :=
  cumulative_sqlite maxR vs pos v h
theorem sqlite_cummin (cargs vs pos v) (h : docWin "cummin" cargs vs pos = some v) : ThetaSqlX.win "cummin" cargs vs pos = v :=
  cumulative_sqlite minR vs pos v h

end DAVerif.C05
