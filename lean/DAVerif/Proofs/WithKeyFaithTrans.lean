import DAVerif.Proofs.SqlReach
import DAVerif.Proofs.WithKeyFaithNode
import DAVerif.Proofs.WithNames
import DAVerif.Proofs.WithSound
/-
C04, cache keys of the translation: **every bound sub-query of a translated tree is a sound translation of the
operator node its `ops_key` names** (`BoundOK`), for the columns it is bound with.

The induction follows `toNear` (as `toNear_spec` of Proofs/WithNames.lean does); the soundness of each recursive call is
the translation theorem `SqlE.transOK_fragJ_all` (C01), transported to the named node with `keyNode_rows`.
-/
namespace DAVerif.C04K
open DAVerif DAVerif.Sql
open DAVerif.Ops (usedFromSources unionL)

set_option linter.unusedSimpArgs false
set_option linter.unusedVariables false

section
variable (Θ : Interp) (ec : EngineCfg) (env : Env)

/-- the bound sub-query `x = (near, columns, force_sql)`: the `ops_key` of `near` is a key text of an operator node
`n` in scope, and `near` is a sound translation of `n` for the bound columns (`Sql.Sound`: bound with any sub-list of
them it evaluates to the rows of the table of `n`, in order, on those columns) -/
def BoundOK (x : Bound) : Prop :=
  ∃ (n : Ops) (k : String) (c pc : List String) (tp : Table),
    x.1.key = some k ∧ IsKeyOf n k ∧ RenderOK n ∧ x.2.1 = some c ∧
    semE ec Θ SemCfg.ref env n = .ok tp ∧ Sound Θ ec env x.1 c pc tp

/-- the induction claim for one call of the translation -/
def NodeClaim (cfg : SqlCfg) (fuel : Nat) (m : Ops) : Prop :=
  ∀ (u : List String) (st : Nat) (q : Near) (st' : Nat), (∀ c ∈ u, c ∈ m.cols) →
    toNear cfg fuel m (some u) st = .ok (q, st') →
    (q.isTable = true ∨ ∃ k, q.key = some k ∧ IsKeyOf (keyNode m u) k) ∧ ∀ x ∈ q.desc, BoundOK Θ ec env x

variable {Θ ec env} {cfg : SqlCfg}

theorem nodeClaim_zero (m : Ops) : NodeClaim Θ ec env cfg 0 m :=
  fun _ _ _ _ _ h => absurd h toNear_zero_ne_ok

/-- a sub-query bound with the columns it was translated for -/
theorem child_ok_core {q : Near} {n : Ops} {u pc : List String} {tn : Table}
    (hA : q.isTable = true ∨ ∃ k, q.key = some k ∧ IsKeyOf n k) (hB : ∀ x ∈ q.desc, BoundOK Θ ec env x)
    (hr : RenderOK n) (hn : semE ec Θ SemCfg.ref env n = .ok tn) (hs : Sound Θ ec env q u pc tn) (f : Bool) :
    ∀ x ∈ bdesc q (some u) f, BoundOK Θ ec env x := by
  intro x hx
  rcases hA with ht | ⟨k, hk, hkn⟩
  · rw [bdesc_of_isTable _ _ ht] at hx; cases hx
  · rcases mem_bdesc hx with rfl | hx'
    · exact ⟨n, k, u, pc, tn, hk, hkn, hr, rfl, hn, hs⟩
    · exact hB x hx'

theorem child_ok {fuel : Nat} {m : Ops} (hg : Good cfg env m) (hr : RenderOK m)
    (hclaim : NodeClaim Θ ec env cfg fuel m) {u : List String} {st st' : Nat} {q : Near}
    (hu : ∀ c ∈ u, c ∈ m.cols) (h : toNear cfg fuel m (some u) st = .ok (q, st')) (f : Bool) :
    ∀ x ∈ bdesc q (some u) f, BoundOK Θ ec env x := by
  obtain ⟨hA, hB⟩ := hclaim u st q st' hu h
  have hgn := keyNode_good m u hg
  obtain ⟨tm, htm⟩ := semG_ok_fragJ (sqlRowLe ec) Θ SemCfg.ref env m hg.frag false hg.env
  obtain ⟨tn, htn⟩ := semG_ok_fragJ (sqlRowLe ec) Θ SemCfg.ref env (keyNode m u) hgn.frag false hgn.env
  obtain ⟨_, u₁, hu₁, _, hsound⟩ :=
    (SqlE.transOK_fragJ_all Θ ec env cfg m.size m (Nat.le_refl _) hg fuel).1 u st q st' tm hu h htm
  have hs : Sound Θ ec env q u m.cols tn :=
    (hsound.restrict hu₁).mono (fun c hc => hc) (keyNode_rows Θ ec m u tm tn hg hu htm htn)
  exact child_ok_core hA hB (keyNode_renderOK m u hr) htn hs f

/-! ### the shape "translate the source, take a number, wrap" -/

theorem wrap_inv {m : M Near} {nm : Nat → String} {ts : Option Terms} {agg : Bool} {sc : Option (List String)}
    {sf : Suffix} {mg : Bool} {deps : Option (List (String × List String))} {key : Option String} {s s' : Nat} {q : Near}
    (h : (do
      let sub ← m
      let i ← fresh
      return Near.unary (nm i) ts agg sub sc sf mg deps key : M Near) s = .ok (q, s')) :
    ∃ sub s1, m s = .ok (sub, s1) ∧ q = .unary (nm s1) ts agg sub sc sf mg deps key := by
  simp only [M_bind_ok, M_pure_ok, M_fresh_ok] at h
  obtain ⟨sub, s1, hsub, i, s2, hi, hq⟩ := h
  cases hi
  cases hq
  exact ⟨sub, s1, hsub, rfl⟩

/-- the claim for a step that wraps the translation of its source -/
theorem claim_wrapped {m : Ops} {u S : List String} {q sub : Near} {nm : String} {ts : Option Terms} {agg : Bool}
    {sf : Suffix} {mg : Bool} {deps : Option (List (String × List String))} {k : String}
    (hq : q = .unary nm ts agg sub (some S) sf mg deps (some k)) (hk : IsKeyOf m k) (hkn : keyNode m u = m)
    (hB : ∀ x ∈ bdesc sub (some S) false, BoundOK Θ ec env x) :
    (q.isTable = true ∨ ∃ k, q.key = some k ∧ IsKeyOf (keyNode m u) k) ∧ ∀ x ∈ q.desc, BoundOK Θ ec env x := by
  subst hq
  refine ⟨Or.inr ⟨k, rfl, by rw [hkn]; exact hk⟩, ?_⟩
  rw [desc_unary]
  exact hB

/-! ### `setTermKeys` keeps key, kind and bound sub-queries -/

theorem setTermKeys_keep {near r : Near} {ks : List String} {b : Bool} (h : setTermKeys near ks b = some r) :
    r.key = near.key ∧ r.isTable = near.isTable ∧ r.desc = near.desc := by
  cases near with
  | table n ts =>
    simp only [setTermKeys] at h
    split at h
    · cases h; exact ⟨rfl, rfl, rfl⟩
    · split at h
      · cases h; exact ⟨rfl, rfl, rfl⟩
      · cases h
  | cte n => simp only [setTermKeys] at h; cases h; exact ⟨rfl, rfl, rfl⟩
  | unary n ts agg sub sc sf mg deps key =>
    simp only [setTermKeys] at h
    repeat' split at h
    all_goals first | (cases h; exact ⟨rfl, rfl, rfl⟩) | cases h
  | join n ts l lc ln r rc rn jt oa ob key =>
    simp only [setTermKeys] at h
    repeat' split at h
    all_goals first | (cases h; exact ⟨rfl, rfl, rfl⟩) | cases h
  | union n ts l r cs key =>
    simp only [setTermKeys] at h
    repeat' split at h
    all_goals first | (cases h; exact ⟨rfl, rfl, rfl⟩) | cases h

/-! ### the nodes -/

theorem claim_table (fuel : Nat) (name : String) (cs : List String) :
    NodeClaim Θ ec env cfg fuel (.table name cs) := by
  cases fuel with
  | zero => exact nodeClaim_zero _
  | succ fuel =>
    intro u st q st' hu h
    simp only [toNear, Option.getD_some, M_bind_ok, M_guardM_ok] at h
    obtain ⟨a, s1, ⟨-, hs⟩, h⟩ := h
    cases hs
    split at h
    · simp only [M_bind_ok, M_pure_ok, M_fresh_ok] at h
      obtain ⟨i, s2, hi, hq⟩ := h
      cases hi; cases hq
      refine ⟨Or.inr ⟨_, rfl, ⟨"table", by decide, Or.inr ⟨_, rfl⟩⟩⟩, ?_⟩
      intro x hx
      simp [Near.desc, Near.isTable] at hx
    · simp only [M_pure_ok] at h
      cases h
      exact ⟨Or.inl rfl, by intro x hx; simp [Near.desc] at hx⟩

theorem claim_extend {src : Ops} {ops : Assign} {part order rev : List String} {w : Bool}
    (hext : ExtOK src.cols ops part order rev w) (hgs : Good cfg env src) (hrs : RenderOK src)
    (ihs : ∀ fuel, NodeClaim Θ ec env cfg fuel src) :
    ∀ fuel, NodeClaim Θ ec env cfg fuel (.extend src ops part order rev w) := by
  intro fuel
  cases fuel with
  | zero => exact nodeClaim_zero _
  | succ fuel =>
    intro u st q st' hu h
    rcases toNear_extend_inv h with ⟨hempty, h'⟩ | ⟨hne, husgn, sub, st3, h5, hcase⟩
    · obtain ⟨h1, _, _⟩ := extend_pass_req hext hu hempty
      have := ihs fuel _ st q st' h1 h'
      simpa only [keyNode, hempty, if_true] using this
    · have hF := extFacts hext hu hne
      have hkn : keyNode (.extend src ops part order rev w) u = .extend src ops part order rev w := by
        simp only [keyNode, hne, Bool.false_eq_true, if_false]
      have hB := child_ok hgs hrs (ihs fuel) hF.Ssrc h5 false
      rcases hcase with ⟨rfl, rfl⟩ | ⟨hmg, sname, sterms, sagg, ssub, scols, sdeps, skey, rfl, hcont, rfl, rfl⟩
      · exact claim_wrapped (k := _) rfl ⟨"extend", by decide, Or.inr ⟨_, rfl⟩⟩ hkn hB
      · refine ⟨Or.inr ⟨_, rfl, by rw [hkn]; exact ⟨"extend", by decide, Or.inr ⟨_, rfl⟩⟩⟩, ?_⟩
        -- the merged step has the bound sub-queries of the step it is merged into
        intro x hx
        apply hB x
        have : x ∈ (Near.unary sname (some sterms) sagg ssub scols Suffix.none true (some sdeps) skey).desc := hx
        simp only [bdesc, List.mem_append]
        exact Or.inr this


/-! ### requests passed to the source lie inside the source's columns -/

theorem project_req (src : Ops) (ops : Assign) (group : List String) (hgsrc : ∀ c ∈ group, c ∈ src.cols)
    (hused : ∀ c ∈ ops.flatMap (fun kv => Term.colsRaw kv.2), c ∈ src.cols) (usg : List String) :
    ∀ c ∈ ((Ops.project src ops group).usedFromSources usg).headD [], c ∈ src.cols := by
  intro c hc
  simp only [usedFromSources, List.headD_cons] at hc
  rcases mem_unionL.mp hc with h | h
  · exact hgsrc c h
  · obtain ⟨kv, hkv, hx⟩ := mem_colsUsedOps.mp h
    exact hused c (List.mem_flatMap.mpr ⟨kv, (List.mem_filter.mp hkv).1, hx⟩)

theorem selectRows_req (src : Ops) (e : Term) (he : ∀ c ∈ Term.colsRaw e, c ∈ src.cols) (usg : List String) :
    ∀ c ∈ ((Ops.selectRows src e).usedFromSources usg).headD [], c ∈ src.cols := by
  intro c hc
  simp only [usedFromSources, List.headD_cons] at hc
  rcases mem_unionL.mp hc with h | h
  · exact (List.mem_filter.mp h).1
  · exact he c (by simpa [Term.colsUsed] using h)

theorem rename_req {src : Ops} {m : List (String × String)} {u : List String} (hR1 : ∀ kv ∈ m, kv.2 ∈ src.cols)
    (hu : ∀ c ∈ u, c ∈ (Ops.rename src m).cols) :
    ∀ c ∈ ((Ops.rename src m).usedFromSources u).headD [], c ∈ src.cols := by
  intro c hc
  simp only [usedFromSources, List.headD_cons, List.mem_eraseDups, List.mem_map] at hc
  obtain ⟨c', hc', rfl⟩ := hc
  cases hl : lookupLast m c' with
  | some old =>
    simp only [Option.getD_some]
    exact hR1 (c', old) (lookupLast_mem hl)
  | none =>
    simp only [Option.getD_none]
    have hno : c' ∉ m.map (·.1) := lookupLast_eq_none_iff.mp hl
    have hcn := hu c' hc'
    simp only [Ops.cols, List.mem_map] at hcn
    obtain ⟨c0, hc0, e⟩ := hcn
    cases hr : lookupLast (m.map (fun kv => (kv.2, kv.1))) c0 with
    | none => rw [hr] at e; simp only [Option.getD_none] at e; rw [← e]; exact hc0
    | some nw =>
      rw [hr] at e
      simp only [Option.getD_some] at e
      have hmem := lookupLast_mem hr
      obtain ⟨kv, hkv, ekv⟩ := List.mem_map.mp hmem
      have e2 : kv.1 = nw := (Prod.mk.inj ekv).2
      exact absurd (List.mem_map.mpr ⟨kv, hkv, e2.trans e⟩) hno

theorem mapCols_req {src : Ops} {m : List (String × String)} {dels u : List String}
    (hM1 : ∀ kv ∈ m, kv.1 ∈ src.cols) (hD : ∀ c ∈ dels, c ∈ src.cols)
    (hu : ∀ c ∈ u, c ∈ (Ops.mapCols src m dels).cols) :
    ∀ c ∈ ((Ops.mapCols src m dels).usedFromSources u).headD [], c ∈ src.cols := by
  intro c hc
  simp only [usedFromSources, List.headD_cons] at hc
  rcases mem_unionL.mp hc with hc | hc
  · simp only [List.mem_eraseDups, List.mem_map] at hc
    obtain ⟨c', hc', rfl⟩ := hc
    cases hl : lookupLast (m.map (fun kv => (kv.2, kv.1))) c' with
    | some old =>
      simp only [Option.getD_some]
      obtain ⟨kv, hkv, ekv⟩ := List.mem_map.mp (lookupLast_mem hl)
      have e1 : kv.1 = old := (Prod.mk.inj ekv).2
      rw [← e1]; exact hM1 kv hkv
    | none =>
      simp only [Option.getD_none]
      have hno : c' ∉ (m.map (fun kv => (kv.2, kv.1))).map (·.1) := lookupLast_eq_none_iff.mp hl
      have hcn := hu c' hc'
      simp only [Ops.cols, List.mem_map] at hcn
      obtain ⟨c0, hc0, e⟩ := hcn
      have hc0s : c0 ∈ src.cols := (List.mem_filter.mp hc0).1
      cases hr : lookupLast m c0 with
      | none => rw [hr] at e; simp only [Option.getD_none] at e; rw [← e]; exact hc0s
      | some nw =>
        rw [hr] at e
        simp only [Option.getD_some] at e
        have hmem := lookupLast_mem hr
        refine absurd ?_ hno
        simp only [List.map_map, List.mem_map, Function.comp]
        exact ⟨(c0, nw), hmem, e⟩
  · exact hD c hc

/-! ### the other nodes -/

theorem claim_project {src : Ops} {ops : Assign} {group : List String} (hg : Good cfg env (.project src ops group))
    (hrs : RenderOK src) (ihs : ∀ fuel, NodeClaim Θ ec env cfg fuel src) :
    ∀ fuel, NodeClaim Θ ec env cfg fuel (.project src ops group) := by
  intro fuel
  cases fuel with
  | zero => exact nodeClaim_zero _
  | succ fuel =>
    intro u st q st' hu h
    have hsq := hg.sqlwf
    simp only [SqlWF, sqlWFb, Bool.and_eq_true, subset_iff, nodupB_iff, disjoint_iff] at hsq
    obtain ⟨⟨⟨⟨hs, h1⟩, h2⟩, h3⟩, h4⟩ := hsq
    have hgs : Good cfg env src := hg.unary id (fun h => h.1) (fun _ => hs) id id id id id (fun _ h => h)
    simp only [toNear, Option.getD_some] at h
    obtain ⟨sub, s1, hsub, hq⟩ := wrap_inv h
    exact claim_wrapped hq ⟨"project", by decide, Or.inr ⟨_, rfl⟩⟩ rfl
      (child_ok hgs hrs (ihs fuel) (project_req src ops group h1 h2 _) hsub false)

theorem claim_selectRows {src : Ops} {e : Term} (hg : Good cfg env (.selectRows src e))
    (hrs : RenderOK src) (ihs : ∀ fuel, NodeClaim Θ ec env cfg fuel src) :
    ∀ fuel, NodeClaim Θ ec env cfg fuel (.selectRows src e) := by
  intro fuel
  cases fuel with
  | zero => exact nodeClaim_zero _
  | succ fuel =>
    intro u st q st' hu h
    have hsq := hg.sqlwf
    simp only [SqlWF, sqlWFb, Bool.and_eq_true, subset_iff] at hsq
    have hgs : Good cfg env src := hg.unary id id (fun _ => hsq.1) id id id id id (fun _ h => h)
    simp only [toNear, Option.getD_some] at h
    obtain ⟨sub, s1, hsub, hq⟩ := wrap_inv h
    exact claim_wrapped hq ⟨"select", by decide, Or.inr ⟨_, rfl⟩⟩ rfl
      (child_ok hgs hrs (ihs fuel) (selectRows_req src e hsq.2 _) hsub false)

theorem claim_order {src : Ops} {cs rv : List String} {lim : Option Nat} (hg : Good cfg env (.order src cs rv lim))
    (hrs : RenderOK src) (ihs : ∀ fuel, NodeClaim Θ ec env cfg fuel src) :
    ∀ fuel, NodeClaim Θ ec env cfg fuel (.order src cs rv lim) := by
  intro fuel
  cases fuel with
  | zero => exact nodeClaim_zero _
  | succ fuel =>
    intro u st q st' hu h
    have hsq := hg.sqlwf
    simp only [SqlWF, sqlWFb, Bool.and_eq_true, subset_iff] at hsq
    have hgs : Good cfg env src := hg.unary id id (fun _ => hsq.1) id id id id id (fun _ h => h)
    simp only [toNear, Option.getD_some] at h
    obtain ⟨sub, s1, hsub, hq⟩ := wrap_inv h
    refine claim_wrapped hq (isKeyOf_order _) rfl (child_ok hgs hrs (ihs fuel) ?_ hsub false)
    intro c hc
    exact (List.mem_filter.mp hc).1

theorem claim_rename {src : Ops} {m : List (String × String)} (hg : Good cfg env (.rename src m))
    (hrs : RenderOK src) (ihs : ∀ fuel, NodeClaim Θ ec env cfg fuel src) :
    ∀ fuel, NodeClaim Θ ec env cfg fuel (.rename src m) := by
  intro fuel
  cases fuel with
  | zero => exact nodeClaim_zero _
  | succ fuel =>
    intro u st q st' hu h
    have hsq := hg.sqlwf
    have hmp := hg.maps
    simp only [SqlWF, sqlWFb, Bool.and_eq_true, subset_iff] at hsq
    simp only [MapsOK, mapsOKb, Bool.and_eq_true] at hmp
    obtain ⟨⟨hs, h1⟩, _⟩ := hsq
    have hgs : Good cfg env src :=
      hg.unary id (fun h => h.1) (fun _ => hs) (fun _ => hmp.1.1) id id id id (fun _ h => h)
    simp only [toNear, Option.getD_some] at h
    obtain ⟨sub, s1, hsub, hq⟩ := wrap_inv h
    exact claim_wrapped hq ⟨"rename", by decide, Or.inr ⟨_, rfl⟩⟩ rfl
      (child_ok hgs hrs (ihs fuel)
        (rename_req (fun kv hkv => h1 kv.2 (List.mem_map.mpr ⟨kv, hkv, rfl⟩)) hu) hsub false)

theorem claim_mapCols {src : Ops} {m : List (String × String)} {dels : List String}
    (hg : Good cfg env (.mapCols src m dels))
    (hrs : RenderOK src) (ihs : ∀ fuel, NodeClaim Θ ec env cfg fuel src) :
    ∀ fuel, NodeClaim Θ ec env cfg fuel (.mapCols src m dels) := by
  intro fuel
  cases fuel with
  | zero => exact nodeClaim_zero _
  | succ fuel =>
    intro u st q st' hu h
    have hsq := hg.sqlwf
    have hmp := hg.maps
    simp only [SqlWF, sqlWFb, Bool.and_eq_true, subset_iff] at hsq
    simp only [MapsOK, mapsOKb, Bool.and_eq_true] at hmp
    obtain ⟨⟨⟨hs, h1⟩, h1'⟩, _⟩ := hsq
    have hgs : Good cfg env src :=
      hg.unary id (fun h => h.1) (fun _ => hs) (fun _ => hmp.1.1.1) id id id id (fun _ h => h)
    simp only [toNear, Option.getD_some] at h
    obtain ⟨sub, s1, hsub, hq⟩ := wrap_inv h
    exact claim_wrapped hq ⟨"map_columns", by decide, Or.inr ⟨_, rfl⟩⟩ rfl
      (child_ok hgs hrs (ihs fuel)
        (mapCols_req (fun kv hkv => h1 kv.1 (List.mem_map.mpr ⟨kv, hkv, rfl⟩)) h1' hu) hsub false)

theorem claim_selectCols {src : Ops} {cs : List String} (hg : Good cfg env (.selectCols src cs))
    (ihs : ∀ fuel, NodeClaim Θ ec env cfg fuel src) :
    ∀ fuel, NodeClaim Θ ec env cfg fuel (.selectCols src cs) := by
  intro fuel
  cases fuel with
  | zero => exact nodeClaim_zero _
  | succ fuel =>
    intro u st q st' hu h
    simp only [toNear, Option.getD_some, M_bind_ok] at h
    obtain ⟨sub, s1, hsub, h⟩ := h
    obtain ⟨h1, _⟩ := selectCols_pass_req hg.wf hu
    have hc := ihs fuel _ st sub s1 h1 hsub
    revert h
    cases hr : setTermKeys sub _ _ with
    | some r =>
      intro h
      simp only [M_pure_ok] at h
      cases h
      obtain ⟨e1, e2, e3⟩ := setTermKeys_keep hr
      rw [e1, e2, e3]
      exact hc
    | none =>
      intro h
      simp only [M_liftE_ok] at h
      obtain ⟨a, ha, -⟩ := h
      cases ha

theorem claim_dropCols {src : Ops} {ds : List String} (hg : Good cfg env (.dropCols src ds))
    (ihs : ∀ fuel, NodeClaim Θ ec env cfg fuel src) :
    ∀ fuel, NodeClaim Θ ec env cfg fuel (.dropCols src ds) := by
  intro fuel
  cases fuel with
  | zero => exact nodeClaim_zero _
  | succ fuel =>
    intro u st q st' hu h
    simp only [toNear, Option.getD_some, M_bind_ok] at h
    obtain ⟨sub, s1, hsub, h⟩ := h
    obtain ⟨h1, _⟩ := dropCols_pass_req hu
    have hc := ihs fuel _ st sub s1 h1 hsub
    revert h
    cases hr : setTermKeys sub _ _ with
    | some r =>
      intro h
      simp only [M_pure_ok] at h
      cases h
      obtain ⟨e1, e2, e3⟩ := setTermKeys_keep hr
      rw [e1, e2, e3]
      exact hc
    | none =>
      intro h
      simp only [M_liftE_ok] at h
      obtain ⟨a, ha, -⟩ := h
      cases ha


/-! ### joins and `concat_rows` -/

/-- the `ops_key` of a natively rendered join step (`toNear_join_native` hides it) -/
theorem toNear_join_key {fuel : Nat} {a b : Ops} {onA onB u : List String} {jt : JoinType} {st st' : Nat} {q : Near}
    (hnat : cfg.emulateRightFull = false ∨ (jt ≠ .right ∧ jt ≠ .full))
    (h : toNear cfg (fuel + 1) (.join a b onA onB jt) (some u) st = .ok (q, st')) :
    ∃ ks, q.key = keyOfNode "join" (.join a b onA onB jt) ks := by
  have hsw : (cfg.emulateRightFull && jt == .right) = false := by
    rcases hnat with h | h
    · simp [h]
    · cases jt <;> simp_all
  have hfu : (cfg.emulateRightFull && jt == .full) = false := by
    rcases hnat with h | h
    · simp [h]
    · cases jt <;> simp_all
  rw [toNear] at h
  simp only [Option.getD_some, hsw, hfu, Bool.false_eq_true, ↓reduceIte] at h
  obtain ⟨i, s1, h1, h⟩ := bindM_ok.mp h
  obtain ⟨_, s2, h2, h⟩ := bindM_ok.mp h
  obtain ⟨_, s3, h3, h⟩ := bindM_ok.mp h
  obtain ⟨nl, s4, h4, h⟩ := bindM_ok.mp h
  obtain ⟨nr, s5, h5, h⟩ := bindM_ok.mp h
  cases pureM_ok.mp h
  exact ⟨_, rfl⟩

theorem claim_join {a b : Ops} {onA onB : List String} {jt : JoinType} (hg : Good cfg env (.join a b onA onB jt))
    (hga : Good cfg env a) (hgb : Good cfg env b) (hra : RenderOK a) (hrb : RenderOK b)
    (iha : ∀ fuel, NodeClaim Θ ec env cfg fuel a) (ihb : ∀ fuel, NodeClaim Θ ec env cfg fuel b) :
    ∀ fuel, NodeClaim Θ ec env cfg fuel (.join a b onA onB jt) := by
  intro fuel
  cases fuel with
  | zero => exact nodeClaim_zero _
  | succ fuel =>
    intro u st q st' hu h
    have hn := hg.native
    simp only [JoinsNative, joinsNativeb, Bool.and_eq_true, Bool.or_eq_true, Bool.not_eq_eq_eq_not, Bool.not_true,
      bne_iff_ne, ne_eq] at hn
    obtain ⟨ks, hkey⟩ := toNear_join_key hn.2 h
    obtain ⟨nl, nr, st1, nm, ln, rn, key, _, hsub, hnl, hnr, rfl⟩ := toNear_join_native hn.2 h
    refine ⟨Or.inr ⟨_, hkey, ⟨"join", by decide, Or.inr ⟨ks, rfl⟩⟩⟩, ?_⟩
    rw [desc_join]
    intro x hx
    rcases List.mem_append.mp hx with hx | hx
    · exact child_ok hga hra (iha fuel) (fun c hc => (mem_sideCols.mp hc).1) hnl false x hx
    · exact child_ok hgb hrb (ihb fuel) (fun c hc => (mem_sideCols.mp hc).1) hnr false x hx

/-- the labelled side `a.extend({c: "name"})` as the builder constructs it: an `extend` node over the side or (the
builder merged the label into the side's own extend node) over the side's source -/
theorem label_shape {a a' : Ops} {c name : String} (hstrip : strip a = a) (hc : c ∉ a.cols)
    (hb : build a (.extend [(c, .value (.str name))] .none [] []) = .ok a') :
    ∃ s ops' part w', a' = .extend s ops' part [] [] w' ∧ ExtOK s.cols ops' part [] [] w' ∧
      (s = a ∨ ∃ ops1 p1 o1 r1 w1, a = .extend s ops1 p1 o1 r1 w1) ∧ c ∈ ops'.map (·.1) := by
  unfold build at hb
  simp only [] at hb
  obtain ⟨parsed, hpa, h2⟩ := bind_ok.mp hb
  obtain ⟨rfl, _⟩ := parseAssignments_ok hpa
  rw [extendParsed_strip _ _ _ _ _ rfl, hstrip] at h2
  obtain ⟨_, _, h3⟩ := bind_ok.mp h2
  rcases extendTop_ok h3 with h4 | ⟨src, ops1, part1, order1, reverse1, windowed1, newOps, ht, hmg, h4⟩
  · obtain ⟨rfl, hE⟩ := mkExtend_ok h4
    exact ⟨a, _, _, _, rfl, hE, Or.inl rfl, by simp⟩
  · obtain ⟨rfl, hE⟩ := mkExtend_ok h4
    subst ht
    have hfresh : ∀ k ∈ Rules26.keys [(c, Term.value (Lit.str name))], k ∉ Rules26.keys ops1 := by
      intro k hk hk1
      simp only [Rules26.keys, List.map_cons, List.map_nil, List.mem_singleton] at hk
      subst hk
      apply hc
      simp only [Ops.cols]
      exact mem_appendNew.mpr (Or.inr hk1)
    have := (tryMergeOps_keys hmg).2 hfresh
    subst this
    exact ⟨src, _, _, _, rfl, hE, Or.inr ⟨_, _, _, _, _, rfl⟩, by simp⟩

/-- a labelled side: the claim, and its own binding -/
theorem label_side {a a' : Ops} {c name : String} {fuel : Nat} (hga : Good cfg env a) (hra : RenderOK a)
    (hstrip : strip a = a) (hc : c ∉ a.cols)
    (hb : build a (.extend [(c, .value (.str name))] .none [] []) = .ok a')
    (iha : ∀ fuel, NodeClaim Θ ec env cfg fuel a)
    (ihsrc : ∀ s ops1 p1 o1 r1 w1, a = .extend s ops1 p1 o1 r1 w1 → ∀ fuel, NodeClaim Θ ec env cfg fuel s)
    {uj : List String} (huj : ∀ x ∈ uj, x ∈ a.cols ∨ x = c) (hcu : c ∈ uj) {st st' : Nat} {nl : Near}
    (h : toNear cfg fuel a' (some uj) st = .ok (nl, st')) (f : Bool) :
    ∀ x ∈ bdesc nl (some uj) f, BoundOK Θ ec env x := by
  have hG := shapeOK_ju Θ ec env
  -- the translation theorem for the labelled side
  have hlab : LabelOK Θ ec env SemCfg.ref (fun q => q.isJU = true) cfg fuel a c name := by
    apply SqlE.labelOK_of_wf_all hG hga.wf hstrip hc
    · exact fun f => (SqlE.transOK_fragJ_all Θ ec env cfg a.size a (Nat.le_refl _) hga f).1
    · exact fun f => (SqlE.transOK_fragJ_all Θ ec env cfg a.size a (Nat.le_refl _) hga f).2
    · intro src ops1 p o r w e f
      subst e
      exact SqlE.transOK_fragJ_all Θ ec env cfg src.size src (Nat.le_refl _) (good_src_extend hga) f
  obtain ⟨hcols, htrans, hsem⟩ := hlab a' hb
  obtain ⟨ta, hta⟩ := semG_ok_fragJ (sqlRowLe ec) Θ SemCfg.ref env a hga.frag false hga.env
  obtain ⟨ta', hta', _⟩ := hsem ta hta
  have hu' : ∀ x ∈ uj, x ∈ a'.cols := fun x hx => (hcols x).mpr (huj x hx)
  obtain ⟨_, u₁, hu₁, _, hsound⟩ := htrans uj st nl st' ta' hu' h hta'
  -- the shape of the labelled side
  obtain ⟨s, ops', part, w', rfl, hext, hs, hcops⟩ := label_shape hstrip hc hb
  have hgs : Good cfg env s ∧ RenderOK s ∧ ∀ fuel, NodeClaim Θ ec env cfg fuel s := by
    rcases hs with rfl | ⟨ops1, p1, o1, r1, w1, rfl⟩
    · exact ⟨hga, hra, iha⟩
    · exact ⟨good_src_extend hga, hra, ihsrc _ _ _ _ _ _ rfl⟩
  obtain ⟨hA, hB⟩ := claim_extend hext hgs.1 hgs.2.1 hgs.2.2 fuel uj st nl st' hu' h
  have hne : (extSubops ops' (extUsg uj part [] [])).isEmpty = false := by
    obtain ⟨kv, hkv, e⟩ := List.mem_map.mp hcops
    apply Bool.eq_false_iff.mpr
    intro he
    have hcusg : c ∈ extUsg uj part [] [] := mem_usg.mpr (Or.inl hcu)
    have : kv ∈ extSubops ops' (extUsg uj part [] []) :=
      List.mem_filter.mpr ⟨hkv, by rw [e]; simpa using hcusg⟩
    rw [List.isEmpty_iff.mp he] at this
    cases this
  have hkn : keyNode (.extend s ops' part [] [] w') uj = .extend s ops' part [] [] w' := by
    simp only [keyNode, hne, Bool.false_eq_true, if_false]
  rw [hkn] at hA
  exact child_ok_core hA hB hgs.2.1 hta' (hsound.restrict hu₁) f

theorem claim_concat {a b : Ops} {idc : Option String} {an bn : String} (hg : Good cfg env (.concat a b idc an bn))
    (hga : Good cfg env a) (hgb : Good cfg env b) (hra : RenderOK a) (hrb : RenderOK b)
    (iha : ∀ fuel, NodeClaim Θ ec env cfg fuel a) (ihb : ∀ fuel, NodeClaim Θ ec env cfg fuel b)
    (ihsa : ∀ s ops1 p1 o1 r1 w1, a = .extend s ops1 p1 o1 r1 w1 → ∀ fuel, NodeClaim Θ ec env cfg fuel s)
    (ihsb : ∀ s ops1 p1 o1 r1 w1, b = .extend s ops1 p1 o1 r1 w1 → ∀ fuel, NodeClaim Θ ec env cfg fuel s) :
    ∀ fuel, NodeClaim Θ ec env cfg fuel (.concat a b idc an bn) := by
  intro fuel
  cases fuel with
  | zero => exact nodeClaim_zero _
  | succ fuel =>
    intro u st q st' hu h
    have hmul : ∀ (usg : List String) x, x ∈ a.cols.filter (fun c => usg.contains c) ↔ x ∈ a.cols ∧ x ∈ usg := by
      intro usg x; simp [List.mem_filter]
    have hmur : ∀ (usg : List String) x, x ∈ b.cols.filter (fun c => usg.contains c) ↔ x ∈ b.cols ∧ x ∈ usg := by
      intro usg x; simp [List.mem_filter]
    cases idc with
    | none =>
      simp only [toNear, Option.getD_some, concat_used_left, concat_used_right, M_bind_ok, M_guardM_ok, M_pure_ok,
        M_fresh_ok] at h
      obtain ⟨_, _, ⟨-, e0⟩, _, _, ⟨hlr, e1⟩, nl, s1, hl, nr, s2, hr, i, s3, hi, hq⟩ := h
      cases e0; cases e1; cases hi; cases hq
      simp only [Bool.and_eq_true, subset_iff] at hlr
      refine ⟨Or.inr ⟨_, rfl, ⟨"concat", by decide, Or.inr ⟨_, rfl⟩⟩⟩, ?_⟩
      rw [desc_union]
      intro x hx
      rcases List.mem_append.mp hx with hx | hx
      · exact child_ok hga hra (iha fuel) (fun c hc => ((hmul _ c).mp hc).1) hl true x hx
      · exact child_ok hgb hrb (ihb fuel) (fun c hc => ((hmur _ c).mp (hlr.1 c hc)).1) hr true x hx
    | some c =>
      simp only [toNear, Option.getD_some, concat_used_left, concat_used_right, M_bind_ok, M_guardM_ok, M_pure_ok,
        M_fresh_ok, M_liftE_ok] at h
      obtain ⟨_, _, ⟨-, e0⟩, _, _, ⟨hlr, e1⟩, a', _, ⟨_, hba, ea⟩, nl, s1, hl, b', _, ⟨_, hbb, eb⟩, nr, s2, hr, i, s3,
        hi, hq⟩ := h
      cases e0; cases e1; cases hi; cases hq; cases ea; cases eb
      simp only [Bool.and_eq_true, subset_iff] at hlr
      have hl' := hg.label
      have hj := hg.jwf
      simp only [LabelSidesPlain, labelSidesPlainb, Bool.and_eq_true, Bool.or_eq_true] at hl'
      simp only [JoinWF, joinWFb, Bool.and_eq_true, subset_iff] at hj
      have hplain := hl'.2.resolve_left (by simp)
      have hca : c ∉ a.cols := hg.wf.2.2 c rfl
      have hcb : c ∉ b.cols := fun hh => hca (hj.2 c hh)
      refine ⟨Or.inr ⟨_, rfl, ⟨"concat", by decide, Or.inr ⟨_, rfl⟩⟩⟩, ?_⟩
      rw [desc_union]
      intro x hx
      rcases List.mem_append.mp hx with hx | hx
      · refine label_side hga hra (strip_eq_of_noTrivTop hplain.1) hca hba iha ihsa ?_ ?_ hl true x hx
        · intro y hy
          rcases mem_unionL.mp hy with hy | hy
          · exact Or.inl ((hmul _ y).mp hy).1
          · exact Or.inr (by simpa using hy)
        · exact mem_unionL.mpr (Or.inr (by simp))
      · refine label_side hgb hrb (strip_eq_of_noTrivTop hplain.2) hcb hbb ihb ihsb ?_ ?_ hr true x hx
        · intro y hy
          rcases mem_unionL.mp hy with hy | hy
          · exact Or.inl ((hmur _ y).mp (hlr.1 y hy)).1
          · exact Or.inr (by simpa using hy)
        · exact mem_unionL.mpr (Or.inr (by simp))


/-! ### the induction -/

variable (Θ ec env cfg)

/-- **every call of the translation on a pipeline in scope satisfies the claim**: the result is table-like or its
`ops_key` names `keyNode m u`, and every bound sub-query of the result is a sound translation of the node its key
names, for the columns it is bound with -/
theorem nodeClaim_all : ∀ (n : Nat) (m : Ops), m.size ≤ n → Good cfg env m → RenderOK m →
    ∀ fuel, NodeClaim Θ ec env cfg fuel m := by
  intro n
  induction n with
  | zero => intro m hm; cases m <;> simp [Ops.size] at hm
  | succ n ih =>
    intro m hm hg hr
    cases m with
    | table name cs => exact fun fuel => claim_table fuel name cs
    | extend src ops part od rv w =>
      have hgs := good_src_extend hg
      exact claim_extend hg.wf.2 hgs hr (ih src (by simp [Ops.size] at hm; omega) hgs hr)
    | project src ops g =>
      have hsq := hg.sqlwf
      simp only [SqlWF, sqlWFb, Bool.and_eq_true] at hsq
      have hgs : Good cfg env src := hg.unary id (fun h => h.1) (fun _ => hsq.1.1.1.1) id id id id id (fun _ h => h)
      exact claim_project hg hr (ih src (by simp [Ops.size] at hm; omega) hgs hr)
    | selectRows src e =>
      have hsq := hg.sqlwf
      simp only [SqlWF, sqlWFb, Bool.and_eq_true] at hsq
      have hgs : Good cfg env src := hg.unary id id (fun _ => hsq.1) id id id id id (fun _ h => h)
      exact claim_selectRows hg hr (ih src (by simp [Ops.size] at hm; omega) hgs hr)
    | selectCols src cs =>
      exact claim_selectCols hg (ih src (by simp [Ops.size] at hm; omega) (good_src_selectCols hg) hr)
    | dropCols src ds =>
      exact claim_dropCols hg (ih src (by simp [Ops.size] at hm; omega) (good_src_dropCols hg) hr)
    | order src cs rv lim =>
      have hsq := hg.sqlwf
      simp only [SqlWF, sqlWFb, Bool.and_eq_true] at hsq
      have hgs : Good cfg env src := hg.unary id id (fun _ => hsq.1) id id id id id (fun _ h => h)
      exact claim_order hg hr (ih src (by simp [Ops.size] at hm; omega) hgs hr)
    | rename src mp =>
      have hsq := hg.sqlwf
      have hmp := hg.maps
      simp only [SqlWF, sqlWFb, Bool.and_eq_true] at hsq
      simp only [MapsOK, mapsOKb, Bool.and_eq_true] at hmp
      have hgs : Good cfg env src :=
        hg.unary id (fun h => h.1) (fun _ => hsq.1.1) (fun _ => hmp.1.1) id id id id (fun _ h => h)
      have hrs : RenderOK src := by
        simp only [RenderOK, renderOKb, Bool.and_eq_true] at hr; exact hr.1
      exact claim_rename hg hrs (ih src (by simp [Ops.size] at hm; omega) hgs hrs)
    | mapCols src mp dels =>
      have hsq := hg.sqlwf
      have hmp := hg.maps
      simp only [SqlWF, sqlWFb, Bool.and_eq_true] at hsq
      simp only [MapsOK, mapsOKb, Bool.and_eq_true] at hmp
      have hgs : Good cfg env src :=
        hg.unary id (fun h => h.1) (fun _ => hsq.1.1.1) (fun _ => hmp.1.1.1) id id id id (fun _ h => h)
      have hrs : RenderOK src := by
        simp only [RenderOK, renderOKb, Bool.and_eq_true] at hr; exact hr.1
      exact claim_mapCols hg hrs (ih src (by simp [Ops.size] at hm; omega) hgs hrs)
    | join a b oa ob jt =>
      have hfr := hg.frag
      have hsq := hg.sqlwf
      have hmp := hg.maps
      have hj := hg.jwf
      have ht := hg.types
      have hn := hg.native
      have hl := hg.label
      simp only [InFragJ, Bool.and_eq_true] at hfr
      simp only [SqlWF, sqlWFb, Bool.and_eq_true] at hsq
      simp only [MapsOK, mapsOKb, Bool.and_eq_true] at hmp
      simp only [JoinWF, joinWFb, Bool.and_eq_true] at hj
      simp only [JoinTypesSql, joinTypesSqlb, Bool.and_eq_true] at ht
      simp only [JoinsNative, joinsNativeb, Bool.and_eq_true] at hn
      simp only [LabelSidesPlain, labelSidesPlainb, Bool.and_eq_true] at hl
      simp only [RenderOK, renderOKb, Bool.and_eq_true] at hr
      have hga : Good cfg env a := ⟨hfr.1, hg.wf.1, hsq.1, hmp.1, hj.1.1.1, ht.1.1, hn.1.1, hl.1,
        fun nc h => hg.env nc (by simp [Ops.tables, h])⟩
      have hgb : Good cfg env b := ⟨hfr.2, hg.wf.2, hsq.2, hmp.2, hj.1.1.2, ht.1.2, hn.1.2, hl.2,
        fun nc h => hg.env nc (by simp [Ops.tables, h])⟩
      exact claim_join hg hga hgb hr.1 hr.2 (ih a (by simp [Ops.size] at hm; omega) hga hr.1)
        (ih b (by simp [Ops.size] at hm; omega) hgb hr.2)
    | concat a b idc an bn =>
      have hfr := hg.frag
      have hsq := hg.sqlwf
      have hmp := hg.maps
      have hj := hg.jwf
      have ht := hg.types
      have hn := hg.native
      have hl := hg.label
      simp only [InFragJ, Bool.and_eq_true] at hfr
      simp only [SqlWF, sqlWFb, Bool.and_eq_true] at hsq
      simp only [MapsOK, mapsOKb, Bool.and_eq_true] at hmp
      simp only [JoinWF, joinWFb, Bool.and_eq_true] at hj
      simp only [JoinTypesSql, joinTypesSqlb, Bool.and_eq_true] at ht
      simp only [JoinsNative, joinsNativeb, Bool.and_eq_true] at hn
      simp only [LabelSidesPlain, labelSidesPlainb, Bool.and_eq_true] at hl
      simp only [RenderOK, renderOKb, Bool.and_eq_true] at hr
      have hga : Good cfg env a := ⟨hfr.1, hg.wf.1, hsq.1, hmp.1, hj.1.1.1, ht.1, hn.1, hl.1.1,
        fun nc h => hg.env nc (by simp [Ops.tables, h])⟩
      have hgb : Good cfg env b := ⟨hfr.2, hg.wf.2.1, hsq.2, hmp.2, hj.1.1.2, ht.2, hn.2, hl.1.2,
        fun nc h => hg.env nc (by simp [Ops.tables, h])⟩
      have hsa : a.size ≤ n := by simp [Ops.size] at hm; omega
      have hsb : b.size ≤ n := by simp [Ops.size] at hm; omega
      have hsrc : ∀ (x : Ops), x.size ≤ n → Good cfg env x → RenderOK x → ∀ s ops1 p1 o1 r1 w1,
          x = .extend s ops1 p1 o1 r1 w1 → ∀ fuel, NodeClaim Θ ec env cfg fuel s := by
        intro x hx hgx hrx s ops1 p1 o1 r1 w1 e
        subst e
        exact ih s (by simp [Ops.size] at hx; omega) (good_src_extend hgx) hrx
      exact claim_concat hg hga hgb hr.1 hr.2 (ih a hsa hga hr.1) (ih b hsb hgb hr.2)
        (hsrc a hsa hga hr.1) (hsrc b hsb hgb hr.2)
    | convert src rm => exact absurd hg.frag (by simp [InFragJ])

/-- **the bound sub-queries of a translated pipeline**: every one is a sound translation of the operator node its
`ops_key` names, for the columns it is bound with -/
theorem toNearSql_boundOK {p : Ops} (hg : Good cfg env p) (hr : RenderOK p) {q : Near}
    (h : toNearSql cfg p = .ok q) : ∀ x ∈ q.desc, BoundOK Θ ec env x := by
  have hok : ∃ st', toNear cfg (6 * p.size + 6) p none 0 = .ok (q, st') := by
    unfold toNearSql at h
    cases hr' : (toNear cfg (6 * p.size + 6) p none).run 0 with
    | error e => rw [hr'] at h; cases h
    | ok r =>
      rw [hr'] at h
      obtain ⟨n, s⟩ := r
      simp only [bind, Except.bind, pure, Except.pure, Except.ok.injEq] at h
      subst h
      exact ⟨s, hr'⟩
  obtain ⟨st', hrun⟩ := hok
  rw [toNear_none_eq_ju cfg _ p hg.frag] at hrun
  exact (nodeClaim_all Θ ec env cfg p.size p (Nat.le_refl _) hg hr _ p.cols 0 q st' (fun c hc => hc) hrun).2

end
end DAVerif.C04K
