import DAVerif.Proofs.SqlReach
import DAVerif.Proofs.SqlEvalI
import DAVerif.Proofs.SqlJoinMerge
import DAVerif.Proofs.SolRankSql
import DAVerif.Proofs.SqlJoinReach
/-!
C21, SQL side: computing what the SQL of a helper pipeline returns on a **concrete** table (for the witnesses that
show the guards of `Props/C21sql.lean` necessary).

`sql_eval`: stage A of the translation proof (`joins_engine_order_merges`: the query returns, row by row, the table
`semE ec Θ SemCfg.ref env p`) composed with the kernel-evaluable evaluator of `Proofs/SqlEvalI.lean`
(`semE ec = semG (sqlRowLe ec) = semGI (sqlRowLe ec)` on runs without ties) – both side conditions are closed by
`decide +kernel` on the witness.
-/
namespace DAVerif
namespace Sol21Sql
open DAVerif.Sql DAVerif.Sol DAVerif.Solutions

theorem toOption_eq_some {α : Type} {x : Except Err α} {a : α} (h : x.toOption = some a) : x = .ok a := by
  cases x with
  | error e => cases h
  | ok b => cases h; rfl

/-- **What the SQL returns on a concrete instance**: if the evaluator `semGI` with the engine's comparison computes
`tp` on a run without ties, the query `to_sql` produces evaluates, has the declared column set, and returns the rows
of `tp` in order. -/
theorem sql_eval {Θ : Interp} {ec : EngineCfg} {env : Env} {cfg : SqlCfg} {p : Ops} {q : Near} {tp : Table}
    (hg : Good cfg env p) (hnc : noConcat p = true) (hq : toNearSql cfg p = .ok q)
    (hok : okRun (sqlRowLe ec) Θ SemCfg.ref env p = true)
    (hev : (semGI (sqlRowLe ec) Θ SemCfg.ref env p).toOption = some tp) :
    ∃ T, semSql Θ ec env q = .ok T ∧ (∀ c, c ∈ T.cols ↔ c ∈ p.cols) ∧
      T.rows.map (fun r => r.select p.cols) = tp.rows := by
  obtain ⟨T, tp', h1, h2, _, h4, h5⟩ := joins_engine_order_merges Θ ec env cfg p hg hnc hq
  have h3 : semE ec Θ SemCfg.ref env p = .ok tp := by
    show semG (sqlRowLe ec) Θ SemCfg.ref env p = .ok tp
    rw [semG_eq_semGI (cmpOK_sql ec) Θ SemCfg.ref env p hok]
    exact toOption_eq_some hev
  rw [h3] at h2
  cases h2
  exact ⟨T, h1, h4, h5⟩

/-- the scope bundle of the join fragment for the tree of `rank_to_average` -/
theorem rank_good (cfg : SqlCfg) {env : Env} {name : String} {cols ob part : List String} {rk tb : String}
    {t0 : Table} (hr : Reachable (rankTree (.table name cols) ob part rk tb))
    (henv : env.lookup name = some t0) (hsub : subset cols t0.cols = true) :
    Good cfg env (rankTree (.table name cols) ob part rk tb) :=
  ⟨rfl, C26_reachable_wf hr, C01_reachable_sqlwf hr, rfl, C16_reachable_joinwf hr, rfl, rfl, rfl,
    rank_envOK _ _ _ _ henv hsub⟩

theorem rank_noConcat (name : String) (cols ob part : List String) (rk tb : String) :
    noConcat (rankTree (.table name cols) ob part rk tb) = true := rfl

end Sol21Sql
end DAVerif
