import DAVerif.Proofs.SqlReach
import DAVerif.Proofs.Order
import DAVerif.Proofs.CData
import DAVerif.Spec.SqlSem
/-!
A **kernel-evaluable** copy of `semG` (the relational semantics with the row comparison as a parameter,
`Spec/SqlSem.lean`) for concrete instances.

`semG` sorts with `List.mergeSort` (well-founded recursion: `decide` / `rfl` cannot evaluate it, see
`C01_nullorder_necessary_sqlite`, which sorts by hand).  `semGI` is the same definition with the structurally
recursive stable insertion sort `isort` (`CData/Record.lean`); `okRun` checks, along the evaluation, that no sort ever
sees a tie between two different elements; then both sorts return *the* sorted permutation:

  `semG_eq_semGI : okRun le Θ cfg env p = true → semG le Θ cfg env p = semGI le Θ cfg env p`

for every comparison that is total and transitive (`rowLe`: `Proofs/Order.lean`; `sqlRowLe ec`: below).  Both `okRun`
and `semGI` reduce by `decide +kernel` on concrete pipelines and tables – used for the necessity witnesses of
`Props/C21sql.lean`, where the SQL result on rows with NULL order keys has to be computed.
-/
namespace DAVerif
namespace Sol21Sql
open DAVerif.Sql
open DAVerif.CData (isort insSorted)

/-! ### `sqlRowLe ec` is a total preorder -/

theorem sqlCellLe_total (ec : EngineCfg) (rev : Bool) (a b : Val) :
    (sqlCellLe ec rev a b || sqlCellLe ec rev b a) = true := by
  cases rev <;> cases ha : a.isNull <;> cases hb : b.isNull <;> cases hn : ec.nullsSmallest <;>
    simp [sqlCellLe, ha, hb, hn]
  all_goals
    first
    | (cases h : Val.lt b a with
       | false => simp
       | true => simp [Val.lt_asymm h])
    | (cases h : Val.lt a b with
       | false => simp
       | true => simp [Val.lt_asymm h])

theorem sqlCellLe_trans {ec : EngineCfg} {rev : Bool} {a b c : Val} (h1 : sqlCellLe ec rev a b = true)
    (h2 : sqlCellLe ec rev b c = true) : sqlCellLe ec rev a c = true := by
  cases rev <;> cases ha : a.isNull <;> cases hb : b.isNull <;> cases hc : c.isNull <;>
    cases hn : ec.nullsSmallest <;> simp [sqlCellLe, ha, hb, hc, hn] at h1 h2 ⊢
  all_goals first | exact Val.nlt_trans h1 h2 | exact Val.nlt_trans h2 h1

theorem sqlCellLe_antisymm {ec : EngineCfg} {rev : Bool} {a b : Val} (h1 : sqlCellLe ec rev a b = true)
    (h2 : sqlCellLe ec rev b a = true) : a = b := by
  cases rev <;> cases ha : a.isNull <;> cases hb : b.isNull <;> cases hn : ec.nullsSmallest <;>
    simp [sqlCellLe, ha, hb, hn] at h1 h2
  all_goals
    first
    | exact Val.eq_of_nlt h2 h1
    | exact Val.eq_of_nlt h1 h2
    | (cases a <;> cases b <;> simp_all [Val.isNull])

theorem sqlRowLe_total (ec : EngineCfg) (cs rev : List String) (a b : Row) :
    (sqlRowLe ec cs rev a b || sqlRowLe ec cs rev b a) = true := by
  induction cs with
  | nil => rfl
  | cons c cs ih =>
    simp only [sqlRowLe]
    by_cases e : a.get c = b.get c
    · simp [e, ih]
    · have e' : ¬ b.get c = a.get c := fun h => e h.symm
      simp [e, e', sqlCellLe_total]

theorem sqlRowLe_trans {ec : EngineCfg} {cs rev : List String} {a b c : Row}
    (h1 : sqlRowLe ec cs rev a b = true) (h2 : sqlRowLe ec cs rev b c = true) : sqlRowLe ec cs rev a c = true := by
  induction cs with
  | nil => rfl
  | cons k cs ih =>
    simp only [sqlRowLe, beq_iff_eq] at h1 h2 ⊢
    by_cases e1 : a.get k = b.get k
    · by_cases e2 : b.get k = c.get k
      · simp only [e1, e2, if_true] at h1 h2 ⊢
        exact ih h1 h2
      · have e3 : ¬ a.get k = c.get k := by rw [e1]; exact e2
        simp only [e1, e2, if_true, if_false] at h1 h2 ⊢
        exact h2
    · by_cases e2 : b.get k = c.get k
      · have e3 : ¬ a.get k = c.get k := by rw [← e2]; exact e1
        simp only [e2, e3, if_true, if_false] at h1 h2 ⊢
        exact h1
      · simp only [e1, e2, if_false] at h1 h2
        have e3 : ¬ a.get k = c.get k := by
          intro e3
          rw [← e3] at h2
          exact e1 (sqlCellLe_antisymm h1 h2)
        simp only [e3, if_false]
        exact sqlCellLe_trans h1 h2

/-- a row comparison that is a total preorder for every choice of order columns -/
structure CmpOK (le : RowCmp) : Prop where
  total : ∀ cs rev a b, (le cs rev a b || le cs rev b a) = true
  trans : ∀ cs rev a b c, le cs rev a b = true → le cs rev b c = true → le cs rev a c = true

theorem cmpOK_sql (ec : EngineCfg) : CmpOK (sqlRowLe ec) :=
  ⟨sqlRowLe_total ec, fun _ _ _ _ _ => sqlRowLe_trans⟩

theorem cmpOK_rowLe : CmpOK rowLe := ⟨rowLe_total, fun _ _ _ _ _ => rowLe_trans⟩

/-! ### the two stable sorts agree where there is no tie -/

/-- no two different elements of the list tie -/
def tieFree {α : Type} [BEq α] (le : α → α → Bool) (l : List α) : Bool :=
  l.all (fun a => l.all (fun b => !(le a b && le b a) || a == b))

theorem mergeSort_eq_isort {α : Type} [BEq α] [LawfulBEq α] (le : α → α → Bool)
    (htr : ∀ a b c, le a b = true → le b c = true → le a c = true) (htot : ∀ a b, (le a b || le b a) = true)
    (l : List α) (h : tieFree le l = true) : l.mergeSort le = isort le l := by
  have hp : (l.mergeSort le).Perm (isort le l) := (List.mergeSort_perm l le).trans (CData.isort_perm le l).symm
  refine List.Perm.eq_of_pairwise (le := fun a b => le a b = true) ?_ (List.pairwise_mergeSort htr htot l)
    (CData.isort_sorted htr htot l) hp
  intro a b ha hb hab hba
  have ha' : a ∈ l := (List.mergeSort_perm l le).mem_iff.mp ha
  have hb' : b ∈ l := (CData.isort_perm le l).mem_iff.mp hb
  have := List.all_eq_true.mp (List.all_eq_true.mp h a ha') b hb'
  simpa [hab, hba] using this

/-! ### the evaluator -/

def semOrderGI (le : RowCmp) (cs reverse : List String) (limit : Option Nat) (t : Table) : Table :=
  let s := isort (fun a b => le cs reverse a b) t.rows
  ⟨t.cols, match limit with | none => s | some n => s.take n⟩

def winCellI (le : RowCmp) (Θ : Interp) (partition order reverse : List String) (idx : List (Row × Nat))
    (ri : Row × Nat) (t : Term) : Val :=
  let part := idx.filter (fun rj => keyOf rj.1 partition == keyOf ri.1 partition)
  let sorted := isort (fun a b => le order reverse a.1 b.1) part
  let pos := sorted.findIdx (fun rj => rj.2 == ri.2)
  Θ.win (opName t) (constArgs t) (argValues t (sorted.map (·.1))) pos

def semExtendWindowGI (le : RowCmp) (Θ : Interp) (ops : Assign) (partition order reverse : List String) (t : Table)
    (outCols : List String) : Table :=
  let idx := t.rows.zipIdx
  ⟨outCols, idx.map (fun ri =>
    (ri.1.setAll (ops.map (fun kv => (kv.1, winCellI le Θ partition order reverse idx ri kv.2)))).select outCols)⟩

/-- every window of the step is tie free -/
def winTieFree (le : RowCmp) (partition order reverse : List String) (t : Table) : Bool :=
  t.rows.zipIdx.all (fun ri =>
    tieFree (fun (a b : Row × Nat) => le order reverse a.1 b.1)
      (t.rows.zipIdx.filter (fun rj => keyOf rj.1 partition == keyOf ri.1 partition)))

/-- `semG` with insertion sort -/
def semGI (le : RowCmp) (Θ : Interp) (cfg : SemCfg) (env : Env) : Ops → Except Err Table
  | .table name cs =>
    match env.lookup name with
    | none => .error .valueError
    | some t => if subset cs t.cols then .ok (t.selectCols cs) else .error .valueError
  | n@(.extend src ops partition order reverse windowed) => do
    let t ← semGI le Θ cfg env src
    if windowed then return semExtendWindowGI le Θ ops partition order reverse t n.cols
    else return semExtendPlain Θ ops t n.cols
  | n@(.project src ops group) => do
    let t ← semGI le Θ cfg env src
    return semProject Θ ops group t n.cols
  | .selectRows src e => do
    let t ← semGI le Θ cfg env src
    return semSelectRows Θ e t
  | .selectCols src cs => do
    let t ← semGI le Θ cfg env src
    return t.selectCols cs
  | n@(.dropCols src _) => do
    let t ← semGI le Θ cfg env src
    return t.selectCols n.cols
  | .order src cs reverse limit => do
    let t ← semGI le Θ cfg env src
    return semOrderGI le cs reverse limit t
  | n@(.rename src m) => do
    let t ← semGI le Θ cfg env src
    let rev := m.map (fun kv => (kv.2, kv.1))
    return ⟨n.cols, t.rows.map (fun r => r.rename (fun c => (lookupLast rev c).getD c))⟩
  | n@(.mapCols src m dels) => do
    let t ← semGI le Θ cfg env src
    return ⟨n.cols, t.rows.map (fun r => (r.drop dels).rename (fun c => (lookupLast m c).getD c))⟩
  | n@(.join a b onA onB jt) => do
    let ta ← semGI le Θ cfg env a
    let tb ← semGI le Θ cfg env b
    return semJoin cfg jt onA onB ta tb (appendNew a.cols b.cols) |>.selectCols n.cols
  | n@(.concat a b idc an bn) => do
    let ta ← semGI le Θ cfg env a
    let tb ← semGI le Θ cfg env b
    return semConcat idc an bn ta tb n.cols
  | .convert src rm => do
    let t ← semGI le Θ cfg env src
    Θ.convert rm t

/-- along the evaluation, no sort sees a tie between two different elements -/
def okRun (le : RowCmp) (Θ : Interp) (cfg : SemCfg) (env : Env) : Ops → Bool
  | .table _ _ => true
  | .extend src _ partition order reverse windowed =>
    okRun le Θ cfg env src &&
      (match semGI le Θ cfg env src with
       | .ok t => !windowed || winTieFree le partition order reverse t
       | .error _ => true)
  | .order src cs reverse _ =>
    okRun le Θ cfg env src &&
      (match semGI le Θ cfg env src with
       | .ok t => tieFree (fun a b => le cs reverse a b) t.rows
       | .error _ => true)
  | .project src _ _ | .selectRows src _ | .selectCols src _ | .dropCols src _ | .rename src _
  | .mapCols src _ _ | .convert src _ => okRun le Θ cfg env src
  | .join a b _ _ _ | .concat a b _ _ _ => okRun le Θ cfg env a && okRun le Θ cfg env b

theorem semExtendWindowG_eq_I {le : RowCmp} (hle : CmpOK le) (Θ : Interp) (ops : Assign)
    (partition order reverse : List String) (t : Table) (outCols : List String)
    (h : winTieFree le partition order reverse t = true) :
    semExtendWindowG le Θ ops partition order reverse t outCols
      = semExtendWindowGI le Θ ops partition order reverse t outCols := by
  simp only [semExtendWindowG, semExtendWindowGI]
  congr 1
  apply List.map_congr_left
  intro ri hri
  congr 2
  apply List.map_congr_left
  intro kv _
  congr 1
  simp only [winCell, winCellI]
  have := List.all_eq_true.mp h ri hri
  rw [mergeSort_eq_isort (fun (a b : Row × Nat) => le order reverse a.1 b.1)
    (fun a b c => hle.trans order reverse a.1 b.1 c.1) (fun a b => hle.total order reverse a.1 b.1) _ this]

theorem semOrderG_eq_I {le : RowCmp} (hle : CmpOK le) (cs reverse : List String) (limit : Option Nat) (t : Table)
    (h : tieFree (fun a b => le cs reverse a b) t.rows = true) :
    semOrderG le cs reverse limit t = semOrderGI le cs reverse limit t := by
  simp only [semOrderG, semOrderGI]
  rw [mergeSort_eq_isort (fun a b => le cs reverse a b) (hle.trans cs reverse) (hle.total cs reverse) _ h]
  rfl

/-- **The evaluator is `semG`** on every run that never sorts a tie. -/
theorem semG_eq_semGI {le : RowCmp} (hle : CmpOK le) (Θ : Interp) (cfg : SemCfg) (env : Env) (p : Ops) :
    okRun le Θ cfg env p = true → semG le Θ cfg env p = semGI le Θ cfg env p := by
  induction p with
  | table name cs => intro _; rfl
  | extend src ops part od rv w ih =>
    intro h
    simp only [okRun, Bool.and_eq_true] at h
    simp only [semG, semGI, ih h.1]
    cases hs : semGI le Θ cfg env src with
    | error e => rfl
    | ok t =>
      have h2 := h.2
      rw [hs] at h2
      cases w with
      | false => rfl
      | true =>
        simp only [Bool.not_true, Bool.false_or] at h2
        simp only [bind, Except.bind, if_true, pure, Except.pure]
        rw [semExtendWindowG_eq_I hle Θ ops part od rv t _ h2]
  | order src cs rv lim ih =>
    intro h
    simp only [okRun, Bool.and_eq_true] at h
    simp only [semG, semGI, ih h.1]
    cases hs : semGI le Θ cfg env src with
    | error e => rfl
    | ok t =>
      have h2 := h.2
      rw [hs] at h2
      simp only [bind, Except.bind, pure, Except.pure]
      rw [semOrderG_eq_I hle cs rv lim t h2]
  | project src ops g ih => intro h; simp only [okRun] at h; simp only [semG, semGI, ih h]
  | selectRows src e ih => intro h; simp only [okRun] at h; simp only [semG, semGI, ih h]
  | selectCols src cs ih => intro h; simp only [okRun] at h; simp only [semG, semGI, ih h]
  | dropCols src dels ih => intro h; simp only [okRun] at h; simp only [semG, semGI, ih h]
  | rename src m ih => intro h; simp only [okRun] at h; simp only [semG, semGI, ih h]
  | mapCols src m dels ih => intro h; simp only [okRun] at h; simp only [semG, semGI, ih h]
  | convert src rm ih => intro h; simp only [okRun] at h; simp only [semG, semGI, ih h]
  | join a b oa ob jt iha ihb =>
    intro h
    simp only [okRun, Bool.and_eq_true] at h
    simp only [semG, semGI, iha h.1, ihb h.2]
  | concat a b idc an bn iha ihb =>
    intro h
    simp only [okRun, Bool.and_eq_true] at h
    simp only [semG, semGI, iha h.1, ihb h.2]

end Sol21Sql
end DAVerif
