import DAVerif.Ops.Eq
import DAVerif.Spec.Erase
/-! Lemmas for C11, expression level: `termEq` decides equality of the erased terms. -/
namespace DAVerif
namespace Eq

theorem litEq_iff {a b : Lit} : litEq a b = true ↔ a = b := by simp [litEq]

theorem litsEq_iff : ∀ {a b : List Lit}, litsEq a b = true ↔ a = b
  | [], [] => by simp [litsEq]
  | [], _ :: _ => by simp [litsEq]
  | _ :: _, [] => by simp [litsEq]
  | a :: as, b :: bs => by simp [litsEq, litEq_iff, litsEq_iff (a := as) (b := bs)]

theorem dictEq_iff : ∀ {a b : List (Lit × Lit)}, dictEq a b = true ↔ a = b
  | [], [] => by simp [dictEq]
  | [], _ :: _ => by simp [dictEq]
  | _ :: _, [] => by simp [dictEq]
  | (k1, v1) :: as, (k2, v2) :: bs => by
    simp [dictEq, litEq_iff, dictEq_iff (a := as) (b := bs), and_assoc]

mutual
theorem termEq_iff : ∀ (a b : Term), termEq a b = true ↔ a.erase = b.erase
  | .value a, .value b => by simp [termEq, Term.erase, litEq_iff]
  | .col a, .col b => by simp [termEq, Term.erase]
  | .list a, .list b => by simp [termEq, Term.erase, litsEq_iff]
  | .dict a, .dict b => by simp [termEq, Term.erase, dictEq_iff]
  | .app o1 a1 i1 m1, .app o2 a2 i2 m2 => by
    simp only [termEq, Term.erase, Bool.and_eq_true, beq_iff_eq, termEqList_iff a1 a2, Term.app.injEq, and_true]
    constructor
    · rintro ⟨⟨h1, h2⟩, h3⟩; exact ⟨h1, h3, h2⟩
    · rintro ⟨h1, h3, h2⟩; exact ⟨⟨h1, h2⟩, h3⟩
  | .value _, .col _ | .value _, .list _ | .value _, .dict _ | .value _, .app .. => by simp [termEq, Term.erase]
  | .col _, .value _ | .col _, .list _ | .col _, .dict _ | .col _, .app .. => by simp [termEq, Term.erase]
  | .list _, .value _ | .list _, .col _ | .list _, .dict _ | .list _, .app .. => by simp [termEq, Term.erase]
  | .dict _, .value _ | .dict _, .col _ | .dict _, .list _ | .dict _, .app .. => by simp [termEq, Term.erase]
  | .app .., .value _ | .app .., .col _ | .app .., .list _ | .app .., .dict _ => by simp [termEq, Term.erase]
theorem termEqList_iff : ∀ (a b : List Term), termEqList a b = true ↔ Term.eraseList a = Term.eraseList b
  | [], [] => by simp [termEqList, Term.eraseList]
  | [], _ :: _ => by simp [termEqList, Term.eraseList]
  | _ :: _, [] => by simp [termEqList, Term.eraseList]
  | a :: as, b :: bs => by simp [termEqList, Term.eraseList, termEq_iff a b, termEqList_iff as bs]
end

theorem termEq_refl (a : Term) : termEq a a = true := (termEq_iff a a).2 rfl

theorem termEq_symm (a b : Term) : termEq a b = termEq b a := by
  rw [Bool.eq_iff_iff, termEq_iff, termEq_iff]; exact eq_comm

theorem termEq_trans {a b c : Term} (h1 : termEq a b = true) (h2 : termEq b c = true) : termEq a c = true := by
  rw [termEq_iff] at *; exact h1.trans h2

end Eq
end DAVerif
