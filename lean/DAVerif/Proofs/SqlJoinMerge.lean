import DAVerif.Proofs.SqlReach
import DAVerif.Proofs.SqlMergeMain
import DAVerif.Proofs.SqlJoinRoot
import DAVerif.Props.C01core
/-!
C01/C02 for pipelines with `natural_join` **and** the extend merge (`cfg.merges = true`, the default of every dialect).

`Props/C04merge.lean` has the unary fragment for every dialect configuration, `Props/C01joins.lean` has joins and
`concat_rows` with `cfg.merges = false`.  The solution helpers of C21 (`last_observed_carried_forward`,
`replicate_rows_query`) are extend chains under a join, translated with the default configuration
(`SqlCfg.sqlite = ⟨merges := true, emulateRightFull := true⟩`), so neither applies.  This file runs the main induction
once more with both induction claims of `Proofs/SqlMergeMain.lean` (`TransOK`, `TransOKM`) over the class of near-SQL
shapes of `Proofs/SqlJoin.lean` (`isJU`), reusing every per-node lemma as it is:

* fragment: unary steps ∪ `natural_join` rendered natively by the dialect (`Sql.Good`), **no `concat_rows`**
  (`noConcat`: the labelled `concat_rows` lemma `labelOK_of_wf` is stated for `cfg.merges = false` only);
* `transOK_fragJ_merges`, `stageA_root_ju_merges`: stage A for every `cfg`;
* `joins_engine_order_merges`, `translation_exact_joins_merges`, `translation_sound_joins_merges`: the theorems of
  `Props/C01joins.lean` for every `cfg`.
-/
namespace DAVerif
namespace Sol21Sql
open DAVerif.Sql

variable {Θ : Interp} {ec : EngineCfg} {env : Env} {cfg : SqlCfg}

/-- no `concat_rows` node in the pipeline -/
def noConcat : Ops → Bool
  | .table _ _ => true
  | .extend s _ _ _ _ _ | .project s _ _ | .selectRows s _ | .selectCols s _ | .dropCols s _
  | .order s _ _ _ | .rename s _ | .mapCols s _ _ | .convert s _ => noConcat s
  | .join a b _ _ _ => noConcat a && noConcat b
  | .concat .. => false

/-- a natively rendered join emits a join step, which is never marked mergeable -/
theorem transOKM_join (scfg : SemCfg) (fuel : Nat) (a b : Ops) (onA onB : List String) (jt : JoinType)
    (hnat : cfg.emulateRightFull = false ∨ (jt ≠ .right ∧ jt ≠ .full)) :
    TransOKM Θ ec env scfg cfg (fuel + 1) (.join a b onA onB jt) := by
  intro u st q st' tp _ h _
  obtain ⟨nl, nr, st1, nm, ln, rn, key, _, _, _, _, rfl⟩ := toNear_join_native hnat h
  exact mergeInv_of_flag rfl

/-- **Stage A, all requests, unary steps and natively rendered joins, every dialect configuration.**  A successful
translation – extend merges allowed or not – satisfies the invariant `Sound` against the table the pipeline
evaluates to under the engine's row ordering and the standard SQL join semantics, and the invariant of mergeable
steps. -/
theorem transOK_fragJ_merges (Θ : Interp) (ec : EngineCfg) (env : Env) (cfg : SqlCfg) (p : Ops) :
    Good cfg env p → noConcat p = true → ∀ fuel : Nat,
      TransOK Θ ec env SemCfg.ref (fun q => q.isJU = true) cfg fuel p ∧ TransOKM Θ ec env SemCfg.ref cfg fuel p := by
  have hG := shapeOK_ju Θ ec env
  have hJU : ∀ q : Near, q.isJU = true → (fun q : Near => q.isJU = true) q := fun _ h => h
  induction p with
  | table name cs =>
    intro hg _ fuel
    obtain ⟨t, hl, hs, _⟩ := hg.env (name, cs) (by simp [Ops.tables])
    exact ⟨transOK_table hG fuel name cs ⟨t, hl, hs⟩, transOKM_table fuel name cs⟩
  | extend src ops part od rv w ih =>
    intro hg hn fuel
    have hgs : Good cfg env src := hg.unary id (fun h => h.1) id id id id id id (fun _ h => h)
    cases fuel with
    | zero => exact ⟨transOK_zero _ _ _ _ _ _ _, transOKM_zero _ _ _ _ _ _⟩
    | succ fuel =>
      have := ih hgs hn fuel
      exact transOK_extend_merge hG fuel src ops part od rv w hg.wf.2 this.1 this.2
  | project src ops g ih =>
    intro hg hn fuel
    have hsq := hg.sqlwf
    simp only [SqlWF, sqlWFb, Bool.and_eq_true, subset_iff, nodupB_iff, disjoint_iff] at hsq
    obtain ⟨⟨⟨⟨hs, h1⟩, h2⟩, h3⟩, h4⟩ := hsq
    have hgs : Good cfg env src := hg.unary id (fun h => h.1) (fun _ => hs) id id id id id (fun _ h => h)
    cases fuel with
    | zero => exact ⟨transOK_zero _ _ _ _ _ _ _, transOKM_zero _ _ _ _ _ _⟩
    | succ fuel =>
      exact ⟨transOK_project hG fuel src ops g h1 h2 h3 h4 hg.wf.2.2 (ih hgs hn fuel).1,
        transOKM_project fuel src ops g⟩
  | selectRows src e ih =>
    intro hg hn fuel
    have hsq := hg.sqlwf
    simp only [SqlWF, sqlWFb, Bool.and_eq_true, subset_iff] at hsq
    have hgs : Good cfg env src := hg.unary id id (fun _ => hsq.1) id id id id id (fun _ h => h)
    cases fuel with
    | zero => exact ⟨transOK_zero _ _ _ _ _ _ _, transOKM_zero _ _ _ _ _ _⟩
    | succ fuel =>
      exact ⟨transOK_selectRows hG fuel src e hsq.2 (ih hgs hn fuel).1, transOKM_selectRows fuel src e⟩
  | selectCols src cs ih =>
    intro hg hn fuel
    have hgs : Good cfg env src := hg.unary id (fun h => h.1) id id id id id id (fun _ h => h)
    cases fuel with
    | zero => exact ⟨transOK_zero _ _ _ _ _ _ _, transOKM_zero _ _ _ _ _ _⟩
    | succ fuel =>
      have := ih hgs hn fuel
      exact ⟨transOK_selectCols hG fuel src cs hg.wf.2.2.2 this.1,
        transOKM_selectCols fuel src cs hg.wf.2.2.2 this.2⟩
  | dropCols src dels ih =>
    intro hg hn fuel
    have hgs : Good cfg env src := hg.unary id (fun h => h.1) id id id id id id (fun _ h => h)
    cases fuel with
    | zero => exact ⟨transOK_zero _ _ _ _ _ _ _, transOKM_zero _ _ _ _ _ _⟩
    | succ fuel =>
      have := ih hgs hn fuel
      exact ⟨transOK_dropCols hG fuel src dels this.1, transOKM_dropCols fuel src dels this.2⟩
  | order src cs rv lim ih =>
    intro hg hn fuel
    have hsq := hg.sqlwf
    simp only [SqlWF, sqlWFb, Bool.and_eq_true, subset_iff] at hsq
    have hgs : Good cfg env src := hg.unary id id (fun _ => hsq.1) id id id id id (fun _ h => h)
    cases fuel with
    | zero => exact ⟨transOK_zero _ _ _ _ _ _ _, transOKM_zero _ _ _ _ _ _⟩
    | succ fuel =>
      exact ⟨transOK_order hG fuel src cs rv lim hsq.2 (ih hgs hn fuel).1, transOKM_order fuel src cs rv lim⟩
  | rename src m ih =>
    intro hg hn fuel
    have hsq := hg.sqlwf
    have hmp := hg.maps
    simp only [SqlWF, sqlWFb, Bool.and_eq_true, subset_iff, List.all_eq_true, Bool.or_eq_true,
      Bool.not_eq_eq_eq_not, Bool.not_true, List.contains_eq_mem, decide_eq_false_iff_not, decide_eq_true_eq] at hsq
    simp only [MapsOK, mapsOKb, Bool.and_eq_true, nodupB_iff] at hmp
    obtain ⟨⟨hs, h1⟩, h2⟩ := hsq
    obtain ⟨⟨hmps, h3⟩, h4⟩ := hmp
    have hgs : Good cfg env src :=
      hg.unary id (fun h => h.1) (fun _ => hs) (fun _ => hmps) id id id id (fun _ h => h)
    cases fuel with
    | zero => exact ⟨transOK_zero _ _ _ _ _ _ _, transOKM_zero _ _ _ _ _ _⟩
    | succ fuel =>
      refine ⟨transOK_rename hG fuel src m ?_ ?_ h3 h4 hg.wf.2 (semG_cols_wf_fragJ _ Θ SemCfg.ref env src hgs.frag)
        (ih hgs hn fuel).1, transOKM_rename fuel src m⟩
      · intro kv hkv; exact h1 kv.2 (List.mem_map.mpr ⟨kv, hkv, rfl⟩)
      · intro kv hkv hin
        rcases h2 kv hkv with h | h
        · exact absurd hin h
        · exact h
  | mapCols src m dels ih =>
    intro hg hn fuel
    have hsq := hg.sqlwf
    have hmp := hg.maps
    simp only [SqlWF, sqlWFb, Bool.and_eq_true, subset_iff, List.all_eq_true, Bool.or_eq_true,
      Bool.not_eq_eq_eq_not, Bool.not_true, List.contains_eq_mem, decide_eq_false_iff_not, decide_eq_true_eq] at hsq
    simp only [MapsOK, mapsOKb, Bool.and_eq_true, nodupB_iff, disjoint_iff] at hmp
    obtain ⟨⟨⟨hs, h1⟩, h1'⟩, h2⟩ := hsq
    obtain ⟨⟨⟨hmps, h3⟩, h4⟩, h5⟩ := hmp
    have hgs : Good cfg env src :=
      hg.unary id (fun h => h.1) (fun _ => hs) (fun _ => hmps) id id id id (fun _ h => h)
    cases fuel with
    | zero => exact ⟨transOK_zero _ _ _ _ _ _ _, transOKM_zero _ _ _ _ _ _⟩
    | succ fuel =>
      refine ⟨transOK_mapCols hG fuel src m dels ?_ h1' ?_ h3 h4 h5 hg.wf.2.2
        (semG_cols_wf_fragJ _ Θ SemCfg.ref env src hgs.frag) (ih hgs hn fuel).1, transOKM_mapCols fuel src m dels⟩
      · intro kv hkv; exact h1 kv.1 (List.mem_map.mpr ⟨kv, hkv, rfl⟩)
      · intro kv hkv hin
        rcases h2 kv hkv with (h | h) | h
        · exact absurd hin h
        · exact Or.inl h
        · exact Or.inr h
  | join a b oa ob jt iha ihb =>
    intro hg hnc fuel
    have hfr := hg.frag
    have hsq := hg.sqlwf
    have hmp := hg.maps
    have hj := hg.jwf
    have ht := hg.types
    have hn := hg.native
    have hl := hg.label
    simp only [InFragJ, Bool.and_eq_true] at hfr
    simp only [SqlWF, sqlWFb, Bool.and_eq_true] at hsq
    simp only [MapsOK, mapsOKb, Bool.and_eq_true] at hmp
    simp only [JoinWF, joinWFb, Bool.and_eq_true, subset_iff] at hj
    simp only [JoinTypesSql, joinTypesSqlb, Bool.and_eq_true, bne_iff_ne, ne_eq] at ht
    simp only [JoinsNative, joinsNativeb, Bool.and_eq_true, Bool.or_eq_true, Bool.not_eq_eq_eq_not, Bool.not_true,
      bne_iff_ne, ne_eq] at hn
    simp only [LabelSidesPlain, labelSidesPlainb, Bool.and_eq_true] at hl
    simp only [noConcat, Bool.and_eq_true] at hnc
    have hga : Good cfg env a := ⟨hfr.1, hg.wf.1, hsq.1, hmp.1, hj.1.1.1, ht.1.1, hn.1.1, hl.1,
      fun nc h => hg.env nc (by simp [Ops.tables, h])⟩
    have hgb : Good cfg env b := ⟨hfr.2, hg.wf.2, hsq.2, hmp.2, hj.1.1.2, ht.1.2, hn.1.2, hl.2,
      fun nc h => hg.env nc (by simp [Ops.tables, h])⟩
    cases fuel with
    | zero => exact ⟨transOK_zero _ _ _ _ _ _ _, transOKM_zero _ _ _ _ _ _⟩
    | succ fuel =>
      exact ⟨transOK_join hJU fuel a b oa ob jt hn.2 ht.2 hj.1.2 hj.2
          (fun ta h => (semG_cols_wf_fragJ _ Θ SemCfg.ref env a hga.frag ta h).1)
          (fun tb h => (semG_cols_wf_fragJ _ Θ SemCfg.ref env b hgb.frag tb h).1)
          (iha hga hnc.1 fuel).1 (ihb hgb hnc.2 fuel).1,
        transOKM_join SemCfg.ref fuel a b oa ob jt hn.2⟩
  | concat a b idc an bn iha ihb => intro _ hn; cases hn
  | convert src rm ih => intro hg; exact absurd hg.frag (by simp [InFragJ])

/-- **Stage A at the root, every dialect configuration.**  The query `to_sql` renders – extend merges allowed or
not; every join rendered natively; no `concat_rows` –, evaluated as a forced SELECT, returns a table with exactly the
declared column set whose rows, restricted to the declared columns, are **in order** the rows of the pipeline's table
under the engine's row ordering and the standard SQL join semantics (`semE ec Θ SemCfg.ref`). -/
theorem stageA_root_ju_merges (Θ : Interp) (ec : EngineCfg) (env : Env) (cfg : SqlCfg) (p : Ops)
    (hg : Good cfg env p) (hnc : noConcat p = true) {fuel st st' : Nat} {q : Near} {tp : Table}
    (h : toNear cfg fuel p none st = .ok (q, st')) (htp : semE ec Θ SemCfg.ref env p = .ok tp) :
    ∃ T, semNear Θ ec env [] q none true = .ok T ∧ (∀ c, c ∈ T.cols ↔ c ∈ p.cols) ∧
      T.rows.map (fun r => r.select p.cols) = tp.rows := by
  obtain ⟨htpc, htpw⟩ := semG_cols_wf_fragJ _ Θ SemCfg.ref env p hg.frag tp htp
  have hself : tp.rows.map (fun r => r.select p.cols) = tp.rows := by
    rw [← htpc]; exact map_select_self_of_wf htpw (by rw [htpc]; exact hg.wf.cols_nodup)
  rw [toNear_none_eq_ju cfg fuel p hg.frag] at h
  obtain ⟨hju, u₁, hu₁, hu₁', hsound⟩ :=
    (transOK_fragJ_merges Θ ec env cfg p hg hnc fuel).1 p.cols st q st' tp (fun c hc => hc) h htp
  obtain ⟨T, t1, t2, t3⟩ := root_of_sound_ju hsound hju hu₁ hu₁' hg.wf.cols_ne_nil
  exact ⟨T, t1, t2, t3.trans hself⟩

/-- **C01/C02, stage A, joins and extend merges together** (`C01_joins_engine_order` for every `cfg`; no
`concat_rows`).  If `to_sql` produces `q`, then `q` evaluates, has exactly the declared column set, and its rows on the
declared columns are, in order, the rows of `semE ec Θ SemCfg.ref env p`.  No hypothesis on data or `Θ`. -/
theorem joins_engine_order_merges (Θ : Interp) (ec : EngineCfg) (env : Env) (cfg : SqlCfg)
    (p : Ops) (hg : Good cfg env p) (hnc : noConcat p = true) {q : Near} (h : toNearSql cfg p = .ok q) :
    ∃ T tp, semSql Θ ec env q = .ok T ∧ semE ec Θ SemCfg.ref env p = .ok tp ∧ tp.cols = p.cols ∧
      (∀ c, c ∈ T.cols ↔ c ∈ p.cols) ∧ T.rows.map (fun r => r.select p.cols) = tp.rows := by
  obtain ⟨st', hrun⟩ := toNearSql_ok h
  obtain ⟨tp, htp⟩ := semG_ok_fragJ (sqlRowLe ec) Θ SemCfg.ref env p hg.frag false hg.env
  obtain ⟨T, h1, h2, h4⟩ := stageA_root_ju_merges Θ ec env cfg p hg hnc hrun htp
  exact ⟨T, tp, h1, htp, (semG_cols_wf_fragJ _ Θ SemCfg.ref env p hg.frag tp htp).1, h2, h4⟩

/-- **Strong scope, joins and extend merges together**: with null-free order columns at every `order_rows` and
ordered window the SQL result has the reference rows in the same order (no law on `Θ`). -/
theorem translation_exact_joins_merges (Θ : Interp) (ec : EngineCfg) (env : Env) (cfg : SqlCfg)
    (p : Ops) (hg : Good cfg env p) (hnc : noConcat p = true) (hN : OrdersNullFree Θ SemCfg.ref env p)
    {q : Near} (h : toNearSql cfg p = .ok q) :
    ∃ T t, semSql Θ ec env q = .ok T ∧ sem Θ SemCfg.ref env p = .ok t ∧ t.cols = p.cols ∧ T.EqS t := by
  obtain ⟨T, tp, h1, h2, h3, h4, h6⟩ := joins_engine_order_merges Θ ec env cfg p hg hnc h
  rw [semE_eq_sem_of_nullFree ec Θ SemCfg.ref env p hN] at h2
  refine ⟨T, tp, h1, h2, h3, ?_, ?_⟩
  · intro c; rw [h3]; exact h4 c
  · rw [h3]; exact h6

/-- **Multiset scope, joins and extend merges together** (`C01_translation_sound_joins` for every `cfg`). -/
theorem translation_sound_joins_merges (Θ : Interp) (ec : EngineCfg) (env : Env) (cfg : SqlCfg)
    (p : Ops) (hg : Good cfg env p) (hnc : noConcat p = true) (hA : AggsOrderFree Θ p)
    (hW : WindowsTotal Θ SemCfg.ref env p) (hS : SqlScope Θ SemCfg.ref env p) {q : Near}
    (h : toNearSql cfg p = .ok q) :
    ∃ T t, semSql Θ ec env q = .ok T ∧ sem Θ SemCfg.ref env p = .ok t ∧ t.cols = p.cols ∧ T.EquivS t := by
  obtain ⟨T, tp, h1, h2, h3, h4, h6⟩ := joins_engine_order_merges Θ ec env cfg p hg hnc h
  have hB := sem_equiv_semE_fragJ ec Θ SemCfg.ref env p hg.frag hA hW hS
  rw [h2] at hB
  cases hs : sem Θ SemCfg.ref env p with
  | error e => rw [hs] at hB; exact hB.elim
  | ok t =>
    rw [hs] at hB
    have heq : t ≈ tp := hB
    have hc : t.cols = p.cols := heq.1.trans h3
    refine ⟨T, t, h1, rfl, hc, ?_, ?_⟩
    · intro c; rw [hc]; exact h4 c
    · rw [hc, h6]; exact heq.2.symm

end Sol21Sql
end DAVerif
