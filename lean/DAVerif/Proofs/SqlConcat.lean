import DAVerif.Proofs.SqlJoin
/-!
C01/C02, `concat_rows`: the translation is a `UNION ALL` of the two sides bound with the same column list; with an
id column each side is first wrapped, **by a builder call**, in `extend({id: "name"})` and that pipeline is translated
(the builder may merge the new assignment into a top `extend` node of the side, and skips trailing `order_rows`
nodes without limit).

* `LabelOK` – what the translation needs from the labelled side `build a (.extend [(c, "name")] …)`: its declared
  columns, that its translation is sound (`TransOK`), and that it evaluates to `a`'s table with the label column set.
* `transOK_concat` – the induction step (with and without id column).
* `labelOK_of_*` – `LabelOK` from the builder model: un-merged (`strip a = a`, top node not an un-windowed extend)
  and merged (top node an un-windowed extend) cases.
-/
namespace DAVerif
namespace Sql
open DAVerif.Ops (usedFromSources unionL)

variable {Θ : Interp} {ec : EngineCfg} {env : Env} {G : Near → Prop} {cfg : SqlCfg} {scfg : SemCfg}

theorem liftE_ok {α : Type} {e : Except Err α} {st : Nat} {r : α × Nat} :
    (liftE e : M α) st = .ok r ↔ ∃ a, e = .ok a ∧ r = (a, st) := by
  cases e with
  | error x => simp [liftE, Except.map]
  | ok a =>
    simp only [liftE, Except.map, Except.ok.injEq]
    constructor
    · intro h; exact ⟨a, rfl, h.symm⟩
    · rintro ⟨a', h1, h2⟩; cases h1; exact h2.symm

theorem semG_concat_ok {le : RowCmp} {a b : Ops} {idc : Option String} {an bn : String} {tp : Table}
    (h : semG le Θ scfg env (.concat a b idc an bn) = .ok tp) :
    ∃ ta tb, semG le Θ scfg env a = .ok ta ∧ semG le Θ scfg env b = .ok tb ∧
      tp = semConcat idc an bn ta tb (Ops.concat a b idc an bn).cols := by
  simp only [semG] at h
  cases ha : semG le Θ scfg env a with
  | error e => rw [ha] at h; cases h
  | ok ta =>
    cases hb : semG le Θ scfg env b with
    | error e => rw [ha, hb] at h; cases h
    | ok tb =>
      rw [ha, hb] at h
      exact ⟨ta, tb, rfl, rfl, (Except.ok.inj h).symm⟩

/-- a `UNION ALL` step over two sound sides: `rowsA`, `rowsB` are the reference rows of the two sides as far as the
bound columns `uj` go -/
theorem sound_unionStep {nl nr : Near} {uj usg pc Sl Sr pl pr : List String} {tl tr tp : Table}
    (nm : String) (key : Option String)
    (hl : Sound Θ ec env nl Sl pl tl) (hlS : ∀ c ∈ uj, c ∈ Sl)
    (hr : Sound Θ ec env nr Sr pr tr) (hrS : ∀ c ∈ uj, c ∈ Sr)
    (husg : ∀ c ∈ usg, c ∈ uj) (hpc : ∀ c ∈ uj, c ∈ pc)
    (htp : ∀ u' : List String, (∀ c ∈ u', c ∈ usg) →
      tp.rows.map (fun r => r.select u') = tl.rows.map (fun r => r.select u') ++ tr.rows.map (fun r => r.select u')) :
    Sound Θ ec env (.union nm uj nl nr uj key) usg pc tp := by
  refine ⟨?_, ?_⟩
  · intro u' hu' force
    obtain ⟨Tl, hTl, _, hTlr⟩ := hl.req uj hlS true
    obtain ⟨Tr, hTr, _, hTrr⟩ := hr.req uj hrS true
    rw [semNear_union, hTl, hTr]
    simp only [Except.bind]
    refine ⟨_, rfl, subset_joinOut _ _, ?_⟩
    have hu'j : ∀ c ∈ u', c ∈ uj := fun c hc => husg c (hu' c hc)
    simp only
    rw [select_map_select _ (subset_joinOut _ _), List.map_append, htp u' hu',
      map_select_mono hTlr hu'j, map_select_mono hTrr hu'j]
  · intro _
    exact ⟨uj, rfl, hpc, husg⟩

/-! ### the induction step -/

/-- what the translation of a labelled `concat_rows` needs from the labelled side `a' = a.extend({c: "name"})` as the
builder constructs it -/
def LabelOK (Θ : Interp) (ec : EngineCfg) (env : Env) (scfg : SemCfg) (G : Near → Prop) (cfg : SqlCfg) (fuel : Nat)
    (a : Ops) (c name : String) : Prop :=
  ∀ a', build a (.extend [(c, .value (.str name))] .none [] []) = .ok a' →
    (∀ x, x ∈ a'.cols ↔ x ∈ a.cols ∨ x = c) ∧ TransOK Θ ec env scfg G cfg fuel a' ∧
    ∀ ta, semE ec Θ scfg env a = .ok ta → ∃ ta', semE ec Θ scfg env a' = .ok ta' ∧
      ∀ u' : List String, (∀ x ∈ u', x ∈ a.cols ∨ x = c) →
        ta'.rows.map (fun r => r.select u') = ta.rows.map (fun r => (r.set c (.str name)).select u')

theorem concat_used_left (a b : Ops) (idc : Option String) (an bn : String) (usg : List String) :
    ((Ops.concat a b idc an bn).usedFromSources usg).headD [] = a.cols.filter (fun c => usg.contains c) := rfl

theorem concat_used_right (a b : Ops) (idc : Option String) (an bn : String) (usg : List String) :
    (((Ops.concat a b idc an bn).usedFromSources usg).drop 1).headD [] = b.cols.filter (fun c => usg.contains c) := rfl

/-- **Induction step for `concat_rows`**, with and without id column. -/
theorem transOK_concat (hJU : ∀ q : Near, q.isJU = true → G q) (fuel : Nat) (a b : Ops) (idc : Option String)
    (an bn : String)
    (iha : TransOK Θ ec env scfg G cfg fuel a) (ihb : TransOK Θ ec env scfg G cfg fuel b)
    (hla : ∀ c, idc = some c → LabelOK Θ ec env scfg G cfg fuel a c an)
    (hlb : ∀ c, idc = some c → LabelOK Θ ec env scfg G cfg fuel b c bn) :
    TransOK Θ ec env scfg G cfg (fuel + 1) (.concat a b idc an bn) := by
  intro u st q st' tp _ h hsem
  obtain ⟨ta, tb, hta, htb, rfl⟩ := semG_concat_ok hsem
  rw [toNear] at h
  simp only [Option.getD_some, concat_used_left, concat_used_right] at h
  have husub := subset_joinUsg (.concat a b idc an bn) u
  simp only [joinUsg] at husub
  generalize (if u.isEmpty = true then List.take 1 (Ops.concat a b idc an bn).cols else u) = usg at h husub
  obtain ⟨_, s1, h1, h⟩ := bindM_ok.mp h
  obtain ⟨hsub, e1⟩ := guardM_ok.mp h1
  cases e1
  have hsub := subset_iff.mp hsub
  obtain ⟨_, s2, h2, h⟩ := bindM_ok.mp h
  obtain ⟨hlr, e2⟩ := guardM_ok.mp h2
  cases e2
  simp only [Bool.and_eq_true, subset_iff] at hlr
  have hmul : ∀ x, x ∈ a.cols.filter (fun c => usg.contains c) ↔ x ∈ a.cols ∧ x ∈ usg := by
    intro x; simp [List.mem_filter]
  have hmur : ∀ x, x ∈ b.cols.filter (fun c => usg.contains c) ↔ x ∈ b.cols ∧ x ∈ usg := by
    intro x; simp [List.mem_filter]
  cases idc with
  | none =>
    simp only at h
    obtain ⟨nl, s3, h3, h⟩ := bindM_ok.mp h
    obtain ⟨nr, s4, h4, h⟩ := bindM_ok.mp h
    obtain ⟨i, s5, _, h⟩ := bindM_ok.mp h
    cases pureM_ok.mp h
    have hncols : (Ops.concat a b none an bn).cols = a.cols := rfl
    rw [hncols] at hsub ⊢
    obtain ⟨_, Sl, hSl, _, hsl⟩ := iha _ _ nl s3 ta (fun x hx => ((hmul x).mp hx).1) h3 hta
    obtain ⟨_, Sr, hSr, _, hsr⟩ := ihb _ _ nr s4 tb
      (fun x hx => ((hmur x).mp (hlr.1 x hx)).1) h4 htb
    refine ⟨hJU _ rfl, usg, husub, hsub, ?_⟩
    apply sound_unionStep _ _ hsl hSl hsr hSr (fun x hx => (hmul x).mpr ⟨hsub x hx, hx⟩)
      (fun x hx => ((hmul x).mp hx).1)
    intro u' hu'
    simp only [semConcat, List.map_append, List.map_map]
    congr 1 <;> exact List.map_congr_left (fun r _ => Row.select_select (fun x hx => hsub x (hu' x hx)))
  | some c =>
    simp only at h
    obtain ⟨a', s3, h3, h⟩ := bindM_ok.mp h
    obtain ⟨_, hba, e3⟩ := liftE_ok.mp h3
    cases e3
    obtain ⟨nl, s4, h4, h⟩ := bindM_ok.mp h
    obtain ⟨b', s5, h5, h⟩ := bindM_ok.mp h
    obtain ⟨_, hbb, e5⟩ := liftE_ok.mp h5
    cases e5
    obtain ⟨nr, s6, h6, h⟩ := bindM_ok.mp h
    obtain ⟨i, s7, _, h⟩ := bindM_ok.mp h
    cases pureM_ok.mp h
    have hncols : (Ops.concat a b (some c) an bn).cols = a.cols ++ [c] := rfl
    rw [hncols] at hsub ⊢
    have hsub' : ∀ x ∈ usg, x ∈ a.cols ∨ x = c := by
      intro x hx; simpa using hsub x hx
    obtain ⟨hca, hta', hsa⟩ := hla c rfl a' hba
    obtain ⟨hcb, htb', hsb⟩ := hlb c rfl b' hbb
    obtain ⟨ta', hta'', hra⟩ := hsa ta hta
    obtain ⟨tb', htb'', hrb⟩ := hsb tb htb
    have huja : ∀ x ∈ unionL (a.cols.filter (fun c => usg.contains c)) [c], x ∈ a'.cols := by
      intro x hx
      rw [mem_unionL] at hx
      rw [hca]
      rcases hx with hx | hx
      · exact Or.inl ((hmul x).mp hx).1
      · exact Or.inr (by simpa using hx)
    have hujb : ∀ x ∈ unionL (a.cols.filter (fun c => usg.contains c)) [c], x ∈ b'.cols := by
      intro x hx
      rw [mem_unionL] at hx
      rw [hcb]
      rcases hx with hx | hx
      · exact Or.inl ((hmur x).mp (hlr.1 x hx)).1
      · exact Or.inr (by simpa using hx)
    obtain ⟨_, Sl, hSl, _, hsl⟩ := hta' _ _ nl s4 ta' huja h4 hta''
    obtain ⟨_, Sr, hSr, _, hsr⟩ := htb' _ _ nr s6 tb' hujb h6 htb''
    have husgj : ∀ x ∈ usg, x ∈ unionL (a.cols.filter (fun c => usg.contains c)) [c] := by
      intro x hx
      rw [mem_unionL]
      rcases hsub' x hx with h | h
      · exact Or.inl ((hmul x).mpr ⟨h, hx⟩)
      · exact Or.inr (by simpa using h)
    refine ⟨hJU _ rfl, usg, husub, hsub, ?_⟩
    apply sound_unionStep _ _ hsl hSl hsr hSr husgj
    · intro x hx
      rw [mem_unionL] at hx
      rcases hx with hx | hx
      · exact List.mem_append_left _ ((hmul x).mp hx).1
      · exact List.mem_append_right _ hx
    · intro u' hu'
      have hu'a : ∀ x ∈ u', x ∈ a.cols ∨ x = c := fun x hx => hsub' x (hu' x hx)
      have hu'b : ∀ x ∈ u', x ∈ b.cols ∨ x = c := by
        intro x hx
        rcases hu'a x hx with h | h
        · exact Or.inl ((hmur x).mp (hlr.1 x ((hmul x).mpr ⟨h, hu' x hx⟩))).1
        · exact Or.inr h
      rw [hra u' hu'a, hrb u' hu'b]
      simp only [semConcat, List.map_append, List.map_map]
      congr 1 <;> exact List.map_congr_left (fun r _ => Row.select_select (fun x hx => hsub x (hu' x hx)))

/-! ### `LabelOK` from the builder model -/

open Rules26 (usedBy keys partCols windowedSituation) in
/-- the label step on top of the side itself (no builder merge) -/
theorem labelOK_plain (hG : ShapeOK Θ ec env G) (hm : cfg.merges = false) {a a' : Ops} {c name : String}
    (iha : ∀ f, TransOK Θ ec env scfg G cfg f a) (fuel : Nat)
    (h : mkExtend a [(c, .value (.str name))] .none [] [] = .ok a') :
    (∀ x, x ∈ a'.cols ↔ x ∈ a.cols ∨ x = c) ∧ TransOK Θ ec env scfg G cfg fuel a' ∧
    ∀ ta, semE ec Θ scfg env a = .ok ta → ∃ ta', semE ec Θ scfg env a' = .ok ta' ∧
      ∀ u' : List String, (∀ x ∈ u', x ∈ a.cols ∨ x = c) →
        ta'.rows.map (fun r => r.select u') = ta.rows.map (fun r => (r.set c (.str name)).select u') := by
  obtain ⟨rfl, hE⟩ := mkExtend_ok h
  have hw : windowedSituation [(c, Term.value (Lit.str name))] PartArg.none [] = false := rfl
  rw [hw] at hE ⊢
  have hcols : ∀ x, x ∈ (Ops.extend a [(c, Term.value (Lit.str name))] (partCols .none) [] [] false).cols ↔
      x ∈ a.cols ∨ x = c := by
    intro x
    simp only [Ops.cols, List.map_cons, List.map_nil, mem_appendNew, List.mem_singleton]
  refine ⟨hcols, ?_, ?_⟩
  · cases fuel with
    | zero => exact transOK_zero _ _ _ _ _ _ _
    | succ f => exact transOK_extend hG hm f a _ _ _ _ _ hE (iha f)
  · intro ta hta
    refine ⟨_, by simp only [semG, hta]; rfl, ?_⟩
    intro u' hu'
    simp only [semExtendPlain, List.map_map]
    apply List.map_congr_left
    intro r _
    exact Row.select_select (fun x hx => (hcols x).mpr (hu' x hx))

theorem impliesWindowed_append_j (o1 o2 : Assign) :
    impliesWindowed (o1 ++ o2) = (impliesWindowed o1 || impliesWindowed o2) := by
  simp [impliesWindowed, List.any_append]

open Rules26 (usedBy keys partCols windowedSituation) in
/-- the label assignment merged by the builder into the side's own un-windowed `extend` node -/
theorem labelOK_merged (hG : ShapeOK Θ ec env G) (hm : cfg.merges = false) {src a' : Ops} {ops1 : Assign}
    {c name : String} (hwf : WF (.extend src ops1 [] [] [] false)) (_hc : c ∉ (Ops.extend src ops1 [] [] [] false).cols)
    (ihsrc : ∀ f, TransOK Θ ec env scfg G cfg f src) (fuel : Nat)
    (h : mkExtend src (ops1 ++ [(c, .value (.str name))]) .none [] [] = .ok a') :
    (∀ x, x ∈ a'.cols ↔ x ∈ (Ops.extend src ops1 [] [] [] false).cols ∨ x = c) ∧
    TransOK Θ ec env scfg G cfg fuel a' ∧
    ∀ ta, semE ec Θ scfg env (.extend src ops1 [] [] [] false) = .ok ta → ∃ ta', semE ec Θ scfg env a' = .ok ta' ∧
      ∀ u' : List String, (∀ x ∈ u', x ∈ (Ops.extend src ops1 [] [] [] false).cols ∨ x = c) →
        ta'.rows.map (fun r => r.select u') = ta.rows.map (fun r => (r.set c (.str name)).select u') := by
  obtain ⟨rfl, hE⟩ := mkExtend_ok h
  have hiw : impliesWindowed ops1 = false := (hwf.2.2.2.2.2.2.1 rfl).1
  have hw : windowedSituation (ops1 ++ [(c, Term.value (Lit.str name))]) PartArg.none [] = false := by
    rw [impliesWindowed_eq, impliesWindowed_append_j, hiw]; rfl
  rw [hw] at hE ⊢
  have hcols : ∀ x, x ∈ (Ops.extend src (ops1 ++ [(c, Term.value (Lit.str name))]) (partCols .none) [] [] false).cols ↔
      x ∈ (Ops.extend src ops1 [] [] [] false).cols ∨ x = c := by
    intro x
    simp only [Ops.cols, List.map_append, List.map_cons, List.map_nil, mem_appendNew, List.mem_append,
      List.mem_singleton, or_assoc]
  refine ⟨hcols, ?_, ?_⟩
  · cases fuel with
    | zero => exact transOK_zero _ _ _ _ _ _ _
    | succ f => exact transOK_extend hG hm f src _ _ _ _ _ hE (ihsrc f)
  · intro ta hta
    simp only [semG] at hta
    cases hs : semG (sqlRowLe ec) Θ scfg env src with
    | error e => rw [hs] at hta; cases hta
    | ok ts =>
      rw [hs] at hta
      cases hta
      refine ⟨_, by simp only [semG, hs]; rfl, ?_⟩
      intro u' hu'
      simp only [semExtendPlain, List.map_map]
      apply List.map_congr_left
      intro r _
      simp only [Function.comp]
      rw [Row.select_select (fun x hx => (hcols x).mpr (hu' x hx))]
      apply Row.select_congr.mpr
      intro x hx
      rw [Row.get_set, Row.get_setAll, List.map_append, List.map_cons, List.map_nil, lookupLast_concat]
      by_cases hxc : x = c
      · simp only [hxc, ↓reduceIte, Option.getD_some]
        rfl
      · have hxa : x ∈ (Ops.extend src ops1 [] [] [] false).cols := (hu' x hx).resolve_right hxc
        simp only [hxc, ↓reduceIte]
        rw [Row.get_select_mem hxa, Row.get_setAll]

open Rules26 (usedBy keys partCols windowedSituation) in
/-- **`LabelOK` for a side the builder does not strip** (`strip a = a`: the side does not end in an `order_rows`
without limit – for such a side the SQL has no `ORDER BY` any more and only the row multiset is kept).  The
builder either puts the label step on top of `a` or merges it into `a`'s own un-windowed `extend` node; in the
second case the translation re-enters `a`'s source, whence `ihsrc`. -/
theorem labelOK_of_wf (hG : ShapeOK Θ ec env G) (hm : cfg.merges = false) {a : Ops} {c name : String}
    (hwf : WF a) (hstrip : strip a = a) (hc : c ∉ a.cols)
    (iha : ∀ f, TransOK Θ ec env scfg G cfg f a)
    (ihsrc : ∀ src ops1 p o r w, a = .extend src ops1 p o r w → ∀ f, TransOK Θ ec env scfg G cfg f src)
    (fuel : Nat) : LabelOK Θ ec env scfg G cfg fuel a c name := by
  intro a' hb
  unfold build at hb
  simp only [] at hb
  obtain ⟨parsed, hpa, h2⟩ := bind_ok.mp hb
  obtain ⟨rfl, _⟩ := parseAssignments_ok hpa
  rw [extendParsed_strip _ _ _ _ _ rfl, hstrip] at h2
  obtain ⟨_, _, h3⟩ := bind_ok.mp h2
  cases a with
  | extend src ops1 p1 o1 r1 w1 =>
    simp only [extendTop, extendMerge] at h3
    split at h3
    · rename_i hmc
      -- the merge is attempted: the node is un-windowed
      simp only [mergeCond, Bool.and_eq_true, beq_iff_eq] at hmc
      obtain ⟨⟨⟨_, hw1⟩, ho1⟩, hr1⟩ := hmc
      have hw1' : w1 = false := by
        rw [← hw1]; rfl
      subst hw1'
      subst ho1
      subst hr1
      have hp1 : p1 = [] := (hwf.2.2.2.2.2.2.1 rfl).2.1
      subst hp1
      cases hmg : tryMergeOps ops1 [(c, Term.value (Lit.str name))] with
      | none =>
        rw [hmg] at h3
        exact labelOK_plain hG hm iha fuel h3
      | some newOps =>
        rw [hmg] at h3
        have hfresh : ∀ k ∈ keys [(c, Term.value (Lit.str name))], k ∉ keys ops1 := by
          intro k hk hk1
          simp only [keys, List.map_cons, List.map_nil, List.mem_singleton] at hk
          subst hk
          apply hc
          simp only [Ops.cols]
          exact mem_appendNew.mpr (Or.inr hk1)
        have := (tryMergeOps_keys hmg).2 hfresh
        subst this
        exact labelOK_merged hG hm hwf hc (ihsrc src ops1 [] [] [] false rfl) fuel h3
    · exact labelOK_plain hG hm iha fuel h3
  | _ => exact labelOK_plain hG hm iha fuel h3

end Sql
end DAVerif
