import DAVerif.Proofs.RenameSem
/-!
Renaming, SQL semantics: `semNear` (Sql/Sem.lean) commutes with an injective renaming of the columns and of the base
tables; the generated query names and the names of common table expressions are left as they are.  Also: `semNear`
does not look at `ops_key` (`semNear_eraseKeys`).
-/
namespace DAVerif
namespace Ren

open Function (Injective)
open DAVerif.Sql

variable {f : String → String}

theorem sqlRowLe_rename (hf : Injective f) (ec : EngineCfg) (cs rv : List String) (r1 r2 : Row) :
    sqlRowLe ec (cs.map f) (rv.map f) (r1.rename f) (r2.rename f) = sqlRowLe ec cs rv r1 r2 := by
  induction cs with
  | nil => rfl
  | cons c cs ih => simp only [List.map_cons, sqlRowLe, Row.get_rename hf, contains_map hf, ih]

theorem sqlSortIdx_rename (hf : Injective f) (ec : EngineCfg) (cs rv : List String) (rows : List (Row × Nat)) :
    sqlSortIdx ec (cs.map f) (rv.map f) (rows.map (fun ri => (ri.1.rename f, ri.2)))
      = (sqlSortIdx ec cs rv rows).map (fun ri => (ri.1.rename f, ri.2)) := by
  unfold sqlSortIdx
  exact (List.map_mergeSort (fun a _ b _ => (sqlRowLe_rename hf ec cs rv a.1 b.1).symm)).symm

theorem termVal_rename (Θ : Interp) (hf : Injective f) (ec : EngineCfg) (idx : List (Row × Nat)) (ri : Row × Nat)
    (k : String) (ot : Option STerm) :
    termVal Θ ec (idx.map (fun ri => (ri.1.rename f, ri.2))) (ri.1.rename f, ri.2) (f k) (ot.map (STerm.rename f))
      = termVal Θ ec idx ri k ot := by
  cases ot with
  | none => simp only [Option.map_none, termVal, Row.get_rename hf]
  | some t =>
    cases t with
    | pass => simp only [Option.map_some, STerm.rename, termVal, Row.get_rename hf]
    | ident c => simp only [Option.map_some, STerm.rename, termVal, Row.get_rename hf]
    | coalesce lf c => simp only [Option.map_some, STerm.rename, termVal, Row.get_rename hf]
    | qual l c => simp only [Option.map_some, STerm.rename, termVal, Row.get_rename hf]
    | expr t w =>
      cases w with
      | none => simp only [Option.map_some, STerm.rename, Option.map_none, termVal, evalCell_rename Θ hf]
      | some w =>
        simp only [Option.map_some, STerm.rename, Win.rename, termVal]
        have hfilt : (idx.map (fun ri => (ri.1.rename f, ri.2))).filter
              (fun rj => keyOf rj.1 (w.partition.map f) == keyOf (ri.1.rename f) (w.partition.map f))
            = (idx.filter (fun rj => keyOf rj.1 w.partition == keyOf ri.1 w.partition)).map
                (fun ri => (ri.1.rename f, ri.2)) := by
          rw [List.filter_map]
          congr 1
          apply List.filter_congr
          intro rj _
          simp only [Function.comp, keyOf_rename hf]
        rw [hfilt, sqlSortIdx_rename hf, List.findIdx_map]
        simp only [Function.comp_def, List.map_map, opName_rename, constArgs_rename]
        have hrows : ∀ l : List (Row × Nat), l.map (fun x => x.1.rename f) = (l.map (·.1)).map (fun r => r.rename f) := by
          intro l; simp [List.map_map, Function.comp_def]
        rw [hrows, argValues_rename hf]

theorem aggVal_rename (Θ : Interp) (hf : Injective f) (g : List Row) (k : String) (ot : Option STerm) :
    aggVal Θ (g.map (fun r => r.rename f)) (f k) (ot.map (STerm.rename f)) = aggVal Θ g k ot := by
  have hhead : ∀ c : String, ((g.map (fun r => r.rename f)).head?.map (fun r => r.get (f c))).getD .null
      = (g.head?.map (fun r => r.get c)).getD .null := by
    intro c
    cases g with
    | nil => rfl
    | cons r g => simp only [List.map_cons, List.head?_cons, Option.map_some, Option.getD_some, Row.get_rename hf]
  cases ot with
  | none => simp only [Option.map_none, aggVal, hhead]
  | some t =>
    cases t with
    | pass => simp only [Option.map_some, STerm.rename, aggVal, hhead]
    | ident c => simp only [Option.map_some, STerm.rename, aggVal, hhead]
    | coalesce lf c => simp only [Option.map_some, STerm.rename, aggVal, hhead]
    | qual l c => simp only [Option.map_some, STerm.rename, aggVal, hhead]
    | expr t w => simp only [Option.map_some, STerm.rename, aggVal, opName_rename, argValues_rename hf]

theorem isEmpty_map {α β : Type} (g : α → β) (l : List α) : (l.map g).isEmpty = l.isEmpty := by
  cases l <;> rfl

theorem terms_keys (ts : Terms) : (Terms.rename f ts).map (·.1) = (ts.map (·.1)).map f := by
  simp [Terms.rename, List.map_map, Function.comp_def]

theorem outCols_rename (terms : Option Terms) (cols? : Option (List String)) (fc : List String) :
    outCols (terms.map (Terms.rename f)) (cols?.map (·.map f)) (fc.map f) = (outCols terms cols? fc).map f := by
  cases terms with
  | none => rfl
  | some ts =>
    cases cols? with
    | none => simp only [Option.map_some, Option.map_none, outCols, terms_keys]
    | some cs =>
      simp only [Option.map_some, outCols, isEmpty_map, terms_keys]
      split <;> rfl

/-! ### the body of `semNear`, cut into named pieces (so that statements about it do not have to restate its
anonymous `match` expressions) -/

/-- `look`: the SELECT-list entry of a column -/
def lookOf (terms : Option Terms) (k : String) : Option STerm :=
  match terms with
  | none => none
  | some ts => lookupLast ts k

/-- requested columns, or a default when nothing / the empty list is requested -/
def outOf (dflt : List String) (cols? : Option (List String)) : List String :=
  match cols? with
  | some cs => if cs.isEmpty then dflt else cs
  | none => dflt

/-- the FROM rows after WHERE / ORDER BY -/
def stepRows (Θ : Interp) (ec : EngineCfg) (suffix : Suffix) (rows : List Row) : List Row :=
  match suffix with
  | .whereE e => rows.filter (fun r => evalCell Θ r e == Val.bool true)
  | .orderBy cs rev _ => rows.mergeSort (fun a b => sqlRowLe ec cs rev a b)
  | _ => rows

def aggRow (Θ : Interp) (lk : String → Option STerm) (out : List String) (g : List Row) : Row :=
  out.map (fun c => (c, aggVal Θ g c (lk c)))

def rowwise (Θ : Interp) (ec : EngineCfg) (lk : String → Option STerm) (out : List String) (rows : List Row) :
    List Row :=
  rows.zipIdx.map (fun ri => out.map (fun c => (c, termVal Θ ec rows.zipIdx ri c (lk c))))

def unaryStep (Θ : Interp) (ec : EngineCfg) (terms : Option Terms) (agg : Bool) (suffix : Suffix)
    (cols? : Option (List String)) (t : Table) : Table :=
  let out := outCols terms cols? t.cols
  let rows := stepRows Θ ec suffix t.rows
  if agg then
    match suffix with
    | .groupBy gs =>
      ⟨out, ((rows.map (fun r => keyOf r gs)).eraseDups).map (fun k =>
        aggRow Θ (lookOf terms) out (rows.filter (fun r => keyOf r gs == k)))⟩
    | _ => ⟨out, [aggRow Θ (lookOf terms) out rows]⟩
  else
    match suffix with
    | .orderBy _ _ (some n) => ⟨out, (rowwise Θ ec (lookOf terms) out rows).take n⟩
    | _ => ⟨out, rowwise Θ ec (lookOf terms) out rows⟩

theorem semNear_unary (Θ : Interp) (ec : EngineCfg) (env : Env) (ctes : List (String × Table))
    (name : String) (terms : Option Terms) (agg : Bool) (sub : Near) (subCols : Option (List String))
    (suffix : Suffix) (mg : Bool) (deps : Option (List (String × List String))) (key : Option String)
    (cols? : Option (List String)) (force : Bool) :
    semNear Θ ec env ctes (.unary name terms agg sub subCols suffix mg deps key) cols? force
      = (semNear Θ ec env ctes sub subCols false >>= fun t => pure (unaryStep Θ ec terms agg suffix cols? t)) := by
  simp only [semNear]
  congr 1
  funext t
  cases agg <;> cases suffix <;> (try rename_i lim; cases lim) <;> cases terms <;> rfl

def joinStep (terms : Terms) (lc rc : List String) (jt : JoinType) (oa ob : List String)
    (cols? : Option (List String)) (tl tr : Table) : Table :=
  let out := outOf (terms.map (·.1)) cols?
  let allMatch := jt == .cross || oa.isEmpty
  let m := fun (ra rb : Row) => allMatch || keyMatch SemCfg.ref (keyOf ra oa) (keyOf rb ob)
  let mk := sqlJoinRow lc rc terms out
  let pairs := tl.rows.flatMap (fun ra => (tr.rows.filter (fun rb => m ra rb)).map (fun rb => mk (some ra) (some rb)))
  let leftOnly := (tl.rows.filter (fun ra => !(tr.rows.any (fun rb => m ra rb)))).map (fun ra => mk (some ra) none)
  let rightOnly := (tr.rows.filter (fun rb => !(tl.rows.any (fun ra => m ra rb)))).map (fun rb => mk none (some rb))
  ⟨out, pairs ++ (if jt == .left || jt == .full then leftOnly else [])
    ++ (if jt == .right || jt == .full then rightOnly else [])⟩

theorem semNear_join (Θ : Interp) (ec : EngineCfg) (env : Env) (ctes : List (String × Table))
    (name : String) (terms : Terms) (l : Near) (lc : List String) (ln : String) (r : Near) (rc : List String)
    (rn : String) (jt : JoinType) (oa ob : List String) (key : Option String)
    (cols? : Option (List String)) (force : Bool) :
    semNear Θ ec env ctes (.join name terms l lc ln r rc rn jt oa ob key) cols? force
      = (semNear Θ ec env ctes l (some lc) false >>= fun tl =>
          semNear Θ ec env ctes r (some rc) false >>= fun tr =>
            if jt == .outer then .error .other else pure (joinStep terms lc rc jt oa ob cols? tl tr)) := by
  simp only [semNear]
  rfl

theorem semNear_union (Θ : Interp) (ec : EngineCfg) (env : Env) (ctes : List (String × Table))
    (name : String) (terms : List String) (l r : Near) (cols : List String) (key : Option String)
    (cols? : Option (List String)) (force : Bool) :
    semNear Θ ec env ctes (.union name terms l r cols key) cols? force
      = (semNear Θ ec env ctes l (some cols) true >>= fun tl =>
          semNear Θ ec env ctes r (some cols) true >>= fun tr =>
            pure ⟨outOf terms cols?, (tl.rows ++ tr.rows).map (fun row => row.select (outOf terms cols?))⟩) := by
  simp only [semNear]
  rfl

/-! ### the pieces commute with the renaming -/
theorem lookOf_rename (hf : Injective f) (terms : Option Terms) (k : String) :
    lookOf (terms.map (Terms.rename f)) (f k) = (lookOf terms k).map (STerm.rename f) := by
  cases terms with
  | none => rfl
  | some ts => exact lookupLast_map hf (STerm.rename f) ts k

theorem outOf_rename (dflt : List String) (cols? : Option (List String)) :
    outOf (dflt.map f) (cols?.map (·.map f)) = (outOf dflt cols?).map f := by
  cases cols? with
  | none => rfl
  | some cs =>
    simp only [Option.map_some, outOf, isEmpty_map]
    split <;> rfl

theorem stepRows_rename (Θ : Interp) (hf : Injective f) (ec : EngineCfg) (suffix : Suffix) (rows : List Row) :
    stepRows Θ ec (suffix.rename f) (rows.map (fun r => r.rename f))
      = (stepRows Θ ec suffix rows).map (fun r => r.rename f) := by
  cases suffix with
  | none => rfl
  | groupBy gs => rfl
  | whereE e =>
    simp only [Suffix.rename, stepRows]
    rw [List.filter_map]
    congr 1
    apply List.filter_congr
    intro r _
    simp only [Function.comp, evalCell_rename Θ hf]
  | orderBy cs rv lim =>
    simp only [Suffix.rename, stepRows]
    exact (List.map_mergeSort (fun a _ b _ => (sqlRowLe_rename hf ec cs rv a b).symm)).symm

theorem aggRow_rename (Θ : Interp) (hf : Injective f) (lk lk' : String → Option STerm)
    (hlk : ∀ k, lk' (f k) = (lk k).map (STerm.rename f)) (out : List String) (g : List Row) :
    aggRow Θ lk' (out.map f) (g.map (fun r => r.rename f)) = (aggRow Θ lk out g).rename f := by
  simp only [aggRow, Row.rename, List.map_map]
  apply List.map_congr_left
  intro c _
  simp only [Function.comp, Prod.mk.injEq, true_and]
  rw [hlk]
  exact aggVal_rename Θ hf g c _

theorem rowwise_rename (Θ : Interp) (hf : Injective f) (ec : EngineCfg) (lk lk' : String → Option STerm)
    (hlk : ∀ k, lk' (f k) = (lk k).map (STerm.rename f)) (out : List String) (rows : List Row) :
    rowwise Θ ec lk' (out.map f) (rows.map (fun r => r.rename f))
      = (rowwise Θ ec lk out rows).map (fun r => r.rename f) := by
  simp only [rowwise]
  rw [zipIdx_rename, List.map_map, List.map_map]
  apply List.map_congr_left
  intro ri _
  simp only [Function.comp, Row.rename, List.map_map]
  apply List.map_congr_left
  intro c _
  simp only [Function.comp, Prod.mk.injEq, true_and]
  rw [hlk]
  exact termVal_rename Θ hf ec rows.zipIdx ri c _

theorem unaryStep_rename (Θ : Interp) (hf : Injective f) (ec : EngineCfg) (terms : Option Terms) (agg : Bool)
    (suffix : Suffix) (cols? : Option (List String)) (t : Table) :
    unaryStep Θ ec (terms.map (Terms.rename f)) agg (suffix.rename f) (cols?.map (·.map f)) (t.rename f)
      = (unaryStep Θ ec terms agg suffix cols? t).rename f := by
  have hout : outCols (terms.map (Terms.rename f)) (cols?.map (·.map f)) (Table.rename f t).cols
      = (outCols terms cols? t.cols).map f := outCols_rename terms cols? t.cols
  have hrows : stepRows Θ ec (suffix.rename f) (Table.rename f t).rows
      = (stepRows Θ ec suffix t.rows).map (fun r => r.rename f) := stepRows_rename Θ hf ec suffix t.rows
  have hlk := lookOf_rename hf terms
  unfold unaryStep
  simp only [hout, hrows]
  cases agg with
  | true =>
    simp only [if_true]
    cases suffix with
    | groupBy gs =>
      simp only [Suffix.rename, Table.rename, Row.renameCols, Table.mk.injEq, true_and]
      have hkeys : ((stepRows Θ ec (.groupBy gs) t.rows).map (fun r => r.rename f)).map (fun r => keyOf r (gs.map f))
          = (stepRows Θ ec (.groupBy gs) t.rows).map (fun r => keyOf r gs) := by
        simp only [List.map_map]
        apply List.map_congr_left
        intro r _
        exact keyOf_rename hf r gs
      rw [hkeys, List.map_map]
      apply List.map_congr_left
      intro k _
      simp only [Function.comp]
      have hfilt : ((stepRows Θ ec (.groupBy gs) t.rows).map (fun r => r.rename f)).filter
            (fun r => keyOf r (gs.map f) == k)
          = ((stepRows Θ ec (.groupBy gs) t.rows).filter (fun r => keyOf r gs == k)).map (fun r => r.rename f) := by
        rw [List.filter_map]
        congr 1
        apply List.filter_congr
        intro r _
        simp only [Function.comp, keyOf_rename hf]
      rw [hfilt]
      exact aggRow_rename Θ hf _ _ hlk _ _
    | none =>
      simp only [Suffix.rename, Table.rename, Row.renameCols, Table.mk.injEq, true_and, List.map_cons, List.map_nil,
        List.cons.injEq, and_true]
      exact aggRow_rename Θ hf _ _ hlk _ _
    | whereE e =>
      simp only [Suffix.rename, Table.rename, Row.renameCols, Table.mk.injEq, true_and, List.map_cons, List.map_nil,
        List.cons.injEq, and_true]
      exact aggRow_rename Θ hf _ _ hlk _ _
    | orderBy cs rv lim =>
      simp only [Suffix.rename, Table.rename, Row.renameCols, Table.mk.injEq, true_and, List.map_cons, List.map_nil,
        List.cons.injEq, and_true]
      exact aggRow_rename Θ hf _ _ hlk _ _
  | false =>
    simp only [Bool.false_eq_true, if_false]
    have hrw := fun rows => rowwise_rename Θ hf ec _ _ hlk (outCols terms cols? t.cols) rows
    cases suffix with
    | orderBy cs rv lim =>
      cases lim with
      | none =>
        simp only [Suffix.rename, Table.rename, Row.renameCols, Table.mk.injEq, true_and]
        exact hrw _
      | some n =>
        simp only [Suffix.rename, Table.rename, Row.renameCols, Table.mk.injEq, true_and]
        rw [hrw, List.map_take]
    | none =>
      simp only [Suffix.rename, Table.rename, Row.renameCols, Table.mk.injEq, true_and]
      exact hrw _
    | whereE e =>
      simp only [Suffix.rename, Table.rename, Row.renameCols, Table.mk.injEq, true_and]
      exact hrw _
    | groupBy gs =>
      simp only [Suffix.rename, Table.rename, Row.renameCols, Table.mk.injEq, true_and]
      exact hrw _

theorem Row.rename_map (l : List String) (g : String → String × Val) :
    Row.rename (l.map g) f = l.map (fun c => (f (g c).1, (g c).2)) := by
  simp [Row.rename, List.map_map, Function.comp_def]

theorem sqlJoinRow_rename (hf : Injective f) (lc rc : List String) (terms : Terms) (out : List String)
    (ra rb : Option Row) :
    sqlJoinRow (lc.map f) (rc.map f) (Terms.rename f terms) (out.map f) (ra.map (fun r => r.rename f))
        (rb.map (fun r => r.rename f))
      = (sqlJoinRow lc rc terms out ra rb).rename f := by
  unfold sqlJoinRow
  rw [Row.rename_map, List.map_map]
  apply List.map_congr_left
  intro c _
  simp only [Function.comp]
  have hl : lookupLast (Terms.rename f terms) (f c) = (lookupLast terms c).map (STerm.rename f) :=
    lookupLast_map hf (STerm.rename f) terms c
  rw [hl]
  cases lookupLast terms c with
  | none =>
    cases ra <;> cases rb <;> simp only [Option.map_none, Option.map_some, contains_map hf, Row.get_rename hf]
  | some t =>
    cases t <;> cases ra <;> cases rb <;>
      simp only [Option.map_none, Option.map_some, STerm.rename, contains_map hf, Row.get_rename hf]

theorem joinStep_rename (hf : Injective f) (terms : Terms) (lc rc : List String) (jt : JoinType)
    (oa ob : List String) (cols? : Option (List String)) (tl tr : Table) :
    joinStep (Terms.rename f terms) (lc.map f) (rc.map f) jt (oa.map f) (ob.map f) (cols?.map (·.map f))
        (tl.rename f) (tr.rename f)
      = (joinStep terms lc rc jt oa ob cols? tl tr).rename f := by
  have hout : outOf ((Terms.rename f terms).map (·.1)) (cols?.map (·.map f)) = (outOf (terms.map (·.1)) cols?).map f := by
    rw [terms_keys]; exact outOf_rename _ _
  unfold joinStep
  simp only [hout]
  generalize outOf (terms.map (·.1)) cols? = out
  have hemp : (oa.map f).isEmpty = oa.isEmpty := isEmpty_map _ _
  have hm : ∀ ra rb : Row,
      ((jt == .cross || (oa.map f).isEmpty) ||
          keyMatch SemCfg.ref (keyOf (ra.rename f) (oa.map f)) (keyOf (rb.rename f) (ob.map f)))
        = ((jt == .cross || oa.isEmpty) || keyMatch SemCfg.ref (keyOf ra oa) (keyOf rb ob)) := by
    intro ra rb
    rw [hemp, keyOf_rename hf, keyOf_rename hf]
  have hmk2 : ∀ ra rb : Row,
      sqlJoinRow (lc.map f) (rc.map f) (Terms.rename f terms) (out.map f) (some (ra.rename f)) (some (rb.rename f))
        = (sqlJoinRow lc rc terms out (some ra) (some rb)).rename f :=
    fun ra rb => sqlJoinRow_rename hf _ _ _ _ (some ra) (some rb)
  have hmkL : ∀ ra : Row,
      sqlJoinRow (lc.map f) (rc.map f) (Terms.rename f terms) (out.map f) (some (ra.rename f)) none
        = (sqlJoinRow lc rc terms out (some ra) none).rename f :=
    fun ra => sqlJoinRow_rename hf _ _ _ _ (some ra) none
  have hmkR : ∀ rb : Row,
      sqlJoinRow (lc.map f) (rc.map f) (Terms.rename f terms) (out.map f) none (some (rb.rename f))
        = (sqlJoinRow lc rc terms out none (some rb)).rename f :=
    fun rb => sqlJoinRow_rename hf _ _ _ _ none (some rb)
  simp only [Table.rename, Row.renameCols, Table.mk.injEq, true_and, List.map_append]
  congr 1
  · congr 1
    · simp only [List.flatMap_map, List.map_flatMap]
      apply flatMap_congr'
      intro ra _
      rw [List.filter_map, List.map_map, List.map_map]
      have : List.filter ((fun rb => (jt == .cross || (oa.map f).isEmpty) ||
            keyMatch SemCfg.ref (keyOf (ra.rename f) (oa.map f)) (keyOf rb (ob.map f))) ∘ fun r => r.rename f) tr.rows
          = List.filter (fun rb => (jt == .cross || oa.isEmpty) || keyMatch SemCfg.ref (keyOf ra oa) (keyOf rb ob)) tr.rows := by
        apply List.filter_congr
        intro rb _
        exact hm ra rb
      rw [this]
      apply List.map_congr_left
      intro rb _
      exact hmk2 ra rb
    · split
      · rw [List.filter_map, List.map_map, List.map_map]
        have : List.filter ((fun ra => !(tr.rows.map (fun r => r.rename f)).any (fun rb =>
              (jt == .cross || (oa.map f).isEmpty) ||
                keyMatch SemCfg.ref (keyOf ra (oa.map f)) (keyOf rb (ob.map f)))) ∘ fun r => r.rename f) tl.rows
            = List.filter (fun ra => !tr.rows.any (fun rb =>
              (jt == .cross || oa.isEmpty) || keyMatch SemCfg.ref (keyOf ra oa) (keyOf rb ob))) tl.rows := by
          apply List.filter_congr
          intro ra _
          simp only [Function.comp_def, List.any_map]
          congr 2
          funext rb
          exact hm ra rb
        rw [this]
        apply List.map_congr_left
        intro ra _
        exact hmkL ra
      · rfl
  · split
    · rw [List.filter_map, List.map_map, List.map_map]
      have : List.filter ((fun rb => !(tl.rows.map (fun r => r.rename f)).any (fun ra =>
            (jt == .cross || (oa.map f).isEmpty) ||
              keyMatch SemCfg.ref (keyOf ra (oa.map f)) (keyOf rb (ob.map f)))) ∘ fun r => r.rename f) tr.rows
          = List.filter (fun rb => !tl.rows.any (fun ra =>
            (jt == .cross || oa.isEmpty) || keyMatch SemCfg.ref (keyOf ra oa) (keyOf rb ob))) tr.rows := by
        apply List.filter_congr
        intro rb _
        simp only [Function.comp_def, List.any_map]
        congr 2
        funext ra
        exact hm ra rb
      rw [this]
      apply List.map_congr_left
      intro rb _
      exact hmkR rb
    · rfl

theorem semNear_ren (Θ : Interp) (ec : EngineCfg) {ρc : ColRen} {ρt : TabRen} (hc : Injective ρc) (ht : Injective ρt)
    (env : Env) (ctes : List (String × Table)) (n : Near) :
    ∀ (cols? : Option (List String)) (force : Bool),
    semNear Θ ec (Env.rename ρc ρt env) (ctes.map (fun kv => (kv.1, kv.2.rename ρc))) (n.rename ρc ρt)
        (cols?.map (·.map ρc)) force
      = (semNear Θ ec env ctes n cols? force).map (Table.rename ρc) := by
  induction n with
  | table name terms =>
    intro cols? force
    simp only [Near.rename, semNear, env_lookup_rename ht]
    cases env.lookup name with
    | none => rfl
    | some t =>
      simp only [Option.map_some]
      cases force with
      | false => rfl
      | true =>
        simp only [if_true]
        have hcs : (cols?.map (·.map ρc)).getD (terms.map ρc) = (cols?.getD terms).map ρc := by
          cases cols? <;> rfl
        rw [hcs, isEmpty_map]
        split
        · rfl
        · have : subset ((cols?.getD terms).map ρc) (Table.rename ρc t).cols = subset (cols?.getD terms) t.cols :=
            subset_map hc _ t.cols
          rw [this]
          split
          · simp only [Except.map, Table.selectCols_rename hc]
          · rfl
  | cte name =>
    intro cols? force
    simp only [Near.rename, semNear]
    have := lookupLast_map (f := id) (fun _ _ h => h) (Table.rename ρc) ctes name
    simp only [id] at this
    rw [this]
    cases lookupLast ctes name <;> rfl
  | unary name terms agg sub subCols suffix mg deps key ih =>
    intro cols? force
    simp only [Near.rename, semNear_unary, ih]
    refine map_bind _ _ _ _ _ (fun t => ?_)
    simp only [pure, Except.pure, Except.map, unaryStep_rename Θ hc]
  | join name terms l lc ln r rc rn jt oa ob key ihl ihr =>
    intro cols? force
    simp only [Near.rename, semNear_join]
    have hl := ihl (some lc) false
    have hr := ihr (some rc) false
    simp only [Option.map_some] at hl hr
    rw [hl, hr]
    refine map_bind _ _ _ _ _ (fun tl => ?_)
    refine map_bind _ _ _ _ _ (fun tr => ?_)
    split
    · rfl
    · simp only [pure, Except.pure, Except.map, joinStep_rename hc]
  | union name terms l r cols key ihl ihr =>
    intro cols? force
    simp only [Near.rename, semNear_union]
    have hl := ihl (some cols) true
    have hr := ihr (some cols) true
    simp only [Option.map_some] at hl hr
    rw [hl, hr]
    refine map_bind _ _ _ _ _ (fun tl => ?_)
    refine map_bind _ _ _ _ _ (fun tr => ?_)
    simp only [pure, Except.pure, Except.map, outOf_rename, Table.rename, Row.renameCols, Table.mk.injEq, true_and,
      Except.ok.injEq, ← List.map_append, List.map_map]
    apply List.map_congr_left
    intro row _
    exact Row.select_rename hc row _

/-- **the nested-form SQL semantics is equivariant** (no reserved-name guard: `semNear` resolves `Near.table` in the
environment only, and `semSql` starts without common table expressions) -/
theorem semSql_ren (Θ : Interp) (ec : EngineCfg) {ρc : ColRen} {ρt : TabRen} (hc : Injective ρc) (ht : Injective ρt)
    (env : Env) (q : Near) :
    semSql Θ ec (Env.rename ρc ρt env) (q.rename ρc ρt) = (semSql Θ ec env q).map (Table.rename ρc) := by
  have := semNear_ren Θ ec hc ht env [] q none true
  simpa only [semSql, List.map_nil, Option.map_none] using this

/-- `semNear` never looks at `ops_key` -/
theorem semNear_eraseKeys (Θ : Interp) (ec : EngineCfg) (env : Env) (ctes : List (String × Table)) (n : Near) :
    ∀ (cols? : Option (List String)) (force : Bool),
    semNear Θ ec env ctes n.eraseKeys cols? force = semNear Θ ec env ctes n cols? force := by
  induction n with
  | table name terms => intro _ _; rfl
  | cte name => intro _ _; rfl
  | unary name terms agg sub subCols suffix mg deps key ih =>
    intro cols? force
    simp only [Near.eraseKeys, semNear, ih]
  | join name terms l lc ln r rc rn jt oa ob key ihl ihr =>
    intro cols? force
    simp only [Near.eraseKeys, semNear, ihl, ihr]
  | union name terms l r cols key ihl ihr =>
    intro cols? force
    simp only [Near.eraseKeys, semNear, ihl, ihr]

theorem semSql_eraseKeys (Θ : Interp) (ec : EngineCfg) (env : Env) (q : Near) :
    semSql Θ ec env q.eraseKeys = semSql Θ ec env q := semNear_eraseKeys Θ ec env [] q none true

theorem semSql_congr_eraseKeys (Θ : Interp) (ec : EngineCfg) (env : Env) {q q' : Near}
    (h : q.eraseKeys = q'.eraseKeys) : semSql Θ ec env q = semSql Θ ec env q' := by
  rw [← semSql_eraseKeys Θ ec env q, h, semSql_eraseKeys]

end Ren
end DAVerif
