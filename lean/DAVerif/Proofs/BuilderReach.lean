import DAVerif.Proofs.BuilderRules
/-
C26 – what a successful builder call returns: a well-formed tree (`WF` is preserved) whose declared columns are
the documented column list of the step (`Rules26.resultCols`).
-/
namespace DAVerif
open Rules26

set_option linter.unusedSimpArgs false

theorem ok?_bind_ok {α : Type} {c : Bool} {e : Err} {f : Unit → Except Err α} {q : α} :
    (ok? c e >>= f) = .ok q ↔ c = true ∧ f () = .ok q := by
  cases c <;> simp [ok?, bind, Except.bind]

theorem ok?_ok {c : Bool} {e : Err} {u : Unit} : ok? c e = .ok u ↔ c = true := by
  cases c <;> simp [ok?]

theorem pure_ok {α : Type} {a q : α} : (pure a : Except Err α) = .ok q ↔ a = q := by
  simp [pure, Except.pure]

/-! ### node constructors -/

theorem mkExtend_ok {src : Ops} {ops : Assign} {partition : PartArg} {order reverse : List String} {q : Ops}
    (h : mkExtend src ops partition order reverse = .ok q) :
    q = .extend src ops (partCols partition) order reverse (windowedSituation ops partition order) ∧
    ExtOK src.cols ops (partCols partition) order reverse (windowedSituation ops partition order) := by
  rw [mkExtend_eq] at h
  simp only [ok?_bind_ok, pure_ok, subset_iff, disjoint_iff, nodupB_iff] at h
  obtain ⟨c1, _, _, _, c5, c6, c7, c8, c9, rfl⟩ := h
  refine ⟨rfl, ?_, c5, c6, c7, ?_, ?_, ?_⟩
  · intro c hc
    obtain ⟨kv, hkv, hc⟩ := List.mem_flatMap.mp hc
    exact c1 c (mem_colsUsedOps.mpr ⟨kv, hkv, hc⟩)
  · intro k hk
    have := c8 k hk
    simp only [List.append_assoc, List.mem_append, not_or] at this
    exact ⟨this.1, this.2.1⟩
  · intro hw
    rw [impliesWindowed_eq] at hw
    simp only [Bool.or_eq_false_iff, Bool.not_eq_eq_eq_not, Bool.not_false, List.isEmpty_iff] at hw
    obtain ⟨⟨hi, hpw⟩, ho⟩ := hw
    refine ⟨hi, ?_, ho⟩
    cases partition with
    | none => rfl
    | one => simp at hpw
    | cols cs => simpa [partCols] using hpw
  · intro hw kv hkv
    rw [hw] at c9
    simp only [Bool.not_true, Bool.false_or, List.all_eq_true] at c9
    rw [windowOpOk_eq]
    exact c9 kv hkv

theorem bind_ok {α β : Type} {m : Except Err α} {f : α → Except Err β} {q : β} :
    (m >>= f) = .ok q ↔ ∃ a, m = .ok a ∧ f a = .ok q := by
  cases m <;> simp [bind, Except.bind]

theorem parseAssignments_ok {cols : List String} {ops parsed : Assign} (h : parseAssignments cols ops = .ok parsed) :
    parsed = ops ∧ (keys ops).Nodup := by
  rw [parseAssignments_eq] at h
  split at h
  · rename_i h1
    split at h
    · split at h
      · simp only [Except.ok.injEq] at h
        exact ⟨h.symm, by simpa using h1⟩
      · exact absurd h (by simp)
    · exact absurd h (by simp)
  · exact absurd h (by simp)

/-- which node `extend_parsed_` builds on a node that is not a skipped `order_rows`: the step's own
`ExtendNode` over it, or a merged `ExtendNode` over its source -/
theorem extendTop_ok {t : Ops} {ops : Assign} {partition : PartArg} {order reverse : List String} {q : Ops}
    (h : extendTop t ops partition order reverse = .ok q) :
    mkExtend t ops partition order reverse = .ok q ∨
    ∃ src ops1 part1 order1 reverse1 windowed1 newOps,
      t = .extend src ops1 part1 order1 reverse1 windowed1 ∧ tryMergeOps ops1 ops = some newOps ∧
      mkExtend src newOps partition order reverse = .ok q := by
  cases t with
  | extend src ops1 part1 order1 reverse1 windowed1 =>
    simp only [extendTop, extendMerge] at h
    split at h
    · cases hm : tryMergeOps ops1 ops with
      | some newOps =>
        rw [hm] at h
        exact Or.inr ⟨src, ops1, part1, order1, reverse1, windowed1, newOps, rfl, hm, h⟩
      | none => rw [hm] at h; exact Or.inl h
    · exact Or.inl h
  | _ => exact Or.inl h

theorem extend_cols_mem (xs ys zs : List String) (x : String) :
    x ∈ appendNew (appendNew xs ys) zs ↔ x ∈ xs ∨ x ∈ ys ∨ x ∈ zs := by
  rw [mem_appendNew, mem_appendNew, or_assoc]

/-- a successful `extend`: the result is well formed; its columns are the old columns and the new names – in
the documented order (old columns, then new names in order) unless a merge moved a re-assigned new column -/
theorem build_extend_ok {p : Ops} (hp : WF p) {ops : Assign} {partition : PartArg} {order reverse : List String}
    {q : Ops} (h : build p (.extend ops partition order reverse) = .ok q) :
    WF q ∧ q.cols.Perm (resultCols p.cols (.extend ops partition order reverse)) ∧
    (((∀ k ∈ keys ops, k ∉ p.cols) ∨ (∀ src o a b c w, strip p ≠ .extend src o a b c w)) →
      q.cols = resultCols p.cols (.extend ops partition order reverse)) := by
  unfold build at h
  simp only [] at h
  obtain ⟨parsed, hpa, h2⟩ := bind_ok.mp h
  clear h
  obtain ⟨rfl, hnd⟩ := parseAssignments_ok hpa
  have h := h2
  clear h2
  by_cases hne : parsed.isEmpty = true
  · have : parsed = [] := by simpa using hne
    subst this
    rw [extendParsed.eq_def] at h
    simp only [List.isEmpty_nil, ↓reduceIte, pure, Except.pure, Except.ok.injEq] at h
    subst h
    simp [resultCols, hp]
  have hne' : parsed.isEmpty = false := by simpa using hne
  rw [extendParsed_strip _ _ _ _ _ hne'] at h
  obtain ⟨_, _, h⟩ := bind_ok.mp h
  have hrc : resultCols p.cols (.extend parsed partition order reverse) = appendNew (strip p).cols (keys parsed) := by
    rw [strip_cols]; simp only [resultCols]; rw [appendNew_eq_filter hnd]
  have hq := hp.stripped
  rcases extendTop_ok h with h | ⟨src, ops1, part1, order1, reverse1, windowed1, newOps, ht, hm, h⟩
  · obtain ⟨rfl, hE⟩ := mkExtend_ok h
    refine ⟨⟨hq, hE⟩, ?_, ?_⟩
    · rw [hrc]; exact List.Perm.refl _
    · intro _; rw [hrc]; rfl
  · obtain ⟨rfl, hE⟩ := mkExtend_ok h
    rw [ht] at hq hrc
    have hsrc : WF src := hq.1
    refine ⟨⟨hsrc, hE⟩, ?_, ?_⟩
    · rw [hrc]
      simp only [Ops.cols]
      apply (List.perm_ext_iff_of_nodup (appendNew_nodup hsrc.cols_nodup)
        (appendNew_nodup (appendNew_nodup hsrc.cols_nodup))).mpr
      intro x
      rw [extend_cols_mem, mem_appendNew]
      obtain ⟨⟨f, hf⟩, _⟩ := tryMergeOps_some hm
      have hk := (tryMergeOps_keys hm).1
      constructor
      · rintro (hx | hx)
        · exact Or.inl hx
        · rw [hf] at hx
          simp only [keys, List.map_append, List.mem_append, List.mem_map, List.mem_filter] at hx
          rcases hx with ⟨kv, ⟨hkv, _⟩, rfl⟩ | hx
          · exact Or.inr (Or.inl (List.mem_map.mpr ⟨kv, hkv, rfl⟩))
          · exact Or.inr (Or.inr (by simpa [keys] using hx))
      · rintro (hx | hx | hx)
        · exact Or.inl hx
        · exact Or.inr (hk x hx)
        · right
          rw [hf]
          simp only [keys, List.map_append, List.mem_append]
          exact Or.inr hx
    · rintro (hfresh | hnot)
      · have hno : ∀ k ∈ keys parsed, k ∉ keys ops1 := by
          intro k hk hk1
          apply hfresh k hk
          rw [← strip_cols, ht]
          simp only [Ops.cols]
          exact mem_appendNew.mpr (Or.inr hk1)
        have := (tryMergeOps_keys hm).2 hno
        subst this
        rw [hrc]
        simp only [Ops.cols, keys, List.map_append, appendNew_append]
      · exact absurd ht (hnot _ _ _ _ _ _)

theorem build_project_ok {p : Ops} (hp : WF p) {ops : Assign} {group : List String} {q : Ops}
    (h : build p (.project ops group) = .ok q) :
    WF q ∧ q.cols = resultCols p.cols (.project ops group) := by
  unfold build at h
  simp only [] at h
  obtain ⟨parsed, hpa, h2⟩ := bind_ok.mp h
  clear h
  obtain ⟨rfl, hnd⟩ := parseAssignments_ok hpa
  rw [projectParsed_strip] at h2
  obtain ⟨_, hpre, h⟩ := bind_ok.mp h2
  simp only [projectPre, workColGroup, bind_assoc, ok?_bind_ok, ok?_ok, pure_ok, disjoint_iff, nodupB_iff] at hpre
  obtain ⟨_, _, _, hdis⟩ := hpre
  simp only [mkProject, forIn_ok?, ok?_bind_ok, pure_ok, nodupB_iff] at h
  obtain ⟨_, hg, hne, _, rfl⟩ := h
  refine ⟨⟨hp.stripped, hg, ?_⟩, ?_⟩
  · cases group with
    | nil =>
      right
      intro ho
      subst ho
      simp [appendNew] at hne
    | cons g gs => left; simp
  · simp only [Ops.cols, resultCols]
    rw [appendNew_eq_filter hnd]
    congr 1
    apply List.filter_eq_self.mpr
    intro k hk
    have := hdis k hk
    simpa using this

theorem build_selectCols_ok {p : Ops} (hp : WF p) {cs : List String} {q : Ops}
    (h : selectColsB p cs = .ok q) : WF q ∧ q.cols = cs := by
  fun_induction selectColsB p cs with
  | case1 src _ _ cs ih => exact ih hp h
  | case2 src cs0 cs ih =>
    have hw : WF src ∧ _ := hp
    exact ih hw.1 (ok?_bind_ok.mp h).2
  | case3 src dels cs ih =>
    have hw : WF src ∧ _ := hp
    exact ih hw.1 (ok?_bind_ok.mp h).2
  | case4 self cs h1 h2 h3 =>
    simp only [mkSelectCols, ok?_bind_ok, subset_iff, nodupB_iff] at h
    obtain ⟨hne, hsub, hnd, h⟩ := h
    have hne' : cs ≠ [] := by intro he; subst he; simp at hne
    simp only [pure_ok] at h
    subst h
    exact ⟨⟨hp, hne', hnd, hsub⟩, rfl⟩

/-- a successful builder call other than `extend`: the result is well formed and its declared columns are the
documented column list of the step -/
theorem build_ok_other {p : Ops} (hp : WF p) {s : Step} (hb : ∀ b ∈ stepArgs s, WF b)
    (hs : ∀ ops pa o r, s ≠ .extend ops pa o r) {q : Ops} (h : build p s = .ok q) :
    WF q ∧ q.cols = resultCols p.cols s := by
  cases s with
  | extend ops pa o r => exact absurd rfl (hs ops pa o r)
  | project ops group => exact build_project_ok hp h
  | selectRows e =>
    cases e with
    | none => simp only [build, Except.ok.injEq] at h; subst h; exact ⟨hp, rfl⟩
    | some e =>
      simp only [build, selectRowsB_eq] at h
      obtain ⟨_, _, h⟩ := bind_ok.mp h
      simp only [Except.ok.injEq] at h
      subst h
      exact ⟨hp.stripped, by simp [Ops.cols, resultCols, strip_cols]⟩
  | selectCols cs =>
    simp only [build, ok?_bind_ok] at h
    exact build_selectCols_ok hp h.2
  | dropCols cs =>
    simp only [build] at h
    split at h
    · rename_i he
      simp only [Except.ok.injEq] at h; subst h
      have : cs = [] := by simpa using he
      subst this
      refine ⟨hp, ?_⟩
      simp only [resultCols]
      exact (List.filter_eq_self.mpr (fun _ _ => by simp)).symm
    · simp only [dropColsB_eq, mkDropCols, ok?_bind_ok, pure_ok] at h
      obtain ⟨_, hne, rfl⟩ := h
      refine ⟨⟨hp.stripped, ?_⟩, by simp [Ops.cols, resultCols, strip_cols]⟩
      intro he; rw [he] at hne; simp at hne
  | order cs rev lim =>
    simp only [build] at h
    split at h
    · simp only [Except.ok.injEq] at h; subst h; exact ⟨hp, rfl⟩
    · simp only [orderB_eq, mkOrder, ok?_bind_ok, pure_ok] at h
      obtain ⟨_, _, rfl⟩ := h
      exact ⟨hp.stripped, by simp [Ops.cols, resultCols, strip_cols]⟩
  | rename m =>
    simp only [build] at h
    split at h
    · rename_i he
      simp only [Except.ok.injEq] at h; subst h
      exact ⟨hp, by simp [resultCols, he]⟩
    · rename_i he
      simp only [renameB_eq, mkRename, ok?_bind_ok, pure_ok, nodupB_iff] at h
      obtain ⟨_, _, hnd, rfl⟩ := h
      refine ⟨⟨hp.stripped, hnd⟩, ?_⟩
      rw [rename_cols_eq, strip_cols]
      simp [resultCols, he]
  | mapCols m =>
    simp only [build] at h
    split at h
    · rename_i he
      simp only [Except.ok.injEq] at h; subst h
      exact ⟨hp, by simp [resultCols, he]⟩
    · rename_i he
      simp only [mapColsB_eq, mkMapCols, ok?_bind_ok, pure_ok, nodupB_iff] at h
      obtain ⟨_, _, hne, hnd, rfl⟩ := h
      refine ⟨⟨hp.stripped, ?_, hnd⟩, ?_⟩
      · intro he'; rw [he'] at hne; simp at hne
      · rw [mapCols_cols_eq, strip_cols]
        simp [resultCols, he]
  | join b onA onB jt check =>
    have hbw : WF b := hb b (by simp [stepArgs])
    simp only [build, joinB_eq, mkJoin, ok?_bind_ok] at h
    obtain ⟨_, _, _, _, h⟩ := h
    have hq : ∃ t, q = .join (strip p) b onA onB t := by
      cases check
      · simp only [Bool.false_eq_true, ↓reduceIte] at h
        split at h
        · exact absurd h (by simp [throw, throwThe, MonadExceptOf.throw])
        · simp only [ok?_bind_ok, pure_ok] at h
          exact ⟨_, h.2.symm⟩
      · simp only [↓reduceIte, ok?_bind_ok] at h
        obtain ⟨_, h⟩ := h
        split at h
        · exact absurd h (by simp [throw, throwThe, MonadExceptOf.throw])
        · simp only [ok?_bind_ok, pure_ok] at h
          exact ⟨_, h.2.symm⟩
    obtain ⟨t, rfl⟩ := hq
    refine ⟨⟨hp.stripped, hbw⟩, ?_⟩
    simp only [Ops.cols, resultCols, strip_cols]
    have hlen : ((appendNew p.cols b.cols).length == p.cols.length) = b.cols.all (fun c => p.cols.contains c) := by
      rw [appendNew_eq_filter hbw.cols_nodup]
      rw [Bool.eq_iff_iff]
      simp only [List.length_append, beq_iff_eq, Nat.add_eq_left, List.length_eq_zero_iff, List.filter_eq_nil_iff,
        Bool.not_eq_eq_eq_not, Bool.not_true, List.contains_eq_mem, decide_eq_false_iff_not, Decidable.not_not,
        List.all_eq_true, decide_eq_true_eq]
    have hset : (b.cols.all (fun c => (appendNew p.cols b.cols).contains c)
          && (appendNew p.cols b.cols).all (fun c => b.cols.contains c))
        = p.cols.all (fun c => b.cols.contains c) := by
      rw [Bool.eq_iff_iff]
      simp only [Bool.and_eq_true, List.all_eq_true, List.contains_eq_mem, decide_eq_true_eq, mem_appendNew]
      constructor
      · rintro ⟨_, h2⟩ c hc; exact h2 c (Or.inl hc)
      · intro h2
        exact ⟨fun c hc => Or.inr hc, fun c hc => hc.elim (h2 c) id⟩
    rw [hlen, hset, appendNew_eq_filter hbw.cols_nodup]
  | concat b idc an bn =>
    cases b with
    | none => simp only [build, Except.ok.injEq] at h; subst h; exact ⟨hp, rfl⟩
    | some b =>
      have hbw : WF b := hb b (by simp [stepArgs])
      simp only [build, concatB_eq, mkConcat, ok?_bind_ok] at h
      obtain ⟨_, _, h⟩ := h
      cases idc with
      | none =>
        simp only [pure_bind, pure_ok] at h
        subst h
        exact ⟨⟨hp.stripped, hbw, by simp⟩, by simp [Ops.cols, resultCols, strip_cols]⟩
      | some c =>
        simp only [ok?_bind_ok, pure_ok] at h
        obtain ⟨hc, rfl⟩ := h
        refine ⟨⟨hp.stripped, hbw, ?_⟩, by simp [Ops.cols, resultCols, strip_cols]⟩
        intro c' hc'
        simp only [Option.some.injEq] at hc'
        subst hc'
        simpa using hc
  | convert rm =>
    cases rm with
    | none => simp only [build, Except.ok.injEq] at h; subst h; exact ⟨hp, rfl⟩
    | some rm =>
      simp only [build, convertB_eq, mkConvert, ok?_bind_ok, pure_ok, nodupB_iff] at h
      obtain ⟨_, hne, hnd, rfl⟩ := h
      refine ⟨⟨hp.stripped, ?_, hnd⟩, rfl⟩
      intro he; rw [he] at hne; simp at hne

end DAVerif
