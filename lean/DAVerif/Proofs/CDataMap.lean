import DAVerif.Proofs.CDataCollapse
/-!
Helper lemmas for C17, part 4: table equivalence, `RecordMap.transform` in terms of the record view, `inverse`.
-/
namespace DAVerif.CData
open List

/-! ### two tables carrying the same records are the same table -/

theorem equiv_of_perm_proj {t t' : Table} {cs : List String} (h1 : t.cols.Perm cs) (h2 : t'.cols.Perm cs)
    (h : (t.rows.map (proj cs)).Perm (t'.rows.map (proj cs))) : t ≈ₜ t' := by
  refine ⟨h1.trans h2.symm, ?_⟩
  have := h.map (proj t.cols)
  rw [map_map, map_map] at this
  refine Perm.trans (Perm.of_eq ?_) (this.trans (Perm.of_eq ?_))
  · exact map_congr_left fun r _ => (proj_proj r fun c hc => h1.mem_iff.1 hc).symm
  · exact map_congr_left fun r _ => proj_proj r fun c hc => h1.mem_iff.1 hc

theorem equiv_of_isRows {s : Spec} {U : List Row} {t t' : Table} (h : IsRows s U t) (h' : IsRows s U t')
    (hc : t.cols.Perm s.rowColumns) (hc' : t'.cols.Perm s.rowColumns) : t ≈ₜ t' :=
  equiv_of_perm_proj hc hc' (h.2.trans h'.2.symm)

theorem equiv_of_isBlocks {s : Spec} {U : List Row} {t t' : Table} (h : IsBlocks s U t) (h' : IsBlocks s U t')
    (hc : t.cols.Perm s.blockColumns) (hc' : t'.cols.Perm s.blockColumns) : t ≈ₜ t' :=
  equiv_of_perm_proj hc hc' (h.2.trans h'.2.symm)

theorem isRows_self {s : Spec} {t : Table} (h : t.cols.Perm s.rowColumns) : IsRows s t.rows t :=
  ⟨fun _ hc => h.symm.mem_iff.1 hc, Perm.refl _⟩

/-! ### record keys as a set -/

theorem RecKeys.of_sameSet {ks ks' : List String} {U : List Row} (h : RecKeys ks U) (h1 : ∀ k ∈ ks', k ∈ ks)
    (h2 : ∀ k ∈ ks, k ∈ ks') : RecKeys ks' U := by
  refine ⟨fun r hr => noNull_keyOf_sub h1 (h.1 r hr), ?_⟩
  apply nodup_map_of_inj (nodup_of_nodup_map _ h.2)
  intro a ha b hb e
  exact inj_of_nodup_map h.2 ha hb (keyOf_sub h2 e)

theorem IsRows.mono {s s' : Spec} {U : List Row} {t : Table} (h : IsRows s U t)
    (hsub : ∀ c ∈ s'.rowColumns, c ∈ s.rowColumns) : IsRows s' U t := by
  refine ⟨fun _ hc => h.1 _ (hsub _ hc), ?_⟩
  have := h.2.map (proj s'.rowColumns)
  rw [map_map, map_map] at this
  refine Perm.trans (Perm.of_eq ?_) (this.trans (Perm.of_eq ?_))
  · exact map_congr_left fun r _ => (proj_proj r hsub).symm
  · exact map_congr_left fun r _ => proj_proj r hsub

/-! ### RecordMap -/

theorem normSide_good {s : Spec} (g : s.Good) : normSide (some s) true = .ok (some s) := by
  unfold normSide
  have h2 : ¬ s.ct.rows.length ≤ 1 := by have := g.multi; omega
  simp [g.strict, h2]

/-- what `RecordMap.__init__` checked for a two-sided strict map between good specifications -/
theorem mkMap_both_inv {a b : Spec} (ga : a.Good) (gb : b.Good) {m : RecordMap}
    (h : mkMap (some a) (some b) true = .ok m) :
    m = ⟨some a, some b, true⟩ ∧ (∀ k ∈ b.recordKeys, k ∈ a.recordKeys) ∧ (∀ k ∈ a.recordKeys, k ∈ b.recordKeys) ∧
    (∀ k ∈ b.contentKeys, k ∈ a.contentKeys) := by
  unfold mkMap at h
  rw [normSide_good ga, normSide_good gb] at h
  simp only at h
  split at h
  · cases h
  split at h
  · cases h
  split at h
  · cases h
  split at h
  · cases h
  rename_i _ h1 h2 h3
  simp only [true_and, Decidable.not_not] at h3
  simp only [Decidable.not_not] at h1 h2
  cases h
  exact ⟨rfl, h1, h3, h2⟩

theorem mkMap_both_ok {a b : Spec} (ga : a.Good) (gb : b.Good)
    (h1 : ∀ k ∈ b.recordKeys, k ∈ a.recordKeys) (h2 : ∀ k ∈ a.recordKeys, k ∈ b.recordKeys)
    (h3 : ∀ k ∈ b.contentKeys, k ∈ a.contentKeys) :
    mkMap (some a) (some b) true = .ok ⟨some a, some b, true⟩ := by
  unfold mkMap
  rw [normSide_good ga, normSide_good gb]
  have hn : a.contentKeys.Nodup := by rw [contentKeys_eq ga.facts]; exact ga.facts.content_nodup
  have e1 : ¬ ∃ x, x ∈ b.recordKeys ∧ ¬ x ∈ a.recordKeys := fun ⟨x, hx, hx'⟩ => hx' (h1 x hx)
  have e2 : ¬ ∃ x, x ∈ b.contentKeys ∧ ¬ x ∈ a.contentKeys := fun ⟨x, hx, hx'⟩ => hx' (h3 x hx)
  have e3 : ¬ ∃ x, x ∈ a.recordKeys ∧ ¬ x ∈ b.recordKeys := fun ⟨x, hx, hx'⟩ => hx' (h2 x hx)
  simp [hn, e1, e2, e3]

theorem mkMap_in_ok {a : Spec} (ga : a.Good) : mkMap (some a) none true = .ok ⟨some a, none, true⟩ := by
  unfold mkMap
  rw [normSide_good ga]
  have hn : a.contentKeys.Nodup := by rw [contentKeys_eq ga.facts]; exact ga.facts.content_nodup
  simp [hn, normSide]

theorem mkMap_out_ok' {b : Spec} (gb : b.Good) : mkMap none (some b) true = .ok ⟨none, some b, true⟩ := by
  unfold mkMap
  rw [normSide_good gb]
  simp [normSide]

/-- the records a table carries on the incoming side of a map -/
def InRep (m : RecordMap) (U : List Row) (t : Table) : Prop :=
  match m.blocksIn, m.blocksOut with
  | some a, _ => IsBlocks a U t
  | none, some b => IsRows b U t
  | none, none => False

/-- the records a table carries on the outgoing side of a map (with exactly the outgoing columns) -/
def OutRep (m : RecordMap) (U : List Row) (t : Table) : Prop :=
  match m.blocksIn, m.blocksOut with
  | _, some b => IsBlocks b U t ∧ t.cols.Perm b.blockColumns
  | some a, none => IsRows a U t ∧ t.cols.Perm a.rowColumns
  | none, none => False

theorem transform_of_cols {m : RecordMap} {x : Table} (h : ∀ c ∈ m.columnsNeeded, c ∈ x.cols) :
    m.transform x =
      match (match m.blocksIn with | some a => blocksToRows a x | none => .ok x) with
      | .error e => .error e
      | .ok y => match m.blocksOut with
        | some b => rowsToBlocks b y
        | none => .ok y := by
  unfold RecordMap.transform
  split
  · rename_i hn; exact absurd h hn
  · rfl

theorem transform_spec {m : RecordMap} (gm : m.Good) {U : List Row} (hU : RecKeys m.recordKeys U) {t : Table}
    (ht : InRep m U t) : ∃ r, m.transform t = .ok r ∧ OutRep m U r := by
  obtain ⟨bi, bo, st⟩ := m
  have hst : st = true := gm.strict
  subst hst
  cases bi with
  | none =>
    cases bo with
    | none => exact absurd ht (by simp [InRep])
    | some b =>
      have gb := gm.goodOut b rfl
      simp only [InRep] at ht
      simp only [RecordMap.recordKeys] at hU
      obtain ⟨r, hr, h1, h2⟩ := rowsToBlocks_spec gb hU ht
      refine ⟨r, ?_, h1, h2⟩
      rw [transform_of_cols (by simpa [RecordMap.columnsNeeded] using ht.1)]
      exact hr
  | some a =>
    have ga := gm.goodIn a rfl
    simp only [InRep] at ht
    simp only [RecordMap.recordKeys] at hU
    obtain ⟨r, hr, h1, h2⟩ := blocksToRows_spec ga hU ht
    cases bo with
    | none =>
      refine ⟨r, ?_, h1, h2⟩
      rw [transform_of_cols (by simpa [RecordMap.columnsNeeded] using ht.1)]
      simp only [hr]
    | some b =>
      have gb := gm.goodOut b rfl
      obtain ⟨_, k1, k2, k3⟩ := mkMap_both_inv ga gb gm.valid
      have hsub : ∀ c ∈ b.rowColumns, c ∈ a.rowColumns := by
        intro c hc
        rcases mem_rowColumns.1 hc with h | h
        · exact mem_rowColumns.2 (Or.inl (k1 c h))
        · exact mem_rowColumns.2 (Or.inr (k3 c h))
      obtain ⟨r2, hr2, h3, h4⟩ := rowsToBlocks_spec gb (hU.of_sameSet k1 k2) (h1.mono hsub)
      refine ⟨r2, ?_, h3, h4⟩
      rw [transform_of_cols (by simpa [RecordMap.columnsNeeded] using ht.1)]
      simp only [hr]
      exact hr2

/-- a conforming table carries a list of records with proper keys -/
theorem conforms_rep {m : RecordMap} (gm : m.Good) {t : Table} (ht : Conforms m t) :
    ∃ U, RecKeys m.recordKeys U ∧ InRep m U t := by
  obtain ⟨bi, bo, st⟩ := m
  cases bi with
  | none =>
    cases bo with
    | none => exact absurd ht (by simp [Conforms])
    | some b =>
      simp only [Conforms] at ht
      exact ⟨t.rows, ht.2, isRows_self ht.1⟩
  | some a =>
    simp only [Conforms] at ht
    have := collapse_spec (gm.goodIn a rfl) ht
    exact ⟨_, this.1, this.2⟩

/-- the original (conforming) table against a table carrying the same records in the incoming form -/
theorem conforms_equiv {m mi : RecordMap} {U : List Row} {t v : Table} (ht : Conforms m t) (hrep : InRep m U t)
    (hio : mi.blocksIn = m.blocksOut ∧ mi.blocksOut = m.blocksIn) (hv : OutRep mi U v) : v ≈ₜ t := by
  obtain ⟨bi, bo, st⟩ := m
  unfold OutRep at hv
  rw [hio.1, hio.2] at hv
  simp only at hv
  cases bi with
  | none =>
    cases bo with
    | none => exact absurd ht (by simp [Conforms])
    | some b =>
      simp only [Conforms] at ht
      simp only [InRep] at hrep
      exact equiv_of_isRows hv.1 hrep hv.2 ht.1
  | some a =>
    simp only [Conforms] at ht
    simp only [InRep] at hrep
    cases bo with
    | none =>
      exact equiv_of_isBlocks hv.1 hrep hv.2 ht.1
    | some b =>
      exact equiv_of_isBlocks hv.1 hrep hv.2 ht.1

theorem inverse_spec {m mi : RecordMap} (gm : m.Good) (h : m.inverse = .ok mi) :
    mi.Good ∧ mi.blocksIn = m.blocksOut ∧ mi.blocksOut = m.blocksIn ∧
    (∀ k ∈ m.recordKeys, k ∈ mi.recordKeys) ∧ (∀ k ∈ mi.recordKeys, k ∈ m.recordKeys) := by
  obtain ⟨bi, bo, st⟩ := m
  have hst : st = true := gm.strict
  subst hst
  unfold RecordMap.inverse at h
  simp only at h
  cases bi with
  | none =>
    cases bo with
    | none =>
      have := gm.valid
      simp [mkMap, normSide] at this
    | some b =>
      have gb := gm.goodOut b rfl
      rw [mkMap_in_ok gb] at h
      cases h
      refine ⟨⟨mkMap_in_ok gb, rfl, ?_, ?_⟩, rfl, rfl, ?_, ?_⟩
      · intro a ha; cases ha; exact gb
      · intro a ha; cases ha
      · intro k hk; exact hk
      · intro k hk; exact hk
  | some a =>
    have ga := gm.goodIn a rfl
    cases bo with
    | none =>
      rw [mkMap_out_ok' ga] at h
      cases h
      refine ⟨⟨mkMap_out_ok' ga, rfl, ?_, ?_⟩, rfl, rfl, ?_, ?_⟩
      · intro a ha; cases ha
      · intro b hb; cases hb; exact ga
      · intro k hk; exact hk
      · intro k hk; exact hk
    | some b =>
      have gb := gm.goodOut b rfl
      obtain ⟨_, k1, k2, k3⟩ := mkMap_both_inv ga gb gm.valid
      obtain ⟨e, j1, j2, j3⟩ := mkMap_both_inv gb ga h
      subst e
      refine ⟨⟨h, rfl, ?_, ?_⟩, rfl, rfl, ?_, ?_⟩
      · intro x hx; cases hx; exact gb
      · intro x hx; cases hx; exact ga
      · intro k hk; exact k2 k hk
      · intro k hk; exact k1 k hk

end DAVerif.CData
