import DAVerif.Proofs.Merge
/-!
`Ops.valid`: the structural invariant of the pipelines the builders construct – at every node the conditions
its constructor (and the builder in front of it) checked.  `Reachable p → p.valid` (in `Props/C06.lean`);
everything C06 / C07 need about reachable pipelines is derived from `valid`.
-/
namespace DAVerif

/-- the constructor checks of a `map_columns` node, from the node's own fields (`remap`, `dels`) -/
def mapNodeChk (sc : List String) (remap : List (String × String)) (dels : List String) : Except Err Unit := do
  ok? (subset (remap.map (·.1) ++ dels) sc) .valueError
  ok? (((sc.filter (fun c => !(inter (remap.map (·.2)) (remap.map (·.1) ++ dels)).contains c)).filter
    (fun c => (remap.map (·.2)).contains c)).isEmpty) .valueError
  ok? (!(mapColsCols sc remap dels).isEmpty) .assertionError
  ok? (nodupB (mapColsCols sc remap dels)) .assertionError

namespace Ops

/-- the conditions checked when the node was constructed -/
def nodeOk : Ops → Bool
  | .table _ cs => nodupB cs
  | .extend src ops part od rv w =>
      !ops.isEmpty && subset (Term.colsUsedOps ops) src.cols && nodupB part && nodupB od && nodupB rv
      && subset part src.cols && subset od src.cols && subset rv od
      && disjoint (ops.map (·.1)) (part ++ od ++ rv) && (part.isEmpty || disjoint part od)
      && (!w || ops.all (fun kv => windowOpOk src.cols (!od.isEmpty) kv.2))
      && (!(impliesWindowed ops || !part.isEmpty || !od.isEmpty) || w)
  | .project src ops g =>
      (projectChk src.cols ops g).isOk && !(ops.isEmpty && g.isEmpty) && disjoint (ops.map (·.1)) g
  | .selectRows _ _ => true
  | .selectCols src cs => (selectChk src.cols cs).isOk
  | .dropCols src ds => !ds.isEmpty && (dropChk src.cols ds).isOk
  | .order src cs rv lim => !(cs.isEmpty && lim.isNone) && (orderChk src.cols cs rv).isOk
  | .rename src m => !m.isEmpty && (renameChk src.cols m).isOk
  | .mapCols src m ds => !(m.isEmpty && ds.isEmpty) && (mapNodeChk src.cols m ds).isOk
  | .join a b oa ob jt =>
      tablesConsistent a.tables b.tables && oa.length == ob.length && subset oa a.cols && subset ob b.cols
      && !(jt == .cross && !oa.isEmpty)
  | .concat a b idc _ _ => (concatChk a.cols b.cols a.tables b.tables idc).isOk
  | .convert src rm => (convertChk src.cols rm).isOk

/-- `nodeOk` at every node -/
def valid : Ops → Bool
  | n@(.table _ _) => n.nodeOk
  | n@(.extend s _ _ _ _ _) | n@(.project s _ _) | n@(.selectRows s _) | n@(.selectCols s _)
  | n@(.dropCols s _) | n@(.order s _ _ _) | n@(.rename s _) | n@(.mapCols s _ _) | n@(.convert s _) =>
    n.nodeOk && s.valid
  | n@(.join a b _ _ _) | n@(.concat a b _ _ _) => n.nodeOk && a.valid && b.valid

theorem valid_nodeOk : ∀ {p : Ops}, p.valid = true → p.nodeOk = true
  | .table .., h => h
  | .extend .., h | .project .., h | .selectRows .., h | .selectCols .., h | .dropCols .., h
  | .order .., h | .rename .., h | .mapCols .., h | .convert .., h => by
    simp only [valid, Bool.and_eq_true] at h; exact h.1
  | .join .., h | .concat .., h => by
    simp only [valid, Bool.and_eq_true] at h; exact h.1.1

theorem valid_srcA : ∀ {p : Ops}, p.valid = true → p.srcA.valid = true
  | .table .., h => h
  | .extend .., h | .project .., h | .selectRows .., h | .selectCols .., h | .dropCols .., h
  | .order .., h | .rename .., h | .mapCols .., h | .convert .., h => by
    simp only [valid, Bool.and_eq_true] at h; exact h.2
  | .join .., h | .concat .., h => by
    simp only [valid, Bool.and_eq_true] at h; exact h.1.2

theorem valid_strip : ∀ {p : Ops}, p.valid = true → p.strip.valid = true
  | .order src _ _ none, h => by
    simp only [strip]
    exact valid_strip (valid_srcA (p := .order src _ _ none) h)
  | .order _ _ _ (some _), h => h
  | .table .., h | .extend .., h | .project .., h | .selectRows .., h | .selectCols .., h | .dropCols .., h
  | .rename .., h | .mapCols .., h | .join .., h | .concat .., h | .convert .., h => h

theorem valid_selectBase : ∀ {p : Ops}, p.valid = true → p.selectBase.valid = true
  | .order src _ _ none, h => by
    simp only [selectBase]
    exact valid_selectBase (valid_srcA (p := .order src _ _ none) h)
  | .selectCols src _, h => by
    simp only [selectBase]
    exact valid_selectBase (valid_srcA (p := .selectCols src _) h)
  | .dropCols src _, h => by
    simp only [selectBase]
    exact valid_selectBase (valid_srcA (p := .dropCols src _) h)
  | .order _ _ _ (some _), h => h
  | .table .., h | .extend .., h | .project .., h | .selectRows .., h
  | .rename .., h | .mapCols .., h | .join .., h | .concat .., h | .convert .., h => h

end Ops

theorem isOk_iff {α : Type} {x : Except Err α} : x.isOk = true ↔ ∃ a, x = .ok a := by
  cases x <;> simp [Except.isOk, Except.toBool]

theorem isOk_unit {x : Except Err Unit} : x.isOk = true ↔ x = .ok () := by
  cases x <;> simp [Except.isOk, Except.toBool]

theorem nodup_map_getD_of_nodupB {l : List String} (h : nodupB l = true) : l.Nodup := nodupB_iffC.mp h

/-- **Every node of a valid pipeline declares pairwise different column names.** -/
theorem Ops.valid_cols_nodup : ∀ {p : Ops}, p.valid = true → p.cols.Nodup := by
  intro p
  induction p with
  | table n cs => intro h; exact nodupB_iffC.mp h
  | extend s ops part od rv w ih =>
    intro h
    exact nodup_appendNewC (ih (Ops.valid_srcA (p := .extend s ops part od rv w) h))
  | project s ops g ih =>
    intro h
    have hn := Ops.valid_nodeOk h
    simp only [Ops.nodeOk, Bool.and_eq_true, isOk_unit] at hn
    have := hn.1.1
    simp only [projectChk, ok?_bind_eq_ok] at this
    exact nodup_appendNewC (nodupB_iffC.mp this.2.1)
  | selectRows s e ih => intro h; exact ih (Ops.valid_srcA (p := .selectRows s e) h)
  | selectCols s cs ih =>
    intro h
    have hn := Ops.valid_nodeOk h
    simp only [Ops.nodeOk, isOk_unit, selectChk, ok?_bind_eq_ok, ok?_eq_ok] at hn
    exact nodupB_iffC.mp hn.2.2
  | dropCols s ds ih => intro h; exact nodup_filter _ (ih (Ops.valid_srcA (p := .dropCols s ds) h))
  | order s cs rv lim ih => intro h; exact ih (Ops.valid_srcA (p := .order s cs rv lim) h)
  | rename s m ih =>
    intro h
    have hn := Ops.valid_nodeOk h
    simp only [Ops.nodeOk, Bool.and_eq_true, isOk_unit, renameChk, ok?_bind_eq_ok, ok?_eq_ok] at hn
    exact nodupB_iffC.mp hn.2.2.2
  | mapCols s m ds ih =>
    intro h
    have hn := Ops.valid_nodeOk h
    simp only [Ops.nodeOk, Bool.and_eq_true, isOk_unit, mapNodeChk, ok?_bind_eq_ok, ok?_eq_ok] at hn
    exact nodupB_iffC.mp hn.2.2.2.2
  | join a b oa ob jt iha ihb =>
    intro h
    simp only [Ops.valid, Bool.and_eq_true] at h
    rw [cols_join]
    exact nodup_joinCols (iha h.1.2) (ihb h.2)
  | concat a b idc an bn iha ihb =>
    intro h
    have hn := Ops.valid_nodeOk h
    simp only [Ops.valid, Bool.and_eq_true] at h
    simp only [Ops.nodeOk, isOk_unit, concatChk, ok?_bind_eq_ok, ok?_eq_ok] at hn
    rw [cols_concat]
    cases idc with
    | none => exact iha h.1.2
    | some c =>
      simp only [concatCols]
      rw [List.nodup_append]
      refine ⟨iha h.1.2, by simp, ?_⟩
      intro x hx y hy
      simp only [List.mem_singleton] at hy
      subst hy
      rintro rfl
      have := hn.2.2
      simp only [Bool.not_eq_true', List.contains_eq_mem, decide_eq_false_iff_not] at this
      exact this hx
  | convert s rm ih =>
    intro h
    have hn := Ops.valid_nodeOk h
    simp only [Ops.nodeOk, isOk_unit, convertChk, ok?_bind_eq_ok, ok?_eq_ok] at hn
    exact nodupB_iffC.mp hn.2.2

end DAVerif

namespace DAVerif

/-! ### the builders preserve validity -/

theorem extendChecks_front {cols : List String} {ops : Assign} {pa : PartArg} {od rv : List String}
    (h : extendChecks cols ops pa od rv = .ok ()) : (pa.cols'.isEmpty || disjoint pa.cols' od) = true := by
  cases pa with
  | none => rfl
  | one => rfl
  | cols cs =>
    simp only [PartArg.cols']
    cases hcs : cs.isEmpty with
    | true => rfl
    | false =>
      unfold extendChecks at h
      simp only [hcs, Bool.not_false, if_true, bind_assoc, workColGroup, ok?_bind_eq_ok, ok?_eq_ok] at h
      simp only [h.2.2.2.2.2.2.2.1, Bool.or_true]

theorem valid_mkExtend {src : Ops} {ops : Assign} {pa : PartArg} {od rv : List String} {p' : Ops}
    (hv : src.valid = true) (hne : ops.isEmpty = false)
    (hfront : (pa.cols'.isEmpty || disjoint pa.cols' od) = true)
    (h : mkExtend src ops pa od rv = .ok p') : p'.valid = true := by
  rw [mkExtend_eqC] at h
  obtain ⟨_, hchk, hp⟩ := except_bind_eq_ok.mp h
  cases hp
  simp only [extendChk, ok?_bind_eq_ok, ok?_eq_ok] at hchk
  obtain ⟨h1, h2, h3, h4, h5, h6, h7, h8, h9⟩ := hchk
  have hflag : (!(impliesWindowed ops || !pa.cols'.isEmpty || !od.isEmpty) || stepWindowed ops pa od) = true := by
    cases pa <;> simp only [stepWindowed, PartArg.cols', List.isEmpty_nil, Bool.not_true, Bool.or_false,
      Bool.or_true, Bool.not_or_self]
    cases impliesWindowed ops <;> cases od.isEmpty <;> rfl
  simp only [Ops.valid, Ops.nodeOk, hne, h1, h2, h3, h4, h5, h6, h7, h8, h9, hfront, hv, hflag, Bool.not_false,
    Bool.and_self]

theorem projectChecks_front {cols : List String} {ops : Assign} {g : List String}
    (h : projectChecks cols ops g = .ok ()) :
    (!(ops.isEmpty && g.isEmpty)) = true ∧ disjoint (ops.map (·.1)) g = true := by
  unfold projectChecks at h
  simp only [bind_assoc, workColGroup, ok?_bind_eq_ok, ok?_eq_ok] at h
  exact ⟨h.2.2.1, h.2.2.2⟩

theorem valid_mkProject {src : Ops} {ops : Assign} {g : List String} {p' : Ops} (hv : src.valid = true)
    (hfront : (!(ops.isEmpty && g.isEmpty)) = true ∧ disjoint (ops.map (·.1)) g = true)
    (h : mkProject src ops g = .ok p') : p'.valid = true := by
  rw [mkProject_eq] at h
  obtain ⟨u, hchk, hp⟩ := except_bind_eq_ok.mp h
  cases hp
  simp only [Ops.valid, Ops.nodeOk, hchk, Except.isOk, Except.toBool, hfront.1, hfront.2, hv, Bool.and_self]

theorem subset_trans {a b c : List String} (h1 : subset a b = true) (h2 : subset b c = true) :
    subset a c = true :=
  subset_iffC.mpr (fun x hx => subset_iffC.mp h2 x (subset_iffC.mp h1 x hx))

theorem valid_selectCols_node {s : Ops} {cs : List String} {u : Unit} (hs : s.valid = true)
    (h : selectChk s.cols cs = .ok u) : (Ops.selectCols s cs).valid = true := by
  have : (Ops.selectCols s cs).valid = ((selectChk s.cols cs).isOk && s.valid) := rfl
  rw [this, h, hs]; rfl

theorem valid_mkSelectCols {src : Ops} {cs : List String} {p' : Ops} (hv : src.valid = true)
    (h : mkSelectCols src cs = .ok p') : p'.valid = true := by
  rw [mkSelectCols_eq] at h
  obtain ⟨u, hchk, hp⟩ := except_bind_eq_ok.mp h
  cases hp
  cases src with
  | selectCols s cs0 =>
    have hn := Ops.valid_nodeOk hv
    have hs := Ops.valid_srcA hv
    simp only [Ops.nodeOk, isOk_unit, selectChk, ok?_bind_eq_ok, ok?_eq_ok] at hn
    simp only [selectChk, Ops.cols, ok?_bind_eq_ok, ok?_eq_ok] at hchk
    apply valid_selectCols_node (u := ()) hs
    simp only [selectChk, ok?_bind_eq_ok, ok?_eq_ok]
    exact ⟨hchk.1, subset_trans hchk.2.1 hn.2.1, hchk.2.2⟩
  | _ => exact valid_selectCols_node hv hchk

theorem valid_of_chk_unary {src p' : Ops} {chk : Except Err Unit} (hv : src.valid = true) (hchk : chk = .ok ())
    (hvalid : p'.valid = (chk.isOk && src.valid)) : p'.valid = true := by
  rw [hvalid, hchk, hv]; rfl

theorem valid_of_chk_unary' {src p' : Ops} {chk : Except Err Unit} {c : Bool} (hv : src.valid = true)
    (hc : c = true) (hchk : chk = .ok ()) (hvalid : p'.valid = (c && chk.isOk && src.valid)) :
    p'.valid = true := by
  rw [hvalid, hchk, hv, hc]; rfl

theorem valid_mkDropCols {src : Ops} {ds : List String} {p' : Ops} (hv : src.valid = true)
    (hne : (!ds.isEmpty) = true) (h : mkDropCols src ds = .ok p') : p'.valid = true := by
  rw [mkDropCols_eq] at h
  obtain ⟨u, hchk, hp⟩ := except_bind_eq_ok.mp h
  cases hp
  exact valid_of_chk_unary' hv hne hchk rfl

theorem valid_mkOrder {src : Ops} {cs rv : List String} {lim : Option Nat} {p' : Ops} (hv : src.valid = true)
    (hne : (!(cs.isEmpty && lim.isNone)) = true) (h : mkOrder src cs rv lim = .ok p') : p'.valid = true := by
  rw [mkOrder_eq] at h
  obtain ⟨u, hchk, hp⟩ := except_bind_eq_ok.mp h
  cases hp
  exact valid_of_chk_unary' hv hne hchk rfl

theorem valid_mkRename {src : Ops} {m : List (String × String)} {p' : Ops} (hv : src.valid = true)
    (hne : (!m.isEmpty) = true) (h : mkRename src m = .ok p') : p'.valid = true := by
  rw [mkRename_eq] at h
  obtain ⟨u, hchk, hp⟩ := except_bind_eq_ok.mp h
  cases hp
  exact valid_of_chk_unary' hv hne hchk rfl

theorem valid_mkConvert {src : Ops} {rm : RecMap} {p' : Ops} (hv : src.valid = true)
    (h : mkConvert src rm = .ok p') : p'.valid = true := by
  rw [mkConvert_eq] at h
  obtain ⟨u, hchk, hp⟩ := except_bind_eq_ok.mp h
  cases hp
  exact valid_of_chk_unary hv hchk rfl

theorem mem_map_fst_iff (m : List (String × Option String)) (c : String) :
    c ∈ m.map (·.1) ↔ c ∈ (mapRemap m).map (·.1) ∨ c ∈ mapDels m := by
  induction m with
  | nil => simp [mapRemap, mapDels]
  | cons kv m ih =>
    obtain ⟨k, v⟩ := kv
    cases v with
    | none =>
      simp only [mapRemap, mapDels] at ih ⊢
      simp only [List.map_cons, List.mem_cons, List.filterMap_cons, Option.map_none, List.filter_cons,
        Option.isNone_none, if_true, ih]
      constructor
      · rintro (h | h | h)
        · exact Or.inr (Or.inl h)
        · exact Or.inl h
        · exact Or.inr (Or.inr h)
      · rintro (h | h | h)
        · exact Or.inr (Or.inl h)
        · exact Or.inl h
        · exact Or.inr (Or.inr h)
    | some v =>
      simp only [mapRemap, mapDels] at ih ⊢
      simp only [List.map_cons, List.mem_cons, List.filterMap_cons, Option.map_some, List.filter_cons,
        Option.isNone_some, Bool.false_eq_true, if_false, ih]
      constructor
      · rintro (h | h | h)
        · exact Or.inl (Or.inl h)
        · exact Or.inl (Or.inr h)
        · exact Or.inr h
      · rintro ((h | h) | h)
        · exact Or.inl h
        · exact Or.inr (Or.inl h)
        · exact Or.inr (Or.inr h)

theorem subset_congr_left {a a' b : List String} (h : ∀ c, c ∈ a ↔ c ∈ a') : subset a b = subset a' b := by
  rw [Bool.eq_iff_iff, subset_iffC, subset_iffC]
  exact ⟨fun hh x hx => hh x ((h x).mpr hx), fun hh x hx => hh x ((h x).mp hx)⟩

theorem subset_congr_right {a b b' : List String} (h : ∀ c, c ∈ b ↔ c ∈ b') : subset a b = subset a b' := by
  rw [Bool.eq_iff_iff, subset_iffC, subset_iffC]
  exact ⟨fun hh x hx => (h x).mp (hh x hx), fun hh x hx => (h x).mpr (hh x hx)⟩

theorem contains_congr {b b' : List String} (h : ∀ c, c ∈ b ↔ c ∈ b') (c : String) : b.contains c = b'.contains c := by
  rw [Bool.eq_iff_iff]; simpa using h c

theorem inter_congr_right {a b b' : List String} (h : ∀ c, c ∈ b ↔ c ∈ b') : inter a b = inter a b' := by
  simp only [inter]
  exact List.filter_congr (fun x _ => contains_congr h x)

theorem mapColsChk_eq (sc : List String) (m : List (String × Option String)) :
    mapColsChk sc m = mapNodeChk sc (mapRemap m) (mapDels m) := by
  have hset : ∀ c, c ∈ m.map (·.1) ↔ c ∈ (mapRemap m).map (·.1) ++ mapDels m := by
    intro c; rw [List.mem_append]; exact mem_map_fst_iff m c
  simp only [mapColsChk, mapNodeChk, subset_congr_left hset, inter_congr_right hset]

theorem mapRemap_mapDels_isEmpty (m : List (String × Option String)) :
    ((mapRemap m).isEmpty && (mapDels m).isEmpty) = m.isEmpty := by
  cases m with
  | nil => rfl
  | cons kv m =>
    obtain ⟨k, v⟩ := kv
    cases v <;> simp [mapRemap, mapDels]

theorem valid_mkMapCols {src : Ops} {m : List (String × Option String)} {p' : Ops} (hv : src.valid = true)
    (hne : (!m.isEmpty) = true) (h : mkMapCols src m = .ok p') : p'.valid = true := by
  rw [mkMapCols_eq, mapColsChk_eq] at h
  obtain ⟨u, hchk, hp⟩ := except_bind_eq_ok.mp h
  cases hp
  exact valid_of_chk_unary' hv (by rw [mapRemap_mapDels_isEmpty]; exact hne) hchk rfl

theorem valid_mkJoin {a b : Ops} {oa ob : List String} {jt : String} {check : Bool} {p' : Ops}
    (ha : a.valid = true) (hb : b.valid = true) (h : mkJoin a b oa ob jt check = .ok p') :
    p'.valid = true := by
  rw [mkJoin_eq] at h
  obtain ⟨t, hchk, hp⟩ := except_bind_eq_ok.mp h
  cases hp
  simp only [joinChk, bind_assoc, ok?_bind_eq_ok] at hchk
  obtain ⟨h1, h2, h3, h4, _, h6⟩ := hchk
  cases hj : JoinType.parse jt with
  | none => rw [hj] at h6; cases h6
  | some t' =>
    rw [hj] at h6
    simp only [ok?_bind_eq_ok] at h6
    obtain ⟨h7, h8⟩ := h6
    cases h8
    simp only [Ops.valid, Ops.nodeOk, h1, h2, h3, h4, h7, ha, hb, Bool.and_self]

theorem valid_mkConcat {a b : Ops} {idc : Option String} {an bn : String} {p' : Ops}
    (ha : a.valid = true) (hb : b.valid = true) (h : mkConcat a b idc an bn = .ok p') : p'.valid = true := by
  rw [mkConcat_eq] at h
  obtain ⟨u, hchk, hp⟩ := except_bind_eq_ok.mp h
  cases hp
  simp only [Ops.valid, Ops.nodeOk, hchk, Except.isOk, Except.toBool, ha, hb, Bool.and_self]

theorem parseAssignments_okC {cols : List String} {ops parsed : Assign}
    (h : parseAssignments cols ops = .ok parsed) :
    parsed = ops ∧ (ops.map (·.1)).Nodup ∧ (∀ kv ∈ ops, ∀ c ∈ Term.colsRaw kv.2, c ∈ cols) := by
  rw [parseAssignments_eqC] at h
  simp only [ok?_bind_eq_ok, pure, Except.pure, Except.ok.injEq] at h
  obtain ⟨h1, h2, _, h4⟩ := h
  refine ⟨h4.symm, nodupB_iffC.mp h1, ?_⟩
  intro kv hkv c hc
  exact subset_iffC.mp (List.all_eq_true.mp h2 kv hkv) c hc

theorem valid_extendTop {q : Ops} {ops : Assign} {pa : PartArg} {od rv : List String} {p' : Ops}
    (hv : q.valid = true) (hne : ops.isEmpty = false)
    (hfront : (pa.cols'.isEmpty || disjoint pa.cols' od) = true) (hq : q.isTrivialWhenIntermediate = false)
    (h : extendTopC q ops pa od rv = .ok p') : p'.valid = true := by
  cases q with
  | order s cs rv' lim =>
    cases lim with
    | none => cases hq
    | some n => exact valid_mkExtend hv hne hfront h
  | extend src ops1 part1 od1 rv1 w1 =>
    simp only [extendTopC] at h
    rcases extendMerge_cases src ops1 part1 od1 rv1 w1 ops pa od rv with ⟨newOps, hm, _, _, _, _, he⟩ | he
    · rw [he] at h
      refine valid_mkExtend (Ops.valid_srcA hv) ?_ hfront h
      obtain ⟨_, _, _, ho2, _⟩ := tryMergeOps_spec hm
      cases ops with
      | nil => cases hne
      | cons kv rest =>
        have := ho2 kv (List.mem_cons_self ..)
        cases newOps with
        | nil => cases this
        | cons _ _ => rfl
    · rw [he] at h
      exact valid_mkExtend hv hne hfront h
  | _ => exact valid_mkExtend hv hne hfront h

/-- **The builders preserve validity.** -/
theorem valid_build {self : Ops} {s : Step} {p' : Ops} (hv : self.valid = true)
    (hb : ∀ b ∈ Step.argOps s, b.valid = true) (h : build self s = .ok p') : p'.valid = true := by
  have hq := Ops.valid_strip hv
  cases s with
  | extend ops pa od rv =>
    simp only [build] at h
    obtain ⟨parsed, hp, h2⟩ := except_bind_eq_ok.mp h
    obtain ⟨hpe, _, _⟩ := parseAssignments_okC hp
    subst hpe
    cases hne : parsed.isEmpty with
    | true =>
      rw [extendParsed_eq] at h2
      simp only [hne, if_true] at h2
      cases h2; exact hv
    | false =>
      rw [extendParsed_stripC _ _ _ _ _ hne] at h2
      obtain ⟨u, hc, h3⟩ := except_bind_eq_ok.mp h2
      exact valid_extendTop hq hne (extendChecks_front hc) (Ops.strip_not_trivial _) h3
  | project ops g =>
    simp only [build] at h
    obtain ⟨parsed, hp, h2⟩ := except_bind_eq_ok.mp h
    rw [projectParsed_stripC] at h2
    obtain ⟨u, hc, h3⟩ := except_bind_eq_ok.mp h2
    exact valid_mkProject hq (projectChecks_front hc) h3
  | selectRows e =>
    cases e with
    | none => simp only [build] at h; cases h; exact hv
    | some e =>
      simp only [build] at h
      obtain ⟨_, _, h2⟩ := except_bind_eq_ok.mp h
      rw [selectRowsB_strip] at h2
      cases h2
      simp only [Ops.valid, Ops.nodeOk, hq, Bool.and_self]
  | selectCols cs =>
    simp only [build] at h
    obtain ⟨_, _, h2⟩ := except_bind_eq_ok.mp h
    rw [selectColsB_eq] at h2
    obtain ⟨_, _, h3⟩ := except_bind_eq_ok.mp h2
    exact valid_mkSelectCols (Ops.valid_selectBase hv) h3
  | dropCols cs =>
    simp only [build] at h
    split at h
    · cases h; exact hv
    · rename_i hne
      rw [dropColsB_strip] at h; exact valid_mkDropCols hq (by simpa using hne) h
  | order cs rv lim =>
    simp only [build] at h
    split at h
    · cases h; exact hv
    · rename_i hne
      rw [orderB_strip] at h
      exact valid_mkOrder hq (by cases hh : (cs.isEmpty && lim.isNone) <;> simp_all) h
  | rename m =>
    simp only [build] at h
    split at h
    · cases h; exact hv
    · rename_i hne
      rw [renameB_strip] at h; exact valid_mkRename hq (by simpa using hne) h
  | mapCols m =>
    simp only [build] at h
    split at h
    · cases h; exact hv
    · rename_i hne
      rw [mapColsB_strip] at h; exact valid_mkMapCols hq (by simpa using hne) h
  | join b oa ob jt chk =>
    simp only [build] at h
    rw [joinB_strip] at h
    exact valid_mkJoin hq (hb b (by simp [Step.argOps])) h
  | concat b idc an bn =>
    cases b with
    | none => simp only [build] at h; cases h; exact hv
    | some b =>
      simp only [build] at h
      rw [concatB_strip] at h
      exact valid_mkConcat hq (hb b (by simp [Step.argOps])) h
  | convert rm =>
    cases rm with
    | none => simp only [build] at h; cases h; exact hv
    | some rm =>
      simp only [build] at h
      rw [convertB_strip] at h
      exact valid_mkConvert hq h

end DAVerif
