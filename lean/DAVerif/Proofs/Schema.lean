import DAVerif.Schema.Schema
import DAVerif.Proofs.OSet
/-! Lemmas about the data_schema model (helper lemmas; the property statements are in Props/C22.lean). -/
namespace DAVerif.Schema
set_option linter.unusedSectionVars false

deriving instance DecidableEq for Except

variable {T : Type} [U : TypeUniverse T]

/-! ### cell loop, column loop -/

theorem firstBad_nil (bad : Scalar T → Bool) (c : String) (cells : List (Scalar T)) :
    firstBad bad c cells = [] ↔ ∀ x ∈ cells, x.isNull = false → bad x = false := by
  induction cells with
  | nil => simp [firstBad]
  | cons x xs ih =>
    simp only [firstBad, List.mem_cons, forall_eq_or_imp]
    by_cases hn : x.isNull = true
    · simp [hn, ih]
    · by_cases hb : bad x = true
      · simp [hn, hb]
      · simp [hn, hb, ih]

theorem column_mem {f : Frame T} {c : String} {cells : List (Scalar T)} (h : f.column c = some cells) :
    (c, cells) ∈ f.cols := by
  unfold Frame.column at h
  generalize f.cols = l at h
  induction l with
  | nil => simp [List.lookup] at h
  | cons p l ih =>
    obtain ⟨k, v⟩ := p
    by_cases hk : c = k
    · subst hk; simp [List.lookup] at h; subst h; simp
    · have : (c == k) = false := by simp [hk]
      simp only [List.lookup, this] at h
      exact List.mem_cons_of_mem _ (ih h)

theorem column_length {f : Frame T} (hr : f.Rect) {c : String} {cells : List (Scalar T)}
    (h : f.column c = some cells) : cells.length = f.nrows := hr _ (column_mem h)

theorem columnIssues_nil (bad : Scalar T → Bool) (unc : Bool) (f : Frame T) (hr : f.Rect) (c : String) :
    columnIssues bad unc f c = [] ↔
      ∃ cells, f.column c = some cells ∧ (unc = false → ∀ x ∈ cells, x.isNull = false → bad x = false) := by
  unfold columnIssues
  cases hc : f.column c with
  | none => simp
  | some cells =>
    simp only [Option.some.injEq, exists_eq_left']
    by_cases hu : unc = true
    · simp [hu]
    · have hu' : unc = false := by simpa using hu
      by_cases hn : f.nrows > 0
      · simp [hu', hn, firstBad_nil]
      · have h0 : cells = [] := by
          have := column_length hr hc
          exact List.eq_nil_of_length_eq_zero (by omega)
        simp [hu', hn, h0]

theorem checkSpec_of_isNone {ns : NSpec T} (h : ns.isNone = true) (v : Value T) : checkSpec ns v = none := by
  cases ns <;> simp_all [NSpec.isNone, checkSpec]

/-! ### association lists -/

theorem lookup_some_mem {β : Type} {l : List (String × β)} {k : String} {v : β}
    (h : l.lookup k = some v) : (k, v) ∈ l := by
  induction l with
  | nil => simp [List.lookup] at h
  | cons p l ih =>
    obtain ⟨k', v'⟩ := p
    by_cases hk : k = k'
    · subst hk; simp [List.lookup] at h; subst h; simp
    · have : (k == k') = false := by simp [hk]
      simp only [List.lookup, this] at h
      exact List.mem_cons_of_mem _ (ih h)

theorem lookup_of_mem_nodup {β : Type} {l : List (String × β)} {k : String} {v : β}
    (hn : (l.map Prod.fst).Nodup) (h : (k, v) ∈ l) : l.lookup k = some v := by
  induction l with
  | nil => simp at h
  | cons p l ih =>
    obtain ⟨k', v'⟩ := p
    simp only [List.map_cons, List.nodup_cons] at hn
    rcases List.mem_cons.mp h with h1 | h2
    · cases h1; simp [List.lookup]
    · have hne : k ≠ k' := by
        rintro rfl
        exact hn.1 (List.mem_map.mpr ⟨(k, v), h2, rfl⟩)
      have : (k == k') = false := by simp [hne]
      simp only [List.lookup, this]
      exact ih hn.2 h2

theorem lookup_none_iff {β : Type} {l : List (String × β)} {k : String} :
    l.lookup k = none ↔ k ∉ l.map Prod.fst := by
  induction l with
  | nil => simp [List.lookup]
  | cons p l ih =>
    obtain ⟨k', v'⟩ := p
    by_cases hk : k = k'
    · subst hk; simp [List.lookup]
    · have : (k == k') = false := by simp [hk]
      simp [List.lookup, this, ih, hk]

theorem zip_fst_nodup {β : Type} {names : List String} (hn : names.Nodup) (vs : List β) :
    ((names.zip vs).map Prod.fst).Nodup := by
  induction names generalizing vs with
  | nil => simp
  | cons n names ih =>
    cases vs with
    | nil => simp
    | cons v vs =>
      rw [List.nodup_cons] at hn
      simp only [List.zip_cons_cons, List.map_cons, List.nodup_cons]
      refine ⟨?_, ih hn.2 vs⟩
      intro hmem
      obtain ⟨p, hp, rfl⟩ := List.mem_map.mp hmem
      exact hn.1 (List.of_mem_zip hp).1

theorem zip_fst_eq_take {β : Type} (names : List String) (vs : List β) (h : vs.length ≤ names.length) :
    (names.zip vs).map Prod.fst = names.take vs.length := by
  induction names generalizing vs with
  | nil => cases vs <;> simp_all
  | cons n names ih =>
    cases vs with
    | nil => simp
    | cons v vs =>
      simp only [List.length_cons, Nat.add_le_add_iff_right] at h
      simp [ih vs h]

theorem take_zip_eq {β : Type} (names : List String) (vs : List β) (n : Nat) (h : vs.length ≤ n) :
    (names.take n).zip vs = names.zip vs := by
  induction names generalizing vs n with
  | nil => simp
  | cons a names ih =>
    cases vs with
    | nil => simp
    | cons v vs =>
      cases n with
      | zero => simp at h
      | succ n =>
        simp only [List.length_cons, Nat.add_le_add_iff_right] at h
        simp [ih vs n h]

/-! ### normalisation -/

variable [DecidableEq T]

theorem mem_normalizeSet {ms : List (Atom T)} {t : T} :
    t ∈ normalizeSet ms ↔ ∃ a ∈ ms, a.declared = some t := by
  simp [normalizeSet, OSet.mem_ofList, List.mem_filterMap]

theorem mem_normalizeCols {cols : List (String × Spec T)} {c : String} {ns : NSpec T} :
    (c, ns) ∈ normalizeCols cols ↔ ∃ s, (c, s) ∈ cols ∧ ns = normalize s := by
  induction cols with
  | nil => simp [normalizeCols]
  | cons p cols ih =>
    obtain ⟨c', s'⟩ := p
    simp only [normalizeCols, List.mem_cons, Prod.mk.injEq, ih]
    constructor
    · rintro (⟨rfl, rfl⟩ | ⟨s, hs, rfl⟩)
      · exact ⟨s', Or.inl ⟨rfl, rfl⟩, rfl⟩
      · exact ⟨s, Or.inr hs, rfl⟩
    · rintro ⟨s, (⟨rfl, rfl⟩ | hs), rfl⟩
      · exact Or.inl ⟨rfl, rfl⟩
      · exact Or.inr ⟨s, hs, rfl⟩

theorem normalizeCols_fst (cols : List (String × Spec T)) :
    (normalizeCols cols).map Prod.fst = cols.map Prod.fst := by
  induction cols with
  | nil => simp [normalizeCols]
  | cons p cols ih => obtain ⟨c, s⟩ := p; simp [normalizeCols, ih]

/-! ### the two loops of `check_args` -/

theorem posIssues_nil (specs : List (String × NSpec T)) (pairs : List (String × Value T)) :
    posIssues specs pairs = [] ↔
      ∀ k v, (k, v) ∈ pairs → ∀ s, specs.lookup k = some s → checkSpec s v = none := by
  induction pairs with
  | nil => simp [posIssues]
  | cons p pairs ih =>
    obtain ⟨k, v⟩ := p
    simp only [posIssues, List.append_eq_nil_iff, ih, List.mem_cons, Prod.mk.injEq]
    constructor
    · rintro ⟨h1, h2⟩ k' v' (⟨rfl, rfl⟩ | hm) s hs
      · rw [hs] at h1
        cases hc : checkSpec s v' <;> simp_all
      · exact h2 k' v' hm s hs
    · intro h
      refine ⟨?_, fun k' v' hm s hs => h k' v' (Or.inr hm) s hs⟩
      cases hl : specs.lookup k with
      | none => rfl
      | some s =>
        have := h k v (Or.inl ⟨rfl, rfl⟩) s hl
        simp [this]

theorem kwIssues_nil (seen : List String) (kwargs : List (String × Value T)) (specs : List (String × NSpec T)) :
    kwIssues seen kwargs specs = [] ↔
      ∀ k s, (k, s) ∈ specs → k ∉ seen → ∃ v, kwargs.lookup k = some v ∧ checkSpec s v = none := by
  induction specs with
  | nil => simp [kwIssues]
  | cons p specs ih =>
    obtain ⟨k, s⟩ := p
    simp only [kwIssues, List.append_eq_nil_iff, ih, List.mem_cons, Prod.mk.injEq]
    constructor
    · rintro ⟨h1, h2⟩ k' s' (⟨rfl, rfl⟩ | hm) hns
      · have hc : seen.contains k' = false := by simpa using hns
        rw [hc] at h1
        cases hl : kwargs.lookup k' with
        | none => simp [hl] at h1
        | some v =>
          refine ⟨v, rfl, ?_⟩
          cases hcs : checkSpec s' v <;> simp_all
      · exact h2 k' s' hm hns
    · intro h
      refine ⟨?_, fun k' s' hm hns => h k' s' (Or.inr hm) hns⟩
      by_cases hs : k ∈ seen
      · simp [hs]
      · obtain ⟨v, hv, hc⟩ := h k s (Or.inl ⟨rfl, rfl⟩) hs
        simp [hs, hv, hc]

end DAVerif.Schema
