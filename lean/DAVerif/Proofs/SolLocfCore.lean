/-!
The counting argument behind `last_observed_carried_forward` (no imports): positions `0 … n-1` carry a strict total order
`before`, a partition `sameP` and a flag `nn` ("value not missing").  `N i` counts the flagged positions of `i`'s
partition at or before `i`.  Then two flagged positions of one partition have different counts, and for an unflagged
position `i` the flagged position of its partition with the same count is the latest flagged position before `i`.
-/
namespace DAVerif.Sol.Locf

theorem countP_le_of_imp {α : Type} {p q : α → Bool} {l : List α} (h : ∀ x ∈ l, p x = true → q x = true) :
    l.countP p ≤ l.countP q := by
  induction l with
  | nil => simp
  | cons a l ih =>
    have ih' := ih (fun x hx => h x (List.mem_cons_of_mem _ hx))
    have ha := h a List.mem_cons_self
    simp only [List.countP_cons]
    cases hp : p a <;> cases hq : q a <;> simp_all <;> omega

theorem countP_lt_of_imp {α : Type} {p q : α → Bool} {l : List α} (h : ∀ x ∈ l, p x = true → q x = true)
    {a : α} (ha : a ∈ l) (hqa : q a = true) (hpa : p a = false) : l.countP p < l.countP q := by
  induction l with
  | nil => cases ha
  | cons b l ih =>
    simp only [List.countP_cons]
    have hle := countP_le_of_imp (fun x hx => h x (List.mem_cons_of_mem _ hx))
    rcases List.mem_cons.mp ha with e | e
    · subst e
      simp only [hqa, hpa, if_true, Bool.false_eq_true, if_false]
      omega
    · have ih' := ih (fun x hx => h x (List.mem_cons_of_mem _ hx)) e
      have hb := h b List.mem_cons_self
      cases hp : p b <;> cases hq : q b <;> simp_all <;> omega

theorem find?_congr_mem {α : Type} {p q : α → Bool} {l : List α} (h : ∀ x ∈ l, p x = q x) :
    l.find? p = l.find? q := by
  induction l with
  | nil => rfl
  | cons a l ih =>
    simp only [List.find?_cons, h a List.mem_cons_self, ih (fun x hx => h x (List.mem_cons_of_mem _ hx))]

theorem filter_range_eq_single {n i : Nat} {p : Nat → Bool} (hi : i < n) (hp : p i = true)
    (hu : ∀ j, j < n → p j = true → j = i) : (List.range n).filter p = [i] := by
  induction n with
  | zero => omega
  | succ n ih =>
    rw [List.range_succ, List.filter_append]
    by_cases e : i = n
    · subst e
      have h1 : (List.range i).filter p = [] := by
        rw [List.filter_eq_nil_iff]
        intro j hj hpj
        have := List.mem_range.mp hj
        have := hu j (by omega) hpj
        omega
      simp [h1, hp]
    · have hi' : i < n := by omega
      have h1 := ih hi' (fun j hj hpj => hu j (by omega) hpj)
      have h2 : p n = false := by
        cases h : p n with
        | false => rfl
        | true => exact absurd (hu n (by omega) h) (fun e' => e e'.symm)
      simp [h1, h2]

theorem filter_range_length_le_one {n : Nat} {p : Nat → Bool}
    (hu : ∀ j k, j < n → k < n → p j = true → p k = true → j = k) : ((List.range n).filter p).length ≤ 1 := by
  by_cases h : ∃ i, i < n ∧ p i = true
  · obtain ⟨i, hi, hp⟩ := h
    rw [filter_range_eq_single hi hp (fun j hj hpj => hu j i hj hi hpj hp)]
    simp
  · have : (List.range n).filter p = [] := by
      rw [List.filter_eq_nil_iff]
      intro j hj hpj
      exact h ⟨j, List.mem_range.mp hj, hpj⟩
    simp [this]

section
variable (n : Nat) (before sameP : Nat → Nat → Bool) (nn : Nat → Bool)

/-- `before` is a strict total order on the positions below `n`, `sameP` an equivalence -/
structure Ord : Prop where
  irrefl : ∀ i, before i i = false
  trans : ∀ i j k, i < n → j < n → k < n → before i j = true → before j k = true → before i k = true
  total : ∀ i j, i < n → j < n → i ≠ j → before i j = true ∨ before j i = true
  prefl : ∀ i, sameP i i = true
  psymm : ∀ i j, sameP i j = true → sameP j i = true
  ptrans : ∀ i j k, sameP i j = true → sameP j k = true → sameP i k = true

/-- the number of flagged positions of `i`'s partition at or before `i` -/
def cnt (i : Nat) : Nat := (List.range n).countP (fun k => sameP k i && nn k && !before i k)

/-- flagged positions of `i`'s partition strictly before `i` -/
def cands (i : Nat) : List Nat := (List.range n).filter (fun j => sameP j i && nn j && before j i)

/-- flagged positions of `i`'s partition with the same count as `i` -/
def hits (i : Nat) : List Nat :=
  (List.range n).filter (fun j => nn j && sameP j i && (cnt n before sameP nn j == cnt n before sameP nn i))

variable {n before sameP nn} (ho : Ord n before sameP)
include ho

theorem not_before_of_before {i j : Nat} (hi : i < n) (hj : j < n) (h : before i j = true) : before j i = false := by
  cases h' : before j i with
  | false => rfl
  | true =>
    have := ho.trans i j i hi hj hi h h'
    rw [ho.irrefl] at this
    cases this

/-- the count grows strictly from a position to a later flagged position of the same partition -/
theorem cnt_lt {i j : Nat} (hi : i < n) (hj : j < n) (hb : before i j = true) (hs : sameP i j = true)
    (hnj : nn j = true) : cnt n before sameP nn i < cnt n before sameP nn j := by
  unfold cnt
  apply countP_lt_of_imp (a := j)
  · intro k hk hpk
    have hkn := List.mem_range.mp hk
    simp only [Bool.and_eq_true, Bool.not_eq_true'] at hpk ⊢
    obtain ⟨⟨h1, h2⟩, h3⟩ := hpk
    refine ⟨⟨ho.ptrans k i j h1 hs, h2⟩, ?_⟩
    cases h : before j k with
    | false => rfl
    | true =>
      have := ho.trans i j k hi hj hkn hb h
      rw [this] at h3
      cases h3
  · exact List.mem_range.mpr hj
  · simp [ho.prefl, hnj, ho.irrefl]
  · simp [hb]

/-- two flagged positions of one partition with the same count coincide -/
theorem cnt_inj {i j : Nat} (hi : i < n) (hj : j < n) (hs : sameP i j = true) (hni : nn i = true)
    (hnj : nn j = true) (hc : cnt n before sameP nn i = cnt n before sameP nn j) : i = j := by
  by_cases e : i = j
  · exact e
  · exfalso
    rcases ho.total i j hi hj e with h | h
    · have := cnt_lt ho hi hj h hs hnj
      omega
    · have := cnt_lt ho hj hi h (ho.psymm _ _ hs) hni
      omega

/-- a flagged position of `i`'s partition with the count of an unflagged `i` lies before `i` -/
theorem before_of_cnt_eq {i j : Nat} (hi : i < n) (hj : j < n) (hs : sameP j i = true) (hni : nn i = false)
    (hnj : nn j = true) (hc : cnt n before sameP nn j = cnt n before sameP nn i) : before j i = true := by
  have hne : j ≠ i := by
    intro e; subst e; rw [hni] at hnj; cases hnj
  rcases ho.total j i hj hi hne with h | h
  · exact h
  · exfalso
    have := cnt_lt ho hi hj h (ho.psymm _ _ hs) hnj
    omega

theorem hits_eq_cands_filter {i : Nat} (hi : i < n) (hni : nn i = false) :
    hits n before sameP nn i =
      (cands n before sameP nn i).filter (fun j => cnt n before sameP nn j == cnt n before sameP nn i) := by
  unfold hits cands
  rw [List.filter_filter]
  apply List.filter_congr
  intro j hj
  have hjn := List.mem_range.mp hj
  cases hnj : nn j <;> cases hs : sameP j i <;> cases hc : (cnt n before sameP nn j == cnt n before sameP nn i) <;>
    simp
  exact before_of_cnt_eq ho hi hjn hs hni hnj (by simpa using hc)

/-- for an unflagged `i`: its count is the number of candidates -/
theorem cnt_unflagged {i : Nat} (hi : i < n) (hni : nn i = false) :
    cnt n before sameP nn i = (cands n before sameP nn i).length := by
  unfold cnt cands
  rw [← List.countP_eq_length_filter]
  apply List.countP_congr
  intro k hk
  have hkn := List.mem_range.mp hk
  simp only [Bool.and_eq_true, Bool.not_eq_true']
  constructor
  · rintro ⟨⟨hs, hnk⟩, hb⟩
    refine ⟨⟨hs, hnk⟩, ?_⟩
    have hne : k ≠ i := by
      intro e; subst e; rw [hni] at hnk; cases hnk
    rcases ho.total k i hkn hi hne with h' | h'
    · exact h'
    · rw [h'] at hb; cases hb
  · rintro ⟨⟨hs, hnk⟩, hb⟩
    exact ⟨⟨hs, hnk⟩, not_before_of_before ho hkn hi hb⟩

/-- for a candidate `j` of an unflagged `i`: its count is the number of candidates at or before `j` -/
theorem cnt_cand {i j : Nat} (hi : i < n) (hj : j ∈ cands n before sameP nn i) :
    cnt n before sameP nn j = (cands n before sameP nn i).countP (fun k => !before j k) := by
  have hj' := List.mem_filter.mp hj
  have hjn := List.mem_range.mp hj'.1
  simp only [Bool.and_eq_true] at hj'
  obtain ⟨_, ⟨hsj, hnj⟩, hbj⟩ := hj'
  unfold cnt cands
  rw [List.countP_filter]
  apply List.countP_congr
  intro k hk
  have hkn := List.mem_range.mp hk
  simp only [Bool.and_eq_true, Bool.not_eq_true']
  constructor
  · rintro ⟨⟨hs, hnk⟩, hb⟩
    refine ⟨hb, ⟨ho.ptrans k j i hs hsj, hnk⟩, ?_⟩
    by_cases e : k = j
    · subst e; exact hbj
    · rcases ho.total k j hkn hjn e with h | h
      · exact ho.trans k j i hkn hjn hi h hbj
      · rw [h] at hb; cases hb
  · rintro ⟨hb, ⟨hs, hnk⟩, _⟩
    exact ⟨⟨ho.ptrans k i j hs (ho.psymm _ _ hsj), hnk⟩, hb⟩

/-- **The candidate with the count of `i` is the latest candidate.** -/
theorem latest_iff {i j : Nat} (hi : i < n) (hni : nn i = false) (hj : j ∈ cands n before sameP nn i) :
    (cands n before sameP nn i).all (fun k => k == j || before k j)
      = (cnt n before sameP nn j == cnt n before sameP nn i) := by
  have hjn := List.mem_range.mp (List.mem_filter.mp hj).1
  rw [cnt_cand ho hi hj, cnt_unflagged ho hi hni]
  rw [Bool.eq_iff_iff]
  simp only [List.all_eq_true, Bool.or_eq_true, beq_iff_eq]
  rw [List.countP_eq_length]
  constructor
  · intro h k hk
    have hkn := List.mem_range.mp (List.mem_filter.mp hk).1
    rcases h k hk with e | hb
    · subst e; simp [ho.irrefl]
    · simp [not_before_of_before ho hkn hjn hb]
  · intro h k hk
    have hkn := List.mem_range.mp (List.mem_filter.mp hk).1
    have := h k hk
    simp only [Bool.not_eq_true'] at this
    by_cases e : k = j
    · exact Or.inl e
    · rcases ho.total k j hkn hjn e with h' | h'
      · exact Or.inr h'
      · rw [h'] at this; cases this

/-- a flagged position hits exactly itself -/
theorem hits_flagged {i : Nat} (hi : i < n) (hni : nn i = true) : hits n before sameP nn i = [i] := by
  unfold hits
  apply filter_range_eq_single hi
  · simp [hni, ho.prefl]
  · intro j hj hp
    simp only [Bool.and_eq_true, beq_iff_eq] at hp
    exact cnt_inj ho hj hi hp.1.2 hp.1.1 hni hp.2

theorem hits_length_le_one (i : Nat) : (hits n before sameP nn i).length ≤ 1 := by
  unfold hits
  apply filter_range_length_le_one
  intro j k hj hk hpj hpk
  simp only [Bool.and_eq_true, beq_iff_eq] at hpj hpk
  exact cnt_inj ho hj hk (ho.ptrans _ _ _ hpj.1.2 (ho.psymm _ _ hpk.1.2)) hpj.1.1 hpk.1.1 (hpj.2.trans hpk.2.symm)

/-- what the spec's search finds is the head of the match list -/
theorem find_latest_eq {i : Nat} (hi : i < n) (hni : nn i = false) :
    (cands n before sameP nn i).find? (fun j => (cands n before sameP nn i).all (fun k => k == j || before k j))
      = (hits n before sameP nn i).head? := by
  rw [hits_eq_cands_filter ho hi hni, List.head?_filter]
  apply find?_congr_mem
  intro j hj
  exact latest_iff ho hi hni hj

end

end DAVerif.Sol.Locf
