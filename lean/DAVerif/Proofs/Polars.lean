import DAVerif.Proofs.PolarsRow
import DAVerif.Proofs.SemBasic
import DAVerif.Proofs.Order
/-!
Lemmas for C03: each step of the Polars executor model `semPl` computes, on inputs that are equal up to row order
and under the guards of `Spec/Polars.lean`, what the step of the Pandas executor model `sem` computes.
-/
namespace DAVerif

/-! ## A. sorting: `nulls_last = True` is the Pandas order; without nulls the placement does not matter -/
namespace Pl

theorem cellLe_true (desc : Bool) (a b : Val) : Pl.cellLe true desc a b = DAVerif.cellLe desc a b := by
  unfold Pl.cellLe DAVerif.cellLe
  cases a.isNull <;> cases b.isNull <;> rfl

theorem rowLe_true (order reverse : List String) (r1 r2 : Row) :
    Pl.rowLe true order reverse r1 r2 = DAVerif.rowLe order reverse r1 r2 := by
  induction order with
  | nil => rfl
  | cons c cs ih => simp only [Pl.rowLe, DAVerif.rowLe, cellLe_true, ih]

theorem cellLe_nonnull (nl desc : Bool) {a b : Val} (ha : a.isNull = false) (hb : b.isNull = false) :
    Pl.cellLe nl desc a b = DAVerif.cellLe desc a b := by
  unfold Pl.cellLe DAVerif.cellLe
  rw [ha, hb]

theorem rowLe_nonnull (nl : Bool) (order reverse : List String) {r1 r2 : Row}
    (h1 : ∀ c ∈ order, (r1.get c).isNull = false) (h2 : ∀ c ∈ order, (r2.get c).isNull = false) :
    Pl.rowLe nl order reverse r1 r2 = DAVerif.rowLe order reverse r1 r2 := by
  induction order with
  | nil => rfl
  | cons c cs ih =>
    simp only [Pl.rowLe, DAVerif.rowLe]
    rw [cellLe_nonnull nl _ (h1 c (List.mem_cons_self ..)) (h2 c (List.mem_cons_self ..)),
      ih (fun d hd => h1 d (List.mem_cons_of_mem _ hd)) (fun d hd => h2 d (List.mem_cons_of_mem _ hd))]

/-- the sort orders coincide on rows whose order cells are all non-null, or when nulls go last -/
def SameOrderOn (nl : Bool) (order : List String) (rows : List Row) : Prop :=
  nl = true ∨ ∀ r ∈ rows, ∀ c ∈ order, (r.get c).isNull = false

theorem sameOrderOn_of_hasNullIn {nl : Bool} {order : List String} {rows : List Row}
    (h : (!nl && hasNullIn order rows) = false) : SameOrderOn nl order rows := by
  cases nl with
  | true => exact Or.inl rfl
  | false =>
    right
    intro r hr c hc
    simp only [Bool.not_false, Bool.true_and, hasNullIn] at h
    cases hv : (r.get c).isNull with
    | false => rfl
    | true =>
      have : (rows.any fun r => order.any fun c => (r.get c).isNull) = true :=
        List.any_eq_true.mpr ⟨r, hr, List.any_eq_true.mpr ⟨c, hc, hv⟩⟩
      rw [this] at h
      cases h

theorem SameOrderOn.rowLe {nl : Bool} {order : List String} {rows : List Row} (h : SameOrderOn nl order rows)
    (reverse : List String) {a b : Row} (ha : a ∈ rows) (hb : b ∈ rows) :
    Pl.rowLe nl order reverse a b = DAVerif.rowLe order reverse a b := by
  rcases h with rfl | h
  · exact rowLe_true ..
  · exact rowLe_nonnull nl order reverse (h a ha) (h b hb)

theorem SameOrderOn.perm {nl : Bool} {order : List String} {rows rows' : List Row} (h : SameOrderOn nl order rows)
    (hp : rows.Perm rows') : SameOrderOn nl order rows' :=
  h.imp id (fun h r hr => h r (hp.mem_iff.mpr hr))

theorem sortRows_eq {nl : Bool} {order : List String} {rows : List Row} (h : SameOrderOn nl order rows)
    (reverse : List String) : Pl.sortRows nl order reverse rows = DAVerif.sortRows order reverse rows := by
  have := List.map_mergeSort (r := fun a b => Pl.rowLe nl order reverse a b)
    (s := fun a b => DAVerif.rowLe order reverse a b) (f := id) (l := rows)
    (fun a ha b hb => h.rowLe reverse ha hb)
  simpa [Pl.sortRows, DAVerif.sortRows] using this

theorem sortIdx_eq {nl : Bool} {order : List String} {rows : List Row} (h : SameOrderOn nl order rows)
    (reverse : List String) (l : List (Row × Nat)) (hl : ∀ x ∈ l, x.1 ∈ rows) :
    Pl.sortIdx nl order reverse l = DAVerif.sortIdx order reverse l := by
  have := List.map_mergeSort (r := fun (a b : Row × Nat) => Pl.rowLe nl order reverse a.1 b.1)
    (s := fun (a b : Row × Nat) => DAVerif.rowLe order reverse a.1 b.1) (f := id) (l := l)
    (fun a ha b hb => h.rowLe reverse (hl a ha) (hl b hb))
  simpa [Pl.sortIdx, DAVerif.sortIdx] using this

theorem sortHead_eq {nl : Bool} {cs : List String} {t : Table} (h : SameOrderOn nl cs t.rows)
    (reverse : List String) (limit : Option Nat) : Pl.sortHead nl cs reverse limit t = semOrder cs reverse limit t := by
  cases limit <;> simp only [Pl.sortHead, semOrder, sortRows_eq h]

theorem sortRows_perm (nl : Bool) (cs rev : List String) (rows : List Row) :
    (Pl.sortRows nl cs rev rows).Perm rows := List.mergeSort_perm _ _

end Pl

theorem semExtendWindowPl_eq {nl : Bool} (Θ : Interp) (ops : Assign) (p o rv : List String) (t : Table)
    (oc : List String) (h : Pl.SameOrderOn nl o t.rows) :
    semExtendWindowPl nl Θ ops p o rv t oc = semExtendWindow Θ ops p o rv t oc := by
  simp only [semExtendWindowPl, semExtendWindow]
  congr 1
  apply List.map_congr_left
  intro ri _
  rw [Pl.sortIdx_eq h rv _ (fun x hx => List.fst_mem_of_mem_zipIdx (List.mem_filter.mp hx).1)]

/-- on a table whose rows are already in window order every partition is, too: the windowed extend is the
sort-free `semExtendWindowU` (used to evaluate concrete witnesses: `mergeSort` does not reduce in the kernel) -/
theorem semExtendWindowPl_of_sorted {nl : Bool} (Θ : Interp) (ops : Assign) (p o rv : List String) (t : Table)
    (oc : List String) (h : t.rows.Pairwise (fun a b => Pl.rowLe nl o rv a b = true)) :
    semExtendWindowPl nl Θ ops p o rv t oc = semExtendWindowU Θ ops p t oc := by
  have hz : t.rows.zipIdx.Pairwise (fun a b => Pl.rowLe nl o rv a.1 b.1 = true) := by
    have : (t.rows.zipIdx.map (·.1)).Pairwise (fun a b => Pl.rowLe nl o rv a b = true) := by
      rw [List.zipIdx_map_fst]; exact h
    exact List.pairwise_map.mp this
  have hs : ∀ (q : Row × Nat → Bool), Pl.sortIdx nl o rv (t.rows.zipIdx.filter q) = t.rows.zipIdx.filter q := by
    intro q
    apply List.mergeSort_of_pairwise
    exact List.Pairwise.sublist List.filter_sublist hz
  simp only [semExtendWindowPl, semExtendWindowU]
  congr 1
  apply List.map_congr_left
  intro ri _
  rw [hs]

theorem Pl.sortRows_of_sorted {nl : Bool} {cs rev : List String} {rows : List Row}
    (h : rows.Pairwise (fun a b => Pl.rowLe nl cs rev a b = true)) : Pl.sortRows nl cs rev rows = rows :=
  List.mergeSort_of_pairwise h

/-! ## B. expressions: outside the listed deviations both interpretations evaluate alike -/

mutual
theorem evalTerm_agree {cfg : Pl.Cfg} {Θpl Θ : Interp}
    (h : ∀ op args, Pl.scalarViol cfg op args = [] → Θpl.scalar op args = Θ.scalar op args) (r : Row) :
    ∀ t : Term, Pl.termViol cfg Θ r t = [] → evalTerm Θpl r t = evalTerm Θ r t
  | .value _, _ => rfl
  | .col _, _ => rfl
  | .list _, _ => rfl
  | .dict _, _ => rfl
  | .app op args _ _, hv => by
    simp only [Pl.termViol, List.append_eq_nil_iff] at hv
    simp only [evalTerm]
    rw [evalArgs_agree h r args hv.1, h op _ hv.2]
theorem evalArgs_agree {cfg : Pl.Cfg} {Θpl Θ : Interp}
    (h : ∀ op args, Pl.scalarViol cfg op args = [] → Θpl.scalar op args = Θ.scalar op args) (r : Row) :
    ∀ ts : List Term, Pl.termsViol cfg Θ r ts = [] → evalArgs Θpl r ts = evalArgs Θ r ts
  | [], _ => rfl
  | t :: ts, hv => by
    simp only [Pl.termsViol, List.append_eq_nil_iff] at hv
    simp only [evalArgs]
    rw [evalTerm_agree h r t hv.1, evalArgs_agree h r ts hv.2]
end

theorem evalCell_agree {cfg : Pl.Cfg} {Θpl Θ : Interp}
    (h : ∀ op args, Pl.scalarViol cfg op args = [] → Θpl.scalar op args = Θ.scalar op args) (r : Row) (t : Term)
    (hv : Pl.termViol cfg Θ r t = []) : evalCell Θpl r t = evalCell Θ r t := by
  simp only [evalCell, evalTerm_agree h r t hv]

theorem pl_flatMap_eq_nil {α β : Type} {l : List α} {f : α → List β} (h : l.flatMap f = []) :
    ∀ a ∈ l, f a = [] := by
  intro a ha
  exact List.flatMap_eq_nil_iff.mp h a ha

theorem semExtendPlain_agree {cfg : Pl.Cfg} {Θpl Θ : Interp}
    (h : ∀ op args, Pl.scalarViol cfg op args = [] → Θpl.scalar op args = Θ.scalar op args) (ops : Assign)
    (t : Table) (oc : List String) (hv : Pl.extendPlainViol cfg Θ ops t = []) :
    semExtendPlain Θpl ops t oc = semExtendPlain Θ ops t oc := by
  simp only [semExtendPlain]
  congr 1
  apply List.map_congr_left
  intro r hr
  have h1 := pl_flatMap_eq_nil hv r hr
  congr 2
  apply List.map_congr_left
  intro kv hkv
  rw [evalCell_agree h r kv.2 (pl_flatMap_eq_nil h1 kv hkv)]

theorem semSelectRows_agree {cfg : Pl.Cfg} {Θpl Θ : Interp}
    (h : ∀ op args, Pl.scalarViol cfg op args = [] → Θpl.scalar op args = Θ.scalar op args) (e : Term)
    (t : Table) (hv : Pl.selectRowsViol cfg Θ e t = []) : semSelectRows Θpl e t = semSelectRows Θ e t := by
  simp only [semSelectRows]
  congr 1
  apply List.filter_congr
  intro r hr
  rw [evalCell_agree h r e (pl_flatMap_eq_nil hv r hr)]

/-! ## C. project -/

theorem semProjectPl_agree {cfg : Pl.Cfg} {Θpl Θ : Interp}
    (hagg : ∀ op vs, Pl.aggViol cfg op vs = [] → Θpl.agg op vs = Θ.agg op vs) (ops : Assign)
    (group : List String) (t : Table) (oc : List String) (hv : Pl.projectViol cfg Θ ops group t = []) :
    semProjectPl Θpl ops group t oc = semProject Θ ops group t oc := by
  unfold semProjectPl Pl.projectViol at *
  unfold semProject
  cases hg : group.isEmpty with
  | true =>
    simp only [hg, if_true, Bool.true_and] at hv ⊢
    cases hr : t.rows.isEmpty with
    | true =>
      simp only [hr, if_true] at hv ⊢
      have hnil : t.rows = [] := List.isEmpty_iff.mp hr
      have hall : ops.all (fun kv => Θ.agg (opName kv.2) (argValues kv.2 []) == .null) = true := by
        cases hc : ops.all (fun kv => Θ.agg (opName kv.2) (argValues kv.2 []) == .null) with
        | true => rfl
        | false => simp [hc] at hv
      congr 3
      apply List.map_congr_left
      intro kv hkv
      have := List.all_eq_true.mp hall kv hkv
      rw [hnil, eq_of_beq this]
    | false =>
      simp only [hr, Bool.false_eq_true, if_false] at hv ⊢
      simp only [Pl.groupByAgg, semProject, hg, if_true]
      congr 3
      apply List.map_congr_left
      intro kv hkv
      rw [hagg _ _ (pl_flatMap_eq_nil hv kv hkv)]
  | false =>
    simp only [hg, Bool.false_and, Bool.false_eq_true, if_false] at hv ⊢
    simp only [Pl.groupByAgg, semProject, hg, Bool.false_eq_true, if_false]
    congr 1
    apply List.map_congr_left
    intro k hk
    have h1 := pl_flatMap_eq_nil hv k hk
    congr 2
    apply List.map_congr_left
    intro kv hkv
    rw [hagg _ _ (pl_flatMap_eq_nil h1 kv hkv)]

theorem semProjectPl_equiv (Θ : Interp) (ops : Assign) (group : List String) {t t' : Table} (h : t ≈ t')
    (oc : List String) (hA : ∀ kv ∈ ops, AggOrderFree Θ (opName kv.2)) :
    semProjectPl Θ ops group t oc ≈ semProjectPl Θ ops group t' oc := by
  unfold semProjectPl
  have he : t.rows.isEmpty = t'.rows.isEmpty := by
    rw [Bool.eq_iff_iff, List.isEmpty_iff_length_eq_zero, List.isEmpty_iff_length_eq_zero, h.2.length_eq]
  rw [he]
  split
  · exact Table.Equiv.refl _
  · exact semProject_equiv Θ ops group h oc hA

/-! ## D. windowed extend -/

theorem Table.pl_ext {t t' : Table} (h1 : t.cols = t'.cols) (h2 : t.rows = t'.rows) : t = t' := by
  cases t; cases t'; simp_all

theorem pl_aggRaises_false {project : Bool} {e : Term} (h : aggRaises project e = false) :
    ∃ op args i m, e = .app op args i m ∧ Pl.implStatus project args.length op = .ok := by
  cases e with
  | app op args i m =>
    refine ⟨op, args, i, m, rfl, ?_⟩
    simpa [aggRaises] using h
  | _ => simp [aggRaises] at h

/-- both interpretations give a windowed extend the same rows when no window meets a deviation -/
theorem semExtendWindow_agree {cfg : Pl.Cfg} {Θpl Θ : Interp}
    (hwin : ∀ op n cargs vs pos, Pl.implStatus false n op = .ok → Pl.aggViol cfg op vs = [] →
      Θpl.win op cargs vs pos = Θ.win op cargs vs pos)
    (ops : Assign) (part o rv : List String) (t : Table) (oc : List String)
    (hok1 : WinOK Θpl ops part o rv t.rows) (hok2 : WinOK Θ ops part o rv t.rows)
    (hnr : ∀ kv ∈ ops, aggRaises false kv.2 = false)
    (hv : t.rows.flatMap (fun r => ops.flatMap (fun kv =>
      Pl.aggViol cfg (opName kv.2) (argValues kv.2 (Pl.windowOf part o rv t.rows r)))) = []) :
    semExtendWindow Θpl ops part o rv t oc = semExtendWindow Θ ops part o rv t oc := by
  refine Table.pl_ext (by rfl) ?_
  rw [semExtendWindow_rows_eq Θpl ops part o rv t oc hok1, semExtendWindow_rows_eq Θ ops part o rv t oc hok2]
  apply List.map_congr_left
  intro r hr
  have h1 := pl_flatMap_eq_nil hv r hr
  simp only [winRow]
  congr 2
  apply List.map_congr_left
  intro kv hkv
  obtain ⟨op, args, i, m, he, hs⟩ := pl_aggRaises_false (hnr kv hkv)
  have h2 := pl_flatMap_eq_nil h1 kv hkv
  have hop : opName kv.2 = op := by rw [he]; rfl
  rw [hop] at h2 ⊢
  have h3 := hwin op args.length (constArgs kv.2) _ (List.idxOf r (sortRows o rv (partRows part t.rows r))) hs h2
  simp only [Pl.windowOf] at h3
  exact congrArg (Prod.mk kv.1) h3

/-- `_extend_step`, windowed: Polars on `t` vs Pandas on `t'` -/
theorem pl_extend_window_sound {cfg : Pl.Cfg} {Θpl Θ : Interp}
    (hwin : ∀ op n cargs vs pos, Pl.implStatus false n op = .ok → Pl.aggViol cfg op vs = [] →
      Θpl.win op cargs vs pos = Θ.win op cargs vs pos)
    (ops : Assign) (part o rv : List String) {t t' : Table} (h : t ≈ t') (oc : List String)
    (hok1 : WinOK Θpl ops part o rv t'.rows) (hok2 : WinOK Θ ops part o rv t'.rows)
    (hnr : ∀ kv ∈ ops, aggRaises false kv.2 = false)
    (hv : Pl.extendWindowViol cfg ops part o rv t' = []) :
    semExtendWindowPl cfg.nullsLast Θpl ops part o rv t oc ≈ semExtendWindow Θ ops part o rv t' oc := by
  simp only [Pl.extendWindowViol, List.append_eq_nil_iff] at hv
  have hs : Pl.SameOrderOn cfg.nullsLast o t'.rows := by
    apply Pl.sameOrderOn_of_hasNullIn
    cases hn : cfg.nullsLast with
    | true => rfl
    | false =>
      cases ho : o.isEmpty with
      | true =>
        have : o = [] := List.isEmpty_iff.mp ho
        subst this
        simp [Pl.hasNullIn]
      | false =>
        cases hh : Pl.hasNullIn o t'.rows with
        | false => rfl
        | true => simp [hn, ho, hh] at hv
  rw [semExtendWindowPl_eq Θpl ops part o rv t oc (hs.perm h.2.symm)]
  rw [← semExtendWindow_agree hwin ops part o rv t' oc hok1 hok2 hnr hv.2]
  exact semExtendWindow_equiv Θpl ops part o rv h oc (hok1.perm h.2.symm)

/-! ## E. order_rows -/

/-- `_order_rows_step`: Polars on `t` vs Pandas on `t'`, as multisets of rows -/
theorem pl_order_sound {cfg : Pl.Cfg} (cs rev : List String) (lim : Option Nat) {t t' : Table} (h : t ≈ t')
    (hlim : ∀ n, lim = some n → LimitOK cs rev n t'.rows)
    (hv : Pl.orderViol cfg cs lim t' = []) :
    Pl.sortHead cfg.nullsLast cs rev lim t ≈ semOrder cs rev lim t' := by
  cases lim with
  | none =>
    exact ⟨h.1, (Pl.sortRows_perm _ cs rev t.rows).trans (h.2.trans (DAVerif.sortRows_perm cs rev t'.rows).symm)⟩
  | some n =>
    have hs : Pl.SameOrderOn cfg.nullsLast cs t'.rows := by
      apply Pl.sameOrderOn_of_hasNullIn
      cases hn : cfg.nullsLast with
      | true => rfl
      | false =>
        cases hh : Pl.hasNullIn cs t'.rows with
        | false => rfl
        | true => simp [Pl.orderViol, hn, hh] at hv
    rw [Pl.sortHead_eq (hs.perm h.2.symm)]
    exact semOrder_limit_equiv cs rev n h ((hlim n rfl).perm h.2.symm)

end DAVerif
