import DAVerif.Proofs.SqlReach
import DAVerif.Proofs.BuilderReach
import DAVerif.Proofs.EqSqlBuild
import DAVerif.Proofs.RenameNear
/-!
C11, SQL half, generator layer: `toNear` (Sql/ToNearSql.lean) does not look at the `method` flag of the expressions it
carries: the translation of `p.erase` is the translation of `p` with the flags of the carried expressions forgotten,
with the same generated query names and the same counter, **except for the `ops_key` strings** (these are
`str(node)`-texts and do contain the printing form: relation `NE`, "modulo keys").

Reused from the renaming proofs (Proofs/RenameNearBasic.lean, Proofs/RenameNear.lean): the relational calculus `Ren.MRel`
for the generator's state monad, the named pieces of the extend translation (`Ren.extendStep` …) with
`Ren.toNear_extend_eq`, `Ren.fullSim`.

Main statements: `toNear_erase`, `toNearSql_erase`.
-/
namespace DAVerif
namespace C11Sql

open DAVerif.Sql
open DAVerif.Ops (usedFromSources unionL)
open DAVerif.Ren (MRel Deps setFromT setFromD ntPred nonTrivialTerms_eq extWin extWindowVars extOrig extTerms extDeps
  extFallback extMerged extFinish extendStep toNear_extend_eq fullSim except_map_bind any_map')

/-! ### trees equal up to `method` flags, modulo keys -/

/-- `n'` is `n` with the `method` flags forgotten, except possibly for the `ops_key`s -/
def NE (n' n : Near) : Prop := n'.eraseKeys = n.eraseM.eraseKeys

theorem NE.table (name : String) (ts : List String) : NE (.table name ts) (.table name ts) := rfl

theorem NE.unary {s' s : Near} (h : NE s' s) (name : String) {ts' ts : Option Terms} (hts : ts' = ts.map Terms.eraseM)
    (agg : Bool) (sc : Option (List String)) {sf' sf : Suffix} (hsf : sf' = sf.eraseM) (mg : Bool)
    (deps : Option (List (String × List String))) (k' k : Option String) :
    NE (.unary name ts' agg s' sc sf' mg deps k') (.unary name ts agg s sc sf mg deps k) := by
  subst hts hsf
  unfold NE at h ⊢
  simp only [Near.eraseKeys, Near.eraseM, h]

theorem NE.join {l' l r' r : Near} (hl : NE l' l) (hr : NE r' r) (name : String) {ts' ts : Terms}
    (hts : ts' = Terms.eraseM ts) (lc : List String) (ln : String) (rc : List String) (rn : String) (jt : JoinType)
    (oa ob : List String) (k' k : Option String) :
    NE (.join name ts' l' lc ln r' rc rn jt oa ob k') (.join name ts l lc ln r rc rn jt oa ob k) := by
  subst hts
  unfold NE at hl hr ⊢
  simp only [Near.eraseKeys, Near.eraseM, hl, hr]

theorem NE.union {l' l r' r : Near} (hl : NE l' l) (hr : NE r' r) (name : String) (ts : List String)
    (cols : List String) (k' k : Option String) :
    NE (.union name ts l' r' cols k') (.union name ts l r cols k) := by
  unfold NE at hl hr ⊢
  simp only [Near.eraseKeys, Near.eraseM, hl, hr]

theorem NE.unary_inv {n' : Near} {name : String} {ts : Option Terms} {agg : Bool} {s : Near}
    {sc : Option (List String)} {sf : Suffix} {mg : Bool} {deps : Option (List (String × List String))}
    {k : Option String} (h : NE n' (.unary name ts agg s sc sf mg deps k)) :
    ∃ s' k', NE s' s ∧ n' = .unary name (ts.map Terms.eraseM) agg s' sc sf.eraseM mg deps k' := by
  unfold NE at h
  cases n' with
  | unary n1 t1 a1 s1 c1 f1 m1 d1 k1 =>
    simp only [Near.eraseKeys, Near.eraseM, Near.unary.injEq] at h
    obtain ⟨rfl, rfl, rfl, hs, rfl, rfl, rfl, rfl, _⟩ := h
    exact ⟨s1, k1, hs, rfl⟩
  | _ => simp [Near.eraseKeys, Near.eraseM] at h

theorem NE.table_inv {n' : Near} {name : String} {ts : List String} (h : NE n' (.table name ts)) :
    n' = .table name ts := by
  unfold NE at h
  cases n' <;> simp [Near.eraseKeys, Near.eraseM] at h
  obtain ⟨rfl, rfl⟩ := h
  rfl

theorem NE.cte_inv {n' : Near} {name : String} (h : NE n' (.cte name)) : n' = .cte name := by
  unfold NE at h
  cases n' <;> simp [Near.eraseKeys, Near.eraseM] at h
  obtain rfl := h
  rfl

theorem NE.join_inv {n' : Near} {name : String} {ts : Terms} {l : Near} {lc : List String} {ln : String} {r : Near}
    {rc : List String} {rn : String} {jt : JoinType} {oa ob : List String} {k : Option String}
    (h : NE n' (.join name ts l lc ln r rc rn jt oa ob k)) :
    ∃ l' r' k', n' = .join name (Terms.eraseM ts) l' lc ln r' rc rn jt oa ob k' := by
  unfold NE at h
  cases n' with
  | join n1 t1 l1 lc1 ln1 r1 rc1 rn1 jt1 oa1 ob1 k1 =>
    simp only [Near.eraseKeys, Near.eraseM, Near.join.injEq] at h
    obtain ⟨rfl, rfl, _, rfl, rfl, _, rfl, rfl, rfl, rfl, rfl, _⟩ := h
    exact ⟨l1, r1, k1, rfl⟩
  | _ => simp [Near.eraseKeys, Near.eraseM] at h

theorem NE.union_inv {n' : Near} {name : String} {ts : List String} {l r : Near} {cols : List String}
    {k : Option String} (h : NE n' (.union name ts l r cols k)) :
    ∃ l' r' k', n' = .union name ts l' r' cols k' := by
  unfold NE at h
  cases n' with
  | union n1 t1 l1 r1 c1 k1 =>
    simp only [Near.eraseKeys, Near.eraseM, Near.union.injEq] at h
    obtain ⟨rfl, rfl, _, _, rfl, _⟩ := h
    exact ⟨l1, r1, k1, rfl⟩
  | _ => simp [Near.eraseKeys, Near.eraseM] at h

/-! ### helper functions of the generator -/

theorem mkTerms_eraseM (ts : Terms) : mkTerms (Terms.eraseM ts) = (mkTerms ts).map Terms.eraseM := by
  unfold mkTerms Terms.eraseM
  rw [List.isEmpty_map]
  split <;> rfl

theorem terms_keys (ts : Terms) : (Terms.eraseM ts).map (·.1) = ts.map (·.1) := by
  simp [Terms.eraseM, List.map_map, Function.comp_def]

theorem eraseM_pass (l : List String) :
    Terms.eraseM (l.map (fun k => (k, STerm.pass))) = l.map (fun k => (k, STerm.pass)) := by
  simp [Terms.eraseM, List.map_map, Function.comp_def, STerm.eraseM]

theorem mkTerms_pass (l : List String) :
    mkTerms (l.map (fun k => (k, STerm.pass))) = (mkTerms (l.map (fun k => (k, STerm.pass)))).map Terms.eraseM := by
  rw [← mkTerms_eraseM, eraseM_pass]

theorem lookupLast_eraseM (ts : Terms) (k : String) :
    lookupLast (Terms.eraseM ts) k = (lookupLast ts k).map STerm.eraseM :=
  Ren.lookupLast_map (f := id) Function.injective_id STerm.eraseM ts k

theorem dictSet_eraseM (d : Terms) (k : String) (t : STerm) :
    dictSet (Terms.eraseM d) k t.eraseM = Terms.eraseM (dictSet d k t) :=
  Ren.dictSet_map (f := id) Function.injective_id STerm.eraseM d k t

theorem filterMap_lookup (ts : Terms) (keys : List String) :
    keys.filterMap (fun k => (lookupLast (Terms.eraseM ts) k).map (fun t => (k, t)))
      = Terms.eraseM (keys.filterMap (fun k => (lookupLast ts k).map (fun t => (k, t)))) := by
  induction keys with
  | nil => rfl
  | cons k keys ih =>
    rw [List.filterMap_cons, List.filterMap_cons, lookupLast_eraseM]
    cases lookupLast ts k with
    | none => exact ih
    | some t =>
      simp only [Option.map_some]
      rw [ih]
      rfl

theorem erase_filter_contains (ops : Assign) (l : List String) :
    (eraseAssign ops).filter (fun kv => l.contains kv.1) = eraseAssign (ops.filter (fun kv => l.contains kv.1)) :=
  erase_filter_key ops (fun k => l.contains k)

theorem setTermKeys_eraseM (n : Near) (keys : List String) (sel : Bool) :
    setTermKeys n.eraseM keys sel = (setTermKeys n keys sel).map Near.eraseM := by
  cases hk : keys.isEmpty <;> cases n with
  | table name ts =>
    simp only [Near.eraseM, setTermKeys, hk, Bool.false_eq_true, if_false, if_true] <;>
    first | rfl | (split <;> rfl)
  | cte name => rfl
  | unary name ts agg sub sc sf mg deps key =>
    cases ts with
    | none =>
      simp only [Near.eraseM, Option.map_none, setTermKeys, hk]
      cases sel with
      | true =>
        simp only [if_true, Option.map_some, Near.eraseM, eraseM_pass]
      | false =>
        simp only [Bool.false_eq_true, if_false, if_true] <;>
        first | rfl | (split <;> rfl)
    | some ts =>
      simp only [Near.eraseM, Option.map_some, setTermKeys, terms_keys, hk, Bool.false_eq_true, if_false, if_true] <;>
      first
      | rfl
      | (split
         · simp only [Option.map_some, Near.eraseM, filterMap_lookup]
         · rfl)
  | join name ts l lc ln r rc rn jt oa ob key =>
    simp only [Near.eraseM, setTermKeys, terms_keys, hk, Bool.false_eq_true, if_false, if_true] <;>
    first
    | rfl
    | (split
       · simp only [Option.map_some, Near.eraseM, filterMap_lookup]
       · rfl)
  | union name ts l r cs key =>
    simp only [Near.eraseM, setTermKeys, hk, Bool.false_eq_true, if_false, if_true] <;>
    first | rfl | (split <;> rfl)

/-- `setTermKeys` on related trees: both fail, or both succeed with related trees -/
theorem setTermKeys_NE {n' n : Near} (h : NE n' n) (keys : List String) (sel : Bool) :
    match setTermKeys n' keys sel, setTermKeys n keys sel with
    | some m', some m => NE m' m
    | none, none => True
    | _, _ => False := by
  have h1 := Ren.setTermKeys_eraseKeys n' keys sel
  have h2 := Ren.setTermKeys_eraseKeys n.eraseM keys sel
  rw [setTermKeys_eraseM] at h2
  unfold NE at h
  rw [h, h2] at h1
  cases h' : setTermKeys n' keys sel <;> cases h0 : setTermKeys n keys sel <;>
    simp only [h', h0, Option.map_none, Option.map_some, reduceCtorEq, Option.some.injEq] at h1
  · trivial
  · exact h1.symm

theorem isPass_eraseM (t : STerm) : isPass t.eraseM = isPass t := by cases t <;> rfl

theorem ntPred_eraseM (terms : Terms) (kv : String × List String) : ntPred (Terms.eraseM terms) kv = ntPred terms kv := by
  unfold ntPred
  have h1 : (Terms.eraseM terms).any (fun t => t.1 == kv.1) = terms.any (fun t => t.1 == kv.1) := by
    unfold Terms.eraseM
    exact any_map' _ terms _ _ (fun _ => rfl)
  simp only [h1, lookupLast_eraseM]
  cases lookupLast terms kv.1 with
  | none => rfl
  | some t => simp only [Option.map_some, isPass_eraseM]

theorem nonTrivialTerms_eraseM (deps : Deps) (terms : Terms) :
    nonTrivialTerms deps (Terms.eraseM terms) = nonTrivialTerms deps terms := by
  rw [nonTrivialTerms_eq, nonTrivialTerms_eq]
  congr 1
  apply List.filter_congr
  intro kv _
  exact ntPred_eraseM terms kv

theorem fold_setFromT (terms sterms : Terms) (nt : List String) :
    nt.foldl (setFromT (Terms.eraseM terms)) (Terms.eraseM sterms) = Terms.eraseM (nt.foldl (setFromT terms) sterms) := by
  induction nt generalizing sterms with
  | nil => rfl
  | cons k nt ih =>
    simp only [List.foldl_cons]
    have : setFromT (Terms.eraseM terms) (Terms.eraseM sterms) k = Terms.eraseM (setFromT terms sterms k) := by
      unfold setFromT
      rw [lookupLast_eraseM]
      cases lookupLast terms k with
      | none => rfl
      | some t => exact dictSet_eraseM sterms k t
    rw [this]
    exact ih _

theorem filter_keys_terms (ts : Terms) (use : List String) :
    (Terms.eraseM ts).filter (fun kv => use.contains kv.1) = Terms.eraseM (ts.filter (fun kv => use.contains kv.1)) := by
  unfold Terms.eraseM
  rw [List.filter_map]
  rfl

theorem fold_ident_map (m : List (String × String)) (d : Terms) :
    m.foldl (fun d kv => dictSet d kv.2 (STerm.ident kv.1)) (Terms.eraseM d)
      = Terms.eraseM (m.foldl (fun d kv => dictSet d kv.2 (STerm.ident kv.1)) d) := by
  induction m generalizing d with
  | nil => rfl
  | cons kv m ih =>
    simp only [List.foldl_cons]
    rw [← ih, ← dictSet_eraseM]
    rfl

theorem fold_ident_ren (m : List (String × String)) (d : Terms) :
    m.foldl (fun d kv => dictSet d kv.1 (STerm.ident kv.2)) (Terms.eraseM d)
      = Terms.eraseM (m.foldl (fun d kv => dictSet d kv.1 (STerm.ident kv.2)) d) := by
  induction m generalizing d with
  | nil => rfl
  | cons kv m ih =>
    simp only [List.foldl_cons]
    rw [← ih, ← dictSet_eraseM]
    rfl

theorem fold_pass (l : List String) (d : Terms) :
    l.foldl (fun d c => dictSet d c STerm.pass) (Terms.eraseM d)
      = Terms.eraseM (l.foldl (fun d c => dictSet d c STerm.pass) d) := by
  induction l generalizing d with
  | nil => rfl
  | cons c l ih =>
    simp only [List.foldl_cons]
    rw [← ih, ← dictSet_eraseM]
    rfl

/-- the term dictionaries of `rename_columns` / `map_columns` carry no expression -/
theorem renTerms_eraseM (l : List String) (m : List (String × String)) :
    l.foldl (fun d c => dictSet d c STerm.pass) (m.foldl (fun d kv => dictSet d kv.1 (STerm.ident kv.2)) [])
      = Terms.eraseM (l.foldl (fun d c => dictSet d c STerm.pass) (m.foldl (fun d kv => dictSet d kv.1 (STerm.ident kv.2)) [])) := by
  rw [← fold_pass, ← fold_ident_ren]
  rfl

theorem mapTerms_eraseM (l : List String) (m : List (String × String)) :
    l.foldl (fun d c => dictSet d c STerm.pass) (m.foldl (fun d kv => dictSet d kv.2 (STerm.ident kv.1)) [])
      = Terms.eraseM (l.foldl (fun d c => dictSet d c STerm.pass) (m.foldl (fun d kv => dictSet d kv.2 (STerm.ident kv.1)) [])) := by
  rw [← fold_pass, ← fold_ident_map]
  rfl

theorem joinTerms_eraseM (lf : Bool) (A B C : List String) :
    List.map (fun c => (c, STerm.coalesce lf c)) A ++ List.map (fun c => (c, STerm.qual true c)) B ++
      List.map (fun c => (c, STerm.qual false c)) C
    = Terms.eraseM (List.map (fun c => (c, STerm.coalesce lf c)) A ++
        List.map (fun c => (c, STerm.qual true c)) B ++ List.map (fun c => (c, STerm.qual false c)) C) := by
  simp only [Terms.eraseM, List.map_append, List.map_map]
  rfl

/-! ### relating two runs of the generator monad -/

/-- the induction hypothesis of the translation: all pipelines with one unit of fuel less -/
def IH (cfg : SqlCfg) (fuel : Nat) : Prop :=
  ∀ (p : Ops) (u : Option (List String)), MRel NE (toNear cfg fuel p.erase u) (toNear cfg fuel p u)

theorem toNear_table (cfg : SqlCfg) (fuel : Nat) (name : String) (cs : List String) (u : Option (List String)) :
    MRel NE (toNear cfg (fuel + 1) (Ops.table name cs).erase u) (toNear cfg (fuel + 1) (.table name cs) u) := by
  simp only [Ops.erase]
  rw [toNear.eq_2]
  generalize u.getD cs = usg
  refine MRel.guard_bind rfl _ ?_
  refine MRel.ite rfl ?_ ?_
  · refine MRel.bind MRel.fresh (fun i' i hi => ?_)
    subst hi
    exact MRel.pure (NE.unary (NE.table _ _) _ (mkTerms_pass _) _ (some usg) (sf := .none) rfl _ none _ _)
  · exact MRel.pure (NE.table _ _)

/-! ### `extend` -/
theorem extTerms_erase (usg : List String) (subops : Assign) (win : Option Win) :
    extTerms usg (eraseAssign subops) win = Terms.eraseM (extTerms usg subops win) := by
  simp only [extTerms, extOrig, keys_erase]
  simp only [Terms.eraseM, eraseAssign, List.map_append, List.map_map]
  rfl

theorem extDeps_erase (usg : List String) (subops : Assign) (wv : List String) :
    extDeps usg (eraseAssign subops) wv = extDeps usg subops wv := by
  simp only [extDeps, extOrig, keys_erase]
  simp only [eraseAssign, List.map_map]
  congr 1
  apply List.map_congr_left
  intro kv _
  simp only [Function.comp, colsUsed_erase]

theorem extFallback_rel {sub' sub : Near} (hs : NE sub' sub) (n' n : Ops) (su : List String) (terms : Terms)
    (deps : Deps) :
    MRel NE (extFallback n' su sub' (Terms.eraseM terms) deps) (extFallback n su sub terms deps) := by
  unfold extFallback
  refine MRel.bind MRel.fresh (fun i' i hi => ?_)
  subst hi
  exact MRel.pure (NE.unary hs _ (mkTerms_eraseM _) _ (some su) (sf := .none) rfl _ (some deps) _ _)

theorem extMerged_rel {ssub' ssub : Near} (hss : NE ssub' ssub) (n' n : Ops) (terms : Terms)
    (deps : Deps) (sname : String) (sterms : Terms) (sagg : Bool) (scols : Option (List String)) (sdeps : Deps)
    {fb' fb : M Near} (hfb : MRel NE fb' fb) :
    MRel NE
      (extMerged n' (Terms.eraseM terms) deps sname (Terms.eraseM sterms) sagg ssub' scols sdeps fb')
      (extMerged n terms deps sname sterms sagg ssub scols sdeps fb) := by
  unfold extMerged
  simp only [nonTrivialTerms_eraseM, fold_setFromT, terms_keys, filter_keys_terms]
  refine MRel.ite rfl ?_ hfb
  exact MRel.pure (NE.unary hss _ (ts := some _) rfl _ scols (sf := .none) rfl _ (some _) _ _)

theorem extFinish_rel (cfg : SqlCfg) {sub' sub : Near} (hs : NE sub' sub) (n' n : Ops)
    (su : List String) (terms : Terms) (deps : Deps) :
    MRel NE (extFinish cfg n' su sub' (Terms.eraseM terms) deps) (extFinish cfg n su sub terms deps) := by
  have hfb := extFallback_rel hs n' n su terms deps
  cases sub with
  | table name ts =>
    have := hs.table_inv; subst this
    cases hm : cfg.merges <;> (simp only [extFinish, hm]; exact hfb)
  | cte name =>
    have := hs.cte_inv; subst this
    cases hm : cfg.merges <;> (simp only [extFinish, hm]; exact hfb)
  | join name ts l lc ln r rc rn jt oa ob k =>
    obtain ⟨l', r', k', rfl⟩ := hs.join_inv
    cases hm : cfg.merges <;> (simp only [extFinish, hm]; exact hfb)
  | union name ts l r cols k =>
    obtain ⟨l', r', k', rfl⟩ := hs.union_inv
    cases hm : cfg.merges <;> (simp only [extFinish, hm]; exact hfb)
  | unary name ts agg ss sc sf mg dp k =>
    obtain ⟨ss', k', hss, rfl⟩ := hs.unary_inv
    cases hm : cfg.merges with
    | false => cases ts <;> cases sf <;> cases mg <;> cases dp <;> (simp only [extFinish, hm]; exact hfb)
    | true =>
      cases ts with
      | none => cases sf <;> cases mg <;> cases dp <;> (simp only [extFinish, hm]; exact hfb)
      | some ts =>
        cases sf with
        | none =>
          cases mg with
          | false => cases dp <;> (simp only [extFinish, hm]; exact hfb)
          | true =>
            cases dp with
            | none => simp only [extFinish, hm]; exact hfb
            | some dp =>
              simp only [extFinish, hm, Option.map_some, Suffix.eraseM]
              exact extMerged_rel hss n' n terms deps name ts agg sc dp hfb
        | whereE e => cases mg <;> cases dp <;> (simp only [extFinish, hm]; exact hfb)
        | groupBy g => cases mg <;> cases dp <;> (simp only [extFinish, hm]; exact hfb)
        | orderBy a b c => cases mg <;> cases dp <;> (simp only [extFinish, hm]; exact hfb)

theorem extendStep_rel (cfg : SqlCfg) {rec' rec : Option (List String) → M Near}
    (hrec : ∀ u, MRel NE (rec' u) (rec u))
    (src : Ops) (ops : Assign) (part od rv : List String) (w : Bool) (u : Option (List String)) :
    MRel NE (extendStep cfg rec' src.erase (eraseAssign ops) part od rv w u) (extendStep cfg rec src ops part od rv w u) := by
  have hcols := cols_erase (Ops.extend src ops part od rv w)
  have hufs := fun usg => usedFromSources_erase (Ops.extend src ops part od rv w) usg
  simp only [Ops.erase] at hcols hufs
  unfold extendStep
  simp only [hcols, erase_filter_contains, erase_isEmpty, hufs, extTerms_erase, extDeps_erase]
  refine MRel.ite rfl (hrec (some _)) ?_
  refine MRel.guard_bind rfl _ ?_
  refine MRel.guard_bind rfl _ ?_
  refine MRel.bind (hrec (some _)) (fun sub' sub hs => ?_)
  exact extFinish_rel cfg hs _ _ _ _ _

theorem toNear_extend (cfg : SqlCfg) (fuel : Nat) (ih : IH cfg fuel)
    (src : Ops) (ops : Assign) (part od rv : List String) (w : Bool) (u : Option (List String)) :
    MRel NE (toNear cfg (fuel + 1) (Ops.extend src ops part od rv w).erase u)
      (toNear cfg (fuel + 1) (.extend src ops part od rv w) u) := by
  simp only [Ops.erase, toNear_extend_eq]
  exact extendStep_rel cfg (fun u => ih src u) src ops part od rv w u

/-! ### the other unary steps -/
theorem toNear_selectRows (cfg : SqlCfg) (fuel : Nat) (ih : IH cfg fuel) (src : Ops) (e : Term) (u : Option (List String)) :
    MRel NE (toNear cfg (fuel + 1) (Ops.selectRows src e).erase u) (toNear cfg (fuel + 1) (.selectRows src e) u) := by
  have hcols := cols_erase (Ops.selectRows src e)
  have hufs := fun usg => usedFromSources_erase (Ops.selectRows src e) usg
  simp only [Ops.erase] at hcols hufs ⊢
  rw [toNear.eq_5, toNear.eq_5, hcols]
  generalize u.getD (Ops.selectRows src e).cols = usg
  simp only [hufs]
  refine MRel.bind (ih src (some _)) (fun sub' sub hs => ?_)
  refine MRel.bind MRel.fresh (fun i' i hi => ?_)
  subst hi
  exact MRel.pure (NE.unary hs _ (mkTerms_pass _) _ (some _) (sf := .whereE e) rfl _ none _ _)

/-- the tail of `select_columns` / `drop_columns`: restrict the term dictionary of the sub-query -/
theorem setTermKeys_rel {sub' sub : Near} (hs : NE sub' sub) (keys : List String) (sel : Bool) :
    MRel NE
      (match setTermKeys sub' keys sel with
        | some s => pure s
        | none => liftE (Except.error Err.keyError))
      (match setTermKeys sub keys sel with
        | some s => pure s
        | none => liftE (Except.error Err.keyError)) := by
  have h := setTermKeys_NE hs keys sel
  cases h' : setTermKeys sub' keys sel <;> cases h0 : setTermKeys sub keys sel <;>
    simp only [h', h0] at h ⊢
  · exact MRel.error _
  · exact MRel.pure h

theorem toNear_selectCols (cfg : SqlCfg) (fuel : Nat) (ih : IH cfg fuel) (src : Ops) (cs : List String)
    (u : Option (List String)) :
    MRel NE (toNear cfg (fuel + 1) (Ops.selectCols src cs).erase u) (toNear cfg (fuel + 1) (.selectCols src cs) u) := by
  simp only [Ops.erase]
  rw [toNear.eq_6, toNear.eq_6]
  refine MRel.bind (ih src (some _)) (fun sub' sub hs => ?_)
  exact setTermKeys_rel hs _ true

theorem toNear_dropCols (cfg : SqlCfg) (fuel : Nat) (ih : IH cfg fuel) (src : Ops) (ds : List String)
    (u : Option (List String)) :
    MRel NE (toNear cfg (fuel + 1) (Ops.dropCols src ds).erase u) (toNear cfg (fuel + 1) (.dropCols src ds) u) := by
  have hcols := cols_erase (Ops.dropCols src ds)
  simp only [Ops.erase] at hcols ⊢
  rw [toNear.eq_7, toNear.eq_7, hcols]
  refine MRel.bind (ih src (some _)) (fun sub' sub hs => ?_)
  exact setTermKeys_rel hs _ false

theorem toNear_order (cfg : SqlCfg) (fuel : Nat) (ih : IH cfg fuel) (src : Ops) (cs rv : List String) (lim : Option Nat)
    (u : Option (List String)) :
    MRel NE (toNear cfg (fuel + 1) (Ops.order src cs rv lim).erase u) (toNear cfg (fuel + 1) (.order src cs rv lim) u) := by
  have hcols := cols_erase (Ops.order src cs rv lim)
  have hufs := fun usg => usedFromSources_erase (Ops.order src cs rv lim) usg
  simp only [Ops.erase] at hcols hufs ⊢
  rw [toNear.eq_8, toNear.eq_8, hcols]
  generalize u.getD (Ops.order src cs rv lim).cols = usg
  simp only [hufs]
  refine MRel.bind (ih src (some _)) (fun sub' sub hs => ?_)
  refine MRel.bind MRel.fresh (fun i' i hi => ?_)
  subst hi
  cases hce : (cs.isEmpty && lim.isNone) <;>
    simp only [if_true, if_false, Bool.false_eq_true] <;>
    first
    | exact MRel.pure (NE.unary hs _ (mkTerms_pass _) _ (some _) (sf := Suffix.none) rfl _ none _ _)
    | exact MRel.pure (NE.unary hs _ (mkTerms_pass _) _ (some _) (sf := Suffix.orderBy cs rv lim) rfl _ none _ _)

theorem toNear_mapCols (cfg : SqlCfg) (fuel : Nat) (ih : IH cfg fuel) (src : Ops) (m : List (String × String))
    (ds : List String) (u : Option (List String)) :
    MRel NE (toNear cfg (fuel + 1) (Ops.mapCols src m ds).erase u) (toNear cfg (fuel + 1) (.mapCols src m ds) u) := by
  have hcols := cols_erase (Ops.mapCols src m ds)
  have hufs := fun usg => usedFromSources_erase (Ops.mapCols src m ds) usg
  simp only [Ops.erase] at hcols hufs ⊢
  rw [toNear.eq_9, toNear.eq_9, hcols]
  simp only [hufs]
  refine MRel.bind (ih src (some _)) (fun sub' sub hs => ?_)
  refine MRel.bind MRel.fresh (fun i' i hi => ?_)
  subst hi
  refine MRel.pure (NE.unary hs _ ?_ _ (some _) (sf := Suffix.none) rfl _ none _ _)
  rw [← mkTerms_eraseM, ← mapTerms_eraseM]

theorem toNear_rename (cfg : SqlCfg) (fuel : Nat) (ih : IH cfg fuel) (src : Ops) (m : List (String × String))
    (u : Option (List String)) :
    MRel NE (toNear cfg (fuel + 1) (Ops.rename src m).erase u) (toNear cfg (fuel + 1) (.rename src m) u) := by
  have hcols := cols_erase (Ops.rename src m)
  have hufs := fun usg => usedFromSources_erase (Ops.rename src m) usg
  simp only [Ops.erase] at hcols hufs ⊢
  rw [toNear.eq_10, toNear.eq_10, hcols]
  simp only [hufs]
  refine MRel.bind (ih src (some _)) (fun sub' sub hs => ?_)
  refine MRel.bind MRel.fresh (fun i' i hi => ?_)
  subst hi
  refine MRel.pure (NE.unary hs _ ?_ _ (some _) (sf := Suffix.none) rfl _ none _ _)
  rw [← mkTerms_eraseM, ← renTerms_eraseM]

theorem projTerms_erase (so : Assign) (group : List String) :
    List.map (fun kv => (kv.1, STerm.expr kv.2 none)) (eraseAssign so) ++
        List.map (fun g => (g, STerm.pass))
          (List.filter (fun g => !(List.map (fun x => x.1) (eraseAssign so)).contains g) group)
      = Terms.eraseM (List.map (fun kv => (kv.1, STerm.expr kv.2 none)) so ++
          List.map (fun g => (g, STerm.pass)) (List.filter (fun g => !(List.map (fun x => x.1) so).contains g) group)) := by
  rw [keys_erase]
  simp only [Terms.eraseM, eraseAssign, List.map_append, List.map_map]
  rfl

theorem projTerms_erase' (so : Assign) (group : List String) :
    List.map (fun kv => (kv.1, STerm.expr kv.2 none)) (eraseAssign so) ++
        List.map (fun g => (g, STerm.pass))
          (List.filter (fun g => !(List.map (fun x => x.1) so).contains g) group)
      = Terms.eraseM (List.map (fun kv => (kv.1, STerm.expr kv.2 none)) so ++
          List.map (fun g => (g, STerm.pass)) (List.filter (fun g => !(List.map (fun x => x.1) so).contains g) group)) := by
  rw [← projTerms_erase, keys_erase]

theorem toNear_project (cfg : SqlCfg) (fuel : Nat) (ih : IH cfg fuel) (src : Ops) (ops : Assign) (g : List String)
    (u : Option (List String)) :
    MRel NE (toNear cfg (fuel + 1) (Ops.project src ops g).erase u) (toNear cfg (fuel + 1) (.project src ops g) u) := by
  have hcols := cols_erase (Ops.project src ops g)
  have hufs := fun usg => usedFromSources_erase (Ops.project src ops g) usg
  simp only [Ops.erase] at hcols hufs ⊢
  rw [toNear.eq_4, toNear.eq_4, hcols]
  generalize u.getD (Ops.project src ops g).cols = usg0
  simp only [erase_filter_contains, erase_isEmpty, erase_take]
  have hsf : ∀ sf : Suffix, sf = (if g.isEmpty = true then Suffix.none else Suffix.groupBy g) → sf = sf.eraseM := by
    intro sf h; subst h; split <;> rfl
  cases hcond : ((ops.filter (fun kv => usg0.contains kv.1)).isEmpty && g.isEmpty && !ops.isEmpty)
  · simp only [Bool.false_eq_true, if_false, hufs, projTerms_erase, mkTerms_eraseM]
    refine MRel.bind (ih src (some _)) (fun sub' sub hs => ?_)
    refine MRel.bind MRel.fresh (fun i' i hi => ?_)
    subst hi
    exact MRel.pure (NE.unary hs _ rfl _ (some _) (hsf _ rfl) _ none _ _)
  · simp only [if_true, keys_erase, hufs, projTerms_erase', mkTerms_eraseM]
    refine MRel.bind (ih src (some _)) (fun sub' sub hs => ?_)
    refine MRel.bind MRel.fresh (fun i' i hi => ?_)
    subst hi
    exact MRel.pure (NE.unary hs _ rfl _ (some _) (hsf _ rfl) _ none _ _)

/-! ### binary steps -/
theorem fullSim_erase (a b : Ops) (onA : List String) :
    fullSim a.erase b.erase onA = (fullSim a b onA).map Ops.erase := by
  unfold fullSim
  have hb := fun (p : Ops) (s : Step) => build_erase p s
  have h1 := hb a (.project [] onA)
  have h2 := hb b (.project [] onA)
  simp only [eraseStep, eraseAssign, List.map_nil] at h1 h2
  rw [h1]
  refine except_map_bind _ _ _ _ _ (fun ka => ?_)
  rw [h2]
  refine except_map_bind _ _ _ _ _ (fun kb => ?_)
  have h3 := hb ka (.concat (some kb) none "a" "b")
  simp only [eraseStep, Option.map_some] at h3
  rw [h3]
  refine except_map_bind _ _ _ _ _ (fun ks => ?_)
  have h4 := hb ks (.project [] onA)
  simp only [eraseStep, eraseAssign, List.map_nil] at h4
  rw [h4]
  refine except_map_bind _ _ _ _ _ (fun ks2 => ?_)
  have h5 := hb ks2 (.join a onA onA "left" false)
  simp only [eraseStep] at h5
  rw [h5]
  refine except_map_bind _ _ _ _ _ (fun j1 => ?_)
  have h6 := hb j1 (.join b onA onA "left" false)
  simp only [eraseStep] at h6
  exact h6

theorem liftE_build_rel {e' e : Except Err Ops} (h : e' = e.map Ops.erase) :
    MRel (fun (p' p : Ops) => p' = p.erase) (liftE e') (liftE e) := by
  subst h
  apply MRel.liftE
  cases e <;> simp [Except.map]

theorem toNear_join (cfg : SqlCfg) (fuel : Nat) (ih : IH cfg fuel) (a b : Ops) (oa ob : List String) (jt : JoinType)
    (u : Option (List String)) :
    MRel NE (toNear cfg (fuel + 1) (Ops.join a b oa ob jt).erase u) (toNear cfg (fuel + 1) (.join a b oa ob jt) u) := by
  have hcols := cols_erase (Ops.join a b oa ob jt)
  simp only [Ops.erase] at hcols ⊢
  rw [toNear.eq_11, toNear.eq_11, hcols]
  generalize u.getD (Ops.join a b oa ob jt).cols = usg0
  refine MRel.ite rfl ?_ ?_
  · refine MRel.guard_bind rfl _ ?_
    refine MRel.guard_bind rfl _ ?_
    refine MRel.bind (liftE_build_rel ?_) (fun sim' sim hsim => ?_)
    · exact fullSim_erase a b oa
    · subst hsim
      exact ih sim (some usg0)
  · generalize (if usg0.isEmpty = true then List.take 1 (Ops.join a b oa ob jt).cols else usg0) = usg
    refine MRel.bind MRel.fresh (fun i' i hi => ?_)
    subst hi
    refine MRel.guard_bind rfl _ ?_
    refine MRel.guard_bind rfl _ ?_
    generalize unionL (unionL usg oa) ob = uu
    cases hsw : (cfg.emulateRightFull && jt == JoinType.right)
    · simp only [Bool.false_eq_true, if_false, cols_erase]
      refine MRel.bind (ih a (some _)) (fun nl' nl hl => ?_)
      refine MRel.bind (ih b (some _)) (fun nr' nr hr => ?_)
      exact MRel.pure (NE.join hl hr _ (joinTerms_eraseM _ _ _ _) _ _ _ _ _ _ _ _ _)
    · simp only [if_true, cols_erase]
      refine MRel.bind (ih b (some _)) (fun nl' nl hl => ?_)
      refine MRel.bind (ih a (some _)) (fun nr' nr hr => ?_)
      exact MRel.pure (NE.join hl hr _ (joinTerms_eraseM _ _ _ _) _ _ _ _ _ _ _ _ _)

theorem toNear_concat (cfg : SqlCfg) (fuel : Nat) (ih : IH cfg fuel) (a b : Ops) (idc : Option String) (an bn : String)
    (u : Option (List String)) :
    MRel NE (toNear cfg (fuel + 1) (Ops.concat a b idc an bn).erase u) (toNear cfg (fuel + 1) (.concat a b idc an bn) u) := by
  have hcols := cols_erase (Ops.concat a b idc an bn)
  have hufs := fun usg => usedFromSources_erase (Ops.concat a b idc an bn) usg
  simp only [Ops.erase] at hcols hufs ⊢
  rw [toNear.eq_12, toNear.eq_12, hcols]
  generalize u.getD (Ops.concat a b idc an bn).cols = usg0
  generalize (if usg0.isEmpty = true then List.take 1 (Ops.concat a b idc an bn).cols else usg0) = usg
  simp only [hufs]
  refine MRel.guard_bind rfl _ ?_
  refine MRel.guard_bind rfl _ ?_
  cases idc with
  | none =>
    refine MRel.bind (ih a (some _)) (fun nl' nl hl => ?_)
    refine MRel.bind (ih b (some _)) (fun nr' nr hr => ?_)
    refine MRel.bind MRel.fresh (fun i' i hi => ?_)
    subst hi
    exact MRel.pure (NE.union hl hr _ _ _ _ _)
  | some c =>
    have hb := fun (p : Ops) (nm : String) => build_erase p (.extend [(c, .value (.str nm))] .none [] [])
    simp only [eraseStep, eraseAssign, List.map_cons, List.map_nil, Term.erase] at hb
    refine MRel.bind (liftE_build_rel (hb a an)) (fun a' a0 ha => ?_)
    subst ha
    refine MRel.bind (ih a0 (some _)) (fun nl' nl hl => ?_)
    refine MRel.bind (liftE_build_rel (hb b bn)) (fun b' b0 hb' => ?_)
    subst hb'
    refine MRel.bind (ih b0 (some _)) (fun nr' nr hr => ?_)
    refine MRel.bind MRel.fresh (fun i' i hi => ?_)
    subst hi
    exact MRel.pure (NE.union hl hr _ _ _ _ _)

/-- **the translation does not look at the `method` flags** (modulo `ops_key`; same generated query names, same
counter), for every amount of fuel -/
theorem toNear_erase (cfg : SqlCfg) : ∀ fuel, IH cfg fuel := by
  intro fuel
  induction fuel with
  | zero =>
    intro p u
    rw [toNear.eq_1, toNear.eq_1]
    exact MRel.error _
  | succ fuel ih =>
    intro p u
    cases p with
    | table name cs => exact toNear_table cfg fuel name cs u
    | extend src ops part od rv w => exact toNear_extend cfg fuel ih src ops part od rv w u
    | project src ops g => exact toNear_project cfg fuel ih src ops g u
    | selectRows src e => exact toNear_selectRows cfg fuel ih src e u
    | selectCols src cs => exact toNear_selectCols cfg fuel ih src cs u
    | dropCols src ds => exact toNear_dropCols cfg fuel ih src ds u
    | order src cs rv lim => exact toNear_order cfg fuel ih src cs rv lim u
    | rename src m => exact toNear_rename cfg fuel ih src m u
    | mapCols src m ds => exact toNear_mapCols cfg fuel ih src m ds u
    | join a b oa ob jt => exact toNear_join cfg fuel ih a b oa ob jt u
    | concat a b idc an bn => exact toNear_concat cfg fuel ih a b idc an bn u
    | convert src rm =>
      simp only [Ops.erase]
      rw [toNear.eq_13, toNear.eq_13]
      exact MRel.error _

/-- `to_near_sql_implementation_` of the pipeline without `method` flags is the NearSQL tree of the pipeline without
`method` flags (same error otherwise), `ops_key`s aside -/
theorem toNearSql_erase (cfg : SqlCfg) (p : Ops) :
    (toNearSql cfg p.erase).map Near.eraseKeys = (toNearSql cfg p).map Near.sqlShape := by
  unfold toNearSql
  rw [size_erase]
  have h := toNear_erase cfg (6 * p.size + 6) p none 0
  simp only [StateT.run]
  cases h' : toNear cfg (6 * p.size + 6) p.erase none 0 with
  | error e' =>
    cases h0 : toNear cfg (6 * p.size + 6) p none 0 with
    | error e => rw [h', h0] at h; simp only at h; subst h; rfl
    | ok v => rw [h', h0] at h; exact h.elim
  | ok v' =>
    cases h0 : toNear cfg (6 * p.size + 6) p none 0 with
    | error e => rw [h', h0] at h; exact h.elim
    | ok v =>
      rw [h', h0] at h
      obtain ⟨n', s'⟩ := v'
      obtain ⟨n, s⟩ := v
      obtain ⟨hn, _⟩ := h
      simp only [bind, Except.bind, pure, Except.pure, Except.map]
      exact congrArg Except.ok hn

end C11Sql
end DAVerif
