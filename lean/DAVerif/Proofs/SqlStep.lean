import DAVerif.Proofs.SqlCongr
/-!
C01/C02: the shape of `semNear` on a unary step (`stepRows`), what the result restricted to some columns is
(`stepRows_select`), dependence on the terms (`stepRows_congr`), Python-dict updates (`dictSet`), and
`setTermKeys` (what `select_columns` / `drop_columns` do to a step).
-/
namespace DAVerif
namespace Sql
open DAVerif.Ops (usedFromSources unionL)

/-! ### rows built column by column -/

theorem get_mkRow (out : List String) (V : String → Val) (c : String) :
    Row.get (out.map (fun c => (c, V c))) c = if c ∈ out then V c else .null := by
  induction out with
  | nil => rfl
  | cons x out ih =>
    rw [List.map_cons, Row.get_cons, ih]
    by_cases h : c = x
    · subst h; simp
    · simp [h]

theorem select_mkRow {out u : List String} (V : String → Val) (h : ∀ c ∈ u, c ∈ out) :
    Row.select (out.map (fun c => (c, V c))) u = u.map (fun c => (c, V c)) := by
  unfold Row.select
  apply List.map_congr_left
  intro c hc
  rw [get_mkRow, if_pos (h c hc)]

theorem mkRow_congr {out : List String} {V V' : String → Val} (h : ∀ c ∈ out, V c = V' c) :
    out.map (fun c => (c, V c)) = out.map (fun c => (c, V' c)) :=
  List.map_congr_left (fun c hc => by rw [h c hc])

/-! ### one SELECT step -/

/-- the term of a key (`terms.get(k)`); `SELECT *` has none -/
def lookT (terms : Option Terms) (k : String) : Option STerm :=
  match terms with | none => none | some ts => lookupLast ts k

/-- the rows after WHERE / ORDER BY -/
def suffixRows (Θ : Interp) (ec : EngineCfg) (sfx : Suffix) (rows : List Row) : List Row :=
  match sfx with
  | .whereE e => rows.filter (fun r => evalCell Θ r e == .bool true)
  | .orderBy cs rev _ => rows.mergeSort (fun a b => sqlRowLe ec cs rev a b)
  | _ => rows

def limitOf {α : Type} (sfx : Suffix) (l : List α) : List α :=
  match sfx with
  | .orderBy _ _ (some n) => l.take n
  | _ => l

/-- the rows a unary step returns for the output columns `out` from the rows `rows0` of its FROM clause -/
def stepRows (Θ : Interp) (ec : EngineCfg) (terms : Option Terms) (agg : Bool) (sfx : Suffix) (out : List String)
    (rows0 : List Row) : List Row :=
  let rows := suffixRows Θ ec sfx rows0
  if agg then
    match sfx with
    | .groupBy gs =>
      ((rows.map (fun r => keyOf r gs)).eraseDups).map (fun k =>
        out.map (fun c => (c, aggVal Θ (rows.filter (fun r => keyOf r gs == k)) c (lookT terms c))))
    | _ => [out.map (fun c => (c, aggVal Θ rows c (lookT terms c)))]
  else
    limitOf sfx (rows.zipIdx.map (fun ri => out.map (fun c => (c, termVal Θ ec rows.zipIdx ri c (lookT terms c)))))

theorem semNear_unary (Θ : Interp) (ec : EngineCfg) (env : Env) (ctes : List (String × Table)) (nm : String)
    (terms : Option Terms) (agg : Bool) (sub : Near) (sc : Option (List String)) (sfx : Suffix) (mg : Bool)
    (dp : Option (List (String × List String))) (key : Option String) (cols? : Option (List String)) (force : Bool) :
    semNear Θ ec env ctes (.unary nm terms agg sub sc sfx mg dp key) cols? force =
      (semNear Θ ec env ctes sub sc false).bind (fun t =>
        .ok ⟨outCols terms cols? t.cols, stepRows Θ ec terms agg sfx (outCols terms cols? t.cols) t.rows⟩) := by
  rw [semNear]
  cases semNear Θ ec env ctes sub sc false with
  | error e => rfl
  | ok t =>
    cases agg
    · cases sfx with
      | orderBy cs rev lim => cases lim <;> cases terms <;> rfl
      | _ => cases terms <;> rfl
    · cases sfx <;> cases terms <;> rfl

theorem semNear_unary_ok {Θ : Interp} {ec : EngineCfg} {env : Env} {ctes : List (String × Table)} {nm : String}
    {terms : Option Terms} {agg : Bool} {sub : Near} {sc : Option (List String)} {sfx : Suffix} {mg : Bool}
    {dp : Option (List (String × List String))} {key : Option String} {t : Table}
    (h : semNear Θ ec env ctes sub sc false = .ok t) (cols? : Option (List String)) (force : Bool) :
    semNear Θ ec env ctes (.unary nm terms agg sub sc sfx mg dp key) cols? force =
      .ok ⟨outCols terms cols? t.cols, stepRows Θ ec terms agg sfx (outCols terms cols? t.cols) t.rows⟩ := by
  rw [semNear_unary, h]; rfl

/-- the result of a step restricted to some of its output columns is the step computed for those columns -/
theorem stepRows_select (Θ : Interp) (ec : EngineCfg) (terms : Option Terms) (agg : Bool) (sfx : Suffix)
    {out u : List String} (h : ∀ c ∈ u, c ∈ out) (rows0 : List Row) :
    (stepRows Θ ec terms agg sfx out rows0).map (fun r => r.select u) = stepRows Θ ec terms agg sfx u rows0 := by
  unfold stepRows
  cases agg
  · simp only [Bool.false_eq_true, ↓reduceIte]
    have : ∀ l : List Row, (limitOf sfx l).map (fun r => r.select u) = limitOf sfx (l.map (fun r => r.select u)) := by
      intro l; unfold limitOf; split
      · rw [List.map_take]
      · rfl
    rw [this, List.map_map]
    congr 1
    apply List.map_congr_left
    intro ri _
    exact select_mkRow _ h
  · simp only [↓reduceIte]
    split
    · rw [List.map_map]
      apply List.map_congr_left
      intro k _
      exact select_mkRow _ h
    · simp only [List.map_cons, List.map_nil]
      rw [select_mkRow _ h]

/-- a step only depends on the terms of its output columns, and only through their values -/
theorem stepRows_congr (Θ : Interp) (ec : EngineCfg) {terms terms' : Option Terms} (agg : Bool) (sfx : Suffix)
    {out : List String} (rows0 : List Row)
    (h : ∀ c ∈ out, (∀ idx ri, termVal Θ ec idx ri c (lookT terms c) = termVal Θ ec idx ri c (lookT terms' c)) ∧
      (∀ g, aggVal Θ g c (lookT terms c) = aggVal Θ g c (lookT terms' c))) :
    stepRows Θ ec terms agg sfx out rows0 = stepRows Θ ec terms' agg sfx out rows0 := by
  unfold stepRows
  cases agg
  · simp only [Bool.false_eq_true, ↓reduceIte]
    congr 1
    apply List.map_congr_left
    intro ri _
    exact mkRow_congr (fun c hc => (h c hc).1 _ _)
  · simp only [↓reduceIte]
    split
    · apply List.map_congr_left
      intro k _
      exact mkRow_congr (fun c hc => (h c hc).2 _)
    · rw [mkRow_congr (fun c hc => (h c hc).2 _)]

theorem length_stepRows_rowwise (Θ : Interp) (ec : EngineCfg) (terms : Option Terms) (sfx : Suffix)
    (out : List String) (rows0 : List Row) :
    (stepRows Θ ec terms false sfx out rows0).length = (limitOf sfx (suffixRows Θ ec sfx rows0)).length := by
  unfold stepRows limitOf
  simp only [Bool.false_eq_true, ↓reduceIte]
  split <;> simp

/-! ### Python dict assignment -/

theorem lookupLast_map_replace {β : Type} (d : List (String × β)) (k : String) (v : β) (k' : String) :
    lookupLast (d.map (fun kv => if kv.1 == k then (k, v) else kv)) k' =
      if k' = k then (lookupLast d k').map (fun _ => v) else lookupLast d k' := by
  induction d with
  | nil => simp [lookupLast_nil]
  | cons kv d ih =>
    obtain ⟨k0, v0⟩ := kv
    by_cases hk0 : k0 = k
    · subst hk0
      simp only [List.map_cons, beq_self_eq_true, ↓reduceIte, lookupLast_cons, ih]
      by_cases hk' : k' = k0
      · subst hk'
        simp only [↓reduceIte]
        cases lookupLast d k' <;> rfl
      · simp [hk']
    · have hb : (k0 == k) = false := by simpa using hk0
      simp only [List.map_cons, hb, Bool.false_eq_true, ↓reduceIte, lookupLast_cons, ih]
      by_cases hk' : k' = k
      · subst hk'
        have : ¬ k' = k0 := fun e => hk0 e.symm
        simp [this]
      · simp [hk']

theorem lookupLast_dictSet {β : Type} (d : List (String × β)) (k : String) (v : β) (k' : String) :
    lookupLast (dictSet d k v) k' = if k' = k then some v else lookupLast d k' := by
  unfold dictSet
  split
  · rename_i hany
    rw [lookupLast_map_replace]
    by_cases hk' : k' = k
    · subst hk'
      simp only [↓reduceIte]
      have hmem : k' ∈ d.map (·.1) := by
        simp only [List.any_eq_true, beq_iff_eq] at hany
        obtain ⟨kv, hkv, e⟩ := hany
        exact List.mem_map.mpr ⟨kv, hkv, e⟩
      cases hl : lookupLast d k' with
      | none => exact absurd hmem (lookupLast_eq_none_iff.mp hl)
      | some x => rfl
    · simp [hk']
  · rw [lookupLast_concat]

theorem keys_dictSet {β : Type} (d : List (String × β)) (k : String) (v : β) (k' : String) :
    k' ∈ (dictSet d k v).map (·.1) ↔ k' = k ∨ k' ∈ d.map (·.1) := by
  rw [← lookupLast_isSome_iff, ← lookupLast_isSome_iff, lookupLast_dictSet]
  by_cases h : k' = k <;> simp [h]

/-- the dictionary built by assigning `g x` to the key `f x` for the `x` of a list, in order -/
theorem lookupLast_foldl_dictSet {α β : Type} (xs : List α) (f : α → String) (g : α → β) (d : List (String × β))
    (k : String) :
    lookupLast (xs.foldl (fun d x => dictSet d (f x) (g x)) d) k =
      (lookupLast (xs.map (fun x => (f x, g x))) k).or (lookupLast d k) := by
  induction xs generalizing d with
  | nil => simp [lookupLast_nil]
  | cons x xs ih =>
    rw [List.foldl_cons, ih, lookupLast_dictSet, List.map_cons, lookupLast_cons]
    cases lookupLast (xs.map (fun x => (f x, g x))) k with
    | some y => rfl
    | none => by_cases h : k = f x <;> simp [h]

/-! ### `setTermKeys`: what `select_columns` / `drop_columns` do to the step they are applied to -/

theorem lookupLast_map_const {β : Type} (ks : List String) (x : β) (c : String) :
    lookupLast (ks.map (fun k => (k, x))) c = if c ∈ ks then some x else none := by
  induction ks with
  | nil => rfl
  | cons k ks ih =>
    rw [List.map_cons, lookupLast_cons, ih]
    by_cases h : c = k
    · subst h; by_cases h2 : c ∈ ks <;> simp [h2]
    · by_cases h2 : c ∈ ks <;> simp [h, h2]

theorem lookupLast_filterMap_keys {β : Type} (ts : List (String × β)) (ks : List String) (c : String) :
    lookupLast (ks.filterMap (fun k => (lookupLast ts k).map (fun t => (k, t)))) c =
      if c ∈ ks then lookupLast ts c else none := by
  induction ks with
  | nil => rfl
  | cons k ks ih =>
    rw [List.filterMap_cons]
    cases hk : lookupLast ts k with
    | none =>
      simp only [Option.map_none, ih]
      by_cases h : c = k
      · subst h; by_cases h2 : c ∈ ks <;> simp [h2, hk]
      · simp [h]
    | some t =>
      simp only [Option.map_some, lookupLast_cons, ih]
      by_cases h : c = k
      · subst h; by_cases h2 : c ∈ ks <;> simp [h2, hk]
      · by_cases h2 : c ∈ ks <;> simp [h, h2]

theorem keys_filterMap_keys {β : Type} (ts : List (String × β)) (ks : List String)
    (h : ∀ k ∈ ks, k ∈ ts.map (·.1)) :
    (ks.filterMap (fun k => (lookupLast ts k).map (fun t => (k, t)))).map (·.1) = ks := by
  induction ks with
  | nil => rfl
  | cons k ks ih =>
    rw [List.filterMap_cons]
    cases hk : lookupLast ts k with
    | none => exact absurd (h k List.mem_cons_self) (lookupLast_eq_none_iff.mp hk)
    | some t =>
      simp only [Option.map_some, List.map_cons, List.cons.injEq, true_and]
      exact ih (fun k' hk' => h k' (List.mem_cons_of_mem _ hk'))

/-- tables and unary steps (what the translation of the fragment returns) -/
def Near.isSimple : Near → Bool
  | .table .. | .unary .. => true
  | _ => false

/-- the term keys after a successful `setTermKeys` with a non-empty key list -/
theorem termKeys_setTermKeys {q q' : Near} {ks : List String} {sel : Bool} (h : setTermKeys q ks sel = some q')
    (hs : q.isSimple = true) (hne : ks ≠ []) : q'.termKeys = some ks := by
  have hne' : ks.isEmpty = false := by simpa using hne
  cases q with
  | table n ts =>
    simp only [setTermKeys, hne', Bool.false_eq_true, ↓reduceIte] at h
    split at h
    · cases h; rfl
    · cases h
  | unary n ts agg sub sc sf mg deps key =>
    cases ts with
    | none =>
      simp only [setTermKeys, hne', Bool.false_eq_true, ↓reduceIte] at h
      split at h
      · cases h
        simp [Near.termKeys, List.map_map, Function.comp_def]
      · cases h
    | some ts =>
      simp only [setTermKeys, hne', Bool.false_eq_true, ↓reduceIte] at h
      split at h
      · rename_i hsub
        cases h
        simp only [Near.termKeys, Option.map_some, Option.some.injEq]
        exact keys_filterMap_keys ts ks (subset_iff.mp hsub)
      · cases h
  | cte _ => cases hs
  | join => cases hs
  | union => cases hs

theorem isSimple_setTermKeys {q q' : Near} {ks : List String} {sel : Bool} (h : setTermKeys q ks sel = some q')
    (hs : q.isSimple = true) : q'.isSimple = true := by
  cases q with
  | table n ts =>
    simp only [setTermKeys] at h
    split at h
    · cases h; rfl
    · split at h
      · cases h; rfl
      · cases h
  | unary n ts agg sub sc sf mg deps key =>
    cases ts with
    | none =>
      simp only [setTermKeys] at h
      split at h
      · cases h; rfl
      · split at h
        · cases h; rfl
        · cases h
    | some ts =>
      simp only [setTermKeys] at h
      split at h
      · cases h; rfl
      · split at h
        · cases h; rfl
        · cases h
  | cte _ => cases hs
  | join => cases hs
  | union => cases hs

/-- with nothing to keep, `setTermKeys` keeps the step (fix D36) -/
theorem setTermKeys_nil {q q' : Near} {sel : Bool} (h : setTermKeys q [] sel = some q')
    (hs : q.isSimple = true) :
    q' = q ∨ ∃ n agg sub sc sf mg deps key, q = .unary n none agg sub sc sf mg deps key ∧
      q' = .unary n (some []) agg sub sc sf mg deps key := by
  cases q with
  | table n ts => simp only [setTermKeys, List.isEmpty_nil, ↓reduceIte, Option.some.injEq] at h; exact Or.inl h.symm
  | unary n ts agg sub sc sf mg deps key =>
    cases ts with
    | none =>
      cases sel
      · simp only [setTermKeys, Bool.false_eq_true, ↓reduceIte, List.isEmpty_nil, Option.some.injEq] at h
        exact Or.inl h.symm
      · simp only [setTermKeys, ↓reduceIte, List.map_nil, Option.some.injEq] at h
        exact Or.inr ⟨n, agg, sub, sc, sf, mg, deps, key, rfl, h.symm⟩
    | some ts =>
      simp only [setTermKeys, List.isEmpty_nil, ↓reduceIte, Option.some.injEq] at h; exact Or.inl h.symm
  | cte _ => cases hs
  | join => cases hs
  | union => cases hs

theorem outCols_some_mem {terms : Option Terms} {u fc : List String} (hne : u ≠ []) (hterms : terms ≠ none) :
    outCols terms (some u) fc = u := by
  cases terms with
  | none => exact absurd rfl hterms
  | some ts =>
    have : u.isEmpty = false := by simpa using hne
    simp [outCols, this]

theorem subset_outCols_some {ts : Terms} {u fc : List String} : ∀ c ∈ u, c ∈ outCols (some ts) (some u) fc := by
  intro c hc
  simp only [outCols]
  split
  · rename_i he
    have : u = [] := by simpa using he
    subst this; cases hc
  · exact hc

/-- **`setTermKeys` does not change what the step returns for the kept keys.**  For every request `u'` within the
kept keys `ks`: the modified step evaluates when the original does, to the same rows as far as `u'` goes; its
columns are columns of the original result or requested ones. -/
theorem setTermKeys_req {Θ : Interp} {ec : EngineCfg} {env : Env} {q q' : Near} {ks : List String} {sel : Bool}
    (h : setTermKeys q ks sel = some q') (hs : q.isSimple = true)
    {u' : List String} (hu : ∀ c ∈ u', c ∈ ks) (force : Bool) {T : Table}
    (hT : semNear Θ ec env [] q (some u') force = .ok T) (hcols : ∀ c ∈ u', c ∈ T.cols) :
    ∃ T', semNear Θ ec env [] q' (some u') force = .ok T' ∧ (∀ c ∈ u', c ∈ T'.cols) ∧
      (u' ≠ [] → ∀ c ∈ T'.cols, c ∈ T.cols ∨ c ∈ u') ∧
      T'.rows.map (fun r => r.select u') = T.rows.map (fun r => r.select u') := by
  have same : q' = q → ∃ T', semNear Θ ec env [] q' (some u') force = .ok T' ∧ (∀ c ∈ u', c ∈ T'.cols) ∧
      (u' ≠ [] → ∀ c ∈ T'.cols, c ∈ T.cols ∨ c ∈ u') ∧
      T'.rows.map (fun r => r.select u') = T.rows.map (fun r => r.select u') := by
    intro e; subst e; exact ⟨T, hT, hcols, fun _ c hc => Or.inl hc, rfl⟩
  -- a unary step whose terms change to terms with the same values on `u'`
  have changed : ∀ (n : String) (ts ts' : Option Terms) (agg : Bool) (sub : Near) (sc : Option (List String))
      (sf : Suffix) (mg : Bool) (deps : Option (List (String × List String))) (key : Option String),
      q = .unary n ts agg sub sc sf mg deps key → q' = .unary n ts' agg sub sc sf mg deps key →
      (∀ t : Table, ∀ c ∈ u', c ∈ outCols ts' (some u') t.cols) →
      (∀ t : Table, u' ≠ [] → ∀ c ∈ outCols ts' (some u') t.cols, c ∈ outCols ts (some u') t.cols ∨ c ∈ u') →
      (∀ c ∈ u', lookT ts' c = lookT ts c ∨ (lookT ts c = none ∧ lookT ts' c = some .pass)) →
      ∃ T', semNear Θ ec env [] q' (some u') force = .ok T' ∧ (∀ c ∈ u', c ∈ T'.cols) ∧
        (u' ≠ [] → ∀ c ∈ T'.cols, c ∈ T.cols ∨ c ∈ u') ∧
        T'.rows.map (fun r => r.select u') = T.rows.map (fun r => r.select u') := by
    intro n ts ts' agg sub sc sf mg deps key hq hq' hout hbound hlook
    subst hq hq'
    rw [semNear_unary] at hT
    cases hsub : semNear Θ ec env [] sub sc false with
    | error e => rw [hsub] at hT; cases hT
    | ok t =>
      rw [hsub] at hT
      simp only [Except.bind, Except.ok.injEq] at hT
      subst hT
      refine ⟨_, semNear_unary_ok hsub (some u') force, hout t, hbound t, ?_⟩
      simp only
      rw [stepRows_select Θ ec ts' agg sf (hout t), stepRows_select Θ ec ts agg sf hcols]
      apply stepRows_congr
      intro c hc
      rcases hlook c hc with e | ⟨e1, e2⟩
      · rw [e]; exact ⟨fun _ _ => rfl, fun _ => rfl⟩
      · rw [e1, e2]; exact ⟨fun _ _ => rfl, fun _ => rfl⟩
  cases q with
  | table n ts =>
    simp only [setTermKeys] at h
    split at h
    · exact same (Option.some.inj h).symm
    · split at h
      · cases h
        exact ⟨T, hT, hcols, fun _ c hc => Or.inl hc, rfl⟩
      · cases h
  | unary n ts agg sub sc sf mg deps key =>
    cases ts with
    | none =>
      simp only [setTermKeys] at h
      split at h
      · cases h
        refine changed n none _ agg sub sc sf mg deps key rfl rfl (fun t => subset_outCols_some) ?_ ?_
        · intro t hne c hc
          rw [outCols_some_mem hne (by simp)] at hc
          exact Or.inr hc
        · intro c hc
          right
          refine ⟨rfl, ?_⟩
          simp only [lookT, lookupLast_map_const, if_pos (hu c hc)]
      · split at h
        · exact same (Option.some.inj h).symm
        · cases h
    | some ts =>
      simp only [setTermKeys] at h
      split at h
      · exact same (Option.some.inj h).symm
      · split at h
        · cases h
          refine changed n (some ts) _ agg sub sc sf mg deps key rfl rfl (fun t => subset_outCols_some) ?_ ?_
          · intro t hne c hc
            rw [outCols_some_mem hne (by simp)] at hc
            exact Or.inr hc
          · intro c hc
            left
            simp only [lookT, lookupLast_filterMap_keys, if_pos (hu c hc)]
        · cases h
  | cte _ => cases hs
  | join => cases hs
  | union => cases hs

end Sql
end DAVerif
