import DAVerif.Proofs.SqlTrans
/-!
C01/C02: one lemma per node kind of the form "if the translation of the source satisfies the induction claim
(`TransOK`), so does the translation of the node" – table, select_rows, order_rows, select_columns, drop_columns
(this file), extend, project, rename, map_columns (`SqlUnary2.lean`).
The hypotheses of each lemma are the structural facts about that node the proof uses (all consequences of `WF`,
`SqlWF`, `MapsOK`).
-/
namespace DAVerif
namespace Sql
open DAVerif.Ops (usedFromSources unionL)

variable {Θ : Interp} {ec : EngineCfg} {env : Env} {scfg : SemCfg} {G : Near → Prop} {cfg : SqlCfg}

theorem ne_nil_of_subset {u' u : List String} (h : ∀ c ∈ u', c ∈ u) (hne : u' ≠ []) : u ≠ [] := by
  intro e; subst e
  cases u' with
  | nil => exact hne rfl
  | cons x _ => exact absurd (h x List.mem_cons_self) (by simp)

theorem mkTerms_pass_ne {K : List String} (h : K ≠ []) :
    mkTerms (K.map (fun k => (k, STerm.pass))) = some (K.map (fun k => (k, STerm.pass))) := by
  simp [mkTerms, h]

theorem keys_map_pass (K : List String) : (K.map (fun k => (k, STerm.pass))).map (·.1) = K := by
  simp [List.map_map, Function.comp_def]

/-! ### table -/

theorem semNear_table {name : String} {t : Table} (hl : env.lookup name = some t) (ts u' : List String) (force : Bool)
    (hsub : ∀ c ∈ u', c ∈ t.cols) :
    semNear Θ ec env [] (.table name ts) (some u') force = .ok t ∨
      (u' ≠ [] ∧ semNear Θ ec env [] (.table name ts) (some u') force = .ok (t.selectCols u')) := by
  rw [semNear]
  simp only [hl, Option.getD_some]
  cases force
  · exact Or.inl rfl
  · by_cases he : u' = []
    · subst he; exact Or.inl rfl
    · have : u'.isEmpty = false := by simpa using he
      simp only [↓reduceIte, this, Bool.false_eq_true, subset_iff.mpr hsub]
      exact Or.inr ⟨he, trivial⟩

/-- a step over a sound sub-query whose terms are pass-through terms for the columns `K` (`u ⊆ K ⊆ S`, `S` the
columns bound from the sub-query): sound as soon as its WHERE / ORDER BY / LIMIT agrees with the reference rows;
`hbind` is what binding the sub-query with the columns `S` returns -/
theorem sound_passStep {sub : Near} {S K u pc : List String} {T0 tp : Table} {sfx : Suffix}
    (nm : String) (mg : Bool) (dp : Option (List (String × List String))) (key : Option String)
    (hbind : semNear Θ ec env [] sub (some S) false = .ok T0) (hST : ∀ c ∈ S, c ∈ T0.cols)
    (hKS : ∀ c ∈ K, c ∈ S) (huK : ∀ c ∈ u, c ∈ K) (hKpc : ∀ c ∈ K, c ∈ pc)
    (hrows : ∀ u' : List String, (∀ c ∈ u', c ∈ u) →
      limitOf sfx ((suffixRows Θ ec sfx T0.rows).map (fun r => r.select u')) = tp.rows.map (fun r => r.select u')) :
    Sound Θ ec env (.unary nm (mkTerms (K.map (fun k => (k, STerm.pass)))) false sub (some S) sfx mg dp key)
      u pc tp := by
  refine ⟨?_, ?_⟩
  · intro u' hu' force
    have hu'K : ∀ c ∈ u', c ∈ K := fun c hc => huK c (hu' c hc)
    have hout : ∀ c ∈ u', c ∈ outCols (mkTerms (K.map (fun k => (k, STerm.pass)))) (some u') T0.cols := by
      intro c hc
      unfold mkTerms
      split
      · exact hST c (hKS c (hu'K c hc))
      · exact subset_outCols_some (fc := T0.cols) c hc
    refine ⟨_, semNear_unary_ok hbind (some u') force, hout, ?_⟩
    simp only
    rw [stepRows_select _ _ _ _ _ hout, stepRows_pass]
    · exact hrows u' hu'
    · intro c hc
      unfold mkTerms
      split
      · exact Or.inl rfl
      · right
        simp only [lookT, lookupLast_map_const, if_pos (hu'K c hc)]
  · intro hne
    have hKne : K ≠ [] := ne_nil_of_subset huK hne
    rw [mkTerms_pass_ne hKne]
    exact ⟨K, by simp only [Near.termKeys, Option.map_some, keys_map_pass], hKpc, huK⟩

theorem transOK_table (hG : ShapeOK Θ ec env G) (fuel : Nat) (name : String) (cs : List String)
    (henv : ∃ t, env.lookup name = some t ∧ (∀ c ∈ cs, c ∈ t.cols)) :
    TransOK Θ ec env scfg G cfg fuel (.table name cs) := by
  cases fuel with
  | zero => exact transOK_zero _ _ _ _ _ _ _
  | succ fuel =>
  intro u st q st' tp hu h hsem
  obtain ⟨t, hl, hsub⟩ := henv
  have htp : tp = t.selectCols cs := by
    simp only [semG, hl, subset_iff.mpr hsub, ↓reduceIte] at hsem
    exact (Except.ok.inj hsem).symm
  subst htp
  have hrows : ∀ u' : List String, (∀ c ∈ u', c ∈ cs) →
      t.rows.map (fun r => r.select u') = (t.selectCols cs).rows.map (fun r => r.select u') := by
    intro u' hu'
    exact (select_map_select t.rows hu').symm
  have hucs : ∀ c ∈ u, c ∈ cs := hu
  rw [toNear] at h
  simp only [Option.getD_some] at h
  obtain ⟨_, st1, h1, h2⟩ := bindM_ok.mp h
  obtain ⟨_, hst⟩ := guardM_ok.mp h1
  cases hst
  split at h2
  · -- strict subset: wrapped in a `table_reference` step
    obtain ⟨i, st2, _, h4⟩ := bindM_ok.mp h2
    rw [pureM_ok] at h4
    cases h4
    refine ⟨hG.simple _ rfl, u, fun c hc => hc, hu, ?_⟩
    have hsubq : semNear Θ ec env [] (.table name (cs.filter (fun c => u.contains c))) (some u) false = .ok t := by
      rw [semNear]; simp only [hl]; rfl
    apply sound_passStep _ _ _ _ hsubq (fun c hc => hsub c (hucs c hc)) (fun c hc => hc) (fun c hc => hc) hu
    intro u' hu'
    exact hrows u' (fun c hc => hucs c (hu' c hc))
  · -- the bare table
    rw [pureM_ok] at h2
    cases h2
    refine ⟨hG.simple _ rfl, u, fun c hc => hc, hu, ?_, ?_⟩
    · intro u' hu' force
      have hu't : ∀ c ∈ u', c ∈ t.cols := fun c hc => hsub c (hucs c (hu' c hc))
      rcases semNear_table (Θ := Θ) (ec := ec) hl (cs.filter (fun c => u.contains c)) u' force hu't with h | ⟨_, h⟩
      · exact ⟨t, h, hu't, hrows u' (fun c hc => hucs c (hu' c hc))⟩
      · refine ⟨_, h, fun c hc => hc, ?_⟩
        simp only [Table.selectCols]
        rw [select_map_select _ (fun c hc => hc)]
        exact hrows u' (fun c hc => hucs c (hu' c hc))
    · intro _
      refine ⟨_, rfl, fun k hk => (List.mem_filter.mp hk).1,
        fun c hc => List.mem_filter.mpr ⟨hucs c hc, by simpa using hc⟩⟩

/-! ### select_rows -/

theorem transOK_selectRows (hG : ShapeOK Θ ec env G) (fuel : Nat) (src : Ops) (e : Term)
    (he : ∀ c ∈ Term.colsRaw e, c ∈ src.cols)
    (ih : TransOK Θ ec env scfg G cfg fuel src) :
    TransOK Θ ec env scfg G cfg (fuel + 1) (.selectRows src e) := by
  intro u st q st' tp hu h hsem
  simp only [semG] at hsem
  obtain ⟨ts, hts, rfl⟩ := bind_pure_ok hsem
  rw [toNear] at h
  simp only [Option.getD_some] at h
  obtain ⟨sub, st1, h1, h2⟩ := bindM_ok.mp h
  obtain ⟨i, st2, _, h4⟩ := bindM_ok.mp h2
  rw [pureM_ok] at h4
  cases h4
  have hS : ((Ops.selectRows src e).usedFromSources u).headD [] =
      unionL (src.cols.filter (fun c => u.contains c)) (Term.colsUsed e) := rfl
  rw [hS] at h1 ⊢
  generalize hSdef : unionL (src.cols.filter (fun c => u.contains c)) (Term.colsUsed e) = S at h1 ⊢
  have hSsrc : ∀ c ∈ S, c ∈ src.cols := by
    intro c hc
    rw [← hSdef, mem_unionL] at hc
    rcases hc with hc | hc
    · exact (List.mem_filter.mp hc).1
    · exact he c (by simpa [Term.colsUsed] using hc)
  have huS : ∀ c ∈ u, c ∈ S := by
    intro c hc
    rw [← hSdef, mem_unionL]
    exact Or.inl (List.mem_filter.mpr ⟨hu c hc, by simpa using hc⟩)
  have heS : ∀ c ∈ Term.colsRaw e, c ∈ S := by
    intro c hc
    rw [← hSdef, mem_unionL]
    exact Or.inr (by simpa [Term.colsUsed] using hc)
  obtain ⟨_, S₁, hS₁, _, hsound⟩ := ih S st sub st1 ts hSsrc h1 hts
  obtain ⟨T0, g1, g2, g4⟩ := hsound.req S hS₁ false
  refine ⟨hG.simple _ rfl, u, fun c hc => hc, hu, ?_⟩
  apply sound_passStep _ _ _ _ g1 g2 huS (fun c hc => hc) hu
  intro u' hu'
  simp only [limitOf, suffixRows, semSelectRows]
  have := filter_transport (p := fun r => evalCell Θ r e == Val.bool true)
    (p' := fun r => evalCell Θ r e == Val.bool true) g4
    (fun a _ b _ hab => by
      rw [evalCell_congr Θ e (fun c hc => Row.get_of_select_eq hab (heS c hc))])
  exact map_select_mono this (fun c hc => huS c (hu' c hc))

/-! ### order_rows (below the root: `using` is a column set) -/

/-- the rows of an `ORDER BY … LIMIT` step against `semOrderG` with the engine's comparison -/
theorem order_rows_agree {L : List Row} {ts : Table} {S u' cs rev : List String} {lim : Option Nat}
    (hL : L.map (fun r => r.select S) = ts.rows.map (fun r => r.select S))
    (hcsS : ∀ c ∈ cs, c ∈ S) (hu'S : ∀ c ∈ u', c ∈ S) :
    limitOf (if (cs.isEmpty && lim.isNone) = true then Suffix.none else Suffix.orderBy cs rev lim)
        ((suffixRows Θ ec (if (cs.isEmpty && lim.isNone) = true then Suffix.none else Suffix.orderBy cs rev lim) L).map
          (fun r => r.select u'))
      = (semOrderG (sqlRowLe ec) cs rev lim ts).rows.map (fun r => r.select u') := by
  by_cases hcond : (cs.isEmpty && lim.isNone) = true
  · rw [if_pos hcond]
    simp only [Bool.and_eq_true, List.isEmpty_iff, Option.isNone_iff_eq_none] at hcond
    obtain ⟨rfl, rfl⟩ := hcond
    simp only [limitOf, suffixRows, semOrderG]
    rw [mergeSort_true (fun a b => sqlRowLe ec [] rev a b) (fun _ _ => rfl)]
    exact map_select_mono hL hu'S
  · rw [if_neg hcond]
    have hsort := sort_transport (le := fun a b => sqlRowLe ec cs rev a b) hL
      (fun a b => sqlRowLe_congr ec (fun c hc => (Row.get_select_mem (hcsS c hc)).symm)
        (fun c hc => (Row.get_select_mem (hcsS c hc)).symm))
    cases lim with
    | none =>
      simp only [limitOf, suffixRows, semOrderG]
      exact map_select_mono hsort hu'S
    | some n =>
      simp only [limitOf, suffixRows, semOrderG]
      rw [← List.map_take]
      exact map_select_mono (take_transport hsort n) hu'S

theorem transOK_order (hG : ShapeOK Θ ec env G) (fuel : Nat) (src : Ops) (cs rev : List String) (lim : Option Nat)
    (hcs : ∀ c ∈ cs, c ∈ src.cols)
    (ih : TransOK Θ ec env scfg G cfg fuel src) :
    TransOK Θ ec env scfg G cfg (fuel + 1) (.order src cs rev lim) := by
  intro u st q st' tp hu h hsem
  simp only [semG] at hsem
  obtain ⟨ts, hts, rfl⟩ := bind_pure_ok hsem
  rw [toNear] at h
  simp only [Option.getD_some, Option.isNone_some, Bool.false_eq_true, ↓reduceIte] at h
  obtain ⟨sub, st1, h1, h2⟩ := bindM_ok.mp h
  obtain ⟨i, st2, _, h4⟩ := bindM_ok.mp h2
  rw [pureM_ok] at h4
  cases h4
  have hcols : (Ops.order src cs rev lim).cols = src.cols := rfl
  have hsu : ((Ops.order src cs rev lim).usedFromSources u).headD [] =
      unionL (src.cols.filter (fun c => u.contains c)) cs := rfl
  rw [hsu, hcols] at h1 ⊢
  generalize hSdef : src.cols.filter (fun c => (unionL (src.cols.filter (fun c => u.contains c)) cs).contains c) = S
    at h1 ⊢
  have hmemS : ∀ c, c ∈ S ↔ c ∈ src.cols ∧ (c ∈ u ∨ c ∈ cs) := by
    intro c
    rw [← hSdef, List.mem_filter, contains_iff, mem_unionL, List.mem_filter, contains_iff]
    constructor
    · rintro ⟨h1, h2 | h2⟩
      · exact ⟨h1, Or.inl h2.2⟩
      · exact ⟨h1, Or.inr h2⟩
    · rintro ⟨h1, h2 | h2⟩
      · exact ⟨h1, Or.inl ⟨h1, h2⟩⟩
      · exact ⟨h1, Or.inr h2⟩
  have hSsrc : ∀ c ∈ S, c ∈ src.cols := fun c hc => ((hmemS c).mp hc).1
  have huS : ∀ c ∈ u, c ∈ S := fun c hc => (hmemS c).mpr ⟨hu c hc, Or.inl hc⟩
  have hcsS : ∀ c ∈ cs, c ∈ S := fun c hc => (hmemS c).mpr ⟨hcs c hc, Or.inr hc⟩
  obtain ⟨_, S₁, hS₁, _, hsound⟩ := ih S st sub st1 ts hSsrc h1 hts
  obtain ⟨T0, g1, g2, g4⟩ := hsound.req S hS₁ false
  refine ⟨hG.simple _ rfl, u, fun c hc => hc, hu, ?_⟩
  apply sound_passStep _ _ _ _ g1 g2 (fun c hc => hc) huS hSsrc
  intro u' hu'
  exact order_rows_agree g4 hcsS (fun c hc => huS c (hu' c hc))

/-! ### select_columns and drop_columns -/

theorem transOK_selectCols (hG : ShapeOK Θ ec env G) (fuel : Nat) (src : Ops) (cs : List String)
    (hcs : ∀ c ∈ cs, c ∈ src.cols)
    (ih : TransOK Θ ec env scfg G cfg fuel src) :
    TransOK Θ ec env scfg G cfg (fuel + 1) (.selectCols src cs) := by
  intro u st q st' tp hu h hsem
  simp only [semG] at hsem
  obtain ⟨ts, hts, rfl⟩ := bind_pure_ok hsem
  rw [toNear] at h
  simp only [Option.getD_some] at h
  obtain ⟨sub, st1, h1, h2⟩ := bindM_ok.mp h
  have hsu : ((Ops.selectCols src cs).usedFromSources u).headD [] = cs.filter (fun c => u.contains c) := rfl
  rw [hsu] at h1 h2
  have hS : cs.filter (fun c => (cs.filter (fun c => u.contains c)).contains c) = cs.filter (fun c => u.contains c) := by
    apply List.filter_congr
    intro c hc
    simp [hc]
  rw [hS] at h1 h2
  generalize hSdef : cs.filter (fun c => u.contains c) = S at h1 h2
  have hScs : ∀ c ∈ S, c ∈ cs := by
    intro c hc; rw [← hSdef] at hc; exact (List.mem_filter.mp hc).1
  have huS : ∀ c ∈ u, c ∈ S := by
    intro c hc; rw [← hSdef]; exact List.mem_filter.mpr ⟨hu c hc, by simpa using hc⟩
  obtain ⟨hGsub, S₁, hS₁, _, hsound⟩ := ih S st sub st1 ts (fun c hc => hcs c (hScs c hc)) h1 hts
  cases hq : setTermKeys sub S true with
  | none => rw [hq] at h2; exact absurd h2 liftE_error_ne_ok
  | some q' =>
    rw [hq] at h2
    rw [pureM_ok] at h2
    cases h2
    refine ⟨hG.closed _ _ _ _ hGsub hq, S, huS, hScs, ?_⟩
    apply Sound.setTermKeys (hsound.restrict hS₁) (hG.stable _ hGsub) hq hScs
    intro u' hu'
    exact select_map_select ts.rows (fun c hc => hScs c (hu' c hc))

theorem transOK_dropCols (hG : ShapeOK Θ ec env G) (fuel : Nat) (src : Ops) (dels : List String)
    (ih : TransOK Θ ec env scfg G cfg fuel src) :
    TransOK Θ ec env scfg G cfg (fuel + 1) (.dropCols src dels) := by
  intro u st q st' tp hu h hsem
  simp only [semG] at hsem
  obtain ⟨ts, hts, rfl⟩ := bind_pure_ok hsem
  rw [toNear] at h
  simp only [Option.getD_some] at h
  obtain ⟨sub, st1, h1, h2⟩ := bindM_ok.mp h
  have hsu : ((Ops.dropCols src dels).usedFromSources u).headD [] = u.filter (fun c => !dels.contains c) := rfl
  rw [hsu] at h1
  have hucols : ∀ c ∈ u, c ∈ src.cols ∧ c ∉ dels := by
    intro c hc
    have := hu c hc
    simp only [Ops.cols, List.mem_filter, List.contains_eq_mem, Bool.not_eq_eq_eq_not, Bool.not_true,
      decide_eq_false_iff_not] at this
    exact this
  have hS : u.filter (fun c => !dels.contains c) = u := by
    apply List.filter_eq_self.mpr
    intro c hc
    simpa using (hucols c hc).2
  rw [hS] at h1 h2
  obtain ⟨hGsub, S₁, hS₁, _, hsound⟩ := ih u st sub st1 ts (fun c hc => (hucols c hc).1) h1 hts
  cases hq : setTermKeys sub u false with
  | none => rw [hq] at h2; exact absurd h2 liftE_error_ne_ok
  | some q' =>
    rw [hq] at h2
    rw [pureM_ok] at h2
    cases h2
    refine ⟨hG.closed _ _ _ _ hGsub hq, u, fun c hc => hc, hu, ?_⟩
    apply Sound.setTermKeys (hsound.restrict hS₁) (hG.stable _ hGsub) hq hu
    intro u' hu'
    exact select_map_select ts.rows (fun c hc => hu c (hu' c hc))

end Sql
end DAVerif
