import DAVerif.Proofs.SqlReach
import DAVerif.Proofs.SqlJoinSqlite
import DAVerif.Proofs.SqlNodeExtend
/-!
C01/C02/C16, nested emulation: the two-table nodes against arbitrary reference tables of their sources.

* `nodeOK_join` – a natively rendered join;
* `swapJoinTable`, `swapJoinTable_equiv`, `nodeOK_join_sqlite_right` – SQLite's RIGHT join (LEFT join of the swapped
  sources): the step is `Sound` (list equality) against the table that lists the rows of the reference RIGHT join
  **right-row-major** (`swapJoinTable`), which is a permutation of the reference RIGHT join;
* `nodeOK_concat` – `concat_rows`: `UNION ALL` of the two sides (for a labelled `concat_rows`: of the two labelled
  sides, whose `NodeOK` the caller supplies).
-/
namespace DAVerif
namespace Sql
namespace SqlE
open DAVerif.Ops (usedFromSources unionL)

variable {Θ : Interp} {ec : EngineCfg} {env : Env} {G : Near → Prop} {cfg : SqlCfg}

/-! ### a join the dialect renders natively -/

theorem nodeOK_join (hJU : ∀ q : Near, q.isJU = true → G q) (fuel : Nat) (a b : Ops) (onA onB : List String)
    (jt : JoinType) (hnat : cfg.emulateRightFull = false ∨ (jt ≠ .right ∧ jt ≠ .full)) (hjt : jt ≠ .outer)
    (hoa : ∀ c ∈ onA, c ∈ a.cols) (hob : ∀ c ∈ onB, c ∈ b.cols) {ta tb : Table}
    (hca : ta.cols = a.cols) (hcb : tb.cols = b.cols)
    (iha : NodeOK Θ ec env G cfg fuel a ta) (ihb : NodeOK Θ ec env G cfg fuel b tb) :
    NodeOK Θ ec env G cfg (fuel + 1) (.join a b onA onB jt)
      ((semJoin SemCfg.ref jt onA onB ta tb (appendNew a.cols b.cols)).selectCols (Ops.join a b onA onB jt).cols) := by
  intro u st q st' _ h
  obtain ⟨nl, nr, st1, nm, ln, rn, key, _, hsub, hnl, hnr, rfl⟩ := toNear_join_native hnat h
  obtain ⟨_, Sl, hSl, _, hsl⟩ := iha _ _ nl st1 (fun c hc => (mem_sideCols.mp hc).1) hnl
  obtain ⟨_, Sr, hSr, _, hsr⟩ := ihb _ _ nr st' (fun c hc => (mem_sideCols.mp hc).1) hnr
  exact ⟨hJU _ rfl, _, subset_joinUsg _ u, hsub,
    sound_joinStep nm ln rn key hjt hoa hob hca hcb hsub hsl hSl hsr hSr⟩

/-! ### SQLite: RIGHT join = swapped LEFT join -/

/-- the rows of the reference RIGHT join of `ta` and `tb` as the swapped LEFT join lists them: matched pairs
**right-row-major**, then the unmatched rows of `tb` -/
def swapJoinTable (a b : Ops) (onA onB : List String) (ta tb : Table) : Table :=
  ⟨(Ops.join a b onA onB .right).cols,
    joinRowsG (fun rb ra => refMatch SemCfg.ref .right onA onB ra rb)
      (fun y x => (joinRow a.cols b.cols (appendNew a.cols b.cols) x y).select (Ops.join a b onA onB .right).cols)
      true false tb.rows ta.rows⟩

/-- it is the reference RIGHT join up to row order -/
theorem swapJoinTable_equiv (a b : Ops) (onA onB : List String) {ta tb : Table}
    (hta : ta.cols = a.cols) (htb : tb.cols = b.cols) :
    ((semJoin SemCfg.ref .right onA onB ta tb (appendNew a.cols b.cols)).selectCols
      (Ops.join a b onA onB .right).cols) ≈ swapJoinTable a b onA onB ta tb := by
  refine ⟨rfl, ?_⟩
  simp only [Table.selectCols, swapJoinTable, semJoin_eq, hta, htb]
  rw [joinRowsG_map]
  have hfl : (JoinType.right == .left || JoinType.right == .full || JoinType.right == .outer ||
      (JoinType.right == .cross && SemCfg.ref.crossAsOuter)) = false := rfl
  have hfr : (JoinType.right == .right || JoinType.right == .full || JoinType.right == .outer ||
      (JoinType.right == .cross && SemCfg.ref.crossAsOuter)) = true := rfl
  rw [hfl, hfr]
  exact joinRowsG_swap _ _ _ _ _ _

/-- **The swapped LEFT join step, list version**: over two sound sub-queries it returns, row by row **in order**, the
rows of `swapJoinTable` – for every null pattern in the keys. -/
theorem sound_joinStep_swappedW {nl nr : Near} {a b : Ops} {onA onB usg Sl Sr : List String} {ta tb : Table}
    (nm ln rn : String) (key : Option String)
    (hoa : ∀ c ∈ onA, c ∈ a.cols) (hob : ∀ c ∈ onB, c ∈ b.cols) (hlen : onA.isEmpty = onB.isEmpty)
    (husg : ∀ c ∈ usg, c ∈ (Ops.join a b onA onB .right).cols)
    (hl : Sound Θ ec env nl Sl b.cols tb) (hlS : ∀ c ∈ sideCols b.cols usg onA onB, c ∈ Sl)
    (hr : Sound Θ ec env nr Sr a.cols ta) (hrS : ∀ c ∈ sideCols a.cols usg onA onB, c ∈ Sr) :
    Sound Θ ec env
      (.join nm (joinTerms false usg (sideCols b.cols usg onA onB) (sideCols a.cols usg onA onB)) nl
        (sideCols b.cols usg onA onB) ln nr (sideCols a.cols usg onA onB) rn .left onB onA key)
      usg (Ops.join a b onA onB .right).cols (swapJoinTable a b onA onB ta tb) := by
  refine ⟨?_, ?_⟩
  · intro u' hu' force
    obtain ⟨Tl, hTl, _, hTlr⟩ := hl.req _ hlS false
    obtain ⟨Tr, hTr, _, hTrr⟩ := hr.req _ hrS false
    rw [semNear_join, hTl, hTr]
    simp only [Except.bind]
    rw [if_neg (by decide)]
    refine ⟨_, rfl, subset_joinOut _ _, ?_⟩
    have hu'n : ∀ c ∈ u', c ∈ (Ops.join a b onA onB .right).cols := fun c hc => husg c (hu' c hc)
    have hnall : ∀ c ∈ (Ops.join a b onA onB .right).cols, c ∈ appendNew a.cols b.cols := by
      intro c hc; exact mem_appendNew.mpr ((mem_joinNodeCols a b onA onB .right c).mp hc)
    simp only [swapJoinTable]
    rw [joinRows_select _ _ _ (subset_joinOut _ _),
      joinRowsG_transport _ _ hTlr hTrr
        (refMatch_select _ _ (fun c hc => mem_sideCols.mpr ⟨hob c hc, Or.inr (Or.inr hc)⟩)
          (fun c hc => mem_sideCols.mpr ⟨hoa c hc, Or.inr (Or.inl hc)⟩))
        (fun x y => List.map_congr_left (fun c _ => by rw [sqlCell_select])),
      joinRowsG_map]
    have hcell : ∀ x y : Option Row,
        u'.map (fun c => (c, sqlCell (sideCols b.cols usg onA onB) (sideCols a.cols usg onA onB)
          (joinTerms false usg (sideCols b.cols usg onA onB) (sideCols a.cols usg onA onB)) y x c)) =
        ((joinRow a.cols b.cols (appendNew a.cols b.cols) x y).select (Ops.join a b onA onB .right).cols).select u' := by
      intro x y
      rw [Row.select_select hu'n, joinRow_eq, select_mkRow _ (fun c hc => hnall c (hu'n c hc))]
      exact List.map_congr_left (fun c hc => by rw [joinTerms_cell_swapped husg x y (hu' c hc)])
    have hm : ∀ ra rb : Row, refMatch SemCfg.ref .left onB onA rb ra = refMatch SemCfg.ref .right onA onB ra rb := by
      intro ra rb
      simp only [refMatch, keyMatch_symm SemCfg.ref (keyOf rb onB), hlen]
      rfl
    have hjf : (JoinType.left == JoinType.left || JoinType.left == JoinType.full) = true := rfl
    have hjf' : (JoinType.left == JoinType.right || JoinType.left == JoinType.full) = false := rfl
    rw [hjf, hjf']
    exact joinRowsG_congr true false (fun rb _ ra _ => hm ra rb) (fun _ _ _ _ => hcell _ _) (fun _ _ => hcell _ _)
      (fun _ _ => hcell _ _)
  · intro _
    exact ⟨_, rfl, fun k hk => (mem_joinNodeCols a b onA onB .right k).mpr (joinTerms_keys_sub k hk).symm,
      joinTerms_keys_sup (fun c hc => ((mem_joinNodeCols a b onA onB .right c).mp (husg c hc)).symm)⟩

/-- **Induction step for a RIGHT join on SQLite**, against any reference tables of the two sides: `Sound` against the
right-row-major listing of their RIGHT join. -/
theorem nodeOK_join_sqlite_right (hJU : ∀ q : Near, q.isJU = true → G q) (fuel : Nat) (a b : Ops)
    (onA onB : List String) (hemu : cfg.emulateRightFull = true)
    (hoa : ∀ c ∈ onA, c ∈ a.cols) (hob : ∀ c ∈ onB, c ∈ b.cols) (hlen : onA.isEmpty = onB.isEmpty) {ta tb : Table}
    (iha : NodeOK Θ ec env G cfg fuel a ta) (ihb : NodeOK Θ ec env G cfg fuel b tb) :
    NodeOK Θ ec env G cfg (fuel + 1) (.join a b onA onB .right) (swapJoinTable a b onA onB ta tb) := by
  intro u st q st' _ h
  obtain ⟨nl, nr, st1, nm, ln, rn, key, _, hsub, hnl, hnr, rfl⟩ := toNear_join_sqlite_right hemu h
  obtain ⟨_, Sl, hSl, _, hsl⟩ := ihb _ _ nl st1 (fun c hc => (mem_sideCols.mp hc).1) hnl
  obtain ⟨_, Sr, hSr, _, hsr⟩ := iha _ _ nr st' (fun c hc => (mem_sideCols.mp hc).1) hnr
  exact ⟨hJU _ rfl, _, subset_joinUsg _ u, hsub,
    sound_joinStep_swappedW nm ln rn key hoa hob hlen hsub hsl hSl hsr hSr⟩

/-! ### concat_rows -/

/-- what the translation of a labelled `concat_rows` needs from the labelled side `a' = a.extend({c: "name"})` as the
builder constructs it, against the reference table `ta` of the side -/
def LabelNodeOK (Θ : Interp) (ec : EngineCfg) (env : Env) (G : Near → Prop) (cfg : SqlCfg) (fuel : Nat)
    (a : Ops) (c name : String) (ta : Table) : Prop :=
  ∀ a', build a (.extend [(c, .value (.str name))] .none [] []) = .ok a' →
    (∀ x, x ∈ a'.cols ↔ x ∈ a.cols ∨ x = c) ∧
    ∃ ta', NodeOK Θ ec env G cfg fuel a' ta' ∧
      ∀ u' : List String, (∀ x ∈ u', x ∈ a.cols ∨ x = c) →
        ta'.rows.map (fun r => r.select u') = ta.rows.map (fun r => (r.set c (.str name)).select u')

/-- **Induction step for `concat_rows`**, with and without id column, against any reference tables of the sides
(without id column the sides themselves are translated, with id column only the labelled sides are). -/
theorem nodeOK_concat (hJU : ∀ q : Near, q.isJU = true → G q) (fuel : Nat) (a b : Ops) (idc : Option String)
    (an bn : String) {ta tb : Table}
    (iha : idc = none → NodeOK Θ ec env G cfg fuel a ta) (ihb : idc = none → NodeOK Θ ec env G cfg fuel b tb)
    (hla : ∀ c, idc = some c → LabelNodeOK Θ ec env G cfg fuel a c an ta)
    (hlb : ∀ c, idc = some c → LabelNodeOK Θ ec env G cfg fuel b c bn tb) :
    NodeOK Θ ec env G cfg (fuel + 1) (.concat a b idc an bn)
      (semConcat idc an bn ta tb (Ops.concat a b idc an bn).cols) := by
  intro u st q st' _ h
  rw [toNear] at h
  simp only [Option.getD_some, concat_used_left, concat_used_right] at h
  have husub := subset_joinUsg (.concat a b idc an bn) u
  simp only [joinUsg] at husub
  generalize (if u.isEmpty = true then List.take 1 (Ops.concat a b idc an bn).cols else u) = usg at h husub
  obtain ⟨_, s1, h1, h⟩ := bindM_ok.mp h
  obtain ⟨hsub, e1⟩ := guardM_ok.mp h1
  cases e1
  have hsub := subset_iff.mp hsub
  obtain ⟨_, s2, h2, h⟩ := bindM_ok.mp h
  obtain ⟨hlr, e2⟩ := guardM_ok.mp h2
  cases e2
  simp only [Bool.and_eq_true, subset_iff] at hlr
  have hmul : ∀ x, x ∈ a.cols.filter (fun c => usg.contains c) ↔ x ∈ a.cols ∧ x ∈ usg := by
    intro x; simp [List.mem_filter]
  have hmur : ∀ x, x ∈ b.cols.filter (fun c => usg.contains c) ↔ x ∈ b.cols ∧ x ∈ usg := by
    intro x; simp [List.mem_filter]
  cases idc with
  | none =>
    simp only at h
    obtain ⟨nl, s3, h3, h⟩ := bindM_ok.mp h
    obtain ⟨nr, s4, h4, h⟩ := bindM_ok.mp h
    obtain ⟨i, s5, _, h⟩ := bindM_ok.mp h
    cases pureM_ok.mp h
    have hncols : (Ops.concat a b none an bn).cols = a.cols := rfl
    rw [hncols] at hsub ⊢
    obtain ⟨_, Sl, hSl, _, hsl⟩ := iha rfl _ _ nl s3 (fun x hx => ((hmul x).mp hx).1) h3
    obtain ⟨_, Sr, hSr, _, hsr⟩ := ihb rfl _ _ nr s4 (fun x hx => ((hmur x).mp (hlr.1 x hx)).1) h4
    refine ⟨hJU _ rfl, usg, husub, hsub, ?_⟩
    apply sound_unionStep _ _ hsl hSl hsr hSr (fun x hx => (hmul x).mpr ⟨hsub x hx, hx⟩)
      (fun x hx => ((hmul x).mp hx).1)
    intro u' hu'
    simp only [semConcat, List.map_append, List.map_map]
    congr 1 <;> exact List.map_congr_left (fun r _ => Row.select_select (fun x hx => hsub x (hu' x hx)))
  | some c =>
    simp only at h
    obtain ⟨a', s3, h3, h⟩ := bindM_ok.mp h
    obtain ⟨_, hba, e3⟩ := liftE_ok.mp h3
    cases e3
    obtain ⟨nl, s4, h4, h⟩ := bindM_ok.mp h
    obtain ⟨b', s5, h5, h⟩ := bindM_ok.mp h
    obtain ⟨_, hbb, e5⟩ := liftE_ok.mp h5
    cases e5
    obtain ⟨nr, s6, h6, h⟩ := bindM_ok.mp h
    obtain ⟨i, s7, _, h⟩ := bindM_ok.mp h
    cases pureM_ok.mp h
    have hncols : (Ops.concat a b (some c) an bn).cols = a.cols ++ [c] := rfl
    rw [hncols] at hsub ⊢
    have hsub' : ∀ x ∈ usg, x ∈ a.cols ∨ x = c := by
      intro x hx; simpa using hsub x hx
    obtain ⟨hca, ta', hta', hra⟩ := hla c rfl a' hba
    obtain ⟨hcb, tb', htb', hrb⟩ := hlb c rfl b' hbb
    have huja : ∀ x ∈ unionL (a.cols.filter (fun c => usg.contains c)) [c], x ∈ a'.cols := by
      intro x hx
      rw [mem_unionL] at hx
      rw [hca]
      rcases hx with hx | hx
      · exact Or.inl ((hmul x).mp hx).1
      · exact Or.inr (by simpa using hx)
    have hujb : ∀ x ∈ unionL (a.cols.filter (fun c => usg.contains c)) [c], x ∈ b'.cols := by
      intro x hx
      rw [mem_unionL] at hx
      rw [hcb]
      rcases hx with hx | hx
      · exact Or.inl ((hmur x).mp (hlr.1 x hx)).1
      · exact Or.inr (by simpa using hx)
    obtain ⟨_, Sl, hSl, _, hsl⟩ := hta' _ _ nl s4 huja h4
    obtain ⟨_, Sr, hSr, _, hsr⟩ := htb' _ _ nr s6 hujb h6
    have husgj : ∀ x ∈ usg, x ∈ unionL (a.cols.filter (fun c => usg.contains c)) [c] := by
      intro x hx
      rw [mem_unionL]
      rcases hsub' x hx with h | h
      · exact Or.inl ((hmul x).mpr ⟨h, hx⟩)
      · exact Or.inr (by simpa using h)
    refine ⟨hJU _ rfl, usg, husub, hsub, ?_⟩
    apply sound_unionStep _ _ hsl hSl hsr hSr husgj
    · intro x hx
      rw [mem_unionL] at hx
      rcases hx with hx | hx
      · exact List.mem_append_left _ ((hmul x).mp hx).1
      · exact List.mem_append_right _ hx
    · intro u' hu'
      have hu'a : ∀ x ∈ u', x ∈ a.cols ∨ x = c := fun x hx => hsub' x (hu' x hx)
      have hu'b : ∀ x ∈ u', x ∈ b.cols ∨ x = c := by
        intro x hx
        rcases hu'a x hx with h | h
        · exact Or.inl ((hmur x).mp (hlr.1 x ((hmul x).mpr ⟨h, hu' x hx⟩))).1
        · exact Or.inr h
      rw [hra u' hu'a, hrb u' hu'b]
      simp only [semConcat, List.map_append, List.map_map]
      congr 1 <;> exact List.map_congr_left (fun r _ => Row.select_select (fun x hx => hsub x (hu' x hx)))

end SqlE
end Sql
end DAVerif
