import DAVerif.Proofs.ExprWalkWfBuild
/-!
C13: literals, list and dictionary literals the walker builds are well-formed.

* every string constant's `repr` reads back as the string (`decodeStr_repr`, all strings);
* `Value.__neg__` keeps constants well-formed;
* `mkList`, `mkKeyValue`, `mkDict` return well-formed collections.
-/
namespace DAVerif.C13W
open DAVerif DAVerif.Expr

/-! ## strings -/

theorem dsb_nil (q : Char) : decodeStrBody q [q] = some [] := by
  simp [decodeStrBody]

theorem dsb_esc (q e : Char) (cs : List Char) : decodeStrBody q ('\\' :: e :: cs) =
    (let rest := decodeStrBody q cs
     let put (x : Char) := rest.map (x :: ·)
     if e == '\\' then put '\\'
     else if e == '\'' then put '\''
     else if e == '"' then put '"'
     else if e == 'n' then put '\n'
     else if e == 't' then put '\t'
     else if e == 'r' then put '\r'
     else none) := by
  rw [decodeStrBody]

theorem dsb_raw (q c x : Char) (xs : List Char) (h1 : c ≠ '\\') : decodeStrBody q (c :: x :: xs) =
    if c == q then none else (decodeStrBody q (x :: xs)).map (c :: ·) := by
  rw [decodeStrBody]
  · intro h; cases h
  · intro e cs h
    exact absurd h h1

theorem body_ne (q : Char) (cs : List Char) : ∃ x xs, pyReprStrBody q cs ++ [q] = x :: xs := by
  cases h : pyReprStrBody q cs ++ [q] with
  | nil => simp at h
  | cons x xs => exact ⟨x, xs, rfl⟩

theorem decodeStrBody_repr (q : Char) (hq : q = '\'' ∨ q = '"') :
    ∀ cs : List Char, decodeStrBody q (pyReprStrBody q cs ++ [q]) = some cs
  | [] => by simp [pyReprStrBody, dsb_nil]
  | c :: cs => by
    have ih := decodeStrBody_repr q hq cs
    simp only [pyReprStrBody]
    split
    · rename_i h; have : c = '\\' := by simpa using h
      subst this
      simp [dsb_esc, ih]
    split
    · rename_i h0 h; have : c = q := by simpa using h
      subst this
      rcases hq with rfl | rfl <;> simp [dsb_esc, ih]
    split
    · rename_i h; have : c = '\n' := by simpa using h
      subst this; simp [dsb_esc, ih]
    split
    · rename_i h; have : c = '\t' := by simpa using h
      subst this; simp [dsb_esc, ih]
    split
    · rename_i h; have : c = '\r' := by simpa using h
      subst this; simp [dsb_esc, ih]
    · rename_i h1 h2 h3 h4 h5
      obtain ⟨x, xs, hx⟩ := body_ne q cs
      simp only [List.cons_append, List.nil_append, hx] at ih ⊢
      rw [dsb_raw q c x xs (by simpa using h1), ih]
      simp [h2]

/-- Python's `repr` of a string, read by `ast.literal_eval`, is the string (for every string, in the model) -/
theorem decodeStr_repr (s : String) : decodeStr (pyReprStr s) = some s := by
  unfold decodeStr pyReprStr
  simp only [String.toList_ofList]
  split
  · rename_i q cs heq
    injection heq with hq hcs
    subst hcs
    have hq' : q = '\'' ∨ q = '"' := by
      rw [← hq]; split <;> simp
    simp only [show (q == '\'' || q == '"') = true by rcases hq' with rfl | rfl <;> rfl, ↓reduceIte]
    have := decodeStrBody_repr q hq' s.toList
    simp only [List.append_eq, hq] at this ⊢
    rw [this]
    simp
  · rename_i heq; simp at heq

theorem litOk_str (s : String) : litOk (.str s) = true := by
  simp [litOk, decodeStr_repr]

/-! ## `Value.__neg__` -/

theorem abs_neg_rat (q : Rat) : (if -q < 0 then - -q else -q) = (if q < 0 then -q else q) := by
  grind

theorem negLit_litOk {l l' : Lit} (hl : litOk l = true) (h : negLit l = .ok l') : litOk l' = true := by
  cases l with
  | none => simp [negLit] at h
  | bool b => simp only [negLit] at h; injection h with h; subst h; rfl
  | int i => simp only [negLit] at h; injection h with h; subst h; rfl
  | flt q =>
    simp only [negLit] at h; injection h with h; subst h
    simp only [litOk] at hl ⊢
    rw [abs_neg_rat]; exact hl
  | nan => simp [litOk] at hl
  | inf => simp [litOk] at hl
  | ninf => simp [litOk] at hl
  | str s => simp [negLit] at h

/-! ## list literals -/

theorem wfs_values (env : Env) : ∀ lits : List Lit, wfs env (lits.map Term.value) = lits.all litOk
  | [] => by simp [wfs_nil]
  | l :: ls => by simp [wfs_cons, wf_value, wfs_values env ls]

theorem mkList_wf {env : Env} {vs : List Term} {t : Term} (hne : vs ≠ []) (hw : wfs env vs = true)
    (h : mkList vs = .ok t) : wf env t = true := by
  unfold mkList at h
  simp only at h
  split at h; · contradiction
  split at h; · contradiction
  split at h; · contradiction
  rename_i hlen hnone hcompat
  injection h with h
  subst h
  simp only [ne_eq, Decidable.not_not] at hlen
  have hvs := filterMap_value_len vs hlen
  rw [hvs, wfs_values] at hw
  rw [wf]
  simp only [Bool.and_eq_true, Bool.not_eq_true', hw, and_true]
  refine ⟨⟨?_, by simpa using hnone⟩, by simpa using hcompat⟩
  cases hf : vs.filterMap valueLit? with
  | nil => rw [hf] at hvs; simp at hvs; exact absurd hvs hne
  | cons _ _ => rfl

/-! ## dictionary literals -/

theorem mkKeyValue_ok {k v t : Term} (h : mkKeyValue k v = .ok t) :
    ∃ a b, k = .value a ∧ v = .value b ∧ t = .dict [(a, b)] := by
  unfold mkKeyValue at h
  split at h <;> try contradiction
  injection h with h
  exact ⟨_, _, rfl, rfl, h.symm⟩

/-- the invariant of the fold of `dict.__setitem__`: constants that re-read, no `None` key, no two equal keys -/
def dictInv (d : List (Lit × Lit)) : Bool :=
  d.all (fun kv => litOk kv.1 && litOk kv.2 && !(kv.1 == Lit.none)) && nodupKeys (d.map (·.1))

theorem nodupKeys_append_single : ∀ (ks : List Lit) (k : Lit), nodupKeys ks = true →
    ks.any (fun k' => Term.pyEqLit k' k) = false → nodupKeys (ks ++ [k]) = true
  | [], k, _, _ => by simp [nodupKeys]
  | a :: ks, k, h1, h2 => by
    simp only [nodupKeys, Bool.and_eq_true, Bool.not_eq_true'] at h1
    simp only [List.any_cons, Bool.or_eq_false_iff] at h2
    simp only [List.cons_append, nodupKeys, Bool.and_eq_true, Bool.not_eq_true', List.any_append, List.any_cons,
      List.any_nil, Bool.or_false, Bool.or_eq_false_iff]
    exact ⟨⟨h1.1, h2.1⟩, nodupKeys_append_single ks k h1.2 h2.2⟩

theorem map_fst_replace (d : List (Lit × Lit)) (k v : Lit) :
    (d.map (fun kv => if Term.pyEqLit kv.1 k then (kv.1, v) else kv)).map (·.1) = d.map (·.1) := by
  induction d with
  | nil => rfl
  | cons a d ih =>
    simp only [List.map_cons, ih, List.cons.injEq, and_true]
    split <;> rfl

theorem dictInsert_inv {d : List (Lit × Lit)} {k v : Lit} (hd : dictInv d = true) (hk : litOk k = true)
    (hv : litOk v = true) (hn : (k == Lit.none) = false) : dictInv (dictInsert d k v) = true := by
  simp only [dictInv, Bool.and_eq_true] at hd
  unfold dictInsert
  split
  · simp only [dictInv, Bool.and_eq_true, map_fst_replace, hd.2, and_true]
    rw [List.all_eq_true] at hd ⊢
    intro x hx
    simp only [List.mem_map] at hx
    obtain ⟨y, hy, rfl⟩ := hx
    have := hd.1 y hy
    simp only [Bool.and_eq_true, Bool.not_eq_true'] at this
    split
    · simp [this.1.1, hv, this.2]
    · simp [this.1.1, this.1.2, this.2]
  · rename_i hfresh
    simp only [dictInv, Bool.and_eq_true, List.all_append, hd.1, List.all_cons, hk, hv, hn, Bool.not_false,
      List.all_nil, Bool.and_self, true_and, List.map_append, List.map_cons, List.map_nil]
    apply nodupKeys_append_single _ _ hd.2
    simpa [List.any_map] using hfresh

theorem dictInsert_ne_nil (d : List (Lit × Lit)) (k v : Lit) : dictInsert d k v ≠ [] := by
  unfold dictInsert
  split
  · rename_i h
    cases d with
    | nil => simp at h
    | cons _ _ => simp
  · simp

theorem foldl_dictInsert_inv : ∀ (kvs acc : List (Lit × Lit)), dictInv acc = true →
    kvs.all (fun kv => litOk kv.1 && litOk kv.2 && !(kv.1 == Lit.none)) = true →
    dictInv (kvs.foldl (fun d kv => dictInsert d kv.1 kv.2) acc) = true ∧
      (kvs ≠ [] ∨ acc ≠ [] → kvs.foldl (fun d kv => dictInsert d kv.1 kv.2) acc ≠ [])
  | [], acc, h, _ => by simp [h]
  | kv :: kvs, acc, h, hall => by
    simp only [List.all_cons, Bool.and_eq_true, Bool.not_eq_true'] at hall
    have h1 := dictInsert_inv h hall.1.1.1 hall.1.1.2 hall.1.2
    obtain ⟨h2, h3⟩ := foldl_dictInsert_inv kvs _ h1 hall.2
    exact ⟨h2, fun _ => h3 (Or.inr (dictInsert_ne_nil _ _ _))⟩

theorem mapM_dictEntries_singletons : ∀ (kvs : List (Lit × Lit)),
    (kvs.map (fun kv => Term.dict [kv])).mapM dictEntries = .ok (kvs.map (fun kv => [kv]))
  | [] => rfl
  | kv :: kvs => by
    simp only [List.map_cons, List.mapM_cons, dictEntries, mapM_dictEntries_singletons kvs, ok_bind]
    rfl

theorem flatten_singletons : ∀ (kvs : List (Lit × Lit)), (kvs.map (fun kv => [kv])).flatten = kvs
  | [] => rfl
  | kv :: kvs => by simp [flatten_singletons kvs]

/-- `mkDict` on the one-entry dictionaries of the `key_value` children -/
theorem mkDict_wf {env : Env} {kvs : List (Lit × Lit)} {t : Term} (hne : kvs ≠ [])
    (hok : kvs.all (fun kv => litOk kv.1 && litOk kv.2) = true)
    (h : mkDict (kvs.map (fun kv => Term.dict [kv])) = .ok t) : wf env t = true := by
  unfold mkDict at h
  simp only [mapM_dictEntries_singletons, ok_bind, flatten_singletons] at h
  split at h; · contradiction
  rename_i hnone
  split at h; · contradiction
  split at h; · contradiction
  rename_i hck hcv
  injection h with h
  subst h
  have hall : kvs.all (fun kv => litOk kv.1 && litOk kv.2 && !(kv.1 == Lit.none)) = true := by
    rw [List.all_eq_true] at hok ⊢
    intro x hx
    have h1 := hok x hx
    have h2 : (x.1 == Lit.none) = false := by
      have := hnone
      simp only [Bool.not_eq_true, List.any_eq_false] at this
      simpa using this x hx
    simp [h1, h2]
  obtain ⟨hinv, hnn⟩ := foldl_dictInsert_inv kvs [] (by rfl) hall
  have hnn' := hnn (Or.inl hne)
  generalize kvs.foldl (fun d kv => dictInsert d kv.1 kv.2) [] = comb at *
  simp only [dictInv, Bool.and_eq_true] at hinv
  rw [wf]
  simp only [Bool.and_eq_true, Bool.not_eq_true']
  refine ⟨⟨⟨⟨⟨?_, ?_⟩, ?_⟩, hinv.2⟩, by simpa using hck⟩, by simpa using hcv⟩
  · cases comb with
    | nil => contradiction
    | cons _ _ => rfl
  · rw [List.all_eq_true] at hinv ⊢
    intro x hx
    have := hinv.1 x hx
    simp only [Bool.and_eq_true] at this ⊢
    exact this.1
  · rw [List.any_eq_false]
    intro x hx
    rw [List.all_eq_true] at hinv
    have := hinv.1 x hx
    simp only [Bool.and_eq_true, Bool.not_eq_true'] at this
    simp [this.2]

end DAVerif.C13W
