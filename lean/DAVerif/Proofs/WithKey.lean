import DAVerif.Proofs.WithFix
/-
CTE-cache keys (property C04): "equal up to the numbering of query names" implies "same semantics"; a syntactic
sufficient condition for the hypothesis `KeyOK` of the CTE-elimination theorem.
-/
namespace DAVerif.Sql
open DAVerif

/-- the tree with the generated query names (and join aliases) erased; keys, columns and terms are kept -/
def Near.unname : Near → Near
  | .table n ts => .table n ts
  | .cte n => .cte n
  | .unary _ ts agg sub sc sf mg deps k => .unary "" ts agg sub.unname sc sf mg deps k
  | .join _ ts l lc _ r rc _ jt oa ob k => .join "" ts l.unname lc "" r.unname rc "" jt oa ob k
  | .union _ ts l r cs k => .union "" ts l.unname r.unname cs k

section
variable (Θ : Interp) (ec : EngineCfg) (env : Env)

/-- query names do not matter to the SQL semantics -/
theorem semNear_unname (ctes : List (String × Table)) (q : Near) :
    ∀ cols f, semNear Θ ec env ctes q cols f = semNear Θ ec env ctes q.unname cols f := by
  induction q with
  | table n ts => intro cols f; rfl
  | cte n => intro cols f; rfl
  | unary name terms agg sub sc sf mg deps k ih =>
    intro cols f
    exact semNear_unary_congr Θ ec env _ _ _ _ _ _ _ _ _ _ _ _ _ _ _ _ _ _ _ (ih sc false)
  | join name terms l lc ln r rc rn jt oa ob k ihl ihr =>
    intro cols f
    exact semNear_join_congr Θ ec env _ _ _ _ _ _ _ _ _ _ _ _ _ _ _ _ _ _ _ _ _ _ _ (ihl (some lc) false) (ihr (some rc) false)
  | union name terms l r cs k ihl ihr =>
    intro cols f
    exact semNear_union_congr Θ ec env _ _ _ _ _ _ _ _ _ _ _ _ _ _ _ (ihl (some cs) true) (ihr (some cs) true)

/-- `force_sql` only matters on table-like nodes -/
theorem semNear_force (ctes : List (String × Table)) (q : Near) (h : ¬ q.isTable = true) (cols : Option (List String))
    (f f' : Bool) : semNear Θ ec env ctes q cols f = semNear Θ ec env ctes q cols f' := by
  cases q with
  | table n ts => simp [Near.isTable] at h
  | cte n => simp [Near.isTable] at h
  | unary => simp only [semNear]
  | join => simp only [semNear]
  | union => simp only [semNear]
end

theorem unname_isTable (q : Near) : q.unname.isTable = q.isTable := by cases q <;> rfl

theorem unname_key (q : Near) : q.unname.key = q.key := by cases q <;> rfl

theorem desc_unname (q : Near) : q.unname.desc = q.desc.map (fun x => (x.1.unname, x.2.1, x.2.2)) := by
  induction q with
  | table n ts => rfl
  | cte n => rfl
  | unary name terms agg sub sc sf mg deps k ih =>
    simp only [Near.unname, Near.desc, unname_isTable, ih, List.map_append]
    split <;> simp
  | join name terms l lc ln r rc rn jt oa ob k ihl ihr =>
    simp only [Near.unname, Near.desc, unname_isTable, ihl, ihr, List.map_append]
    split <;> split <;> simp
  | union name terms l r cs k ihl ihr =>
    simp only [Near.unname, Near.desc, unname_isTable, ihl, ihr, List.map_append]
    split <;> split <;> simp

theorem desc_not_isTable (q : Near) : ∀ x ∈ q.desc, ¬ x.1.isTable = true := by
  induction q with
  | table n ts => intro x hx; simp [Near.desc] at hx
  | cte n => intro x hx; simp [Near.desc] at hx
  | unary name terms agg sub sc sf mg deps k ih =>
    intro x hx
    rw [desc_unary] at hx
    cases mem_bdesc hx with
    | inl h =>
      subst h
      intro ht
      rw [bdesc_of_isTable _ _ ht] at hx
      simp at hx
    | inr h => exact ih x h
  | join name terms l lc ln r rc rn jt oa ob k ihl ihr =>
    intro x hx
    rw [desc_join, List.mem_append] at hx
    cases hx with
    | inl hx =>
      cases mem_bdesc hx with
      | inl h => subst h; intro ht; rw [bdesc_of_isTable _ _ ht] at hx; simp at hx
      | inr h => exact ihl x h
    | inr hx =>
      cases mem_bdesc hx with
      | inl h => subst h; intro ht; rw [bdesc_of_isTable _ _ ht] at hx; simp at hx
      | inr h => exact ihr x h
  | union name terms l r cs k ihl ihr =>
    intro x hx
    rw [desc_union, List.mem_append] at hx
    cases hx with
    | inl hx =>
      cases mem_bdesc hx with
      | inl h => subst h; intro ht; rw [bdesc_of_isTable _ _ ht] at hx; simp at hx
      | inr h => exact ihl x h
    | inr hx =>
      cases mem_bdesc hx with
      | inl h => subst h; intro ht; rw [bdesc_of_isTable _ _ ht] at hx; simp at hx
      | inr h => exact ihr x h

/-- **the key determines the sub-query up to the numbering of query names** (syntactic condition) -/
def ShapeDet (q : Near) : Prop :=
  ∀ x ∈ q.desc, ∀ y ∈ q.desc, cacheKey x.1 x.2.1 = cacheKey y.1 y.2.1 → x.1.unname = y.1.unname ∧ x.2.1 = y.2.1

/-- if equal cache keys mean "same sub-tree up to query names, bound with the same columns", the key function of the
code is faithful and closed on `q`, for every interpretation, engine and environment -/
theorem KeyOK_of_shape (Θ : Interp) (ec : EngineCfg) (env : Env) (q : Near) (h : ShapeDet q) :
    KeyOK Θ ec env cacheKey q := by
  constructor
  · intro x hx y hy he
    obtain ⟨h1, h2⟩ := h x hx y hy he
    unfold den
    rw [semNear_unname, semNear_unname Θ ec env [] y.1, h1, h2]
    apply semNear_force
    rw [unname_isTable]
    exact desc_not_isTable q y hy
  · intro x hx y hy he m hm
    obtain ⟨h1, -⟩ := h x hx y hy he
    have hm' : (m.1.unname, m.2.1, m.2.2) ∈ x.1.unname.desc := by
      rw [desc_unname]; exact List.mem_map.mpr ⟨m, hm, rfl⟩
    rw [h1, desc_unname, List.mem_map] at hm'
    obtain ⟨m0, hm0, he0⟩ := hm'
    refine ⟨m0, hm0, ?_⟩
    simp only [Prod.mk.injEq] at he0
    simp only [bkey, cacheKey]
    rw [← unname_key m0.1, ← unname_key m.1, he0.1, he0.2.1]

/-- the semantic half, which is all the code as it is (after fix N28) needs -/
theorem KeyFaith_of_shape (Θ : Interp) (ec : EngineCfg) (env : Env) (q : Near) (h : ShapeDet q) :
    KeyFaith Θ ec env cacheKey q :=
  (KeyOK_of_shape Θ ec env q h).faith

end DAVerif.Sql
