import DAVerif.Proofs.C06Accept
/-!
C06, assembled: a builder call on a valid pipeline evaluates – up to row and column order – to the raw step
(`semStep`) applied to the materialised result of the pipeline.
-/
namespace DAVerif

variable {Θ : Interp} {cfg : SemCfg} {env : Env}

/-- the node `buildRaw` returns when it accepts -/
def rawNodeOf (leaf : Ops) : Step → Ops
  | .extend ops pa od rv => if ops.isEmpty then leaf else .extend leaf ops pa.cols' od rv (stepWindowed ops pa od)
  | .project ops g => .project leaf ops g
  | .selectRows none => leaf
  | .selectRows (some e) => .selectRows leaf e
  | .selectCols cs => selectNode leaf cs
  | .dropCols cs => if cs.isEmpty then leaf else .dropCols leaf cs
  | .order cs rv lim => if cs.isEmpty && lim.isNone then leaf else .order leaf cs rv lim
  | .rename m => if m.isEmpty then leaf else .rename leaf m
  | .mapCols m => if m.isEmpty then leaf else .mapCols leaf (mapRemap m) (mapDels m)
  | .join b oa ob jt _ => match JoinType.parse jt with
    | some t => .join leaf b oa ob t
    | none => leaf
  | .concat none _ _ _ => leaf
  | .concat (some b) idc an bn => .concat leaf b idc an bn
  | .convert none => leaf
  | .convert (some rm) => .convert leaf rm

theorem buildRaw_ok_node {leaf : Ops} {s : Step} {N : Ops} (h : buildRaw leaf s = .ok N) :
    N = rawNodeOf leaf s := by
  cases s with
  | extend ops pa od rv =>
    simp only [buildRaw] at h
    obtain ⟨parsed, hp, h2⟩ := except_bind_eq_ok.mp h
    obtain ⟨hpe, _, _⟩ := parseAssignments_okC hp
    subst hpe
    simp only [rawNodeOf]
    split at h2
    · rename_i he; rw [if_pos he]; cases h2; rfl
    · rename_i he
      rw [if_neg he]
      obtain ⟨_, _, h3⟩ := except_bind_eq_ok.mp h2
      rw [mkExtend_eqC] at h3
      obtain ⟨_, _, h4⟩ := except_bind_eq_ok.mp h3
      cases h4; rfl
  | project ops g =>
    simp only [buildRaw] at h
    obtain ⟨parsed, hp, h2⟩ := except_bind_eq_ok.mp h
    obtain ⟨hpe, _, _⟩ := parseAssignments_okC hp
    subst hpe
    obtain ⟨_, _, h3⟩ := except_bind_eq_ok.mp h2
    rw [mkProject_eq] at h3
    obtain ⟨_, _, h4⟩ := except_bind_eq_ok.mp h3
    cases h4; rfl
  | selectRows e =>
    cases e with
    | none => cases h; rfl
    | some e =>
      simp only [buildRaw] at h
      obtain ⟨_, _, h2⟩ := except_bind_eq_ok.mp h
      cases h2; rfl
  | selectCols cs =>
    simp only [buildRaw] at h
    obtain ⟨_, _, h2⟩ := except_bind_eq_ok.mp h
    rw [mkSelectCols_eq] at h2
    obtain ⟨_, _, h3⟩ := except_bind_eq_ok.mp h2
    cases h3; rfl
  | dropCols cs =>
    simp only [buildRaw, rawNodeOf] at h ⊢
    split at h
    · rename_i he; rw [if_pos he]; cases h; rfl
    · rename_i he
      rw [if_neg he]
      rw [mkDropCols_eq] at h
      obtain ⟨_, _, h3⟩ := except_bind_eq_ok.mp h
      cases h3; rfl
  | order cs rv lim =>
    simp only [buildRaw, rawNodeOf] at h ⊢
    split at h
    · rename_i he; rw [if_pos he]; cases h; rfl
    · rename_i he
      rw [if_neg he]
      rw [mkOrder_eq] at h
      obtain ⟨_, _, h3⟩ := except_bind_eq_ok.mp h
      cases h3; rfl
  | rename m =>
    simp only [buildRaw, rawNodeOf] at h ⊢
    split at h
    · rename_i he; rw [if_pos he]; cases h; rfl
    · rename_i he
      rw [if_neg he]
      rw [mkRename_eq] at h
      obtain ⟨_, _, h3⟩ := except_bind_eq_ok.mp h
      cases h3; rfl
  | mapCols m =>
    simp only [buildRaw, rawNodeOf] at h ⊢
    split at h
    · rename_i he; rw [if_pos he]; cases h; rfl
    · rename_i he
      rw [if_neg he]
      rw [mkMapCols_eq] at h
      obtain ⟨_, _, h3⟩ := except_bind_eq_ok.mp h
      cases h3; rfl
  | join b oa ob jt chk =>
    simp only [buildRaw, mkJoin_eq] at h
    obtain ⟨t, hchk, h3⟩ := except_bind_eq_ok.mp h
    cases h3
    simp only [joinChk, ok?_bind_eq_ok] at hchk
    obtain ⟨_, _, _, _, _, h6⟩ := hchk
    simp only [rawNodeOf]
    cases hj : JoinType.parse jt with
    | none => rw [hj] at h6; cases h6
    | some t' =>
      rw [hj] at h6
      simp only [ok?_bind_eq_ok] at h6
      cases h6.2; rfl
  | concat b idc an bn =>
    cases b with
    | none => cases h; rfl
    | some b =>
      simp only [buildRaw, mkConcat_eq] at h
      obtain ⟨_, _, h3⟩ := except_bind_eq_ok.mp h
      cases h3; rfl
  | convert rm =>
    cases rm with
    | none => cases h; rfl
    | some rm =>
      simp only [buildRaw, mkConvert_eq] at h
      obtain ⟨_, _, h3⟩ := except_bind_eq_ok.mp h
      cases h3; rfl

/-! ### facts about nodes that do not depend on their sources -/

theorem NodeScope_reSrc (Θ : Interp) (N a : Ops) (rows : List Row) :
    NodeScope Θ (N.reSrc a) rows = NodeScope Θ N rows := by
  cases N <;> first | rfl | (rename_i lim; cases lim <;> rfl)

theorem NodeColsOK_reSrc (N a : Ops) (cs : List String) : NodeColsOK (N.reSrc a) cs = NodeColsOK N cs := by
  cases N <;> rfl

theorem reSrc_srcB (N a : Ops) : (N.reSrc a).srcB = N.srcB := by cases N <;> rfl

theorem reSrc_srcA {N : Ops} (a : Ops) (hT : ∀ n cs, N ≠ .table n cs) : (N.reSrc a).srcA = a := by
  cases N with
  | table n cs => exact absurd rfl (hT n cs)
  | _ => rfl

theorem reSrc_ne_table {N : Ops} (a : Ops) (hT : ∀ n cs, N ≠ .table n cs) : ∀ n cs, N.reSrc a ≠ .table n cs := by
  cases N with
  | table n cs => exact absurd rfl (hT n cs)
  | _ => intro _ _ h; cases h

/-- the step's scope condition is the scope condition of its raw node -/
theorem NodeScope_of_StepScope {s : Step} {rows : List Row} (leaf : Ops) (hl : ∀ r, NodeScope Θ leaf r)
    (h : StepScope Θ s rows) : NodeScope Θ (rawNodeOf leaf s) rows := by
  cases s with
  | extend ops pa od rv =>
    simp only [rawNodeOf]
    split
    · exact hl _
    · exact h
  | project ops g => exact h
  | order cs rv lim =>
    simp only [rawNodeOf]
    split
    · exact hl _
    · cases lim with
      | none => trivial
      | some n => exact h
  | selectRows e => cases e <;> first | exact hl _ | trivial
  | selectCols cs => cases leaf <;> trivial
  | dropCols cs => simp only [rawNodeOf]; split <;> first | exact hl _ | trivial
  | rename m => simp only [rawNodeOf]; split <;> first | exact hl _ | trivial
  | mapCols m => simp only [rawNodeOf]; split <;> first | exact hl _ | trivial
  | join b oa ob jt chk => simp only [rawNodeOf]; split <;> first | exact hl _ | trivial
  | concat b idc an bn => cases b <;> first | exact hl _ | trivial
  | convert rm => cases rm <;> first | exact hl _ | trivial

/-- a raw node that was accepted over a table description with pairwise different columns declares pairwise
different columns -/
theorem NodeColsOK_of_buildRaw {n : String} {cs : List String} {s : Step} {N : Ops} (hn : cs.Nodup)
    (h : buildRaw (.table n cs) s = .ok N) : NodeColsOK N cs := by
  cases s with
  | extend ops pa od rv =>
    rw [buildRaw_ok_node h]; simp only [rawNodeOf]; split <;> trivial
  | project ops g =>
    simp only [buildRaw] at h
    obtain ⟨parsed, hp, h2⟩ := except_bind_eq_ok.mp h
    obtain ⟨hpe, _, _⟩ := parseAssignments_okC hp
    subst hpe
    obtain ⟨_, _, h3⟩ := except_bind_eq_ok.mp h2
    rw [mkProject_eq] at h3
    obtain ⟨_, hchk, h4⟩ := except_bind_eq_ok.mp h3
    cases h4
    simp only [projectChk, ok?_bind_eq_ok] at hchk
    exact nodupB_iffC.mp hchk.2.1
  | selectRows e => rw [buildRaw_ok_node h]; cases e <;> trivial
  | selectCols cs' =>
    simp only [buildRaw] at h
    obtain ⟨_, _, h2⟩ := except_bind_eq_ok.mp h
    rw [mkSelectCols_eq] at h2
    obtain ⟨_, hchk, h3⟩ := except_bind_eq_ok.mp h2
    cases h3
    simp only [selectChk, ok?_bind_eq_ok, ok?_eq_ok, Ops.cols] at hchk
    exact ⟨nodupB_iffC.mp hchk.2.2, subset_iffC.mp hchk.2.1⟩
  | dropCols cs' => rw [buildRaw_ok_node h]; simp only [rawNodeOf]; split <;> trivial
  | order cs' rv lim => rw [buildRaw_ok_node h]; simp only [rawNodeOf]; split <;> trivial
  | rename m =>
    simp only [buildRaw] at h
    split at h
    · cases h; trivial
    · rw [mkRename_eq] at h
      obtain ⟨_, hchk, h3⟩ := except_bind_eq_ok.mp h
      cases h3
      simp only [renameChk, ok?_bind_eq_ok, ok?_eq_ok, Ops.cols] at hchk
      exact nodupB_iffC.mp hchk.2.2
  | mapCols m =>
    simp only [buildRaw] at h
    split at h
    · cases h; trivial
    · rw [mkMapCols_eq] at h
      obtain ⟨_, hchk, h3⟩ := except_bind_eq_ok.mp h
      cases h3
      simp only [mapColsChk, ok?_bind_eq_ok, ok?_eq_ok, Ops.cols] at hchk
      exact nodupB_iffC.mp hchk.2.2.2
  | join b oa ob jt chk => rw [buildRaw_ok_node h]; simp only [rawNodeOf]; split <;> trivial
  | concat b idc an bn =>
    cases b with
    | none => cases h; trivial
    | some b =>
      simp only [buildRaw, mkConcat_eq] at h
      obtain ⟨_, hchk, h3⟩ := except_bind_eq_ok.mp h
      cases h3
      simp only [concatChk, ok?_bind_eq_ok, ok?_eq_ok, Ops.cols] at hchk
      show (concatCols cs idc).Nodup
      cases idc with
      | none => exact hn
      | some c =>
        simp only [concatCols]
        rw [List.nodup_append]
        refine ⟨hn, by simp, ?_⟩
        intro x hx y hy
        simp only [List.mem_singleton] at hy
        subst hy
        rintro rfl
        have := hchk.2.2
        simp only [Bool.not_eq_true', List.contains_eq_mem, decide_eq_false_iff_not] at this
        exact this hx
  | convert rm =>
    cases rm with
    | none => cases h; trivial
    | some rm =>
      simp only [buildRaw, mkConvert_eq] at h
      obtain ⟨_, hchk, h3⟩ := except_bind_eq_ok.mp h
      cases h3
      simp only [convertChk, ok?_bind_eq_ok, ok?_eq_ok] at hchk
      exact nodupB_iffC.mp hchk.2.2

/-! ### the shape of what a builder call returns -/

/-- What a successful builder call returns, relative to the raw node `N` of the step: the receiver itself (empty
steps), the raw node re-targeted to the stripped receiver, the result of `extend`'s merge logic, or the result
of `select_columns`' collapse. -/
inductive BuildShape (p p' : Ops) (leaf : Ops) (s : Step) (N : Ops) : Prop
  | ident : (∃ n cs, N = .table n cs) → p' = p → BuildShape p p' leaf s N
  | plain : p' = N.reSrc p.strip → (∀ n cs, N ≠ .table n cs) → BuildShape p p' leaf s N
  | extend (ops : Assign) (pa : PartArg) (od rv : List String) : s = .extend ops pa od rv →
      ops.isEmpty = false → extendTopC p.strip ops pa od rv = .ok p' →
      N = .extend leaf ops pa.cols' od rv (stepWindowed ops pa od) → BuildShape p p' leaf s N
  | select (cs : List String) : s = .selectCols cs → selectColsB p cs = .ok p' → N = .selectCols leaf cs →
      BuildShape p p' leaf s N

theorem build_shape {p p' : Ops} {s : Step} {n : String} {cs0 : List String} {N : Ops}
    (h : build p s = .ok p') (hr : buildRaw (.table n cs0) s = .ok N) :
    BuildShape p p' (.table n cs0) s N := by
  have hN := buildRaw_ok_node hr
  cases s with
  | extend ops pa od rv =>
    simp only [build] at h
    obtain ⟨parsed, hp, h2⟩ := except_bind_eq_ok.mp h
    obtain ⟨hpe, _, _⟩ := parseAssignments_okC hp
    subst hpe
    cases hne : parsed.isEmpty with
    | true =>
      rw [extendParsed_eq] at h2
      simp only [hne, if_true] at h2
      cases h2
      refine .ident ⟨n, cs0, ?_⟩ rfl
      rw [hN]; simp only [rawNodeOf, hne, if_true]
    | false =>
      rw [extendParsed_stripC _ _ _ _ _ hne] at h2
      obtain ⟨_, _, h3⟩ := except_bind_eq_ok.mp h2
      refine .extend parsed pa od rv rfl hne h3 ?_
      rw [hN]; simp only [rawNodeOf, hne, Bool.false_eq_true, if_false]
  | project ops g =>
    simp only [build] at h
    obtain ⟨parsed, hp, h2⟩ := except_bind_eq_ok.mp h
    obtain ⟨hpe, _, _⟩ := parseAssignments_okC hp
    subst hpe
    rw [projectParsed_stripC] at h2
    obtain ⟨_, _, h3⟩ := except_bind_eq_ok.mp h2
    rw [mkProject_eq] at h3
    obtain ⟨_, _, h4⟩ := except_bind_eq_ok.mp h3
    cases h4
    rw [hN]
    exact .plain rfl (by intro _ _ hh; cases hh)
  | selectRows e =>
    cases e with
    | none => cases h; rw [hN]; exact .ident ⟨n, cs0, rfl⟩ rfl
    | some e =>
      simp only [build] at h
      obtain ⟨_, _, h2⟩ := except_bind_eq_ok.mp h
      rw [selectRowsB_strip] at h2
      cases h2
      rw [hN]
      exact .plain rfl (by intro _ _ hh; cases hh)
  | selectCols cs =>
    simp only [build] at h
    obtain ⟨_, _, h2⟩ := except_bind_eq_ok.mp h
    exact .select cs rfl h2 (by rw [hN]; rfl)
  | dropCols cs =>
    simp only [build] at h
    rw [hN]
    simp only [rawNodeOf]
    split at h
    · rename_i he; rw [if_pos he]; cases h; exact .ident ⟨n, cs0, rfl⟩ rfl
    · rename_i he
      rw [if_neg he]
      rw [dropColsB_strip, mkDropCols_eq] at h
      obtain ⟨_, _, h3⟩ := except_bind_eq_ok.mp h
      cases h3
      exact .plain rfl (by intro _ _ hh; cases hh)
  | order cs rv lim =>
    simp only [build] at h
    rw [hN]
    simp only [rawNodeOf]
    split at h
    · rename_i he; rw [if_pos he]; cases h; exact .ident ⟨n, cs0, rfl⟩ rfl
    · rename_i he
      rw [if_neg he]
      rw [orderB_strip, mkOrder_eq] at h
      obtain ⟨_, _, h3⟩ := except_bind_eq_ok.mp h
      cases h3
      exact .plain rfl (by intro _ _ hh; cases hh)
  | rename m =>
    simp only [build] at h
    rw [hN]
    simp only [rawNodeOf]
    split at h
    · rename_i he; rw [if_pos he]; cases h; exact .ident ⟨n, cs0, rfl⟩ rfl
    · rename_i he
      rw [if_neg he]
      rw [renameB_strip, mkRename_eq] at h
      obtain ⟨_, _, h3⟩ := except_bind_eq_ok.mp h
      cases h3
      exact .plain rfl (by intro _ _ hh; cases hh)
  | mapCols m =>
    simp only [build] at h
    rw [hN]
    simp only [rawNodeOf]
    split at h
    · rename_i he; rw [if_pos he]; cases h; exact .ident ⟨n, cs0, rfl⟩ rfl
    · rename_i he
      rw [if_neg he]
      rw [mapColsB_strip, mkMapCols_eq] at h
      obtain ⟨_, _, h3⟩ := except_bind_eq_ok.mp h
      cases h3
      exact .plain rfl (by intro _ _ hh; cases hh)
  | join b oa ob jt chk =>
    simp only [build] at h
    rw [joinB_strip, mkJoin_eq] at h
    obtain ⟨t, hchk, h3⟩ := except_bind_eq_ok.mp h
    cases h3
    simp only [joinChk, ok?_bind_eq_ok] at hchk
    obtain ⟨_, _, _, _, _, h6⟩ := hchk
    rw [hN]
    simp only [rawNodeOf]
    cases hj : JoinType.parse jt with
    | none => rw [hj] at h6; cases h6
    | some t' =>
      rw [hj] at h6
      simp only [ok?_bind_eq_ok] at h6
      cases h6.2
      exact .plain rfl (by intro _ _ hh; cases hh)
  | concat b idc an bn =>
    cases b with
    | none => cases h; rw [hN]; exact .ident ⟨n, cs0, rfl⟩ rfl
    | some b =>
      simp only [build] at h
      rw [concatB_strip, mkConcat_eq] at h
      obtain ⟨_, _, h3⟩ := except_bind_eq_ok.mp h
      cases h3
      rw [hN]
      exact .plain rfl (by intro _ _ hh; cases hh)
  | convert rm =>
    cases rm with
    | none => cases h; rw [hN]; exact .ident ⟨n, cs0, rfl⟩ rfl
    | some rm =>
      simp only [build] at h
      rw [convertB_strip, mkConvert_eq] at h
      obtain ⟨_, _, h3⟩ := except_bind_eq_ok.mp h
      cases h3
      rw [hN]
      exact .plain rfl (by intro _ _ hh; cases hh)

/-! ### the main statement -/

/-- the operator of a node applied to a materialised first source; the second source (join / concat) is
evaluated in `env` -/
def applyStep (Θ : Interp) (cfg : SemCfg) (env : Env) (N : Ops) (t : Table) : Except Err Table :=
  match N.srcB with
  | none => applyNode Θ cfg N t t
  | some b => sem Θ cfg env b >>= fun tb => applyNode Θ cfg N t tb

theorem rawNodeOf_shape (n : String) (cs : List String) (s : Step) :
    rawNodeOf (.table n cs) s = .table n cs ∨
    ((rawNodeOf (.table n cs) s).srcA = .table n cs ∧ (∀ n' cs', rawNodeOf (.table n cs) s ≠ .table n' cs') ∧
      ∀ b, (rawNodeOf (.table n cs) s).srcB = some b → b ∈ Step.argOps s) := by
  cases s with
  | extend ops pa od rv =>
    simp only [rawNodeOf]
    split
    · exact Or.inl rfl
    · exact Or.inr ⟨rfl, (by intro _ _ h; cases h), (by intro _ h; cases h)⟩
  | project ops g => exact Or.inr ⟨rfl, (by intro _ _ h; cases h), (by intro _ h; cases h)⟩
  | selectRows e =>
    cases e with
    | none => exact Or.inl rfl
    | some e => exact Or.inr ⟨rfl, (by intro _ _ h; cases h), (by intro _ h; cases h)⟩
  | selectCols cs' => exact Or.inr ⟨rfl, (by intro _ _ h; cases h), (by intro _ h; cases h)⟩
  | dropCols cs' =>
    simp only [rawNodeOf]
    split
    · exact Or.inl rfl
    · exact Or.inr ⟨rfl, (by intro _ _ h; cases h), (by intro _ h; cases h)⟩
  | order cs' rv lim =>
    simp only [rawNodeOf]
    split
    · exact Or.inl rfl
    · exact Or.inr ⟨rfl, (by intro _ _ h; cases h), (by intro _ h; cases h)⟩
  | rename m =>
    simp only [rawNodeOf]
    split
    · exact Or.inl rfl
    · exact Or.inr ⟨rfl, (by intro _ _ h; cases h), (by intro _ h; cases h)⟩
  | mapCols m =>
    simp only [rawNodeOf]
    split
    · exact Or.inl rfl
    · exact Or.inr ⟨rfl, (by intro _ _ h; cases h), (by intro _ h; cases h)⟩
  | join b oa ob jt chk =>
    simp only [rawNodeOf]
    split
    · exact Or.inr ⟨rfl, (by intro _ _ h; cases h), (by intro b' h; cases h; simp [Step.argOps])⟩
    · exact Or.inl rfl
  | concat b idc an bn =>
    cases b with
    | none => exact Or.inl rfl
    | some b => exact Or.inr ⟨rfl, (by intro _ _ h; cases h), (by intro b' h; cases h; simp [Step.argOps])⟩
  | convert rm =>
    cases rm with
    | none => exact Or.inl rfl
    | some rm => exact Or.inr ⟨rfl, (by intro _ _ h; cases h), (by intro _ h; cases h)⟩

/-- **`semStep` in operator form.**  On a well-formed table the meaning of an accepted step is the operator of
its raw node. -/
theorem semStep_eq (hΘ : ConvertOK Θ) {n : String} {s : Step} {t : Table} {N : Ops} (hw : t.WF)
    (hn : t.cols.Nodup) (hr : buildRaw (.table n t.cols) s = .ok N) (hf : Step.Fresh n s) :
    semStep Θ cfg env n s t = applyStep Θ cfg env N t := by
  have hleaf := sem_table_self Θ cfg env n hw hn
  simp only [semStep, hr]
  show sem Θ cfg ((n, t) :: env) N = _
  have hN := buildRaw_ok_node hr
  rcases rawNodeOf_shape n t.cols s with h | ⟨hA, hT, hB⟩
  · rw [hN, h, hleaf]; rfl
  · rw [← hN] at hA hT hB
    cases hb : N.srcB with
    | none =>
      rw [sem_eq_applyNode_unary Θ hΘ cfg _ N hb hT, hA, hleaf]
      simp only [applyStep, hb]
      rfl
    | some b =>
      rw [sem_eq_applyNode_binary Θ hΘ cfg _ N b hb, hA, hleaf]
      simp only [applyStep, hb, ok_bind]
      rw [sem_cons_fresh Θ cfg env n t b (hf b (hB b hb))]

/-- **C06 in operator form**, from the shape of what the builder returned. -/
theorem shape_sem_apply (hΘ : ConvertOK Θ) (hC : ConvertInvariant Θ) {p p' leaf : Ops} {s : Step} {N : Ops}
    (hv : p.valid = true) (hshape : BuildShape p p' leaf s N) (hp'v : p'.valid = true)
    (hbv : ∀ b, N.srcB = some b → b.valid = true)
    (hscope : ∀ t, sem Θ cfg env p = .ok t → NodeScope Θ N t.rows)
    (hcols : ∀ t, sem Θ cfg env p = .ok t → NodeColsOK N t.cols) :
    ResEquivC (sem Θ cfg env p') (sem Θ cfg env p >>= applyStep Θ cfg env N) := by
  have hwf : ∀ t, sem Θ cfg env p = .ok t → t.WF ∧ t.cols.Nodup := fun t ht => sem_wf_nodup hΘ hv ht
  cases hshape with
  | ident hNl hp =>
    subst hp
    have : (sem Θ cfg env p' >>= applyStep Θ cfg env N) = sem Θ cfg env p' := by
      obtain ⟨n, cs, rfl⟩ := hNl
      cases sem Θ cfg env p' <;> rfl
    rw [this]
    exact ResEquivC.of_eq rfl hwf
  | plain hp hT =>
    cases hsb : N.srcB with
    | none =>
      have : (sem Θ cfg env p >>= applyStep Θ cfg env N) = (sem Θ cfg env p >>= fun t => applyNode Θ cfg N t t) := by
        apply except_bind_congr; intro t _; simp only [applyStep, hsb]
      rw [this]
      have h1 := node_on_strip_sem (Θ := Θ) (cfg := cfg) (env := env) hΘ hC (p' := p') hv
        (by rw [hp]; exact reSrc_srcA _ hT) (by rw [hp, reSrc_srcB]; exact hsb)
        (by rw [hp]; exact reSrc_ne_table _ hT)
        (by intro t ht; rw [hp, NodeScope_reSrc]; exact hscope t ht)
        (by intro t ht; rw [hp, NodeColsOK_reSrc]; exact hcols t ht)
      have h2 : (sem Θ cfg env p >>= fun t => applyNode Θ cfg p' t t)
          = (sem Θ cfg env p >>= fun t => applyNode Θ cfg N t t) := by
        apply except_bind_congr; intro t _; rw [hp, applyNode_reSrc]
      rwa [h2] at h1
    | some b =>
      have : (sem Θ cfg env p >>= applyStep Θ cfg env N)
          = (sem Θ cfg env p >>= fun ta => sem Θ cfg env b >>= fun tb => applyNode Θ cfg N ta tb) := by
        apply except_bind_congr; intro t _; simp only [applyStep, hsb]
      rw [this]
      have h1 := node_on_strip_sem₂ (Θ := Θ) (cfg := cfg) (env := env) hΘ hC (p' := p') (b := b) hv
        (hbv b hsb) (by rw [hp]; exact reSrc_srcA _ hT) (by rw [hp, reSrc_srcB]; exact hsb)
        (by intro t ht; rw [hp, NodeScope_reSrc]; exact hscope t ht)
        (by intro t ht; rw [hp, NodeColsOK_reSrc]; exact hcols t ht)
      have h2 : (sem Θ cfg env p >>= fun ta => sem Θ cfg env b >>= fun tb => applyNode Θ cfg p' ta tb)
          = (sem Θ cfg env p >>= fun ta => sem Θ cfg env b >>= fun tb => applyNode Θ cfg N ta tb) := by
        apply except_bind_congr; intro t _
        apply except_bind_congr; intro tb _
        rw [hp, applyNode_reSrc]
      rwa [h2] at h1
  | extend ops pa od rv hse hne htop hNe =>
    subst hse
    have hq := Ops.valid_strip hv
    obtain ⟨hsem, hmem⟩ := extendTop_sem (Θ := Θ) (cfg := cfg) (env := env) hΘ hq (Ops.strip_not_trivial p) htop
    have : (sem Θ cfg env p >>= applyStep Θ cfg env N) = (sem Θ cfg env p >>= fun t => applyNode Θ cfg N t t) := by
      apply except_bind_congr; intro t _; simp only [applyStep, hNe, Ops.srcB]
    rw [this, hsem]
    -- drop the final column re-ordering, then un-strip
    refine ResEquivC.trans ?_ (strip_apply_congr hΘ hC hv N hscope hcols)
    apply ResEquivC.bind (ResEquivC.of_eq rfl (fun t ht => sem_wf_nodup hΘ hq ht))
    intro t t' ht ht' _
    rw [ht] at ht'; cases ht'
    have hwn := sem_wf_nodup hΘ hq ht
    have hc : t.cols = p.cols := by rw [sem_cols hΘ ht, Ops.strip_cols]
    rw [hNe]
    simp only [applyNode]
    split
    · simp only [ok_bind]
      refine Table.EquivC.selectCols_left (semExtendWindow_wf _ _ _ _ _ _ _) (Ops.valid_cols_nodup hp'v) ?_
      refine perm_of_mem_iff (Ops.valid_cols_nodup hp'v) (nodup_appendNewC hwn.2) ?_
      intro c
      rw [hmem c, Ops.strip_cols]
      show _ ↔ c ∈ appendNew t.cols _
      rw [mem_appendNewC, hc]
    · simp only [ok_bind]
      refine Table.EquivC.selectCols_left (semExtendPlain_wf _ _ _ _) (Ops.valid_cols_nodup hp'v) ?_
      refine perm_of_mem_iff (Ops.valid_cols_nodup hp'v) (nodup_appendNewC hwn.2) ?_
      intro c
      rw [hmem c, Ops.strip_cols]
      show _ ↔ c ∈ appendNew t.cols _
      rw [mem_appendNewC, hc]
  | select cs hse hsel hNe =>
    subst hse
    have : (sem Θ cfg env p >>= applyStep Θ cfg env N)
        = (sem Θ cfg env p >>= fun t => applyNode Θ cfg (.selectCols p cs) t t) := by
      apply except_bind_congr; intro t _; simp only [applyStep, hNe, Ops.srcB]; rfl
    rw [this]
    exact ResEquivC.refl_of_equiv (selectColsB_sem (Θ := Θ) (cfg := cfg) (env := env) hv hsel).1
      (fun t ht => sem_wf_nodup hΘ hp'v ht)

/-- **C06 in operator form.** -/
theorem build_sem_apply (hΘ : ConvertOK Θ) (hC : ConvertInvariant Θ) {p p' : Ops} {s : Step} {n : String}
    {N : Ops} (hv : p.valid = true) (hb : ∀ b ∈ Step.argOps s, b.valid = true) (h : build p s = .ok p')
    (hr : buildRaw (.table n p.cols) s = .ok N)
    (hs : ∀ t, sem Θ cfg env p = .ok t → StepScope Θ s t.rows) :
    ResEquivC (sem Θ cfg env p') (sem Θ cfg env p >>= applyStep Θ cfg env N) := by
  have hN := buildRaw_ok_node hr
  refine shape_sem_apply hΘ hC hv (build_shape h hr) (valid_build hv hb h) ?_ ?_ ?_
  · intro b hsb
    rcases rawNodeOf_shape n p.cols s with hh | ⟨_, _, hB⟩
    · rw [← hN] at hh; rw [hh] at hsb; cases hsb
    · exact hb b (hB b (by rw [← hN]; exact hsb))
  · intro t ht
    rw [hN]
    exact NodeScope_of_StepScope _ (fun _ => trivial) (hs t ht)
  · intro t ht
    rw [sem_cols hΘ ht]
    exact NodeColsOK_of_buildRaw (Ops.valid_cols_nodup hv) hr

/-- **C06, one step** (for valid pipelines): the pipeline a builder call returns evaluates – up to the order of
rows and of columns – to the raw step applied to the materialised result of the receiver. -/
theorem build_sem (hΘ : ConvertOK Θ) (hC : ConvertInvariant Θ) {p p' : Ops} {s : Step} (n : String)
    (hv : p.valid = true) (hb : ∀ b ∈ Step.argOps s, b.valid = true) (h : build p s = .ok p')
    (hf : Step.Fresh n s) (hs : ∀ t, sem Θ cfg env p = .ok t → StepScope Θ s t.rows) :
    ResEquivC (sem Θ cfg env p') (sem Θ cfg env p >>= semStep Θ cfg env n s) := by
  -- the raw call accepts
  have hcons : ∀ b ∈ Step.argOps s, tablesConsistent p.tables b.tables = true ∧
      tablesConsistent [(n, p.cols)] b.tables = true := by
    intro b hbm
    constructor
    · -- checked by the builder itself
      cases s with
      | join b' oa ob jt chk =>
        simp only [Step.argOps, List.mem_singleton] at hbm
        subst hbm
        simp only [build] at h
        rw [joinB_strip, mkJoin_eq] at h
        obtain ⟨t, hchk, _⟩ := except_bind_eq_ok.mp h
        simp only [joinChk, ok?_bind_eq_ok] at hchk
        rw [← Ops.strip_tables]; exact hchk.1
      | concat b' idc an bn =>
        cases b' with
        | none => simp [Step.argOps] at hbm
        | some b' =>
          simp only [Step.argOps, List.mem_singleton] at hbm
          subst hbm
          simp only [build] at h
          rw [concatB_strip, mkConcat_eq] at h
          obtain ⟨t, hchk, _⟩ := except_bind_eq_ok.mp h
          simp only [concatChk, ok?_bind_eq_ok] at hchk
          rw [← Ops.strip_tables]; exact hchk.1
      | _ => simp [Step.argOps] at hbm
    · have hfr := hf b hbm
      simp only [tablesConsistent, List.all_cons, List.all_nil, Bool.and_true, List.all_eq_true]
      intro kc hkc
      have : n ≠ kc.1 := fun e => hfr (e ▸ List.mem_map.mpr ⟨kc, hkc, rfl⟩)
      simp [this]
  have hacc := build_errOf hv n s hcons
  rw [h] at hacc
  obtain ⟨N, hr⟩ := errOf_eq_none.mp hacc.symm
  have hB := build_sem_apply (Θ := Θ) (cfg := cfg) (env := env) hΘ hC hv hb h hr hs
  have : (sem Θ cfg env p >>= semStep Θ cfg env n s) = (sem Θ cfg env p >>= applyStep Θ cfg env N) := by
    apply except_bind_congr
    intro t ht
    have hwn := sem_wf_nodup hΘ hv ht
    have hc := sem_cols hΘ ht
    exact semStep_eq hΘ hwn.1 hwn.2 (by rw [hc]; exact hr) hf
  rw [this]
  exact hB

end DAVerif
