import DAVerif.Proofs.ExprWalkWfDefs
/-!
C13: the term every builder call of the walker returns is well-formed (`wf`), given well-formed operands.
-/
namespace DAVerif.C13W
open DAVerif DAVerif.Expr

/-! ## `termBEq` is reflexive, `wf` on an `Expression` -/

mutual
theorem termBEq_refl : ∀ t : Term, termBEq t t = true
  | .value a => by simp [termBEq]
  | .col a => by simp [termBEq]
  | .list a => by simp [termBEq]
  | .dict a => by simp [termBEq]
  | .app o a i m => by simp [termBEq, termsBEq_refl a]
theorem termsBEq_refl : ∀ ts : List Term, termsBEq ts ts = true
  | [] => rfl
  | t :: ts => by simp [termsBEq, termBEq_refl t, termsBEq_refl ts]
end

theorem okEq_of_eq {r : R Term} {t : Term} (h : r = .ok t) : okEq r t = true := by
  subst h; simp [okEq, termBEq_refl]

theorem wf_app (env : Env) (op : String) (args : List Term) (i m : Bool) :
    wf env (.app op args i m) = (wfs env args && shapeOk env op args i m) := by
  rw [wf]

theorem wfs_nil (env : Env) : wfs env [] = true := by rw [wfs]
theorem wfs_cons (env : Env) (a : Term) (as : List Term) : wfs env (a :: as) = (wf env a && wfs env as) := by
  rw [wfs]

theorem wfs_append (env : Env) : ∀ (as bs : List Term), wfs env (as ++ bs) = (wfs env as && wfs env bs)
  | [], bs => by simp [wfs_nil]
  | a :: as, bs => by simp [wfs_cons, wfs_append env as bs, Bool.and_assoc]

theorem wf_value (env : Env) (l : Lit) : wf env (.value l) = litOk l := by rw [wf]

/-! ## `getattr` -/

def isColl : Term → Bool
  | .list _ => true
  | .dict _ => true
  | _ => false

theorem getMethod_lookup {env : Env} {recv : Term} {name : String} {k : MethodKind} (hc : isColl recv = false)
    (hn : name ≠ "__neg__") (hl : env.methods.lookup name = some k) : getMethod env recv name = .ok (.builder k) := by
  have : (name == "__neg__") = false := by simpa using hn
  cases recv <;> simp_all [getMethod, isColl]

/-- a successful `getattr`: the receiver is a Term, and the attribute is `Value.__neg__` or a builder of the table -/
theorem getMethod_cases {env : Env} {recv : Term} {name : String} {b : Bound} (h : getMethod env recv name = .ok b) :
    isColl recv = false ∧
      ((b = .valueNeg ∧ name = "__neg__" ∧ isValue recv = true) ∨
       (∃ k, env.methods.lookup name = some k ∧ b = .builder k)) := by
  unfold getMethod at h
  split at h
  · split at h <;> contradiction
  · split at h <;> contradiction
  · rename_i hl hd
    have hc : isColl recv = false := by
      cases recv <;> simp_all [isColl]
    refine ⟨hc, ?_⟩
    split at h
    · rename_i hcond
      injection h with h
      simp only [Bool.and_eq_true, beq_iff_eq] at hcond
      exact Or.inl ⟨h.symm, hcond.1.1, hcond.1.2⟩
    · split at h
      · rename_i k hk
        injection h with h
        exact Or.inr ⟨k, hk, h.symm⟩
      · split at h <;> contradiction

/-! ## consequences of `Canon` -/

section canon
variable {env : Env} (hc : Canon env)
include hc

theorem canon_entry {name : String} {kind : MethodKind} (hl : env.methods.lookup name = some kind)
    (hd : isDunder name = false) : kindCanonT env.methods env.opRemap kind = true := by
  unfold Canon tablesCanon at hc
  simp only [Bool.and_eq_true] at hc
  have h := hc.1.1.1.1
  rw [List.all_eq_true] at h
  have := h _ (lookup_mem _ _ _ hl)
  simpa [hd] using this

theorem canon_op {s : String} (hs : s ∈ grammarOps) :
    reachCanonT env.methods env.opRemap (remap env.opRemap s) = true := by
  unfold Canon tablesCanon at hc
  simp only [Bool.and_eq_true] at hc
  have h := hc.1.1.1.2
  rw [List.all_eq_true] at h
  exact h _ hs

theorem canon_pow : reachCanonT env.methods env.opRemap "__pow__" = true := by
  unfold Canon tablesCanon at hc
  simp only [Bool.and_eq_true] at hc
  exact hc.1.1.2

theorem canon_eq : reachCanonT env.methods env.opRemap "__eq__" = true := by
  unfold Canon tablesCanon at hc
  simp only [Bool.and_eq_true] at hc
  exact hc.1.2

theorem canon_tilde : env.methods.lookup (remap env.factorRemap "~") = none := by
  unfold Canon tablesCanon at hc
  simp only [Bool.and_eq_true] at hc
  simpa using hc.2

end canon

/-! ## two-argument builders -/

theorem opExpr_mk {env : Env} {op : String} {a b : Term} {i m c : Bool} {t : Term}
    (h : opExpr env op a b i m c = .ok t) : mkExpr env op [a, b] i m = .ok t := by
  unfold opExpr at h
  split at h <;> try contradiction
  split at h <;> try contradiction
  exact h

theorem remapX_eq (env : Env) (op : String) : remapX env op = remapXT env.opRemap op := rfl

theorem opExpr_wf {env : Env} {op : String} {a b : Term} {i m c : Bool} {t : Term}
    (hcan : binCanonT env.methods env.opRemap op i m c = true) (hca : isColl a = false)
    (hwa : wf env a = true) (hwb : wf env b = true) (h : opExpr env op a b i m c = .ok t) : wf env t = true := by
  have ht := opExpr_ok h
  subst ht
  have hmk := opExpr_mk h
  rw [wf_app]
  simp only [wfs_cons, wfs_nil, hwa, hwb, Bool.and_true, Bool.true_and]
  cases i <;> cases m
  · simp only [shapeOk]
    exact okEq_of_eq hmk
  · simp only [shapeOk]
    simp only [binCanonT, Bool.false_eq_true, ↓reduceIte, Bool.and_eq_true, bne_iff_ne, ne_eq, beq_iff_eq] at hcan
    apply okEq_of_eq
    simp only [callMethod, getMethod_lookup hca hcan.1 hcan.2, ok_bind, applyBound]
    exact h
  · simp only [shapeOk]
    split
    · exact okEq_of_eq hmk
    · rename_i hk
      simp only [binCanonT, ↓reduceIte, Bool.false_or, hk, Bool.and_eq_true, bne_iff_ne, ne_eq, beq_iff_eq] at hcan
      simp only [List.isEmpty_nil, Bool.true_and, hcan.1.1, remapX_eq]
      apply okEq_of_eq
      simp only [callMethod, getMethod_lookup hca hcan.1.2 hcan.2, ok_bind, applyBound]
      exact h
  · unfold mkExpr at hmk
    split at hmk
    · contradiction
    · simp at hmk

/-- one step of an operator chain: `getattr(res, name)(arg)` for a name the grammar's operators are remapped to -/
theorem step_wf {env : Env} {nm : String} (hcan : reachCanonT env.methods env.opRemap nm = true)
    {res arg : Term} {b : Bound} {t : Term}
    (hg : getMethod env res nm = .ok b) (ha : applyBound env b res [arg] = .ok t)
    (hwr : wf env res = true) (hwa : wf env arg = true) : wf env t = true := by
  obtain ⟨hcoll, hb | ⟨k, hl, hb⟩⟩ := getMethod_cases hg
  · obtain ⟨rfl, _, _⟩ := hb
    cases res <;> simp [applyBound] at ha
  · subst hb
    simp only [reachCanonT, hl] at hcan
    cases k with
    | uop op inline => simp [applyBound] at ha
    | bin op i m c =>
      simp only [applyBound] at ha
      exact opExpr_wf hcan hcoll hwr hwa ha
    | rbin op => simp at hcan
    | tri op i m => simp [applyBound] at ha
    | special n => simp at hcan
    | unmodelled => simp [applyBound] at ha

theorem call1_wf {env : Env} {nm : String} (hcan : reachCanonT env.methods env.opRemap nm = true)
    {res arg : Term} {t : Term} (h : callMethod env res nm [arg] = .ok t)
    (hwr : wf env res = true) (hwa : wf env arg = true) : wf env t = true := by
  obtain ⟨b, hg, ha⟩ := callMethod_split h
  exact step_wf hcan hg ha hwr hwa

end DAVerif.C13W
