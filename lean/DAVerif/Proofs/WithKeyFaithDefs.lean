import DAVerif.Proofs.SqlReach
import DAVerif.Proofs.WithKey
/-
C04, cache keys of the translation (`C04_key_faithful`): definitions shared by the files `Proofs/WithKeyFaith*.lean`.

The CTE-cache key of a bound sub-query is `ops_key ++ "_" ++ renderStrs columns`, where `ops_key` is
`kind ++ "(" ++ renderOps n ++ "," ++ renderStrs termKeys ++ ")"` (`keyOfNode`) or `"order(" ++ renderOps n ++ ")"`.
`renderOps` (the model's `str(node)`) quotes every name with Lean's `String.quote`.  In Lean 4.33 `String.quote` is
defined through `String.Internal.append / foldl / isEmpty`, which are **opaque constants**: the kernel knows nothing
about `String.quote` – not even `"a".quote ≠ "b".quote` is provable.  Whatever is proved about the *text* of a key is
therefore proved under the explicit hypothesis `QuoteCode` ("`String.quote` is an injective, prefix-free encoding"),
which is true of the compiled function (a quoted string is `"` + escaped characters + `"`, inner `"` and `\` escaped).
-/
namespace DAVerif.C04K
open DAVerif DAVerif.Sql

/-- **Assumption about Lean's `String.quote`** (opaque to the kernel): it is a prefix code – from a text that starts
with a quoted string, the string and the rest of the text can be read off. -/
def QuoteCode : Prop :=
  ∀ (a b : String) (r1 r2 : List Char), a.quote.toList ++ r1 = b.quote.toList ++ r2 → a = b ∧ r1 = r2

/-- a name without `=` -/
def eqFreeStr (s : String) : Bool := !s.toList.contains '='

/-- what the model's renderer needs to be injective on a pipeline: no `convert_records` node (its record map is
rendered by its `repr` only) and no `=` in the NEW names of a `rename_columns` / the OLD names of a `map_columns`
(the model renders a mapping entry as `quote (k ++ "=" ++ v)`: a model artefact, the code prints the `repr` of the
dictionary) -/
def renderOKb : Ops → Bool
  | .table _ _ => true
  | .extend s _ _ _ _ _ | .project s _ _ | .selectRows s _ | .selectCols s _ | .dropCols s _ | .order s _ _ _ => renderOKb s
  | .rename s m => renderOKb s && m.all (fun kv => eqFreeStr kv.1)
  | .mapCols s m _ => renderOKb s && m.all (fun kv => eqFreeStr kv.1)
  | .join a b _ _ _ | .concat a b _ _ _ => renderOKb a && renderOKb b
  | .convert _ _ => false

def RenderOK (p : Ops) : Prop := renderOKb p = true
instance (p : Ops) : Decidable (RenderOK p) := by unfold RenderOK; exact inferInstance

/-- the words `ops_key` starts with -/
def kinds : List String := ["table", "extend", "project", "select", "order", "map_columns", "rename", "join", "concat"]

/-- `k` is an `ops_key` text for the operator node `n`: `kind(<str(n)>)` or `kind(<str(n)>,<term keys>)` -/
def IsKeyOf (n : Ops) (k : String) : Prop :=
  ∃ kind ∈ kinds, k = kind ++ "(" ++ renderOps n ++ ")" ∨ ∃ ks, k = kind ++ "(" ++ renderOps n ++ "," ++ renderStrs ks ++ ")"

theorem isKeyOf_keyOfNode {kind : String} (hk : kind ∈ kinds) (n : Ops) (ks : List String) {k : String}
    (h : keyOfNode kind n ks = some k) : IsKeyOf n k := by
  simp only [keyOfNode, Option.some.injEq] at h
  exact ⟨kind, hk, Or.inr ⟨ks, h.symm⟩⟩

theorem isKeyOf_order (n : Ops) : IsKeyOf n ("order(" ++ renderOps n ++ ")") :=
  ⟨"order", by decide, Or.inl (by
    have : ("order(" : String) = "order" ++ "(" := by decide
    rw [this])⟩

end DAVerif.C04K
