import DAVerif.Proofs.SqlFullSem
import DAVerif.Proofs.SqlJoinReach
/-!
C16, SQLite FULL join emulation, translation side.

`SQLiteModel._emit_full_join_as_complex` asserts non-empty and identical key lists, **builds** (through the user-level
builders) the pipeline `(keys ⟕ a) ⟕ b` with `keys = (a.project({}, K) ++ b.project({}, K)).project({}, K)` and
translates that pipeline.  Hence:

* `toNear_sqlite_full_assert` – translation fails with `AssertionError` when the key lists are empty or differ;
* `fullSim_shape` – the pipeline the builders construct (they skip trailing `order_rows` nodes of `a`, `b` for the key
  projections);
* `good_fullSim` – it is a pipeline of the fragment with natively rendered (LEFT) joins only: the main induction
  `transOK_fragJ` applies to it;
* `transOK_join_sqlite_full_partial` – the induction step, up to row order, **under the guard that no join key is null**.
-/
namespace DAVerif
namespace Sql
open DAVerif.Ops (usedFromSources unionL)

variable {Θ : Interp} {ec : EngineCfg} {env : Env} {cfg : SqlCfg}

theorem toUpper_left : "left".toUpper = "LEFT" := by
  apply String.toList_inj.mp
  rw [String.toUpper, String.toList_map]
  decide

theorem parse_left : JoinType.parse "left" = some .left := by
  unfold JoinType.parse
  rw [toUpper_left]
  rfl

/-- the builder calls of `_emit_full_join_as_complex` -/
def fullSim (a b : Ops) (K : List String) : Except Err Ops := do
  let ka ← build a (.project [] K)
  let kb ← build b (.project [] K)
  let ks ← build ka (.concat (some kb) none "a" "b")
  let ks ← build ks (.project [] K)
  let j1 ← build ks (.join a K K "left" false)
  build j1 (.join b K K "left" false)

/-- the pipeline they construct -/
def fullSimOps (a b : Ops) (K : List String) : Ops :=
  .join (.join (.project (.concat (.project (strip a) [] K) (.project (strip b) [] K) none "a" "b") [] K) a K K .left)
    b K K .left

theorem build_project_nil {a ka : Ops} {K : List String} (h : build a (.project [] K) = .ok ka) :
    ka = .project (strip a) [] K ∧ K.Nodup ∧ (∀ c ∈ K, c ∈ a.cols) := by
  unfold build at h
  simp only [] at h
  obtain ⟨parsed, hpa, h2⟩ := bind_ok.mp h
  obtain ⟨rfl, _⟩ := parseAssignments_ok hpa
  rw [projectParsed_strip] at h2
  obtain ⟨_, _, h3⟩ := bind_ok.mp h2
  simp only [mkProject, forIn_ok?, ok?_bind_ok, pure_ok, nodupB_iff, subset_iff] at h3
  obtain ⟨hsub, hnd, _, _, rfl⟩ := h3
  refine ⟨rfl, hnd, ?_⟩
  intro c hc
  rw [← strip_cols]
  exact hsub c (List.mem_append_left _ hc)

theorem build_join_left {p b q : Ops} {K : List String} (h : build p (.join b K K "left" false) = .ok q) :
    q = .join (strip p) b K K .left ∧ (∀ c ∈ K, c ∈ b.cols) := by
  simp only [build, joinB_eq, mkJoin, ok?_bind_ok, subset_iff] at h
  obtain ⟨_, _, _, hob, h⟩ := h
  simp only [Bool.false_eq_true, ↓reduceIte, parse_left] at h
  simp only [ok?_bind_ok, pure_ok] at h
  exact ⟨h.2.symm, hob⟩

theorem fullSim_shape {a b sim : Ops} {K : List String} (h : fullSim a b K = .ok sim) :
    sim = fullSimOps a b K ∧ K.Nodup ∧ (∀ c ∈ K, c ∈ a.cols) ∧ (∀ c ∈ K, c ∈ b.cols) := by
  unfold fullSim at h
  obtain ⟨ka, hka, h⟩ := bind_ok.mp h
  obtain ⟨kb, hkb, h⟩ := bind_ok.mp h
  obtain ⟨ks0, hks0, h⟩ := bind_ok.mp h
  obtain ⟨ks, hks, h⟩ := bind_ok.mp h
  obtain ⟨j1, hj1, h⟩ := bind_ok.mp h
  obtain ⟨rfl, hnd, hKa⟩ := build_project_nil hka
  obtain ⟨rfl, _, hKb⟩ := build_project_nil hkb
  have e0 : ks0 = .concat (.project (strip a) [] K) (.project (strip b) [] K) none "a" "b" := by
    simp only [build, concatB_eq, mkConcat, ok?_bind_ok] at hks0
    obtain ⟨_, _, h⟩ := hks0
    simp only [pure_ok] at h
    exact h.symm
  subst e0
  obtain ⟨rfl, _, _⟩ := build_project_nil hks
  obtain ⟨rfl, _⟩ := build_join_left hj1
  obtain ⟨rfl, _⟩ := build_join_left h
  exact ⟨rfl, hnd, hKa, hKb⟩

/-! ### the translation of a FULL join on SQLite -/

/-- **scope of the FULL join emulation**: translation fails with `AssertionError` unless the key lists are non-empty
and identical (`assert len(join_node.on_a) > 0`, `assert join_node.on_a == join_node.on_b`) -/
theorem toNear_sqlite_full_assert (hemu : cfg.emulateRightFull = true) (fuel : Nat) (a b : Ops)
    (onA onB : List String) (h : onA = [] ∨ onA ≠ onB) (u : Option (List String)) (st : Nat) :
    toNear cfg (fuel + 1) (.join a b onA onB .full) u st = .error .assertionError := by
  rw [toNear]
  have e2 : (JoinType.full == JoinType.full) = true := rfl
  simp only [hemu, e2, Bool.and_true, ↓reduceIte]
  rcases h with h | h
  · subst h
    rfl
  · by_cases he : onA = []
    · subst he; rfl
    · have h1 : (!onA.isEmpty) = true := by simpa using he
      have h2 : (onA == onB) = false := by simpa using h
      simp only [h1, h2, guardM, liftE, ok?, bind, StateT.bind, Except.map, Except.bind]
      rfl

/-- shape of a successful translation of a FULL join on SQLite: the key lists are non-empty and identical, the
builders construct the emulation pipeline, and that pipeline is translated for the same request -/
theorem toNear_join_sqlite_full (hemu : cfg.emulateRightFull = true) {fuel : Nat} {a b : Ops}
    {onA onB u : List String} {st st' : Nat} {q : Near}
    (h : toNear cfg (fuel + 1) (.join a b onA onB .full) (some u) st = .ok (q, st')) :
    onA ≠ [] ∧ onA = onB ∧ ∃ sim, fullSim a b onA = .ok sim ∧ toNear cfg fuel sim (some u) st = .ok (q, st') := by
  rw [toNear] at h
  have e2 : (JoinType.full == JoinType.full) = true := rfl
  simp only [Option.getD_some, hemu, e2, Bool.and_true, ↓reduceIte] at h
  obtain ⟨_, s1, h1, h⟩ := bindM_ok.mp h
  obtain ⟨hne, e1⟩ := guardM_ok.mp h1
  cases e1
  obtain ⟨_, s2, h2, h⟩ := bindM_ok.mp h
  obtain ⟨heq, e2⟩ := guardM_ok.mp h2
  cases e2
  obtain ⟨sim, s3, h3, h⟩ := bindM_ok.mp h
  obtain ⟨_, hsim, e3⟩ := liftE_ok.mp h3
  cases e3
  exact ⟨by simpa using hne, by simpa using heq, sim, hsim, h⟩

/-! ### the emulation pipeline is in scope of the main induction -/

theorem inFragJ_stripped {p : Ops} (h : InFragJ p = true) : InFragJ (strip p) = true := by
  fun_induction strip p with
  | case1 src _ _ ih => exact ih h
  | case2 p _ => exact h

theorem mapsOK_stripped {p : Ops} (h : MapsOK p) : MapsOK (strip p) := by
  fun_induction strip p with
  | case1 src _ _ ih => exact ih h
  | case2 p _ => exact h

theorem joinTypesSql_stripped {p : Ops} (h : JoinTypesSql p) : JoinTypesSql (strip p) := by
  fun_induction strip p with
  | case1 src _ _ ih => exact ih h
  | case2 p _ => exact h

theorem joinsNative_stripped {p : Ops} (h : JoinsNative cfg p) : JoinsNative cfg (strip p) := by
  fun_induction strip p with
  | case1 src _ _ ih => exact ih h
  | case2 p _ => exact h

theorem labelSidesPlain_stripped {p : Ops} (h : LabelSidesPlain p) : LabelSidesPlain (strip p) := by
  fun_induction strip p with
  | case1 src _ _ ih => exact ih h
  | case2 p _ => exact h

theorem Good.stripped {p : Ops} (h : Good cfg env p) : Good cfg env (strip p) :=
  ⟨inFragJ_stripped h.frag, h.wf.stripped, SqlWF.stripped h.sqlwf, mapsOK_stripped h.maps, JoinWF.stripped h.jwf,
    joinTypesSql_stripped h.types, joinsNative_stripped h.native, labelSidesPlain_stripped h.label,
    fun nc hnc => h.env nc (by rw [← strip_tables]; exact hnc)⟩

/-- the emulation pipeline satisfies every hypothesis of the main induction -/
theorem good_fullSim {a b : Ops} {K : List String} (hga : Good cfg env a) (hgb : Good cfg env b) (hK : K ≠ [])
    (hnd : K.Nodup) (hKa : ∀ c ∈ K, c ∈ a.cols) (hKb : ∀ c ∈ K, c ∈ b.cols) : Good cfg env (fullSimOps a b K) := by
  have hsa := hga.stripped
  have hsb := hgb.stripped
  have hKsa : ∀ c ∈ K, c ∈ (strip a).cols := fun c hc => by rw [strip_cols]; exact hKa c hc
  have hKsb : ∀ c ∈ K, c ∈ (strip b).cols := fun c hc => by rw [strip_cols]; exact hKb c hc
  refine ⟨?_, ?_, ?_, ?_, ?_, ?_, ?_, ?_, ?_⟩
  · simp [fullSimOps, InFragJ, hsa.frag, hsb.frag, hga.frag, hgb.frag]
  · exact ⟨⟨⟨⟨⟨hsa.wf, hnd, Or.inl hK⟩, ⟨hsb.wf, hnd, Or.inl hK⟩, fun c h => by cases h⟩, hnd, Or.inl hK⟩, hga.wf⟩,
      hgb.wf⟩
  · have h1 := hsa.sqlwf; have h2 := hsb.sqlwf; have h3 := hga.sqlwf; have h4 := hgb.sqlwf
    simp only [SqlWF] at h1 h2 h3 h4 ⊢
    simp only [fullSimOps, sqlWFb, h1, h2, h3, h4, Bool.and_eq_true, subset_iff, List.flatMap_nil, List.map_nil,
      nodupB_iff, disjoint_iff]
    repeat' apply And.intro
    all_goals first | trivial | exact hKsa | exact hKsb | exact List.nodup_nil | (intro c hc; first | exact hc | cases hc)
  · have h1 := hsa.maps; have h2 := hsb.maps; have h3 := hga.maps; have h4 := hgb.maps
    simp only [MapsOK] at h1 h2 h3 h4 ⊢
    simp [fullSimOps, mapsOKb, h1, h2, h3, h4]
  · have h1 := hsa.jwf; have h2 := hsb.jwf; have h3 := hga.jwf; have h4 := hgb.jwf
    simp only [JoinWF] at h1 h2 h3 h4 ⊢
    simp only [fullSimOps, joinWFb, h1, h2, h3, h4, Bool.and_eq_true, subset_iff]
    repeat' apply And.intro
    all_goals first | trivial | exact hKa | exact hKb | (intro c hc; first | exact hc | exact (mem_joinNodeCols _ _ _ _ _ c).mpr (Or.inl hc))
  · have h1 := hsa.types; have h2 := hsb.types; have h3 := hga.types; have h4 := hgb.types
    simp only [JoinTypesSql] at h1 h2 h3 h4 ⊢
    simp [fullSimOps, joinTypesSqlb, h1, h2, h3, h4]
  · have h1 := hsa.native; have h2 := hsb.native; have h3 := hga.native; have h4 := hgb.native
    simp only [JoinsNative] at h1 h2 h3 h4 ⊢
    simp [fullSimOps, joinsNativeb, h1, h2, h3, h4]
  · have h1 := hsa.label; have h2 := hsb.label; have h3 := hga.label; have h4 := hgb.label
    simp only [LabelSidesPlain] at h1 h2 h3 h4 ⊢
    simp [fullSimOps, labelSidesPlainb, h1, h2, h3, h4]
  · intro nc hnc
    simp only [fullSimOps, Ops.tables, List.mem_append] at hnc
    rcases hnc with ((hnc | hnc) | hnc) | hnc
    · exact hsa.env nc hnc
    · exact hsb.env nc hnc
    · exact hga.env nc hnc
    · exact hgb.env nc hnc

/-- a pipeline without its trailing `order_rows` nodes evaluates to the same rows in another order -/
theorem semE_strip {scfg : SemCfg} {p : Ops} {tp : Table} (h : semE ec Θ scfg env p = .ok tp) :
    ∃ ts, semE ec Θ scfg env (strip p) = .ok ts ∧ ∀ r, r ∈ ts.rows ↔ r ∈ tp.rows := by
  fun_induction strip p generalizing tp with
  | case1 src cs rev ih =>
    simp only [semG] at h
    obtain ⟨t0, h0, rfl⟩ := bind_pure_ok h
    obtain ⟨ts, hts, hmem⟩ := ih h0
    refine ⟨ts, hts, fun r => (hmem r).trans ?_⟩
    simp only [semOrderG]
    exact List.mem_mergeSort.symm
  | case2 p _ => exact ⟨tp, h, fun _ => Iff.rfl⟩

theorem mem_fullSimOps_cols {a b : Ops} {K : List String} (hKa : ∀ c ∈ K, c ∈ a.cols) (c : String) :
    c ∈ (fullSimOps a b K).cols ↔ c ∈ a.cols ∨ c ∈ b.cols := by
  unfold fullSimOps
  rw [mem_joinNodeCols, mem_joinNodeCols]
  constructor
  · rintro ((h | h) | h)
    · exact Or.inl (hKa c h)
    · exact Or.inl h
    · exact Or.inr h
  · rintro (h | h)
    · exact Or.inl (Or.inr h)
    · exact Or.inr h

/-- **Induction step for a FULL join on SQLite** (emulated by key union and two LEFT joins), **partial**: sound up to
row order against the reference FULL join **when no join key of either side is null**
(`C16_sqlite_full_nullkeys_necessary`: with null keys all null-key rows collapse into one all-null row). -/
theorem transOK_join_sqlite_full_partial (hm : cfg.merges = false) (hemu : cfg.emulateRightFull = true) (fuel : Nat)
    (a b : Ops) (onA onB : List String) (hga : Good cfg env a) (hgb : Good cfg env b)
    (hna : ∀ ta, semE ec Θ SemCfg.ref env a = .ok ta → NullFreeOn onA ta.rows)
    (hnb : ∀ tb, semE ec Θ SemCfg.ref env b = .ok tb → NullFreeOn onB tb.rows) :
    TransOKP Θ ec env SemCfg.ref (fun q => q.isJU = true) cfg (fuel + 1) (.join a b onA onB .full) := by
  intro u st q st' tp hu h hsem
  obtain ⟨hK, rfl, sim, hsim, htn⟩ := toNear_join_sqlite_full hemu h
  obtain ⟨rfl, hnd, hKa, hKb⟩ := fullSim_shape hsim
  have hgs : Good cfg env (fullSimOps a b onA) := good_fullSim hga hgb hK hnd hKa hKb
  obtain ⟨ta, tb, hta, htb, rfl⟩ := semG_join_ok hsem
  obtain ⟨tsa, htsa, hmema⟩ := semE_strip hta
  obtain ⟨tsb, htsb, hmemb⟩ := semE_strip htb
  have hncols : ∀ c, c ∈ (Ops.join a b onA onA .full).cols ↔ c ∈ a.cols ∨ c ∈ b.cols := mem_joinNodeCols a b onA onA .full
  obtain ⟨tsim, htsim⟩ := semG_ok_fragJ (sqlRowLe ec) Θ SemCfg.ref env _ hgs.frag false hgs.env
  have htsim' := htsim
  simp only [fullSimOps, semG, htsa, htsb, hta, htb, bind, Except.bind, pure, Except.pure, Except.ok.injEq] at htsim'
  obtain ⟨hju, u₁, hu₁, hu₁', hsound⟩ :=
    transOK_fragJ Θ ec env cfg hm _ _ (Nat.le_refl _) hgs fuel u st q st' tsim
      (fun c hc => (mem_fullSimOps_cols hKa c).mpr ((hncols c).mp (hu c hc))) htn htsim
  have hu₁n : ∀ c ∈ u₁, c ∈ (Ops.join a b onA onA .full).cols :=
    fun c hc => (hncols c).mpr ((mem_fullSimOps_cols hKa c).mp (hu₁' c hc))
  refine ⟨hju, u₁, hu₁, hu₁n, ?_, ?_⟩
  · intro u' hu' force
    obtain ⟨T, h1, h2, h3⟩ := hsound.req u' hu' force
    refine ⟨T, h1, h2, ?_⟩
    rw [h3, ← htsim']
    exact fullSim_rows_perm Θ hK hKa hKb ta tb tsa tsb
      (semG_cols_wf_fragJ _ Θ SemCfg.ref env a hga.frag ta hta).1
      (semG_cols_wf_fragJ _ Θ SemCfg.ref env b hgb.frag tb htb).1 hmema hmemb (hna ta hta) (hnb tb htb)
      _ _ _ u'
      (fun c => mem_joinNodeCols _ a onA onA .left c)
      (fun c => mem_joinNodeCols _ b onA onA .left c)
      hncols (fun c hc => hu₁n c (hu' c hc)) "a" "b"
  · intro hne
    obtain ⟨ks, hk, h1, h2⟩ := hsound.keys hne
    exact ⟨ks, hk, fun k hk' => (hncols k).mpr ((mem_fullSimOps_cols hKa k).mp (h1 k hk')), h2⟩

end Sql
end DAVerif
