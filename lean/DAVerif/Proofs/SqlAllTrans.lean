import DAVerif.Proofs.SqlReach
import DAVerif.Proofs.SqlMergeMain
import DAVerif.Proofs.SqlJoinRoot
/-!
C01/C02/C16, **COMBINE**: the main induction of the translation proof for the fragment with `natural_join` and
`concat_rows` (`InFragJ`) **for every dialect configuration** – `cfg.merges` (`allow_extend_merges`) on or off.

`Proofs/SqlJoinMain.lean` has the induction for `cfg.merges = false`, `Proofs/SqlMergeMain.lean` has the unary fragment
for every `cfg`.  What is needed to put them together:

* a join step and a `UNION ALL` step are never marked `mergeable` (`transOKM_join`, `transOKM_concat`): the invariant
  of mergeable steps `MergeInv` holds trivially for them, and an `extend` on top of a join / concat is a new step
  (`toNear`'s merge branch only fires on a `unary … mergeable = true` step);
* the label column of a `concat_rows` with id column is added by a *builder call* `extend({id: "name"})` on each side
  and the resulting pipeline is translated: with `cfg.merges` the SQL generator may merge that label step into the
  side's own (plain or windowed) extend step.  This is `toNear`'s extend case applied to the labelled side, so
  `transOK_extend_merge` (which needs `TransOK` **and** `TransOKM` of the side, resp. of the side's source when the
  *builder* already merged the label into the side's un-windowed extend node) gives `LabelOK` for every `cfg`
  (`labelOK_of_wf_all`);
* the induction re-run with the pair `TransOK ∧ TransOKM` as claim (`transOK_fragJ_all`), the root call
  (`stageA_root_all`, `mergeInv_root_all`).
-/
namespace DAVerif
namespace Sql
namespace SqlE
open DAVerif.Ops (usedFromSources unionL)
open Rules26 (usedBy keys partCols windowedSituation)

variable {Θ : Interp} {ec : EngineCfg} {env : Env} {G : Near → Prop} {cfg : SqlCfg} {scfg : SemCfg}

/-! ### joins and unions are never mergeable -/

/-- a join the dialect renders natively is a `join` step: not mergeable -/
theorem transOKM_join (fuel : Nat) (a b : Ops) (onA onB : List String) (jt : JoinType)
    (hnat : cfg.emulateRightFull = false ∨ (jt ≠ .right ∧ jt ≠ .full)) :
    TransOKM Θ ec env scfg cfg (fuel + 1) (.join a b onA onB jt) := by
  intro u st q st' tp _ h _
  obtain ⟨nl, nr, st1, nm, ln, rn, key, _, _, _, _, rfl⟩ := toNear_join_native hnat h
  exact mergeInv_of_flag rfl

/-- SQLite's RIGHT join (swapped LEFT join) is a `join` step: not mergeable -/
theorem transOKM_join_sqlite_right (hemu : cfg.emulateRightFull = true) (fuel : Nat) (a b : Ops)
    (onA onB : List String) :
    TransOKM Θ ec env scfg cfg (fuel + 1) (.join a b onA onB .right) := by
  intro u st q st' tp _ h _
  rw [toNear] at h
  have e1 : (JoinType.right == JoinType.right) = true := rfl
  have e2 : (JoinType.right == JoinType.full) = false := rfl
  simp only [Option.getD_some, hemu, e1, e2, Bool.and_true, Bool.and_false, Bool.false_eq_true, ↓reduceIte] at h
  obtain ⟨i, s1, _, h⟩ := bindM_ok.mp h
  obtain ⟨_, s2, _, h⟩ := bindM_ok.mp h
  obtain ⟨_, s3, _, h⟩ := bindM_ok.mp h
  obtain ⟨nl, s4, _, h⟩ := bindM_ok.mp h
  obtain ⟨nr, s5, _, h⟩ := bindM_ok.mp h
  cases pureM_ok.mp h
  exact mergeInv_of_flag rfl

/-- a `concat_rows` is a `UNION ALL` step: not mergeable -/
theorem transOKM_concat (fuel : Nat) (a b : Ops) (idc : Option String) (an bn : String) :
    TransOKM Θ ec env scfg cfg (fuel + 1) (.concat a b idc an bn) := by
  intro u st q st' tp _ h _
  rw [toNear] at h
  simp only [Option.getD_some] at h
  obtain ⟨_, s1, _, h⟩ := bindM_ok.mp h
  obtain ⟨_, s2, _, h⟩ := bindM_ok.mp h
  cases idc with
  | none =>
    simp only at h
    obtain ⟨nl, s3, _, h⟩ := bindM_ok.mp h
    obtain ⟨nr, s4, _, h⟩ := bindM_ok.mp h
    obtain ⟨i, s5, _, h⟩ := bindM_ok.mp h
    cases pureM_ok.mp h
    exact mergeInv_of_flag rfl
  | some c =>
    simp only at h
    obtain ⟨a', s3, _, h⟩ := bindM_ok.mp h
    obtain ⟨nl, s4, _, h⟩ := bindM_ok.mp h
    obtain ⟨b', s5, _, h⟩ := bindM_ok.mp h
    obtain ⟨nr, s6, _, h⟩ := bindM_ok.mp h
    obtain ⟨i, s7, _, h⟩ := bindM_ok.mp h
    cases pureM_ok.mp h
    exact mergeInv_of_flag rfl

/-! ### the label step of `concat_rows`, every configuration -/

/-- the label step on top of the side itself (no builder merge); with `cfg.merges` the SQL generator may merge it
into the side's translated step -/
theorem labelOK_plain_all (hG : ShapeOK Θ ec env G) {a a' : Ops} {c name : String}
    (iha : ∀ f, TransOK Θ ec env scfg G cfg f a) (ihaM : ∀ f, TransOKM Θ ec env scfg cfg f a) (fuel : Nat)
    (h : mkExtend a [(c, .value (.str name))] .none [] [] = .ok a') :
    (∀ x, x ∈ a'.cols ↔ x ∈ a.cols ∨ x = c) ∧ TransOK Θ ec env scfg G cfg fuel a' ∧
    ∀ ta, semE ec Θ scfg env a = .ok ta → ∃ ta', semE ec Θ scfg env a' = .ok ta' ∧
      ∀ u' : List String, (∀ x ∈ u', x ∈ a.cols ∨ x = c) →
        ta'.rows.map (fun r => r.select u') = ta.rows.map (fun r => (r.set c (.str name)).select u') := by
  obtain ⟨rfl, hE⟩ := mkExtend_ok h
  have hw : windowedSituation [(c, Term.value (Lit.str name))] PartArg.none [] = false := rfl
  rw [hw] at hE ⊢
  have hcols : ∀ x, x ∈ (Ops.extend a [(c, Term.value (Lit.str name))] (partCols .none) [] [] false).cols ↔
      x ∈ a.cols ∨ x = c := by
    intro x
    simp only [Ops.cols, List.map_cons, List.map_nil, mem_appendNew, List.mem_singleton]
  refine ⟨hcols, ?_, ?_⟩
  · cases fuel with
    | zero => exact transOK_zero _ _ _ _ _ _ _
    | succ f => exact (transOK_extend_merge hG f a _ _ _ _ _ hE (iha f) (ihaM f)).1
  · intro ta hta
    refine ⟨_, by simp only [semG, hta]; rfl, ?_⟩
    intro u' hu'
    simp only [semExtendPlain, List.map_map]
    apply List.map_congr_left
    intro r _
    exact Row.select_select (fun x hx => (hcols x).mpr (hu' x hx))

/-- the label assignment merged by the *builder* into the side's own un-windowed `extend` node -/
theorem labelOK_merged_all (hG : ShapeOK Θ ec env G) {src a' : Ops} {ops1 : Assign}
    {c name : String} (hwf : WF (.extend src ops1 [] [] [] false))
    (ihsrc : ∀ f, TransOK Θ ec env scfg G cfg f src) (ihsrcM : ∀ f, TransOKM Θ ec env scfg cfg f src) (fuel : Nat)
    (h : mkExtend src (ops1 ++ [(c, .value (.str name))]) .none [] [] = .ok a') :
    (∀ x, x ∈ a'.cols ↔ x ∈ (Ops.extend src ops1 [] [] [] false).cols ∨ x = c) ∧
    TransOK Θ ec env scfg G cfg fuel a' ∧
    ∀ ta, semE ec Θ scfg env (.extend src ops1 [] [] [] false) = .ok ta → ∃ ta', semE ec Θ scfg env a' = .ok ta' ∧
      ∀ u' : List String, (∀ x ∈ u', x ∈ (Ops.extend src ops1 [] [] [] false).cols ∨ x = c) →
        ta'.rows.map (fun r => r.select u') = ta.rows.map (fun r => (r.set c (.str name)).select u') := by
  obtain ⟨rfl, hE⟩ := mkExtend_ok h
  have hiw : impliesWindowed ops1 = false := (hwf.2.2.2.2.2.2.1 rfl).1
  have hw : windowedSituation (ops1 ++ [(c, Term.value (Lit.str name))]) PartArg.none [] = false := by
    rw [impliesWindowed_eq, impliesWindowed_append_j, hiw]; rfl
  rw [hw] at hE ⊢
  have hcols : ∀ x, x ∈ (Ops.extend src (ops1 ++ [(c, Term.value (Lit.str name))]) (partCols .none) [] [] false).cols ↔
      x ∈ (Ops.extend src ops1 [] [] [] false).cols ∨ x = c := by
    intro x
    simp only [Ops.cols, List.map_append, List.map_cons, List.map_nil, mem_appendNew, List.mem_append,
      List.mem_singleton, or_assoc]
  refine ⟨hcols, ?_, ?_⟩
  · cases fuel with
    | zero => exact transOK_zero _ _ _ _ _ _ _
    | succ f => exact (transOK_extend_merge hG f src _ _ _ _ _ hE (ihsrc f) (ihsrcM f)).1
  · intro ta hta
    simp only [semG] at hta
    cases hs : semG (sqlRowLe ec) Θ scfg env src with
    | error e => rw [hs] at hta; cases hta
    | ok ts =>
      rw [hs] at hta
      cases hta
      refine ⟨_, by simp only [semG, hs]; rfl, ?_⟩
      intro u' hu'
      simp only [semExtendPlain, List.map_map]
      apply List.map_congr_left
      intro r _
      simp only [Function.comp]
      rw [Row.select_select (fun x hx => (hcols x).mpr (hu' x hx))]
      apply Row.select_congr.mpr
      intro x hx
      rw [Row.get_set, Row.get_setAll, List.map_append, List.map_cons, List.map_nil, lookupLast_concat]
      by_cases hxc : x = c
      · simp only [hxc, ↓reduceIte, Option.getD_some]
        rfl
      · have hxa : x ∈ (Ops.extend src ops1 [] [] [] false).cols := (hu' x hx).resolve_right hxc
        simp only [hxc, ↓reduceIte]
        rw [Row.get_select_mem hxa, Row.get_setAll]

/-- **`LabelOK` for every configuration**, for a side the builder does not strip (`strip a = a`).  The builder either
puts the label step on top of `a` or merges it into `a`'s own un-windowed `extend` node; the SQL generator then
translates that extend node with `toNear`'s extend case (new step, or – `cfg.merges` – merged into the step of its
source).  Needs both induction claims of `a` and of `a`'s source. -/
theorem labelOK_of_wf_all (hG : ShapeOK Θ ec env G) {a : Ops} {c name : String}
    (hwf : WF a) (hstrip : strip a = a) (hc : c ∉ a.cols)
    (iha : ∀ f, TransOK Θ ec env scfg G cfg f a) (ihaM : ∀ f, TransOKM Θ ec env scfg cfg f a)
    (ihsrc : ∀ src ops1 p o r w, a = .extend src ops1 p o r w → ∀ f,
      TransOK Θ ec env scfg G cfg f src ∧ TransOKM Θ ec env scfg cfg f src)
    (fuel : Nat) : LabelOK Θ ec env scfg G cfg fuel a c name := by
  intro a' hb
  unfold build at hb
  simp only [] at hb
  obtain ⟨parsed, hpa, h2⟩ := bind_ok.mp hb
  obtain ⟨rfl, _⟩ := parseAssignments_ok hpa
  rw [extendParsed_strip _ _ _ _ _ rfl, hstrip] at h2
  obtain ⟨_, _, h3⟩ := bind_ok.mp h2
  cases a with
  | extend src ops1 p1 o1 r1 w1 =>
    simp only [extendTop, extendMerge] at h3
    split at h3
    · rename_i hmc
      simp only [mergeCond, Bool.and_eq_true, beq_iff_eq] at hmc
      obtain ⟨⟨⟨_, hw1⟩, ho1⟩, hr1⟩ := hmc
      have hw1' : w1 = false := by
        rw [← hw1]; rfl
      subst hw1'
      subst ho1
      subst hr1
      have hp1 : p1 = [] := (hwf.2.2.2.2.2.2.1 rfl).2.1
      subst hp1
      cases hmg : tryMergeOps ops1 [(c, Term.value (Lit.str name))] with
      | none =>
        rw [hmg] at h3
        exact labelOK_plain_all hG iha ihaM fuel h3
      | some newOps =>
        rw [hmg] at h3
        have hfresh : ∀ k ∈ keys [(c, Term.value (Lit.str name))], k ∉ keys ops1 := by
          intro k hk hk1
          simp only [keys, List.map_cons, List.map_nil, List.mem_singleton] at hk
          subst hk
          apply hc
          simp only [Ops.cols]
          exact mem_appendNew.mpr (Or.inr hk1)
        have := (tryMergeOps_keys hmg).2 hfresh
        subst this
        exact labelOK_merged_all hG hwf (fun f => (ihsrc src ops1 [] [] [] false rfl f).1)
          (fun f => (ihsrc src ops1 [] [] [] false rfl f).2) fuel h3
    · exact labelOK_plain_all hG iha ihaM fuel h3
  | _ => exact labelOK_plain_all hG iha ihaM fuel h3

/-! ### the main induction, fragment with joins and `concat_rows`, every configuration -/

/-- **Stage A, all requests, fragment with joins and `concat_rows`, every dialect configuration** (`cfg.merges` on or
off).  For every pipeline `p` in scope (`Good cfg env p`: every join rendered natively), every fuel, every requested
column set `u ⊆ p.cols`: a successful translation satisfies the invariant `Sound` against the table `p` evaluates to
under the engine's row ordering and the standard SQL join semantics, **and** the invariant of mergeable steps. -/
theorem transOK_fragJ_all (Θ : Interp) (ec : EngineCfg) (env : Env) (cfg : SqlCfg) :
    ∀ (n : Nat) (p : Ops), p.size ≤ n → Good cfg env p → ∀ fuel : Nat,
      TransOK Θ ec env SemCfg.ref (fun q => q.isJU = true) cfg fuel p ∧ TransOKM Θ ec env SemCfg.ref cfg fuel p := by
  have hG := shapeOK_ju Θ ec env
  have hJU : ∀ q : Near, q.isJU = true → (fun q : Near => q.isJU = true) q := fun _ h => h
  intro n
  induction n with
  | zero => intro p hp; cases p <;> simp [Ops.size] at hp
  | succ n ih =>
    intro p hp hg fuel
    cases fuel with
    | zero => exact ⟨transOK_zero _ _ _ _ _ _ _, transOKM_zero _ _ _ _ _ _⟩
    | succ fuel =>
    cases p with
    | table name cs =>
      obtain ⟨t, hl, hs, _⟩ := hg.env (name, cs) (by simp [Ops.tables])
      exact ⟨transOK_table hG _ name cs ⟨t, hl, hs⟩, transOKM_table _ name cs⟩
    | extend src ops part od rv w =>
      have hgs : Good cfg env src := hg.unary id (fun h => h.1) id id id id id id (fun _ h => h)
      have := ih src (by simp [Ops.size] at hp; omega) hgs fuel
      exact transOK_extend_merge hG fuel src ops part od rv w hg.wf.2 this.1 this.2
    | project src ops g =>
      have hsq := hg.sqlwf
      simp only [SqlWF, sqlWFb, Bool.and_eq_true, subset_iff, nodupB_iff, disjoint_iff] at hsq
      obtain ⟨⟨⟨⟨hs, h1⟩, h2⟩, h3⟩, h4⟩ := hsq
      have hgs : Good cfg env src := hg.unary id (fun h => h.1) (fun _ => hs) id id id id id (fun _ h => h)
      exact ⟨transOK_project hG fuel src ops g h1 h2 h3 h4 hg.wf.2.2
        (ih src (by simp [Ops.size] at hp; omega) hgs fuel).1, transOKM_project fuel src ops g⟩
    | selectRows src e =>
      have hsq := hg.sqlwf
      simp only [SqlWF, sqlWFb, Bool.and_eq_true, subset_iff] at hsq
      have hgs : Good cfg env src := hg.unary id id (fun _ => hsq.1) id id id id id (fun _ h => h)
      exact ⟨transOK_selectRows hG fuel src e hsq.2 (ih src (by simp [Ops.size] at hp; omega) hgs fuel).1,
        transOKM_selectRows fuel src e⟩
    | selectCols src cs =>
      have hgs : Good cfg env src := hg.unary id (fun h => h.1) id id id id id id (fun _ h => h)
      have := ih src (by simp [Ops.size] at hp; omega) hgs fuel
      exact ⟨transOK_selectCols hG fuel src cs hg.wf.2.2.2 this.1,
        transOKM_selectCols fuel src cs hg.wf.2.2.2 this.2⟩
    | dropCols src dels =>
      have hgs : Good cfg env src := hg.unary id (fun h => h.1) id id id id id id (fun _ h => h)
      have := ih src (by simp [Ops.size] at hp; omega) hgs fuel
      exact ⟨transOK_dropCols hG fuel src dels this.1, transOKM_dropCols fuel src dels this.2⟩
    | order src cs rv lim =>
      have hsq := hg.sqlwf
      simp only [SqlWF, sqlWFb, Bool.and_eq_true, subset_iff] at hsq
      have hgs : Good cfg env src := hg.unary id id (fun _ => hsq.1) id id id id id (fun _ h => h)
      exact ⟨transOK_order hG fuel src cs rv lim hsq.2 (ih src (by simp [Ops.size] at hp; omega) hgs fuel).1,
        transOKM_order fuel src cs rv lim⟩
    | rename src m =>
      have hsq := hg.sqlwf
      have hmp := hg.maps
      simp only [SqlWF, sqlWFb, Bool.and_eq_true, subset_iff, List.all_eq_true, Bool.or_eq_true,
        Bool.not_eq_eq_eq_not, Bool.not_true, List.contains_eq_mem, decide_eq_false_iff_not, decide_eq_true_eq] at hsq
      simp only [MapsOK, mapsOKb, Bool.and_eq_true, nodupB_iff] at hmp
      obtain ⟨⟨hs, h1⟩, h2⟩ := hsq
      obtain ⟨⟨hmps, h3⟩, h4⟩ := hmp
      have hgs : Good cfg env src :=
        hg.unary id (fun h => h.1) (fun _ => hs) (fun _ => hmps) id id id id (fun _ h => h)
      refine ⟨transOK_rename hG fuel src m ?_ ?_ h3 h4 hg.wf.2 (semG_cols_wf_fragJ _ Θ SemCfg.ref env src hgs.frag)
          (ih src (by simp [Ops.size] at hp; omega) hgs fuel).1, transOKM_rename fuel src m⟩
      · intro kv hkv; exact h1 kv.2 (List.mem_map.mpr ⟨kv, hkv, rfl⟩)
      · intro kv hkv hin
        rcases h2 kv hkv with h | h
        · exact absurd hin h
        · exact h
    | mapCols src m dels =>
      have hsq := hg.sqlwf
      have hmp := hg.maps
      simp only [SqlWF, sqlWFb, Bool.and_eq_true, subset_iff, List.all_eq_true, Bool.or_eq_true,
        Bool.not_eq_eq_eq_not, Bool.not_true, List.contains_eq_mem, decide_eq_false_iff_not, decide_eq_true_eq] at hsq
      simp only [MapsOK, mapsOKb, Bool.and_eq_true, nodupB_iff, disjoint_iff] at hmp
      obtain ⟨⟨⟨hs, h1⟩, h1'⟩, h2⟩ := hsq
      obtain ⟨⟨⟨hmps, h3⟩, h4⟩, h5⟩ := hmp
      have hgs : Good cfg env src :=
        hg.unary id (fun h => h.1) (fun _ => hs) (fun _ => hmps) id id id id (fun _ h => h)
      refine ⟨transOK_mapCols hG fuel src m dels ?_ h1' ?_ h3 h4 h5 hg.wf.2.2
          (semG_cols_wf_fragJ _ Θ SemCfg.ref env src hgs.frag) (ih src (by simp [Ops.size] at hp; omega) hgs fuel).1,
        transOKM_mapCols fuel src m dels⟩
      · intro kv hkv; exact h1 kv.1 (List.mem_map.mpr ⟨kv, hkv, rfl⟩)
      · intro kv hkv hin
        rcases h2 kv hkv with (h | h) | h
        · exact absurd hin h
        · exact Or.inl h
        · exact Or.inr h
    | join a b oa ob jt =>
      have hfr := hg.frag
      have hsq := hg.sqlwf
      have hmp := hg.maps
      have hj := hg.jwf
      have ht := hg.types
      have hn := hg.native
      have hl := hg.label
      simp only [InFragJ, Bool.and_eq_true] at hfr
      simp only [SqlWF, sqlWFb, Bool.and_eq_true] at hsq
      simp only [MapsOK, mapsOKb, Bool.and_eq_true] at hmp
      simp only [JoinWF, joinWFb, Bool.and_eq_true, subset_iff] at hj
      simp only [JoinTypesSql, joinTypesSqlb, Bool.and_eq_true, bne_iff_ne, ne_eq] at ht
      simp only [JoinsNative, joinsNativeb, Bool.and_eq_true, Bool.or_eq_true, Bool.not_eq_eq_eq_not, Bool.not_true,
        bne_iff_ne, ne_eq] at hn
      simp only [LabelSidesPlain, labelSidesPlainb, Bool.and_eq_true] at hl
      have hga : Good cfg env a := ⟨hfr.1, hg.wf.1, hsq.1, hmp.1, hj.1.1.1, ht.1.1, hn.1.1, hl.1,
        fun nc h => hg.env nc (by simp [Ops.tables, h])⟩
      have hgb : Good cfg env b := ⟨hfr.2, hg.wf.2, hsq.2, hmp.2, hj.1.1.2, ht.1.2, hn.1.2, hl.2,
        fun nc h => hg.env nc (by simp [Ops.tables, h])⟩
      exact ⟨transOK_join hJU fuel a b oa ob jt hn.2 ht.2 hj.1.2 hj.2
          (fun ta h => (semG_cols_wf_fragJ _ Θ SemCfg.ref env a hga.frag ta h).1)
          (fun tb h => (semG_cols_wf_fragJ _ Θ SemCfg.ref env b hgb.frag tb h).1)
          (ih a (by simp [Ops.size] at hp; omega) hga fuel).1 (ih b (by simp [Ops.size] at hp; omega) hgb fuel).1,
        transOKM_join fuel a b oa ob jt hn.2⟩
    | concat a b idc an bn =>
      have hfr := hg.frag
      have hsq := hg.sqlwf
      have hmp := hg.maps
      have hj := hg.jwf
      have ht := hg.types
      have hn := hg.native
      have hl := hg.label
      simp only [InFragJ, Bool.and_eq_true] at hfr
      simp only [SqlWF, sqlWFb, Bool.and_eq_true] at hsq
      simp only [MapsOK, mapsOKb, Bool.and_eq_true] at hmp
      simp only [JoinWF, joinWFb, Bool.and_eq_true, subset_iff] at hj
      simp only [JoinTypesSql, joinTypesSqlb, Bool.and_eq_true] at ht
      simp only [JoinsNative, joinsNativeb, Bool.and_eq_true] at hn
      simp only [LabelSidesPlain, labelSidesPlainb, Bool.and_eq_true, Bool.or_eq_true] at hl
      have hga : Good cfg env a := ⟨hfr.1, hg.wf.1, hsq.1, hmp.1, hj.1.1.1, ht.1, hn.1, hl.1.1,
        fun nc h => hg.env nc (by simp [Ops.tables, h])⟩
      have hgb : Good cfg env b := ⟨hfr.2, hg.wf.2.1, hsq.2, hmp.2, hj.1.1.2, ht.2, hn.2, hl.1.2,
        fun nc h => hg.env nc (by simp [Ops.tables, h])⟩
      have hsa : a.size ≤ n := by simp [Ops.size] at hp; omega
      have hsb : b.size ≤ n := by simp [Ops.size] at hp; omega
      -- the source of a side that is an `extend` node (the builder may merge the label into it)
      have hsrc : ∀ (x : Ops), x.size ≤ n → Good cfg env x → ∀ src ops1 p o r w, x = .extend src ops1 p o r w →
          ∀ f, TransOK Θ ec env SemCfg.ref (fun q => q.isJU = true) cfg f src ∧
            TransOKM Θ ec env SemCfg.ref cfg f src := by
        intro x hx hgx src ops1 p o r w e f
        subst e
        exact ih src (by simp [Ops.size] at hx; omega)
          (hgx.unary id (fun h => h.1) id id id id id id (fun _ h => h)) f
      refine ⟨transOK_concat hJU fuel a b idc an bn (ih a hsa hga fuel).1 (ih b hsb hgb fuel).1 ?_ ?_,
        transOKM_concat fuel a b idc an bn⟩
      · intro c hc
        subst hc
        have hplain := hl.2.resolve_left (by simp)
        exact labelOK_of_wf_all hG hga.wf (strip_eq_of_noTrivTop hplain.1) (hg.wf.2.2 c rfl)
          (fun f => (ih a hsa hga f).1) (fun f => (ih a hsa hga f).2) (hsrc a hsa hga) fuel
      · intro c hc
        subst hc
        have hplain := hl.2.resolve_left (by simp)
        exact labelOK_of_wf_all hG hgb.wf (strip_eq_of_noTrivTop hplain.2)
          (fun h => hg.wf.2.2 c rfl (hj.2 c h))
          (fun f => (ih b hsb hgb f).1) (fun f => (ih b hsb hgb f).2) (hsrc b hsb hgb) fuel
    | convert src rm => exact absurd hg.frag (by simp [InFragJ])

/-- **Stage A at the root, fragment with joins and `concat_rows`, every dialect configuration.**  The query `to_sql`
renders (extend merges allowed or not; every join rendered natively by the dialect), evaluated as a forced SELECT,
returns a table with exactly the declared column set whose rows, restricted to the declared columns, are **in order**
the rows of the pipeline's table under the engine's row ordering and the standard SQL join semantics. -/
theorem stageA_root_all (Θ : Interp) (ec : EngineCfg) (env : Env) (cfg : SqlCfg) (p : Ops)
    (hg : Good cfg env p) {fuel st st' : Nat} {q : Near} {tp : Table}
    (h : toNear cfg fuel p none st = .ok (q, st')) (htp : semE ec Θ SemCfg.ref env p = .ok tp) :
    ∃ T, semNear Θ ec env [] q none true = .ok T ∧ (∀ c, c ∈ T.cols ↔ c ∈ p.cols) ∧
      T.rows.map (fun r => r.select p.cols) = tp.rows := by
  obtain ⟨htpc, htpw⟩ := semG_cols_wf_fragJ _ Θ SemCfg.ref env p hg.frag tp htp
  have hself : tp.rows.map (fun r => r.select p.cols) = tp.rows := by
    rw [← htpc]; exact map_select_self_of_wf htpw (by rw [htpc]; exact hg.wf.cols_nodup)
  rw [toNear_none_eq_ju cfg fuel p hg.frag] at h
  obtain ⟨hju, u₁, hu₁, hu₁', hsound⟩ :=
    (transOK_fragJ_all Θ ec env cfg p.size p (Nat.le_refl _) hg fuel).1 p.cols st q st' tp (fun c hc => hc) h htp
  obtain ⟨T, t1, t2, t3⟩ := root_of_sound_ju hsound hju hu₁ hu₁' hg.wf.cols_ne_nil
  exact ⟨T, t1, t2, t3.trans hself⟩

/-- every translation of a pipeline of the fragment satisfies the invariant of mergeable steps (root call) -/
theorem mergeInv_root_all (Θ : Interp) (ec : EngineCfg) (env : Env) (cfg : SqlCfg) (p : Ops)
    (hg : Good cfg env p) {fuel st st' : Nat} {q : Near}
    (h : toNear cfg fuel p none st = .ok (q, st')) : MergeInv q := by
  obtain ⟨tp, htp⟩ := semG_ok_fragJ (sqlRowLe ec) Θ SemCfg.ref env p hg.frag false hg.env
  rw [toNear_none_eq_ju cfg fuel p hg.frag] at h
  exact (transOK_fragJ_all Θ ec env cfg p.size p (Nat.le_refl _) hg fuel).2 p.cols st q st' tp (fun c hc => hc) h htp

end SqlE
end Sql
end DAVerif
