import DAVerif.Proofs.SqlReach
import DAVerif.Proofs.SqlNestedScope
import DAVerif.Proofs.SqlNodeProject
import DAVerif.Proofs.SqlNodeRename
import DAVerif.Proofs.SqlAllTrans
/-!
C01/C02/C16, **nested emulation**: SQLite's emulated RIGHT / FULL joins anywhere in the pipeline, up to row order.

The induction claim (`Claim fuel`): for every pipeline `p` in scope (`GoodE`, `ScopeE`) whose reference semantics
(`sem`, pandas' NULL placement, standard SQL joins) is the table `tp` there is a **witness** table `tp' ≈ tp` (same
columns, same multiset of rows) such that every translation of `p` at this fuel is `Sound` – list equality – against
`tp'` (`NodeOK`), and satisfies the invariant of mergeable steps (`NodeM`).  `tp'` is "the rows as the SQL lists them".

* unary nodes: `NodeOK` of the source against its witness `ts'` gives `NodeOK` of the node against `op_E ts'` (the
  operator with the engine's NULL placement on the permuted table, `Proofs/SqlNode*.lean`), and
  `op ts ≈ op_E ts'` is C18's permutation invariance of the operator fused with C01's stage B (window orders total
  or order-free functions, clean limit cuts, null-free order columns where the engine's NULL placement matters);
* a natively rendered join, `concat_rows`: `semJoin_equiv`, `semConcat_equiv`;
* SQLite's RIGHT join: the witness lists the RIGHT join right-row-major (`swapJoinTable`);
* SQLite's FULL join: the translation re-enters `toNear` on the pipeline `fullSimOps a b K` the builders construct –
  a *bigger* pipeline, whence the induction on the **fuel** – whose witness, re-ordered to the declared columns of the
  join node, is a permutation of the reference FULL join when no key is null (`fullSim_rows_perm`, guard D19).
-/
namespace DAVerif
namespace Sql
namespace SqlE
open DAVerif.Ops (usedFromSources unionL)
open Rules26 (usedBy keys partCols windowedSituation)

variable {Θ : Interp} {ec : EngineCfg} {env : Env} {G : Near → Prop} {cfg : SqlCfg}

/-! ### the label step of a `concat_rows` with id column -/

/-- what the builder call `a.extend({c: "name"})` returns for a side it does not strip: the label step on top of `a`,
or – `a` an un-windowed extend node – the label assignment merged into that node -/
theorem build_label_cases {a a' : Ops} {c name : String} (hwf : WF a) (hstrip : strip a = a) (hc : c ∉ a.cols)
    (hb : build a (.extend [(c, .value (.str name))] .none [] []) = .ok a') :
    mkExtend a [(c, .value (.str name))] .none [] [] = .ok a' ∨
    ∃ src ops1, a = .extend src ops1 [] [] [] false ∧
      mkExtend src (ops1 ++ [(c, .value (.str name))]) .none [] [] = .ok a' := by
  unfold build at hb
  simp only [] at hb
  obtain ⟨parsed, hpa, h2⟩ := bind_ok.mp hb
  obtain ⟨rfl, _⟩ := parseAssignments_ok hpa
  rw [extendParsed_strip _ _ _ _ _ rfl, hstrip] at h2
  obtain ⟨_, _, h3⟩ := bind_ok.mp h2
  cases a with
  | extend src ops1 p1 o1 r1 w1 =>
    simp only [extendTop, extendMerge] at h3
    split at h3
    · rename_i hmc
      simp only [mergeCond, Bool.and_eq_true, beq_iff_eq] at hmc
      obtain ⟨⟨⟨_, hw1⟩, ho1⟩, hr1⟩ := hmc
      have hw1' : w1 = false := by
        rw [← hw1]; rfl
      subst hw1'
      subst ho1
      subst hr1
      have hp1 : p1 = [] := (hwf.2.2.2.2.2.2.1 rfl).2.1
      subst hp1
      cases hmg : tryMergeOps ops1 [(c, Term.value (Lit.str name))] with
      | none =>
        rw [hmg] at h3
        exact Or.inl h3
      | some newOps =>
        rw [hmg] at h3
        have hfresh : ∀ k ∈ keys [(c, Term.value (Lit.str name))], k ∉ keys ops1 := by
          intro k hk hk1
          simp only [keys, List.map_cons, List.map_nil, List.mem_singleton] at hk
          subst hk
          apply hc
          simp only [Ops.cols]
          exact mem_appendNew.mpr (Or.inr hk1)
        have := (tryMergeOps_keys hmg).2 hfresh
        subst this
        exact Or.inr ⟨src, ops1, rfl, h3⟩
    · exact Or.inl h3
  | _ => exact Or.inl h3

/-- **The labelled side of a `concat_rows`.**  `hA`: the side `a` has a witness against which every extend node on top
of it translates soundly; `hSrc`: the same for the source of `a` when `a` is an extend node (the builder may merge
the label assignment into it).  Then `a` has a witness `ta'` such that the labelled side, as the builder constructs
it, translates soundly against `ta'` with the label column set. -/
theorem labelNodeOK_side {a : Ops} {c name : String} (hwf : WF a) (hstrip : strip a = a) (hc : c ∉ a.cols)
    (fuel : Nat) {ta : Table} (hta : semG rowLe Θ SemCfg.ref env a = .ok ta)
    (hA : ∃ ta', ta ≈ ta' ∧ ∀ ops part od rv w, ExtOK a.cols ops part od rv w →
      NodeOK Θ ec env G cfg fuel (.extend a ops part od rv w) (extRef Θ ec a ops part od rv w ta'))
    (hSrc : ∀ src ops1 p o r w, a = .extend src ops1 p o r w → ∀ ts, semG rowLe Θ SemCfg.ref env src = .ok ts →
      ∃ ts', ts ≈ ts' ∧ ∀ ops part od rv w', ExtOK src.cols ops part od rv w' →
        NodeOK Θ ec env G cfg fuel (.extend src ops part od rv w') (extRef Θ ec src ops part od rv w' ts')) :
    ∃ ta', ta ≈ ta' ∧ LabelNodeOK Θ ec env G cfg fuel a c name ta' := by
  cases hb : build a (.extend [(c, .value (.str name))] .none [] []) with
  | error e =>
    obtain ⟨ta', h1, _⟩ := hA
    exact ⟨ta', h1, fun a' hb' => by rw [hb] at hb'; cases hb'⟩
  | ok a₀ =>
    rcases build_label_cases hwf hstrip hc hb with h | ⟨src, ops1, rfl, h⟩
    · -- the label step on top of `a`
      obtain ⟨ta', e, hN⟩ := hA
      refine ⟨ta', e, ?_⟩
      intro a' hb'
      rw [hb] at hb'
      cases hb'
      obtain ⟨rfl, hE⟩ := mkExtend_ok h
      have hw : windowedSituation [(c, Term.value (Lit.str name))] PartArg.none [] = false := rfl
      rw [hw] at hE ⊢
      have hcols : ∀ x, x ∈ (Ops.extend a [(c, Term.value (Lit.str name))] (partCols .none) [] [] false).cols ↔
          x ∈ a.cols ∨ x = c := by
        intro x
        simp only [Ops.cols, List.map_cons, List.map_nil, mem_appendNew, List.mem_singleton]
      refine ⟨hcols, _, hN _ _ _ _ _ hE, ?_⟩
      intro u' hu'
      simp only [extRef, Bool.false_eq_true, ↓reduceIte, semExtendPlain, List.map_map]
      apply List.map_congr_left
      intro r _
      exact Row.select_select (fun x hx => (hcols x).mpr (hu' x hx))
    · -- the label assignment merged into the side's own un-windowed extend node
      simp only [semG] at hta
      obtain ⟨ts, hts, hta⟩ := bind_ok_inv hta
      simp only [Bool.false_eq_true, ↓reduceIte, pure, Except.pure, Except.ok.injEq] at hta
      subst hta
      obtain ⟨ts', e, hN⟩ := hSrc src ops1 [] [] [] false rfl ts hts
      refine ⟨semExtendPlain Θ ops1 ts' (Ops.extend src ops1 [] [] [] false).cols, semExtendPlain_equiv Θ ops1 e _, ?_⟩
      intro a' hb'
      rw [hb] at hb'
      cases hb'
      obtain ⟨rfl, hE⟩ := mkExtend_ok h
      have hiw : impliesWindowed ops1 = false := (hwf.2.2.2.2.2.2.1 rfl).1
      have hw : windowedSituation (ops1 ++ [(c, Term.value (Lit.str name))]) PartArg.none [] = false := by
        rw [impliesWindowed_eq, impliesWindowed_append_j, hiw]; rfl
      rw [hw] at hE ⊢
      have hcols : ∀ x, x ∈ (Ops.extend src (ops1 ++ [(c, Term.value (Lit.str name))]) (partCols .none) [] []
          false).cols ↔ x ∈ (Ops.extend src ops1 [] [] [] false).cols ∨ x = c := by
        intro x
        simp only [Ops.cols, List.map_append, List.map_cons, List.map_nil, mem_appendNew, List.mem_append,
          List.mem_singleton, or_assoc]
      refine ⟨hcols, _, hN _ _ _ _ _ hE, ?_⟩
      intro u' hu'
      simp only [extRef, Bool.false_eq_true, ↓reduceIte, semExtendPlain, List.map_map]
      apply List.map_congr_left
      intro r _
      simp only [Function.comp]
      rw [Row.select_select (fun x hx => (hcols x).mpr (hu' x hx))]
      apply Row.select_congr.mpr
      intro x hx
      rw [Row.get_set, Row.get_setAll, List.map_append, List.map_cons, List.map_nil, lookupLast_concat]
      by_cases hxc : x = c
      · simp only [hxc, ↓reduceIte, Option.getD_some]
        rfl
      · have hxa : x ∈ (Ops.extend src ops1 [] [] [] false).cols := (hu' x hx).resolve_right hxc
        simp only [hxc, ↓reduceIte]
        rw [Row.get_select_mem hxa, Row.get_setAll]

/-! ### the induction claim -/

/-- **The induction claim at a given fuel**: every pipeline in scope has a witness – its reference table up to row
order – against which all its translations are sound, and all its translations satisfy the invariant of mergeable
steps. -/
def Claim (Θ : Interp) (ec : EngineCfg) (env : Env) (cfg : SqlCfg) (fuel : Nat) : Prop :=
  ∀ p, GoodE env p → ScopeE Θ env cfg p → ∀ tp, semG rowLe Θ SemCfg.ref env p = .ok tp →
    ∃ tp', tp ≈ tp' ∧ NodeOK Θ ec env (fun q => q.isJU = true) cfg fuel p tp' ∧ NodeM cfg fuel p

theorem sem_of_semG {p : Ops} {t : Table} (h : semG rowLe Θ SemCfg.ref env p = .ok t) :
    sem Θ SemCfg.ref env p = .ok t := by
  rw [← semG_rowLe]; exact h

/-- a FULL join on SQLite whose emulation cannot be built does not translate -/
theorem nodeOK_full_vacuous (hemu : cfg.emulateRightFull = true) (fuel : Nat) (a b : Ops) (onA onB : List String)
    (hno : ¬ (onA ≠ [] ∧ onA = onB ∧ ∃ sim, fullSim a b onA = .ok sim)) (tp : Table) :
    NodeOK Θ ec env G cfg (fuel + 1) (.join a b onA onB .full) tp ∧ NodeM cfg (fuel + 1) (.join a b onA onB .full) := by
  refine ⟨?_, ?_⟩
  · intro u st q st' _ h
    obtain ⟨h1, h2, sim, hsim, _⟩ := toNear_join_sqlite_full hemu h
    exact absurd ⟨h1, h2, sim, hsim⟩ hno
  · intro u st q st' _ h
    obtain ⟨h1, h2, sim, hsim, _⟩ := toNear_join_sqlite_full hemu h
    exact absurd ⟨h1, h2, sim, hsim⟩ hno

/-- **The main induction of the nested-emulation theorem**: `Claim` holds at every fuel, for every dialect
configuration (extend merges on or off, RIGHT / FULL joins native or emulated). -/
theorem claim_all (Θ : Interp) (ec : EngineCfg) (env : Env) (cfg : SqlCfg) : ∀ fuel, Claim Θ ec env cfg fuel := by
  have hG := shapeOK_ju Θ ec env
  have hJU : ∀ q : Near, q.isJU = true → (fun q : Near => q.isJU = true) q := fun _ h => h
  intro fuel
  induction fuel using Nat.strongRecOn with
  | _ fuel ih =>
  cases fuel with
  | zero => intro p _ _ tp _; exact ⟨tp, Table.Equiv.refl tp, nodeOK_zero _ _ _ _ _ _ _, nodeM_zero _ _⟩
  | succ n =>
  have ihn : Claim Θ ec env cfg n := ih n (Nat.lt_succ_self n)
  -- every extend node on top of a pipeline in scope, at fuel `n`
  have extClaim : ∀ x, GoodE env x → ScopeE Θ env cfg x → ∀ tx, semG rowLe Θ SemCfg.ref env x = .ok tx →
      ∃ tx', tx ≈ tx' ∧ ∀ ops part od rv w, ExtOK x.cols ops part od rv w →
        NodeOK Θ ec env (fun q => q.isJU = true) cfg n (.extend x ops part od rv w)
          (extRef Θ ec x ops part od rv w tx') := by
    intro x hgx hsx tx htx
    cases n with
    | zero => exact ⟨tx, Table.Equiv.refl tx, fun _ _ _ _ _ _ => nodeOK_zero _ _ _ _ _ _ _⟩
    | succ m =>
      obtain ⟨tx', e, hN, hM⟩ := ih m (by omega) x hgx hsx tx htx
      exact ⟨tx', e, fun ops part od rv w hE => (nodeOK_extend_merge hG m x ops part od rv w hE hN hM).1⟩
  intro p hg hs tp hsem
  have hex : ∃ t, semE ec Θ SemCfg.ref env p = .ok t :=
    semG_ok_fragJ (sqlRowLe ec) Θ SemCfg.ref env p hg.frag false hg.env
  have hMof : TransOKM Θ ec env SemCfg.ref cfg (n + 1) p → NodeM cfg (n + 1) p := fun h => nodeM_of_transOKM h hex
  cases p with
  | table name cs =>
    obtain ⟨t, hl, hsub, _⟩ := hg.env (name, cs) (by simp [Ops.tables])
    have : tp = t.selectCols cs := by
      simp only [semG, hl, subset_iff.mpr hsub, ↓reduceIte] at hsem
      exact (Except.ok.inj hsem).symm
    subst this
    exact ⟨_, Table.Equiv.refl _, nodeOK_table hG _ name cs hl hsub, hMof (transOKM_table _ name cs)⟩
  | extend src ops part od rv w =>
    have hgs : GoodE env src := hg.unary id (fun h => h.1) id id id id id id (fun _ h => h)
    have hss : ScopeE Θ env cfg src := ⟨hs.aggs, hs.wins.1, hs.sql.1, hs.full⟩
    simp only [semG] at hsem
    obtain ⟨ts, hts, htp⟩ := bind_ok_inv hsem
    obtain ⟨ts', e, hN, hM⟩ := ihn src hgs hss ts hts
    have hstep := nodeOK_extend_merge hG n src ops part od rv w hg.wf.2 hN hM
    refine ⟨extRef Θ ec src ops part od rv w ts', ?_, hstep.1, hstep.2⟩
    cases w with
    | false =>
      simp only [Bool.false_eq_true, ↓reduceIte, pure, Except.pure, Except.ok.injEq] at htp
      subst htp
      simp only [extRef, Bool.false_eq_true, ↓reduceIte]
      exact semExtendPlain_equiv Θ ops e _
    | true =>
      simp only [↓reduceIte, pure, Except.pure, Except.ok.injEq] at htp
      subst htp
      simp only [extRef, ↓reduceIte]
      rcases hs.sql.2 rfl ts (sem_of_semG hts) with hnull | hfree
      · rw [semExtendWindowG_rowLe, semExtendWindowG_eq_of_nullFree ec Θ ops part od rv ts' _ (hnull.perm e.2)]
        exact semExtendWindow_equiv Θ ops part od rv e _ (hs.wins.2 rfl ts (sem_of_semG hts))
      · exact semExtendWindowG_equiv_free rowLe (sqlRowLe ec) Θ ops part od rv e _ hfree
  | project src ops g =>
    have hsq := hg.sqlwf
    simp only [SqlWF, sqlWFb, Bool.and_eq_true, subset_iff, nodupB_iff, disjoint_iff] at hsq
    obtain ⟨⟨⟨⟨hsqs, h1⟩, h2⟩, h3⟩, h4⟩ := hsq
    have hgs : GoodE env src := hg.unary id (fun h => h.1) (fun _ => hsqs) id id id id id (fun _ h => h)
    have hss : ScopeE Θ env cfg src := ⟨hs.aggs.1, hs.wins, hs.sql, hs.full⟩
    simp only [semG] at hsem
    obtain ⟨ts, hts, rfl⟩ := bind_pure_ok hsem
    obtain ⟨ts', e, hN, hM⟩ := ihn src hgs hss ts hts
    exact ⟨_, semProject_equiv Θ ops g e _ hs.aggs.2, nodeOK_project hG n src ops g h1 h2 h3 h4 hg.wf.2.2 hN,
      hMof (transOKM_project n src ops g)⟩
  | selectRows src e0 =>
    have hsq := hg.sqlwf
    simp only [SqlWF, sqlWFb, Bool.and_eq_true, subset_iff] at hsq
    have hgs : GoodE env src := hg.unary id id (fun _ => hsq.1) id id id id id (fun _ h => h)
    have hss : ScopeE Θ env cfg src := ⟨hs.aggs, hs.wins, hs.sql, hs.full⟩
    simp only [semG] at hsem
    obtain ⟨ts, hts, rfl⟩ := bind_pure_ok hsem
    obtain ⟨ts', e, hN, hM⟩ := ihn src hgs hss ts hts
    exact ⟨_, semSelectRows_equiv Θ e0 e, nodeOK_selectRows hG n src e0 hsq.2 hN, hMof (transOKM_selectRows n src e0)⟩
  | selectCols src cs =>
    have hgs : GoodE env src := hg.unary id (fun h => h.1) id id id id id id (fun _ h => h)
    have hss : ScopeE Θ env cfg src := ⟨hs.aggs, hs.wins, hs.sql, hs.full⟩
    simp only [semG] at hsem
    obtain ⟨ts, hts, rfl⟩ := bind_pure_ok hsem
    obtain ⟨ts', e, hN, hM⟩ := ihn src hgs hss ts hts
    exact ⟨_, e.selectCols cs, nodeOK_selectCols hG n src cs hg.wf.2.2.2 hN,
      hMof (transOKM_selectCols n src cs hg.wf.2.2.2 hM.transOKM)⟩
  | dropCols src dels =>
    have hgs : GoodE env src := hg.unary id (fun h => h.1) id id id id id id (fun _ h => h)
    have hss : ScopeE Θ env cfg src := ⟨hs.aggs, hs.wins, hs.sql, hs.full⟩
    simp only [semG] at hsem
    obtain ⟨ts, hts, rfl⟩ := bind_pure_ok hsem
    obtain ⟨ts', e, hN, hM⟩ := ihn src hgs hss ts hts
    exact ⟨_, e.selectCols _, nodeOK_dropCols hG n src dels hN, hMof (transOKM_dropCols n src dels hM.transOKM)⟩
  | order src cs rv lim =>
    have hsq := hg.sqlwf
    simp only [SqlWF, sqlWFb, Bool.and_eq_true, subset_iff] at hsq
    have hgs : GoodE env src := hg.unary id id (fun _ => hsq.1) id id id id id (fun _ h => h)
    have hss : ScopeE Θ env cfg src := ⟨hs.aggs, hs.wins.1, hs.sql.1, hs.full⟩
    simp only [semG] at hsem
    obtain ⟨ts, hts, rfl⟩ := bind_pure_ok hsem
    obtain ⟨ts', e, hN, hM⟩ := ihn src hgs hss ts hts
    refine ⟨semOrderG (sqlRowLe ec) cs rv lim ts', ?_, nodeOK_order hG n src cs rv lim hsq.2 hN,
      hMof (transOKM_order n src cs rv lim)⟩
    cases lim with
    | none =>
      refine ⟨e.1, ?_⟩
      simp only [semOrderG]
      exact (List.mergeSort_perm _ _).trans (e.2.trans (List.mergeSort_perm _ _).symm)
    | some k =>
      rw [semOrderG_rowLe, semOrderG_eq_of_nullFree ec cs rv (some k) ts'
        ((hs.sql.2 (by simp) ts (sem_of_semG hts)).perm e.2)]
      exact semOrder_limit_equiv cs rv k e (hs.wins.2 k rfl ts (sem_of_semG hts))
  | rename src m =>
    have hsq := hg.sqlwf
    have hmp := hg.maps
    simp only [SqlWF, sqlWFb, Bool.and_eq_true, subset_iff, List.all_eq_true, Bool.or_eq_true,
      Bool.not_eq_eq_eq_not, Bool.not_true, List.contains_eq_mem, decide_eq_false_iff_not, decide_eq_true_eq] at hsq
    simp only [MapsOK, mapsOKb, Bool.and_eq_true, nodupB_iff] at hmp
    obtain ⟨⟨hsqs, h1⟩, h2⟩ := hsq
    obtain ⟨⟨hmps, h3⟩, h4⟩ := hmp
    have hgs : GoodE env src :=
      hg.unary id (fun h => h.1) (fun _ => hsqs) (fun _ => hmps) id id id id (fun _ h => h)
    have hss : ScopeE Θ env cfg src := ⟨hs.aggs, hs.wins, hs.sql, hs.full⟩
    simp only [semG] at hsem
    obtain ⟨ts, hts, rfl⟩ := bind_pure_ok hsem
    obtain ⟨ts', e, hN, hM⟩ := ihn src hgs hss ts hts
    have hcw := semG_cols_wf_fragJ rowLe Θ SemCfg.ref env src hgs.frag ts hts
    have hcw' : ts'.cols = src.cols ∧ ts'.WF := ⟨e.1.symm.trans hcw.1, e.wf hcw.2⟩
    refine ⟨_, semRename_equiv e _ _, nodeOK_rename hG n src m ?_ ?_ h3 h4 hg.wf.2 hcw' hN,
      hMof (transOKM_rename n src m)⟩
    · intro kv hkv; exact h1 kv.2 (List.mem_map.mpr ⟨kv, hkv, rfl⟩)
    · intro kv hkv hin
      rcases h2 kv hkv with h | h
      · exact absurd hin h
      · exact h
  | mapCols src m dels =>
    have hsq := hg.sqlwf
    have hmp := hg.maps
    simp only [SqlWF, sqlWFb, Bool.and_eq_true, subset_iff, List.all_eq_true, Bool.or_eq_true,
      Bool.not_eq_eq_eq_not, Bool.not_true, List.contains_eq_mem, decide_eq_false_iff_not, decide_eq_true_eq] at hsq
    simp only [MapsOK, mapsOKb, Bool.and_eq_true, nodupB_iff, disjoint_iff] at hmp
    obtain ⟨⟨⟨hsqs, h1⟩, h1'⟩, h2⟩ := hsq
    obtain ⟨⟨⟨hmps, h3⟩, h4⟩, h5⟩ := hmp
    have hgs : GoodE env src :=
      hg.unary id (fun h => h.1) (fun _ => hsqs) (fun _ => hmps) id id id id (fun _ h => h)
    have hss : ScopeE Θ env cfg src := ⟨hs.aggs, hs.wins, hs.sql, hs.full⟩
    simp only [semG] at hsem
    obtain ⟨ts, hts, rfl⟩ := bind_pure_ok hsem
    obtain ⟨ts', e, hN, hM⟩ := ihn src hgs hss ts hts
    have hcw := semG_cols_wf_fragJ rowLe Θ SemCfg.ref env src hgs.frag ts hts
    have hcw' : ts'.cols = src.cols ∧ ts'.WF := ⟨e.1.symm.trans hcw.1, e.wf hcw.2⟩
    refine ⟨_, semMapCols_equiv e _ dels _, nodeOK_mapCols hG n src m dels ?_ h1' ?_ h3 h4 h5 hg.wf.2.2 hcw' hN,
      hMof (transOKM_mapCols n src m dels)⟩
    · intro kv hkv; exact h1 kv.1 (List.mem_map.mpr ⟨kv, hkv, rfl⟩)
    · intro kv hkv hin
      rcases h2 kv hkv with (h | h) | h
      · exact absurd hin h
      · exact Or.inl h
      · exact Or.inr h
  | join a b oa ob jt =>
    obtain ⟨hga, hgb, hoa, hob, hjt, hlen⟩ := hg.join_sides
    have hsa : ScopeE Θ env cfg a := ⟨hs.aggs.1, hs.wins.1, hs.sql.1, hs.full.1⟩
    have hsb : ScopeE Θ env cfg b := ⟨hs.aggs.2, hs.wins.2, hs.sql.2, hs.full.2.1⟩
    obtain ⟨ta, tb, hta, htb, rfl⟩ := semG_join_ok hsem
    obtain ⟨ta', ea, hNa, hMa⟩ := ihn a hga hsa ta hta
    obtain ⟨tb', eb, hNb, hMb⟩ := ihn b hgb hsb tb htb
    have hca := (semG_cols_wf_fragJ rowLe Θ SemCfg.ref env a hga.frag ta hta).1
    have hcb := (semG_cols_wf_fragJ rowLe Θ SemCfg.ref env b hgb.frag tb htb).1
    have hca' : ta'.cols = a.cols := ea.1.symm.trans hca
    have hcb' : tb'.cols = b.cols := eb.1.symm.trans hcb
    have eqJ : ((semJoin SemCfg.ref jt oa ob ta tb (appendNew a.cols b.cols)).selectCols
          (Ops.join a b oa ob jt).cols) ≈
        ((semJoin SemCfg.ref jt oa ob ta' tb' (appendNew a.cols b.cols)).selectCols (Ops.join a b oa ob jt).cols) :=
      (semJoin_equiv SemCfg.ref jt oa ob ea eb _).selectCols _
    by_cases hnat : cfg.emulateRightFull = false ∨ (jt ≠ .right ∧ jt ≠ .full)
    · exact ⟨_, eqJ, nodeOK_join hJU n a b oa ob jt hnat hjt hoa hob hca' hcb' hNa hNb,
        hMof (transOKM_join n a b oa ob jt hnat)⟩
    · have hemu : cfg.emulateRightFull = true := by
        cases h : cfg.emulateRightFull with
        | false => exact absurd (Or.inl h) hnat
        | true => rfl
      have hjt2 : jt = .right ∨ jt = .full := by
        by_cases h1 : jt = .right
        · exact Or.inl h1
        · by_cases h2 : jt = .full
          · exact Or.inr h2
          · exact absurd (Or.inr ⟨h1, h2⟩) hnat
      rcases hjt2 with rfl | rfl
      · -- SQLite's RIGHT join: the swapped LEFT join
        have hle : oa.isEmpty = ob.isEmpty := by
          cases oa <;> cases ob <;> simp_all
        exact ⟨swapJoinTable a b oa ob ta' tb', eqJ.trans (swapJoinTable_equiv a b oa ob hca' hcb'),
          nodeOK_join_sqlite_right hJU n a b oa ob hemu hoa hob hle hNa hNb,
          hMof (transOKM_join_sqlite_right hemu n a b oa ob)⟩
      · -- SQLite's FULL join: the emulation pipeline
        by_cases hsim : oa ≠ [] ∧ oa = ob ∧ ∃ sim, fullSim a b oa = .ok sim
        · obtain ⟨hK, rfl, sim, hsimok⟩ := hsim
          obtain ⟨rfl, hnd, hKa, hKb⟩ := fullSim_shape hsimok
          have hgs : GoodE env (fullSimOps a b oa) := goodE_fullSim hga hgb hK hnd hKa hKb
          have hss : ScopeE Θ env cfg (fullSimOps a b oa) := scopeE_fullSim oa hsa hsb
          obtain ⟨tsim, htsim⟩ := semG_ok_fragJ rowLe Θ SemCfg.ref env _ hgs.frag false hgs.env
          obtain ⟨tsim', es, hNs, hMs⟩ := ihn _ hgs hss tsim htsim
          obtain ⟨tsa, htsa, hmema⟩ := semG_strip hta
          obtain ⟨tsb, htsb, hmemb⟩ := semG_strip htb
          have htsim' := htsim
          simp only [fullSimOps, semG, htsa, htsb, hta, htb, bind, Except.bind, pure, Except.pure,
            Except.ok.injEq] at htsim'
          have hna : NullFreeOn oa ta.rows := (hs.full.2.2 hemu rfl).1 ta (sem_of_semG hta)
          have hnb : NullFreeOn oa tb.rows := (hs.full.2.2 hemu rfl).2 tb (sem_of_semG htb)
          have hncols : ∀ c, c ∈ (Ops.join a b oa oa .full).cols ↔ c ∈ a.cols ∨ c ∈ b.cols :=
            mem_joinNodeCols a b oa oa .full
          have hperm : ∀ u' : List String, (∀ c ∈ u', c ∈ (Ops.join a b oa oa .full).cols) →
              (tsim.rows.map (fun r => r.select u')).Perm
                (((semJoin SemCfg.ref .full oa oa ta tb (appendNew a.cols b.cols)).selectCols
                  (Ops.join a b oa oa .full).cols).rows.map (fun r => r.select u')) := by
            intro u' hu'
            rw [← htsim']
            exact fullSim_rows_perm Θ hK hKa hKb ta tb tsa tsb hca hcb hmema hmemb hna hnb _ _ _ u'
              (fun c => mem_joinNodeCols _ a oa oa .left c) (fun c => mem_joinNodeCols _ b oa oa .left c)
              hncols hu' "a" "b"
          refine ⟨⟨(Ops.join a b oa oa .full).cols,
            tsim'.rows.map (fun r => r.select (Ops.join a b oa oa .full).cols)⟩, ⟨rfl, ?_⟩, ?_, ?_⟩
          · have h1 := (hperm _ (fun c hc => hc)).symm.trans (es.2.map _)
            simp only [Table.selectCols] at h1 ⊢
            rw [select_map_select _ (fun c hc => hc)] at h1
            exact h1
          · intro u st q st' hu h
            obtain ⟨_, _, sim, hsim', htn⟩ := toNear_join_sqlite_full hemu h
            obtain ⟨rfl, _⟩ := fullSim_shape hsim'
            obtain ⟨hju, u₁, h1, h2, hsound⟩ := hNs u st q st'
              (fun c hc => (mem_fullSimOps_cols hKa c).mpr ((hncols c).mp (hu c hc))) htn
            have hu₁n : ∀ c ∈ u₁, c ∈ (Ops.join a b oa oa .full).cols :=
              fun c hc => (hncols c).mpr ((mem_fullSimOps_cols hKa c).mp (h2 c hc))
            refine ⟨hju, u₁, h1, hu₁n,
              hsound.mono (fun c hc => (hncols c).mpr ((mem_fullSimOps_cols hKa c).mp hc)) ?_⟩
            intro u' hu'
            exact select_map_select _ (fun c hc => hu₁n c (hu' c hc))
          · intro u st q st' hu h
            obtain ⟨_, _, sim, hsim', htn⟩ := toNear_join_sqlite_full hemu h
            obtain ⟨rfl, _⟩ := fullSim_shape hsim'
            exact hMs u st q st' (fun c hc => (mem_fullSimOps_cols hKa c).mpr ((hncols c).mp (hu c hc))) htn
        · exact ⟨_, Table.Equiv.refl _, (nodeOK_full_vacuous hemu n a b oa ob hsim _).1,
            (nodeOK_full_vacuous (Θ := Θ) (ec := ec) (env := env) (G := fun q => q.isJU = true) hemu n a b oa ob hsim
              ⟨[], []⟩).2⟩
  | concat a b idc an bn =>
    obtain ⟨hga, hgb, hab, hba, hlab⟩ := hg.concat_sides
    have hsa : ScopeE Θ env cfg a := ⟨hs.aggs.1, hs.wins.1, hs.sql.1, hs.full.1⟩
    have hsb : ScopeE Θ env cfg b := ⟨hs.aggs.2, hs.wins.2, hs.sql.2, hs.full.2⟩
    obtain ⟨ta, tb, hta, htb, rfl⟩ := semG_concat_ok hsem
    cases idc with
    | none =>
      obtain ⟨ta', ea, hNa, hMa⟩ := ihn a hga hsa ta hta
      obtain ⟨tb', eb, hNb, hMb⟩ := ihn b hgb hsb tb htb
      exact ⟨_, semConcat_equiv none an bn ea eb _,
        nodeOK_concat hJU n a b none an bn (fun _ => hNa) (fun _ => hNb) (fun c h => by cases h)
          (fun c h => by cases h), hMof (transOKM_concat n a b none an bn)⟩
    | some c =>
      have hplain := hlab.resolve_left (by simp)
      have hca : c ∉ a.cols := hg.wf.2.2 c rfl
      have hcb : c ∉ b.cols := fun h => hca (hba c h)
      have hsrc : ∀ x, GoodE env x → ScopeE Θ env cfg x → ∀ src ops1 p o r w, x = .extend src ops1 p o r w →
          ∀ ts, semG rowLe Θ SemCfg.ref env src = .ok ts →
          ∃ ts', ts ≈ ts' ∧ ∀ ops part od rv w', ExtOK src.cols ops part od rv w' →
            NodeOK Θ ec env (fun q => q.isJU = true) cfg n (.extend src ops part od rv w')
              (extRef Θ ec src ops part od rv w' ts') := by
        intro x hgx hsx src ops1 p o r w e ts hts
        subst e
        exact extClaim src (hgx.unary id (fun h => h.1) id id id id id id (fun _ h => h))
          ⟨hsx.aggs, hsx.wins.1, hsx.sql.1, hsx.full⟩ ts hts
      obtain ⟨ta', ea, hLa⟩ := labelNodeOK_side (c := c) (name := an) hga.wf (strip_eq_of_noTrivTop hplain.1) hca n hta
        (extClaim a hga hsa ta hta) (hsrc a hga hsa)
      obtain ⟨tb', eb, hLb⟩ := labelNodeOK_side (c := c) (name := bn) hgb.wf (strip_eq_of_noTrivTop hplain.2) hcb n htb
        (extClaim b hgb hsb tb htb) (hsrc b hgb hsb)
      exact ⟨_, semConcat_equiv (some c) an bn ea eb _,
        nodeOK_concat hJU n a b (some c) an bn (fun h => by cases h) (fun h => by cases h)
          (fun c' h => by cases h; exact hLa) (fun c' h => by cases h; exact hLb),
        hMof (transOKM_concat n a b (some c) an bn)⟩
  | convert src rm => exact absurd hg.frag (by simp [InFragJ])

/-! ### the root call -/

/-- **The root call, nested emulation.**  For a pipeline in scope the query `to_sql` renders – every dialect
configuration, emulated RIGHT / FULL joins anywhere – evaluated as a forced SELECT, returns a table with exactly the
declared column set and the **multiset** of rows of the reference semantics; the translation satisfies the invariant
of mergeable steps. -/
theorem nested_root (Θ : Interp) (ec : EngineCfg) (env : Env) (cfg : SqlCfg) (p : Ops) (hg : GoodE env p)
    (hs : ScopeE Θ env cfg p) {fuel st st' : Nat} {q : Near} (h : toNear cfg fuel p none st = .ok (q, st')) :
    ∃ T t, semNear Θ ec env [] q none true = .ok T ∧ sem Θ SemCfg.ref env p = .ok t ∧ t.cols = p.cols ∧
      T.EquivS t ∧ MergeInv q := by
  obtain ⟨tp, htp⟩ := semG_ok_fragJ rowLe Θ SemCfg.ref env p hg.frag false hg.env
  obtain ⟨htpc, htpw⟩ := semG_cols_wf_fragJ _ Θ SemCfg.ref env p hg.frag tp htp
  obtain ⟨tp', e, hN, hM⟩ := claim_all Θ ec env cfg fuel p hg hs tp htp
  rw [toNear_none_eq_ju cfg fuel p hg.frag] at h
  obtain ⟨hju, u₁, hu₁, hu₁', hsound⟩ := hN p.cols st q st' (fun c hc => hc) h
  obtain ⟨T, t1, t2, t3⟩ := root_of_sound_ju hsound hju hu₁ hu₁' hg.wf.cols_ne_nil
  have hc' : tp'.cols = p.cols := e.1.symm.trans htpc
  have hself : tp'.rows.map (fun r => r.select p.cols) = tp'.rows := by
    rw [← hc']; exact map_select_self_of_wf (e.wf htpw) (by rw [hc']; exact hg.wf.cols_nodup)
  refine ⟨T, tp, t1, sem_of_semG htp, htpc, ⟨?_, ?_⟩, hM p.cols st q st' (fun c hc => hc) h⟩
  · intro c; rw [htpc]; exact t2 c
  · rw [htpc, t3, hself]; exact e.2.symm

/-- **A final `order_rows` re-establishes list equality.**  Pipeline `src.order_rows(cs, reverse, limit)` with `src`
in scope (emulated joins anywhere in `src`): if the order is total on the rows of `src` and its columns hold no null
there, the query returns the reference rows **in the reference order**. -/
theorem nested_root_final_order (Θ : Interp) (ec : EngineCfg) (env : Env) (cfg : SqlCfg) (src : Ops)
    (cs rv : List String) (lim : Option Nat) (hg : GoodE env (.order src cs rv lim)) (hs : ScopeE Θ env cfg src)
    {ts : Table} (hts : sem Θ SemCfg.ref env src = .ok ts) (hnull : NullFreeOn cs ts.rows)
    (htot : TotalOn cs rv ts.rows) {fuel st st' : Nat} {q : Near}
    (h : toNear cfg (fuel + 1) (.order src cs rv lim) none st = .ok (q, st')) :
    ∃ T, semNear Θ ec env [] q none true = .ok T ∧ (∀ c, c ∈ T.cols ↔ c ∈ src.cols) ∧
      T.rows.map (fun r => r.select src.cols) = (semOrder cs rv lim ts).rows := by
  have hG := shapeOK_ju Θ ec env
  have hsq := hg.sqlwf
  simp only [SqlWF, sqlWFb, Bool.and_eq_true, subset_iff] at hsq
  have hgs : GoodE env src := hg.unary id id (fun _ => hsq.1) id id id id id (fun _ h => h)
  have hts' : semG rowLe Θ SemCfg.ref env src = .ok ts := by rw [semG_rowLe]; exact hts
  obtain ⟨htsc, htsw⟩ := semG_cols_wf_fragJ _ Θ SemCfg.ref env src hgs.frag ts hts'
  obtain ⟨ts', e, hN, _⟩ := claim_all Θ ec env cfg fuel src hgs hs ts hts'
  have hNo := nodeOK_order hG fuel src cs rv lim hsq.2 hN
  have href : semOrderG (sqlRowLe ec) cs rv lim ts' = semOrder cs rv lim ts := by
    rw [semOrderG_eq_of_nullFree ec cs rv lim ts' (hnull.perm e.2)]
    exact (semOrder_total_eq cs rv lim e htot).symm
  rw [href] at hNo
  rw [toNear_none_eq_ju cfg (fuel + 1) _ hg.frag] at h
  obtain ⟨hju, u₁, hu₁, hu₁', hsound⟩ := hNo (Ops.order src cs rv lim).cols st q st' (fun c hc => hc) h
  obtain ⟨T, t1, t2, t3⟩ := root_of_sound_ju hsound hju hu₁ hu₁' hg.wf.cols_ne_nil
  refine ⟨T, t1, t2, ?_⟩
  have hcols : (Ops.order src cs rv lim).cols = src.cols := rfl
  rw [hcols] at t3
  rw [t3]
  have hwfo : (semOrder cs rv lim ts).WF := by
    intro r hr
    have : r ∈ ts.rows := by
      simp only [semOrder] at hr
      cases lim with
      | none => exact (sortRows_perm cs rv ts.rows).mem_iff.mp hr
      | some k => exact (sortRows_perm cs rv ts.rows).mem_iff.mp (List.mem_of_mem_take hr)
    exact htsw r this
  have hco : (semOrder cs rv lim ts).cols = src.cols := htsc
  rw [← hco]
  exact map_select_self_of_wf hwfo (by rw [hco]; exact hg.wf.cols_nodup)

end SqlE
end Sql
end DAVerif
