import DAVerif.Proofs.ExprWalkWfMain
/-!
C13: the NAME tokens of the printed form of a walked term are NAME tokens of the input or operator names of the
builder table — under the guard `CalleeIsName` (every callee is a name or an attribute).  Without the guard the
walker takes an *operator* token as a function name (`(-x)(y)` is walked to the call `-(y)`), which prints as a NAME
token that no lexer produces (known finding `C13-call-of-unary-expression`).

`S` is an arbitrary predicate on name texts ("is an identifier", "is not a keyword", …).
-/
namespace DAVerif.C13W
open DAVerif DAVerif.Expr

def NamesIn (S : String → Prop) (t : Term) : Prop := ∀ n ∈ termNames t, S n
def NamesInL (S : String → Prop) (ts : List Term) : Prop := ∀ n ∈ termNamesL ts, S n

theorem termNames_app (op : String) (args : List Term) (i m : Bool) :
    termNames (.app op args i m) = (if i then [] else [op]) ++ termNamesL args := by rw [termNames]
theorem termNamesL_nil : termNamesL [] = [] := by rw [termNamesL]
theorem termNamesL_cons (a : Term) (as : List Term) : termNamesL (a :: as) = termNames a ++ termNamesL as := by
  rw [termNamesL]

section names
variable {S : String → Prop}

theorem namesInL_nil : NamesInL S [] := by intro n hn; simp [termNamesL_nil] at hn
theorem namesInL_cons {a : Term} {as : List Term} : NamesInL S (a :: as) ↔ NamesIn S a ∧ NamesInL S as := by
  unfold NamesInL NamesIn
  simp only [termNamesL_cons, List.mem_append]
  constructor
  · intro h; exact ⟨fun n hn => h n (Or.inl hn), fun n hn => h n (Or.inr hn)⟩
  · rintro ⟨h1, h2⟩ n (hn | hn)
    · exact h1 n hn
    · exact h2 n hn

theorem namesIn_value (l : Lit) : NamesIn S (.value l) := by intro n hn; simp [termNames] at hn
theorem namesIn_list (l : List Lit) : NamesIn S (.list l) := by intro n hn; simp [termNames] at hn
theorem namesIn_dict (l : List (Lit × Lit)) : NamesIn S (.dict l) := by intro n hn; simp [termNames] at hn

theorem namesIn_app {op : String} {args : List Term} {i m : Bool} (hop : i = false → S op) (ha : NamesInL S args) :
    NamesIn S (.app op args i m) := by
  intro n hn
  rw [termNames_app, List.mem_append] at hn
  rcases hn with hn | hn
  · cases i
    · simp only [Bool.false_eq_true, ↓reduceIte, List.mem_singleton] at hn
      subst hn; exact hop rfl
    · simp at hn
  · exact ha n hn

theorem mkExpr_names {env : Env} {op : String} {args : List Term} {i m : Bool} {t : Term}
    (h : mkExpr env op args i m = .ok t) (hop : i = false → S op) (ha : NamesInL S args) : NamesIn S t := by
  rw [mkExpr_ok h]; exact namesIn_app hop ha

theorem opExpr_names {env : Env} {op : String} {a b : Term} {i m c : Bool} {t : Term}
    (h : opExpr env op a b i m c = .ok t) (hop : i = false → S op) (ha : NamesIn S a) (hb : NamesIn S b) :
    NamesIn S t := by
  rw [opExpr_ok h]
  exact namesIn_app hop (namesInL_cons.mpr ⟨ha, namesInL_cons.mpr ⟨hb, namesInL_nil⟩⟩)

theorem shiftWith_names {env : Env} {self p t : Term} (h : shiftWith env self p = .ok t) (hop : S "shift")
    (ha : NamesIn S self) (hb : NamesIn S p) : NamesIn S t := by
  rw [shiftWith_ok h]
  exact namesIn_app (fun _ => hop) (namesInL_cons.mpr ⟨ha, namesInL_cons.mpr ⟨hb, namesInL_nil⟩⟩)

theorem mapvWith_names {env : Env} {self m d t : Term} (h : mapvWith env self m d = .ok t) (hop : S "mapv")
    (ha : NamesIn S self) (hb : NamesIn S m) (hd : NamesIn S d) : NamesIn S t := by
  rw [mapvWith_ok h]
  exact namesIn_app (fun _ => hop)
    (namesInL_cons.mpr ⟨ha, namesInL_cons.mpr ⟨hb, namesInL_cons.mpr ⟨hd, namesInL_nil⟩⟩⟩)

theorem kind_tableNames {env : Env} {name : String} {k : MethodKind} (hl : env.methods.lookup name = some k)
    {n : String} (hn : n ∈ kindNames k) : n ∈ tableNames env := by
  unfold tableNames
  rw [List.mem_flatMap]
  exact ⟨(name, k), lookup_mem _ _ _ hl, hn⟩

/-- calling a builder of the table: the operator of the new node is an operator name of the table -/
theorem applyBuilder_names {env : Env} (hT : ∀ n ∈ tableNames env, S n) {name : String} {k : MethodKind}
    (hl : env.methods.lookup name = some k) {self : Term} {args : List Term} {t : Term}
    (h : applyBound env (.builder k) self args = .ok t) (hs : NamesIn S self) (ha : NamesInL S args) :
    NamesIn S t := by
  have hk : ∀ n ∈ kindNames k, S n := fun n hn => hT n (kind_tableNames hl hn)
  cases k with
  | uop op inline =>
    match args, h with
    | [], h =>
      simp only [applyBound] at h
      rw [uopExpr_ok h]
      exact namesIn_app (fun hi => hk op (by simp [kindNames, hi])) (namesInL_cons.mpr ⟨hs, namesInL_nil⟩)
    | _ :: _, h => simp [applyBound] at h
  | bin op i m c =>
    match args, h, ha with
    | [o], h, ha =>
      simp only [applyBound] at h
      exact opExpr_names h (fun hi => hk op (by simp [kindNames, hi])) hs (namesInL_cons.mp ha).1
    | [], h, _ => simp [applyBound] at h
    | _ :: _ :: _, h, _ => simp [applyBound] at h
  | rbin op =>
    match args, h, ha with
    | [o], h, ha =>
      simp only [applyBound] at h
      rw [ropExpr_ok h]
      exact namesIn_app (fun hf => by simp at hf)
        (namesInL_cons.mpr ⟨(namesInL_cons.mp ha).1, namesInL_cons.mpr ⟨hs, namesInL_nil⟩⟩)
    | [], h, _ => simp [applyBound] at h
    | _ :: _ :: _, h, _ => simp [applyBound] at h
  | tri op i m =>
    match args, h, ha with
    | [x, y], h, ha =>
      simp only [applyBound] at h
      rw [triopExpr_ok h]
      have h2 := namesInL_cons.mp ha
      exact namesIn_app (fun hi => hk op (by simp [kindNames, hi]))
        (namesInL_cons.mpr ⟨hs, namesInL_cons.mpr ⟨h2.1, h2.2⟩⟩)
    | [], h, _ => simp [applyBound] at h
    | [_], h, _ => simp [applyBound] at h
    | _ :: _ :: _ :: _, h, _ => simp [applyBound] at h
  | special nm =>
    have hnm : S nm := hk nm (by simp [kindNames])
    simp only [applyBound] at h
    unfold applySpecial at h
    split at h
    · injection h with h; subst h; exact hs
    · exact shiftWith_names h hnm hs (namesIn_value _)
    · exact shiftWith_names h hnm hs (namesInL_cons.mp ha).1
    · split at h
      · contradiction
      · exact opExpr_names h (fun _ => hnm) hs (namesInL_cons.mp ha).1
    · exact mapvWith_names h hnm hs (namesInL_cons.mp ha).1 (namesIn_value _)
    · have h2 := namesInL_cons.mp ha
      exact mapvWith_names h hnm hs h2.1 (namesInL_cons.mp h2.2).1
    · split at h
      · contradiction
      · rw [triopExpr_ok h]
        have h2 := namesInL_cons.mp ha
        exact namesIn_app (fun _ => hnm) (namesInL_cons.mpr ⟨hs, namesInL_cons.mpr ⟨h2.1, h2.2⟩⟩)
    · split at h
      · rename_i op i m c hlc
        exact opExpr_names h (fun hi => hT op (kind_tableNames hlc (by simp [kindNames, hi]))) hs (namesIn_value _)
      · contradiction
    · exact opExpr_names h (fun _ => hnm) hs (namesIn_value _)
    · split at h
      · contradiction
      · exact opExpr_names h (fun _ => hnm) hs (namesInL_cons.mp ha).1
    · exact opExpr_names h (fun _ => hnm) hs (namesIn_value _)
    · split at h
      · contradiction
      · exact opExpr_names h (fun _ => hnm) hs (namesInL_cons.mp ha).1
    · exact opExpr_names h (fun _ => hnm) hs (namesIn_value _)
    · exact opExpr_names h (fun _ => hnm) hs (namesInL_cons.mp ha).1
    · exact opExpr_names h (fun _ => hnm) hs (namesIn_value _)
    · exact opExpr_names h (fun _ => hnm) hs (namesInL_cons.mp ha).1
    · split at h <;> contradiction
  | unmodelled => simp [applyBound] at h

theorem applyBound_names {env : Env} (hT : ∀ n ∈ tableNames env, S n) {recv : Term} {name : String} {b : Bound}
    (hg : getMethod env recv name = .ok b) {args : List Term} {t : Term}
    (h : applyBound env b recv args = .ok t) (hs : NamesIn S recv) (ha : NamesInL S args) : NamesIn S t := by
  obtain ⟨_, hb | ⟨k, hl, hb⟩⟩ := getMethod_cases hg
  · obtain ⟨rfl, _, hval⟩ := hb
    cases recv with
    | value l =>
      cases args with
      | nil =>
        simp only [applyBound] at h
        cases hn : negLit l with
        | error e => simp [hn, Except.map] at h
        | ok l' =>
          simp only [hn, Except.map] at h
          injection h with h; subst h; exact namesIn_value _
      | cons _ _ => simp [applyBound] at h
    | col c => simp [isValue] at hval
    | list vs => simp [isValue] at hval
    | dict kvs => simp [isValue] at hval
    | app op args i m => simp [isValue] at hval
  · subst hb
    exact applyBuilder_names hT hl h hs ha

theorem callMethod_names {env : Env} (hT : ∀ n ∈ tableNames env, S n) {recv : Term} {name : String}
    {args : List Term} {t : Term} (h : callMethod env recv name args = .ok t) (hs : NamesIn S recv)
    (ha : NamesInL S args) : NamesIn S t := by
  obtain ⟨b, hg, hab⟩ := callMethod_split h
  exact applyBound_names hT hg hab hs ha

theorem chain_names {env : Env} (hT : ∀ n ∈ tableNames env, S n) : ∀ (ops : List String) (ts comps : List Term),
    NamesInL S ts → chainComparisons env ts ops = .ok comps → NamesInL S comps
  | [], ts, comps, _, h => by
    have : comps = [] := by
      unfold chainComparisons at h
      split at h
      · contradiction
      · injection h with h; exact h.symm
    subst this; exact namesInL_nil
  | o :: os, ts, comps, hts, h => by
    match ts, hts, h with
    | [], _, h => simp only [chainComparisons] at h; injection h with h; subst h; exact namesInL_nil
    | [_], _, h => simp only [chainComparisons] at h; injection h with h; subst h; exact namesInL_nil
    | a :: b :: rest, hts, h =>
      simp only [chainComparisons] at h
      cases hcall : callMethod env a (remap env.opRemap o) [b] with
      | error e => simp [hcall] at h
      | ok c =>
        cases hr : chainComparisons env (b :: rest) os with
        | error e => simp [hcall, hr] at h
        | ok cs =>
          simp only [hcall, hr, ok_bind, pure, Except.pure] at h
          injection h with h
          subst h
          have h1 := namesInL_cons.mp hts
          have h2 := namesInL_cons.mp h1.2
          exact namesInL_cons.mpr ⟨callMethod_names hT hcall h1.1 (namesInL_cons.mpr ⟨h2.1, namesInL_nil⟩),
            chain_names hT os (b :: rest) cs h1.2 hr⟩

theorem powFold_names {env : Env} (hT : ∀ n ∈ tableNames env, S n) : ∀ (rest : List Term) (s t : Term),
    NamesIn S s → NamesInL S rest →
    rest.foldlM (fun res x => callMethod env res "__pow__" [x]) s = .ok t → NamesIn S t
  | [], s, t, hs, _, h => by
    simp only [List.foldlM, pure, Except.pure] at h
    injection h with h; subst h; exact hs
  | x :: rest, s, t, hs, hr, h => by
    simp only [List.foldlM] at h
    cases hc : callMethod env s "__pow__" [x] with
    | error e => simp [hc] at h
    | ok r =>
      simp only [hc, ok_bind] at h
      have h2 := namesInL_cons.mp hr
      exact powFold_names hT rest r t (callMethod_names hT hc hs (namesInL_cons.mpr ⟨h2.1, namesInL_nil⟩)) h2.2 h

theorem mkDict_isDict {parts : List Term} {t : Term} (h : mkDict parts = .ok t) : ∃ kvs, t = .dict kvs := by
  unfold mkDict at h
  cases hm : parts.mapM dictEntries with
  | error e => simp [hm] at h
  | ok kvss =>
    simp only [hm, ok_bind] at h
    split at h; · contradiction
    split at h; · contradiction
    split at h; · contradiction
    injection h with h
    exact ⟨_, h.symm⟩

/-! ## guard `CalleeIsName`, unfolded -/

theorem calleeIsName_node (r : String) (ch : List Cst) :
    calleeIsName (.node r ch) = (calleeNodeOk r ch && allPL calleeNodeOk (fun _ => true) ch) := by
  unfold calleeIsName; rw [allP]

def calleeIsNameL (cs : List Cst) : Bool := allPL calleeNodeOk (fun _ => true) cs
theorem calleeIsNameL_cons (c : Cst) (cs : List Cst) :
    calleeIsNameL (c :: cs) = (calleeIsName c && calleeIsNameL cs) := by
  unfold calleeIsName calleeIsNameL; rw [allPL]

theorem cstNames_node (r : String) (ch : List Cst) : cstNames (.node r ch) = cstNamesL ch := by rw [cstNames]
theorem cstNamesL_cons (c : Cst) (cs : List Cst) : cstNamesL (c :: cs) = cstNames c ++ cstNamesL cs := by
  rw [cstNamesL]

/-- the names of a list of trees are in `S` -/
def CNamesL (S : String → Prop) (cs : List Cst) : Prop := ∀ n ∈ cstNamesL cs, S n
def CNames (S : String → Prop) (c : Cst) : Prop := ∀ n ∈ cstNames c, S n

theorem cnamesL_cons {c : Cst} {cs : List Cst} : CNamesL S (c :: cs) ↔ CNames S c ∧ CNamesL S cs := by
  unfold CNamesL CNames
  simp only [cstNamesL_cons, List.mem_append]
  constructor
  · intro h; exact ⟨fun n hn => h n (Or.inl hn), fun n hn => h n (Or.inr hn)⟩
  · rintro ⟨h1, h2⟩ n (hn | hn)
    · exact h1 n hn
    · exact h2 n hn

theorem cnames_node {r : String} {ch : List Cst} : CNames S (.node r ch) ↔ CNamesL S ch := by
  unfold CNames CNamesL; rw [cstNames_node]

theorem walkTok_names {env : Env} {tk : Token} {t : Term} (h : walkTok env tk = .ok t) (hc : CNames S (.tok tk)) :
    NamesIn S t := by
  unfold walkTok at h
  cases hk : tk.kind <;> simp only [hk] at h
  case name =>
    split at h
    · injection h with h; subst h
      intro n hn
      simp only [termNames, List.mem_singleton] at hn
      subst hn
      exact hc _ (by simp [cstNames, hk])
    · contradiction
  case dec => split at h <;> first | contradiction | (injection h with h; subst h; exact namesIn_value _)
  case float => split at h <;> first | contradiction | (injection h with h; subst h; exact namesIn_value _)
  case string => split at h <;> first | contradiction | (injection h with h; subst h; exact namesIn_value _)
  all_goals contradiction

/-! ## the induction over the tree (any tree: no shape hypothesis) -/

section main
set_option linter.unusedSectionVars false
variable {env : Env} (hT : ∀ n ∈ tableNames env, S n)
include hT

mutual
theorem walk_names : ∀ (c : Cst) (t : Term), calleeIsName c = true → CNames S c → walk env c = .ok t → NamesIn S t
  | .tok tk, t, _, hc, hw => by unfold walk at hw; exact walkTok_names hw hc
  | .none, t, _, _, hw => by unfold walk at hw; contradiction
  | .node rule ch, t, hG, hc, hw => by
    rw [calleeIsName_node, Bool.and_eq_true] at hG
    rw [cnames_node] at hc
    unfold walk at hw
    cases hk : classify rule <;> simp only [hk] at hw
    case constTrue => cases hw; exact namesIn_value _
    case constFalse => cases hw; exact namesIn_value _
    case constNone => cases hw; exact namesIn_value _
    case wrapper =>
      cases ch with
      | nil => simp at hw
      | cons c tail =>
        simp only at hw
        have hG2 := hG.2
        rw [allPL, Bool.and_eq_true] at hG2
        exact walk_names c t hG2.1 (cnamesL_cons.mp hc).1 hw
    case arith => exact walkLevel_names .arith ch t hG.2 hc hw
    case term => exact walkLevel_names .term ch t hG.2 hc hw
    case comparison => exact walkLevel_names .comparison ch t hG.2 hc hw
    case bitwise => contradiction
    case other => contradiction
    case power =>
      split at hw
      · contradiction
      · cases hwa : walkAll env ch with
        | error e => simp [hwa] at hw
        | ok subs =>
          simp only [hwa, ok_bind] at hw
          have hsub := walkAll_names ch subs hG.2 hc hwa
          match subs, hsub, hw with
          | s :: rest, hsub, hw =>
            simp only at hw
            have h2 := namesInL_cons.mp hsub
            exact powFold_names hT rest s t h2.1 h2.2 hw
    case factor =>
      cases ch with
      | nil => simp at hw
      | cons o r1 =>
      cases r1 with
      | nil => simp at hw
      | cons c r2 =>
      cases r2 with
      | cons _ _ => simp at hw
      | nil =>
        simp only at hw
        cases ho : opText o with
        | none => simp [ho] at hw
        | some s =>
          simp only [ho] at hw
          cases hx : walk env c with
          | error e => simp [hx] at hw
          | ok right =>
            simp only [hx, ok_bind] at hw
            have hG2 := hG.2
            rw [allPL, Bool.and_eq_true, allPL, Bool.and_eq_true] at hG2
            exact callMethod_names hT hw (walk_names c right hG2.2.1 (cnamesL_cons.mp (cnamesL_cons.mp hc).2).1 hx)
              namesInL_nil
    case not =>
      cases ch with
      | nil => simp at hw
      | cons x r1 =>
      cases r1 with
      | cons _ _ => simp at hw
      | nil =>
        simp only at hw
        cases hx : walk env x with
        | error e => simp [hx] at hw
        | ok left =>
          simp only [hx, ok_bind] at hw
          have hG2 := hG.2
          rw [allPL, Bool.and_eq_true] at hG2
          exact callMethod_names hT hw (walk_names x left hG2.1 (cnamesL_cons.mp hc).1 hx)
            (namesInL_cons.mpr ⟨namesIn_value _, namesInL_nil⟩)
    case orTest =>
      split at hw
      · contradiction
      · cases hwa : walkAll env ch with
        | error e => simp [hwa] at hw
        | ok children =>
          simp only [hwa, ok_bind] at hw
          exact mkExpr_names hw (fun hf => by simp at hf) (walkAll_names ch children hG.2 hc hwa)
    case andTest =>
      split at hw
      · contradiction
      · cases hwa : walkAll env ch with
        | error e => simp [hwa] at hw
        | ok children =>
          simp only [hwa, ok_bind] at hw
          exact mkExpr_names hw (fun hf => by simp at hf) (walkAll_names ch children hG.2 hc hwa)
    case funccall =>
      have hrule := classify_funccall_inv hk
      subst hrule
      cases ch with
      | nil => simp at hw
      | cons carrier more =>
        simp only [gt_iff_lt] at hw
        split at hw
        · contradiction
        obtain ⟨hcn, hGL⟩ := hG
        rw [allPL, Bool.and_eq_true] at hGL
        have hcc := cnamesL_cons.mp hc
        -- the arguments
        have hargs : ∀ args, walkArgs env more = .ok args → NamesInL S args := by
          intro args ha
          have h1 := hGL.2
          have h2 := hcc.2
          cases more with
          | nil => simp only [walkArgs] at ha; injection ha with ha; subst ha; exact namesInL_nil
          | cons m ms =>
          cases ms with
          | cons _ _ => simp only [walkArgs] at ha; injection ha with ha; subst ha; exact namesInL_nil
          | nil =>
          cases m with
          | tok _ => simp [walkArgs] at ha
          | none => simp only [walkArgs] at ha; injection ha with ha; subst ha; exact namesInL_nil
          | node r a =>
            simp only [walkArgs] at ha
            rw [allPL, Bool.and_eq_true] at h1
            have h3 := h1.1
            rw [allP, Bool.and_eq_true] at h3
            exact walkAll_names a args h3.2 (cnames_node.mp (cnamesL_cons.mp h2).1) ha
        cases carrier with
        | tok _ => simp [calleeNodeOk] at hcn
        | none => simp [calleeNodeOk] at hcn
        | node crule cch =>
          simp only at hw
          by_cases hga : (crule == "getattr") = true
          · simp only [hga, ↓reduceIte] at hw
            split at hw
            · rename_i recv nm
              cases hwr : walk env recv with
              | error e => simp [hwr] at hw
              | ok var =>
                simp only [hwr, ok_bind] at hw
                split at hw
                · cases hwa : walkArgs env more with
                  | error e => simp [hwa] at hw
                  | ok args =>
                    simp only [hwa, ok_bind] at hw
                    have h1 := hGL.1
                    rw [allP, Bool.and_eq_true, allPL, Bool.and_eq_true] at h1
                    have hcr := cnamesL_cons.mp (cnames_node.mp hcc.1)
                    exact callMethod_names hT hw (walk_names recv var h1.2.1 hcr.1 hwr) (hargs args hwa)
                · contradiction
            · contradiction
          · have hga' : (crule == "getattr") = false := by simpa using hga
            simp only [hga', Bool.false_eq_true, ↓reduceIte] at hw
            simp only [calleeNodeOk, beq_self_eq_true, Bool.not_true, Bool.false_or, hga', Bool.and_eq_true,
              beq_iff_eq] at hcn
            split at hw
            · contradiction
            · rename_i tk rest
              cases hwa : walkArgs env more with
              | error e => simp [hwa] at hw
              | ok args =>
                simp only [hwa, ok_bind] at hw
                have hkind : tk.kind = .name := by simpa using hcn.2
                refine mkExpr_names hw (fun _ => ?_) (hargs args hwa)
                have hcr := cnamesL_cons.mp (cnames_node.mp hcc.1)
                exact hcr.1 _ (by simp [cstNames, hkind])
            · cases hwa : walkArgs env more with
              | error e => simp [hwa] at hw
              | ok args => simp [hwa] at hw
    case collection =>
      match ch, hw with
      | [.node r2 items], hw =>
        simp only at hw
        split at hw
        · cases hwa : walkAll env items with
          | error e => simp [hwa] at hw
          | ok vs =>
            simp only [hwa, ok_bind] at hw
            obtain ⟨lits, rfl, _⟩ := mkList_ok hw
            exact namesIn_list _
        · cases hc' : walk env (.node r2 items) with
          | error e => simp [hc'] at hw
          | ok v =>
            simp only [hc', ok_bind] at hw
            obtain ⟨lits, rfl, _⟩ := mkList_ok hw
            exact namesIn_list _
      | [.tok tk], hw =>
        simp only at hw
        cases hc' : walk env (.tok tk) with
        | error e => simp [hc'] at hw
        | ok v =>
          simp only [hc', ok_bind] at hw
          obtain ⟨lits, rfl, _⟩ := mkList_ok hw
          exact namesIn_list _
      | [.none], hw =>
        simp only at hw
        cases hc' : walk env .none with
        | error e => simp [hc'] at hw
        | ok v =>
          simp only [hc', ok_bind] at hw
          obtain ⟨lits, rfl, _⟩ := mkList_ok hw
          exact namesIn_list _
    case dict =>
      split at hw
      · rename_i r items
        cases hwa : walkAll env items with
        | error e => simp [hwa] at hw
        | ok parts =>
          simp only [hwa, ok_bind] at hw
          obtain ⟨kvs, rfl⟩ := mkDict_isDict hw
          exact namesIn_dict _
      · contradiction
      · contradiction
    case keyValue =>
      match ch, hw with
      | [k, v], hw =>
        simp only at hw
        cases hwk : walk env k with
        | error e => simp [hwk] at hw
        | ok kt =>
          cases hwv : walk env v with
          | error e => simp [hwk, hwv] at hw
          | ok vt =>
            simp only [hwk, hwv, ok_bind] at hw
            obtain ⟨a, b, _, _, rfl⟩ := mkKeyValue_ok hw
            exact namesIn_dict _
termination_by c => sizeOf c
theorem walkLevel_names : ∀ (kind : RuleKind) (ch : List Cst) (t : Term), calleeIsNameL ch = true → CNamesL S ch →
    walkLevel env kind ch = .ok t → NamesIn S t
  | kind, [], t, _, _, hw => by unfold walkLevel at hw; contradiction
  | kind, c :: rest, t, hG, hc, hw => by
    unfold walkLevel at hw
    split at hw
    · contradiction
    cases hops : opTexts rest with
    | none => simp [hops] at hw
    | some ops =>
    simp only [hops] at hw
    rw [calleeIsNameL_cons, Bool.and_eq_true] at hG
    have hcc := cnamesL_cons.mp hc
    cases hm : levelMode kind ops with
    | kary op =>
      simp only [hm] at hw
      cases hwc : walk env c with
      | error e => simp [hwc] at hw
      | ok first =>
      cases hwo : walkOdd env rest with
      | error e => simp [hwc, hwo] at hw
      | ok others =>
      simp only [hwc, hwo, ok_bind] at hw
      exact mkExpr_names hw (fun hf => by simp at hf)
        (namesInL_cons.mpr ⟨walk_names c first hG.1 hcc.1 hwc, walkOdd_names rest others hG.2 hcc.2 hwo⟩)
    | cmpChain =>
      simp only [hm] at hw
      cases hwc : walk env c with
      | error e => simp [hwc] at hw
      | ok first =>
      cases hwo : walkOdd env rest with
      | error e => simp [hwc, hwo] at hw
      | ok others =>
      simp only [hwc, hwo, ok_bind] at hw
      cases hcc' : chainComparisons env (first :: others) ops with
      | error e => simp [hcc'] at hw
      | ok comps =>
      simp only [hcc', ok_bind] at hw
      exact mkExpr_names hw (fun hf => by simp at hf) (chain_names hT ops _ comps
        (namesInL_cons.mpr ⟨walk_names c first hG.1 hcc.1 hwc, walkOdd_names rest others hG.2 hcc.2 hwo⟩) hcc')
    | linear =>
      simp only [hm] at hw
      cases hwc : walk env c with
      | error e => simp [hwc] at hw
      | ok res =>
        simp only [hwc, ok_bind] at hw
        exact walkChain_names rest res t hG.2 hcc.2 (walk_names c res hG.1 hcc.1 hwc) hw
termination_by _ ch => sizeOf ch
theorem walkChain_names : ∀ (rest : List Cst) (res t : Term), calleeIsNameL rest = true → CNamesL S rest →
    NamesIn S res → walkChain env res rest = .ok t → NamesIn S t
  | [], res, t, _, _, hr, hw => by unfold walkChain at hw; cases hw; exact hr
  | [_], res, t, _, _, hr, hw => by unfold walkChain at hw; cases hw; exact hr
  | o :: c :: rest, res, t, hG, hc, hr, hw => by
    unfold walkChain at hw
    rw [calleeIsNameL_cons, Bool.and_eq_true, calleeIsNameL_cons, Bool.and_eq_true] at hG
    have hcc := cnamesL_cons.mp (cnamesL_cons.mp hc).2
    cases ho : opText o with
    | none => simp [ho] at hw
    | some s =>
    simp only [ho] at hw
    cases hg : getMethod env res (remap env.opRemap s) with
    | error e => simp [hg] at hw
    | ok b =>
    cases hwc : walk env c with
    | error e => simp [hg, hwc] at hw
    | ok arg =>
    cases hab : applyBound env b res [arg] with
    | error e => simp [hg, hwc, hab] at hw
    | ok res' =>
    simp only [hg, hwc, hab, ok_bind] at hw
    have ha := walk_names c arg hG.2.1 hcc.1 hwc
    exact walkChain_names rest res' t hG.2.2 hcc.2
      (applyBound_names hT hg hab hr (namesInL_cons.mpr ⟨ha, namesInL_nil⟩)) hw
termination_by rest => sizeOf rest
theorem walkAll_names : ∀ (cs : List Cst) (ts : List Term), calleeIsNameL cs = true → CNamesL S cs →
    walkAll env cs = .ok ts → NamesInL S ts
  | [], ts, _, _, hw => by unfold walkAll at hw; cases hw; exact namesInL_nil
  | c :: cs, ts, hG, hc, hw => by
    unfold walkAll at hw
    rw [calleeIsNameL_cons, Bool.and_eq_true] at hG
    have hcc := cnamesL_cons.mp hc
    cases hwc : walk env c with
    | error e => simp [hwc] at hw
    | ok t =>
    cases hwr : walkAll env cs with
    | error e => simp [hwc, hwr] at hw
    | ok ts' =>
    simp only [hwc, hwr, ok_bind, pure, Except.pure] at hw
    cases hw
    exact namesInL_cons.mpr ⟨walk_names c t hG.1 hcc.1 hwc, walkAll_names cs ts' hG.2 hcc.2 hwr⟩
termination_by cs => sizeOf cs
theorem walkOdd_names : ∀ (cs : List Cst) (ts : List Term), calleeIsNameL cs = true → CNamesL S cs →
    walkOdd env cs = .ok ts → NamesInL S ts
  | [], ts, _, _, hw => by unfold walkOdd at hw; cases hw; exact namesInL_nil
  | [_], ts, _, _, hw => by unfold walkOdd at hw; cases hw; exact namesInL_nil
  | o :: c :: cs, ts, hG, hc, hw => by
    unfold walkOdd at hw
    rw [calleeIsNameL_cons, Bool.and_eq_true, calleeIsNameL_cons, Bool.and_eq_true] at hG
    have hcc := cnamesL_cons.mp (cnamesL_cons.mp hc).2
    cases hwc : walk env c with
    | error e => simp [hwc] at hw
    | ok t =>
    cases hwr : walkOdd env cs with
    | error e => simp [hwc, hwr] at hw
    | ok ts' =>
    simp only [hwc, hwr, ok_bind, pure, Except.pure] at hw
    cases hw
    exact namesInL_cons.mpr ⟨walk_names c t hG.2.1 hcc.1 hwc, walkOdd_names cs ts' hG.2.2 hcc.2 hwr⟩
termination_by cs => sizeOf cs
end

end main
end names

end DAVerif.C13W
