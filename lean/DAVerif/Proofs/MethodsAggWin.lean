import DAVerif.Proofs.MethodsAggOrder
/-!
C05, window functions `first last ffill bfill rank` of the Pandas model (`ThetaX.win` = `Theta.win`) against
`Doc.docWin` (the catalogue claims none of them for SQLite), and the group aggregates used as window functions
(every row of the partition gets the aggregate of the partition).
-/
namespace DAVerif.C05A
open DAVerif DAVerif.Doc DAVerif.C05

/-! ### first / last -/

/-- "Return first (vectorized)."  The documentation determines the value when the first item of the window is not
missing (then: that item); the Pandas executor returns the first non-missing item. -/
theorem pandas_first (cargs vs : List Val) (pos : Nat) (v : Val) (h : docWin "first" cargs vs pos = some v) :
    ThetaX.win "first" cargs vs pos = v := by
  have hd : docWin "first" cargs vs pos =
      (match vs.head? with | some x => if x != .null then some x else none | none => none) := rfl
  rw [hd] at h
  show (Theta.nonNull vs).headD .null = v
  cases vs with
  | nil => simp at h
  | cons x r =>
    simp only [List.head?_cons] at h
    by_cases hx : (x != Val.null) = true
    · rw [if_pos hx] at h
      have := Option.some.inj h
      subst this
      cases x with
      | null => simp at hx
      | bool b => rfl
      | num q => rfl
      | str s => rfl
    · rw [if_neg hx] at h; simp at h

theorem pandas_last (cargs vs : List Val) (pos : Nat) (v : Val) (h : docWin "last" cargs vs pos = some v) :
    ThetaX.win "last" cargs vs pos = v := by
  have hd : docWin "last" cargs vs pos =
      (match vs.getLast? with | some x => if x != .null then some x else none | none => none) := rfl
  rw [hd] at h
  show (Theta.nonNull vs).getLastD .null = v
  cases hl : vs.getLast? with
  | none => rw [hl] at h; simp at h
  | some x =>
    rw [hl] at h
    simp only at h
    by_cases hx : (x != Val.null) = true
    · rw [if_pos hx] at h
      have := Option.some.inj h
      subst this
      obtain ⟨ys, rfl⟩ := List.getLast?_eq_some_iff.mp hl
      have hxn : (!x.isNull) = true := by cases x <;> simp [Val.isNull] at hx ⊢
      unfold Theta.nonNull
      rw [List.filter_append, List.getLastD_eq_getLast?]
      simp [hxn]
    · rw [if_neg hx] at h; simp at h

/-! ### ffill / bfill -/

/-- "Return vector with missing vallues filled (vectorized)."  ffill: the last non-missing item up to the current row -/
theorem pandas_ffill (cargs vs : List Val) (pos : Nat) (v : Val) (h : docWin "ffill" cargs vs pos = some v) :
    ThetaX.win "ffill" cargs vs pos = v := by
  have hd : docWin "ffill" cargs vs pos =
      (if pos < vs.length then some (((Doc.nonNull (vs.take (pos + 1))).getLast?).getD .null) else none) := rfl
  rw [hd] at h
  show ((Theta.nonNull (vs.take (pos + 1))).getLast?).getD .null = v
  rw [nonNull_eq]
  by_cases hp : pos < vs.length
  · rw [if_pos hp] at h; exact Option.some.inj h
  · rw [if_neg hp] at h; simp at h

theorem pandas_bfill (cargs vs : List Val) (pos : Nat) (v : Val) (h : docWin "bfill" cargs vs pos = some v) :
    ThetaX.win "bfill" cargs vs pos = v := by
  have hd : docWin "bfill" cargs vs pos =
      (if pos < vs.length then some (((Doc.nonNull (vs.drop pos)).head?).getD .null) else none) := rfl
  rw [hd] at h
  show ((Theta.nonNull (vs.drop pos)).head?).getD .null = v
  rw [nonNull_eq]
  by_cases hp : pos < vs.length
  · rw [if_pos hp] at h; exact Option.some.inj h
  · rw [if_neg hp] at h; simp at h

/-! #### what the documented fill *is*, read independently of `nonNull … getLast?` -/

/-- ffill: the item at the nearest row `j ≤ pos` that is not missing -/
theorem docFfill_spec (cargs vs : List Val) (pos j : Nat) (hp : pos < vs.length) (hj : j ≤ pos)
    (hnn : vs.getD j .null ≠ .null) (hgap : ∀ k, j < k → k ≤ pos → vs.getD k .null = .null) :
    docWin "ffill" cargs vs pos = some (vs.getD j .null) := by
  show (if pos < vs.length then some (((Doc.nonNull (vs.take (pos + 1))).getLast?).getD .null) else none) = _
  rw [if_pos hp]
  congr 1
  -- split the prefix at j
  have hsplit : vs.take (pos + 1) = vs.take j ++ vs.getD j .null :: (vs.take (pos + 1)).drop (j + 1) := by
    have hjl : j < (vs.take (pos + 1)).length := by simp [List.length_take]; omega
    have h1 : vs.take (pos + 1) = (vs.take (pos + 1)).take j ++ (vs.take (pos + 1))[j] :: (vs.take (pos + 1)).drop (j + 1) := by
      rw [List.getElem_cons_drop, List.take_append_drop]
    have h2 : (vs.take (pos + 1)).take j = vs.take j := by
      rw [List.take_take]; congr 1; omega
    have h3 : (vs.take (pos + 1))[j] = vs.getD j .null := by
      have hjv : j < vs.length := by omega
      rw [List.getElem_take, List.getD_eq_getElem?_getD, List.getElem?_eq_getElem hjv]; rfl
    rw [h2, h3] at h1; exact h1
  have htail : Doc.nonNull ((vs.take (pos + 1)).drop (j + 1)) = [] := by
    unfold Doc.nonNull
    rw [List.filter_eq_nil_iff]
    intro a ha
    obtain ⟨i, hi, rfl⟩ := List.mem_iff_getElem.mp ha
    simp only [List.length_drop, List.length_take] at hi
    have hk := hgap (j + 1 + i) (by omega) (by omega)
    have : ((vs.take (pos + 1)).drop (j + 1))[i] = vs.getD (j + 1 + i) .null := by
      have hlt : j + 1 + i < vs.length := by omega
      rw [List.getElem_drop, List.getElem_take, List.getD_eq_getElem?_getD, List.getElem?_eq_getElem hlt]; rfl
    rw [this, hk]; simp
  rw [hsplit]
  unfold Doc.nonNull at htail ⊢
  rw [List.filter_append, List.filter_cons, if_pos (by simpa using hnn), htail]
  simp

/-- ffill: missing when every item up to the current row is missing -/
theorem docFfill_none (cargs vs : List Val) (pos : Nat) (hp : pos < vs.length)
    (hall : ∀ k, k ≤ pos → vs.getD k .null = .null) : docWin "ffill" cargs vs pos = some .null := by
  show (if pos < vs.length then some (((Doc.nonNull (vs.take (pos + 1))).getLast?).getD .null) else none) = _
  rw [if_pos hp]
  have : Doc.nonNull (vs.take (pos + 1)) = [] := by
    unfold Doc.nonNull
    rw [List.filter_eq_nil_iff]
    intro a ha
    obtain ⟨i, hi, rfl⟩ := List.mem_iff_getElem.mp ha
    simp only [List.length_take] at hi
    have hk := hall i (by omega)
    have hlt : i < vs.length := by omega
    rw [List.getElem_take]
    rw [List.getD_eq_getElem?_getD, List.getElem?_eq_getElem hlt] at hk
    simp only [Option.getD_some] at hk
    rw [hk]; simp
  rw [this]; rfl

/-- bfill: the item at the nearest row `j ≥ pos` that is not missing -/
theorem docBfill_spec (cargs vs : List Val) (pos j : Nat) (hj : pos ≤ j) (hjl : j < vs.length)
    (hnn : vs.getD j .null ≠ .null) (hgap : ∀ k, pos ≤ k → k < j → vs.getD k .null = .null) :
    docWin "bfill" cargs vs pos = some (vs.getD j .null) := by
  have hp : pos < vs.length := by omega
  show (if pos < vs.length then some (((Doc.nonNull (vs.drop pos)).head?).getD .null) else none) = _
  rw [if_pos hp]
  congr 1
  have hsplit : vs.drop pos = (vs.drop pos).take (j - pos) ++ vs.getD j .null :: vs.drop (j + 1) := by
    have hlen : j - pos < (vs.drop pos).length := by simp [List.length_drop]; omega
    have h1 : vs.drop pos = (vs.drop pos).take (j - pos) ++ (vs.drop pos)[j - pos] :: (vs.drop pos).drop (j - pos + 1) := by
      rw [List.getElem_cons_drop, List.take_append_drop]
    have h2 : (vs.drop pos)[j - pos] = vs.getD j .null := by
      rw [List.getElem_drop, List.getD_eq_getElem?_getD, List.getElem?_eq_getElem hjl]
      simp only [Option.getD_some]; congr 1; omega
    have h3 : (vs.drop pos).drop (j - pos + 1) = vs.drop (j + 1) := by
      rw [List.drop_drop]; congr 1; omega
    rw [h2, h3] at h1; exact h1
  have hhead : Doc.nonNull ((vs.drop pos).take (j - pos)) = [] := by
    unfold Doc.nonNull
    rw [List.filter_eq_nil_iff]
    intro a ha
    obtain ⟨i, hi, rfl⟩ := List.mem_iff_getElem.mp ha
    simp only [List.length_take, List.length_drop] at hi
    have hk := hgap (pos + i) (by omega) (by omega)
    have hlt : pos + i < vs.length := by omega
    rw [List.getD_eq_getElem?_getD, List.getElem?_eq_getElem hlt] at hk
    simp only [Option.getD_some] at hk
    rw [List.getElem_take, List.getElem_drop, hk]; simp
  rw [hsplit]
  unfold Doc.nonNull at hhead ⊢
  rw [List.filter_append, hhead, List.filter_cons, if_pos (by simpa using hnn)]
  simp

/-! ### rank -/

theorem beq_num (w q : Rat) : (Val.num w == Val.num q) = (w == q) := by
  by_cases hw : w = q
  · subst hw; rw [beq_self_eq_true, beq_self_eq_true]
  · rw [beq_eq_false_iff_ne.mpr hw, beq_eq_false_iff_ne.mpr (fun e => hw (Val.num.inj e))]

theorem getD_map_num (xs : List Rat) (pos : Nat) (hp : pos < xs.length) :
    (xs.map Val.num).getD pos .null = .num (xs.getD pos 0) := by
  rw [List.getD_eq_getElem?_getD, List.getD_eq_getElem?_getD, List.getElem?_map, List.getElem?_eq_getElem hp]
  rfl

theorem nonNull_map_num (xs : List Rat) : Theta.nonNull (xs.map Val.num) = xs.map Val.num := by
  unfold Theta.nonNull
  rw [List.filter_eq_self]
  intro a ha
  obtain ⟨q, _, rfl⟩ := List.mem_map.mp ha
  rfl

/-- "Return item rangings (vectorized)."  No tie rule is named: the documentation determines the rank when the items of
the window are pairwise different numbers (then: one plus the number of smaller items).  The Pandas executor computes
the *average* rank, which is that number when there is no tie. -/
theorem pandas_rank (cargs vs : List Val) (pos : Nat) (v : Val) (h : docWin "rank" cargs vs pos = some v) :
    ThetaX.win "rank" cargs vs pos = v := by
  have hd : docWin "rank" cargs vs pos =
      (if pos < vs.length then
        match nums? vs with
        | some xs => if xs.eraseDups.length = xs.length
                     then some (.num (((xs.filter (fun w => w < xs.getD pos 0)).length : Rat) + 1)) else none
        | none => none
      else none) := rfl
  rw [hd] at h
  show Theta.rankAvg vs pos = v
  by_cases hp : pos < vs.length
  · rw [if_pos hp] at h
    cases hn : nums? vs with
    | none => rw [hn] at h; simp at h
    | some xs =>
      rw [hn] at h
      simp only at h
      obtain ⟨_, hvs⟩ := nums_of_nums? hn
      by_cases hdup : xs.eraseDups.length = xs.length
      · rw [if_pos hdup] at h
        have := Option.some.inj h
        subst this
        have hnd : xs.Nodup := nodup_of_length_eraseDups xs hdup
        have hpx : pos < xs.length := by rw [hvs] at hp; simpa using hp
        subst hvs
        unfold Theta.rankAvg
        rw [getD_map_num xs pos hpx, nonNull_map_num]
        simp only
        -- the number of smaller items
        have hless : ((xs.map Val.num).filter (fun w => Val.lt w (Val.num (xs.getD pos 0)))).length
            = (xs.filter (fun w => w < xs.getD pos 0)).length := by
          rw [List.filter_map, List.length_map]
          congr 1
        -- exactly one item equals the current one
        have heq : ((xs.map Val.num).filter (fun w => w == Val.num (xs.getD pos 0))).length = 1 := by
          rw [List.filter_map, List.length_map]
          have : (xs.filter ((fun w => w == Val.num (xs.getD pos 0)) ∘ Val.num)) = xs.filter (fun w => w == xs.getD pos 0) := by
            congr 1; funext w
            exact beq_num w (xs.getD pos 0)
          rw [this, ← List.count_eq_length_filter, hnd.count]
          have hm : xs.getD pos 0 ∈ xs := by
            rw [List.getD_eq_getElem?_getD, List.getElem?_eq_getElem hpx]
            exact List.getElem_mem hpx
          rw [if_pos hm]
        rw [hless, heq]
        congr 1
        generalize ((xs.filter (fun w => w < xs.getD pos 0)).length : Rat) = l
        grind
      · rw [if_neg hdup] at h; simp at h
  · rw [if_neg hp] at h; simp at h

/-! ### group aggregates as window functions -/

/-- a name that is not one of the window-only functions is the aggregate of the whole partition on every row:
documentation and both backend models -/
theorem win_is_agg (op : String)
    (hop : op ∈ ["sum", "count", "size", "_size", "mean", "max", "min", "median", "var", "nunique", "all", "any", "any_value"])
    (cargs vs : List Val) (pos : Nat) :
    docWin op cargs vs pos = docAgg op vs ∧ ThetaX.win op cargs vs pos = ThetaX.agg op vs ∧
    ThetaSqlX.win op cargs vs pos = ThetaSqlX.agg op vs := by
  simp only [List.mem_cons, List.mem_nil_iff, or_false] at hop
  rcases hop with rfl | rfl | rfl | rfl | rfl | rfl | rfl | rfl | rfl | rfl | rfl | rfl | rfl <;> exact ⟨rfl, rfl, rfl⟩

end DAVerif.C05A
