import DAVerif.Proofs.C07Sem
/-!
C07, structural part: the scope / column conditions of a node from the pipeline-level hypotheses; evaluation
respects `≈ᶜ` of the environment's tables; the table descriptions of rebuilt pipelines.
-/
namespace DAVerif

variable {Θ : Interp} {cfg : SemCfg}

/-- the column conditions of a node of a valid pipeline hold for its first source's columns -/
theorem nodeColsOK_of_valid {p : Ops} (hv : p.valid = true) : NodeColsOK p p.srcA.cols := by
  have hn := Ops.valid_nodeOk hv
  cases p with
  | project s ops g =>
    simp only [Ops.nodeOk, Bool.and_eq_true, isOk_unit, projectChk, ok?_bind_eq_ok, ok?_eq_ok] at hn
    exact nodupB_iffC.mp hn.1.1.2.1
  | selectCols s cs =>
    simp only [Ops.nodeOk, isOk_unit, selectChk, ok?_bind_eq_ok, ok?_eq_ok] at hn
    exact ⟨nodupB_iffC.mp hn.2.2, subset_iffC.mp hn.2.1⟩
  | rename s m =>
    simp only [Ops.nodeOk, Bool.and_eq_true, isOk_unit, renameChk, ok?_bind_eq_ok, ok?_eq_ok] at hn
    exact nodupB_iffC.mp hn.2.2.2
  | mapCols s m ds =>
    simp only [Ops.nodeOk, Bool.and_eq_true, isOk_unit, mapNodeChk, ok?_bind_eq_ok, ok?_eq_ok] at hn
    exact nodupB_iffC.mp hn.2.2.2.2
  | concat a b idc an bn =>
    have := Ops.valid_cols_nodup hv
    rwa [cols_concat] at this
  | convert s rm =>
    simp only [Ops.nodeOk, isOk_unit, convertChk, ok?_bind_eq_ok, ok?_eq_ok] at hn
    exact nodupB_iffC.mp hn.2.2
  | _ => trivial

/-- C18's pipeline-level scope gives the scope of the top node on the result of its first source -/
theorem nodeScope_of_scope {env : Env} {p : Ops} (hA : AggsOrderFree Θ p) (hW : WindowsTotal Θ cfg env p) :
    ∀ t, sem Θ cfg env p.srcA = .ok t → NodeScope Θ p t.rows := by
  cases p with
  | extend s ops part od rv w => exact fun t ht hw => hW.2 hw t ht
  | project s ops g => exact fun _ _ => hA.2
  | order s cs rv lim =>
    intro t ht
    cases lim with
    | none => trivial
    | some n => exact hW.2 n rfl t ht
  | _ => exact fun _ _ => trivial

theorem scope_srcA {env : Env} {p : Ops} (hA : AggsOrderFree Θ p) (hW : WindowsTotal Θ cfg env p) :
    AggsOrderFree Θ p.srcA ∧ WindowsTotal Θ cfg env p.srcA := by
  cases p with
  | table n cs => exact ⟨hA, hW⟩
  | extend s ops part od rv w => exact ⟨hA, hW.1⟩
  | project s ops g => exact ⟨hA.1, hW⟩
  | order s cs rv lim => exact ⟨hA, hW.1⟩
  | join a b oa ob jt => exact ⟨hA.1, hW.1⟩
  | concat a b idc an bn => exact ⟨hA.1, hW.1⟩
  | selectRows s e => exact ⟨hA, hW⟩
  | selectCols s cs => exact ⟨hA, hW⟩
  | dropCols s ds => exact ⟨hA, hW⟩
  | rename s m => exact ⟨hA, hW⟩
  | mapCols s m ds => exact ⟨hA, hW⟩
  | convert s rm => exact ⟨hA, hW⟩

/-- two environments agree up to `≈ᶜ` on the table name `k` -/
def LookupC (env env' : Env) (k : String) : Prop :=
  (env.lookup k = none ∧ env'.lookup k = none) ∨
    ∃ t t', env.lookup k = some t ∧ env'.lookup k = some t' ∧ t ≈ᶜ t'

/-- **Evaluation respects `≈ᶜ` of the input tables** (C18's invariance, extended to column order): if the two
environments bind the tables of a valid pipeline to tables that agree up to row and column order, the results
agree up to row and column order (here: even with the same column order, as the pipeline is the same). -/
theorem sem_congrC (hΘ : ConvertOK Θ) (hC : ConvertInvariant Θ) {env env' : Env} (p : Ops) :
    p.valid = true → (∀ k ∈ p.tables.map (·.1), LookupC env env' k) → AggsOrderFree Θ p →
    WindowsTotal Θ cfg env p → ResEquivC (sem Θ cfg env p) (sem Θ cfg env' p) := by
  induction p with
  | table k cs =>
    intro hv hl _ _
    have hcs : cs.Nodup := nodupB_iffC.mp hv
    rcases hl k (by simp [Ops.tables]) with ⟨h1, h2⟩ | ⟨t, t', h1, h2, htt⟩
    · simp only [sem, h1, h2]; exact rfl
    · simp only [sem, h1, h2]
      have : subset cs t.cols = subset cs t'.cols := subset_congr_right (fun c => htt.mem_cols c)
      rw [← this]
      split
      · rename_i hs
        exact Table.EquivC.of_equiv (htt.selectCols (subset_iffC.mp hs)) (Table.wf_selectCols _ _) hcs
      · exact rfl
  | join a b oa ob jt iha ihb =>
    intro hv hl hA hW
    have hav : a.valid = true := by simp only [Ops.valid, Bool.and_eq_true] at hv; exact hv.1.2
    have hbv : b.valid = true := by simp only [Ops.valid, Bool.and_eq_true] at hv; exact hv.2
    have IHa := iha hav (fun k hk => hl k (by
      simp only [Ops.tables, List.map_append, List.mem_append]; exact Or.inl hk)) hA.1 hW.1
    have IHb := ihb hbv (fun k hk => hl k (by
      simp only [Ops.tables, List.map_append, List.mem_append]; exact Or.inr hk)) hA.2 hW.2
    rw [sem_eq_applyNode_binary Θ hΘ cfg env _ b rfl, sem_eq_applyNode_binary Θ hΘ cfg env' _ b rfl]
    apply ResEquivC.bind IHa
    intro ta ta' hta _ htta
    apply ResEquivC.bind IHb
    intro tb tb' _ _ httb
    exact applyNode_congrC Θ cfg hC _ htta httb trivial trivial
  | concat a b idc an bn iha ihb =>
    intro hv hl hA hW
    have hav : a.valid = true := by simp only [Ops.valid, Bool.and_eq_true] at hv; exact hv.1.2
    have hbv : b.valid = true := by simp only [Ops.valid, Bool.and_eq_true] at hv; exact hv.2
    have IHa := iha hav (fun k hk => hl k (by
      simp only [Ops.tables, List.map_append, List.mem_append]; exact Or.inl hk)) hA.1 hW.1
    have IHb := ihb hbv (fun k hk => hl k (by
      simp only [Ops.tables, List.map_append, List.mem_append]; exact Or.inr hk)) hA.2 hW.2
    rw [sem_eq_applyNode_binary Θ hΘ cfg env _ b rfl, sem_eq_applyNode_binary Θ hΘ cfg env' _ b rfl]
    apply ResEquivC.bind IHa
    intro ta ta' hta _ htta
    apply ResEquivC.bind IHb
    intro tb tb' _ _ httb
    have hc := nodeColsOK_of_valid hv
    have : ta.cols = a.cols := sem_cols hΘ hta
    exact applyNode_congrC Θ cfg hC _ htta httb trivial (this ▸ hc)
  | extend s ops part od rv w ih =>
    intro hv hl hA hW
    have IH := ih (Ops.valid_srcA (p := .extend s ops part od rv w) hv) hl hA hW.1
    rw [sem_eq_applyNode_unary Θ hΘ cfg env _ rfl (by intro _ _ h; cases h),
      sem_eq_applyNode_unary Θ hΘ cfg env' _ rfl (by intro _ _ h; cases h)]
    apply ResEquivC.bind IH
    intro t t' ht _ htt
    exact applyNode_congrC Θ cfg hC _ htt htt (fun hw => hW.2 hw t ht) trivial
  | project s ops g ih =>
    intro hv hl hA hW
    have IH := ih (Ops.valid_srcA (p := .project s ops g) hv) hl hA.1 hW
    rw [sem_eq_applyNode_unary Θ hΘ cfg env _ rfl (by intro _ _ h; cases h),
      sem_eq_applyNode_unary Θ hΘ cfg env' _ rfl (by intro _ _ h; cases h)]
    apply ResEquivC.bind IH
    intro t t' ht _ htt
    exact applyNode_congrC Θ cfg hC _ htt htt hA.2 (nodeColsOK_of_valid hv)
  | order s cs rv lim ih =>
    intro hv hl hA hW
    have IH := ih (Ops.valid_srcA (p := .order s cs rv lim) hv) hl hA hW.1
    rw [sem_eq_applyNode_unary Θ hΘ cfg env _ rfl (by intro _ _ h; cases h),
      sem_eq_applyNode_unary Θ hΘ cfg env' _ rfl (by intro _ _ h; cases h)]
    apply ResEquivC.bind IH
    intro t t' ht _ htt
    exact applyNode_congrC Θ cfg hC _ htt htt
      (nodeScope_of_scope (p := .order s cs rv lim) hA hW t ht) trivial
  | selectRows s e ih =>
    intro hv hl hA hW
    have IH := ih (Ops.valid_srcA (p := .selectRows s e) hv) hl hA hW
    rw [sem_eq_applyNode_unary Θ hΘ cfg env _ rfl (by intro _ _ h; cases h),
      sem_eq_applyNode_unary Θ hΘ cfg env' _ rfl (by intro _ _ h; cases h)]
    apply ResEquivC.bind IH
    intro t t' ht _ htt
    exact applyNode_congrC Θ cfg hC _ htt htt trivial trivial
  | selectCols s cs ih =>
    intro hv hl hA hW
    have IH := ih (Ops.valid_srcA (p := .selectCols s cs) hv) hl hA hW
    rw [sem_eq_applyNode_unary Θ hΘ cfg env _ rfl (by intro _ _ h; cases h),
      sem_eq_applyNode_unary Θ hΘ cfg env' _ rfl (by intro _ _ h; cases h)]
    apply ResEquivC.bind IH
    intro t t' ht _ htt
    have hc := nodeColsOK_of_valid hv
    have : t.cols = s.cols := sem_cols hΘ ht
    exact applyNode_congrC Θ cfg hC _ htt htt trivial (this ▸ hc)
  | dropCols s ds ih =>
    intro hv hl hA hW
    have IH := ih (Ops.valid_srcA (p := .dropCols s ds) hv) hl hA hW
    rw [sem_eq_applyNode_unary Θ hΘ cfg env _ rfl (by intro _ _ h; cases h),
      sem_eq_applyNode_unary Θ hΘ cfg env' _ rfl (by intro _ _ h; cases h)]
    apply ResEquivC.bind IH
    intro t t' ht _ htt
    exact applyNode_congrC Θ cfg hC _ htt htt trivial trivial
  | rename s m ih =>
    intro hv hl hA hW
    have IH := ih (Ops.valid_srcA (p := .rename s m) hv) hl hA hW
    rw [sem_eq_applyNode_unary Θ hΘ cfg env _ rfl (by intro _ _ h; cases h),
      sem_eq_applyNode_unary Θ hΘ cfg env' _ rfl (by intro _ _ h; cases h)]
    apply ResEquivC.bind IH
    intro t t' ht _ htt
    have hc := nodeColsOK_of_valid hv
    have : t.cols = s.cols := sem_cols hΘ ht
    exact applyNode_congrC Θ cfg hC _ htt htt trivial (this ▸ hc)
  | mapCols s m ds ih =>
    intro hv hl hA hW
    have IH := ih (Ops.valid_srcA (p := .mapCols s m ds) hv) hl hA hW
    rw [sem_eq_applyNode_unary Θ hΘ cfg env _ rfl (by intro _ _ h; cases h),
      sem_eq_applyNode_unary Θ hΘ cfg env' _ rfl (by intro _ _ h; cases h)]
    apply ResEquivC.bind IH
    intro t t' ht _ htt
    have hc := nodeColsOK_of_valid hv
    have : t.cols = s.cols := sem_cols hΘ ht
    exact applyNode_congrC Θ cfg hC _ htt htt trivial (this ▸ hc)
  | convert s rm ih =>
    intro hv hl hA hW
    have IH := ih (Ops.valid_srcA (p := .convert s rm) hv) hl hA hW
    rw [sem_eq_applyNode_unary Θ hΘ cfg env _ rfl (by intro _ _ h; cases h),
      sem_eq_applyNode_unary Θ hΘ cfg env' _ rfl (by intro _ _ h; cases h)]
    apply ResEquivC.bind IH
    intro t t' ht _ htt
    exact applyNode_congrC Θ cfg hC _ htt htt trivial (nodeColsOK_of_valid hv)

/-! ### the shape of one rebuilt node -/

/-! ### the declared columns of a node as a function of its sources' columns -/

/-- `column_names` of a node from the column names of its sources -/
def nodeCols (N : Ops) (ca cb : List String) : List String :=
  match N with
  | .table _ cs => cs
  | .extend _ ops _ _ _ _ => appendNew ca (ops.map (·.1))
  | .project _ ops g => appendNew g (ops.map (·.1))
  | .selectRows _ _ => ca
  | .selectCols _ cs => cs
  | .dropCols _ ds => ca.filter (fun c => !ds.contains c)
  | .order _ _ _ _ => ca
  | .rename _ m => ca.map (renameFn m)
  | .mapCols _ m ds => (ca.filter (fun c => !ds.contains c)).map (mapFn m)
  | .join _ _ _ _ _ => joinCols ca cb
  | .concat _ _ idc _ _ => concatCols ca idc
  | .convert _ rm => rm.produced

/-- the declared columns / table descriptions of an optional second source -/
def optCols : Option Ops → List String
  | some b => b.cols
  | none => []
def optTables : Option Ops → List (String × List String)
  | some b => b.tables
  | none => []

theorem cols_eq_nodeCols (N : Ops) : N.cols = nodeCols N N.srcA.cols (optCols N.srcB) := by
  cases N with
  | concat a b idc an bn => exact cols_concat a b idc an bn
  | _ => rfl

theorem nodeCols_reSrc (N a : Ops) (ca cb : List String) : nodeCols (N.reSrc a) ca cb = nodeCols N ca cb := by
  cases N <;> rfl


/-- `N` is the same operator with the same parameters as `p` (they may differ in their sources) -/
def SameOp (N p : Ops) : Prop :=
  (∀ (Θ : Interp) (cfg : SemCfg) ta tb, applyNode Θ cfg N ta tb = applyNode Θ cfg p ta tb) ∧
  (∀ (Θ : Interp) rows, NodeScope Θ N rows = NodeScope Θ p rows) ∧ (∀ ca, NodeColsOK N ca = NodeColsOK p ca) ∧
  (∀ ca cb, nodeCols N ca cb = nodeCols p ca cb) ∧ (∀ n cs, N ≠ .table n cs)

/-- what `replace_leaves` does at a node that is not a table description: it rebuilds the sources and applies the
node's builder to the rebuilt first source -/
theorem replace_node {m : List (String × Ops)} {p q : Ops} (hv : p.valid = true)
    (hT : ∀ n cs, p ≠ .table n cs) (hq : Ops.replaceLeaves m p = .ok q) :
    ∃ a', Ops.replaceLeaves m p.srcA = .ok a' ∧
      ((p.srcB = none ∧ (a'.valid = true → q.valid = true ∧
          ∃ leaf step N, BuildShape a' q leaf step N ∧ N.srcB = none ∧ SameOp N p)) ∨
       (∃ b b', p.srcB = some b ∧ Ops.replaceLeaves m b = .ok b' ∧ (a'.valid = true → b'.valid = true →
          q.valid = true ∧ ∃ leaf step N, BuildShape a' q leaf step N ∧ N.srcB = some b' ∧ SameOp N p))) := by
  have hn := Ops.valid_nodeOk hv
  cases p with
  | table k cs => exact absurd rfl (hT k cs)
  | extend s ops part od rv w =>
    simp only [Ops.replaceLeaves] at hq
    obtain ⟨s', hs', hq2⟩ := except_bind_eq_ok.mp hq
    refine ⟨s', hs', Or.inl ⟨rfl, fun hs'v => ?_⟩⟩
    obtain ⟨hpc, hpw⟩ := rebuild_flag hv
    have hne : ops.isEmpty = false := by
      simp only [Ops.nodeOk, Bool.and_eq_true] at hn
      simpa using hn.1.1.1.1.1.1.1.1.1.1.1
    rw [extendParsed_stripC _ _ _ _ _ hne] at hq2
    obtain ⟨u, hchk, htop⟩ := except_bind_eq_ok.mp hq2
    refine ⟨valid_extendTop (Ops.valid_strip hs'v) hne (extendChecks_front hchk) (Ops.strip_not_trivial _) htop,
      .table "" [], _, _, .extend ops _ od rv rfl hne htop rfl, rfl, ?_, ?_, fun _ => rfl, fun _ _ => rfl,
      (by intro _ _ h; cases h)⟩
    · intro Θ cfg ta tb; rw [hpc, hpw]; rfl
    · intro Θ rows; rw [hpc, hpw]; rfl
  | project s ops g =>
    simp only [Ops.replaceLeaves] at hq
    obtain ⟨s', hs', hq2⟩ := except_bind_eq_ok.mp hq
    refine ⟨s', hs', Or.inl ⟨rfl, fun hs'v => ?_⟩⟩
    rw [projectParsed_stripC] at hq2
    obtain ⟨u, hchk, hmk⟩ := except_bind_eq_ok.mp hq2
    have hqv : q.valid = true := valid_mkProject (Ops.valid_strip hs'v) (projectChecks_front hchk) hmk
    rw [mkProject_eq] at hmk
    obtain ⟨_, _, hq3⟩ := except_bind_eq_ok.mp hmk
    cases hq3
    exact ⟨hqv, .table "" [], .project ops g, .project (.table "" []) ops g,
      .plain rfl (by intro _ _ h; cases h), rfl, fun _ _ _ _ => rfl, fun _ _ => rfl, fun _ => rfl, fun _ _ => rfl,
      (by intro _ _ h; cases h)⟩
  | selectRows s e =>
    simp only [Ops.replaceLeaves] at hq
    obtain ⟨s', hs', hq2⟩ := except_bind_eq_ok.mp hq
    refine ⟨s', hs', Or.inl ⟨rfl, fun hs'v => ?_⟩⟩
    rw [selectRowsB_strip] at hq2
    cases hq2
    refine ⟨by simp only [Ops.valid, Ops.nodeOk, Ops.valid_strip hs'v, Bool.and_self],
      .table "" [], .selectRows (some e), .selectRows (.table "" []) e,
      .plain rfl (by intro _ _ h; cases h), rfl, fun _ _ _ _ => rfl, fun _ _ => rfl, fun _ => rfl, fun _ _ => rfl,
      (by intro _ _ h; cases h)⟩
  | selectCols s cs =>
    simp only [Ops.replaceLeaves] at hq
    obtain ⟨s', hs', hq2⟩ := except_bind_eq_ok.mp hq
    refine ⟨s', hs', Or.inl ⟨rfl, fun hs'v => ?_⟩⟩
    have hqv : q.valid = true := valid_build hs'v (fun b hb => by cases hb) hq2
    simp only [build] at hq2
    obtain ⟨_, _, hsel⟩ := except_bind_eq_ok.mp hq2
    exact ⟨hqv, .table "" [], _, .selectCols (.table "" []) cs, .select cs rfl hsel rfl, rfl,
      fun _ _ _ _ => rfl, fun _ _ => rfl, fun _ => rfl, fun _ _ => rfl,
      (by intro _ _ h; cases h)⟩
  | dropCols s ds =>
    simp only [Ops.replaceLeaves] at hq
    obtain ⟨s', hs', hq2⟩ := except_bind_eq_ok.mp hq
    refine ⟨s', hs', Or.inl ⟨rfl, fun hs'v => ?_⟩⟩
    have hqv : q.valid = true := valid_build hs'v (fun b hb => by cases hb) hq2
    simp only [Ops.nodeOk, Bool.and_eq_true] at hn
    have hne : ds.isEmpty = false := by simpa using hn.1
    simp only [build, hne, Bool.false_eq_true, if_false] at hq2
    rw [dropColsB_strip, mkDropCols_eq] at hq2
    obtain ⟨_, _, hq3⟩ := except_bind_eq_ok.mp hq2
    cases hq3
    exact ⟨hqv, .table "" [], .dropCols ds, .dropCols (.table "" []) ds,
      .plain rfl (by intro _ _ h; cases h), rfl, fun _ _ _ _ => rfl, fun _ _ => rfl, fun _ => rfl, fun _ _ => rfl,
      (by intro _ _ h; cases h)⟩
  | order s cs rv lim =>
    simp only [Ops.replaceLeaves] at hq
    obtain ⟨s', hs', hq2⟩ := except_bind_eq_ok.mp hq
    refine ⟨s', hs', Or.inl ⟨rfl, fun hs'v => ?_⟩⟩
    have hqv : q.valid = true := valid_build hs'v (fun b hb => by cases hb) hq2
    simp only [Ops.nodeOk, Bool.and_eq_true] at hn
    have hne : (cs.isEmpty && lim.isNone) = false := by
      have := hn.1
      cases hh : (cs.isEmpty && lim.isNone) <;> simp_all
    simp only [build, hne, Bool.false_eq_true, if_false] at hq2
    rw [orderB_strip, mkOrder_eq] at hq2
    obtain ⟨_, _, hq3⟩ := except_bind_eq_ok.mp hq2
    cases hq3
    refine ⟨hqv, .table "" [], .order cs rv lim, .order (.table "" []) cs rv lim,
      .plain rfl (by intro _ _ h; cases h), rfl, fun _ _ _ _ => rfl, fun _ _ => ?_, fun _ => rfl, fun _ _ => rfl,
      (by intro _ _ h; cases h)⟩
    cases lim <;> rfl
  | rename s mp =>
    simp only [Ops.replaceLeaves] at hq
    obtain ⟨s', hs', hq2⟩ := except_bind_eq_ok.mp hq
    refine ⟨s', hs', Or.inl ⟨rfl, fun hs'v => ?_⟩⟩
    have hqv : q.valid = true := valid_build hs'v (fun b hb => by cases hb) hq2
    simp only [Ops.nodeOk, Bool.and_eq_true] at hn
    have hne : mp.isEmpty = false := by simpa using hn.1
    simp only [build, hne, Bool.false_eq_true, if_false] at hq2
    rw [renameB_strip, mkRename_eq] at hq2
    obtain ⟨_, _, hq3⟩ := except_bind_eq_ok.mp hq2
    cases hq3
    exact ⟨hqv, .table "" [], .rename mp, .rename (.table "" []) mp,
      .plain rfl (by intro _ _ h; cases h), rfl, fun _ _ _ _ => rfl, fun _ _ => rfl, fun _ => rfl, fun _ _ => rfl,
      (by intro _ _ h; cases h)⟩
  | mapCols s mp ds =>
    simp only [Ops.replaceLeaves] at hq
    obtain ⟨s', hs', hq2⟩ := except_bind_eq_ok.mp hq
    refine ⟨s', hs', Or.inl ⟨rfl, fun hs'v => ?_⟩⟩
    have hqv : q.valid = true := valid_build hs'v (fun b hb => by cases hb) hq2
    simp only [Ops.nodeOk, Bool.and_eq_true] at hn
    have hne : (mp.map (fun kv => (kv.1, some kv.2)) ++ ds.map (fun d => (d, (none : Option String)))).isEmpty
        = false := by
      have := hn.1
      cases mp <;> cases ds <;> simp_all
    simp only [build, hne, Bool.false_eq_true, if_false] at hq2
    rw [mapColsB_strip, mkMapCols_eq, mapRemap_canon, mapDels_canon] at hq2
    obtain ⟨_, _, hq3⟩ := except_bind_eq_ok.mp hq2
    cases hq3
    exact ⟨hqv, .table "" [], .mapCols [], .mapCols (.table "" []) mp ds,
      .plain rfl (by intro _ _ h; cases h), rfl, fun _ _ _ _ => rfl, fun _ _ => rfl, fun _ => rfl, fun _ _ => rfl,
      (by intro _ _ h; cases h)⟩
  | convert s rm =>
    simp only [Ops.replaceLeaves] at hq
    obtain ⟨s', hs', hq2⟩ := except_bind_eq_ok.mp hq
    refine ⟨s', hs', Or.inl ⟨rfl, fun hs'v => ?_⟩⟩
    have hqv : q.valid = true := valid_build hs'v (fun b hb => by cases hb) hq2
    simp only [build] at hq2
    rw [convertB_strip, mkConvert_eq] at hq2
    obtain ⟨_, _, hq3⟩ := except_bind_eq_ok.mp hq2
    cases hq3
    exact ⟨hqv, .table "" [], .convert (some rm), .convert (.table "" []) rm,
      .plain rfl (by intro _ _ h; cases h), rfl, fun _ _ _ _ => rfl, fun _ _ => rfl, fun _ => rfl, fun _ _ => rfl,
      (by intro _ _ h; cases h)⟩
  | join a b oa ob jt =>
    simp only [Ops.replaceLeaves] at hq
    obtain ⟨a', ha', hq1⟩ := except_bind_eq_ok.mp hq
    obtain ⟨b', hb', hq2⟩ := except_bind_eq_ok.mp hq1
    refine ⟨a', ha', Or.inr ⟨b, b', rfl, hb', fun ha'v hb'v => ?_⟩⟩
    have hqv : q.valid = true := valid_build ha'v (fun b0 hb0 => by
      simp only [Step.argOps, List.mem_singleton] at hb0; rw [hb0]; exact hb'v) hq2
    simp only [build] at hq2
    rw [joinB_strip, mkJoin_eq] at hq2
    obtain ⟨t, hchk, hq3⟩ := except_bind_eq_ok.mp hq2
    cases hq3
    simp only [joinChk, ok?_bind_eq_ok, parse_toStr] at hchk
    obtain ⟨_, _, _, _, _, _, ht⟩ := hchk
    cases ht
    exact ⟨hqv, .table "" [], .join b' oa ob jt.toStr false, .join (.table "" []) b' oa ob jt,
      .plain rfl (by intro _ _ h; cases h), rfl, fun _ _ _ _ => rfl, fun _ _ => rfl, fun _ => rfl, fun _ _ => rfl,
      (by intro _ _ h; cases h)⟩
  | concat a b idc an bn =>
    simp only [Ops.replaceLeaves] at hq
    obtain ⟨a', ha', hq1⟩ := except_bind_eq_ok.mp hq
    obtain ⟨b', hb', hq2⟩ := except_bind_eq_ok.mp hq1
    refine ⟨a', ha', Or.inr ⟨b, b', rfl, hb', fun ha'v hb'v => ?_⟩⟩
    have hqv : q.valid = true := valid_build ha'v (fun b0 hb0 => by
      simp only [Step.argOps, List.mem_singleton] at hb0; rw [hb0]; exact hb'v) hq2
    simp only [build] at hq2
    rw [concatB_strip, mkConcat_eq] at hq2
    obtain ⟨_, _, hq3⟩ := except_bind_eq_ok.mp hq2
    cases hq3
    exact ⟨hqv, .table "" [], .concat (some b') idc an bn, .concat (.table "" []) b' idc an bn,
      .plain rfl (by intro _ _ h; cases h), rfl, fun _ _ _ _ => rfl, fun _ _ => rfl, fun _ => rfl, fun _ _ => rfl,
      (by intro _ _ h; cases h)⟩

/-! ### table descriptions -/

theorem Ops.selectBase_tables : ∀ (p : Ops), p.selectBase.tables = p.tables
  | .order src _ _ none => by simp only [Ops.selectBase, Ops.tables]; exact Ops.selectBase_tables src
  | .selectCols src _ => by simp only [Ops.selectBase, Ops.tables]; exact Ops.selectBase_tables src
  | .dropCols src _ => by simp only [Ops.selectBase, Ops.tables]; exact Ops.selectBase_tables src
  | .order _ _ _ (some _) => rfl
  | .table .. | .extend .. | .project .. | .selectRows .. | .rename .. | .mapCols .. | .join .. | .concat ..
  | .convert .. => rfl

theorem reSrc_tables {N : Ops} (a : Ops) (hT : ∀ n cs, N ≠ .table n cs) :
    (N.reSrc a).tables = a.tables ++ optTables N.srcB := by
  cases N with
  | table n cs => exact absurd rfl (hT n cs)
  | join _ b _ _ _ => rfl
  | concat _ b _ _ _ => rfl
  | _ => simp [Ops.reSrc, Ops.tables, Ops.srcB, optTables]

/-- the builders keep the table descriptions: those of the receiver, then those of the second source -/
theorem shape_tables {p p' leaf : Ops} {s : Step} {N : Ops} (h : BuildShape p p' leaf s N) :
    p'.tables = p.tables ++ optTables N.srcB := by
  cases h with
  | ident hN hp =>
    obtain ⟨n, cs, rfl⟩ := hN
    subst hp
    simp [Ops.srcB, optTables]
  | plain hp hT => rw [hp, reSrc_tables _ hT, Ops.strip_tables]
  | extend ops pa od rv hs hne htop hN =>
    subst hN
    simp only [Ops.srcB, optTables, List.append_nil]
    rw [← Ops.strip_tables p]
    have hnt := Ops.strip_not_trivial p
    generalize p.strip = q at htop hnt
    have plain : ∀ {q : Ops} {ops : Assign}, mkExtend q ops pa od rv = .ok p' → p'.tables = q.tables := by
      intro q ops hm
      rw [mkExtend_eqC] at hm
      obtain ⟨_, _, hp⟩ := except_bind_eq_ok.mp hm
      cases hp; rfl
    cases q with
    | extend src o1 part1 od1 rv1 w1 =>
      simp only [extendTopC] at htop
      rcases extendMerge_cases src o1 part1 od1 rv1 w1 ops pa od rv with ⟨o, _, _, _, _, _, he⟩ | he
      · rw [he] at htop; exact (plain htop : p'.tables = src.tables)
      · rw [he] at htop; exact plain htop
    | order s' cs rv' lim =>
      cases lim with
      | none => cases hnt
      | some n => exact plain htop
    | table _ _ => exact plain htop
    | project _ _ _ => exact plain htop
    | selectRows _ _ => exact plain htop
    | selectCols _ _ => exact plain htop
    | dropCols _ _ => exact plain htop
    | rename _ _ => exact plain htop
    | mapCols _ _ _ => exact plain htop
    | join _ _ _ _ _ => exact plain htop
    | concat _ _ _ _ _ => exact plain htop
    | convert _ _ => exact plain htop
  | select cs hs hsel hN =>
    subst hN
    simp only [Ops.srcB, optTables, List.append_nil]
    rw [selectColsB_eq] at hsel
    obtain ⟨_, _, h2⟩ := except_bind_eq_ok.mp hsel
    rw [mkSelectCols_eq] at h2
    obtain ⟨_, _, h3⟩ := except_bind_eq_ok.mp h2
    rw [selectNode_selectBase] at h3
    cases h3
    exact Ops.selectBase_tables p

end DAVerif
