import DAVerif.Proofs.UsedBasic
/-!
C10, node level: each per-node semantic function of `Sem/Eval.lean` maps source rows that agree on the columns
the node reads (for the requested output columns `u`) to result rows that agree on `u`.  The statements are
relational (two source tables `t`, `t'`, possibly with different declared output column lists `oc`, `oc'` that
both contain `u`), so that they serve the two-environment theorem, the restriction form `node_used_sound`
(take `t' = t.selectCols v`) and the narrowing theorem alike.
-/
namespace DAVerif

theorem Forall₂.map_mem' {α β γ δ : Type} {R : α → β → Prop} {P : γ → δ → Prop} {f : α → γ} {g : β → δ}
    {l : List α} {l' : List β} (h : Forall₂ R l l')
    (hfg : ∀ a ∈ l, ∀ b ∈ l', R a b → P (f a) (g b)) : Forall₂ P (l.map f) (l'.map g) := by
  induction h with
  | nil => exact .nil
  | cons hr _ ih =>
    exact .cons (hfg _ List.mem_cons_self _ List.mem_cons_self hr)
      (ih (fun a ha b hb => hfg a (List.mem_cons_of_mem _ ha) b (List.mem_cons_of_mem _ hb)))

theorem forall₂_map_same {α γ δ : Type} {P : γ → δ → Prop} {f : α → γ} {g : α → δ} (l : List α)
    (h : ∀ a ∈ l, P (f a) (g a)) : Forall₂ P (l.map f) (l.map g) := by
  induction l with
  | nil => exact .nil
  | cons a l ih => exact .cons (h a List.mem_cons_self) (ih (fun b hb => h b (List.mem_cons_of_mem _ hb)))

theorem Forall₂.with_mem {α β : Type} {R : α → β → Prop} {l : List α} {l' : List β} (h : Forall₂ R l l') :
    Forall₂ (fun a b => (a ∈ l ∧ b ∈ l') ∧ R a b) l l' := by
  induction h with
  | nil => exact .nil
  | cons hr _ ih =>
    refine .cons ⟨⟨List.mem_cons_self, List.mem_cons_self⟩, hr⟩ ?_
    refine Forall₂.imp ?_ ih
    intro a b hab
    exact ⟨⟨List.mem_cons_of_mem _ hab.1.1, List.mem_cons_of_mem _ hab.1.2⟩, hab.2⟩

namespace Row
theorem get_map_mk {cs : List String} (V : String → Val) {c : String} (h : c ∈ cs) :
    Row.get (cs.map (fun c => (c, V c))) c = V c := by
  induction cs with
  | nil => cases h
  | cons k cs ih =>
    simp only [List.map_cons, get_cons]
    by_cases e : c = k
    · subst e; simp
    · have : (c == k) = false := by simpa using e
      simp only [this, Bool.false_eq_true, if_false]
      exact ih (by simpa [e] using h)

theorem get_map_congr {α : Type} (ops : List (String × α)) (f g : α → Val) (c : String)
    (h : ∀ kv ∈ ops, kv.1 = c → f kv.2 = g kv.2) :
    Row.get (ops.map (fun kv => (kv.1, f kv.2))) c = Row.get (ops.map (fun kv => (kv.1, g kv.2))) c := by
  induction ops with
  | nil => rfl
  | cons kv ops ih =>
    simp only [List.map_cons, get_cons]
    by_cases e : c = kv.1
    · have : (c == kv.1) = true := by simpa using e
      simp only [this, if_true]
      exact h kv List.mem_cons_self e.symm
    · have : (c == kv.1) = false := by simpa using e
      simp only [this, Bool.false_eq_true, if_false]
      exact ih (fun kv' hkv' => h kv' (List.mem_cons_of_mem _ hkv'))
end Row

/-! ### select_columns / drop_columns / table scan: projection onto a column list -/

theorem select_congr {w u oc oc' : List String} {l l' : List Row} (h : RowsAgree w l l')
    (hu : ∀ c ∈ u, c ∈ oc ∧ c ∈ oc' ∧ c ∈ w) :
    RowsAgree u (l.map (·.select oc)) (l'.map (·.select oc')) := by
  apply Forall₂.map' h
  intro r r' hr c hc
  obtain ⟨h1, h2, h3⟩ := hu c hc
  rw [Row.get_select_of_mem h1, Row.get_select_of_mem h2]
  exact hr c h3

/-! ### extend, row-wise -/

theorem semExtendPlain_congr (Θ : Interp) (ops : Assign) {w u oc oc' : List String} {t t' : Table}
    (h : RowsAgree w t.rows t'.rows)
    (hu : ∀ c ∈ u, c ∈ oc ∧ c ∈ oc')
    (hkeep : ∀ c ∈ u, c ∉ ops.map (·.1) → c ∈ w)
    (hexpr : ∀ kv ∈ ops, kv.1 ∈ u → ∀ c ∈ kv.2.colsRaw, c ∈ w) :
    RowsAgree u (semExtendPlain Θ ops t oc).rows (semExtendPlain Θ ops t' oc').rows := by
  simp only [semExtendPlain]
  apply Forall₂.map' h
  intro r r' hr c hc
  obtain ⟨h1, h2⟩ := hu c hc
  rw [Row.get_select_of_mem h1, Row.get_select_of_mem h2, Row.get_setAll, Row.get_setAll,
    lookupLast_map ops (evalCell Θ r), lookupLast_map ops (evalCell Θ r')]
  cases hl : lookupLast ops c with
  | some e =>
    have hm := lookupLast_mem hl
    simp only [Option.map_some, Option.getD_some]
    exact evalCell_congr Θ e (fun c' hc' => hr c' (hexpr _ hm hc c' hc'))
  | none =>
    simp only [Option.map_none, Option.getD_none]
    have : c ∉ ops.map (·.1) := fun hm => by
      have := lookupLast_isSome.mpr hm
      simp [hl] at this
    exact hr c (hkeep c hc this)

/-! ### ordering -/

theorem rowLe_congr_u {w : List String} (rv : List String) {a a' b b' : Row} (ha : Row.agreeOn w a a')
    (hb : Row.agreeOn w b b') : ∀ (od : List String), (∀ c ∈ od, c ∈ w) →
      rowLe od rv a b = rowLe od rv a' b'
  | [], _ => rfl
  | c :: cs, h => by
    have hc : c ∈ w := h c List.mem_cons_self
    simp only [rowLe, ha c hc, hb c hc]
    rw [rowLe_congr_u rv ha hb cs (fun c' hc' => h c' (List.mem_cons_of_mem _ hc'))]

theorem semOrder_congr (cs rv : List String) (lim : Option Nat) {w u : List String} {t t' : Table}
    (h : RowsAgree w t.rows t'.rows) (hcs : ∀ c ∈ cs, c ∈ w) (hu : ∀ c ∈ u, c ∈ w) :
    RowsAgree u (semOrder cs rv lim t).rows (semOrder cs rv lim t').rows := by
  have hs : RowsAgree w (sortRows cs rv t.rows) (sortRows cs rv t'.rows) := by
    apply Forall₂.mergeSort' h
    intro a a' b b' ha hb
    exact rowLe_congr_u rv ha hb cs hcs
  simp only [semOrder]
  cases lim with
  | none => exact hs.mono hu
  | some n => exact RowsAgree.mono (Forall₂.take' hs n) hu

/-! ### select_rows -/

theorem semSelectRows_congr (Θ : Interp) (e : Term) {w u : List String} {t t' : Table}
    (h : RowsAgree w t.rows t'.rows) (he : ∀ c ∈ e.colsRaw, c ∈ w) (hu : ∀ c ∈ u, c ∈ w) :
    RowsAgree u (semSelectRows Θ e t).rows (semSelectRows Θ e t').rows := by
  simp only [semSelectRows]
  refine RowsAgree.mono ?_ hu
  apply Forall₂.filter' h
  intro r r' hr
  rw [evalCell_congr Θ e (fun c hc => hr c (he c hc))]

/-! ### window and aggregate arguments -/

theorem argValues_congr {w : List String} (e : Term) {l l' : List Row} (h : RowsAgree w l l')
    (he : ∀ c ∈ e.colsRaw, c ∈ w) : argValues e l = argValues e l' := by
  unfold argValues
  split
  · rename_i c _ _ _
    apply Forall₂.map_eq h
    intro r r' hr
    exact hr c (he c (by simp [Term.colsRaw, Term.colsRawList]))
  · exact Forall₂.map_eq h (fun _ _ _ => rfl)
  · exact Forall₂.map_eq h (fun _ _ _ => rfl)

/-! ### extend, windowed -/

theorem semExtendWindow_congr (Θ : Interp) (ops : Assign) (part od rv : List String)
    {w u oc oc' : List String} {t t' : Table}
    (h : RowsAgree w t.rows t'.rows)
    (hu : ∀ c ∈ u, c ∈ oc ∧ c ∈ oc')
    (hpart : ∀ c ∈ part, c ∈ w) (hod : ∀ c ∈ od, c ∈ w)
    (hkeep : ∀ c ∈ u, c ∉ ops.map (·.1) → c ∈ w)
    (hexpr : ∀ kv ∈ ops, kv.1 ∈ u → ∀ c ∈ kv.2.colsRaw, c ∈ w) :
    RowsAgree u (semExtendWindow Θ ops part od rv t oc).rows (semExtendWindow Θ ops part od rv t' oc').rows := by
  simp only [semExtendWindow]
  have hidx := Forall₂.zipIdx' h 0
  apply Forall₂.map' hidx
  intro ri ri' hri c hc
  obtain ⟨h1, h2⟩ := hu c hc
  obtain ⟨hr, hi⟩ := hri
  -- the partition of the current row, in window order
  have hpartn : Forall₂ (fun (a b : Row × Nat) => Row.agreeOn w a.1 b.1 ∧ a.2 = b.2)
      (t.rows.zipIdx.filter (fun rj => keyOf rj.1 part == keyOf ri.1 part))
      (t'.rows.zipIdx.filter (fun rj => keyOf rj.1 part == keyOf ri'.1 part)) := by
    apply Forall₂.filter' hidx
    intro a b hab
    simp only [keyOf]
    rw [hab.1.vals hpart, hr.vals hpart]
  have hsorted := Forall₂.mergeSort' (le := fun (a b : Row × Nat) => rowLe od rv a.1 b.1)
    (le' := fun (a b : Row × Nat) => rowLe od rv a.1 b.1) hpartn
    (fun a a' b b' ha hb => rowLe_congr_u rv ha.1 hb.1 od hod)
  have hpos := Forall₂.findIdx' (p := fun (rj : Row × Nat) => rj.2 == ri.2) (q := fun (rj : Row × Nat) => rj.2 == ri'.2)
    hsorted (fun a b hab => by rw [hab.2, hi])
  have hsrows : RowsAgree w
      ((sortIdx od rv (t.rows.zipIdx.filter (fun rj => keyOf rj.1 part == keyOf ri.1 part))).map (·.1))
      ((sortIdx od rv (t'.rows.zipIdx.filter (fun rj => keyOf rj.1 part == keyOf ri'.1 part))).map (·.1)) :=
    Forall₂.map' hsorted (fun a b hab => hab.1)
  rw [Row.get_select_of_mem h1, Row.get_select_of_mem h2, Row.get_setAll, Row.get_setAll]
  simp only [sortIdx] at hsrows ⊢
  rw [hpos]
  rw [lookupLast_map ops (fun e => Θ.win (opName e) (constArgs e) (argValues e _) _),
    lookupLast_map ops (fun e => Θ.win (opName e) (constArgs e) (argValues e _) _)]
  cases hl : lookupLast ops c with
  | some e =>
    have hm := lookupLast_mem hl
    simp only [Option.map_some, Option.getD_some]
    rw [argValues_congr e hsrows (hexpr _ hm hc)]
  | none =>
    simp only [Option.map_none, Option.getD_none]
    have : c ∉ ops.map (·.1) := fun hm => by
      have := lookupLast_isSome.mpr hm
      simp [hl] at this
    exact hr c (hkeep c hc this)

/-! ### project -/

theorem semProject_congr (Θ : Interp) (ops : Assign) (group : List String) {w u oc oc' : List String}
    {t t' : Table} (h : RowsAgree w t.rows t'.rows)
    (hu : ∀ c ∈ u, c ∈ oc ∧ c ∈ oc') (hg : ∀ c ∈ group, c ∈ w)
    (hexpr : ∀ kv ∈ ops, kv.1 ∈ u → ∀ c ∈ kv.2.colsRaw, c ∈ w) :
    RowsAgree u (semProject Θ ops group t oc).rows (semProject Θ ops group t' oc').rows := by
  unfold semProject
  split
  · refine .cons ?_ .nil
    intro c hc
    obtain ⟨h1, h2⟩ := hu c hc
    rw [Row.get_select_of_mem h1, Row.get_select_of_mem h2]
    apply Row.get_map_congr ops (fun e => Θ.agg (opName e) (argValues e t.rows))
      (fun e => Θ.agg (opName e) (argValues e t'.rows))
    intro kv hkv hk
    rw [argValues_congr kv.2 h (hexpr kv hkv (hk ▸ hc))]
  · have hkeys : t.rows.map (fun r => keyOf r group) = t'.rows.map (fun r => keyOf r group) :=
      Forall₂.map_eq h (fun r r' hr => by simp only [keyOf]; exact hr.vals hg)
    simp only [hkeys]
    apply forall₂_map_same
    intro k _ c hc
    obtain ⟨h1, h2⟩ := hu c hc
    rw [Row.get_select_of_mem h1, Row.get_select_of_mem h2, Row.get_append, Row.get_append]
    split
    · rfl
    · have hg' : RowsAgree w (t.rows.filter (fun r => keyOf r group == k))
          (t'.rows.filter (fun r => keyOf r group == k)) := by
        apply Forall₂.filter' h
        intro r r' hr
        simp only [keyOf]; rw [hr.vals hg]
      apply Row.get_map_congr ops (fun e => Θ.agg (opName e) (argValues e _))
        (fun e => Θ.agg (opName e) (argValues e _))
      intro kv hkv hk
      rw [argValues_congr kv.2 hg' (hexpr kv hkv (hk ▸ hc))]

/-! ### rename_columns / map_columns -/

theorem rename_congr (f g : String → String) {w u sc : List String} {l l' : List Row}
    (h : RowsAgree w l l')
    (hk : ∀ r ∈ l, ∀ k ∈ r.keys, k ∈ sc) (hk' : ∀ r ∈ l', ∀ k ∈ r.keys, k ∈ sc)
    (hinv : ∀ k ∈ sc, g (f k) = k)
    (hu : ∀ c ∈ u, c ∈ sc.map f ∧ g c ∈ w) :
    RowsAgree u (l.map (·.rename f)) (l'.map (·.rename f)) := by
  apply Forall₂.map_mem' h
  intro r hr r' hr' hrr c hc
  obtain ⟨hcs, hgw⟩ := hu c hc
  obtain ⟨k0, hk0, rfl⟩ := List.mem_map.mp hcs
  have inj : ∀ (x : Row), (∀ k ∈ x.keys, k ∈ sc) → ∀ k' ∈ x.keys, f k' = f k0 → k' = k0 := by
    intro x hx k' hk' e
    rw [← hinv k' (hx k' hk'), ← hinv k0 hk0, e]
  rw [Row.get_rename_of_inj r f k0 (inj r (hk r hr)), Row.get_rename_of_inj r' f k0 (inj r' (hk' r' hr'))]
  have := hrr (g (f k0)) hgw
  rwa [hinv k0 hk0] at this

theorem mapCols_congr (f g : String → String) (dels : List String) {w u sc : List String} {l l' : List Row}
    (h : RowsAgree w l l')
    (hk : ∀ r ∈ l, ∀ k ∈ r.keys, k ∈ sc) (hk' : ∀ r ∈ l', ∀ k ∈ r.keys, k ∈ sc)
    (hinv : ∀ k ∈ sc, k ∉ dels → g (f k) = k)
    (hu : ∀ c ∈ u, c ∈ (sc.filter (fun c => !dels.contains c)).map f ∧ g c ∈ w) :
    RowsAgree u (l.map (fun r => (r.drop dels).rename f)) (l'.map (fun r => (r.drop dels).rename f)) := by
  apply Forall₂.map_mem' h
  intro r hr r' hr' hrr c hc
  obtain ⟨hcs, hgw⟩ := hu c hc
  obtain ⟨k0, hk0, rfl⟩ := List.mem_map.mp hcs
  simp only [List.mem_filter, Bool.not_eq_true', List.contains_eq_mem, decide_eq_false_iff_not] at hk0
  have inj : ∀ (x : Row), (∀ k ∈ x.keys, k ∈ sc) → ∀ k' ∈ (x.drop dels).keys, f k' = f k0 → k' = k0 := by
    intro x hx k' hk' e
    rw [Row.keys_drop] at hk'
    simp only [List.mem_filter, Bool.not_eq_true', List.contains_eq_mem, decide_eq_false_iff_not] at hk'
    rw [← hinv k' (hx k' hk'.1) hk'.2, ← hinv k0 hk0.1 hk0.2, e]
  rw [Row.get_rename_of_inj _ f k0 (inj r (hk r hr)), Row.get_rename_of_inj _ f k0 (inj r' (hk' r' hr')),
    Row.get_drop, Row.get_drop]
  simp only [hk0.2, if_false]
  have := hrr (g (f k0)) hgw
  rwa [hinv k0 hk0.1 hk0.2] at this

/-! ### natural_join -/

/-- an optional row of one join side, related to the other run's -/
def OptAgree (w : List String) : Option Row → Option Row → Prop
  | some r, some r' => Row.agreeOn w r r'
  | none, none => True
  | _, _ => False

theorem joinRow_agree {wa wb u oc oc' ca cb ca' cb' : List String} {ra ra' rb rb' : Option Row}
    (ha : OptAgree wa ra ra') (hb : OptAgree wb rb rb')
    (hna : ∀ r, ra = some r → ∀ c, c ∉ ca → r.get c = .null)
    (hna' : ∀ r, ra' = some r → ∀ c, c ∉ ca' → r.get c = .null)
    (hnb : ∀ r, rb = some r → ∀ c, c ∉ cb → r.get c = .null)
    (hnb' : ∀ r, rb' = some r → ∀ c, c ∉ cb' → r.get c = .null)
    (hu : ∀ c ∈ u, c ∈ oc ∧ c ∈ oc' ∧ c ∈ wa ∧ c ∈ wb) :
    Row.agreeOn u (joinRow ca cb oc ra rb) (joinRow ca' cb' oc' ra' rb') := by
  intro c hc
  obtain ⟨h1, h2, h3, h4⟩ := hu c hc
  simp only [joinRow]
  rw [Row.get_map_mk _ h1, Row.get_map_mk _ h2]
  have fa : ∀ r r', ra = some r → ra' = some r' →
      (if ca.contains c = true then r.get c else Val.null) = (if ca'.contains c = true then r'.get c else Val.null) := by
    intro r r' e e'
    subst e e'
    have e1 : (if ca.contains c then r.get c else Val.null) = r.get c := by
      split
      · rfl
      · rename_i hn; exact (hna r rfl c (by simpa using hn)).symm
    have e2 : (if ca'.contains c then r'.get c else Val.null) = r'.get c := by
      split
      · rfl
      · rename_i hn; exact (hna' r' rfl c (by simpa using hn)).symm
    rw [e1, e2]
    exact ha c h3
  have fb : ∀ r r', rb = some r → rb' = some r' →
      (if cb.contains c = true then r.get c else Val.null) = (if cb'.contains c = true then r'.get c else Val.null) := by
    intro r r' e e'
    subst e e'
    have e1 : (if cb.contains c then r.get c else Val.null) = r.get c := by
      split
      · rfl
      · rename_i hn; exact (hnb r rfl c (by simpa using hn)).symm
    have e2 : (if cb'.contains c then r'.get c else Val.null) = r'.get c := by
      split
      · rfl
      · rename_i hn; exact (hnb' r' rfl c (by simpa using hn)).symm
    rw [e1, e2]
    exact hb c h4
  cases ra <;> cases ra' <;> (try (simp only [OptAgree] at ha; done)) <;>
    cases rb <;> cases rb' <;> (try (simp only [OptAgree] at hb; done)) <;> dsimp only
  · simp only [fb _ _ rfl rfl]
  · simp only [fa _ _ rfl rfl]
  · simp only [fa _ _ rfl rfl, fb _ _ rfl rfl]

theorem semJoin_congr (cfg : SemCfg) (jt : JoinType) (onA onB : List String)
    {wa wb u oc oc' : List String} {ta ta' tb tb' : Table}
    (ha : RowsAgree wa ta.rows ta'.rows) (hb : RowsAgree wb tb.rows tb'.rows)
    (hna : ∀ r ∈ ta.rows, ∀ c, c ∉ ta.cols → r.get c = .null)
    (hna' : ∀ r ∈ ta'.rows, ∀ c, c ∉ ta'.cols → r.get c = .null)
    (hnb : ∀ r ∈ tb.rows, ∀ c, c ∉ tb.cols → r.get c = .null)
    (hnb' : ∀ r ∈ tb'.rows, ∀ c, c ∉ tb'.cols → r.get c = .null)
    (honA : ∀ c ∈ onA, c ∈ wa) (honB : ∀ c ∈ onB, c ∈ wb)
    (hu : ∀ c ∈ u, c ∈ oc ∧ c ∈ oc' ∧ c ∈ wa ∧ c ∈ wb) :
    RowsAgree u (semJoin cfg jt onA onB ta tb oc).rows (semJoin cfg jt onA onB ta' tb' oc').rows := by
  unfold semJoin
  -- the match predicate gives the same answer on related pairs
  have hm : ∀ ra ra' rb rb', Row.agreeOn wa ra ra' → Row.agreeOn wb rb rb' →
      ((jt == JoinType.cross || onA.isEmpty) || keyMatch cfg (keyOf ra onA) (keyOf rb onB))
      = ((jt == JoinType.cross || onA.isEmpty) || keyMatch cfg (keyOf ra' onA) (keyOf rb' onB)) := by
    intro ra ra' rb rb' h1 h2
    simp only [keyOf]
    rw [h1.vals honA, h2.vals honB]
  have hpairs : RowsAgree u
      (ta.rows.flatMap (fun ra => (tb.rows.filter (fun rb =>
          (jt == JoinType.cross || onA.isEmpty) || keyMatch cfg (keyOf ra onA) (keyOf rb onB))).map
            (fun rb => joinRow ta.cols tb.cols oc (some ra) (some rb))))
      (ta'.rows.flatMap (fun ra => (tb'.rows.filter (fun rb =>
          (jt == JoinType.cross || onA.isEmpty) || keyMatch cfg (keyOf ra onA) (keyOf rb onB))).map
            (fun rb => joinRow ta'.cols tb'.cols oc' (some ra) (some rb)))) := by
    apply Forall₂.flatMap' (R := fun (a b : Row) => (a ∈ ta.rows ∧ b ∈ ta'.rows) ∧ Row.agreeOn wa a b)
    · exact Forall₂.with_mem ha
    · intro ra ra' hra
      have hf : Forall₂ (fun (a b : Row) => (a ∈ tb.rows ∧ b ∈ tb'.rows) ∧ Row.agreeOn wb a b)
          (tb.rows.filter (fun rb => (jt == JoinType.cross || onA.isEmpty) || keyMatch cfg (keyOf ra onA) (keyOf rb onB)))
          (tb'.rows.filter (fun rb => (jt == JoinType.cross || onA.isEmpty) || keyMatch cfg (keyOf ra' onA) (keyOf rb onB))) := by
        apply Forall₂.filter'
        · exact Forall₂.with_mem hb
        · intro rb rb' hrb
          exact hm ra ra' rb rb' hra.2 hrb.2
      apply Forall₂.map' hf
      intro rb rb' hrb
      apply joinRow_agree (wa := wa) (wb := wb) (ra := some ra) (ra' := some ra') (rb := some rb) (rb' := some rb')
        hra.2 hrb.2
      · intro r e c hc; cases e; exact hna _ hra.1.1 c hc
      · intro r e c hc; cases e; exact hna' _ hra.1.2 c hc
      · intro r e c hc; cases e; exact hnb _ hrb.1.1 c hc
      · intro r e c hc; cases e; exact hnb' _ hrb.1.2 c hc
      · exact hu
  have hleft : RowsAgree u
      ((ta.rows.filter (fun ra => !(tb.rows.any (fun rb =>
          (jt == JoinType.cross || onA.isEmpty) || keyMatch cfg (keyOf ra onA) (keyOf rb onB))))).map
            (fun ra => joinRow ta.cols tb.cols oc (some ra) none))
      ((ta'.rows.filter (fun ra => !(tb'.rows.any (fun rb =>
          (jt == JoinType.cross || onA.isEmpty) || keyMatch cfg (keyOf ra onA) (keyOf rb onB))))).map
            (fun ra => joinRow ta'.cols tb'.cols oc' (some ra) none)) := by
    have hf : Forall₂ (Row.agreeOn wa) _ _ := Forall₂.filter' ha
      (p := fun ra => !(tb.rows.any (fun rb =>
          (jt == JoinType.cross || onA.isEmpty) || keyMatch cfg (keyOf ra onA) (keyOf rb onB))))
      (q := fun ra => !(tb'.rows.any (fun rb =>
          (jt == JoinType.cross || onA.isEmpty) || keyMatch cfg (keyOf ra onA) (keyOf rb onB))))
      (fun ra ra' hra => by
        rw [Forall₂.any' hb (fun rb rb' hrb => hm ra ra' rb rb' hra hrb)])
    apply Forall₂.map_mem' hf
    intro ra hra ra' hra' hrr
    apply joinRow_agree (wa := wa) (wb := wb) (ra := some ra) (ra' := some ra') (rb := none) (rb' := none)
      hrr trivial
    · intro r e c hc; cases e; exact hna _ (List.mem_filter.mp hra).1 c hc
    · intro r e c hc; cases e; exact hna' _ (List.mem_filter.mp hra').1 c hc
    · intro r e; cases e
    · intro r e; cases e
    · exact hu
  have hright : RowsAgree u
      ((tb.rows.filter (fun rb => !(ta.rows.any (fun ra =>
          (jt == JoinType.cross || onA.isEmpty) || keyMatch cfg (keyOf ra onA) (keyOf rb onB))))).map
            (fun rb => joinRow ta.cols tb.cols oc none (some rb)))
      ((tb'.rows.filter (fun rb => !(ta'.rows.any (fun ra =>
          (jt == JoinType.cross || onA.isEmpty) || keyMatch cfg (keyOf ra onA) (keyOf rb onB))))).map
            (fun rb => joinRow ta'.cols tb'.cols oc' none (some rb))) := by
    have hf : Forall₂ (Row.agreeOn wb) _ _ := Forall₂.filter' hb
      (p := fun rb => !(ta.rows.any (fun ra =>
          (jt == JoinType.cross || onA.isEmpty) || keyMatch cfg (keyOf ra onA) (keyOf rb onB))))
      (q := fun rb => !(ta'.rows.any (fun ra =>
          (jt == JoinType.cross || onA.isEmpty) || keyMatch cfg (keyOf ra onA) (keyOf rb onB))))
      (fun rb rb' hrb => by
        rw [Forall₂.any' ha (fun ra ra' hra => hm ra ra' rb rb' hra hrb)])
    apply Forall₂.map_mem' hf
    intro rb hrb rb' hrb' hrr
    apply joinRow_agree (wa := wa) (wb := wb) (ra := none) (ra' := none) (rb := some rb) (rb' := some rb')
      trivial hrr
    · intro r e; cases e
    · intro r e; cases e
    · intro r e c hc; cases e; exact hnb _ (List.mem_filter.mp hrb).1 c hc
    · intro r e c hc; cases e; exact hnb' _ (List.mem_filter.mp hrb').1 c hc
    · exact hu
  apply Forall₂.append'
  · apply Forall₂.append' hpairs
    split
    · exact hleft
    · exact .nil
  · split
    · exact hright
    · exact .nil

/-! ### concat_rows -/

theorem concat_tag_agree (idc : Option String) (name : String) {w u oc oc' : List String} (r r' : Row)
    (hr : Row.agreeOn w r r') (hoc : ∀ c ∈ u, c ∈ oc ∧ c ∈ oc') (hw : ∀ c ∈ u, idc = some c ∨ c ∈ w) :
    Row.agreeOn u
      (match (generalizing := false) idc with
        | none => r.select oc | some c => (r.set c (.str name)).select oc)
      (match (generalizing := false) idc with
        | none => r'.select oc' | some c => (r'.set c (.str name)).select oc') := by
  intro c hc
  obtain ⟨h1, h2⟩ := hoc c hc
  cases idc with
  | none =>
    simp only
    rw [Row.get_select_of_mem h1, Row.get_select_of_mem h2]
    rcases hw c hc with h | h
    · cases h
    · exact hr c h
  | some i =>
    simp only
    rw [Row.get_select_of_mem h1, Row.get_select_of_mem h2, Row.get_set, Row.get_set]
    split
    · rfl
    · rename_i hne
      rcases hw c hc with h | h
      · cases h; simp at hne
      · exact hr c h

theorem semConcat_congr (idc : Option String) (an bn : String) {wa wb u oc oc' : List String}
    {ta ta' tb tb' : Table}
    (ha : RowsAgree wa ta.rows ta'.rows) (hb : RowsAgree wb tb.rows tb'.rows)
    (hu : ∀ c ∈ u, c ∈ oc ∧ c ∈ oc' ∧ (idc = some c ∨ (c ∈ wa ∧ c ∈ wb))) :
    RowsAgree u (semConcat idc an bn ta tb oc).rows (semConcat idc an bn ta' tb' oc').rows := by
  simp only [semConcat]
  have hoc : ∀ c ∈ u, c ∈ oc ∧ c ∈ oc' := fun c hc => ⟨(hu c hc).1, (hu c hc).2.1⟩
  apply Forall₂.append'
  · exact Forall₂.map' ha (fun r r' hr => concat_tag_agree idc an r r' hr hoc
      (fun c hc => (hu c hc).2.2.imp id (·.1)))
  · exact Forall₂.map' hb (fun r r' hr => concat_tag_agree idc bn r r' hr hoc
      (fun c hc => (hu c hc).2.2.imp id (·.2)))

end DAVerif
