import DAVerif.Proofs.Polars
/-!
C03, the join: `_natural_join_step` over the assumed Polars join (`Pl.join`: suffixing, key columns dropped for
inner/left joins and kept un-coalesced for full joins, null keys never matching) computes, under the guards, the
rows of the Pandas executor's `semJoin`.
-/
namespace DAVerif
open Pl

/-! ### unfolding the `Except` plumbing -/

theorem Pl.join_ok {how : Pl.How} {onL onR : List String} {suffix : String} {tl tr res : Table}
    (h : Pl.join how onL onR suffix tl tr = .ok res) :
    onL.isEmpty = false ∧
    (tl.cols ++ (Pl.rightCols (how != .full) tl.cols tr.cols onR suffix).map (·.1)).Nodup ∧
    res.cols = tl.cols ++ (Pl.rightCols (how != .full) tl.cols tr.cols onR suffix).map (·.1) ∧
    res.rows =
      tl.rows.flatMap (fun rl => (tr.rows.filter (fun rr => Pl.keyMatch (keyOf rl onL) (keyOf rr onR))).map
        (fun rr => Pl.joinRow tl.cols (Pl.rightCols (how != .full) tl.cols tr.cols onR suffix) (some rl) (some rr))) ++
      (if how != .inner then
        (tl.rows.filter (fun rl => !(tr.rows.any (fun rr => Pl.keyMatch (keyOf rl onL) (keyOf rr onR))))).map
          (fun rl => Pl.joinRow tl.cols (Pl.rightCols (how != .full) tl.cols tr.cols onR suffix) (some rl) none)
       else []) ++
      (if how == .full then
        (tr.rows.filter (fun rr => !(tl.rows.any (fun rl => Pl.keyMatch (keyOf rl onL) (keyOf rr onR))))).map
          (fun rr => Pl.joinRow tl.cols (Pl.rightCols (how != .full) tl.cols tr.cols onR suffix) none (some rr))
       else []) := by
  unfold Pl.join at h
  by_cases h1 : onL.isEmpty = true
  · rw [if_pos h1] at h; cases h
  · rw [if_neg h1] at h
    dsimp only at h
    by_cases h2 : ¬ (tl.cols ++ (Pl.rightCols (how != .full) tl.cols tr.cols onR suffix).map (·.1)).Nodup
    · rw [if_pos h2] at h; cases h
    · rw [if_neg h2] at h
      injection h with h
      subst h
      exact ⟨by simpa using h1, by simpa using h2, rfl, rfl⟩

theorem Pl.rename_ok {m : List (String × String)} {t res : Table} (h : Pl.rename m t = .ok res) :
    (∀ kv ∈ m, kv.1 ∈ t.cols) ∧ (t.cols.map (fun c => (m.lookup c).getD c)).Nodup ∧
    res = ⟨t.cols.map (fun c => (m.lookup c).getD c), t.rows.map (fun r => r.rename (fun c => (m.lookup c).getD c))⟩ := by
  unfold Pl.rename at h
  dsimp only at h
  by_cases h1 : ¬ (m.all (fun kv => t.cols.contains kv.1) = true)
  · rw [if_pos h1] at h; cases h
  · rw [if_neg h1] at h
    by_cases h2 : ¬ (t.cols.map (fun c => (m.lookup c).getD c)).Nodup
    · rw [if_pos h2] at h; cases h
    · rw [if_neg h2] at h
      injection h with h
      subst h
      refine ⟨?_, by simpa using h2, rfl⟩
      intro kv hkv
      have h3 : m.all (fun kv => t.cols.contains kv.1) = true := by simpa using h1
      have := List.all_eq_true.mp h3 kv hkv
      simpa using this

theorem pl_flatMap_congr {α β : Type} {f g : α → List β} :
    ∀ {l : List α}, (∀ a ∈ l, f a = g a) → l.flatMap f = l.flatMap g
  | [], _ => rfl
  | a :: l, h => by
    simp only [List.flatMap_cons]
    rw [h a (List.mem_cons_self ..), pl_flatMap_congr (fun b hb => h b (List.mem_cons_of_mem _ hb))]

theorem pl_any_congr {α : Type} {p q : α → Bool} : ∀ {l : List α}, (∀ a ∈ l, p a = q a) → l.any p = l.any q
  | [], _ => rfl
  | a :: l, h => by
    simp only [List.any_cons]
    rw [h a (List.mem_cons_self ..), pl_any_congr (fun b hb => h b (List.mem_cons_of_mem _ hb))]

theorem pl_inj_on_of_nodup_map {α β : Type} {f : α → β} : ∀ {l : List α}, (l.map f).Nodup →
    ∀ {a b : α}, a ∈ l → b ∈ l → f a = f b → a = b
  | [], _, _, _, ha, _, _ => by cases ha
  | x :: l, h, a, b, ha, hb, e => by
    simp only [List.map_cons, List.nodup_cons, List.mem_map, not_exists, not_and] at h
    rcases List.mem_cons.mp ha with rfl | ha' <;> rcases List.mem_cons.mp hb with rfl | hb'
    · rfl
    · exact absurd e.symm (h.1 b hb')
    · exact absurd e (h.1 a ha')
    · exact pl_inj_on_of_nodup_map h.2 ha' hb' e

/-! ### the renaming of the scratch key columns -/

theorem pl_keyTmp_inj {a b : String} (h : keyTmp a = keyTmp b) : a = b := by
  unfold keyTmp at h
  exact (String.append_left_inj _).mp h

/-- the renaming function of `res.rename({f"{c}_da_join_tmp_key": c for c in orphan_keys})` -/
def plRenameFn (orphan : List String) : String → String :=
  fun c => ((orphan.map (fun c => (keyTmp c, c))).lookup c).getD c

theorem plRenameFn_other (orphan : List String) {c : String} (h : ∀ o ∈ orphan, keyTmp o ≠ c) :
    plRenameFn orphan c = c := by
  unfold plRenameFn
  induction orphan with
  | nil => rfl
  | cons o os ih =>
    simp only [List.map_cons, List.lookup]
    have h1 : (c == keyTmp o) = false := beq_false_of_ne (Ne.symm (h o (List.mem_cons_self ..)))
    rw [h1]
    exact ih (fun o' ho' => h o' (List.mem_cons_of_mem _ ho'))

theorem plRenameFn_tmp (orphan : List String) {o : String} (h : o ∈ orphan) : plRenameFn orphan (keyTmp o) = o := by
  unfold plRenameFn
  induction orphan with
  | nil => cases h
  | cons o' os ih =>
    simp only [List.map_cons, List.lookup]
    by_cases e : keyTmp o = keyTmp o'
    · have : (keyTmp o == keyTmp o') = true := by rw [e]; exact beq_self_eq_true _
      rw [this]
      exact (pl_keyTmp_inj e).symm
    · have : (keyTmp o == keyTmp o') = false := beq_false_of_ne e
      rw [this]
      rcases List.mem_cons.mp h with rfl | h'
      · exact absurd rfl e
      · exact ih h'

/-! ### the cell that ends up under each output column -/

namespace Pl

/-- the cell `joinCore` puts under output column `c` for the (optional) rows `rp` of `P` and `rs` of `S` -/
def coreCell (cc : List String) (preferP : Bool) (pc : List String) (c : String) (rp rs : Option Row) : Val :=
  if pc.contains c then
    (if cc.contains c then coalVal preferP (ocell rp c) (ocell rs c) else ocell rp c)
  else ocell rs c

end Pl

theorem mem_orphanOf {onP onS : List String} {o : String} :
    o ∈ orphanOf onP onS ↔ o ∈ onS ∧ o ∉ onP := by
  simp [orphanOf, List.mem_eraseDups]

theorem ocell_extRow_of_mem {orphan sc : List String} {rs : Option Row} (hrs : ∀ r, rs = some r → Row.keys r = sc)
    {c : String} (hc : c ∈ sc) : Pl.ocell (rs.map (extRow orphan)) c = Pl.ocell rs c := by
  cases rs with
  | none => rfl
  | some r =>
    simp only [Option.map, Pl.ocell, extRow]
    exact PlRow.get_append_left (by rw [hrs r rfl]; exact hc)

theorem get_tmpcells (orphan : List String) (r : Row) {o : String} (h : o ∈ orphan) :
    Row.get (orphan.map (fun c => (keyTmp c, Row.get r c))) (keyTmp o) = Row.get r o := by
  induction orphan with
  | nil => cases h
  | cons o' os ih =>
    simp only [List.map_cons, PlRow.get_cons]
    by_cases e : keyTmp o = keyTmp o'
    · rw [pl_keyTmp_inj e]; simp
    · rw [beq_false_of_ne e]
      rcases List.mem_cons.mp h with rfl | h'
      · exact absurd rfl e
      · exact ih h'

theorem ocell_extRow_tmp {orphan sc : List String} {rs : Option Row} (hrs : ∀ r, rs = some r → Row.keys r = sc)
    {o : String} (ho : o ∈ orphan) (hf : keyTmp o ∉ sc) :
    Pl.ocell (rs.map (extRow orphan)) (keyTmp o) = Pl.ocell rs o := by
  cases rs with
  | none => rfl
  | some r =>
    simp only [Option.map, Pl.ocell, extRow]
    rw [PlRow.get_append_right (by rw [hrs r rfl]; exact hf)]
    exact get_tmpcells orphan r ho

/-! ### one output row of `joinCore` -/

/-- the right frame's columns in the result of the `Pl.join` call of `joinCore` -/
def rcsOf (how : Pl.How) (suffix : String) (onP onS pc sc : List String) : List (String × String) :=
  Pl.rightCols (how != .full) pc (sc ++ (orphanOf onP onS).map keyTmp) onS suffix

/-- the columns of the result of the `Pl.join` call of `joinCore` -/
def outOf (how : Pl.How) (suffix : String) (onP onS pc sc : List String) : List String :=
  pc ++ (rcsOf how suffix onP onS pc sc).map (·.1)

structure CoreHyps (how : Pl.How) (suffix : String) (onP onS pc sc oc : List String) : Prop where
  keysS : ∀ c ∈ onS, c ∈ sc
  freshTmp : ∀ o ∈ onS, keyTmp o ∉ pc ∧ keyTmp o ∉ sc
  freshSuffix : ∀ c ∈ sc, c ++ suffix ∉ oc
  orphanNotP : ∀ o ∈ onS, o ∉ onP → o ∉ pc
  nodupOut : (outOf how suffix onP onS pc sc).Nodup
  nodupRen : ((outOf how suffix onP onS pc sc).map (plRenameFn (orphanOf onP onS))).Nodup
  ocMem : ∀ c ∈ oc, c ∈ (outOf how suffix onP onS pc sc).map (plRenameFn (orphanOf onP onS))

theorem mem_rcsOf_of_sc {how : Pl.How} {suffix : String} {onP onS pc sc : List String} {c : String}
    (hc : c ∈ sc) (hk : ((how != .full) && onS.contains c) = false) :
    ((if pc.contains c then c ++ suffix else c), c) ∈ rcsOf how suffix onP onS pc sc := by
  simp only [rcsOf, Pl.rightCols, List.mem_map, List.mem_filter, List.mem_append]
  refine ⟨c, ⟨Or.inl hc, ?_⟩, rfl⟩
  have hk' : ¬ how = .full → ¬ c ∈ onS := by simpa using hk
  by_cases e : how = .full
  · simp [e]
  · simp [hk' e]

theorem mem_rcsOf_tmp {how : Pl.How} {suffix : String} {onP onS pc sc : List String} {o : String}
    (ho : o ∈ orphanOf onP onS) (hS : ∀ c ∈ onS, c ∈ sc) (hf : ∀ o ∈ onS, keyTmp o ∉ pc ∧ keyTmp o ∉ sc) :
    (keyTmp o, keyTmp o) ∈ rcsOf how suffix onP onS pc sc := by
  have ho' := (mem_orphanOf.mp ho).1
  simp only [rcsOf, Pl.rightCols, List.mem_map, List.mem_filter, List.mem_append]
  refine ⟨keyTmp o, ⟨Or.inr ⟨o, ho, rfl⟩, ?_⟩, ?_⟩
  · simp only [Bool.not_eq_true', Bool.and_eq_false_iff, bne_eq_false_iff_eq]
    right
    cases h : onS.contains (keyTmp o) with
    | false => rfl
    | true => exact absurd (hS _ (List.contains_iff_mem.mp h)) (hf o ho').2
  · have : pc.contains (keyTmp o) = false := by
      cases h : pc.contains (keyTmp o) with
      | false => rfl
      | true => exact absurd (List.contains_iff_mem.mp h) (hf o ho').1
    rw [this]
    rfl

theorem mem_rcsOf_cases {how : Pl.How} {suffix : String} {onP onS pc sc : List String} {n src : String}
    (h : (n, src) ∈ rcsOf how suffix onP onS pc sc) :
    n = (if pc.contains src then src ++ suffix else src) ∧
      (src ∈ sc ∨ ∃ o ∈ orphanOf onP onS, src = keyTmp o) := by
  simp only [rcsOf, Pl.rightCols, List.mem_map, List.mem_filter, List.mem_append] at h
  obtain ⟨x, ⟨hx, _⟩, he⟩ := h
  cases he
  refine ⟨rfl, ?_⟩
  rcases hx with hx | ⟨o, ho, rfl⟩
  · exact Or.inl hx
  · exact Or.inr ⟨o, ho, rfl⟩

theorem keys_joinRow (pc : List String) (rcs : List (String × String)) (rp rs : Option Row) :
    Row.keys (Pl.joinRow pc rcs rp rs) = pc ++ rcs.map (·.1) := by
  simp [Pl.joinRow, Row.keys, List.map_append, List.map_map, Function.comp_def]

theorem get_joinRow_left {pc : List String} {rcs : List (String × String)} {rp rs : Option Row} {c : String}
    (hc : c ∈ pc) : Row.get (Pl.joinRow pc rcs rp rs) c = Pl.ocell rp c := by
  unfold Pl.joinRow
  rw [PlRow.get_append_left (by rw [PlRow.keys_map_mk]; exact hc), PlRow.get_map_mk hc]

theorem get_joinRow_right {pc : List String} {rcs : List (String × String)} {rp rs : Option Row} {n src : String}
    (hn : (pc ++ rcs.map (·.1)).Nodup) (h : (n, src) ∈ rcs) :
    Row.get (Pl.joinRow pc rcs rp rs) n = Pl.ocell rs src := by
  apply PlRow.get_of_mem_nodup
  · rw [keys_joinRow]; exact hn
  · unfold Pl.joinRow
    exact List.mem_append_right _ (List.mem_map.mpr ⟨(n, src), h, rfl⟩)

theorem nodup_pc_of_out {how : Pl.How} {suffix : String} {onP onS pc sc : List String}
    (h : (outOf how suffix onP onS pc sc).Nodup) : pc.Nodup := (List.nodup_append.mp h).1

theorem coalesceColsOf_sub {cfg : Pl.Cfg} {how : Pl.How} {onP pc sc : List String} {c : String}
    (h : c ∈ coalesceColsOf cfg how onP pc sc) : c ∈ pc ∧ c ∈ sc := by
  unfold coalesceColsOf at h
  split at h
  · simpa using h
  · have := List.mem_filter.mp h
    simpa using this.1

theorem coalesceColsOf_nodup {cfg : Pl.Cfg} {how : Pl.How} {onP pc sc : List String} (h : pc.Nodup) :
    (coalesceColsOf cfg how onP pc sc).Nodup := by
  unfold coalesceColsOf
  split
  · exact h.filter _
  · exact (h.filter _).filter _

/-- in a coalescing join a coalesce column is not a key of `S`; so its `S` copy is in the join result -/
theorem coalesce_kept {cfg : Pl.Cfg} {how : Pl.How} {onP onS pc sc : List String} {c : String}
    (horph : ∀ o ∈ onS, o ∉ onP → o ∉ pc) (h : c ∈ coalesceColsOf cfg how onP pc sc) :
    ((how != .full) && onS.contains c) = false := by
  cases hh : (how != Pl.How.full) with
  | false => rfl
  | true =>
    simp only [Bool.true_and]
    cases hc : onS.contains c with
    | false => rfl
    | true =>
      exfalso
      have hS : c ∈ onS := List.contains_iff_mem.mp hc
      have hpc := (coalesceColsOf_sub h).1
      unfold coalesceColsOf at h
      have hnf : (how == Pl.How.full) = false := by
        cases how <;> simp_all
      simp only [hnf, Bool.false_and, Bool.false_eq_true, if_false] at h
      have hnp : c ∉ onP := by
        have := (List.mem_filter.mp h).2
        simpa using this
      exact horph c hS hnp hpc

/-- **one output row of `joinCore`**: whatever the scratch-column plumbing (suffixes, temporary key copies,
renaming), the cell under output column `c` is `Pl.coreCell` -/
theorem core_row (cfg : Pl.Cfg) {how : Pl.How} (preferP : Bool) {suffix : String} {onP onS pc sc oc : List String}
    (H : CoreHyps how suffix onP onS pc sc oc) (rp rs : Option Row) (hrs : ∀ r, rs = some r → Row.keys r = sc) :
    (((Pl.joinRow pc (rcsOf how suffix onP onS pc sc) rp (rs.map (extRow (orphanOf onP onS)))).setAll
        ((coalesceColsOf cfg how onP pc sc).map (fun c => (c, coalVal preferP
          (Row.get (Pl.joinRow pc (rcsOf how suffix onP onS pc sc) rp (rs.map (extRow (orphanOf onP onS)))) c)
          (Row.get (Pl.joinRow pc (rcsOf how suffix onP onS pc sc) rp (rs.map (extRow (orphanOf onP onS))))
            (c ++ suffix)))))).rename (plRenameFn (orphanOf onP onS))).select oc
    = oc.map (fun c => (c, Pl.coreCell (coalesceColsOf cfg how onP pc sc) preferP pc c rp rs)) := by
  generalize hr0 : Pl.joinRow pc (rcsOf how suffix onP onS pc sc) rp (rs.map (extRow (orphanOf onP onS))) = r0
  generalize hcc : coalesceColsOf cfg how onP pc sc = cc
  have hk0 : Row.keys r0 = outOf how suffix onP onS pc sc := by rw [← hr0, keys_joinRow]; rfl
  have hpcn : pc.Nodup := nodup_pc_of_out H.nodupOut
  have hccn : cc.Nodup := by rw [← hcc]; exact coalesceColsOf_nodup hpcn
  have hccsub : ∀ c ∈ cc, c ∈ pc ∧ c ∈ sc := fun c hc => coalesceColsOf_sub (hcc ▸ hc)
  -- the coalesced row keeps its columns
  generalize hkvs : cc.map (fun c => (c, coalVal preferP (Row.get r0 c) (Row.get r0 (c ++ suffix)))) = kvs
  have hkvk : kvs.map (·.1) = cc := by rw [← hkvs]; simp [List.map_map, Function.comp_def]
  have hk1 : Row.keys (r0.setAll kvs) = outOf how suffix onP onS pc sc := by
    rw [PlRow.keys_setAll, hk0]
    intro kv hkv
    rw [hk0]
    have : kv.1 ∈ cc := by rw [← hkvk]; exact List.mem_map.mpr ⟨kv, hkv, rfl⟩
    exact List.mem_append_left _ (hccsub _ this).1
  simp only [Row.select]
  apply List.map_congr_left
  intro c hc
  congr 1
  obtain ⟨k, hk, hfk⟩ := List.mem_map.mp (H.ocMem c hc)
  rw [← hfk, PlRow.get_rename_of_mem (by rw [hk1]; exact H.nodupRen) (by rw [hk1]; exact hk)]
  -- cells of r0
  have hget_p : ∀ c ∈ pc, Row.get r0 c = Pl.ocell rp c := fun c hc => by rw [← hr0]; exact get_joinRow_left hc
  have hget_s : ∀ n src, (n, src) ∈ rcsOf how suffix onP onS pc sc →
      Row.get r0 n = Pl.ocell (rs.map (extRow (orphanOf onP onS))) src := fun n src h => by
    rw [← hr0]; exact get_joinRow_right H.nodupOut h
  rcases List.mem_append.mp hk with hkp | hks
  · -- a column of P keeps its name
    have hf : plRenameFn (orphanOf onP onS) k = k := by
      apply plRenameFn_other
      intro o ho e
      exact (H.freshTmp o (mem_orphanOf.mp ho).1).1 (e ▸ hkp)
    rw [hf]
    have hcon : pc.contains k = true := List.contains_iff_mem.mpr hkp
    simp only [Pl.coreCell, hcon, if_true]
    by_cases hkc : k ∈ cc
    · have hcon2 : cc.contains k = true := List.contains_iff_mem.mpr hkc
      rw [hcon2, if_pos rfl]
      have hmem : (k, coalVal preferP (Row.get r0 k) (Row.get r0 (k ++ suffix))) ∈ kvs := by
        rw [← hkvs]; exact List.mem_map.mpr ⟨k, hkc, rfl⟩
      rw [PlRow.get_setAll_mem r0 kvs (by rw [hkvk]; exact hccn) hmem, hget_p k hkp]
      have hkept := coalesce_kept (cfg := cfg) (how := how) (onP := onP) (sc := sc) H.orphanNotP (hcc ▸ hkc)
      have hm := mem_rcsOf_of_sc (how := how) (suffix := suffix) (onP := onP) (onS := onS) (pc := pc)
        (hccsub k hkc).2 hkept
      rw [hcon, if_pos rfl] at hm
      rw [hget_s _ _ hm, ocell_extRow_of_mem hrs (hccsub k hkc).2]
    · have hcon2 : cc.contains k = false := by
        cases h : cc.contains k with
        | false => rfl
        | true => exact absurd (List.contains_iff_mem.mp h) hkc
      rw [hcon2]
      simp only [Bool.false_eq_true, if_false]
      rw [PlRow.get_setAll_not_mem r0 kvs (by rw [hkvk]; exact hkc), hget_p k hkp]
  · -- a column that came from S
    obtain ⟨⟨n, src⟩, hmem, hn⟩ := List.mem_map.mp hks
    simp only at hn
    subst hn
    have hnp : n ∉ pc := fun hp => (List.nodup_append.mp H.nodupOut).2.2 n hp n hks rfl
    have hncc : n ∉ kvs.map (·.1) := by rw [hkvk]; exact fun h => hnp (hccsub n h).1
    rw [PlRow.get_setAll_not_mem r0 kvs hncc, hget_s n src hmem]
    obtain ⟨hname, hsrc⟩ := mem_rcsOf_cases hmem
    rcases hsrc with hsc | ⟨o, ho, rfl⟩
    · -- an original column of S
      by_cases hcl : pc.contains src = true
      · -- suffixed: cannot be requested
        exfalso
        rw [hcl, if_pos rfl] at hname
        have hf : plRenameFn (orphanOf onP onS) n = n := by
          apply plRenameFn_other
          intro o' ho' e
          -- two entries of the join result with the same name
          have h1 := mem_rcsOf_tmp (how := how) (suffix := suffix) (pc := pc) ho' H.keysS H.freshTmp
          have hnd : ((rcsOf how suffix onP onS pc sc).map (·.1)).Nodup := (List.nodup_append.mp H.nodupOut).2.1
          have := pl_inj_on_of_nodup_map hnd h1 hmem (by simpa using e)
          have hh : keyTmp o' = src := congrArg Prod.snd this
          exact (H.freshTmp o' (mem_orphanOf.mp ho').1).2 (hh ▸ hsc)
        rw [hf] at hfk
        exact H.freshSuffix src hsc (by rw [← hname, hfk]; exact hc)
      · have hcl' : pc.contains src = false := by
          cases h : pc.contains src with
          | false => rfl
          | true => exact absurd h hcl
        rw [hcl'] at hname
        simp only [Bool.false_eq_true, if_false] at hname
        subst hname
        have hf : plRenameFn (orphanOf onP onS) n = n := by
          apply plRenameFn_other
          intro o' ho' e
          exact (H.freshTmp o' (mem_orphanOf.mp ho').1).2 (e ▸ hsc)
        rw [hf, ocell_extRow_of_mem hrs hsc]
        simp only [Pl.coreCell, hcl', Bool.false_eq_true, if_false]
    · -- the temporary copy of an orphan key
      have ho' := mem_orphanOf.mp ho
      have hcl' : pc.contains (keyTmp o) = false := by
        cases h : pc.contains (keyTmp o) with
        | false => rfl
        | true => exact absurd (List.contains_iff_mem.mp h) (H.freshTmp o ho'.1).1
      rw [hcl'] at hname
      simp only [Bool.false_eq_true, if_false] at hname
      subst hname
      rw [plRenameFn_tmp _ ho, ocell_extRow_tmp hrs ho (H.freshTmp o ho'.1).2]
      have hop : pc.contains o = false := by
        cases h : pc.contains o with
        | false => rfl
        | true => exact absurd (List.contains_iff_mem.mp h) (H.orphanNotP o ho'.1 ho'.2)
      simp only [Pl.coreCell, hop, Bool.false_eq_true, if_false]

/-! ### all rows of `joinCore` -/

theorem keyOf_extRow {orphan onS : List String} {r : Row} (h : ∀ c ∈ onS, c ∈ Row.keys r) :
    keyOf (extRow orphan r) onS = keyOf r onS := by
  simp only [keyOf, Row.vals]
  apply List.map_congr_left
  intro c hc
  exact PlRow.get_append_left (h c hc)

/-- the three groups of rows of a join, for a row constructor `mk` and a match relation `m` -/
def joinRows {α : Type} (m : Row → Row → Bool) (mk : Option Row → Option Row → α) (keepL keepR : Bool)
    (pr sr : List Row) : List α :=
  pr.flatMap (fun rp => (sr.filter (fun rs => m rp rs)).map (fun rs => mk (some rp) (some rs))) ++
  (if keepL then (pr.filter (fun rp => !(sr.any (fun rs => m rp rs)))).map (fun rp => mk (some rp) none) else []) ++
  (if keepR then (sr.filter (fun rs => !(pr.any (fun rp => m rp rs)))).map (fun rs => mk none (some rs)) else [])

theorem joinRows_map {α β : Type} (m : Row → Row → Bool) (mk : Option Row → Option Row → α) (f : α → β)
    (keepL keepR : Bool) (pr sr : List Row) :
    (joinRows m mk keepL keepR pr sr).map f = joinRows m (fun a b => f (mk a b)) keepL keepR pr sr := by
  simp only [joinRows, List.map_append, List.map_flatMap, List.map_map, Function.comp_def]
  cases keepL <;> cases keepR <;> simp [List.map_map, Function.comp_def]

theorem joinRows_congr {α : Type} {m : Row → Row → Bool} {mk mk' : Option Row → Option Row → α}
    {keepL keepR : Bool} {pr sr : List Row}
    (h : ∀ rp rs, (∀ r, rp = some r → r ∈ pr) → (∀ r, rs = some r → r ∈ sr) → mk rp rs = mk' rp rs) :
    joinRows m mk keepL keepR pr sr = joinRows m mk' keepL keepR pr sr := by
  unfold joinRows
  congr 1
  · congr 1
    · apply pl_flatMap_congr
      intro rp hrp
      apply List.map_congr_left
      intro rs hrs
      exact h _ _ (fun r e => by cases e; exact hrp) (fun r e => by cases e; exact (List.mem_filter.mp hrs).1)
    · cases keepL with
      | false => rfl
      | true =>
        simp only [if_true]
        apply List.map_congr_left
        intro rp hrp
        exact h _ _ (fun r e => by cases e; exact (List.mem_filter.mp hrp).1) (fun r e => by cases e)
  · cases keepR with
    | false => rfl
    | true =>
      simp only [if_true]
      apply List.map_congr_left
      intro rs hrs
      exact h _ _ (fun r e => by cases e) (fun r e => by cases e; exact (List.mem_filter.mp hrs).1)

/-- the rows of the `Pl.join` call inside `joinCore`, over the rows of `S` itself (the temporary key copies do not
change which rows match) -/
theorem join_rows_ext {how : Pl.How} {onP onS : List String} {orphan : List String} {P S : Table}
    (hwS : S.WF) (hS : ∀ c ∈ onS, c ∈ S.cols) (rcs : List (String × String)) :
    (P.rows.flatMap (fun rl => ((S.rows.map (extRow orphan)).filter
        (fun rr => Pl.keyMatch (keyOf rl onP) (keyOf rr onS))).map
        (fun rr => Pl.joinRow P.cols rcs (some rl) (some rr))) ++
      (if how != .inner then
        (P.rows.filter (fun rl => !((S.rows.map (extRow orphan)).any
          (fun rr => Pl.keyMatch (keyOf rl onP) (keyOf rr onS))))).map
          (fun rl => Pl.joinRow P.cols rcs (some rl) none)
       else []) ++
      (if how == .full then
        ((S.rows.map (extRow orphan)).filter (fun rr => !(P.rows.any
          (fun rl => Pl.keyMatch (keyOf rl onP) (keyOf rr onS))))).map
          (fun rr => Pl.joinRow P.cols rcs none (some rr))
       else []))
    = joinRows (fun rp rs => Pl.keyMatch (keyOf rp onP) (keyOf rs onS))
        (fun rp rs => Pl.joinRow P.cols rcs rp (rs.map (extRow orphan))) (how != .inner) (how == .full) P.rows S.rows := by
  have hk : ∀ r ∈ S.rows, keyOf (extRow orphan r) onS = keyOf r onS := fun r hr =>
    keyOf_extRow (fun c hc => by rw [hwS r hr]; exact hS c hc)
  have hfilt : ∀ (q : List Val → Bool), (S.rows.map (extRow orphan)).filter (fun rr => q (keyOf rr onS))
      = (S.rows.filter (fun rs => q (keyOf rs onS))).map (extRow orphan) := by
    intro q
    rw [List.filter_map]
    congr 1
    apply List.filter_congr
    intro r hr
    simp only [Function.comp_def, hk r hr]
  have hany : ∀ (q : List Val → Bool), (S.rows.map (extRow orphan)).any (fun rr => q (keyOf rr onS))
      = S.rows.any (fun rs => q (keyOf rs onS)) := by
    intro q
    rw [List.any_map]
    apply pl_any_congr
    intro r hr
    simp only [Function.comp_def, hk r hr]
  unfold joinRows
  congr 1
  · congr 1
    · apply pl_flatMap_congr
      intro rl _
      rw [hfilt (fun k => Pl.keyMatch (keyOf rl onP) k), List.map_map]
      rfl
    · split
      · congr 1
        apply List.filter_congr
        intro rl _
        rw [hany (fun k => Pl.keyMatch (keyOf rl onP) k)]
      · rfl
  · split
    · rw [hfilt (fun k => !(P.rows.any (fun rl => Pl.keyMatch (keyOf rl onP) k))), List.map_map]
      rfl
    · rfl

/-- **`joinCore` in closed form.**  When the post-processing of `_natural_join_step` succeeds, its result has the
requested columns and one row per matching pair / unmatched `P` row (for `left`, `full`) / unmatched `S` row (for
`full`), whose cells are `Pl.coreCell`. -/
theorem joinCore_rows {cfg : Pl.Cfg} {how : Pl.How} {preferP : Bool} {suffix : String} {onP onS : List String}
    {P S : Table} {oc : List String} {t : Table}
    (hwS : S.WF) (hS : ∀ c ∈ onS, c ∈ S.cols)
    (hfT : ∀ o ∈ onS, keyTmp o ∉ P.cols ∧ keyTmp o ∉ S.cols)
    (hfS : ∀ c ∈ S.cols, c ++ suffix ∉ oc)
    (horph : ∀ o ∈ onS, o ∉ onP → o ∉ P.cols)
    (h : joinCore cfg how preferP suffix onP onS P S oc = .ok t) :
    t.cols = oc ∧ onP.isEmpty = false ∧
    t.rows = joinRows (fun rp rs => Pl.keyMatch (keyOf rp onP) (keyOf rs onS))
      (fun rp rs => oc.map (fun c => (c, Pl.coreCell (coalesceColsOf cfg how onP P.cols S.cols) preferP P.cols c rp rs)))
      (how != .inner) (how == .full) P.rows S.rows := by
  unfold joinCore at h
  dsimp only at h
  split at h
  · cases h
  · rename_i res hres
    obtain ⟨hne, hnd, hcols, hrows⟩ := Pl.join_ok hres
    by_cases h1 : ¬ ((coalesceColsOf cfg how onP P.cols S.cols).all (fun c => res.cols.contains (c ++ suffix)) = true)
    · rw [if_pos h1] at h; cases h
    · rw [if_neg h1] at h
      split at h
      · cases h
      · rename_i res2 hres2
        obtain ⟨_, hnd2, hres2e⟩ := Pl.rename_ok hres2
        by_cases h2 : ¬ (oc.all (fun c => res2.cols.contains c) = true)
        · rw [if_pos h2] at h; cases h
        · rw [if_neg h2] at h
          injection h with h
          subst h
          refine ⟨rfl, hne, ?_⟩
          have H : CoreHyps how suffix onP onS P.cols S.cols oc := by
            refine ⟨hS, hfT, hfS, horph, hnd, ?_, ?_⟩
            · have h3 := hnd2
              simp only [hcols] at h3
              exact h3
            · intro c hc
              have h2' : oc.all (fun c => res2.cols.contains c) = true := by simpa using h2
              have := List.all_eq_true.mp h2' c hc
              rw [hres2e] at this
              simp only [hcols] at this
              exact List.contains_iff_mem.mp this
          rw [hres2e]
          simp only [Table.selectCols, List.map_map, hrows]
          rw [join_rows_ext hwS hS, joinRows_map]
          apply joinRows_congr
          intro rp rs _ hrs
          exact core_row cfg preferP H rp rs (fun r e => hwS r (hrs r e))

/-! ### the Pandas side in the same form -/

/-- the cell of the Pandas executor's join row (`DAVerif.joinRow`) -/
def pdCell (ca cb : List String) (c : String) (ra rb : Option Row) : Val :=
  let av : Val := match ra with | some r => if ca.contains c then r.get c else .null | none => .null
  let bv : Val := match rb with | some r => if cb.contains c then r.get c else .null | none => .null
  if av.isNull then bv else av

theorem pl_joinRow_eq (ca cb oc : List String) (ra rb : Option Row) :
    DAVerif.joinRow ca cb oc ra rb = oc.map (fun c => (c, pdCell ca cb c ra rb)) := by
  cases ra <;> cases rb <;> rfl

theorem pl_semJoin_rows (cfg : SemCfg) (jt : JoinType) (onA onB : List String) (ta tb : Table) (all : List String) :
    (semJoin cfg jt onA onB ta tb all).rows =
      joinRows (fun ra rb => (jt == .cross || onA.isEmpty) || keyMatch cfg (keyOf ra onA) (keyOf rb onB))
        (DAVerif.joinRow ta.cols tb.cols all)
        (jt == .left || jt == .full || jt == .outer || (jt == .cross && cfg.crossAsOuter))
        (jt == .right || jt == .full || jt == .outer || (jt == .cross && cfg.crossAsOuter)) ta.rows tb.rows := rfl

theorem pl_isNull_eq_null {v : Val} (h : v.isNull = true) : v = .null := by
  cases v <;> simp_all [Val.isNull]

/-! ### match relations -/

theorem pl_keys_nonnull_of_eq {fa fb : String → Val} :
    ∀ (onA onB : List String), (onA.map fa == onB.map fb) = true →
      (∀ ab ∈ onA.zip onB, ¬ ((fa ab.1).isNull = true ∧ (fb ab.2).isNull = true)) →
      (onA.map fa).all (fun v => !v.isNull) = true
  | [], _, _, _ => rfl
  | a :: as, [], h, _ => by simp at h
  | a :: as, b :: bs, h, hn => by
    simp only [List.map_cons, List.cons_beq_cons, Bool.and_eq_true] at h
    simp only [List.map_cons, List.all_cons, Bool.and_eq_true]
    refine ⟨?_, pl_keys_nonnull_of_eq as bs h.2 (fun ab hab => hn ab (List.mem_cons_of_mem _ hab))⟩
    have e : fa a = fb b := eq_of_beq h.1
    cases hv : (fa a).isNull with
    | false => rfl
    | true => exact absurd ⟨hv, e ▸ hv⟩ (hn (a, b) (List.mem_cons_self ..))

/-- under the guard of D18 (no key column pair with a null on both sides) the Polars and the Pandas match
relations coincide on the rows of the two inputs -/
theorem keyMatch_eq_of_guard {onA onB : List String} {ta tb : Table} {ra rb : Row}
    (hg : (onA.zip onB).any (fun ab => ta.rows.any (fun r => (r.get ab.1).isNull) &&
      tb.rows.any (fun r => (r.get ab.2).isNull)) = false)
    (ha : ra ∈ ta.rows) (hb : rb ∈ tb.rows) :
    Pl.keyMatch (keyOf ra onA) (keyOf rb onB) = (keyOf ra onA == keyOf rb onB) := by
  unfold Pl.keyMatch
  cases he : keyOf ra onA == keyOf rb onB with
  | false => rfl
  | true =>
    simp only [Bool.true_and]
    apply pl_keys_nonnull_of_eq onA onB he
    intro ab hab hn
    have : (onA.zip onB).any (fun ab => ta.rows.any (fun r => (r.get ab.1).isNull) &&
        tb.rows.any (fun r => (r.get ab.2).isNull)) = true := by
      apply List.any_eq_true.mpr
      refine ⟨ab, hab, ?_⟩
      simp only [Bool.and_eq_true]
      exact ⟨List.any_eq_true.mpr ⟨ra, ha, hn.1⟩, List.any_eq_true.mpr ⟨rb, hb, hn.2⟩⟩
    rw [this] at hg
    cases hg

theorem joinRows_congr_match {α : Type} {m m' : Row → Row → Bool} {mk : Option Row → Option Row → α}
    {keepL keepR : Bool} {pr sr : List Row} (h : ∀ rp ∈ pr, ∀ rs ∈ sr, m rp rs = m' rp rs) :
    joinRows m mk keepL keepR pr sr = joinRows m' mk keepL keepR pr sr := by
  unfold joinRows
  congr 1
  · congr 1
    · apply pl_flatMap_congr
      intro rp hrp
      congr 1
      apply List.filter_congr
      intro rs hrs
      exact h rp hrp rs hrs
    · cases keepL with
      | false => rfl
      | true =>
        simp only [if_true]
        congr 1
        apply List.filter_congr
        intro rp hrp
        rw [pl_any_congr (fun rs hrs => h rp hrp rs hrs)]
  · cases keepR with
    | false => rfl
    | true =>
      simp only [if_true]
      congr 1
      apply List.filter_congr
      intro rs hrs
      rw [pl_any_congr (fun rp hrp => h rp hrp rs hrs)]

/-- row-group form of `joinRows_congr` that knows which group a row is in -/
theorem joinRows_congr_groups {α : Type} {m : Row → Row → Bool} {mk mk' : Option Row → Option Row → α}
    {keepL keepR : Bool} {pr sr : List Row}
    (hpair : ∀ rp ∈ pr, ∀ rs ∈ sr, m rp rs = true → mk (some rp) (some rs) = mk' (some rp) (some rs))
    (hleft : keepL = true → ∀ rp ∈ pr, mk (some rp) none = mk' (some rp) none)
    (hright : keepR = true → ∀ rs ∈ sr, (pr.any (fun rp => m rp rs)) = false → mk none (some rs) = mk' none (some rs)) :
    joinRows m mk keepL keepR pr sr = joinRows m mk' keepL keepR pr sr := by
  unfold joinRows
  congr 1
  · congr 1
    · apply pl_flatMap_congr
      intro rp hrp
      apply List.map_congr_left
      intro rs hrs
      have := List.mem_filter.mp hrs
      exact hpair rp hrp rs this.1 this.2
    · cases keepL with
      | false => rfl
      | true =>
        simp only [if_true]
        apply List.map_congr_left
        intro rp hrp
        exact hleft rfl rp (List.mem_filter.mp hrp).1
  · cases keepR with
    | false => rfl
    | true =>
      simp only [if_true]
      apply List.map_congr_left
      intro rs hrs
      have := List.mem_filter.mp hrs
      exact hright rfl rs this.1 (by simpa using this.2)

/-! ### cells: `Pl.coreCell` against the Pandas cell -/

theorem pl_mem_keyOf_nonnull {r : Row} {on : List String} {c : String}
    (h : (keyOf r on).all (fun v => !v.isNull) = true) (hc : c ∈ on) : (r.get c).isNull = false := by
  have := List.all_eq_true.mp h (r.get c) (List.mem_map.mpr ⟨c, hc, rfl⟩)
  simpa using this

theorem not_mem_coalesce_of_common {cfg : Pl.Cfg} {how : Pl.How} {onP pc sc : List String} {c : String}
    (hp : c ∈ pc) (hs : c ∈ sc) (hn : c ∉ coalesceColsOf cfg how onP pc sc) :
    c ∈ onP ∧ ((how == .full && cfg.fullCoalesceKeys) = false) := by
  unfold coalesceColsOf at hn
  split at hn
  · exact absurd (List.mem_filter.mpr ⟨hp, List.contains_iff_mem.mpr hs⟩) hn
  · rename_i hf
    refine ⟨?_, by simpa using hf⟩
    by_cases hc : c ∈ onP
    · exact hc
    · exfalso
      apply hn
      apply List.mem_filter.mpr
      exact ⟨List.mem_filter.mpr ⟨hp, List.contains_iff_mem.mpr hs⟩, by simp [hc]⟩

theorem pl_contains_false_of_not_mem {l : List String} {c : String} (h : c ∉ l) : l.contains c = false := by
  cases hc : l.contains c with
  | false => rfl
  | true => exact absurd (List.contains_iff_mem.mp hc) h

/-- branch 1 (`P = a`, `S = b`, `P`'s cell preferred): the Polars cell is the Pandas cell, except for a right-only
row of a full join whose same-named key is not coalesced (D20) -/
theorem coreCell_eq_pd_direct {cfg : Pl.Cfg} {how : Pl.How} {onA ca cb : List String} {c : String}
    {ra rb : Option Row} (hc : c ∈ ca ∨ c ∈ cb)
    (hkey : ∀ r, ra = some r → rb ≠ none → c ∈ onA → (r.get c).isNull = false)
    (hro : ra = none → c ∈ ca → c ∈ cb → c ∈ coalesceColsOf cfg how onA ca cb) :
    Pl.coreCell (coalesceColsOf cfg how onA ca cb) true ca c ra rb = pdCell ca cb c ra rb := by
  unfold Pl.coreCell pdCell
  by_cases hca : c ∈ ca
  · have h1 : ca.contains c = true := List.contains_iff_mem.mpr hca
    simp only [h1, if_true]
    by_cases hcc : c ∈ coalesceColsOf cfg how onA ca cb
    · have h2 : (coalesceColsOf cfg how onA ca cb).contains c = true := List.contains_iff_mem.mpr hcc
      have h3 : cb.contains c = true := List.contains_iff_mem.mpr (coalesceColsOf_sub hcc).2
      simp only [h2, h3, if_true, coalVal]
      cases ra <;> cases rb <;> rfl
    · have h2 : (coalesceColsOf cfg how onA ca cb).contains c = false := pl_contains_false_of_not_mem hcc
      simp only [h2, Bool.false_eq_true, if_false]
      cases ra with
      | none =>
        -- a right-only row: only harmless when c is not a column of b
        by_cases hcb : c ∈ cb
        · exact absurd (hro rfl hca hcb) hcc
        · have h3 : cb.contains c = false := pl_contains_false_of_not_mem hcb
          cases rb <;> simp [Pl.ocell, hcb, Val.isNull]
      | some r =>
        simp only [Pl.ocell]
        cases hv : (r.get c).isNull with
        | false => simp
        | true =>
          simp only [if_true]
          rw [pl_isNull_eq_null hv]
          cases rb with
          | none => rfl
          | some r' =>
            by_cases hcb : c ∈ cb
            · have hon := (not_mem_coalesce_of_common hca hcb hcc).1
              have := hkey r rfl (by simp) hon
              rw [hv] at this
              cases this
            · simp [hcb]
  · have h1 : ca.contains c = false := pl_contains_false_of_not_mem hca
    have hcb : c ∈ cb := hc.resolve_left hca
    have h3 : cb.contains c = true := List.contains_iff_mem.mpr hcb
    simp only [h1, h3, Bool.false_eq_true, if_false, if_true]
    cases ra <;> cases rb <;> simp [Pl.ocell, Val.isNull]

/-- the RIGHT branch (`P = b`, `S = a`, `how = "left"`, `S`'s cell preferred) -/
theorem coreCell_eq_pd_swapped {cfg : Pl.Cfg} {onB ca cb : List String} {c : String}
    {ra : Option Row} {rb : Row} (hc : c ∈ ca ∨ c ∈ cb)
    (hkey : ∀ r, ra = some r → c ∈ onB → c ∈ ca → r.get c = rb.get c) :
    Pl.coreCell (coalesceColsOf cfg .left onB cb ca) false cb c (some rb) ra = pdCell ca cb c ra (some rb) := by
  unfold Pl.coreCell pdCell
  by_cases hcb : c ∈ cb
  · have h1 : cb.contains c = true := List.contains_iff_mem.mpr hcb
    simp only [h1, if_true]
    by_cases hcc : c ∈ coalesceColsOf cfg .left onB cb ca
    · have h2 : (coalesceColsOf cfg .left onB cb ca).contains c = true := List.contains_iff_mem.mpr hcc
      have h3 : ca.contains c = true := List.contains_iff_mem.mpr (coalesceColsOf_sub hcc).2
      simp only [h2, h3, if_true, coalVal, Bool.false_eq_true, if_false]
      cases ra <;> rfl
    · have h2 : (coalesceColsOf cfg .left onB cb ca).contains c = false := pl_contains_false_of_not_mem hcc
      simp only [h2, Bool.false_eq_true, if_false, Pl.ocell]
      cases ra with
      | none => simp [Val.isNull]
      | some r =>
        by_cases hca : c ∈ ca
        · have hon := (not_mem_coalesce_of_common hcb hca hcc).1
          have e := hkey r rfl hon hca
          have h3 : ca.contains c = true := List.contains_iff_mem.mpr hca
          simp only [h3, if_true, e]
          cases (rb.get c).isNull <;> simp
        · simp [hca, Val.isNull]
  · have h1 : cb.contains c = false := pl_contains_false_of_not_mem hcb
    have hca : c ∈ ca := hc.resolve_right hcb
    have h3 : ca.contains c = true := List.contains_iff_mem.mpr hca
    simp only [h1, h3, Bool.false_eq_true, if_false, if_true, Pl.ocell]
    cases ra with
    | none => simp [Val.isNull]
    | some r =>
      cases hv : (r.get c).isNull with
      | false => simp
      | true => simp [pl_isNull_eq_null hv]

/-! ### swapping the roles of the two frames (right join as left join) -/

theorem pl_flatMap_append_perm {α β : Type} (f g : α → List β) :
    ∀ (l : List α), (l.flatMap (fun x => f x ++ g x)).Perm (l.flatMap f ++ l.flatMap g)
  | [] => by simp
  | a :: l => by
    simp only [List.flatMap_cons]
    have ih := pl_flatMap_append_perm f g l
    -- (f a ++ g a) ++ X  ~  (f a ++ F) ++ (g a ++ G)   with X ~ F ++ G
    refine (List.Perm.append_left _ ih).trans ?_
    rw [List.append_assoc, List.append_assoc]
    apply List.Perm.append_left
    rw [← List.append_assoc, ← List.append_assoc]
    exact List.Perm.append_right _ List.perm_append_comm

theorem pl_flatMap_ite_eq_filter_map {β γ : Type} (p : β → Bool) (f : β → γ) :
    ∀ (l : List β), l.flatMap (fun b => if p b then [f b] else []) = (l.filter p).map f
  | [] => rfl
  | b :: l => by
    simp only [List.flatMap_cons, List.filter_cons]
    rw [pl_flatMap_ite_eq_filter_map p f l]
    cases p b <;> simp

theorem pl_flatMap_filter_swap {α β γ : Type} (m : α → β → Bool) (f : α → β → γ) (sr : List β) :
    ∀ (pr : List α), (pr.flatMap (fun a => (sr.filter (m a)).map (f a))).Perm
      (sr.flatMap (fun b => (pr.filter (fun a => m a b)).map (fun a => f a b)))
  | [] => by simp
  | a :: pr => by
    simp only [List.flatMap_cons]
    have ih := pl_flatMap_filter_swap m f sr pr
    have h1 : (fun b => ((a :: pr).filter (fun a => m a b)).map (fun a => f a b))
        = (fun b => (if m a b then [f a b] else []) ++ (pr.filter (fun a => m a b)).map (fun a => f a b)) := by
      funext b
      simp only [List.filter_cons]
      cases m a b <;> simp
    rw [h1]
    refine List.Perm.trans ?_ (pl_flatMap_append_perm _ _ sr).symm
    rw [pl_flatMap_ite_eq_filter_map]
    exact List.Perm.append_left _ ih

theorem joinRows_swap {α : Type} (m : Row → Row → Bool) (mk : Option Row → Option Row → α) (keepL keepR : Bool)
    (pr sr : List Row) :
    (joinRows m mk keepL keepR pr sr).Perm
      (joinRows (fun a b => m b a) (fun a b => mk b a) keepR keepL sr pr) := by
  unfold joinRows
  rw [List.append_assoc, List.append_assoc]
  exact List.Perm.append (pl_flatMap_filter_swap m (fun a b => mk (some a) (some b)) sr pr) List.perm_append_comm

/-! ### key columns at the same position -/

theorem pl_keys_zip_eq {fa fb : String → Val} :
    ∀ (onA onB : List String), (onA.map fa == onB.map fb) = true → ∀ ab ∈ onA.zip onB, fa ab.1 = fb ab.2
  | [], _, _, ab, h => by simp at h
  | _ :: _, [], _, ab, h => by simp at h
  | a :: as, b :: bs, h, ab, hab => by
    simp only [List.map_cons, List.cons_beq_cons, Bool.and_eq_true] at h
    simp only [List.zip_cons_cons, List.mem_cons] at hab
    rcases hab with rfl | hab
    · exact eq_of_beq h.1
    · exact pl_keys_zip_eq as bs h.2 ab hab

theorem pl_exists_zip_of_mem_right : ∀ {onA onB : List String}, onA.length = onB.length → ∀ {b : String}, b ∈ onB →
    ∃ a, (a, b) ∈ onA.zip onB
  | [], [], _, b, h => by cases h
  | [], _ :: _, hl, _, _ => by simp at hl
  | _ :: _, [], hl, _, _ => by simp at hl
  | a :: as, b' :: bs, hl, b, h => by
    simp only [List.length_cons, Nat.add_right_cancel_iff] at hl
    rcases List.mem_cons.mp h with rfl | h'
    · exact ⟨a, by simp⟩
    · obtain ⟨a', ha'⟩ := pl_exists_zip_of_mem_right hl h'
      exact ⟨a', by simp [ha']⟩

theorem pl_exists_zip_of_mem_left : ∀ {onA onB : List String}, onA.length = onB.length → ∀ {a : String}, a ∈ onA →
    ∃ b, (a, b) ∈ onA.zip onB
  | [], [], _, a, h => by cases h
  | [], _ :: _, hl, _, _ => by simp at hl
  | _ :: _, [], hl, _, _ => by simp at hl
  | a' :: as, b :: bs, hl, a, h => by
    simp only [List.length_cons, Nat.add_right_cancel_iff] at hl
    rcases List.mem_cons.mp h with rfl | h'
    · exact ⟨b, by simp⟩
    · obtain ⟨b', hb'⟩ := pl_exists_zip_of_mem_left hl h'
      exact ⟨b', by simp [hb']⟩

theorem pl_sane_pair {ca cb onA onB : List String} (h : joinKeysSane ca cb onA onB = true) {a b : String}
    (hab : (a, b) ∈ onA.zip onB) : a = b ∨ (a ∉ cb ∧ b ∉ ca) := by
  have := List.all_eq_true.mp h (a, b) hab
  simp only [Bool.or_eq_true, beq_iff_eq, Bool.and_eq_true, Bool.not_eq_true', ] at this
  rcases this with e | ⟨h1, h2⟩
  · exact Or.inl e
  · right
    constructor
    · intro hm; rw [List.contains_iff_mem.mpr hm] at h1; cases h1
    · intro hm; rw [List.contains_iff_mem.mpr hm] at h2; cases h2

/-! ### the join step -/

/-- what `_natural_join_step` needs of the key specification and the column names (all static): keys are columns,
differently named key columns do not occur on the other side (`joinKeysSane`, the fragment of the shared model),
the requested columns come from the inputs, and no input column carries one of the scratch names of the step
(`<c>_da_right_tmp`, `<c>_da_left_tmp`, `<key>_da_join_tmp_key`; D23 / C15) -/
structure JoinOK (onA onB ca cb oc : List String) : Prop where
  keysA : ∀ c ∈ onA, c ∈ ca
  keysB : ∀ c ∈ onB, c ∈ cb
  len : onA.length = onB.length
  sane : joinKeysSane ca cb onA onB = true
  ocSub : ∀ c ∈ oc, c ∈ ca ∨ c ∈ cb
  freshTmp : ∀ o, (o ∈ onA ∨ o ∈ onB) → keyTmp o ∉ ca ∧ keyTmp o ∉ cb
  freshR : ∀ c ∈ cb, c ++ rightTmp ∉ oc
  freshL : ∀ c ∈ ca, c ++ leftTmp ∉ oc

theorem pl_pandas_keyMatch (ka kb : List Val) : keyMatch SemCfg.pandas ka kb = (ka == kb) := by
  simp [keyMatch, SemCfg.pandas]

theorem pl_select_joinRow {ca cb all oc : List String} (h : ∀ c ∈ oc, c ∈ all) (ra rb : Option Row) :
    (DAVerif.joinRow ca cb all ra rb).select oc = DAVerif.joinRow ca cb oc ra rb := by
  rw [pl_joinRow_eq, pl_joinRow_eq, PlRow.select_map_mk h]

/-- rows of the Pandas join, restricted to the requested columns, for a join that is not CROSS and has keys -/
theorem pl_semJoin_select_rows {jt : JoinType} {onA onB : List String} {ta tb : Table} {all oc : List String}
    (hc : jt ≠ .cross) (hne : onA.isEmpty = false) (h : ∀ c ∈ oc, c ∈ all) :
    ((semJoin SemCfg.pandas jt onA onB ta tb all).selectCols oc).rows =
      joinRows (fun ra rb => keyOf ra onA == keyOf rb onB) (DAVerif.joinRow ta.cols tb.cols oc)
        (jt == .left || jt == .full || jt == .outer) (jt == .right || jt == .full || jt == .outer) ta.rows tb.rows := by
  simp only [Table.selectCols, pl_semJoin_rows, joinRows_map, pl_select_joinRow h]
  have hcr : (jt == JoinType.cross) = false := by cases jt <;> simp_all
  simp only [hcr, hne, Bool.false_or, pl_pandas_keyMatch, Bool.false_and, Bool.or_false]

/-- **Inner, left and full joins** (`how != "right"` branch): the rows of the Polars step are the rows of the
Pandas join -/
theorem pl_join_direct_sound {cfg : Pl.Cfg} {jt : JoinType} {how : Pl.How} {onA onB : List String} {ta tb : Table}
    {oc all : List String} {t : Table}
    (hjt : (jt = .inner ∧ how = .inner) ∨ (jt = .left ∧ how = .left) ∨ ((jt = .full ∨ jt = .outer) ∧ how = .full))
    (hwb : tb.WF) (J : JoinOK onA onB ta.cols tb.cols oc) (hall : ∀ c ∈ oc, c ∈ all)
    (hg : Pl.joinViol cfg jt onA onB ta tb = [])
    (h : joinCore cfg how true rightTmp onA onB ta tb oc = .ok t) :
    t ≈ (semJoin SemCfg.pandas jt onA onB ta tb all).selectCols oc := by
  simp only [Pl.joinViol, List.append_eq_nil_iff] at hg
  have hnk : (onA.zip onB).any (fun ab => ta.rows.any (fun r => (r.get ab.1).isNull) &&
      tb.rows.any (fun r => (r.get ab.2).isNull)) = false := by
    cases hh : (onA.zip onB).any (fun ab => ta.rows.any (fun r => (r.get ab.1).isNull) &&
      tb.rows.any (fun r => (r.get ab.2).isNull)) with
    | false => rfl
    | true => simp [hh] at hg
  have horph : ∀ o ∈ onB, o ∉ onA → o ∉ ta.cols := by
    intro o ho hno
    obtain ⟨a, hab⟩ := pl_exists_zip_of_mem_right J.len ho
    rcases pl_sane_pair J.sane hab with e | ⟨_, h2⟩
    · exact absurd (e ▸ (List.of_mem_zip hab).1) hno
    · exact h2
  obtain ⟨hcols, hne, hrows⟩ := joinCore_rows hwb J.keysB (fun o ho => J.freshTmp o (Or.inr ho)) J.freshR horph h
  have hcross : jt ≠ .cross := by rcases hjt with ⟨e, _⟩ | ⟨e, _⟩ | ⟨e | e, _⟩ <;> simp [e]
  refine ⟨hcols, ?_⟩
  rw [hrows, pl_semJoin_select_rows hcross hne hall]
  have hkl : (how != Pl.How.inner) = (jt == .left || jt == .full || jt == .outer) := by
    rcases hjt with ⟨e, e'⟩ | ⟨e, e'⟩ | ⟨e | e, e'⟩ <;> subst e <;> subst e' <;> rfl
  have hkr : (how == Pl.How.full) = (jt == .right || jt == .full || jt == .outer) := by
    rcases hjt with ⟨e, e'⟩ | ⟨e, e'⟩ | ⟨e | e, e'⟩ <;> subst e <;> subst e' <;> rfl
  rw [hkl, hkr]
  rw [joinRows_congr_match (m' := fun ra rb => keyOf ra onA == keyOf rb onB)
    (fun ra hra rb hrb => keyMatch_eq_of_guard hnk hra hrb)]
  apply List.Perm.of_eq
  apply joinRows_congr_groups
  · intro ra hra rb hrb hm
    rw [pl_joinRow_eq]
    apply List.map_congr_left
    intro c hc
    congr 1
    apply coreCell_eq_pd_direct (J.ocSub c hc)
    · intro r e _ hon
      cases e
      have hm' : Pl.keyMatch (keyOf ra onA) (keyOf rb onB) = true := by
        rw [keyMatch_eq_of_guard hnk hra hrb]; exact hm
      simp only [Pl.keyMatch, Bool.and_eq_true] at hm'
      exact pl_mem_keyOf_nonnull hm'.2 hon
    · intro e; cases e
  · intro _ ra hra
    rw [pl_joinRow_eq]
    apply List.map_congr_left
    intro c hc
    congr 1
    apply coreCell_eq_pd_direct (J.ocSub c hc)
    · intro r _ hne; exact absurd rfl hne
    · intro e; cases e
  · intro hkeep rb hrb hnone
    rw [pl_joinRow_eq]
    apply List.map_congr_left
    intro c hc
    congr 1
    apply coreCell_eq_pd_direct (J.ocSub c hc)
    · intro r e; cases e
    · intro _ hca hcb
      -- a right-only row exists: full join; either the keys are coalesced (after the fix) or the guard of D20 forbids it
      have hfull : how = .full ∧ (jt = .full ∨ jt = .outer) := by
        rcases hjt with ⟨e, e'⟩ | ⟨e, e'⟩ | ⟨e, e'⟩
        · subst e; simp at hkeep
        · subst e; simp at hkeep
        · exact ⟨e', e⟩
      cases hfix : cfg.fullCoalesceKeys with
      | true =>
        unfold coalesceColsOf
        simp only [hfull.1, hfix, beq_self_eq_true, Bool.and_self, if_true]
        exact List.mem_filter.mpr ⟨hca, List.contains_iff_mem.mpr hcb⟩
      | false =>
        exfalso
        have hj : (jt == JoinType.full || jt == JoinType.outer) = true := by
          rcases hfull.2 with e | e <;> simp [e]
        have hall' : tb.rows.all (fun rb => ta.rows.any (fun ra => Pl.keyMatch (keyOf ra onA) (keyOf rb onB))) = true := by
          cases hh : tb.rows.all (fun rb => ta.rows.any (fun ra => Pl.keyMatch (keyOf ra onA) (keyOf rb onB))) with
          | true => rfl
          | false => simp [hj, hfix, hh] at hg
        have h1 := List.all_eq_true.mp hall' rb hrb
        rw [pl_any_congr (fun ra hra => keyMatch_eq_of_guard hnk hra hrb)] at h1
        rw [h1] at hnone
        cases hnone

/-- **Right join emulated by a left join with the inputs swapped** (`how == "right"` branch) -/
theorem pl_right_as_left_sound {cfg : Pl.Cfg} {onA onB : List String} {ta tb : Table}
    {oc all : List String} {t : Table}
    (hwa : ta.WF) (J : JoinOK onA onB ta.cols tb.cols oc) (hall : ∀ c ∈ oc, c ∈ all)
    (hg : Pl.joinViol cfg .right onA onB ta tb = [])
    (h : joinCore cfg .left false leftTmp onB onA tb ta oc = .ok t) :
    t ≈ (semJoin SemCfg.pandas .right onA onB ta tb all).selectCols oc := by
  simp only [Pl.joinViol, List.append_eq_nil_iff] at hg
  have hnk : (onA.zip onB).any (fun ab => ta.rows.any (fun r => (r.get ab.1).isNull) &&
      tb.rows.any (fun r => (r.get ab.2).isNull)) = false := by
    cases hh : (onA.zip onB).any (fun ab => ta.rows.any (fun r => (r.get ab.1).isNull) &&
      tb.rows.any (fun r => (r.get ab.2).isNull)) with
    | false => rfl
    | true => simp [hh] at hg
  have horph : ∀ o ∈ onA, o ∉ onB → o ∉ tb.cols := by
    intro o ho hno
    obtain ⟨b, hab⟩ := pl_exists_zip_of_mem_left J.len ho
    rcases pl_sane_pair J.sane hab with e | ⟨h1, _⟩
    · exact absurd (e ▸ (List.of_mem_zip hab).2) hno
    · exact h1
  obtain ⟨hcols, hne, hrows⟩ := joinCore_rows hwa J.keysA (fun o ho => (J.freshTmp o (Or.inl ho)).symm)
    J.freshL horph h
  have hneA : onA.isEmpty = false := by
    cases onA with
    | nil =>
      have : onB.length = 0 := by simpa using J.len.symm
      have : onB = [] := List.length_eq_zero_iff.mp this
      subst this
      simp at hne
    | cons _ _ => rfl
  refine ⟨hcols, ?_⟩
  rw [hrows, pl_semJoin_select_rows (by simp) hneA hall]
  refine List.Perm.trans ?_ (joinRows_swap _ _ _ _ _ _).symm
  apply List.Perm.of_eq
  have hm : ∀ rb ∈ tb.rows, ∀ ra ∈ ta.rows,
      Pl.keyMatch (keyOf rb onB) (keyOf ra onA) = (keyOf ra onA == keyOf rb onB) := by
    intro rb hrb ra hra
    rw [← keyMatch_eq_of_guard hnk hra hrb]
    unfold Pl.keyMatch
    cases he : keyOf ra onA == keyOf rb onB with
    | true =>
      have e := eq_of_beq he
      rw [e]; simp
    | false =>
      have : (keyOf rb onB == keyOf ra onA) = false := by
        cases h' : keyOf rb onB == keyOf ra onA with
        | false => rfl
        | true => rw [eq_of_beq h'] at he; simp at he
      simp [this]
  rw [joinRows_congr_match (m' := fun rb ra => keyOf ra onA == keyOf rb onB) hm]
  have hk : (JoinType.right == JoinType.left || JoinType.right == JoinType.full || JoinType.right == JoinType.outer) = false := rfl
  have hk' : (JoinType.right == JoinType.right || JoinType.right == JoinType.full || JoinType.right == JoinType.outer) = true := rfl
  rw [hk, hk']
  have hk2 : (Pl.How.left != Pl.How.inner) = true := rfl
  have hk3 : (Pl.How.left == Pl.How.full) = false := rfl
  rw [hk2, hk3]
  apply joinRows_congr_groups
  · intro rb hrb ra hra hmatch
    rw [pl_joinRow_eq]
    apply List.map_congr_left
    intro c hc
    congr 1
    apply coreCell_eq_pd_swapped (J.ocSub c hc)
    intro r e hon hca
    cases e
    obtain ⟨a, hab⟩ := pl_exists_zip_of_mem_right J.len hon
    have hac : a = c := by
      rcases pl_sane_pair J.sane hab with e | ⟨_, h2⟩
      · exact e
      · exact absurd hca h2
    subst hac
    have := pl_keys_zip_eq (fa := fun c => Row.get ra c) (fb := fun c => Row.get rb c) onA onB
      (by simpa [keyOf, Row.vals] using hmatch) (a, a) hab
    exact this
  · intro _ rb hrb
    rw [pl_joinRow_eq]
    apply List.map_congr_left
    intro c hc
    congr 1
    apply coreCell_eq_pd_swapped (J.ocSub c hc)
    intro r e; cases e
  · intro hf; cases hf

/-- **`_natural_join_step`** against the Pandas executor's `natural_join`, on the same (well-formed) inputs -/
theorem pl_join_sound {cfg : Pl.Cfg} {jt : JoinType} {onA onB : List String} {ta tb : Table}
    {oc all : List String} {t : Table}
    (hwa : ta.WF) (hwb : tb.WF) (J : JoinOK onA onB ta.cols tb.cols oc) (hall : ∀ c ∈ oc, c ∈ all)
    (hg : Pl.joinViol cfg jt onA onB ta tb = [])
    (h : semJoinPl cfg jt onA onB ta tb oc = .ok t) :
    t ≈ (semJoin SemCfg.pandas jt onA onB ta tb all).selectCols oc := by
  cases jt with
  | cross => simp [semJoinPl] at h
  | right => exact pl_right_as_left_sound hwa J hall hg h
  | inner => exact pl_join_direct_sound (Or.inl ⟨rfl, rfl⟩) hwb J hall hg h
  | left => exact pl_join_direct_sound (Or.inr (Or.inl ⟨rfl, rfl⟩)) hwb J hall hg h
  | full => exact pl_join_direct_sound (Or.inr (Or.inr ⟨Or.inl rfl, rfl⟩)) hwb J hall hg h
  | outer => exact pl_join_direct_sound (Or.inr (Or.inr ⟨Or.inr rfl, rfl⟩)) hwb J hall hg h

/-! ### small facts used by the main induction (Props/C03.lean) -/

theorem pl_mem_appendNew_right {c : String} : ∀ (ys xs : List String), c ∈ ys → c ∈ appendNew xs ys
  | [], _, h => by cases h
  | y :: ys, xs, h => by
    simp only [appendNew, List.foldl_cons]
    rcases List.mem_cons.mp h with rfl | h'
    · split
      · rename_i hc
        exact mem_appendNew_left ys xs (List.contains_iff_mem.mp hc)
      · exact mem_appendNew_left ys (xs ++ [c]) (List.mem_append_right _ (List.mem_singleton.mpr rfl))
    · split
      · exact pl_mem_appendNew_right ys xs h'
      · exact pl_mem_appendNew_right ys (xs ++ [y]) h'

/-- the declared columns of a join are columns of its inputs -/
theorem pl_join_cols_sub (a b : Ops) (onA onB : List String) (jt : JoinType) :
    ∀ c ∈ (Ops.join a b onA onB jt).cols, c ∈ appendNew a.cols b.cols := by
  intro c hc
  simp only [Ops.cols] at hc
  split at hc
  · exact mem_appendNew_left _ _ hc
  · split at hc
    · exact pl_mem_appendNew_right _ _ hc
    · exact hc

theorem joinViol_perm {cfg : Pl.Cfg} {jt : JoinType} {onA onB : List String} {ta ta' tb tb' : Table}
    (ha : ta.rows.Perm ta'.rows) (hb : tb.rows.Perm tb'.rows) :
    Pl.joinViol cfg jt onA onB ta tb = Pl.joinViol cfg jt onA onB ta' tb' := by
  unfold Pl.joinViol
  have h1 : (fun (ab : String × String) => ta.rows.any (fun r => (r.get ab.1).isNull) &&
      tb.rows.any (fun r => (r.get ab.2).isNull)) = (fun ab => ta'.rows.any (fun r => (r.get ab.1).isNull) &&
      tb'.rows.any (fun r => (r.get ab.2).isNull)) := by
    funext ab; rw [ha.any_eq, hb.any_eq]
  have h2 : tb.rows.all (fun rb => ta.rows.any (fun ra => Pl.keyMatch (keyOf ra onA) (keyOf rb onB)))
      = tb'.rows.all (fun rb => ta'.rows.any (fun ra => Pl.keyMatch (keyOf ra onA) (keyOf rb onB))) := by
    rw [hb.all_eq]
    congr 1
    funext rb
    rw [ha.any_eq]
  rw [h1, h2]

theorem pl_bind_ok {α β : Type} {x : Except Err α} {f : α → Except Err β} {b : β} (h : x >>= f = .ok b) :
    ∃ a, x = .ok a ∧ f a = .ok b := by
  cases x with
  | error e => cases h
  | ok a => exact ⟨a, rfl, h⟩

theorem pl_onInput_ok {t : Table} {f : Table → List Pl.GuardId} : Pl.onInput (.ok t) f = f t := rfl

/-! ### what can still be violated after the four fixes -/

theorem scalarViol_fixed (op : String) (args : List ArgV) :
    ∀ g ∈ Pl.scalarViol Pl.Cfg.fixed op args, Pl.Remaining g := by
  intro g hg
  simp only [Pl.scalarViol, Pl.maxNullDev, Pl.Cfg.fixed, Bool.not_true, Bool.and_false, Bool.false_and,
    Bool.false_eq_true, if_false, List.append_nil] at hg
  split at hg
  · simp only [List.mem_singleton] at hg; exact Or.inl hg
  · cases hg

theorem aggViol_fixed (op : String) (vs : List Val) : ∀ g ∈ Pl.aggViol Pl.Cfg.fixed op vs, Pl.Remaining g := by
  intro g hg
  simp only [Pl.aggViol, Pl.nuniqueDev, Pl.Cfg.fixed, Bool.not_true, Bool.and_false, Bool.false_and,
    Bool.false_eq_true, if_false, List.nil_append, List.mem_append] at hg
  rcases hg with hg | hg
  · split at hg
    · simp only [List.mem_singleton] at hg; exact Or.inr (Or.inr (Or.inr (Or.inr hg)))
    · cases hg
  · split at hg
    · simp only [List.mem_singleton] at hg; exact Or.inr (Or.inr (Or.inr (Or.inl hg)))
    · cases hg

mutual
theorem termViol_fixed (Θ : Interp) (r : Row) : ∀ t : Term, ∀ g ∈ Pl.termViol Pl.Cfg.fixed Θ r t, Pl.Remaining g
  | .value _, g, hg => by simp [Pl.termViol] at hg
  | .col _, g, hg => by simp [Pl.termViol] at hg
  | .list _, g, hg => by simp [Pl.termViol] at hg
  | .dict _, g, hg => by simp [Pl.termViol] at hg
  | .app op args _ _, g, hg => by
    simp only [Pl.termViol, List.mem_append] at hg
    rcases hg with hg | hg
    · exact termsViol_fixed Θ r args g hg
    · exact scalarViol_fixed _ _ g hg
theorem termsViol_fixed (Θ : Interp) (r : Row) : ∀ ts : List Term, ∀ g ∈ Pl.termsViol Pl.Cfg.fixed Θ r ts, Pl.Remaining g
  | [], g, hg => by simp [Pl.termsViol] at hg
  | t :: ts, g, hg => by
    simp only [Pl.termsViol, List.mem_append] at hg
    rcases hg with hg | hg
    · exact termViol_fixed Θ r t g hg
    · exact termsViol_fixed Θ r ts g hg
end

theorem pl_onInput_forall {P : Pl.GuardId → Prop} {r : Except Err Table} {f : Table → List Pl.GuardId}
    (h : ∀ t, ∀ g ∈ f t, P g) : ∀ g ∈ Pl.onInput r f, P g := by
  cases r with
  | error e => intro g hg; cases hg
  | ok t => exact h t


end DAVerif
