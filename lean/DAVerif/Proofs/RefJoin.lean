import DAVerif.Spec.Ref
import DAVerif.Spec.Perm
import DAVerif.Proofs.Perm
import DAVerif.Proofs.BuilderBasics
/-!
Helper lemmas relating the executor model's join (`semJoin`, `joinRow`, `keyMatch`) to the reference join
`Ref.refJoin` of `Spec/Ref.lean` (used by Props/C16.lean).

All lemmas here live in the namespace `DAVerif.RefSem` (helper names like `semJoin_congr` are common).
-/
namespace DAVerif.RefSem

theorem perm_flatMap_append {α β : Type} (f g : α → List β) :
    ∀ l : List α, (l.flatMap (fun a => f a ++ g a)).Perm (l.flatMap f ++ l.flatMap g)
  | [] => by simp
  | a :: l => by
    simp only [List.flatMap_cons, List.append_assoc]
    refine (List.perm_append_left_iff _).mpr ?_
    exact ((perm_flatMap_append f g l).append_left _).trans (List.perm_append_comm_assoc _ _ _)

/-! ### cells and rows -/

theorem lookup_map_self {f : String → Val} {cs : List String} {c : String} (h : c ∈ cs) :
    (cs.map (fun c => (c, f c))).lookup c = some (f c) := by
  induction cs with
  | nil => cases h
  | cons x cs ih =>
    simp only [List.map_cons, List.lookup_cons]
    cases hcx : c == x with
    | true => simp only [beq_iff_eq] at hcx; subst hcx; rfl
    | false =>
      have hc : c ∈ cs := by
        rcases List.mem_cons.mp h with e | e
        · simp [e] at hcx
        · exact e
      exact ih hc

/-- every cell of the model's output row is `COALESCE(left cell, right cell)` -/
theorem joinRow_eq_map (ca cb oc : List String) (ra rb : Option Row) :
    joinRow ca cb oc ra rb =
      oc.map (fun c => (c, Ref.coalesce (Ref.sideCell ca ra c) (Ref.sideCell cb rb c))) := by
  cases ra <;> cases rb <;> rfl

/-- the model's output row is the reference's -/
theorem joinRow_eq_combine (ca cb : List String) (ra rb : Option Row) :
    joinRow ca cb (Ref.joinCols ca cb) ra rb = Ref.combine ca cb ra rb :=
  joinRow_eq_map ca cb _ ra rb

/-- a cell of an output row of the model's join -/
theorem get_joinRow {ca cb oc : List String} {c : String} (h : c ∈ oc) (ra rb : Option Row) :
    (joinRow ca cb oc ra rb).get c = Ref.coalesce (Ref.sideCell ca ra c) (Ref.sideCell cb rb c) := by
  rw [joinRow_eq_map]
  simp only [Row.get]
  rw [lookup_map_self (f := fun c => Ref.coalesce (Ref.sideCell ca ra c) (Ref.sideCell cb rb c)) h]
  rfl

/-! ### the key condition -/

/-- with as many left as right key columns, the model's reference key test (equal key tuples without a null,
or no keys at all) is the SQL condition `l.a₁ = r.b₁ AND …` in three-valued logic -/
theorem keyMatch_ref_eq_keysEqual : ∀ (onA onB : List String) (ra rb : Row), onA.length = onB.length →
    (onA.isEmpty || keyMatch SemCfg.ref (keyOf ra onA) (keyOf rb onB)) = Ref.keysEqual onA onB ra rb
  | [], [], _, _, _ => rfl
  | [], _ :: _, _, _, h => by cases h
  | _ :: _, [], _, _, h => by cases h
  | a :: as, b :: bs, ra, rb, h => by
    have ih := keyMatch_ref_eq_keysEqual as bs ra rb (by simpa using h)
    simp only [keyMatch, SemCfg.ref, Bool.false_or, keyOf, Row.vals, Ref.keysEqual] at ih ⊢
    simp only [List.isEmpty_cons, Bool.false_or, List.map_cons, List.all_cons, List.zip_cons_cons]
    rw [← ih]
    cases has : as.isEmpty with
    | true =>
      have e1 : as = [] := List.isEmpty_iff.mp has
      have e2 : bs = [] := by subst e1; cases bs with | nil => rfl | cons => simp at h
      subst e1 e2
      cases hx : (ra.get a).isNull <;> cases hy : (rb.get b).isNull <;>
        cases hxy : (ra.get a == rb.get b) <;> simp_all
    | false =>
      simp only [Bool.false_or]
      cases hx : (ra.get a).isNull <;> cases hy : (rb.get b).isNull <;>
        cases hxy : (ra.get a == rb.get b) <;> simp_all

/-- the model's reference match predicate is the reference's -/
theorem match_ref_eq_joins (jt : JoinType) {onA onB : List String} (h : onA.length = onB.length)
    (ra rb : Row) :
    ((jt == .cross || onA.isEmpty) || keyMatch SemCfg.ref (keyOf ra onA) (keyOf rb onB))
      = Ref.joins jt onA onB ra rb := by
  rw [Bool.or_assoc, keyMatch_ref_eq_keysEqual onA onB ra rb h]
  rfl

/-! ### the rows -/

theorem flatMap_ite_singleton {α β : Type} (p : α → Bool) (h : α → β) :
    ∀ l : List α, l.flatMap (fun a => if p a then [h a] else []) = (l.filter p).map h
  | [] => rfl
  | a :: l => by
    simp only [List.flatMap_cons, List.filter_cons, flatMap_ite_singleton p h l]
    cases p a <;> simp

theorem keepL_ref (jt : JoinType) :
    (jt == .left || jt == .full || jt == .outer || (jt == .cross && SemCfg.ref.crossAsOuter)) = Ref.keepsLeft jt := by
  cases jt <;> rfl

theorem keepR_ref (jt : JoinType) :
    (jt == .right || jt == .full || jt == .outer || (jt == .cross && SemCfg.ref.crossAsOuter)) = Ref.keepsRight jt := by
  cases jt <;> rfl

/-- **The model's reference configuration computes the reference join** (same columns, same multiset of rows;
the model lists all matched pairs first, the textbook loop emits an unmatched left row in place). -/
theorem semJoin_ref_equiv_refJoin (jt : JoinType) {onA onB : List String} (hlen : onA.length = onB.length)
    (ta tb : Table) :
    semJoin SemCfg.ref jt onA onB ta tb (Ref.joinCols ta.cols tb.cols) ≈ Ref.refJoin jt onA onB ta tb := by
  refine ⟨rfl, ?_⟩
  simp only [semJoin, Ref.refJoin, match_ref_eq_joins jt hlen, joinRow_eq_combine, keepL_ref, keepR_ref]
  refine List.Perm.append ?_ ?_
  · -- matched pairs and unmatched left rows
    let f : Row → List Row := fun ra =>
      (tb.rows.filter (fun rb => Ref.joins jt onA onB ra rb)).map
        (fun rb => Ref.combine ta.cols tb.cols (some ra) (some rb))
    let g : Row → List Row := fun ra =>
      if (Ref.keepsLeft jt && !(tb.rows.any (fun rb => Ref.joins jt onA onB ra rb))) then
        [Ref.combine ta.cols tb.cols (some ra) none] else []
    have hfg : ∀ ra, (if (tb.rows.filter (fun rb => Ref.joins jt onA onB ra rb)).isEmpty then
          (if Ref.keepsLeft jt then [Ref.combine ta.cols tb.cols (some ra) none] else [])
        else (tb.rows.filter (fun rb => Ref.joins jt onA onB ra rb)).map
          (fun rb => Ref.combine ta.cols tb.cols (some ra) (some rb))) = f ra ++ g ra := by
      intro ra
      simp only [f, g]
      cases hany : tb.rows.any (fun rb => Ref.joins jt onA onB ra rb) with
      | true =>
        have hne : (tb.rows.filter (fun rb => Ref.joins jt onA onB ra rb)).isEmpty = false := by
          rw [Bool.eq_false_iff, ne_eq, List.isEmpty_iff, List.filter_eq_nil_iff]
          obtain ⟨x, hx, hp⟩ := List.any_eq_true.mp hany
          exact fun h => h x hx hp
        simp [hne]
      | false =>
        have he : tb.rows.filter (fun rb => Ref.joins jt onA onB ra rb) = [] := by
          rw [List.filter_eq_nil_iff]
          intro x hx hp
          have := List.any_eq_true.mpr ⟨x, hx, hp⟩
          rw [hany] at this
          cases this
        simp [he]
    rw [show (fun ra => _) = (fun ra => f ra ++ g ra) from funext hfg]
    refine List.Perm.trans ?_ (perm_flatMap_append f g ta.rows).symm
    refine List.Perm.append (List.Perm.refl _) ?_
    simp only [g]
    cases hk : Ref.keepsLeft jt with
    | true =>
      simp only [Bool.true_and, if_true]
      rw [flatMap_ite_singleton]
    | false => simp
  · -- unmatched right rows
    cases hk : Ref.keepsRight jt with
    | true =>
      simp only [if_true]
      rw [show (fun rb => !(ta.rows.any (fun ra => Ref.joins jt onA onB ra rb))) =
        (fun rb => ta.rows.all (fun ra => !Ref.joins jt onA onB ra rb)) from
        funext (fun rb => List.not_any_eq_all_not)]
    | false => simp

/-! ### the Pandas configuration against the reference configuration -/

theorem flatMap_congr_mem {α β : Type} {f g : α → List β} : ∀ {l : List α}, (∀ a ∈ l, f a = g a) →
    l.flatMap f = l.flatMap g
  | [], _ => rfl
  | a :: l, h => by
    simp only [List.flatMap_cons]
    rw [h a (List.mem_cons_self ..), flatMap_congr_mem (fun x hx => h x (List.mem_cons_of_mem _ hx))]

theorem any_congr_mem {α : Type} {p q : α → Bool} : ∀ {l : List α}, (∀ a ∈ l, p a = q a) → l.any p = l.any q
  | [], _ => rfl
  | a :: l, h => by
    simp only [List.any_cons]
    rw [h a (List.mem_cons_self ..), any_congr_mem (fun x hx => h x (List.mem_cons_of_mem _ hx))]

/-- two configurations that keep the same unmatched rows and whose key tests agree on the rows at hand compute
the same join -/
theorem semJoin_congr {cfg cfg' : SemCfg} {jt : JoinType} {onA onB : List String} {ta tb : Table}
    (oc : List String)
    (hk : (jt == .cross && cfg.crossAsOuter) = (jt == .cross && cfg'.crossAsOuter))
    (hm : ∀ ra ∈ ta.rows, ∀ rb ∈ tb.rows,
      keyMatch cfg (keyOf ra onA) (keyOf rb onB) = keyMatch cfg' (keyOf ra onA) (keyOf rb onB)) :
    semJoin cfg jt onA onB ta tb oc = semJoin cfg' jt onA onB ta tb oc := by
  simp only [semJoin, hk]
  congr 2
  · congr 1
    · apply flatMap_congr_mem
      intro ra hra
      congr 1
      apply List.filter_congr
      intro rb hrb
      rw [hm ra hra rb hrb]
    · split
      · congr 1
        apply List.filter_congr
        intro ra hra
        congr 1
        apply any_congr_mem
        intro rb hrb
        rw [hm ra hra rb hrb]
      · rfl
  · split
    · congr 1
      apply List.filter_congr
      intro rb hrb
      congr 1
      apply any_congr_mem
      intro ra hra
      rw [hm ra hra rb hrb]
    · rfl

/-- under the guard, a left and a right row that agree on their key tuples have no null in them -/
theorem key_nonnull_of_guard : ∀ (onA onB : List String) {ta tb : Table} {ra rb : Row},
    Ref.G_nonNullKeys ta tb onA onB → ra ∈ ta.rows → rb ∈ tb.rows → keyOf ra onA = keyOf rb onB →
    (keyOf ra onA).all (fun v => !v.isNull) = true
  | [], _, _, _, _, _, _, _, _, _ => rfl
  | _ :: _, [], _, _, _, _, _, _, _, h => by simp [keyOf, Row.vals] at h
  | a :: as, b :: bs, ta, tb, ra, rb, hg, hra, hrb, h => by
    simp only [keyOf, Row.vals, List.map_cons, List.cons.injEq] at h
    have hg' : Ref.G_nonNullKeys ta tb as bs := fun ab hab => hg ab (by simp [hab])
    have ih := key_nonnull_of_guard as bs hg' hra hrb h.2
    simp only [keyOf, Row.vals, List.map_cons, List.all_cons, Bool.and_eq_true] at ih ⊢
    refine ⟨?_, ih⟩
    rcases hg (a, b) (by simp) with h1 | h1
    · simp [h1 ra hra]
    · have := h1 rb hrb
      simp only at this
      rw [← h.1] at this
      simp [this]

/-- **Under the guard of D18 the Pandas executor's join is the reference join** – for every join type (after fix
1a3e0a8 CROSS is no longer an outer join; it ignores keys in both configurations) -/
theorem semJoin_pandas_eq_ref {jt : JoinType} {onA onB : List String} {ta tb : Table} (oc : List String)
    (hg : Ref.G_nonNullKeys ta tb onA onB) :
    semJoin SemCfg.pandas jt onA onB ta tb oc = semJoin SemCfg.ref jt onA onB ta tb oc := by
  apply semJoin_congr
  · rfl
  · intro ra hra rb hrb
    simp only [keyMatch, SemCfg.pandas, SemCfg.ref, Bool.true_or, Bool.and_true, Bool.false_or]
    cases hkk : keyOf ra onA == keyOf rb onB with
    | false => rfl
    | true =>
      rw [key_nonnull_of_guard onA onB hg hra hrb (beq_iff_eq.mp hkk)]
      rfl

/-- CROSS ignores the key test: a configuration that does not pad (`crossAsOuter = false`, the Pandas executor
after fix 1a3e0a8) computes the plain product, whatever the keys and the rows -/
theorem semJoin_cross_eq_ref (n : Bool) (onA onB : List String) (ta tb : Table) (oc : List String) :
    semJoin ⟨n, false⟩ .cross onA onB ta tb oc = semJoin SemCfg.ref .cross onA onB ta tb oc := by
  simp only [semJoin, SemCfg.ref, beq_self_eq_true, Bool.true_or, Bool.and_false, Bool.or_false]

/-- **CROSS as an outer join on a constant key** (`crossAsOuter = true`: the Pandas executor *before* fix 1a3e0a8)
is the plain product when both sides have rows or neither has -/
theorem semJoin_crossAsOuter_eq_ref (n : Bool) {onA onB : List String} {ta tb : Table} (oc : List String)
    (h : ta.rows = [] ↔ tb.rows = []) :
    semJoin ⟨n, true⟩ .cross onA onB ta tb oc = semJoin SemCfg.ref .cross onA onB ta tb oc := by
  simp only [semJoin, SemCfg.ref, beq_self_eq_true, Bool.true_or, Bool.and_true, Bool.and_false,
    Bool.or_false, Bool.or_true, if_true]
  have hcr : (JoinType.cross == JoinType.left || JoinType.cross == JoinType.full ||
      JoinType.cross == JoinType.outer) = false := rfl
  have hcr' : (JoinType.cross == JoinType.right || JoinType.cross == JoinType.full ||
      JoinType.cross == JoinType.outer) = false := rfl
  simp only [hcr, hcr', Bool.false_eq_true, if_false, List.append_nil]
  by_cases hb : tb.rows = []
  · have ha := h.mpr hb
    simp [ha, hb]
  · have ha : ta.rows ≠ [] := fun e => hb (h.mp e)
    have h1 : tb.rows.any (fun _ => true) = true := by
      cases htb : tb.rows with
      | nil => exact absurd htb hb
      | cons x xs => simp
    have h2 : ta.rows.any (fun _ => true) = true := by
      cases hta : ta.rows with
      | nil => exact absurd hta ha
      | cons x xs => simp
    simp [h1, h2]

/-! ### where the rows of a join come from -/

theorem mem_semJoin_rows {cfg : SemCfg} {jt : JoinType} {onA onB : List String} {ta tb : Table}
    {oc : List String} {r : Row} (h : r ∈ (semJoin cfg jt onA onB ta tb oc).rows) :
    (∃ ra ∈ ta.rows, ∃ rb ∈ tb.rows,
      ((jt == .cross || onA.isEmpty) || keyMatch cfg (keyOf ra onA) (keyOf rb onB)) = true ∧
      r = joinRow ta.cols tb.cols oc (some ra) (some rb)) ∨
    (∃ ra ∈ ta.rows, r = joinRow ta.cols tb.cols oc (some ra) none) ∨
    (∃ rb ∈ tb.rows, r = joinRow ta.cols tb.cols oc none (some rb)) := by
  simp only [semJoin, List.mem_append, List.mem_flatMap, List.mem_map, List.mem_filter] at h
  rcases h with (⟨ra, hra, rb, ⟨hrb, hm⟩, rfl⟩ | h) | h
  · exact Or.inl ⟨ra, hra, rb, hrb, hm, rfl⟩
  · split at h
    · simp only [List.mem_map, List.mem_filter] at h
      obtain ⟨ra, ⟨hra, _⟩, rfl⟩ := h
      exact Or.inr (Or.inl ⟨ra, hra, rfl⟩)
    · cases h
  · split at h
    · simp only [List.mem_map, List.mem_filter] at h
      obtain ⟨rb, ⟨hrb, _⟩, rfl⟩ := h
      exact Or.inr (Or.inr ⟨rb, hrb, rfl⟩)
    · cases h

end DAVerif.RefSem
