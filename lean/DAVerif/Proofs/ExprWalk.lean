import DAVerif.Expr.Eval
/-!
Lemmas for C13 (`walk` computes the Python reading): what the builders return when they succeed, the sanity conditions
on the regenerated tables, and the mutual induction over the tree.
-/
namespace DAVerif.Expr

@[simp] theorem ok_bind {ε α β : Type} (a : α) (f : α → Except ε β) : (Except.ok a >>= f) = f a := rfl
@[simp] theorem error_bind {ε α β : Type} (e : ε) (f : α → Except ε β) : ((Except.error e : Except ε α) >>= f) = Except.error e := rfl

@[simp] theorem map_ok {ε α β : Type} (a : α) (f : α → β) : (f <$> (Except.ok a : Except ε α)) = Except.ok (f a) := rfl
@[simp] theorem map_error {ε α β : Type} (e : ε) (f : α → β) : (f <$> (Except.error e : Except ε α)) = Except.error e := rfl

/-! ## what the builders return -/

theorem mkExpr_ok {env : Env} {op args i m t} (h : mkExpr env op args i m = .ok t) : t = .app op args i m := by
  unfold mkExpr at h
  split at h <;> try contradiction
  split at h <;> try contradiction
  injection h with h; exact h.symm

theorem kopExpr_ok {env : Env} {op args t} (h : kopExpr env op args = .ok t) : t = .app op args true false :=
  mkExpr_ok h

theorem opExpr_ok {env : Env} {op self other i m c t} (h : opExpr env op self other i m c = .ok t) :
    t = .app op [self, other] i m := by
  unfold opExpr at h
  split at h <;> try contradiction
  split at h <;> try contradiction
  exact mkExpr_ok h

theorem ropExpr_ok {env : Env} {op self other t} (h : ropExpr env op self other = .ok t) :
    t = .app op [other, self] true false := by
  unfold ropExpr at h
  split at h <;> try contradiction
  split at h <;> try contradiction
  exact mkExpr_ok h

theorem uopExpr_ok {env : Env} {op self i t} (h : uopExpr env op self i = .ok t) :
    t = .app op [self] i (!i) := by
  unfold uopExpr at h
  split at h <;> try contradiction
  exact mkExpr_ok h

theorem triopExpr_ok {env : Env} {op self x y i m t} (h : triopExpr env op self x y i m = .ok t) :
    t = .app op [self, x, y] i m := by
  unfold triopExpr at h
  split at h <;> try contradiction
  exact mkExpr_ok h

variable (Θ : Interp) (ρ : String → Θ.V)

@[simp] theorem evalTerm_app (op args i m) : evalTerm Θ ρ (.app op args i m) = Θ.app op (evalTerms Θ ρ args) := by
  simp [evalTerm]
@[simp] theorem evalTerms_nil : evalTerms Θ ρ [] = [] := by simp [evalTerms]
@[simp] theorem evalTerms_cons (t ts) : evalTerms Θ ρ (t :: ts) = evalTerm Θ ρ t :: evalTerms Θ ρ ts := by
  simp [evalTerms]
@[simp] theorem evalTerm_value (l) : evalTerm Θ ρ (.value l) = Θ.lit l := by simp [evalTerm]


/-! ## sanity of the regenerated tables (decidable; `decide`d for `Generated.env` in `Props/C13.lean`) -/

/-- the binary operator tokens that have a reading, per level -/
def allBinOps : List (RuleKind × String) :=
  [(.arith, "+"), (.arith, "-"), (.term, "*"), (.term, "/"), (.term, "//"), (.term, "%"), (.term, "%/%"),
   (.term, "%+%"), (.term, "%?%"), (.comparison, "<"), (.comparison, ">"), (.comparison, "=="), (.comparison, ">="),
   (.comparison, "<="), (.comparison, "!="), (.comparison, "<>")]

/-- `op_remap` sends the token to a builder that makes the two-argument expression of the symbol the token denotes -/
def binOpOk (methods : List (String × MethodKind)) (opRemap : List (String × String)) (ks : RuleKind × String) : Bool :=
  let name := remap opRemap ks.2
  name != "__neg__" && match methods.lookup name with
    | some (.bin op _ _ _) => binSym ks.1 ks.2 == some op
    | _ => false

def sugar1 : List String := ["shift", "coalesce_0", "parse_datetime", "format_datetime", "parse_date", "format_date"]
def specials : List String :=
  ["shift", "around", "mapv", "trimstr", "coalesce_0", "parse_datetime", "parse_date", "format_datetime", "format_date"]

/-- a named (non-dunder) builder makes the expression of its own name (up to the documented defaults) -/
def entryOk (name : String) : MethodKind → Bool
  | .uop op _ => op == name && !sugar1.contains name
  | .bin op _ _ _ => (op == name && name != "mapv" && name != "float_divide") || (name == "float_divide" && op == "%/%")
  | .rbin _ => false
  | .tri op _ _ => op == name
  | .special n => n == name && specials.contains name
  | .unmodelled => true

def tablesSane (methods : List (String × MethodKind)) (opRemap factorRemap : List (String × String)) : Bool :=
  allBinOps.all (binOpOk methods opRemap) &&
  remap factorRemap "-" == "__neg__" && methods.lookup "__neg__" == some (.uop "-" true) &&
  remap factorRemap "+" == "__pos__" && methods.lookup "__pos__" == some (.special "__pos__") &&
  (match methods.lookup "__pow__" with | some (.bin op _ _ _) => op == "**" | _ => false) &&
  (match methods.lookup "__eq__" with | some (.bin op _ _ _) => op == "==" | _ => false) &&
  (match methods.lookup "coalesce" with | some (.bin op _ _ _) => op == "coalesce" | _ => false) &&
  methods.all (fun kv => isDunder kv.1 || entryOk kv.1 kv.2)

/-- the tables the walker reads are the ones the Python reading presumes -/
def Env.Sane (env : Env) : Prop := tablesSane env.methods env.opRemap env.factorRemap = true

theorem lookup_mem {β : Type} : ∀ (l : List (String × β)) (k : String) (v : β), l.lookup k = some v → (k, v) ∈ l := by
  intro l
  induction l with
  | nil => intro k v h; simp [List.lookup] at h
  | cons a l ih =>
    intro k v h
    obtain ⟨k', v'⟩ := a
    simp only [List.lookup] at h
    split at h
    · rename_i heq
      have : k = k' := by simpa using heq
      subst this; injection h with h; subst h; simp
    · exact List.mem_cons_of_mem _ (ih k v h)

theorem binSym_mem {kind s sym} (h : binSym kind s = some sym) : (kind, s) ∈ allBinOps := by
  unfold binSym at h
  split at h
  all_goals (try contradiction)
  all_goals
    repeat' split at h
  all_goals (try contradiction)
  all_goals (simp only [Bool.or_eq_true, beq_iff_eq] at *)
  all_goals (simp only [allBinOps, List.mem_cons, Prod.mk.injEq, true_and, reduceCtorEq, false_and, false_or, List.not_mem_nil, or_false]; grind)


/-! ## consequences of `Sane` -/

section sane
variable {env : Env} (hs : env.Sane)
include hs

theorem sane_binop {kind s sym} (hb : binSym kind s = some sym) :
    remap env.opRemap s ≠ "__neg__" ∧ ∃ i m c, env.methods.lookup (remap env.opRemap s) = some (.bin sym i m c) := by
  have hmem := binSym_mem hb
  unfold Env.Sane tablesSane at hs
  simp only [Bool.and_eq_true] at hs
  have h1 := hs.1.1.1.1.1.1.1.1
  rw [List.all_eq_true] at h1
  have h2 := h1 _ hmem
  unfold binOpOk at h2
  simp only [Bool.and_eq_true, bne_iff_ne, ne_eq] at h2
  refine ⟨h2.1, ?_⟩
  have h3 := h2.2
  split at h3
  · rename_i op i m c heq
    simp only [hb, beq_iff_eq, Option.some.injEq] at h3
    subst h3
    exact ⟨i, m, c, heq⟩
  · contradiction

theorem sane_neg : remap env.factorRemap "-" = "__neg__" ∧ env.methods.lookup "__neg__" = some (.uop "-" true) := by
  unfold Env.Sane tablesSane at hs
  simp only [Bool.and_eq_true, beq_iff_eq] at hs
  exact ⟨hs.1.1.1.1.1.1.1.2, hs.1.1.1.1.1.1.2⟩

theorem sane_pos : remap env.factorRemap "+" = "__pos__" ∧ env.methods.lookup "__pos__" = some (.special "__pos__") := by
  unfold Env.Sane tablesSane at hs
  simp only [Bool.and_eq_true, beq_iff_eq] at hs
  exact ⟨hs.1.1.1.1.1.2, hs.1.1.1.1.2⟩

theorem sane_pow : ∃ i m c, env.methods.lookup "__pow__" = some (.bin "**" i m c) := by
  unfold Env.Sane tablesSane at hs
  simp only [Bool.and_eq_true] at hs
  have h := hs.1.1.1.2
  split at h
  · rename_i op i m c heq
    have : op = "**" := by simpa using h
    subst this; exact ⟨i, m, c, heq⟩
  · contradiction

theorem sane_eq : ∃ i m c, env.methods.lookup "__eq__" = some (.bin "==" i m c) := by
  unfold Env.Sane tablesSane at hs
  simp only [Bool.and_eq_true] at hs
  have h := hs.1.1.2
  split at h
  · rename_i op i m c heq
    have : op = "==" := by simpa using h
    subst this; exact ⟨i, m, c, heq⟩
  · contradiction

theorem sane_coalesce : ∃ i m c, env.methods.lookup "coalesce" = some (.bin "coalesce" i m c) := by
  unfold Env.Sane tablesSane at hs
  simp only [Bool.and_eq_true] at hs
  have h := hs.1.2
  split at h
  · rename_i op i m c heq
    have : op = "coalesce" := by simpa using h
    subst this; exact ⟨i, m, c, heq⟩
  · contradiction

theorem sane_entry {name kind} (hl : env.methods.lookup name = some kind) (hd : isDunder name = false) :
    entryOk name kind = true := by
  unfold Env.Sane tablesSane at hs
  simp only [Bool.and_eq_true] at hs
  have h := hs.2
  rw [List.all_eq_true] at h
  have := h _ (lookup_mem _ _ _ hl)
  simpa [hd] using this

end sane

/-! ## binary operators, unary operators -/

theorem getMethod_of_lookup {env : Env} {recv name k b} (hn : name ≠ "__neg__")
    (hl : env.methods.lookup name = some k) (hg : getMethod env recv name = .ok b) : b = .builder k := by
  unfold getMethod at hg
  split at hg
  · split at hg <;> contradiction
  · split at hg <;> contradiction
  · have : (name == "__neg__") = false := by simpa using hn
    simp only [this, Bool.false_and, hl] at hg
    injection hg with hg; exact hg.symm

theorem binop_sound {env : Env} (hs : env.Sane) {kind s sym} (hb : binSym kind s = some sym) {res arg b t}
    (hg : getMethod env res (remap env.opRemap s) = .ok b) (ha : applyBound env b res [arg] = .ok t) :
    ∃ i m, t = .app sym [res, arg] i m := by
  obtain ⟨hne, i, m, c, hl⟩ := sane_binop hs hb
  have hb' := getMethod_of_lookup hne hl hg
  subst hb'
  simp only [applyBound] at ha
  exact ⟨i, m, opExpr_ok ha⟩

theorem callBin_sound {env : Env} (hs : env.Sane) {kind s sym} (hb : binSym kind s = some sym) {res arg t}
    (h : callMethod env res (remap env.opRemap s) [arg] = .ok t) : ∃ i m, t = .app sym [res, arg] i m := by
  unfold callMethod at h
  cases hg : getMethod env res (remap env.opRemap s) with
  | error e => simp [hg] at h
  | ok b =>
    simp only [hg] at h
    exact binop_sound hs hb hg h


/-! ## folds -/

theorem kary_fold {Θ : Interp} (hΘ : PyLaws Θ) {op : String} (hop : op = "+" ∨ op = "*" ∨ op = "and" ∨ op = "or") :
    ∀ (vs : List Θ.V) (v0 : Θ.V), vs ≠ [] → Θ.app op (v0 :: vs) = vs.foldl (fun a b => Θ.app op [a, b]) v0 := by
  intro vs
  induction vs with
  | nil => intro v0 h; contradiction
  | cons b rest ih =>
    intro v0 _
    cases rest with
    | nil => simp
    | cons c rest' =>
      rw [hΘ.kary op hop, ih (Θ.app op [v0, b]) (by simp)]
      simp

theorem foldLeft_same {Θ : Interp} {kind : RuleKind} {op sym : String} (hb : binSym kind op = some sym) :
    ∀ (ops : List String) (vs : List Θ.V) (v0 v : Θ.V), ops.all (· == op) = true →
      foldLeft Θ kind v0 ops vs = some v → v = vs.foldl (fun a b => Θ.app sym [a, b]) v0 ∧ vs.length = ops.length := by
  intro ops
  induction ops with
  | nil =>
    intro vs v0 v _ h
    cases vs with
    | nil => simp [foldLeft] at h; simp [h]
    | cons _ _ => simp [foldLeft] at h
  | cons o os ih =>
    intro vs v0 v hall h
    cases vs with
    | nil => simp [foldLeft] at h
    | cons x xs =>
      simp only [List.all_cons, Bool.and_eq_true, beq_iff_eq] at hall
      obtain ⟨ho, hos⟩ := hall
      subst ho
      simp only [foldLeft, hb] at h
      obtain ⟨h1, h2⟩ := ih xs _ v hos h
      simp [h1, h2]

/-! ## comparison chains -/

theorem chain_sound {env : Env} (hs : env.Sane) (Θ : Interp) (ρ : String → Θ.V) :
    ∀ (ops : List String) (ts comps : List Term) (cs : List Θ.V),
      chainComparisons env ts ops = .ok comps → pairwise Θ (evalTerms Θ ρ ts) ops = some cs →
      evalTerms Θ ρ comps = cs := by
  intro ops
  induction ops with
  | nil =>
    intro ts comps cs h1 h2
    have : comps = [] := by
      unfold chainComparisons at h1
      split at h1
      · contradiction
      · injection h1 with h1; exact h1.symm
    subst this
    match ts, h2 with
    | [], h2 => simp [pairwise] at h2
    | [_], h2 => simp [pairwise] at h2; simp [h2]
    | _ :: _ :: _, h2 => simp [pairwise] at h2
  | cons o os ih =>
    intro ts comps cs h1 h2
    match ts, h1, h2 with
    | [], h1, h2 => simp [pairwise] at h2
    | [_], h1, h2 => simp [pairwise] at h2
    | a :: b :: rest, h1, h2 =>
      simp only [evalTerms_cons, pairwise] at h2
      split at h2
      · rename_i sym cs' hsym hrec
        injection h2 with h2
        subst h2
        simp only [chainComparisons] at h1
        cases hc : callMethod env a (remap env.opRemap o) [b] with
        | error e => simp [hc] at h1
        | ok c =>
          cases hr : chainComparisons env (b :: rest) os with
          | error e => simp [hc, hr] at h1
          | ok cs2 =>
            simp [hc, hr] at h1
            have hcomps : comps = c :: cs2 := by cases h1; rfl
            subst hcomps
            obtain ⟨i, m, hce⟩ := callBin_sound hs hsym hc
            subst hce
            have := ih (b :: rest) cs2 cs' hr (by simpa using hrec)
            simp [this]
      · contradiction


/-! ## named method calls -/

theorem callMeaning_default (Θ : Interp) {name : String} {vs : List Θ.V}
    (h1 : vs.length = 1 → name ∉ sugar1) (h2 : vs.length = 2 → name ≠ "mapv" ∧ name ≠ "float_divide") :
    callMeaning Θ name vs = Θ.app name vs := by
  unfold callMeaning
  split <;> first | rfl | (simp [sugar1] at h1 h2)

theorem shiftWith_ok {env : Env} {self p t} (h : shiftWith env self p = .ok t) : t = .app "shift" [self, p] false true := by
  unfold shiftWith at h
  split at h <;> first | contradiction | exact opExpr_ok h

theorem mapvWith_ok {env : Env} {self m d t} (h : mapvWith env self m d = .ok t) : t = .app "mapv" [self, m, d] false true := by
  unfold mapvWith at h
  split at h
  · split at h
    · contradiction
    · exact triopExpr_ok h
  · contradiction

theorem applySpecial_sound {env : Env} (hs : env.Sane) (Θ : Interp) (ρ : String → Θ.V) {name self args t}
    (hn : specials.contains name = true) (h : applySpecial env name self args = .ok t) :
    evalTerm Θ ρ t = callMeaning Θ name (evalTerm Θ ρ self :: evalTerms Θ ρ args) := by
  unfold applySpecial at h
  split at h
  · simp [specials] at hn
  · have := shiftWith_ok h; subst this; simp [callMeaning]
  · have := shiftWith_ok h; subst this; simp [callMeaning]
  · split at h
    · contradiction
    · have := opExpr_ok h; subst this; simp [callMeaning]
  · have := mapvWith_ok h; subst this; simp [callMeaning]
  · have := mapvWith_ok h; subst this; simp [callMeaning]
  · split at h
    · contradiction
    · have := triopExpr_ok h; subst this; simp [callMeaning]
  · obtain ⟨i, m, c, hl⟩ := sane_coalesce hs
    simp only [hl] at h
    have := opExpr_ok h; subst this; simp [callMeaning]
  · have := opExpr_ok h; subst this; simp [callMeaning]
  · split at h
    · contradiction
    · have := opExpr_ok h; subst this; simp [callMeaning]
  · have := opExpr_ok h; subst this; simp [callMeaning]
  · split at h
    · contradiction
    · have := opExpr_ok h; subst this; simp [callMeaning]
  · have := opExpr_ok h; subst this; simp [callMeaning]
  · have := opExpr_ok h; subst this; simp [callMeaning]
  · have := opExpr_ok h; subst this; simp [callMeaning]
  · have := opExpr_ok h; subst this; simp [callMeaning]
  · split at h <;> contradiction

theorem callMethod_sound {env : Env} (hs : env.Sane) (Θ : Interp) (ρ : String → Θ.V) {recv name args t}
    (hd : isDunder name = false) (h : callMethod env recv name args = .ok t) :
    evalTerm Θ ρ t = callMeaning Θ name (evalTerm Θ ρ recv :: evalTerms Θ ρ args) := by
  have hne : name ≠ "__neg__" := by
    intro h; subst h; revert hd; decide
  unfold callMethod at h
  cases hg : getMethod env recv name with
  | error e => simp [hg] at h
  | ok b =>
    simp only [hg, ok_bind] at h
    have hg' := hg
    unfold getMethod at hg'
    split at hg'
    · split at hg' <;> contradiction
    · split at hg' <;> contradiction
    · have : (name == "__neg__") = false := by simpa using hne
      simp only [this, Bool.false_and, Bool.false_eq_true, ↓reduceIte] at hg'
      split at hg'
      · rename_i k hl
        injection hg' with hg'
        subst hg'
        have hok := sane_entry hs hl hd
        cases k with
        | uop op inline =>
          simp only [entryOk, Bool.and_eq_true, beq_iff_eq, Bool.not_eq_true'] at hok
          obtain ⟨hop, hsug⟩ := hok
          subst hop
          match args, h with
          | [], h =>
            simp only [applyBound] at h
            have := uopExpr_ok h; subst this
            simp only [evalTerm_app, evalTerms_cons, evalTerms_nil]
            rw [callMeaning_default] <;> simp_all
          | _ :: _, h => simp [applyBound] at h
        | bin op i m c =>
          simp only [entryOk] at hok
          match args, h with
          | [o], h =>
            simp only [applyBound] at h
            have := opExpr_ok h; subst this
            simp only [evalTerm_app, evalTerms_cons, evalTerms_nil]
            simp only [Bool.or_eq_true, Bool.and_eq_true, beq_iff_eq, bne_iff_ne, ne_eq] at hok
            rcases hok with ⟨⟨h1, h2⟩, h3⟩ | ⟨h1, h2⟩
            · subst h1; rw [callMeaning_default] <;> simp_all
            · subst h1; subst h2; simp [callMeaning]
          | [], h => simp [applyBound] at h
          | _ :: _ :: _, h => simp [applyBound] at h
        | rbin op => simp [entryOk] at hok
        | tri op i m =>
          simp only [entryOk, beq_iff_eq] at hok
          subst hok
          match args, h with
          | [x, y], h =>
            simp only [applyBound] at h
            have := triopExpr_ok h; subst this
            simp only [evalTerm_app, evalTerms_cons, evalTerms_nil]
            rw [callMeaning_default] <;> simp
          | [], h => simp [applyBound] at h
          | [_], h => simp [applyBound] at h
          | _ :: _ :: _ :: _, h => simp [applyBound] at h
        | special n =>
          simp only [entryOk, Bool.and_eq_true, beq_iff_eq] at hok
          obtain ⟨hn, hsp⟩ := hok
          subst hn
          simp only [applyBound] at h
          exact applySpecial_sound hs Θ ρ hsp h
        | unmodelled => simp [applyBound] at h
      · split at hg' <;> contradiction


/-! ## power, not, unary operators, lists -/

theorem callLookupBin_sound {env : Env} {recv : Term} {name : String} {arg : Term} {sym i m c t}
    (hne : name ≠ "__neg__") (hl : env.methods.lookup name = some (.bin sym i m c))
    (h : callMethod env recv name [arg] = .ok t) : t = .app sym [recv, arg] i m := by
  unfold callMethod at h
  cases hg : getMethod env recv name with
  | error e => simp [hg] at h
  | ok b =>
    simp only [hg, ok_bind] at h
    have := getMethod_of_lookup hne hl hg
    subst this
    simp only [applyBound] at h
    exact opExpr_ok h

theorem factor_sound {env : Env} (hs : env.Sane) {Θ : Interp} (hΘ : PyLaws Θ) (ρ : String → Θ.V) {s : String}
    {right t : Term} (hs' : s = "-" ∨ s = "+") (h : callMethod env right (remap env.factorRemap s) [] = .ok t) :
    evalTerm Θ ρ t = Θ.app s [evalTerm Θ ρ right] := by
  rcases hs' with rfl | rfl
  · obtain ⟨hr, hl⟩ := sane_neg hs
    rw [hr] at h
    unfold callMethod at h
    cases hg : getMethod env right "__neg__" with
    | error e => simp [hg] at h
    | ok b =>
      simp only [hg, ok_bind] at h
      unfold getMethod at hg
      split at hg
      · split at hg <;> contradiction
      · split at hg <;> contradiction
      · split at hg
        · injection hg with hg
          subst hg
          cases right with
          | value l =>
            simp only [applyBound] at h
            cases hn : negLit l with
            | error e => simp [hn, Except.map] at h
            | ok l' =>
              simp only [hn, Except.map] at h
              injection h with h
              subst h
              simp [hΘ.negLit l l' hn]
          | col c => simp [applyBound] at h
          | list vs => simp [applyBound] at h
          | dict kvs => simp [applyBound] at h
          | app op args i m => simp [applyBound] at h
        · simp only [hl] at hg
          injection hg with hg
          subst hg
          simp only [applyBound] at h
          have := uopExpr_ok h
          subst this
          simp
  · obtain ⟨hr, hl⟩ := sane_pos hs
    rw [hr] at h
    unfold callMethod at h
    cases hg : getMethod env right "__pos__" with
    | error e => simp [hg] at h
    | ok b =>
      simp only [hg, ok_bind] at h
      have := getMethod_of_lookup (by decide) hl hg
      subst this
      simp only [applyBound, applySpecial] at h
      injection h with h
      subst h
      exact (hΘ.pos _).symm

theorem filterMap_value_len : ∀ vs : List Term, (vs.filterMap valueLit?).length = vs.length →
    vs = (vs.filterMap valueLit?).map Term.value := by
  intro vs
  induction vs with
  | nil => simp
  | cons a as ih =>
    intro hlen
    have hle := List.length_filterMap_le valueLit? as
    cases a with
    | value l =>
      simp only [List.filterMap_cons, valueLit?, List.length_cons, Nat.add_right_cancel_iff] at hlen
      simp only [List.filterMap_cons, valueLit?, List.map_cons]
      rw [← ih hlen]
    | col c => simp only [List.filterMap_cons, valueLit?, List.length_cons] at hlen; omega
    | list _ => simp only [List.filterMap_cons, valueLit?, List.length_cons] at hlen; omega
    | dict _ => simp only [List.filterMap_cons, valueLit?, List.length_cons] at hlen; omega
    | app _ _ _ _ => simp only [List.filterMap_cons, valueLit?, List.length_cons] at hlen; omega

theorem mkList_ok {vs : List Term} {t : Term} (h : mkList vs = .ok t) :
    ∃ lits, t = .list lits ∧ vs = lits.map Term.value := by
  unfold mkList at h
  simp only at h
  split at h; · contradiction
  split at h; · contradiction
  split at h; · contradiction
  rename_i hlen _ _
  injection h with h
  simp only [ne_eq, Decidable.not_not] at hlen
  exact ⟨_, h.symm, filterMap_value_len vs hlen⟩

theorem evalTerms_map_value (Θ : Interp) (ρ : String → Θ.V) (lits : List Lit) :
    evalTerms Θ ρ (lits.map Term.value) = lits.map Θ.lit := by
  induction lits with
  | nil => simp
  | cons l ls ih => simp [ih]

theorem evalTerm_list (Θ : Interp) (ρ : String → Θ.V) (lits : List Lit) :
    evalTerm Θ ρ (.list lits) = Θ.listV (lits.map Θ.lit) := by simp [evalTerm]


/-! ## the induction over the tree -/

theorem foldConn_sound {Θ : Interp} (hΘ : PyLaws Θ) {op : String}
    (hop : op = "+" ∨ op = "*" ∨ op = "and" ∨ op = "or") {vs : List Θ.V} {v : Θ.V}
    (h : foldConn Θ op vs = some v) : Θ.app op vs = v := by
  match vs, h with
  | [], h => simp [foldConn] at h
  | [_], h => simp [foldConn] at h
  | a :: b :: rest, h =>
    simp only [foldConn, Option.some.injEq] at h
    rw [kary_fold hΘ hop (b :: rest) a (by simp)]
    exact h


section main
set_option linter.unusedSectionVars false
variable {env : Env} (hs : env.Sane) {Θ : Interp} (hΘ : PyLaws Θ) (ρ : String → Θ.V)
include hs hΘ

mutual
theorem walk_sound : ∀ (c : Cst) (t : Term) (v : Θ.V),
    walk env c = .ok t → evalPy Θ ρ c = some v → evalTerm Θ ρ t = v
  | .tok tk, t, v, hw, hp => by
    unfold walk at hw; unfold evalPy at hp
    unfold walkTok at hw
    cases hk : tk.kind <;> simp only [hk] at hw hp
    case name =>
      split at hw
      · cases hw; cases hp; simp [evalTerm]
      · contradiction
    case dec =>
      split at hw
      · rename_i n hn
        simp only [hn, Option.map_some, Option.some.injEq] at hp
        cases hw; simp [← hp]
      · contradiction
    case float =>
      split at hw
      · rename_i q hq
        simp only [hq, Option.map_some, Option.some.injEq] at hp
        cases hw; simp [← hp]
      · contradiction
    case string =>
      split at hw
      · rename_i q hq
        simp only [hq, Option.map_some, Option.some.injEq] at hp
        cases hw; simp [← hp]
      · contradiction
    all_goals contradiction
  | .none, t, v, hw, hp => by unfold evalPy at hp; contradiction
  | .node rule ch, t, v, hw, hp => by
    unfold walk at hw; unfold evalPy at hp
    cases hk : classify rule <;> simp only [hk] at hw hp
    case constTrue => cases hw; cases hp; simp
    case constFalse => cases hw; cases hp; simp
    case constNone => cases hw; cases hp; simp
    case wrapper =>
      match ch, hw, hp with
      | [c], hw, hp => exact walk_sound c t v hw hp
    case arith => exact walkLevel_sound .arith (Or.inl rfl) ch t v hw hp
    case term => exact walkLevel_sound .term (Or.inr (Or.inl rfl)) ch t v hw hp
    case comparison => exact walkLevel_sound .comparison (Or.inr (Or.inr rfl)) ch t v hw hp
    case power =>
      match ch, hw, hp with
      | [a, b], hw, hp =>
        simp only [List.length_cons, List.length_nil, Nat.lt_irrefl, ↓reduceIte, walkAll] at hw
        cases ha : walk env a with
        | error e => simp [ha] at hw
        | ok ta =>
          cases hb : walk env b with
          | error e => simp [ha, hb] at hw
          | ok tb =>
            simp only [ha, hb, ok_bind, pure, Except.pure, List.foldlM] at hw
            cases hpa : evalPy Θ ρ a with
            | none => simp [hpa] at hp
            | some x =>
              cases hpb : evalPy Θ ρ b with
              | none => simp [hpa, hpb] at hp
              | some y =>
                simp only [hpa, hpb, Option.some.injEq] at hp
                obtain ⟨i, m, c, hl⟩ := sane_pow hs
                cases hc : callMethod env ta "__pow__" [tb] with
                | error e => simp [hc] at hw
                | ok r =>
                  simp only [hc, ok_bind] at hw
                  cases hw
                  have := callLookupBin_sound (by decide) hl hc
                  subst this
                  simp [walk_sound a ta x ha hpa, walk_sound b tb y hb hpb, hp]
    case factor =>
      match ch, hw, hp with
      | [o, c], hw, hp =>
        simp only at hw hp
        cases ho : opText o with
        | none => simp [ho] at hp
        | some s =>
          cases hpc : evalPy Θ ρ c with
          | none => simp [ho, hpc] at hp
          | some x =>
            simp only [ho, hpc] at hw hp
            split at hp
            · rename_i hsx
              cases hp
              cases hc : walk env c with
              | error e => simp [hc] at hw
              | ok right =>
                simp only [hc, ok_bind] at hw
                have hs' : s = "-" ∨ s = "+" := by simpa using hsx
                rw [factor_sound hs hΘ ρ hs' hw, walk_sound c right x hc hpc]
            · contradiction
    case funccall =>
      match ch, hw, hp with
      | [.node crule cch, more], hw, hp =>
        simp only [List.length_cons, List.length_nil, Nat.lt_irrefl, ↓reduceIte, gt_iff_lt] at hw hp
        by_cases hga : (crule == "getattr") = true
        · simp only [hga, ↓reduceIte] at hw hp
          match cch, hw, hp with
          | [recv, .tok nm], hw, hp =>
            simp only [opText] at hw hp
            split at hp
            · contradiction
            · rename_i hd
              have hd' : isDunder nm.text = false := by simpa using hd
              cases hpr : evalPy Θ ρ recv with
              | none => simp [hpr] at hp
              | some r =>
                cases hpa : evalPyArgs Θ ρ [more] with
                | none => simp [hpr, hpa] at hp
                | some args =>
                  simp only [hpr, hpa, Option.some.injEq] at hp
                  cases hwr : walk env recv with
                  | error e => simp [hwr] at hw
                  | ok var =>
                    cases hwa : walkArgs env [more] with
                    | error e => simp [hwr, hwa] at hw
                    | ok targs =>
                      simp only [hwr, hwa, ok_bind] at hw
                      rw [callMethod_sound hs Θ ρ hd' hw, walk_sound recv var r hwr hpr,
                        walkArgs_sound [more] targs args hwa hpa, hp]
        · have hga' : (crule == "getattr") = false := by simpa using hga
          simp only [hga', Bool.false_eq_true, ↓reduceIte] at hw hp
          split at hp
          · match cch, hw, hp with
            | [.tok f], hw, hp =>
              simp only at hw hp
              cases hpa : evalPyArgs Θ ρ [more] with
              | none => simp [hpa] at hp
              | some args =>
                simp only [hpa, Option.map_some, Option.some.injEq] at hp
                cases hwa : walkArgs env [more] with
                | error e => simp [hwa] at hw
                | ok targs =>
                  simp only [hwa, ok_bind] at hw
                  have := mkExpr_ok hw
                  subst this
                  simp [walkArgs_sound [more] targs args hwa hpa, hp]
          · contradiction
    case orTest =>
      cases hpa : evalPyAll Θ ρ ch with
      | none => simp [hpa] at hp
      | some vs =>
        simp only [hpa] at hp
        split at hw
        · contradiction
        · cases hwa : walkAll env ch with
          | error e => simp [hwa] at hw
          | ok children =>
            simp only [hwa, ok_bind] at hw
            have := kopExpr_ok hw
            subst this
            simp only [evalTerm_app, walkAll_sound ch children vs hwa hpa]
            exact foldConn_sound hΘ (by decide) hp
    case andTest =>
      cases hpa : evalPyAll Θ ρ ch with
      | none => simp [hpa] at hp
      | some vs =>
        simp only [hpa] at hp
        split at hw
        · contradiction
        · cases hwa : walkAll env ch with
          | error e => simp [hwa] at hw
          | ok children =>
            simp only [hwa, ok_bind] at hw
            have := kopExpr_ok hw
            subst this
            simp only [evalTerm_app, walkAll_sound ch children vs hwa hpa]
            exact foldConn_sound hΘ (by decide) hp
    case not =>
      match ch, hw, hp with
      | [c], hw, hp =>
        simp only at hw hp
        cases hpc : evalPy Θ ρ c with
        | none => simp [hpc] at hp
        | some x =>
          simp only [hpc, Option.map_some, Option.some.injEq] at hp
          cases hc : walk env c with
          | error e => simp [hc] at hw
          | ok left =>
            simp only [hc, ok_bind] at hw
            obtain ⟨i, m, c', hl⟩ := sane_eq hs
            have := callLookupBin_sound (by decide) hl hw
            subst this
            simp [walk_sound c left x hc hpc, hΘ.notEq, hp]
    case collection =>
      match ch, hw, hp with
      | [.node r2 items], hw, hp =>
        simp only at hw hp
        split at hw
        · rename_i hr2
          simp only [hr2, ↓reduceIte] at hp
          cases hpa : evalPyAll Θ ρ items with
          | none => simp [hpa] at hp
          | some vs =>
            simp only [hpa, Option.map_some, Option.some.injEq] at hp
            cases hwa : walkAll env items with
            | error e => simp [hwa] at hw
            | ok ts =>
              simp only [hwa, ok_bind] at hw
              obtain ⟨lits, rfl, hts⟩ := mkList_ok hw
              have := walkAll_sound items ts vs hwa hpa
              rw [hts, evalTerms_map_value] at this
              rw [evalTerm_list, this, hp]
        · rename_i hr2
          simp only [hr2, Bool.false_eq_true, ↓reduceIte] at hp
          cases hpc : evalPy Θ ρ (.node r2 items) with
          | none => simp [hpc] at hp
          | some x =>
            simp only [hpc, Option.map_some, Option.some.injEq] at hp
            cases hc : walk env (.node r2 items) with
            | error e => simp [hc] at hw
            | ok tv =>
              simp only [hc, ok_bind] at hw
              obtain ⟨lits, rfl, hts⟩ := mkList_ok hw
              have := walk_sound (.node r2 items) tv x hc hpc
              match lits, hts with
              | [l], hts =>
                simp only [List.map_cons, List.map_nil, List.cons.injEq, and_true] at hts
                subst hts
                simp only [evalTerm_value] at this
                simp [evalTerm_list, this, hp]
      | [.tok tk], hw, hp =>
        simp only at hw hp
        cases hpc : evalPy Θ ρ (.tok tk) with
        | none => simp [hpc] at hp
        | some x =>
          simp only [hpc, Option.map_some, Option.some.injEq] at hp
          cases hc : walk env (.tok tk) with
          | error e => simp [hc] at hw
          | ok tv =>
            simp only [hc, ok_bind] at hw
            obtain ⟨lits, rfl, hts⟩ := mkList_ok hw
            have := walk_sound (.tok tk) tv x hc hpc
            match lits, hts with
            | [l], hts =>
              simp only [List.map_cons, List.map_nil, List.cons.injEq, and_true] at hts
              subst hts
              simp only [evalTerm_value] at this
              simp [evalTerm_list, this, hp]
      | [.none], hw, hp => simp [evalPy] at hp
    case bitwise => contradiction
    case dict => contradiction
    case keyValue => contradiction
    case other => contradiction
theorem walkLevel_sound : ∀ (kind : RuleKind), (kind = .arith ∨ kind = .term ∨ kind = .comparison) →
    ∀ (ch : List Cst) (t : Term) (v : Θ.V),
    walkLevel env kind ch = .ok t → evalPyLevel Θ ρ kind ch = some v → evalTerm Θ ρ t = v
  | kind, hkind, [], t, v, hw, hp => by unfold evalPyLevel at hp; contradiction
  | kind, hkind, c :: rest, t, v, hw, hp => by
    unfold walkLevel at hw; unfold evalPyLevel at hp
    cases hpc : evalPy Θ ρ c with
    | none => simp [hpc] at hp
    | some v0 =>
    cases hops : opTexts rest with
    | none => simp [hpc, hops] at hp
    | some ops =>
    cases hpo : evalPyOdd Θ ρ rest with
    | none => simp [hpc, hops, hpo] at hp
    | some vs =>
    simp only [hpc, hops, hpo] at hp
    split at hw
    · contradiction
    simp only [hops] at hw
    cases hm : levelMode kind ops with
    | kary op =>
      simp only [hm] at hw
      cases hwc : walk env c with
      | error e => simp [hwc] at hw
      | ok first =>
      cases hwo : walkOdd env rest with
      | error e => simp [hwc, hwo] at hw
      | ok others =>
      simp only [hwc, hwo, ok_bind] at hw
      have := kopExpr_ok hw
      subst this
      simp only [evalTerm_app, evalTerms_cons, walk_sound c first v0 hwc hpc, walkOdd_sound rest others vs hwo hpo]
      -- the mode says: all operators are the same `+` / `*`, and the rule is arith_expr / term
      unfold levelMode at hm
      split at hm
      · rename_i hcond
        injection hm with hm
        simp only [Bool.and_eq_true, Bool.or_eq_true, beq_iff_eq] at hcond
        obtain ⟨⟨hsame, hk2⟩, hhead⟩ := hcond
        cases ops with
        | nil => simp [allSame] at hsame
        | cons o os =>
          simp only [List.headD_cons] at hm
          subst hm
          simp only [List.head?_cons, Option.some.injEq] at hhead
          have hnotcmp : (kind == RuleKind.comparison) = false := by
            rcases hk2 with h | h <;> subst h <;> rfl
          simp only [hnotcmp, Bool.false_and, Bool.false_eq_true, ↓reduceIte, List.length_cons, ge_iff_le,
            Nat.le_add_left] at hp
          cases vs with
          | nil => simp [foldLeft] at hp
          | cons x xs =>
            have hp' := hp
            simp only [foldLeft] at hp'
            cases hb : binSym kind o with
            | none => simp [hb] at hp'
            | some sym =>
              have hsym : sym = o := by
                unfold binSym at hb
                rcases hk2 with h | h <;> subst h <;> simp only at hb <;>
                  rcases hhead with h2 | h2 <;> subst h2 <;> simp at hb <;> exact hb.symm
              rw [hsym] at hb
              have hall : (o :: os).all (· == o) = true := by
                simp only [allSame] at hsame
                simp [hsame]
              obtain ⟨h1, h2⟩ := foldLeft_same hb (o :: os) (x :: xs) v0 v hall hp
              rw [h1]
              exact kary_fold hΘ (by rcases hhead with h | h <;> simp [h]) (x :: xs) v0 (by simp)
      · split at hm <;> contradiction
    | cmpChain =>
      simp only [hm] at hw
      unfold levelMode at hm
      split at hm
      · contradiction
      · split at hm
        · rename_i hcond
          simp only [Bool.and_eq_true, beq_iff_eq, decide_eq_true_eq] at hcond
          obtain ⟨hk2, hlen⟩ := hcond
          subst hk2
          have : (RuleKind.comparison == RuleKind.comparison && decide (ops.length ≥ 2)) = true := by simp [hlen]
          simp only [this, ↓reduceIte] at hp
          cases hpw : pairwise Θ (v0 :: vs) ops with
          | none => simp [hpw] at hp
          | some cs =>
            simp only [hpw] at hp
            cases hwc : walk env c with
            | error e => simp [hwc] at hw
            | ok first =>
            cases hwo : walkOdd env rest with
            | error e => simp [hwc, hwo] at hw
            | ok others =>
            simp only [hwc, hwo, ok_bind] at hw
            cases hcc : chainComparisons env (first :: others) ops with
            | error e => simp [hcc] at hw
            | ok comps =>
              simp only [hcc, ok_bind] at hw
              have := kopExpr_ok hw
              subst this
              have hev : evalTerms Θ ρ (first :: others) = v0 :: vs := by
                simp [walk_sound c first v0 hwc hpc, walkOdd_sound rest others vs hwo hpo]
              have := chain_sound hs Θ ρ ops (first :: others) comps cs hcc (by rw [hev]; exact hpw)
              simp only [evalTerm_app, this]
              exact foldConn_sound hΘ (by decide) hp
        · contradiction
    | linear =>
      simp only [hm] at hw
      cases hwc : walk env c with
      | error e => simp [hwc] at hw
      | ok res =>
        simp only [hwc, ok_bind] at hw
        have hfold : foldLeft Θ kind v0 ops vs = some v := by
          unfold levelMode at hm
          split at hm
          · contradiction
          · split at hm
            · contradiction
            · rename_i hnc
              simp only [hnc, Bool.false_eq_true, ↓reduceIte] at hp
              split at hp
              · exact hp
              · contradiction
        rw [← walk_sound c res v0 hwc hpc] at hfold
        exact walkChain_sound rest res t kind ops vs v hw hops hpo hfold
theorem walkChain_sound : ∀ (rest : List Cst) (res t : Term) (kind : RuleKind) (ops : List String) (vs : List Θ.V)
    (v : Θ.V), walkChain env res rest = .ok t → opTexts rest = some ops → evalPyOdd Θ ρ rest = some vs →
    foldLeft Θ kind (evalTerm Θ ρ res) ops vs = some v → evalTerm Θ ρ t = v
  | [], res, t, kind, ops, vs, v, hw, hops, hpo, hf => by
    unfold walkChain at hw; unfold opTexts at hops; unfold evalPyOdd at hpo
    cases hw; cases hops; cases hpo
    simp only [foldLeft, Option.some.injEq] at hf
    exact hf
  | [_], res, t, kind, ops, vs, v, hw, hops, hpo, hf => by
    unfold opTexts at hops; contradiction
  | o :: c :: rest, res, t, kind, ops, vs, v, hw, hops, hpo, hf => by
    unfold walkChain at hw; unfold opTexts at hops; unfold evalPyOdd at hpo
    cases ho : opText o with
    | none => simp [ho] at hops
    | some s =>
    cases hor : opTexts rest with
    | none => simp [ho, hor] at hops
    | some ss =>
    simp only [ho, hor, Option.some.injEq] at hops
    subst hops
    cases hpc : evalPy Θ ρ c with
    | none => simp [hpc] at hpo
    | some x =>
    cases hpr : evalPyOdd Θ ρ rest with
    | none => simp [hpc, hpr] at hpo
    | some xs =>
    simp only [hpc, hpr, Option.some.injEq] at hpo
    subst hpo
    simp only [ho] at hw
    simp only [foldLeft] at hf
    cases hb : binSym kind s with
    | none => simp [hb] at hf
    | some sym =>
    simp only [hb] at hf
    cases hg : getMethod env res (remap env.opRemap s) with
    | error e => simp [hg] at hw
    | ok b =>
    cases hwc : walk env c with
    | error e => simp [hg, hwc] at hw
    | ok arg =>
    cases hab : applyBound env b res [arg] with
    | error e => simp [hg, hwc, hab] at hw
    | ok res' =>
    simp only [hg, hwc, hab, ok_bind] at hw
    obtain ⟨i, m, hr⟩ := binop_sound hs hb hg hab
    subst hr
    refine walkChain_sound rest _ t kind ss xs v hw hor hpr ?_
    simp only [evalTerm_app, evalTerms_cons, evalTerms_nil, walk_sound c arg x hwc hpc]
    exact hf
theorem walkAll_sound : ∀ (cs : List Cst) (ts : List Term) (vs : List Θ.V),
    walkAll env cs = .ok ts → evalPyAll Θ ρ cs = some vs → evalTerms Θ ρ ts = vs
  | [], ts, vs, hw, hp => by
    unfold walkAll at hw; unfold evalPyAll at hp
    cases hw; cases hp; simp
  | c :: cs, ts, vs, hw, hp => by
    unfold walkAll at hw; unfold evalPyAll at hp
    cases hpc : evalPy Θ ρ c with
    | none => simp [hpc] at hp
    | some x =>
    cases hpr : evalPyAll Θ ρ cs with
    | none => simp [hpc, hpr] at hp
    | some xs =>
    simp only [hpc, hpr, Option.some.injEq] at hp
    cases hwc : walk env c with
    | error e => simp [hwc] at hw
    | ok t =>
    cases hwr : walkAll env cs with
    | error e => simp [hwc, hwr] at hw
    | ok ts' =>
    simp only [hwc, hwr, ok_bind, pure, Except.pure] at hw
    cases hw
    simp [walk_sound c t x hwc hpc, walkAll_sound cs ts' xs hwr hpr, hp]
theorem walkOdd_sound : ∀ (cs : List Cst) (ts : List Term) (vs : List Θ.V),
    walkOdd env cs = .ok ts → evalPyOdd Θ ρ cs = some vs → evalTerms Θ ρ ts = vs
  | [], ts, vs, hw, hp => by
    unfold walkOdd at hw; unfold evalPyOdd at hp
    cases hw; cases hp; simp
  | [_], ts, vs, hw, hp => by
    unfold evalPyOdd at hp; contradiction
  | _ :: c :: cs, ts, vs, hw, hp => by
    unfold walkOdd at hw; unfold evalPyOdd at hp
    cases hpc : evalPy Θ ρ c with
    | none => simp [hpc] at hp
    | some x =>
    cases hpr : evalPyOdd Θ ρ cs with
    | none => simp [hpc, hpr] at hp
    | some xs =>
    simp only [hpc, hpr, Option.some.injEq] at hp
    cases hwc : walk env c with
    | error e => simp [hwc] at hw
    | ok t =>
    cases hwr : walkOdd env cs with
    | error e => simp [hwc, hwr] at hw
    | ok ts' =>
    simp only [hwc, hwr, ok_bind, pure, Except.pure] at hw
    cases hw
    simp [walk_sound c t x hwc hpc, walkOdd_sound cs ts' xs hwr hpr, hp]
theorem walkArgs_sound : ∀ (more : List Cst) (ts : List Term) (vs : List Θ.V),
    walkArgs env more = .ok ts → evalPyArgs Θ ρ more = some vs → evalTerms Θ ρ ts = vs
  | [.node _ a], ts, vs, hw, hp => by
    unfold walkArgs at hw; unfold evalPyArgs at hp
    exact walkAll_sound a ts vs hw hp
  | [.none], ts, vs, hw, hp => by
    unfold walkArgs at hw; unfold evalPyArgs at hp
    cases hw; cases hp; simp
  | [.tok _], ts, vs, hw, hp => by unfold evalPyArgs at hp; contradiction
  | [], ts, vs, hw, hp => by unfold evalPyArgs at hp; contradiction
  | _ :: _ :: _, ts, vs, hw, hp => by unfold evalPyArgs at hp; simp at hp
end

end main

end DAVerif.Expr
