import DAVerif.Proofs.Builders
/-!
Normal forms of the node constructors `mk*` of `Ops/Builder.lean`: each is a check that only reads the
*column names* of its sources (and, for join / concat, their table descriptions), followed by the node.
-/
namespace DAVerif

theorem forIn_ok?C {α : Type} (l : List α) (f : α → Bool) (e : Err) :
    (forIn l PUnit.unit fun a (_ : PUnit) => (do
        ok? (f a) e
        pure (ForInStep.yield PUnit.unit) : Except Err (ForInStep PUnit))) = ok? (l.all f) e := by
  induction l with
  | nil => rfl
  | cons a l ih =>
    simp only [List.forIn_cons, List.all_cons, bind_assoc, pure_bind]
    cases h : f a
    · rfl
    · simp only [Bool.true_and]
      rw [← ih]
      rfl

theorem ok?_bind_eq_ok {α : Type} {c : Bool} {e : Err} {f : Unit → Except Err α} {x : α} :
    (ok? c e >>= f) = .ok x ↔ c = true ∧ f () = .ok x := by
  cases c <;> simp [ok?, bind, Except.bind]

theorem ok_bind {α β : Type} (a : α) (f : α → Except Err β) : ((Except.ok a : Except Err α) >>= f) = f a := rfl

theorem except_bind_eq_ok {α β : Type} {x : Except Err α} {f : α → Except Err β} {y : β} :
    (x >>= f) = .ok y ↔ ∃ a, x = .ok a ∧ f a = .ok y := by
  cases x <;> simp [bind, Except.bind]

/-! ### the checks, as functions of the source's column names -/

def extendChk (sc : List String) (ops : Assign) (pa : PartArg) (od rv : List String) : Except Err Unit := do
  ok? (subset (Term.colsUsedOps ops) sc) .keyError
  ok? (nodupB pa.cols') .valueError
  ok? (nodupB od) .valueError
  ok? (nodupB rv) .valueError
  ok? (subset pa.cols' sc) .valueError
  ok? (subset od sc) .valueError
  ok? (subset rv od) .valueError
  ok? (disjoint (ops.map (·.1)) (pa.cols' ++ od ++ rv)) .valueError
  ok? (!stepWindowed ops pa od || ops.all (fun kv => windowOpOk sc (!od.isEmpty) kv.2)) .valueError

theorem mkExtend_eqC (src : Ops) (ops : Assign) (pa : PartArg) (od rv : List String) :
    mkExtend src ops pa od rv = extendChk src.cols ops pa od rv >>= fun _ =>
      .ok (.extend src ops pa.cols' od rv (stepWindowed ops pa od)) := by
  unfold mkExtend extendChk
  cases pa <;> simp only [PartArg.cols', stepWindowed, bind_assoc, forIn_ok?C]
  · generalize (impliesWindowed ops || false || !od.isEmpty) = w
    cases w <;> rfl
  · generalize (impliesWindowed ops || true || !od.isEmpty) = w
    cases w <;> rfl
  · rename_i cs
    generalize (impliesWindowed ops || !cs.isEmpty || !od.isEmpty) = w
    cases w <;> rfl

def projectChk (sc : List String) (ops : Assign) (g : List String) : Except Err Unit := do
  ok? (subset (g ++ Term.colsUsedOps ops) sc) .keyError
  ok? (nodupB g) .valueError
  ok? (!(appendNew g (ops.map (·.1))).isEmpty) .assertionError
  ok? (ops.all (fun kv => projectOpOk kv.2)) .valueError

theorem mkProject_eq (src : Ops) (ops : Assign) (g : List String) :
    mkProject src ops g = projectChk src.cols ops g >>= fun _ => .ok (.project src ops g) := by
  unfold mkProject projectChk
  simp only [bind_assoc, forIn_ok?C]
  rfl

def selectChk (sc cs : List String) : Except Err Unit := do
  ok? (!cs.isEmpty) .valueError
  ok? (subset cs sc) .keyError
  ok? (nodupB cs) .assertionError

/-- the node `SelectColumnsNode` constructs: a selection directly over a selection skips it -/
def selectNode (src : Ops) (cs : List String) : Ops :=
  match src with
  | .selectCols s _ => .selectCols s cs
  | _ => .selectCols src cs

theorem mkSelectCols_eq (src : Ops) (cs : List String) :
    mkSelectCols src cs = selectChk src.cols cs >>= fun _ => .ok (selectNode src cs) := by
  unfold mkSelectCols selectChk selectNode
  simp only [bind_assoc]
  cases src <;> rfl

def dropChk (sc ds : List String) : Except Err Unit := do
  ok? (subset ds sc) .keyError
  ok? (!(sc.filter (fun c => !ds.contains c)).isEmpty) .valueError

theorem mkDropCols_eq (src : Ops) (ds : List String) :
    mkDropCols src ds = dropChk src.cols ds >>= fun _ => .ok (.dropCols src ds) := by
  unfold mkDropCols dropChk
  simp only [bind_assoc]
  rfl

def orderChk (sc cs rv : List String) : Except Err Unit := do
  ok? (subset cs sc) .valueError
  ok? (subset rv cs) .valueError

theorem mkOrder_eq (src : Ops) (cs rv : List String) (lim : Option Nat) :
    mkOrder src cs rv lim = orderChk src.cols cs rv >>= fun _ => .ok (.order src cs rv lim) := by
  unfold mkOrder orderChk
  simp only [bind_assoc]
  rfl

/-- the column names a `rename_columns` node declares over source columns `sc` -/
def renameCols (sc : List String) (m : List (String × String)) : List String :=
  sc.map (fun c => (lookupLast (m.map (fun kv => (kv.2, kv.1))) c).getD c)

def renameChk (sc : List String) (m : List (String × String)) : Except Err Unit := do
  ok? (subset (m.map (·.2)) sc) .valueError
  ok? (((sc.filter (fun c => !(inter (m.map (·.1)) (m.map (·.2))).contains c)).filter
    (fun c => (m.map (·.1)).contains c)).isEmpty) .valueError
  ok? (nodupB (renameCols sc m)) .assertionError

theorem mkRename_eq (src : Ops) (m : List (String × String)) :
    mkRename src m = renameChk src.cols m >>= fun _ => .ok (.rename src m) := by
  unfold mkRename renameChk
  simp only [bind_assoc]
  rfl

def mapRemap (m : List (String × Option String)) : List (String × String) :=
  m.filterMap (fun kv => kv.2.map (fun v => (kv.1, v)))
def mapDels (m : List (String × Option String)) : List String :=
  (m.filter (fun kv => kv.2.isNone)).map (·.1)

/-- the column names a `map_columns` node declares over source columns `sc` -/
def mapColsCols (sc : List String) (remap : List (String × String)) (dels : List String) : List String :=
  (sc.filter (fun c => !dels.contains c)).map (fun c => (lookupLast remap c).getD c)

def mapColsChk (sc : List String) (m : List (String × Option String)) : Except Err Unit := do
  ok? (subset (m.map (·.1)) sc) .valueError
  ok? (((sc.filter (fun c => !(inter ((mapRemap m).map (·.2)) (m.map (·.1))).contains c)).filter
    (fun c => ((mapRemap m).map (·.2)).contains c)).isEmpty) .valueError
  ok? (!(mapColsCols sc (mapRemap m) (mapDels m)).isEmpty) .assertionError
  ok? (nodupB (mapColsCols sc (mapRemap m) (mapDels m))) .assertionError

theorem mkMapCols_eq (src : Ops) (m : List (String × Option String)) :
    mkMapCols src m = mapColsChk src.cols m >>= fun _ => .ok (.mapCols src (mapRemap m) (mapDels m)) := by
  unfold mkMapCols mapColsChk
  simp only [bind_assoc]
  rfl

def joinChk (ca cb : List String) (ta tb : List (String × List String)) (onA onB : List String) (jt : String)
    (check : Bool) : Except Err JoinType := do
  ok? (tablesConsistent ta tb) .valueError
  ok? (onA.length == onB.length) .assertionError
  ok? (subset onA ca) .keyError
  ok? (subset onB cb) .keyError
  ok? (!check || ((inter ca cb).filter (fun c => !(inter onA onB).contains c)).isEmpty) .keyError
  match JoinType.parse jt with
  | none => throw .keyError
  | some t =>
    ok? (!(t == .cross && !onA.isEmpty)) .valueError
    return t

theorem mkJoin_eq (a b : Ops) (onA onB : List String) (jt : String) (check : Bool) :
    mkJoin a b onA onB jt check = joinChk a.cols b.cols a.tables b.tables onA onB jt check >>= fun t =>
      .ok (.join a b onA onB t) := by
  unfold mkJoin joinChk
  simp only [bind_assoc]
  cases check
  · simp only [Bool.false_eq_true, if_false, Bool.not_false, Bool.true_or, ok?_trueC, pure_bind, ok_bind]
    cases JoinType.parse jt
    · simp only [throw, throwThe, MonadExceptOf.throw, bind, Except.bind]
    · simp only [bind_assoc, pure_bind]; rfl
  · simp only [if_true, Bool.not_true, Bool.false_or]
    cases JoinType.parse jt
    · simp only [throw, throwThe, MonadExceptOf.throw, bind, Except.bind]
    · simp only [bind_assoc, pure_bind]; rfl

def concatChk (ca cb : List String) (ta tb : List (String × List String)) (idc : Option String) :
    Except Err Unit := do
  ok? (tablesConsistent ta tb) .valueError
  ok? (subset ca cb && subset cb ca) .valueError
  ok? (match idc with | some c => !ca.contains c | none => true) .valueError

theorem mkConcat_eq (a b : Ops) (idc : Option String) (an bn : String) :
    mkConcat a b idc an bn = concatChk a.cols b.cols a.tables b.tables idc >>= fun _ =>
      .ok (.concat a b idc an bn) := by
  unfold mkConcat concatChk
  simp only [bind_assoc]
  cases idc <;> rfl

def convertChk (sc : List String) (rm : RecMap) : Except Err Unit := do
  ok? (subset rm.needed sc) .valueError
  ok? (!rm.produced.isEmpty) .assertionError
  ok? (nodupB rm.produced) .assertionError

theorem mkConvert_eq (src : Ops) (rm : RecMap) :
    mkConvert src rm = convertChk src.cols rm >>= fun _ => .ok (.convert src rm) := by
  unfold mkConvert convertChk
  simp only [bind_assoc]
  rfl

theorem parseAssignments_eqC (cols : List String) (ops : Assign) :
    parseAssignments cols ops = (do
      ok? (nodupB (ops.map (·.1))) .valueError
      ok? (ops.all (fun kv => subset (Term.colsRaw kv.2) cols)) .nameError
      ok? (disjoint (ops.map (·.1))
        (ops.flatMap (fun kv => (Term.colsRaw kv.2).filter (fun c => c != kv.1)))) .valueError
      pure ops) := by
  unfold parseAssignments
  simp only [forIn_ok?C]

end DAVerif
