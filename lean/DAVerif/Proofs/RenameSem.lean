import DAVerif.Proofs.RenameBasic
/-!
Renaming, executor model: every operator of `sem` (Sem/Eval.lean) commutes with an injective renaming of the columns;
one lemma per node kind, then `sem_ren` by induction on the pipeline.
-/
namespace DAVerif
namespace Ren

open Function (Injective)

variable {f : String → String}

/-- the law the abstract record-transform interpretation has to satisfy: renaming the record map and the table
renames the result (and the error, if any, is the same) -/
def ConvertEquivariant (Θ : Interp) : Prop :=
  ∀ ρ : ColRen, Injective ρ → ∀ (rm : RecMap) (t : Table),
    Θ.convert (rm.rename ρ) (t.rename ρ) = (Θ.convert rm t).map (Table.rename ρ)

/-! ### expressions -/
mutual
theorem evalTerm_rename (Θ : Interp) (hf : Injective f) (r : Row) :
    ∀ t : Term, evalTerm Θ (r.rename f) (t.rename f) = evalTerm Θ r t
  | .value _ => rfl
  | .col c => by simp only [Term.rename, evalTerm, Row.get_rename hf]
  | .list _ => rfl
  | .dict _ => rfl
  | .app op args _ _ => by simp only [Term.rename, evalTerm, evalArgs_rename Θ hf r args]
theorem evalArgs_rename (Θ : Interp) (hf : Injective f) (r : Row) :
    ∀ ts : List Term, evalArgs Θ (r.rename f) (Term.renameList f ts) = evalArgs Θ r ts
  | [] => rfl
  | t :: ts => by simp only [Term.renameList, evalArgs, evalTerm_rename Θ hf r t, evalArgs_rename Θ hf r ts]
end

theorem evalCell_rename (Θ : Interp) (hf : Injective f) (r : Row) (t : Term) :
    evalCell Θ (r.rename f) (t.rename f) = evalCell Θ r t := by
  simp only [evalCell, evalTerm_rename Θ hf]

theorem opName_rename (t : Term) : opName (t.rename f) = opName t := by
  cases t <;> rfl

theorem constArgs_rename (t : Term) : constArgs (t.rename f) = constArgs t := by
  cases t with
  | app op args i m =>
    cases args with
    | nil => rfl
    | cons a rest =>
      simp only [Term.rename, Term.renameList, constArgs, renameList_eq_map, List.map_map]
      apply List.map_congr_left
      intro x _
      cases x <;> rfl
  | _ => rfl

theorem argValues_rename (hf : Injective f) (t : Term) (rows : List Row) :
    argValues (t.rename f) (rows.map (fun r => r.rename f)) = argValues t rows := by
  cases t with
  | app op args i m =>
    cases args with
    | nil => simp [Term.rename, Term.renameList, argValues]
    | cons a rest =>
      cases a with
      | col c =>
        simp only [Term.rename, Term.renameList, argValues, List.map_map]
        apply List.map_congr_left
        intro r _
        exact Row.get_rename hf r c
      | value v => simp [Term.rename, Term.renameList, argValues]
      | list _ => simp [Term.rename, Term.renameList, argValues]
      | dict _ => simp [Term.rename, Term.renameList, argValues]
      | app _ _ _ _ => simp [Term.rename, Term.renameList, argValues]
  | value _ => simp [Term.rename, argValues]
  | col _ => simp [Term.rename, argValues]
  | list _ => simp [Term.rename, argValues]
  | dict _ => simp [Term.rename, argValues]

/-! ### keys and ordering -/
theorem keyOf_rename (hf : Injective f) (r : Row) (cs : List String) :
    keyOf (r.rename f) (cs.map f) = keyOf r cs := Row.vals_rename hf r cs

theorem rowLe_rename (hf : Injective f) (cs rv : List String) (r1 r2 : Row) :
    rowLe (cs.map f) (rv.map f) (r1.rename f) (r2.rename f) = rowLe cs rv r1 r2 := by
  induction cs with
  | nil => rfl
  | cons c cs ih =>
    simp only [List.map_cons, rowLe, Row.get_rename hf, contains_map hf, ih]

theorem sortRows_rename (hf : Injective f) (cs rv : List String) (rows : List Row) :
    sortRows (cs.map f) (rv.map f) (rows.map (fun r => r.rename f))
      = (sortRows cs rv rows).map (fun r => r.rename f) := by
  unfold sortRows
  exact (List.map_mergeSort (fun a _ b _ => (rowLe_rename hf cs rv a b).symm)).symm

theorem sortIdx_rename (hf : Injective f) (cs rv : List String) (rows : List (Row × Nat)) :
    sortIdx (cs.map f) (rv.map f) (rows.map (fun ri => (ri.1.rename f, ri.2)))
      = (sortIdx cs rv rows).map (fun ri => (ri.1.rename f, ri.2)) := by
  unfold sortIdx
  exact (List.map_mergeSort (fun a _ b _ => (rowLe_rename hf cs rv a.1 b.1).symm)).symm

/-! ### tables -/
theorem Table.selectCols_rename (hf : Injective f) (t : Table) (cs : List String) :
    (t.rename f).selectCols (cs.map f) = (t.selectCols cs).rename f := by
  simp only [Table.selectCols, Table.rename, Row.renameCols, List.map_map, Table.mk.injEq, true_and]
  apply List.map_congr_left
  intro r _
  exact Row.select_rename hf r cs

/-! ### the operators -/
theorem assign_eval_rename (Θ : Interp) (hf : Injective f) (ops : Assign) (r : Row) :
    (Assign.rename f ops).map (fun kv => (kv.1, evalCell Θ (r.rename f) kv.2))
      = (ops.map (fun kv => (kv.1, evalCell Θ r kv.2))).map (fun kv => (f kv.1, kv.2)) := by
  simp only [Assign.rename, List.map_map]
  apply List.map_congr_left
  intro kv _
  simp only [Function.comp, evalCell_rename Θ hf]

theorem semExtendPlain_rename (Θ : Interp) (hf : Injective f) (ops : Assign) (t : Table) (oc : List String) :
    semExtendPlain Θ (Assign.rename f ops) (t.rename f) (oc.map f) = (semExtendPlain Θ ops t oc).rename f := by
  simp only [semExtendPlain, Table.rename, Row.renameCols, List.map_map, Table.mk.injEq, true_and]
  apply List.map_congr_left
  intro r _
  simp only [Function.comp]
  rw [assign_eval_rename Θ hf, Row.setAll_rename hf, Row.select_rename hf]

theorem zipIdx_rename (rows : List Row) :
    (rows.map (fun r => r.rename f)).zipIdx = rows.zipIdx.map (fun ri => (ri.1.rename f, ri.2)) := by
  rw [List.zipIdx_map]
  rfl

theorem semExtendWindow_rename (Θ : Interp) (hf : Injective f) (ops : Assign) (part od rv : List String) (t : Table)
    (oc : List String) :
    semExtendWindow Θ (Assign.rename f ops) (part.map f) (od.map f) (rv.map f) (t.rename f) (oc.map f)
      = (semExtendWindow Θ ops part od rv t oc).rename f := by
  simp only [semExtendWindow, Table.rename, Row.renameCols, zipIdx_rename, List.map_map, Table.mk.injEq, true_and]
  apply List.map_congr_left
  intro ri _
  simp only [Function.comp]
  have hfilt : (t.rows.zipIdx.map (fun ri => (ri.1.rename f, ri.2))).filter
        (fun rj => keyOf rj.1 (part.map f) == keyOf (ri.1.rename f) (part.map f))
      = (t.rows.zipIdx.filter (fun rj => keyOf rj.1 part == keyOf ri.1 part)).map (fun ri => (ri.1.rename f, ri.2)) := by
    rw [List.filter_map]
    congr 1
    apply List.filter_congr
    intro rj _
    simp only [Function.comp, keyOf_rename hf]
  rw [hfilt, sortIdx_rename hf, List.findIdx_map]
  simp only [Function.comp_def, List.map_map]
  have hrows : ∀ l : List (Row × Nat), l.map (fun x => x.1.rename f) = (l.map (·.1)).map (fun r => r.rename f) := by
    intro l; simp [List.map_map, Function.comp_def]
  have hops : (Assign.rename f ops).map (fun kv =>
        (kv.1, Θ.win (opName kv.2) (constArgs kv.2)
          (argValues kv.2 ((sortIdx od rv (t.rows.zipIdx.filter (fun rj => keyOf rj.1 part == keyOf ri.1 part))).map
            (fun x => x.1.rename f)))
          ((sortIdx od rv (t.rows.zipIdx.filter (fun rj => keyOf rj.1 part == keyOf ri.1 part))).findIdx
            (fun x => x.2 == ri.2))))
      = (ops.map (fun kv =>
        (kv.1, Θ.win (opName kv.2) (constArgs kv.2)
          (argValues kv.2 ((sortIdx od rv (t.rows.zipIdx.filter (fun rj => keyOf rj.1 part == keyOf ri.1 part))).map (·.1)))
          ((sortIdx od rv (t.rows.zipIdx.filter (fun rj => keyOf rj.1 part == keyOf ri.1 part))).findIdx
            (fun x => x.2 == ri.2))))).map (fun kv => (f kv.1, kv.2)) := by
    simp only [Assign.rename, List.map_map]
    apply List.map_congr_left
    intro kv _
    simp only [Function.comp, opName_rename, constArgs_rename, hrows, argValues_rename hf]
  rw [hops, Row.setAll_rename hf, Row.select_rename hf]

theorem aggs_rename (Θ : Interp) (hf : Injective f) (ops : Assign) (g : List Row) :
    (Assign.rename f ops).map (fun kv => (kv.1, Θ.agg (opName kv.2) (argValues kv.2 (g.map (fun r => r.rename f)))))
      = (ops.map (fun kv => (kv.1, Θ.agg (opName kv.2) (argValues kv.2 g)))).map (fun kv => (f kv.1, kv.2)) := by
  simp only [Assign.rename, List.map_map]
  apply List.map_congr_left
  intro kv _
  simp only [Function.comp, opName_rename, argValues_rename hf]

theorem zip_rename (g : List String) (k : List Val) :
    (g.map f).zip k = (g.zip k).map (fun kv => (f kv.1, kv.2)) := by
  induction g generalizing k with
  | nil => rfl
  | cons a g ih =>
    cases k with
    | nil => rfl
    | cons b k => simp only [List.map_cons, List.zip_cons_cons, ih]

theorem semProject_rename (Θ : Interp) (hf : Injective f) (ops : Assign) (g : List String) (t : Table)
    (oc : List String) :
    semProject Θ (Assign.rename f ops) (g.map f) (t.rename f) (oc.map f) = (semProject Θ ops g t oc).rename f := by
  unfold semProject
  have hemp : (g.map f).isEmpty = g.isEmpty := by cases g <;> rfl
  rw [hemp]
  split
  · simp only [Table.rename, Row.renameCols, List.map_cons, List.map_nil, Table.mk.injEq, true_and, List.cons.injEq,
      and_true]
    rw [aggs_rename Θ hf]
    exact Row.select_rename hf _ oc
  · have hkeys : (t.rows.map (fun r => r.rename f)).map (fun r => keyOf r (g.map f)) = t.rows.map (fun r => keyOf r g) := by
      simp only [List.map_map]
      apply List.map_congr_left
      intro r _
      exact keyOf_rename hf r g
    simp only [Table.rename, Row.renameCols, hkeys, List.map_map, Table.mk.injEq, true_and]
    apply List.map_congr_left
    intro k _
    simp only [Function.comp]
    have hfilt : (t.rows.map (fun r => r.rename f)).filter (fun r => keyOf r (g.map f) == k)
        = (t.rows.filter (fun r => keyOf r g == k)).map (fun r => r.rename f) := by
      rw [List.filter_map]
      congr 1
      apply List.filter_congr
      intro r _
      simp only [Function.comp, keyOf_rename hf]
    rw [hfilt, aggs_rename Θ hf, zip_rename, ← List.map_append]
    exact Row.select_rename hf _ oc

theorem semSelectRows_rename (Θ : Interp) (hf : Injective f) (e : Term) (t : Table) :
    semSelectRows Θ (e.rename f) (t.rename f) = (semSelectRows Θ e t).rename f := by
  simp only [semSelectRows, Table.rename, Row.renameCols, Table.mk.injEq, true_and]
  rw [List.filter_map]
  congr 1
  apply List.filter_congr
  intro r _
  simp only [Function.comp, evalCell_rename Θ hf]

theorem semOrder_rename (hf : Injective f) (cs rv : List String) (lim : Option Nat) (t : Table) :
    semOrder (cs.map f) (rv.map f) lim (t.rename f) = (semOrder cs rv lim t).rename f := by
  simp only [semOrder, Table.rename, Row.renameCols, sortRows_rename hf, Table.mk.injEq, true_and]
  cases lim with
  | none => rfl
  | some n => simp only [List.map_take]

theorem flatMap_congr' {α β : Type} {l : List α} {g h : α → List β} (e : ∀ a ∈ l, g a = h a) :
    l.flatMap g = l.flatMap h := by
  induction l with
  | nil => rfl
  | cons a l ih =>
    simp only [List.flatMap_cons]
    rw [e a (List.mem_cons_self ..), ih (fun b hb => e b (List.mem_cons_of_mem _ hb))]

theorem Row.rename_mk (l : List String) (g : String → Val) :
    Row.rename (l.map (fun c => (c, g c))) f = l.map (fun c => (f c, g c)) := by
  simp [Row.rename, List.map_map, Function.comp_def]

theorem joinRow_rename (hf : Injective f) (ca cb oc : List String) (ra rb : Option Row) :
    joinRow (ca.map f) (cb.map f) (oc.map f) (ra.map (fun r => r.rename f)) (rb.map (fun r => r.rename f))
      = (joinRow ca cb oc ra rb).rename f := by
  unfold joinRow
  rw [Row.rename_mk, List.map_map]
  apply List.map_congr_left
  intro c _
  simp only [Function.comp, Prod.mk.injEq, true_and]
  cases ra <;> cases rb <;> simp only [Option.map_none, Option.map_some, contains_map hf, Row.get_rename hf]

theorem semJoin_rename (hf : Injective f) (cfg : SemCfg) (jt : JoinType) (oa ob : List String) (ta tb : Table)
    (oc : List String) :
    semJoin cfg jt (oa.map f) (ob.map f) (ta.rename f) (tb.rename f) (oc.map f)
      = (semJoin cfg jt oa ob ta tb oc).rename f := by
  have hemp : (oa.map f).isEmpty = oa.isEmpty := by cases oa <;> rfl
  have hm : ∀ ra rb : Row,
      ((jt == .cross || (oa.map f).isEmpty) || keyMatch cfg (keyOf (ra.rename f) (oa.map f)) (keyOf (rb.rename f) (ob.map f)))
        = ((jt == .cross || oa.isEmpty) || keyMatch cfg (keyOf ra oa) (keyOf rb ob)) := by
    intro ra rb
    rw [hemp, keyOf_rename hf, keyOf_rename hf]
  have hmk2 : ∀ ra rb : Row,
      joinRow (ta.cols.map f) (tb.cols.map f) (oc.map f) (some (ra.rename f)) (some (rb.rename f))
        = (joinRow ta.cols tb.cols oc (some ra) (some rb)).rename f :=
    fun ra rb => joinRow_rename hf _ _ _ (some ra) (some rb)
  have hmkL : ∀ ra : Row,
      joinRow (ta.cols.map f) (tb.cols.map f) (oc.map f) (some (ra.rename f)) none
        = (joinRow ta.cols tb.cols oc (some ra) none).rename f :=
    fun ra => joinRow_rename hf _ _ _ (some ra) none
  have hmkR : ∀ rb : Row,
      joinRow (ta.cols.map f) (tb.cols.map f) (oc.map f) none (some (rb.rename f))
        = (joinRow ta.cols tb.cols oc none (some rb)).rename f :=
    fun rb => joinRow_rename hf _ _ _ none (some rb)
  simp only [semJoin, Table.rename, Row.renameCols, Table.mk.injEq, true_and, List.map_append]
  congr 1
  · congr 1
    · -- matched pairs
      simp only [List.flatMap_map, List.map_flatMap]
      apply flatMap_congr'
      intro ra _
      rw [List.filter_map, List.map_map, List.map_map]
      have : List.filter ((fun rb => (jt == .cross || (oa.map f).isEmpty) ||
            keyMatch cfg (keyOf (ra.rename f) (oa.map f)) (keyOf rb (ob.map f))) ∘ fun r => r.rename f) tb.rows
          = List.filter (fun rb => (jt == .cross || oa.isEmpty) || keyMatch cfg (keyOf ra oa) (keyOf rb ob)) tb.rows := by
        apply List.filter_congr
        intro rb _
        exact hm ra rb
      rw [this]
      apply List.map_congr_left
      intro rb _
      exact hmk2 ra rb
    · -- left only
      split
      · rw [List.filter_map, List.map_map, List.map_map]
        have : List.filter ((fun ra => !(tb.rows.map (fun r => r.rename f)).any (fun rb =>
              (jt == .cross || (oa.map f).isEmpty) || keyMatch cfg (keyOf ra (oa.map f)) (keyOf rb (ob.map f)))) ∘
                fun r => r.rename f) ta.rows
            = List.filter (fun ra => !tb.rows.any (fun rb =>
              (jt == .cross || oa.isEmpty) || keyMatch cfg (keyOf ra oa) (keyOf rb ob))) ta.rows := by
          apply List.filter_congr
          intro ra _
          simp only [Function.comp_def, List.any_map]
          congr 2
          funext rb
          exact hm ra rb
        rw [this]
        apply List.map_congr_left
        intro ra _
        exact hmkL ra
      · rfl
  · split
    · rw [List.filter_map, List.map_map, List.map_map]
      have : List.filter ((fun rb => !(ta.rows.map (fun r => r.rename f)).any (fun ra =>
            (jt == .cross || (oa.map f).isEmpty) || keyMatch cfg (keyOf ra (oa.map f)) (keyOf rb (ob.map f)))) ∘
              fun r => r.rename f) tb.rows
          = List.filter (fun rb => !ta.rows.any (fun ra =>
            (jt == .cross || oa.isEmpty) || keyMatch cfg (keyOf ra oa) (keyOf rb ob))) tb.rows := by
        apply List.filter_congr
        intro rb _
        simp only [Function.comp_def, List.any_map]
        congr 2
        funext ra
        exact hm ra rb
      rw [this]
      apply List.map_congr_left
      intro rb _
      exact hmkR rb
    · rfl

theorem semConcat_rename (hf : Injective f) (idc : Option String) (an bn : String) (ta tb : Table) (oc : List String) :
    semConcat (idc.map f) an bn (ta.rename f) (tb.rename f) (oc.map f) = (semConcat idc an bn ta tb oc).rename f := by
  cases idc with
  | none =>
    simp only [semConcat, Option.map_none, Table.rename, Row.renameCols, List.map_append, List.map_map,
      Table.mk.injEq, true_and]
    congr 1 <;> (apply List.map_congr_left; intro r _; exact Row.select_rename hf r oc)
  | some c =>
    simp only [semConcat, Option.map_some, Table.rename, Row.renameCols, List.map_append, List.map_map,
      Table.mk.injEq, true_and]
    congr 1 <;>
      (apply List.map_congr_left; intro r _; simp only [Function.comp, Row.set_rename hf, Row.select_rename hf])

theorem renameNode_rows (hf : Injective f) (m : List (String × String)) (rows : List Row) :
    (rows.map (fun r => r.rename f)).map
        (fun r => r.rename (fun c => (lookupLast (m.map (fun kv => (f kv.1, f kv.2))) c).getD c))
      = (rows.map (fun r => r.rename (fun c => (lookupLast m c).getD c))).map (fun r => r.rename f) := by
  simp only [List.map_map]
  apply List.map_congr_left
  intro r _
  simp only [Function.comp, Row.rename_rename]
  apply Row.rename_congr
  intro c _
  simp only [Function.comp]
  exact lookupLast_getD_map hf m c

/-! ### environments -/
theorem env_lookup_rename {ρt : TabRen} (ht : Injective ρt) (ρc : ColRen) (env : Env) (name : String) :
    (Env.rename ρc ρt env).lookup (ρt name) = (env.lookup name).map (Table.rename ρc) :=
  lookup_map ht (Table.rename ρc) env name

/-! ### the whole pipeline -/
theorem map_bind {α β : Type} (g : α → α) (h : β → β) (x : Except Err α) (k k' : α → Except Err β)
    (hk : ∀ a, k' (g a) = (k a).map h) : (x.map g >>= k') = (x >>= k).map h := by
  cases x with
  | error e => rfl
  | ok a => exact hk a

theorem sem_ren (Θ : Interp) (hΘ : ConvertEquivariant Θ) (cfg : SemCfg) {ρc : ColRen} {ρt : TabRen}
    (hc : Injective ρc) (ht : Injective ρt) (env : Env) (p : Ops) :
    sem Θ cfg (Env.rename ρc ρt env) (p.ren ρc ρt) = (sem Θ cfg env p).map (Table.rename ρc) := by
  induction p with
  | table name cs =>
    simp only [Ops.ren, sem, env_lookup_rename ht]
    cases env.lookup name with
    | none => rfl
    | some t =>
      simp only [Option.map_some]
      have : subset (cs.map ρc) (Table.rename ρc t).cols = subset cs t.cols := subset_map hc cs t.cols
      rw [this]
      split
      · simp only [Except.map, Table.selectCols_rename hc]
      · rfl
  | extend src ops part od rv w ih =>
    simp only [Ops.ren, sem, ih]
    refine map_bind _ _ _ _ _ (fun t => ?_)
    have hcols : (Ops.extend (src.ren ρc ρt) (Assign.rename ρc ops) (part.map ρc) (od.map ρc) (rv.map ρc) w).cols
        = (Ops.extend src ops part od rv w).cols.map ρc := cols_ren hc ρt (Ops.extend src ops part od rv w)
    rw [hcols]
    cases w with
    | true => simp only [if_true, pure, Except.pure, Except.map, semExtendWindow_rename Θ hc]
    | false => simp only [Bool.false_eq_true, if_false, pure, Except.pure, Except.map, semExtendPlain_rename Θ hc]
  | project src ops g ih =>
    simp only [Ops.ren, sem, ih]
    refine map_bind _ _ _ _ _ (fun t => ?_)
    have hcols : (Ops.project (src.ren ρc ρt) (Assign.rename ρc ops) (g.map ρc)).cols
        = (Ops.project src ops g).cols.map ρc := cols_ren hc ρt (Ops.project src ops g)
    rw [hcols]
    simp only [pure, Except.pure, Except.map, semProject_rename Θ hc]
  | selectRows src e ih =>
    simp only [Ops.ren, sem, ih]
    refine map_bind _ _ _ _ _ (fun t => ?_)
    simp only [pure, Except.pure, Except.map, semSelectRows_rename Θ hc]
  | selectCols src cs ih =>
    simp only [Ops.ren, sem, ih]
    refine map_bind _ _ _ _ _ (fun t => ?_)
    simp only [pure, Except.pure, Except.map, Table.selectCols_rename hc]
  | dropCols src ds ih =>
    simp only [Ops.ren, sem, ih]
    refine map_bind _ _ _ _ _ (fun t => ?_)
    have hcols : (Ops.dropCols (src.ren ρc ρt) (ds.map ρc)).cols = (Ops.dropCols src ds).cols.map ρc :=
      cols_ren hc ρt (Ops.dropCols src ds)
    rw [hcols]
    simp only [pure, Except.pure, Except.map, Table.selectCols_rename hc]
  | order src cs rv lim ih =>
    simp only [Ops.ren, sem, ih]
    refine map_bind _ _ _ _ _ (fun t => ?_)
    simp only [pure, Except.pure, Except.map, semOrder_rename hc]
  | rename src m ih =>
    simp only [Ops.ren, sem, ih]
    refine map_bind _ _ _ _ _ (fun t => ?_)
    have hcols : (Ops.rename (src.ren ρc ρt) (m.map (fun kv => (ρc kv.1, ρc kv.2)))).cols
        = (Ops.rename src m).cols.map ρc := cols_ren hc ρt (Ops.rename src m)
    rw [hcols]
    simp only [pure, Except.pure, Except.map, Table.rename, Row.renameCols, Table.mk.injEq, true_and,
      Except.ok.injEq]
    have := renameNode_rows hc (m.map (fun kv => (kv.2, kv.1))) t.rows
    simpa only [List.map_map, Function.comp_def] using this
  | mapCols src m ds ih =>
    simp only [Ops.ren, sem, ih]
    refine map_bind _ _ _ _ _ (fun t => ?_)
    have hcols : (Ops.mapCols (src.ren ρc ρt) (m.map (fun kv => (ρc kv.1, ρc kv.2))) (ds.map ρc)).cols
        = (Ops.mapCols src m ds).cols.map ρc := cols_ren hc ρt (Ops.mapCols src m ds)
    rw [hcols]
    simp only [pure, Except.pure, Except.map, Table.rename, Row.renameCols, Table.mk.injEq, true_and,
      Except.ok.injEq, List.map_map]
    apply List.map_congr_left
    intro r _
    simp only [Function.comp, Row.drop_rename hc, Row.rename_rename]
    apply Row.rename_congr
    intro c _
    simp only [Function.comp]
    exact lookupLast_getD_map hc m c
  | join a b oa ob jt iha ihb =>
    simp only [Ops.ren, sem, iha, ihb]
    refine map_bind _ _ _ _ _ (fun ta => ?_)
    refine map_bind _ _ _ _ _ (fun tb => ?_)
    have hcols : (Ops.join (a.ren ρc ρt) (b.ren ρc ρt) (oa.map ρc) (ob.map ρc) jt).cols
        = (Ops.join a b oa ob jt).cols.map ρc := cols_ren hc ρt (Ops.join a b oa ob jt)
    rw [hcols, cols_ren hc, cols_ren hc, appendNew_map hc]
    simp only [pure, Except.pure, Except.map, semJoin_rename hc, Table.selectCols_rename hc]
  | concat a b idc an bn iha ihb =>
    simp only [Ops.ren, sem, iha, ihb]
    refine map_bind _ _ _ _ _ (fun ta => ?_)
    refine map_bind _ _ _ _ _ (fun tb => ?_)
    have hcols : (Ops.concat (a.ren ρc ρt) (b.ren ρc ρt) (idc.map ρc) an bn).cols
        = (Ops.concat a b idc an bn).cols.map ρc := cols_ren hc ρt (Ops.concat a b idc an bn)
    rw [hcols]
    simp only [pure, Except.pure, Except.map, semConcat_rename hc]
  | convert src rm ih =>
    simp only [Ops.ren, sem, ih]
    refine map_bind _ _ _ _ _ (fun t => ?_)
    exact hΘ ρc hc rm t

end Ren
end DAVerif
